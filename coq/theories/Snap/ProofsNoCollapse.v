(** * C02, polygon clause: when no two parts of the polygon collapse onto a common pixel the returned
      polygon is the ring-by-ring concatenation of the routed edges. *)
From Coq Require Import ZArith List Bool Lia Permutation.
From Texel Require Import Prelude.Base Index.Model Snap.Model.
From Texel Require Snap.ProofsKmpSubseq.
From Texel Require Import Snap.ProofsBasics Snap.ProofsSplit Snap.ProofsSplitRefine Snap.ProofsSplitThms
  Snap.ProofsDedupe Snap.ProofsDedupeCancel Snap.ProofsMatch Snap.ProofsLevelRoute Snap.ProofsLevel Snap.ProofsLevelThms.
Import ListNotations.
Open Scope Z_scope.

(** ** splitRing on a repeat-free ring returns the ring itself, whatever the flags *)
Lemma partial_in_path K : Forall (fun q => q <> []) K -> chain K -> forall q x, In q K -> In x q -> In x (path K).
Proof.
  induction K as [| q0 rest IH]; intros Hne Hc q x Hq Hx; [destruct Hq |].
  inversion Hne as [| ? ? Hq0 Hrest]; subst.
  destruct rest as [| q1 R]; [destruct Hq as [<- | []]; exact Hx |].
  rewrite path_cons by discriminate. cbn [chain] in Hc. destruct Hc as [Hl Hc].
  destruct Hq as [<- | Hq].
  - destruct q0 as [| a t0]; [congruence |]. destruct Hx as [<- | Hx]; [| apply in_or_app; right; exact Hx].
    apply in_or_app. left. cbn [hd] in Hl. rewrite <- Hl.
    apply (IH Hrest Hc q1); [left; reflexivity |]. apply last_In. inversion Hrest; assumption.
  - apply in_or_app. left. apply (IH Hrest Hc q x Hq Hx).
Qed.

Lemma aclose_all K : forall u v ring, u <> [] -> Forall (fun q => q <> []) K -> chain (u :: K) ->
  aclose K (u ++ [v]) = Some (ring, []) -> ring = path (u :: K).
Proof.
  induction K as [| q rest IH]; intros u v ring Hu Hne Hc H; cbn [aclose] in H.
  - destruct (closedb (u ++ [v])); [| discriminate]. inversion H. rewrite removelast_last. reflexivity.
  - destruct (closedb (u ++ [v])); [inversion H |].
    inversion Hne as [| ? ? Hq Hrest]; subst.
    assert (Et : q ++ tl (u ++ [v]) = (q ++ tl u) ++ [v]).
    { destruct u; [congruence |]. cbn [tl app]. rewrite app_assoc. reflexivity. }
    rewrite Et in H. cbn [chain] in Hc. destruct Hc as [Hl Hc].
    rewrite (path_merge u q rest Hq). apply (IH (q ++ tl u) v ring); [| exact Hrest | | exact H].
    + intro E. apply app_eq_nil in E. destruct E; congruence.
    + apply (chain_replace_hd _ q); [apply hd_app, Hq | exact Hc].
Qed.

Lemma aloop_nodup_ring isMulti r0 : forall l pref K,
  sinv r0 pref (K, []) -> path K = pref -> pref <> [] -> NoDup (pref ++ l) ->
  aloop isMulti (l ++ [r0]) (K, []) = Some ([], [pref ++ l]).
Proof.
  induction l as [| v l IH]; intros pref K Hs Hp Hne ND.
  - cbn [app aloop isnil]. rewrite app_nil_r. destruct Hs as [Ha _ _]. cbn [fst snd] in Ha.
    destruct K as [| q rest]; [exfalso; apply (a_some _ _ _ Ha); reflexivity |].
    cbn [astep]. rewrite andb_false_r. destruct (aphase q rest [] r0) as [K2 D2] eqn:Eph. cbn [negb].
    pose proof (phase_closing _ _ _ _ _ _ Ha _ _ Eph eq_refl) as E2. subst K2.
    destruct (phase_cases _ _ _ _ _ _ Ha _ _ Eph) as [[ring [B [Hc [-> _]]]] | [_ [E _]]]; [| discriminate].
    assert (Hq : q <> []) by (pose proof (a_ne _ _ _ Ha) as H; inversion H; assumption).
    assert (Hrest : Forall (fun q => q <> []) rest) by (pose proof (a_ne _ _ _ Ha) as H; inversion H; assumption).
    rewrite (aclose_all rest q r0 ring Hq Hrest (a_chain _ _ _ Ha) Hc), Hp. reflexivity.
  - cbn [app aloop]. replace (isnil (l ++ [r0])) with false by (destruct l; reflexivity).
    destruct (astep_nonlast isMulti r0 pref v (K, []) Hs Hne) as [a' [E Hs']].
    assert (Hv : ~ In v pref).
    { intro Hin. apply (NoDup_app_disjoint _ _ v ND Hin). left. reflexivity. }
    assert (Ea : exists K', a' = (K', []) /\ path K' = pref ++ [v]).
    { destruct Hs as [Ha _ _]. cbn [fst snd] in Ha.
      destruct K as [| q rest]; [exfalso; apply (a_some _ _ _ Ha); reflexivity |].
      assert (Hq : q <> []) by (pose proof (a_ne _ _ _ Ha) as H; inversion H; assumption).
      cbn [astep] in E. destruct (negb (isMulti v) && negb false).
      - inversion E; subst a'. eexists. split; [reflexivity |]. rewrite path_snoc by exact Hq. rewrite Hp. reflexivity.
      - destruct (aphase q rest [] v) as [K2 D2] eqn:Eph. cbn [negb] in E. inversion E; subst a'.
        destruct (phase_cases _ _ _ _ _ _ Ha _ _ Eph) as [[ring [B [_ [_ [Er [Hh _]]]]]] | [_ [-> [-> _]]]].
        + exfalso. apply Hv. rewrite <- Hp, <- Hh.
          apply (partial_in_path (q :: rest) (a_ne _ _ _ Ha) (a_chain _ _ _ Ha) (last B q)).
          * rewrite Er. rewrite <- last_cons_default with (d := []). change (q :: B ++ K2) with ((q :: B) ++ K2).
            apply in_or_app. left. apply last_In. discriminate.
          * assert (Hl : last B q <> []).
            { assert (Hin : In (last B q) (q :: rest)).
              { rewrite Er. rewrite <- last_cons_default with (d := []). change (q :: B ++ K2) with ((q :: B) ++ K2).
                apply in_or_app. left. apply last_In. discriminate. }
              pose proof (a_ne _ _ _ Ha) as Hf. rewrite Forall_forall in Hf. apply Hf, Hin. }
            destruct (last B q); [congruence | left; reflexivity].
        + eexists. split; [reflexivity |]. rewrite path_push by discriminate. rewrite path_snoc by exact Hq.
          rewrite Hp. reflexivity. }
    destruct Ea as [K' [-> Hp']]. rewrite E.
    replace (pref ++ v :: l) with ((pref ++ [v]) ++ l) by (rewrite <- app_assoc; reflexivity).
    apply IH; [exact Hs' | exact Hp' | | rewrite <- app_assoc; exact ND].
    intro X. apply app_eq_nil in X. destruct X; discriminate.
Qed.

(** the sets returned for a repeat-free ring of three or more vertices *)
Theorem split_nodup_ring (r : ring) isOuter isMulti : NoDup r -> (3 <= length r)%nat ->
  exists x, (x = r \/ x = rev r) /\
    splitRing r isOuter isMulti = Ok (if isOuter then mkSets [x] [] [] else mkSets [] [x] []) /\
    (if isOuter then 0 <= xprod x else xprod x <= 0) /\
    ((if isOuter then 0 < xprod r else xprod r < 0) -> x = r).
Proof.
  intros ND Hl. destruct r as [| r0 t]; [cbn in Hl; lia |].
  destruct (splitRing_spec (r0 :: t) isOuter isMulti r0 t eq_refl) as [D [rings [Ea [Pm Es]]]].
  pose proof (aloop_nodup_ring isMulti r0 t [r0] [[r0]] (sinv_init r0) eq_refl ltac:(discriminate) ND) as Ea'.
  cbn [app] in Ea'. rewrite Ea in Ea'. inversion Ea'; subst D. apply Permutation_sym, Permutation_length_1_inv in Pm. subst rings.
  set (r := r0 :: t) in *. cbn zeta in Es.
  assert (Hs : smallb r = false) by (unfold smallb; apply Nat.ltb_ge; exact Hl).
  unfold classifyAll in Es. cbn [fold_left] in Es. unfold classify in Es. fold (smallb r) in Es. rewrite Hs in Es.
  cbn [outers inners pointsAndLines app] in Es.
  destruct isOuter.
  - destruct (windingOrderIsCorrect r false) eqn:W; cbn [negb] in Es.
    + exists r. split; [auto |]. split; [exact Es |]. split; [| auto]. destruct (woc_false_ccw r W); lia.
    + exists (rev r). split; [auto |]. split; [exact Es |]. pose proof (woc_false_not r W). rewrite xprod_rev. split; [lia |]. lia.
  - destruct (windingOrderIsCorrect r true) eqn:W; cbn [negb] in Es.
    + exists r. split; [auto |]. split; [exact Es |]. split; [| auto]. destruct (woc_true_cw r W); lia.
    + exists (rev r). split; [auto |]. split; [exact Es |]. pose proof (woc_true_not r W). rewrite xprod_rev. split; [lia |]. lia.
Qed.

(** ** cleanupNewRing on a routed ring whose chain is repeat-free *)
Lemma cleanup_nodup nr o m : NoDup (dropClosing nr) -> (3 <= length (dropClosing nr))%nat ->
  cleanupNewRing nr o m = splitRing (dropClosing nr) o m.
Proof.
  intros ND Hl. rewrite cleanupNewRing_eq. cbn zeta.
  replace (length (dropClosing nr) <? 3)%nat with false by (symmetry; apply Nat.ltb_ge; exact Hl).
  rewrite (ProofsKmpSubseq.kmp_id_NoDup _ ND). cbn [bind]. cbn zeta. rewrite (trimClosing_NoDup _ ND).
  replace (length (dropClosing nr) <? 3)%nat with false by (symmetry; apply Nat.ltb_ge; exact Hl). reflexivity.
Qed.

(** ** the chain of a ring: routeRing over its (normalised) edges, then the closing-vertex removal of
       cleanupNewRing.  It does not depend on the hit maps. *)
Definition chainOf (g : grid) (hots : list (list (Z * Z))) (L idx : nat) (r : ring) : res ring :=
  do routed <- routeOf g hots L idx (ensureCorrectWindingOrder r (negb (Nat.eqb idx 0))) (mkHits [] []);
  Ok (dropClosing (fst routed)).

Fixpoint chainsFrom (g : grid) (hots : list (list (Z * Z))) (L idx : nat) (P : list ring) : res (list ring) :=
  match P with
  | [] => Ok []
  | r :: rest => do c <- chainOf g hots L idx r; do cs <- chainsFrom g hots L (S idx) rest; Ok (c :: cs)
  end.

Definition chains (g : grid) (hots : list (list (Z * Z))) (L : nat) (P : list ring) : res (list ring) :=
  chainsFrom g hots L 0 P.

Lemma routeOf_hits_irrelevant g hots L idx r' st st2 nr st' :
  routeOf g hots L idx r' st = Ok (nr, st') -> exists st2', routeOf g hots L idx r' st2 = Ok (nr, st2').
Proof.
  unfold routeOf. destruct r' as [| first t]; [intro H; inversion H; eauto |].
  rewrite !routeRing_eq. intro H. bind_inv H nr' Ha. inversion H; subst. rewrite Ha. cbn [bind]. eauto.
Qed.

Definition ring_like (c x : ring) : Prop := x = c \/ x = rev c.

(** one ring step on a repeat-free chain *)
Lemma ringStep_nodup g hots L cfg acc idx r c : aAlive acc = true ->
  chainOf g hots L idx r = Ok c -> NoDup c -> (3 <= length c)%nat ->
  exists x st, ring_like c x /\
    ringStep g hots L cfg acc idx r =
      Ok (mkAcc true st (aOuters acc ++ (if Nat.eqb idx 0 then [x] else []))
                (aInners acc ++ (if Nat.eqb idx 0 then [] else [x])) (aPL acc)) /\
    (if Nat.eqb idx 0 then 0 <= xprod x else xprod x <= 0) /\
    ((if Nat.eqb idx 0 then 0 < xprod c else xprod c < 0) -> x = c).
Proof.
  intros Al Hc ND Hl. unfold chainOf in Hc. bind_inv Hc routed Hr. destruct routed as [nr st0]. inversion Hc; subst c. cbn [fst] in *.
  destruct (routeOf_hits_irrelevant _ _ _ _ _ _ (aHits acc) _ _ Hr) as [st Hr'].
  destruct (split_nodup_ring (dropClosing nr) (Nat.eqb idx 0) (isMultiFor st idx) ND Hl) as [x [Hx [Es [Ho Hex]]]].
  exists x, st. split; [exact Hx |]. split; [| split; assumption].
  rewrite ringStep_eq by exact Al. rewrite Hr'. cbn [bind fst snd]. rewrite cleanup_nodup by assumption. rewrite Es. cbn [bind].
  unfold deadb. destruct (Nat.eqb idx 0); cbn [andb outers inners pointsAndLines length Nat.eqb];
    rewrite ?app_nil_r; destruct (keepPointsAndLines cfg); rewrite ?app_nil_r; reflexivity.
Qed.

(** the rings after the first: everything goes to the inner rings *)
Definition inner_of (c x : ring) : Prop := ring_like c x /\ xprod x <= 0 /\ (xprod c < 0 -> x = c).

Lemma ringsLoop_nodup_inner g hots L cfg : forall P idx acc cs, (1 <= idx)%nat -> aAlive acc = true ->
  chainsFrom g hots L idx P = Ok cs -> Forall (fun c => NoDup c /\ (3 <= length c)%nat) cs ->
  exists xs st, Forall2 inner_of cs xs /\
    ringsLoop g hots L cfg acc idx P = Ok (mkAcc true st (aOuters acc) (aInners acc ++ xs) (aPL acc)).
Proof.
  induction P as [| r rest IH]; intros idx acc cs Hi Al Hc Hf; cbn [chainsFrom ringsLoop] in *.
  - inversion Hc; subst. exists [], (aHits acc). split; [constructor |]. rewrite app_nil_r. destruct acc; cbn in *; subst; reflexivity.
  - bind_inv Hc c Hc1. bind_inv Hc cs' Hc2. inversion Hc; subst cs. inversion Hf as [| ? ? [Hn Hl] Hf']; subst.
    destruct (ringStep_nodup g hots L cfg acc idx r c Al Hc1 Hn Hl) as [x [st [Hx [Es [Ho Hex]]]]].
    replace (Nat.eqb idx 0) with false in * by (symmetry; apply Nat.eqb_neq; lia).
    rewrite Es. cbn [bind]. rewrite app_nil_r.
    destruct (IH (S idx) (mkAcc true st (aOuters acc) (aInners acc ++ [x]) (aPL acc)) cs' ltac:(lia) eq_refl Hc2 Hf') as [xs [st' [F E]]].
    cbn [aOuters aInners aPL] in E.
    exists (x :: xs), st'. split; [constructor; [unfold inner_of; auto | exact F] |]. rewrite E, <- app_assoc. reflexivity.
Qed.

(** ** rings with disjoint vertex sets are never equal: dedupeInnersOuters is the identity *)
Lemma ringsAreEqual_disjoint (I J : ring) io jo : I <> [] -> ~ In (hd dp I) J -> ringsAreEqual I J io jo = Ok false.
Proof.
  intros HI Hn. unfold ringsAreEqual. cbn zeta. destruct (negb (zlen I =? zlen J)); [reflexivity |].
  destruct I as [| i0 t]; [congruence |]. cbn [hd] in Hn. rewrite idx_0_cons. cbn [bind].
  match goal with |- context [if (?f J 0 <? 0) then _ else _] => set (index := f) end.
  assert (Hindex : forall l k, ~ In i0 l -> index l k = -1).
  { induction l as [| p l IHl]; intros k Hl; cbn; [reflexivity |].
    destruct (pt_eqb_spec p i0) as [E | N]; [exfalso; apply Hl; left; exact E |]. apply IHl. intro X. apply Hl. right. exact X. }
  rewrite (Hindex J 0 Hn). reflexivity.
Qed.

Lemma concat_disjoint {A} (l : list (list A)) : NoDup (concat l) -> forall i j a b x, i <> j ->
  nth_error l i = Some a -> nth_error l j = Some b -> In x a -> ~ In x b.
Proof.
  induction l as [| h l IH]; intros ND i j a b x Nij Ha Hb Hxa Hxb; [destruct i; discriminate |].
  cbn [concat] in ND. destruct i as [| i], j as [| j]; cbn [nth_error] in *; try congruence.
  - inversion Ha; subst. apply (NoDup_app_disjoint _ _ x ND Hxa). apply in_concat. exists b. split; [eapply nth_error_In; eassumption | exact Hxb].
  - inversion Hb; subst. apply (NoDup_app_disjoint _ _ x ND Hxb). apply in_concat. exists a. split; [eapply nth_error_In; eassumption | exact Hxa].
  - apply (IH (NoDup_app_r _ _ ND) i j a b x); auto.
Qed.

Lemma ringOf_ok outs ins j : 0 <= j < zlen outs + zlen ins ->
  (if j <? zlen outs then idx outs j else idx ins (j - zlen outs)) = Ok (ringAt outs ins j).
Proof.
  intro Hj. unfold ringAt, idx, zlen in *. destruct (Z.ltb_spec j (Z.of_nat (length outs))) as [Hl | Hl].
  - destruct (Z.ltb_spec j 0); [lia |]. rewrite app_nth1 by lia.
    rewrite (nth_error_nth' outs []) by lia. reflexivity.
  - destruct (Z.ltb_spec (j - Z.of_nat (length outs)) 0); [lia |]. rewrite app_nth2 by lia.
    rewrite (nth_error_nth' ins []) by lia. do 2 f_equal. lia.
Qed.

Lemma dedupe_disjoint_id outs ins : Forall (fun x : ring => x <> []) (outs ++ ins) -> NoDup (concat (outs ++ ins)) ->
  dedupeInnersOuters outs ins = Ok (outs, ins).
Proof.
  intros Hne ND. unfold dedupeInnersOuters. set (lenAll := zlen outs + zlen ins).
  assert (Hat : forall j, 0 <= j < lenAll -> nth_error (outs ++ ins) (Z.to_nat j) = Some (ringAt outs ins j)).
  { intros j Hj. unfold ringAt. apply nth_error_nth'. unfold lenAll, zlen in Hj. rewrite app_length. lia. }
  assert (Hstep : forall i p, 0 <= i < lenAll -> dedupeStep outs ins (p, []) i = Ok (p, [])).
  { intros i p Hi. unfold dedupeStep. destruct (mem_Z i p); [reflexivity |].
    rewrite (ringOf_ok outs ins i Hi). cbn [bind]. fold lenAll.
    set (I := ringAt outs ins i).
    assert (HIne : I <> []).
    { rewrite Forall_forall in Hne. apply Hne. eapply nth_error_In, (Hat i Hi). }
    match goal with |- context [foldM ?F ?jj ?a0] => set (F0 := F); set (js := jj) end.
    assert (Hfold : forall l acc, Forall (fun j => i < j < lenAll) l -> foldM F0 l acc = Ok acc).
    { induction l as [| j l IHl]; intros acc Hl; cbn [foldM]; [reflexivity |]. inversion Hl as [| ? ? Hj Hl']; subst.
      unfold F0 at 1. destruct (mem_Z j p); cbn [bind]; [apply IHl, Hl' |].
      rewrite (ringOf_ok outs ins j) by (unfold lenAll in *; lia). cbn [bind].
      rewrite ringsAreEqual_disjoint; [cbn [bind]; apply IHl, Hl' | exact HIne |].
      apply (concat_disjoint (outs ++ ins) ND (Z.to_nat i) (Z.to_nat j) I (ringAt outs ins j)); [lia | apply Hat, Hi | apply Hat; lia |].
      destruct I; [congruence | left; reflexivity]. }
    rewrite Hfold; [reflexivity |]. rewrite Forall_forall. intros j Hj. unfold js in Hj. apply in_map_iff in Hj.
    destruct Hj as [k [<- Hk]]. apply in_seq in Hk. lia. }
  assert (Hall : forall l p, Forall (fun i => 0 <= i < lenAll) l -> exists p', foldM (dedupeStep outs ins) l (p, []) = Ok (p', [])).
  { induction l as [| i l IHl]; intros p Hl; cbn [foldM]; [eauto |]. inversion Hl; subst.
    rewrite Hstep by assumption. cbn [bind]. apply IHl. assumption. }
  destruct (Hall (map Z.of_nat (seq 0 (Z.to_nat lenAll))) []) as [p' E].
  { rewrite Forall_forall. intros i Hi. apply in_map_iff in Hi. destruct Hi as [k [<- Hk]]. apply in_seq in Hk. lia. }
  rewrite E. cbn [bind snd]. f_equal. f_equal.
  - clear. generalize 0. induction outs as [| a l IH]; intro k; cbn [filter_idx mem_Z existsb]; [reflexivity | rewrite IH; reflexivity].
  - clear. generalize (zlen outs). induction ins as [| a l IH]; intro k; cbn [filter_idx mem_Z existsb]; [reflexivity | rewrite IH; reflexivity].
Qed.

(** ** matchInnersToPolygons with a single shell: a hole is attached iff one of its vertices is contained
       in (or on) the shell, in order; otherwise it becomes a shell of its own, reversed *)
Definition containsb (o : ring) (v : pt) : bool :=
  match ringContains o v with Ok (true, _) => true | _ => false end.
Definition attached (o h : ring) : bool := existsb (containsb o) h.

Lemma ringContains_ok (o : ring) v : o <> [] -> exists cb, ringContains o v = Ok cb.
Proof.
  intro H. unfold ringContains. rewrite idx_hd_ne, idx_last_ne by exact H. cbn [bind].
  destruct (rayIntersect v (hd dp o) (last o dp)) as [c0 on0]. destruct on0; eexists; reflexivity.
Qed.

(** the repair of F16 is inert here: no inner ring shares a point with the shell, so no polygon is cancelled
    ([cancelledBy] is empty and nothing is skipped) *)
Lemma cancelledBy_single (o : ring) ins : o <> [] -> Forall (fun h : ring => ~ In (hd dp o) h) ins ->
  cancelledBy [[o]] ins = Ok [].
Proof.
  intros Ho F. unfold cancelledBy. cbn [cancelledByFrom].
  assert (G : forall j, firstEqualInner [o] ins j = Ok None).
  { induction F as [| h ins' Hh F IH]; intro j; cbn [firstEqualInner]; [reflexivity |].
    rewrite idx_0_cons. cbn [bind]. rewrite (ringsAreEqual_disjoint o h true false Ho Hh). cbn [bind]. apply IH. }
  rewrite G. reflexivity.
Qed.

Lemma matchVertices_single innerI (o : ring) acc : o <> [] -> forall verts,
  matchVertices [] innerI [o :: acc] verts [] = Ok (if existsb (containsb o) verts then (Some 0, [(0, 1)]) else (None, [])).
Proof.
  intro Ho. induction verts as [| v verts IH]; [reflexivity |].
  cbn [matchVertices existsb skipCancelled cb_find]. rewrite idx_0_cons. cbn [bind]. unfold containsb at 1.
  destruct (ringContains_ok o v Ho) as [[b on] E]. rewrite E. cbn [bind fst]. destruct b; cbn [orb].
  - reflexivity.
  - cbn. exact IH.
Qed.

Lemma matchInnersLoop_single (o : ring) : o <> [] -> forall inners innerI acc sorted turned,
  matchInnersLoop [] innerI [o :: acc] inners sorted turned =
    Ok ([o :: acc ++ filter (attached o) inners],
        turned ++ map (@rev pt) (filter (fun h => negb (attached o h)) inners)).
Proof.
  intro Ho. induction inners as [| h inners IH]; intros innerI acc sorted turned; cbn [matchInnersLoop filter map].
  - rewrite !app_nil_r. reflexivity.
  - rewrite (matchVertices_single innerI o acc Ho h). cbn [bind]. fold (attached o h). destruct (attached o h); cbn [negb].
    + cbn [append_inner Z.eqb app]. rewrite IH. rewrite <- app_assoc. reflexivity.
    + cbn [length Nat.eqb]. rewrite IH. cbn [map]. rewrite <- app_assoc. reflexivity.
Qed.

Theorem match_single (o : ring) ins : o <> [] -> Forall (fun h : ring => ~ In (hd dp o) h) ins ->
  matchInnersToPolygons [[o]] ins =
    Ok ([o :: filter (attached o) ins] ++ map (fun t => [rev t]) (filter (fun h => negb (attached o h)) ins)).
Proof.
  intros Ho F. unfold matchInnersToPolygons. destruct ins as [| h ins]; [reflexivity |].
  rewrite (cancelledBy_single o (h :: ins) Ho F). cbn [bind].
  rewrite (matchInnersLoop_single o Ho). cbn [bind fst snd app]. rewrite map_map. reflexivity.
Qed.

(** ** the theorem *)
Lemma NoDup_concat_each {A} (l : list (list A)) : NoDup (concat l) -> Forall (@NoDup A) l.
Proof.
  induction l as [| a l IH]; intro ND; constructor; cbn [concat] in ND; [apply (NoDup_app_l _ _ ND) | apply IH, (NoDup_app_r _ _ ND)].
Qed.

Lemma ring_like_concat cs xs : Forall2 ring_like cs xs -> Permutation (concat xs) (concat cs).
Proof.
  induction 1 as [| c x cs xs [-> | ->] F IH]; cbn [concat]; [constructor | |].
  - apply Permutation_app_head, IH.
  - apply Permutation_app; [apply Permutation_sym, Permutation_rev | exact IH].
Qed.

Lemma ring_like_length c x : ring_like c x -> length x = length c.
Proof. intros [-> | ->]; [reflexivity | apply rev_length]. Qed.

Definition polysOf (x0 : ring) (xs : list ring) : list polygon :=
  [x0 :: filter (attached x0) xs] ++ map (fun t => [rev t]) (filter (fun h => negb (attached x0 h)) xs).

Theorem no_collapse g hots P cfg L c0 cr :
  chains g hots L P = Ok (c0 :: cr) -> Forall (fun c : ring => (3 <= length c)%nat) (c0 :: cr) ->
  NoDup (concat (c0 :: cr)) ->
  exists x0 xs, ring_like c0 x0 /\ 0 <= xprod x0 /\ (0 < xprod c0 -> x0 = c0) /\ Forall2 inner_of cr xs /\
    snapLevel g hots P cfg L = Ok (Some (flipb (reverseWindingOrder cfg) (polysOf x0 xs))).
Proof.
  intros Hc Hl ND. unfold chains in Hc. destruct P as [| r0 rest]; [discriminate |]. cbn [chainsFrom] in Hc.
  bind_inv Hc c Hc0. bind_inv Hc cs Hcr. inversion Hc; subst c cs. clear Hc.
  pose proof (NoDup_concat_each _ ND) as NDe. inversion NDe as [| ? ? N0 Nr]; subst. inversion Hl as [| ? ? L0 Lr]; subst.
  destruct (ringStep_nodup g hots L cfg acc0 0 r0 c0 eq_refl Hc0 N0 L0) as [x0 [st [Hx0 [Es [Ho Hex]]]]].
  cbn [Nat.eqb] in *. cbn [acc0 aOuters aInners aPL app] in Es.
  assert (Fr : Forall (fun c : ring => NoDup c /\ (3 <= length c)%nat) cr).
  { rewrite Forall_forall in *. intros c Hin. split; [apply Nr, Hin | apply Lr, Hin]. }
  destruct (ringsLoop_nodup_inner g hots L cfg rest 1 (mkAcc true st [x0] [] []) cr (le_n 1) eq_refl Hcr Fr) as [xs [st' [F E]]].
  cbn [aOuters aInners aPL app] in E.
  exists x0, xs. split; [exact Hx0 |]. split; [exact Ho |]. split; [exact Hex |]. split; [exact F |].
  rewrite snapLevel_eq. cbn [ringsLoop]. rewrite Es. cbn [bind]. rewrite E. cbn [bind].
  assert (Fl : Forall2 ring_like (c0 :: cr) (x0 :: xs)).
  { constructor; [exact Hx0 |]. clear -F. induction F as [| c x cr' xs' [Hx _] F IH]; constructor; assumption. }
  assert (NDx : NoDup (concat ([x0] ++ xs))).
  { cbn [app]. eapply Permutation_NoDup; [apply Permutation_sym, (ring_like_concat _ _ Fl) | exact ND]. }
  assert (Nex : Forall (fun x : ring => x <> []) ([x0] ++ xs)).
  { cbn [app]. clear -Fl Hl. induction Fl as [| c x cs' xs' Hx F IH]; [constructor |]. inversion Hl; subst.
    constructor; [| apply IH; assumption]. pose proof (ring_like_length _ _ Hx). destruct x; [cbn in *; lia | discriminate]. }
  unfold levelPolys. cbn [aAlive aOuters aInners]. rewrite (dedupe_disjoint_id [x0] xs Nex NDx). cbn [bind fst snd map].
  assert (Hx0ne : x0 <> []) by (inversion Nex; assumption).
  assert (Fdis : Forall (fun h : ring => ~ In (hd dp x0) h) xs).
  { rewrite Forall_forall. intros h Hh Hin. cbn [app concat] in NDx.
    apply (NoDup_app_disjoint _ _ (hd dp x0) NDx); [destruct x0; [congruence | left; reflexivity] |].
    apply in_concat. exists h. split; assumption. }
  rewrite (match_single x0 xs Hx0ne Fdis). cbn [bind]. fold (polysOf x0 xs).
  unfold levelResult. cbn [aPL map]. cbn zeta. rewrite app_nil_r.
  unfold flipb, polysOf. destruct (reverseWindingOrder cfg); reflexivity.
Qed.

(** the rings of the result are the chains, each possibly reversed; shells first, counter-clockwise or zero
    area, holes clockwise (opposite with the reverse flag); no points-and-lines polygons *)
Lemma filter_split_perm {A} (f : A -> bool) (h : A -> A) (l : list A) :
  Permutation (filter f l ++ map h (filter (fun x => negb (f x)) l)) (map (fun x => if f x then x else h x) l).
Proof.
  induction l as [| a l IH]; [constructor |]. cbn [filter map]. destruct (f a); cbn [negb map app].
  - apply perm_skip, IH.
  - apply Permutation_sym, Permutation_cons_app, Permutation_sym, IH.
Qed.

Lemma ring_like_rev c x : ring_like c x -> ring_like c (rev x).
Proof. intros [-> | ->]; [right; reflexivity | left; apply rev_involutive]. Qed.

Lemma polysOf_ok x0 xs : (3 <= length x0)%nat -> 0 <= xprod x0 ->
  Forall (fun x : ring => (3 <= length x)%nat /\ xprod x <= 0) xs -> Forall (poly_ok 1) (polysOf x0 xs).
Proof.
  intros Hl Hx F. unfold polysOf. apply Forall_app. split.
  - constructor; [| constructor]. exists x0, (filter (attached x0) xs). split; [reflexivity |]. split; [exact Hl |]. split; [lia |].
    rewrite Forall_forall in *. intros h Hh. apply filter_In in Hh. destruct (F h (proj1 Hh)). split; [assumption | lia].
  - rewrite Forall_forall in *. intros poly Hp. apply in_map_iff in Hp. destruct Hp as [t [<- Ht]]. apply filter_In in Ht.
    destruct (F t (proj1 Ht)) as [H1 H2]. exists (rev t), []. rewrite rev_length, xprod_rev.
    split; [reflexivity |]. split; [exact H1 |]. split; [lia | constructor].
Qed.

Theorem no_collapse_rings g hots P cfg L c0 cr :
  chains g hots L P = Ok (c0 :: cr) -> Forall (fun c : ring => (3 <= length c)%nat) (c0 :: cr) ->
  NoDup (concat (c0 :: cr)) ->
  exists ps rs, snapLevel g hots P cfg L = Ok (Some ps) /\
    Forall2 ring_like (c0 :: cr) rs /\ Permutation (concat ps) rs /\
    Forall (poly_ok (if reverseWindingOrder cfg then -1 else 1)) ps.
Proof.
  intros Hc Hl ND. destruct (no_collapse g hots P cfg L c0 cr Hc Hl ND) as [x0 [xs [Hx0 [Ho [_ [F E]]]]]].
  inversion Hl as [| ? ? L0 Lr]; subst.
  assert (Fxs : Forall (fun x : ring => (3 <= length x)%nat /\ xprod x <= 0) xs).
  { clear -F Lr. induction F as [| c x cr' xs' [Hx [Hxp _]] F IH]; [constructor |]. inversion Lr; subst.
    constructor; [| apply IH; assumption]. rewrite (ring_like_length _ _ Hx). auto. }
  assert (Hl0 : (3 <= length x0)%nat) by (rewrite (ring_like_length _ _ Hx0); exact L0).
  pose proof (polysOf_ok x0 xs Hl0 Ho Fxs) as Pok.
  set (rs := x0 :: map (fun x => if attached x0 x then x else rev x) xs).
  assert (Frs : Forall2 ring_like (c0 :: cr) rs).
  { constructor; [exact Hx0 |]. clear -F. induction F as [| c x cr' xs' [Hx _] F IH]; cbn [map]; constructor; [| exact IH].
    destruct (attached x0 x); [exact Hx | apply ring_like_rev, Hx]. }
  assert (Prs : Permutation (concat (polysOf x0 xs)) rs).
  { unfold polysOf, rs. rewrite concat_app, concat_singleton_rev. cbn [concat app]. rewrite app_nil_r.
    apply perm_skip. apply filter_split_perm. }
  exists (flipb (reverseWindingOrder cfg) (polysOf x0 xs)). unfold flipb in *. destruct (reverseWindingOrder cfg).
  - exists (map (@rev pt) rs). split; [exact E |]. split; [| split].
    + clear -Frs. induction Frs as [| c x cs' xs' Hx F IH]; cbn [map]; constructor; [apply ring_like_rev, Hx | exact IH].
    + rewrite concat_map_rev. apply Permutation_map, Prs.
    + rewrite Forall_forall in *. intros poly Hp. apply in_map_iff in Hp. destruct Hp as [p0 [<- Hp]]. apply poly_ok_flip, Pok, Hp.
  - exists rs. auto.
Qed.

(** exactly the concatenation: routed shell counter-clockwise, routed holes clockwise, no reverse flag, and every
    hole has a vertex in or on the shell ([attached], i.e. ringContains): one polygon, shell first, holes in order *)
Theorem no_collapse_exact g hots P cfg L c0 cr :
  chains g hots L P = Ok (c0 :: cr) -> Forall (fun c : ring => (3 <= length c)%nat) (c0 :: cr) ->
  NoDup (concat (c0 :: cr)) -> reverseWindingOrder cfg = false ->
  0 < xprod c0 -> Forall (fun c => xprod c < 0) cr -> Forall (fun h => attached c0 h = true) cr ->
  snapLevel g hots P cfg L = Ok (Some [c0 :: cr]).
Proof.
  intros Hc Hl ND Rv H0 Hr Ha. destruct (no_collapse g hots P cfg L c0 cr Hc Hl ND) as [x0 [xs [_ [_ [Hex [F E]]]]]].
  rewrite (Hex H0) in E. clear Hex.
  assert (Exs : xs = cr).
  { clear -F Hr. induction F as [| c x cr' xs' [_ [_ Hx]] F IH]; [reflexivity |]. inversion Hr; subst. f_equal; [auto | auto]. }
  subst xs. rewrite E, Rv. unfold flipb, polysOf. do 3 f_equal.
  assert (E1 : filter (attached c0) cr = cr).
  { clear -Ha. induction Ha as [| h cr' Hh Ha IH]; [reflexivity |]. cbn [filter]. rewrite Hh, IH. reflexivity. }
  assert (E2 : filter (fun h => negb (attached c0 h)) cr = []).
  { clear -Ha. induction Ha as [| h cr' Hh Ha IH]; [reflexivity |]. cbn [filter]. rewrite Hh. exact IH. }
  rewrite E1, E2. reflexivity.
Qed.

(** a boolean repeat-freeness test for concrete chains *)
Fixpoint nodupb (l : list pt) : bool := match l with [] => true | a :: r => negb (mem_pt a r) && nodupb r end.
Lemma nodupb_sound l : nodupb l = true -> NoDup l.
Proof.
  induction l as [| a l IH]; intro H; [constructor |]. cbn [nodupb] in H. apply andb_prop in H. destruct H as [H1 H2].
  constructor; [| apply IH, H2]. intro Hin. apply mem_pt_In in Hin. rewrite Hin in H1. discriminate.
Qed.
