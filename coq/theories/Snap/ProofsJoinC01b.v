(** * C01, the discrete half of the deformation argument at its end point (PARTIAL).

    The sweep lemma at time 1: if the centre of a hot pixel D lies on a step (c1, c2) of the routed chain of an edge
    a b of the polygon, then a b passes through D between its visits of the pixels of c1 and c2; D is then one of the
    pixels of the chain, and since c1, c2 are CONSECUTIVE in travel order, D is the pixel of c1 or of c2.
    So no centre of a hot pixel lies in the interior of a routed step; on the class of C18: no vertex of the returned
    geometry lies in the interior of a returned edge.  (What is still missing for C01 is the continuity part: two
    moving segments cannot start to cross without an end point of one passing through the other.) *)
From Coq Require Import ZArith QArith Lqa Lia List Bool Sorted Permutation.
From Texel Require Import Prelude.Base Index.Model Index.ProofsInsert Index.ProofsLine Index.ProofsOrder Index.ProofsGrid
  Index.ProofsCentre Index.ProofsRouting Snap.Model Snap.ProofsBasics Snap.ProofsLevel Geom.Close Geom.Polygon
  Snap.ProofsGeomTieRoute Snap.ProofsJoinC04 Snap.ProofsJoinC05 Snap.ProofsJoinC18 Snap.ProofsJoinC04b Snap.ProofsJoinC01.
From Texel Require Snap.ProofsKmpEdges Snap.ProofsKmpLe2 Snap.ProofsLevelC07.
Import ListNotations.
Local Open Scope Q_scope.

Definition qpt (p : pt) : Q * Q := (inject_Z (fst p), inject_Z (snd p)).

Lemma sorted_before_head {A} (R : A -> A -> Prop) (l1 : list A) x r y : StronglySorted R (l1 ++ x :: r) -> In y l1 -> R y x.
Proof.
  induction l1 as [| a l1 IH]; intros Hs Hy; [destruct Hy |]. cbn [app] in Hs. inversion Hs as [| ? ? Hs' Ha]; subst.
  destruct Hy as [<- | Hy]; [| apply IH; assumption]. rewrite Forall_forall in Ha. apply Ha, in_or_app. right. left. reflexivity.
Qed.

Lemma pairs_split {A} (l : list A) x y : In (x, y) (pairs l) -> exists l1 l2, l = l1 ++ x :: y :: l2.
Proof.
  induction l as [| a l IH]; intro H; [destruct H |]. destruct l as [| b l]; [destruct H |].
  rewrite pairs_cons2 in H. destruct H as [E | H].
  - inversion E; subst. exists [], l. reflexivity.
  - destruct (IH H) as [l1 [l2 E]]. exists (a :: l1), l2. cbn [app]. rewrite E. reflexivity.
Qed.

(** the centre of a hot pixel on a step is an end of the step (pixel addresses) *)
Theorem no_hot_pixel_on_step g P hs a b L l1 q1 q2 l2 qd mu : (0 < gres g)%Z -> RootCovers g ->
  insertPolygon g P = Ok hs -> In a (concat P) -> In b (concat P) -> (L <= gdeep g)%nat -> ExactMiddle g L ->
  route g hs a b L = l1 ++ q1 :: q2 :: l2 -> In qd (hotAt g hs L) -> 0 <= mu -> mu <= 1 ->
  peq (qpt (pixCen g L qd)) (mix mu (qpt (pixCen g L q1)) (qpt (pixCen g L q2))) ->
  qd = q1 \/ qd = q2.
Proof.
  intros Hr C Hi Ha Hb HL Ex Eq Hhot M0 M1 Hon.
  destruct (C02_routing_vertices g P hs a b L Hr C Hi Ha Hb HL) as [[_ [ND [M Hs]]] _].
  rewrite Eq in *.
  assert (In1 : In q1 (l1 ++ q1 :: q2 :: l2)) by (apply in_or_app; right; left; reflexivity).
  assert (In2 : In q2 (l1 ++ q1 :: q2 :: l2)) by (apply in_or_app; right; right; left; reflexivity).
  destruct (proj1 (M q1) In1) as [_ [ta Oa]]. destruct (proj1 (M q2) In2) as [_ [tb Ob]].
  assert (B12 : BeforeP g L a b q1 q2).
  { apply ProofsJoinC01.sorted_app_r in Hs. inversion Hs as [| ? ? _ F]; subst. inversion F; assumption. }
  pose proof (B12 ta tb Oa Ob) as Hlt.
  destruct Oa as [A0 [A1 Pa]]. destruct Ob as [B0 [B1 Pb]].
  pose proof (quadSpan_pos g L Hr) as HS.
  assert (Hh : 0 < halfSpan g L).
  { unfold halfSpan. apply Qmult_lt_0_compat; [| reflexivity]. change 0 with (inject_Z 0). rewrite <- Zlt_Qlt. exact HS. }
  assert (Hm : PIn a b ((1 - mu) * ta + mu * tb) (pixExt g L qd)).
  { apply (sweep_pixels g L a b q1 q2 qd ta tb 1 mu (qpt (pixCen g L qd)) Ex); try lra; try assumption.
    - unfold Geom.Close.InSq, qpt. cbn [fst snd]. repeat split; lra.
    - destruct Hon as [Hx Hy]. unfold peq, mix, qpt in *. cbn [fst snd] in *. split; lra. }
  assert (Hp : 0 <= mu * (tb - ta)) by (apply Qmult_le_0_compat; lra).
  assert (Hp' : 0 <= (1 - mu) * (tb - ta)) by (apply Qmult_le_0_compat; lra).
  assert (Om : OnSeg a b ((1 - mu) * ta + mu * tb) (pixExt g L qd)).
  { split; [lra |]. split; [| exact Hm]. lra. }
  assert (Ind : In qd (l1 ++ q1 :: q2 :: l2)) by (apply M; split; [exact Hhot | exists ((1 - mu) * ta + mu * tb); exact Om]).
  apply in_app_or in Ind. destruct Ind as [Hd | [Hd | [Hd | Hd]]]; [| auto | auto |]; exfalso.
  - pose proof (sorted_before_head _ _ _ _ _ Hs Hd) as Bd.
    pose proof (Bd _ ta Om (conj A0 (conj A1 Pa))). lra.
  - apply ProofsJoinC01.sorted_app_r in Hs. inversion Hs as [| ? ? Hs2 _]; subst. inversion Hs2 as [| ? ? _ F2]; subst.
    rewrite Forall_forall in F2. pose proof (F2 qd Hd _ ((1 - mu) * ta + mu * tb) (conj B0 (conj B1 Pb)) Om). lra.
Qed.

(** ** on the class of C18: no vertex of the returned geometry lies in the interior of a returned edge *)
Theorem no_vertex_inside_edge_on_class g P levels cfg res hs : (0 < gres g)%Z -> RootCovers g ->
  (forall L, In L levels -> (0 < L <= gdeep g)%nat) -> insertPolygon g P = Ok hs ->
  class_all_levels g P hs levels -> snapPolygon g P levels cfg = Ok res ->
  forall L ps e p mu, In (L, ps) res -> In e (edges ps) -> In p (concat (concat ps)) -> ExactMiddle g L ->
    0 <= mu -> mu <= 1 -> peq (qpt p) (mix mu (qpt (fst e)) (qpt (snd e))) -> p = fst e \/ p = snd e.
Proof.
  intros Hr C HLs Hi Hcl Hs L ps e p mu Hin He Hp Ex M0 M1 Hon.
  assert (HL : In L levels).
  { destruct (ProofsLevelC07.level_value _ _ _ _ _ _ _ Hs Hin) as [_ [_ [HL _]]]. exact HL. }
  assert (HLs' : forall L0, In L0 levels -> (L0 <= gdeep g)%nat) by (intros L0 H0; destruct (HLs L0 H0); lia).
  (* the vertex is the centre of a hot pixel *)
  destruct (output_vertex_is_pixel_centre_of_input_vertex g P levels cfg res L ps p Hr Hs Hin (HLs L HL) Hp)
    as [v [Hv [Ep _]]].
  destruct (hot_contains_vertex g P hs v L Hr Hi Hv) as [Hhot _].
  set (qd := pixelOf g L v) in *. assert (Epd : p = pixCen g L qd) by exact Ep.
  (* the edge is a routed step *)
  assert (Hstep : routed_step g (hotLevels g hs) L P e).
  { unfold edges in He. apply in_flat_map in He. destruct He as [poly [Hpoly He]].
    apply in_flat_map in He. destruct He as [x [Hx He]].
    exact (snap_edges_routed_steps g P levels cfg res hs Hr C HLs' Hi
             (fun L0 HL0 idx r c => Hcl L0 idx r c HL0) Hs L ps poly x e Hin Hpoly Hx (ring_edges_cedges x e He)). }
  destruct Hstep as [idx [r [a [b [Hn [Hab Hst]]]]]].
  assert (Hpts : In a (concat P) /\ In b (concat P)).
  { apply ProofsSplitThms.dedges_In in Hab as [Ha Hb].
    assert (G : forall w, In w (ensureCorrectWindingOrder r (negb (Nat.eqb idx 0))) -> In w (concat P)).
    { intros w Hw. apply in_concat. exists r. split; [exact (nth_error_In _ _ Hn) |].
      unfold ensureCorrectWindingOrder in Hw. destruct (windingOrderIsCorrect r _); [exact Hw | apply in_rev; exact Hw]. }
    split; apply G; assumption. }
  destruct Hpts as [Ha Hb].
  destruct (C02_routing_vertices g P hs a b L Hr C Hi Ha Hb (HLs' L HL)) as [[Ept _] _].
  rewrite Ept in Hst. destruct e as [c1 c2]. cbn [fst snd swap] in *.
  destruct Hst as [Hst | Hst]; apply pairs_map_In in Hst as [q1 [q2 [Hq [E1 E2]]]]; destruct (pairs_split _ _ _ Hq) as [l1 [l2 El]]; cbn [fst snd] in E1, E2; clear Ep.
  - subst c1 c2 p.
    destruct (no_hot_pixel_on_step g P hs a b L l1 q1 q2 l2 qd mu Hr C Hi Ha Hb (HLs' L HL) Ex El Hhot M0 M1 Hon) as [-> | ->]; auto.
  - subst c1 c2 p.
    destruct (no_hot_pixel_on_step g P hs a b L l1 q1 q2 l2 qd (1 - mu) Hr C Hi Ha Hb (HLs' L HL) Ex El Hhot ltac:(lra) ltac:(lra)) as [-> | ->]; auto.
    destruct Hon as [Hx Hy]. unfold peq, mix, qpt in *. cbn [fst snd] in *. split; lra.
Qed.

Print Assumptions no_hot_pixel_on_step.
Print Assumptions no_vertex_inside_edge_on_class.
