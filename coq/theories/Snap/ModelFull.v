(** * SnapPolygon including the Morton-key limit (finding F11).

    Index/Model.v addresses pixels by (x, y); the Go code keys them by morton.MustToZ, which panics when
    an address does not fit 32 bits — possible only at a deepest level above 32.  This file adds that
    panic, so that the correspondence can include such tile matrices; ProofsFull.v shows that for
    [gdeep g <= 32] nothing changes, which is why every other theorem is stated about the plain model. *)
From Coq Require Import ZArith List Bool.
From Texel Require Import Prelude.Base Index.Model Snap.Model.
Import ListNotations.
Open Scope Z_scope.

Definition keyLimit : Z := 2 ^ 32.

(** insertCoord computes MustToZ (x / 2^(d-l)) (y / 2^(d-l)) for l = 0 .. d: it panics iff the deepest
    address itself does not fit *)
Definition insertPointFull (g : grid) (hs : hotset) (p : pt) : res hotset :=
  if gres g =? 0 then Err DivZero
  else let c := deepestCoord g p in
       if inGridCoord g c then
         if (keyLimit <=? fst c) || (keyLimit <=? snd c) then Err MustToZ else Ok (hs ++ [c])
       else Err OutsideGrid.

Definition insertPolygonFull (g : grid) (P : list ring) : res hotset :=
  foldM (insertPointFull g) (concat P) [].

Definition snapPolygonFull (g : grid) (P : list ring) (levels : list nat) (cfg : config)
  : res (list (nat * list polygon)) :=
  match insertPolygonFull g P with
  | Err OutsideGrid => if ignoreOutsideGrid cfg then Ok [] else Err OutsideGrid
  | Err e => Err e
  | Ok hs =>
      let hots := hotLevels g hs in
      do rs <- mapM (fun L => do r <- snapLevel g hots P cfg L; Ok (L, r)) levels;
      Ok (flat_map (fun lr => match snd lr with Some ps => [(fst lr, ps)] | None => [] end) rs)
  end.
