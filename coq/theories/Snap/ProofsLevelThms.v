(** * snapLevel and snapPolygon: provenance (C04), ring shape / orientation / keep policy (C05),
      independence of the way the polygon is written down (C07), keyed levels (C08). *)
From Coq Require Import ZArith List Bool Lia Permutation.
From Texel Require Import Prelude.Base Index.Model Snap.Model Snap.ProofsBasics Snap.ProofsSplit
  Snap.ProofsSplitRefine Snap.ProofsSplitThms Snap.ProofsLevelRoute Snap.ProofsLevel
  Snap.ProofsDedupe Snap.ProofsMatch.
Import ListNotations.
Open Scope Z_scope.

(** ** snapLevel in pieces *)
Definition flipb (b : bool) (ps : list polygon) : list polygon := if b then map (map (@rev pt)) ps else ps.

Definition levelPolys (cfg : config) (acc : levelAcc) : res (list polygon) :=
  if aAlive acc then
    do oi <- dedupeInnersOuters (aOuters acc) (aInners acc);
    do ps <- matchInnersToPolygons (map (fun o => [o]) (fst oi)) (snd oi);
    Ok (flipb (reverseWindingOrder cfg) ps)
  else Ok [].

Definition levelResult (polys : list polygon) (acc : levelAcc) : option (list polygon) :=
  let all := polys ++ map (fun pl => [pl]) (aPL acc) in match all with [] => None | _ => Some all end.

Definition acc0 : levelAcc := mkAcc true (mkHits [] []) [] [] [].

Lemma snapLevel_eq g hots P cfg L : snapLevel g hots P cfg L =
  do acc <- ringsLoop g hots L cfg acc0 0 P;
  do polys <- levelPolys cfg acc;
  Ok (levelResult polys acc).
Proof.
  unfold snapLevel, levelPolys, levelResult, flipb, acc0.
  destruct (ringsLoop g hots L cfg _ 0 P) as [acc | e]; cbn [bind]; [| reflexivity].
  destruct (aAlive acc); [| reflexivity].
  destruct (dedupeInnersOuters (aOuters acc) (aInners acc)) as [oi | e]; cbn [bind]; [| reflexivity].
  destruct (matchInnersToPolygons _ (snd oi)) as [ps | e]; cbn [bind]; reflexivity.
Qed.

Lemma levelResult_some polys acc ps : levelResult polys acc = Some ps ->
  ps = polys ++ map (fun pl => [pl]) (aPL acc) /\ ps <> [].
Proof.
  unfold levelResult. cbn zeta. destruct (polys ++ _) eqn:E; [discriminate |]. intro H; inversion H. split; [reflexivity | discriminate].
Qed.

(** the polygons of a live level *)
Lemma levelPolys_spec cfg acc polys : aAlive acc = true -> levelPolys cfg acc = Ok polys ->
  exists outs' ins' polys' matched tu,
    subseq outs' (aOuters acc) /\ subseq ins' (aInners acc) /\
    Forall2 (fun o p => exists a, p = o :: a /\ incl a matched) outs' polys' /\
    Permutation (concat polys') (outs' ++ matched) /\
    Permutation ins' (matched ++ tu) /\
    polys = flipb (reverseWindingOrder cfg) (polys' ++ map (fun t => [rev t]) tu).
Proof.
  intros Al H. unfold levelPolys in H. rewrite Al in H. bind_inv H oi Hd. destruct oi as [outs' ins'].
  bind_inv H ps Hm. inversion H; subst polys. cbn [fst snd] in Hm.
  destruct (dedupe_sub _ _ _ _ Hd) as [S1 S2].
  destruct (match_spec _ _ _ Hm) as [polys' [matched [tu [E [F [P1 P2]]]]]].
  exists outs', ins', polys', matched, tu. subst ps. auto 10.
Qed.

Lemma concat_map_rev (ps : list polygon) : concat (map (map (@rev pt)) ps) = map (@rev pt) (concat ps).
Proof. induction ps as [| p ps IH]; [reflexivity |]. cbn [map concat]. rewrite map_app, IH. reflexivity. Qed.

Lemma concat_singleton_rev (tu : list ring) : concat (map (fun t : ring => [rev t]) tu) = map (@rev pt) tu.
Proof. induction tu as [| t tu IH]; [reflexivity |]. cbn [map concat app]. rewrite IH. reflexivity. Qed.

(** every ring of a polygon of the result is an accumulated ring or the reverse of one *)
Lemma levelPolys_rings cfg acc polys x : levelPolys cfg acc = Ok polys -> In x (concat polys) ->
  exists y, In y (aOuters acc ++ aInners acc) /\ (x = y \/ x = rev y).
Proof.
  intros H Hx. destruct (aAlive acc) eqn:Al.
  - destruct (levelPolys_spec _ _ _ Al H) as [outs' [ins' [polys' [matched [tu [S1 [S2 [F [P1 [P2 E]]]]]]]]]].
    assert (Hbase : forall z, In z (concat (polys' ++ map (fun t : ring => [rev t]) tu)) ->
                     exists y, In y (aOuters acc ++ aInners acc) /\ (z = y \/ z = rev y)).
    { intros z Hz. rewrite concat_app, concat_singleton_rev in Hz. apply in_app_or in Hz. destruct Hz as [Hz | Hz].
      - apply (Permutation_in _ P1) in Hz. exists z. split; [| auto]. apply in_app_or in Hz. apply in_or_app.
        destruct Hz as [Hz | Hz]; [left; apply (subseq_incl _ _ S1), Hz |].
        right. apply (subseq_incl _ _ S2), (Permutation_in _ (Permutation_sym P2)), in_or_app. auto.
      - apply in_map_iff in Hz. destruct Hz as [y [<- Hy]]. exists y. split; [| auto]. apply in_or_app. right.
        apply (subseq_incl _ _ S2), (Permutation_in _ (Permutation_sym P2)), in_or_app. auto. }
    subst polys. unfold flipb in Hx. destruct (reverseWindingOrder cfg); [| apply Hbase, Hx].
    rewrite concat_map_rev in Hx. apply in_map_iff in Hx. destruct Hx as [z [<- Hz]].
    destruct (Hbase z Hz) as [y [Hy [-> | ->]]]; exists y; (split; [exact Hy |]);
      [right; reflexivity | left; apply rev_involutive].
  - unfold levelPolys in H. rewrite Al in H. inversion H; subst. destruct Hx.
Qed.

Lemma level_rings g hots P cfg L ps x : snapLevel g hots P cfg L = Ok (Some ps) -> In x (concat ps) ->
  exists acc y, ringsLoop g hots L cfg acc0 0 P = Ok acc /\ In y (acc_rings acc) /\ (x = y \/ x = rev y).
Proof.
  intros H Hx. rewrite snapLevel_eq in H. bind_inv H acc Hl. bind_inv H polys Hp. inversion H as [Hr]. clear H.
  apply levelResult_some in Hr. destruct Hr as [-> _]. exists acc.
  rewrite concat_app in Hx. apply in_app_or in Hx. destruct Hx as [Hx | Hx].
  - destruct (levelPolys_rings _ _ _ _ Hp Hx) as [y [Hy Hxy]]. exists y. split; [exact Hl |]. split; [| exact Hxy].
    unfold acc_rings. rewrite app_assoc. apply in_or_app. left. exact Hy.
  - exists x. split; [exact Hl |]. split; [| auto]. unfold acc_rings. apply in_or_app. right. apply in_or_app. right.
    clear -Hx. induction (aPL acc) as [| pl l IH]; [destruct Hx |]. cbn [map concat app] in Hx.
    destruct Hx as [<- | Hx]; [left; reflexivity | right; apply IH, Hx].
Qed.

(** a reversal-invariant property of all accumulated rings holds of all returned rings *)
Lemma level_lift (Q : ring -> Prop) g hots P cfg L ps :
  (forall x, Q x -> Q (rev x)) ->
  (forall acc, ringsLoop g hots L cfg acc0 0 P = Ok acc -> Forall Q (acc_rings acc)) ->
  snapLevel g hots P cfg L = Ok (Some ps) -> Forall (Forall Q) ps.
Proof.
  intros Hrev Hacc H. rewrite Forall_forall. intros poly Hpoly. rewrite Forall_forall. intros x Hx.
  destruct (level_rings g hots P cfg L ps x H) as [acc [y [Hl [Hy Hxy]]]].
  { apply in_concat. exists poly. auto. }
  pose proof (Hacc acc Hl) as F. rewrite Forall_forall in F. destruct Hxy as [-> | ->]; [| apply Hrev]; apply F, Hy.
Qed.

Section WithKmp.
  Hypothesis kmp_subseq : forall r r', kmpDeduplicate r = Ok r' -> subseq r' r.

  (** ** provenance (C04 clause 1, C03): every returned point was returned by snapClosestPoints for
         an edge of a (normalised) ring of the polygon *)
  Definition from_edge (g : grid) (hots : list (list (Z * Z))) (L : nat) (P : list ring) (p : pt) : Prop :=
    exists idx r a b, nth_error P idx = Some r /\
      In (a, b) (dedges (ensureCorrectWindingOrder r (negb (Nat.eqb idx 0)))) /\
      In p (snapClosestPoints g hots a b L).

  Theorem level_provenance g hots P cfg L ps p : snapLevel g hots P cfg L = Ok (Some ps) ->
    In p (concat (concat ps)) -> from_edge g hots L P p.
  Proof.
    intros H Hp. apply in_concat in Hp. destruct Hp as [x [Hx Hpx]].
    pose (Q := fun x : ring => forall p, In p x -> from_edge g hots L P p).
    assert (F : Forall (Forall Q) ps).
    { apply (level_lift Q g hots P cfg L ps); [| | exact H].
      - intros y Hy q Hq. apply Hy. apply in_rev. exact Hq.
      - intros acc Hl. apply (ringsLoop_rings g hots L cfg Q (fun _ _ => True) P acc); [| exact I | exact Hl].
        intros idx r st nr st' sets Hn _ Hr Hc. split; [exact I |].
        destruct (routeOf_facts _ _ _ _ _ _ _ _ Hr) as [Hprov _].
        rewrite Forall_forall. intros y Hy q Hq.
        assert (Hin : In q nr).
        { apply (cleanup_incl kmp_subseq _ _ _ _ Hc). apply pts_of_sets_rings. exists y. auto. }
        destruct (Hprov q Hin) as [a [b [Hab Hs]]]. exists idx, r, a, b. auto. }
    apply in_concat in Hx. destruct Hx as [poly [Hpoly Hxp]].
    rewrite Forall_forall in F. specialize (F poly Hpoly). rewrite Forall_forall in F. apply (F x Hxp p Hpx).
  Qed.

  (** ** C05: no returned ring visits a vertex twice *)
  Theorem level_repeat_free g hots P cfg L ps :
    (forall idx r, nth_error P idx = Some r ->
                   routing_ok g hots L (ensureCorrectWindingOrder r (negb (Nat.eqb idx 0)))) ->
    snapLevel g hots P cfg L = Ok (Some ps) -> Forall (Forall (@NoDup pt)) ps.
  Proof.
    intros Hrt H. apply (level_lift (@NoDup pt) g hots P cfg L ps); [| | exact H].
    - intros x Hx. apply NoDup_rev, Hx.
    - intros acc Hl.
      apply (ringsLoop_rings g hots L cfg (@NoDup pt) (fun k st => forall id, (k <= id)%nat -> hits_fresh st id) P acc);
        [| | exact Hl].
      + intros idx r st nr st' sets Hn Hj Hr Hc.
        destruct (routeOf_facts _ _ _ _ _ _ _ _ Hr) as [_ [Hother Hok]].
        destruct (Hok (Hrt idx r Hn) (Hj idx (le_n _))) as [Hadj Hfl].
        split.
        * intros id Hid. apply Hother; [lia | apply Hj; lia].
        * apply (cleanup_repeat_free kmp_subseq nr _ _ sets Hadj Hfl Hc).
      + intros id _ p. split; reflexivity.
  Qed.
End WithKmp.

(** shape consequences of repeat-freedom: last <> first and no equal neighbours (cyclically) *)
Lemma NoDup_no_adj_dup (x : ring) : NoDup x -> (2 <= length x)%nat -> no_adj_dup x.
Proof.
  intros ND Hl a b Hin Eab. subst b. unfold dedges in Hin. destruct x as [| c x]; [destruct Hin |].
  destruct (snoc_cases x) as [-> | [x' [z ->]]]; [cbn in Hl; lia |].
  assert (E : (c :: x' ++ [z]) ++ [c] = (c :: x') ++ [z; c]) by (cbn [app]; rewrite <- app_assoc; reflexivity).
  rewrite E, pairs_snoc in Hin.
  apply in_app_or in Hin. destruct Hin as [Hin | [Hin | []]].
  - apply (NoDup_no_adj_lin _ ND a a); [| reflexivity]. exact Hin.
  - inversion Hin; subst. inversion ND as [| ? ? Hn _]; subst. apply Hn. apply in_or_app. right. left. reflexivity.
Qed.

(** ** what a level accumulates: sizes and orientation (nothing about kmp or routing is needed) *)
Definition outer_ok (x : ring) : Prop := (3 <= length x)%nat /\ 0 <= xprod x.
Definition inner_ok (x : ring) : Prop := (3 <= length x)%nat /\ xprod x <= 0.
Definition pl_ok (x : ring) : Prop := (1 <= length x <= 2)%nat.

Lemma ringStep_eq g hots L cfg acc idx r : aAlive acc = true ->
  ringStep g hots L cfg acc idx r =
    do routed <- routeOf g hots L idx (ensureCorrectWindingOrder r (negb (Nat.eqb idx 0))) (aHits acc);
    do sets <- cleanupNewRing (fst routed) (Nat.eqb idx 0) (isMultiFor (snd routed) idx);
    Ok (if deadb cfg (Nat.eqb idx 0) sets
        then mkAcc false (snd routed) (aOuters acc) (aInners acc) (aPL acc)
        else mkAcc true (snd routed) (aOuters acc ++ outers sets) (aInners acc ++ inners sets)
                   (if keepPointsAndLines cfg then aPL acc ++ pointsAndLines sets else aPL acc)).
Proof.
  intro Ha. unfold ringStep. rewrite Ha. cbn [negb].
  fold (routeOf g hots L idx (ensureCorrectWindingOrder r (negb (Nat.eqb idx 0))) (aHits acc)).
  destruct (routeOf _ _ _ _ _ _) as [[nr st] | e]; cbn [bind fst snd]; [| reflexivity].
  destruct (cleanupNewRing _ _ _) as [sets | e]; cbn [bind]; [| reflexivity].
  unfold deadb. destruct (_ && _ && _); reflexivity.
Qed.

Lemma ringsLoop_classes g hots L cfg P acc : ringsLoop g hots L cfg acc0 0 P = Ok acc ->
  Forall outer_ok (aOuters acc) /\ Forall inner_ok (aInners acc) /\ Forall pl_ok (aPL acc) /\
  (keepPointsAndLines cfg = false -> aPL acc = []).
Proof.
  intro H.
  pose (I := fun (_ : nat) (a : levelAcc) =>
               Forall outer_ok (aOuters a) /\ Forall inner_ok (aInners a) /\ Forall pl_ok (aPL a) /\
               (keepPointsAndLines cfg = false -> aPL a = [])).
  apply (ringsLoop_inv g hots L cfg I P 0 acc0 acc); [| | exact H].
  - intros k r a a' Hn [Ho [Hi [Hp Hk]]] Hs. destruct (aAlive a) eqn:Al.
    + destruct (ringStep_alive _ _ _ _ _ _ _ _ Al Hs) as [nr [st [sets [Hr [Hc ->]]]]].
      destruct (cleanup_orientation _ _ _ _ Hc) as [Co [Ci Cp]].
      destruct (deadb cfg _ sets); unfold I; cbn [aOuters aInners aPL]; [auto |].
      split; [apply Forall_app; auto |]. split; [apply Forall_app; auto |].
      destruct (keepPointsAndLines cfg); [| auto]. split; [apply Forall_app; auto | discriminate].
    + rewrite ringStep_dead in Hs by exact Al. inversion Hs; subst. unfold I. auto.
  - unfold I, acc0. cbn. auto.
Qed.

(** a polygon of the result: shell first, then holes; [s] = +1, or -1 with reverse winding order *)
Definition poly_ok (s : Z) (poly : polygon) : Prop :=
  exists o holes, poly = o :: holes /\ (3 <= length o)%nat /\ 0 <= s * xprod o /\
                  Forall (fun h : ring => (3 <= length h)%nat /\ s * xprod h <= 0) holes.
Definition plpoly_ok (poly : polygon) : Prop := exists pl, poly = [pl] /\ pl_ok pl.

Lemma poly_ok_flip poly : poly_ok 1 poly -> poly_ok (-1) (map (@rev pt) poly).
Proof.
  intros [o [holes [-> [Hl [Hx Hh]]]]]. exists (rev o), (map (@rev pt) holes). cbn [map].
  split; [reflexivity |]. rewrite rev_length, xprod_rev. split; [exact Hl |]. split; [lia |].
  rewrite Forall_forall in *. intros h Hin. apply in_map_iff in Hin. destruct Hin as [h0 [<- Hin]].
  rewrite rev_length, xprod_rev. specialize (Hh h0 Hin). lia.
Qed.

Lemma levelPolys_ok cfg acc polys :
  Forall outer_ok (aOuters acc) -> Forall inner_ok (aInners acc) -> levelPolys cfg acc = Ok polys ->
  Forall (poly_ok (if reverseWindingOrder cfg then -1 else 1)) polys.
Proof.
  intros Ho Hi H. destruct (aAlive acc) eqn:Al.
  - destruct (levelPolys_spec _ _ _ Al H) as [outs' [ins' [polys' [matched [tu [S1 [S2 [F [P1 [P2 E]]]]]]]]]].
    pose proof (subseq_Forall _ _ _ S1 Ho) as Ho'. pose proof (subseq_Forall _ _ _ S2 Hi) as Hi'.
    assert (Hm : Forall inner_ok matched).
    { rewrite Forall_forall in *. intros x Hx. apply Hi', (Permutation_in _ (Permutation_sym P2)), in_or_app. auto. }
    assert (Ht : Forall inner_ok tu).
    { rewrite Forall_forall in *. intros x Hx. apply Hi', (Permutation_in _ (Permutation_sym P2)), in_or_app. auto. }
    assert (Hbase : Forall (poly_ok 1) (polys' ++ map (fun t : ring => [rev t]) tu)).
    { apply Forall_app. split.
      - clear -F Ho' Hm. induction F as [| o p outs polys [a [-> Ia]] F IH]; [constructor |].
        inversion Ho' as [| ? ? [Hl Hx] Ho'']; subst. constructor; [| apply IH, Ho''].
        exists o, a. split; [reflexivity |]. split; [exact Hl |]. split; [lia |].
        rewrite Forall_forall in *. intros h Hh. destruct (Hm h (Ia h Hh)) as [H1 H2]. split; [exact H1 | lia].
      - rewrite Forall_forall in *. intros poly Hin. apply in_map_iff in Hin. destruct Hin as [t [<- Hin]].
        destruct (Ht t Hin) as [H1 H2]. exists (rev t), []. rewrite rev_length, xprod_rev.
        split; [reflexivity |]. split; [exact H1 |]. split; [lia | constructor]. }
    subst polys. unfold flipb. destruct (reverseWindingOrder cfg); [| exact Hbase].
    rewrite Forall_forall in *. intros poly Hin. apply in_map_iff in Hin. destruct Hin as [p0 [<- Hin]].
    apply poly_ok_flip, Hbase, Hin.
  - unfold levelPolys in H. rewrite Al in H. inversion H. constructor.
Qed.

(** C05 orientation / structure of one level *)
Theorem level_orientation g hots P cfg L ps : snapLevel g hots P cfg L = Ok (Some ps) ->
  exists big small, ps = big ++ small /\
    Forall (poly_ok (if reverseWindingOrder cfg then -1 else 1)) big /\
    Forall plpoly_ok small /\ (keepPointsAndLines cfg = false -> small = []).
Proof.
  intro H. rewrite snapLevel_eq in H. bind_inv H acc Hl. bind_inv H polys Hp. inversion H as [Hr]. clear H.
  apply levelResult_some in Hr. destruct Hr as [-> _].
  destruct (ringsLoop_classes _ _ _ _ _ _ Hl) as [Ho [Hi [Hpl Hk]]].
  exists polys, (map (fun pl => [pl]) (aPL acc)). split; [reflexivity |].
  split; [apply (levelPolys_ok cfg acc polys Ho Hi Hp) |]. split.
  - rewrite Forall_forall in *. intros poly Hin. apply in_map_iff in Hin. destruct Hin as [pl [<- Hin]].
    exists pl. split; [reflexivity | apply Hpl, Hin].
  - intro Hf. rewrite (Hk Hf). reflexivity.
Qed.

(** an absent level is absent: the result is never an empty list *)
Theorem level_never_empty g hots P cfg L : snapLevel g hots P cfg L <> Ok (Some []).
Proof.
  intro H. rewrite snapLevel_eq in H. bind_inv H acc Hl. bind_inv H polys Hp. inversion H as [Hr].
  apply levelResult_some in Hr. destruct Hr as [_ Hr]. congruence.
Qed.

(** ** keep policy (C05): the keep-points-and-lines flag only appends collapsed parts *)
Definition setKeep (cfg : config) (b : bool) : config := mkConfig b (ignoreOutsideGrid cfg) (reverseWindingOrder cfg).
Definition setRev (cfg : config) (b : bool) : config := mkConfig (keepPointsAndLines cfg) (ignoreOutsideGrid cfg) b.

Lemma ringsLoop_dead g hots L cfg P : forall idx acc, aAlive acc = false -> ringsLoop g hots L cfg acc idx P = Ok acc.
Proof.
  induction P as [| r rest IH]; intros idx acc Ha; cbn [ringsLoop]; [reflexivity |].
  rewrite ringStep_dead by exact Ha. cbn [bind]. apply IH, Ha.
Qed.

(** the two runs agree on everything but the collapsed parts as long as the run without keep is alive *)
Definition keep_sim (aF aT : levelAcc) : Prop :=
  aAlive aT = true /\ aHits aT = aHits aF /\ aOuters aT = aOuters aF /\ aInners aT = aInners aF.

Lemma deadb_keep cfg isOuter sets : deadb (setKeep cfg false) isOuter sets = false -> deadb (setKeep cfg true) isOuter sets = false.
Proof.
  unfold deadb, setKeep. cbn [keepPointsAndLines negb orb]. rewrite andb_true_r.
  intro H. rewrite H. reflexivity.
Qed.

Lemma ringsLoop_keep g hots L cfg P : forall idx aF aT aF',
  aAlive aF = true -> keep_sim aF aT ->
  ringsLoop g hots L (setKeep cfg false) aF idx P = Ok aF' -> aAlive aF' = true ->
  exists aT', ringsLoop g hots L (setKeep cfg true) aT idx P = Ok aT' /\ keep_sim aF' aT'.
Proof.
  induction P as [| r rest IH]; intros idx aF aT aF' Al [S1 [S2 [S3 S4]]] H Al'; cbn [ringsLoop] in *.
  - inversion H; subst. exists aT. unfold keep_sim. auto.
  - bind_inv H a1 H1.
    assert (Al1 : aAlive a1 = true).
    { destruct (aAlive a1) eqn:E; [reflexivity |]. rewrite ringsLoop_dead in H by exact E. inversion H; subst. congruence. }
    rewrite ringStep_eq in H1 by exact Al. rewrite ringStep_eq by exact S1. rewrite S2.
    bind_inv H1 routed Hr. rewrite Hr. cbn [bind]. bind_inv H1 sets Hc. rewrite Hc. cbn [bind].
    inversion H1 as [E1]. clear H1.
    destruct (deadb (setKeep cfg false) (idx =? 0)%nat sets) eqn:Dd; [subst a1; cbn in Al1; discriminate |].
    rewrite (deadb_keep _ _ _ Dd). subst a1.
    eapply IH; [| | exact H | exact Al']; [reflexivity |].
    unfold keep_sim. cbn [aAlive aHits aOuters aInners]. rewrite S3, S4. auto.
Qed.

Theorem keep_policy g hots P cfg L ps :
  snapLevel g hots P (setKeep cfg false) L = Ok (Some ps) ->
  exists extra, snapLevel g hots P (setKeep cfg true) L = Ok (Some (ps ++ extra)) /\
                Forall plpoly_ok extra /\
                Forall (Forall (fun x : ring => (3 <= length x)%nat)) ps.
Proof.
  intro H. pose proof (level_orientation _ _ _ _ _ _ H) as Ho.
  rewrite snapLevel_eq in H. bind_inv H aF Hl. bind_inv H polys Hp. inversion H as [Hr]. clear H.
  destruct (ringsLoop_classes _ _ _ _ _ _ Hl) as [_ [_ [_ Hk]]]. specialize (Hk eq_refl).
  apply levelResult_some in Hr. destruct Hr as [Eps Hne]. rewrite Hk in Eps. cbn [map] in Eps. rewrite app_nil_r in Eps.
  subst polys.
  assert (Al : aAlive aF = true).
  { destruct (aAlive aF) eqn:E; [reflexivity |]. unfold levelPolys in Hp. rewrite E in Hp. inversion Hp. congruence. }
  destruct (ringsLoop_keep g hots L cfg P 0 acc0 acc0 aF eq_refl) as [aT [HlT [T1 [T2 [T3 T4]]]]];
    [unfold keep_sim; auto | exact Hl | exact Al |].
  exists (map (fun pl => [pl]) (aPL aT)). split; [| split].
  - rewrite snapLevel_eq, HlT. cbn [bind].
    assert (HpT : levelPolys (setKeep cfg true) aT = Ok ps).
    { unfold levelPolys in *. rewrite T1, T3, T4. rewrite Al in Hp. exact Hp. }
    rewrite HpT. cbn [bind]. unfold levelResult. cbn zeta.
    destruct (ps ++ map (fun pl : ring => [pl]) (aPL aT)) eqn:E; [| reflexivity].
    apply app_eq_nil in E. destruct E; congruence.
  - destruct (ringsLoop_classes _ _ _ _ _ _ HlT) as [_ [_ [Hpl _]]].
    rewrite Forall_forall in *. intros poly Hin. apply in_map_iff in Hin. destruct Hin as [pl [<- Hin]].
    exists pl. split; [reflexivity | apply Hpl, Hin].
  - destruct Ho as [big [small [E [Hb [_ Hs]]]]]. rewrite (Hs eq_refl), app_nil_r in E. subst big.
    eapply Forall_impl; [| exact Hb]. intros poly [o [holes [-> [H1 [_ H2]]]]].
    constructor; [exact H1 |]. eapply Forall_impl; [| exact H2]. cbn beta. tauto.
Qed.

(** a level whose shell collapsed is absent without keep *)
Theorem dead_level_absent g hots P cfg L acc : keepPointsAndLines cfg = false ->
  ringsLoop g hots L cfg acc0 0 P = Ok acc -> aAlive acc = false -> snapLevel g hots P cfg L = Ok None.
Proof.
  intros Hk Hl Hd. rewrite snapLevel_eq, Hl. cbn [bind]. unfold levelPolys. rewrite Hd. cbn [bind].
  destruct (ringsLoop_classes _ _ _ _ _ _ Hl) as [_ [_ [_ Hn]]]. unfold levelResult. rewrite (Hn Hk). reflexivity.
Qed.

(** ** the reverse flag (C07 iii) *)
Lemma ringStep_cfg g hots L c1 c2 acc idx r : keepPointsAndLines c1 = keepPointsAndLines c2 ->
  ringStep g hots L c1 acc idx r = ringStep g hots L c2 acc idx r.
Proof. intro E. unfold ringStep. rewrite E. reflexivity. Qed.

Lemma ringsLoop_cfg g hots L c1 c2 P : keepPointsAndLines c1 = keepPointsAndLines c2 -> forall idx acc,
  ringsLoop g hots L c1 acc idx P = ringsLoop g hots L c2 acc idx P.
Proof.
  intro E. induction P as [| r rest IH]; intros idx acc; cbn [ringsLoop]; [reflexivity |].
  rewrite (ringStep_cfg g hots L c1 c2 acc idx r E). destruct (ringStep g hots L c2 acc idx r); cbn [bind]; [apply IH | reflexivity].
Qed.

Definition levelOut (polys : list polygon) (pls : list ring) : option (list polygon) :=
  let all := polys ++ map (fun pl => [pl]) pls in match all with [] => None | _ => Some all end.

(** with the flag the result is the result without it where every ring of the polygon part is reversed;
    the collapsed parts (points and lines) are unchanged; errors are the same *)
Theorem reverse_flag_only_reverses g hots P cfg L :
  match snapLevel g hots P (setRev cfg false) L with
  | Err e => snapLevel g hots P (setRev cfg true) L = Err e
  | Ok res =>
      exists polys pls, res = levelOut polys pls /\
        snapLevel g hots P (setRev cfg true) L = Ok (levelOut (map (map (@rev pt)) polys) pls) /\
        Forall (poly_ok 1) polys /\ Forall pl_ok pls
  end.
Proof.
  rewrite !snapLevel_eq.
  rewrite (ringsLoop_cfg g hots L (setRev cfg true) (setRev cfg false) P eq_refl).
  destruct (ringsLoop g hots L (setRev cfg false) acc0 0 P) as [acc | e] eqn:Hl; cbn [bind]; [| reflexivity].
  assert (E : levelPolys (setRev cfg true) acc =
              do ps <- levelPolys (setRev cfg false) acc; Ok (map (map (@rev pt)) ps)).
  { unfold levelPolys, setRev, flipb. cbn [reverseWindingOrder]. destruct (aAlive acc); [| reflexivity].
    destruct (dedupeInnersOuters _ _) as [oi | e]; cbn [bind]; [| reflexivity].
    destruct (matchInnersToPolygons _ _) as [ps | e]; reflexivity. }
  rewrite E. destruct (levelPolys (setRev cfg false) acc) as [polys | e] eqn:Hp; cbn [bind]; [| reflexivity].
  destruct (ringsLoop_classes _ _ _ _ _ _ Hl) as [Ho [Hi [Hpl _]]].
  exists polys, (aPL acc). split; [reflexivity |]. split; [reflexivity |]. split; [| exact Hpl].
  apply (levelPolys_ok (setRev cfg false) acc polys Ho Hi Hp).
Qed.
