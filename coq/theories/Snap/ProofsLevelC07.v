(** * C07 / C08 / C04 at the level of snapPolygon: the hot set matters only through membership,
      rings may be given in either direction, levels in any order; results are keyed by the
      requested levels; provenance of every returned point. *)
From Coq Require Import ZArith List Bool Lia Permutation.
From Texel Require Import Prelude.Base Index.Model Snap.Model Snap.ProofsBasics Snap.ProofsSplit
  Snap.ProofsLevelRoute Snap.ProofsLevel Snap.ProofsLevelThms.
Import ListNotations.
Open Scope Z_scope.

(** ** the hot sets are used through membership only *)
Definition hots_equiv (h h' : list (list (Z * Z))) : Prop :=
  forall l a, mem_addr a (hotLookup h l) = mem_addr a (hotLookup h' l).

Lemma checkLoop_ext a b (has has' : nat -> option quad) : (forall i, has i = has' i) ->
  forall l m, checkLoop a b has l m = checkLoop a b has' l m.
Proof.
  intro E. induction l as [| q r IH]; intro m; cbn [checkLoop]; [reflexivity |].
  rewrite <- E. destruct (qmutex q && m); [apply IH |].
  destruct (has (qi q)); [| apply IH]. rewrite !IH. reflexivity.
Qed.

Lemma descendTo_equiv g h h' a b : hots_equiv h h' -> forall L, descendTo g h a b L = descendTo g h' a b L.
Proof.
  intro E. induction L as [| L IH]; cbn [descendTo]; [reflexivity |]. rewrite IH.
  apply flat_map_ext. intro p. unfold findIntersectingQuadrants. apply checkLoop_ext.
  intro i. unfold childHas. rewrite E. reflexivity.
Qed.

Lemma snapClosestPoints_equiv g h h' a b L : hots_equiv h h' ->
  snapClosestPoints g h a b L = snapClosestPoints g h' a b L.
Proof.
  intro E. unfold snapClosestPoints, snapClosestQuads. rewrite (descendTo_equiv g h h' a b E). reflexivity.
Qed.

Lemma routeRing_equiv g h h' L id first : hots_equiv h h' -> forall verts st nr,
  routeRing g h L id first verts st nr = routeRing g h' L id first verts st nr.
Proof.
  intro E. induction verts as [| v r IH]; intros st nr; cbn [routeRing]; [reflexivity |].
  unfold snapAndHit. rewrite (snapClosestPoints_equiv g h h' _ _ L E).
  destruct (cleanupNewVertices _ _); cbn [bind]; [apply IH | reflexivity].
Qed.

(** ringStep depends on the ring only through its normal form and on the hot sets only through membership *)
Lemma ringStep_equiv g h h' L cfg acc idx r r' : hots_equiv h h' ->
  (forall b, ensureCorrectWindingOrder r' b = ensureCorrectWindingOrder r b) ->
  ringStep g h' L cfg acc idx r' = ringStep g h L cfg acc idx r.
Proof.
  intros E Er. unfold ringStep. rewrite Er.
  destruct (ensureCorrectWindingOrder r (negb (idx =? 0)%nat)) as [| first t]; [reflexivity |].
  rewrite (routeRing_equiv g h h' L idx first E). reflexivity.
Qed.

Lemma ringsLoop_equiv g h h' L cfg : hots_equiv h h' -> forall P P',
  Forall2 (fun r' r => forall b, ensureCorrectWindingOrder r' b = ensureCorrectWindingOrder r b) P' P ->
  forall idx acc, ringsLoop g h' L cfg acc idx P' = ringsLoop g h L cfg acc idx P.
Proof.
  intros E P P' F. induction F as [| r' r P' P Er F IH]; intros idx acc; cbn [ringsLoop]; [reflexivity |].
  rewrite (ringStep_equiv g h h' L cfg acc idx r r' E Er).
  destruct (ringStep g h L cfg acc idx r); cbn [bind]; [apply IH | reflexivity].
Qed.

Lemma snapLevel_equiv g h h' P P' cfg L : hots_equiv h h' ->
  Forall2 (fun r' r => forall b, ensureCorrectWindingOrder r' b = ensureCorrectWindingOrder r b) P' P ->
  snapLevel g h' P' cfg L = snapLevel g h P cfg L.
Proof. intros E F. unfold snapLevel. rewrite (ringsLoop_equiv g h h' L cfg E P P' F). reflexivity. Qed.

(** ** permuting the inserted vertices *)
Lemma addr_eqb_eq a b : addr_eqb a b = true <-> a = b.
Proof.
  unfold addr_eqb. rewrite andb_true_iff, !Z.eqb_eq. destruct a, b; cbn [fst snd].
  split; [intros [-> ->]; reflexivity | intro H; inversion H; auto].
Qed.

Lemma mem_addr_In a l : mem_addr a l = true <-> In a l.
Proof.
  induction l as [| b l IH]; cbn [mem_addr In]; [split; [discriminate | tauto] |].
  rewrite orb_true_iff, IH, addr_eqb_eq. split; intros [H | H]; auto.
Qed.

Lemma mem_addr_ext a l l' : (forall x, In x l <-> In x l') -> mem_addr a l = mem_addr a l'.
Proof.
  intro H. destruct (mem_addr a l) eqn:E1, (mem_addr a l') eqn:E2; try reflexivity.
  - apply mem_addr_In, H, mem_addr_In in E1. congruence.
  - apply mem_addr_In, H, mem_addr_In in E2. congruence.
Qed.

Lemma dedup_addr_In l x : In x (dedup_addr l) <-> In x l.
Proof.
  induction l as [| a l IH]; cbn [dedup_addr]; [tauto |].
  destruct (mem_addr a l) eqn:M.
  - rewrite IH. split; [right; assumption |]. intros [<- | H]; [apply mem_addr_In, M | exact H].
  - cbn [In]. rewrite IH. tauto.
Qed.

Lemma hotAt_perm g hs hs' l a : Permutation hs hs' -> mem_addr a (hotAt g hs l) = mem_addr a (hotAt g hs' l).
Proof.
  intro P. unfold hotAt. apply mem_addr_ext. intro x. rewrite !dedup_addr_In.
  split; apply Permutation_in; [| apply Permutation_sym]; apply Permutation_map, P.
Qed.

Lemma nth_map_equiv {A} (f f' : A -> list (Z * Z)) (s : list A) :
  (forall x a, mem_addr a (f x) = mem_addr a (f' x)) ->
  forall l a, mem_addr a (nth l (map f s) []) = mem_addr a (nth l (map f' s) []).
Proof.
  intro E. induction s as [| x s IH]; intros [| l] a; cbn [map nth]; try reflexivity; [apply E | apply IH].
Qed.

Lemma hotLevels_perm g hs hs' : Permutation hs hs' -> hots_equiv (hotLevels g hs) (hotLevels g hs').
Proof.
  intros P l a. unfold hotLookup, hotLevels. apply nth_map_equiv. intros x b. apply hotAt_perm, P.
Qed.

(** insertPolygon in closed form *)
Definition inGridPt (g : grid) (p : pt) : bool := inGridCoord g (deepestCoord g p).

Lemma foldM_insert_closed g l : forall hs,
  foldM (insertPoint g) l hs =
    if gres g =? 0 then match l with [] => Ok hs | _ => Err DivZero end
    else if forallb (inGridPt g) l then Ok (hs ++ map (deepestCoord g) l) else Err OutsideGrid.
Proof.
  induction l as [| p l IH]; intro hs; cbn [foldM forallb map].
  - rewrite app_nil_r. destruct (gres g =? 0); reflexivity.
  - unfold insertPoint at 1. destruct (gres g =? 0) eqn:G; [reflexivity |].
    fold (inGridPt g p). destruct (inGridPt g p); cbn [bind andb]; [| reflexivity].
    rewrite IH, ?G. destruct (forallb (inGridPt g) l); [| reflexivity]. rewrite <- app_assoc. reflexivity.
Qed.

Lemma forallb_perm {A} (f : A -> bool) l l' : Permutation l l' -> forallb f l = forallb f l'.
Proof.
  intro P. destruct (forallb f l) eqn:E1, (forallb f l') eqn:E2; try reflexivity.
  - rewrite forallb_forall in E1. assert (forallb f l' = true); [| congruence].
    apply forallb_forall. intros x Hx. apply E1, (Permutation_in _ (Permutation_sym P)), Hx.
  - rewrite forallb_forall in E2. assert (forallb f l = true); [| congruence].
    apply forallb_forall. intros x Hx. apply E2, (Permutation_in _ P), Hx.
Qed.

Lemma insertPolygon_perm g P P' : Permutation (concat P') (concat P) ->
  match insertPolygon g P, insertPolygon g P' with
  | Ok hs, Ok hs' => Permutation hs' hs
  | Err e, Err e' => e = e'
  | _, _ => False
  end.
Proof.
  intro Pm. unfold insertPolygon. rewrite !foldM_insert_closed. destruct (gres g =? 0).
  - destruct (concat P) eqn:E1, (concat P') eqn:E2; try reflexivity.
    + apply Permutation_sym, Permutation_nil in Pm. discriminate.
    + apply Permutation_nil in Pm. discriminate.
  - rewrite (forallb_perm (inGridPt g) _ _ Pm). destruct (forallb (inGridPt g) (concat P)); [| reflexivity].
    cbn [app]. apply Permutation_map, Pm.
Qed.

(** ** C07 (i): rings may be written in either direction *)
Definition reversed_some (P' P : list ring) : Prop := Forall2 (fun r' r => r' = r \/ r' = rev r) P' P.

Lemma reversed_some_concat P' P : reversed_some P' P -> Permutation (concat P') (concat P).
Proof.
  induction 1 as [| r' r P' P [-> | ->] F IH]; cbn [concat]; [constructor | |].
  - apply Permutation_app_head, IH.
  - apply Permutation_app; [apply Permutation_sym, Permutation_rev | exact IH].
Qed.

Theorem ring_direction_irrelevant g P P' levels cfg : reversed_some P' P ->
  Forall (fun r : ring => (3 <= length r)%nat /\ xprod r <> 0) P ->
  snapPolygon g P' levels cfg = snapPolygon g P levels cfg.
Proof.
  intros F Hgood.
  assert (Fn : Forall2 (fun r' r => forall b, ensureCorrectWindingOrder r' b = ensureCorrectWindingOrder r b) P' P).
  { clear -F Hgood. induction F as [| r' r P' P Hr F IH]; [constructor |].
    inversion Hgood as [| ? ? [Hl Hx] Hg']; subst. constructor; [| apply IH, Hg'].
    intro b. destruct Hr as [-> | ->]; [reflexivity | apply ring_reversal_invariant; assumption]. }
  pose proof (insertPolygon_perm g P P' (reversed_some_concat _ _ F)) as Hi.
  unfold snapPolygon. destruct (insertPolygon g P) as [hs | e], (insertPolygon g P') as [hs' | e']; try contradiction.
  - assert (E : forall L, (do r <- snapLevel g (hotLevels g hs') P' cfg L; Ok (L, r))
                        = (do r <- snapLevel g (hotLevels g hs) P cfg L; Ok (L, r))).
    { intro L. rewrite (snapLevel_equiv g (hotLevels g hs) (hotLevels g hs') P P' cfg L); [reflexivity | | exact Fn].
      apply hotLevels_perm, Permutation_sym, Hi. }
    assert (Em : forall ls, mapM (fun L => do r <- snapLevel g (hotLevels g hs') P' cfg L; Ok (L, r)) ls
                          = mapM (fun L => do r <- snapLevel g (hotLevels g hs) P cfg L; Ok (L, r)) ls).
    { induction ls as [| L ls IHl]; cbn [mapM]; [reflexivity |]. rewrite E, IHl. reflexivity. }
    rewrite Em. reflexivity.
  - subst e'. reflexivity.
Qed.

(** ** C07 (ii): the order of the requested levels *)
Lemma mapM_perm {A B} (f : A -> res B) l l' bs : Permutation l l' -> mapM f l = Ok bs ->
  exists bs', mapM f l' = Ok bs' /\ Permutation bs bs'.
Proof.
  intro P. revert bs. induction P as [| x l l' P IH | x y l | l l' l'' P1 IH1 P2 IH2]; intros bs H.
  - exists bs. split; [exact H | apply Permutation_refl].
  - cbn [mapM] in *. bind_inv H b Hb. bind_inv H bs0 Hbs. inversion H; subst.
    destruct (IH _ Hbs) as [bs' [E Pm]]. rewrite Hb, E. cbn [bind]. exists (b :: bs'). split; [reflexivity | apply perm_skip, Pm].
  - cbn [mapM] in *. bind_inv H b Hb. bind_inv H bs0 Hbs. bind_inv Hbs b2 Hb2. bind_inv Hbs bs1 Hbs1.
    inversion Hbs; subst. inversion H; subst. rewrite Hb2, Hb, Hbs1. cbn [bind].
    exists (b2 :: b :: bs1). split; [reflexivity | apply perm_swap].
  - destruct (IH1 _ H) as [bs1 [E1 Pm1]]. destruct (IH2 _ E1) as [bs2 [E2 Pm2]].
    exists bs2. split; [exact E2 | eapply Permutation_trans; eassumption].
Qed.

Theorem level_order_irrelevant g P levels levels' cfg r : Permutation levels levels' ->
  snapPolygon g P levels cfg = Ok r ->
  exists r', snapPolygon g P levels' cfg = Ok r' /\ Permutation r r'.
Proof.
  intros Pm H. unfold snapPolygon in *. destruct (insertPolygon g P) as [hs | e].
  - bind_inv H rs Hrs. inversion H; subst.
    destruct (mapM_perm _ _ _ _ Pm Hrs) as [rs' [E Pr]]. rewrite E. cbn [bind].
    eexists. split; [reflexivity |]. apply Permutation_flat_map, Pr.
  - exists r. split; [exact H | apply Permutation_refl].
Qed.

(** failure does not depend on the order either (which error is reported may) *)
Corollary level_order_irrelevant_err g P levels levels' cfg : Permutation levels levels' ->
  is_ok (snapPolygon g P levels cfg) = is_ok (snapPolygon g P levels' cfg).
Proof.
  intro Pm. destruct (snapPolygon g P levels cfg) as [r | e] eqn:E1, (snapPolygon g P levels' cfg) as [r' | e'] eqn:E2;
    try reflexivity.
  - destruct (level_order_irrelevant _ _ _ _ _ _ Pm E1) as [x [Hx _]]. congruence.
  - destruct (level_order_irrelevant _ _ _ _ _ _ (Permutation_sym Pm) E2) as [x [Hx _]]. congruence.
Qed.

(** ** C08: the result is keyed by the requested levels, each at most once *)
Lemma mapM_keys {A} (f : nat -> res A) ls rs : mapM (fun L => do r <- f L; Ok (L, r)) ls = Ok rs -> map fst rs = ls.
Proof.
  revert rs. induction ls as [| L ls IH]; intros rs H; cbn [mapM] in H.
  - inversion H. reflexivity.
  - bind_inv H b Hb. bind_inv Hb r Hr. inversion Hb; subst. bind_inv H bs Hbs. inversion H; subst.
    cbn [map fst]. rewrite (IH _ Hbs). reflexivity.
Qed.

Lemma present_subseq (rs : list (nat * option (list polygon))) :
  subseq (map fst (flat_map (fun lr => match snd lr with Some ps => [(fst lr, ps)] | None => [] end) rs)) (map fst rs).
Proof.
  induction rs as [| [L [ps |]] rs IH]; cbn [flat_map map fst snd app]; [constructor | apply sub_keep, IH | apply sub_skip, IH].
Qed.

Theorem levels_keyed g P levels cfg r : snapPolygon g P levels cfg = Ok r ->
  subseq (map fst r) levels /\ (NoDup levels -> NoDup (map fst r)).
Proof.
  intro H.
  assert (S : subseq (map fst r) levels).
  { unfold snapPolygon in H. destruct (insertPolygon g P) as [hs | e].
    - bind_inv H rs Hrs. inversion H; subst. rewrite <- (mapM_keys _ _ _ Hrs). apply present_subseq.
    - destruct e; try discriminate. destruct (ignoreOutsideGrid cfg); inversion H. apply subseq_nil_l. }
  split; [exact S | apply subseq_NoDup, S].
Qed.

(** the value stored under a key is that level's own result (levels do not interact) *)
Theorem level_value g P levels cfg r L ps : snapPolygon g P levels cfg = Ok r -> In (L, ps) r ->
  exists hs, insertPolygon g P = Ok hs /\ In L levels /\ snapLevel g (hotLevels g hs) P cfg L = Ok (Some ps).
Proof.
  intros H Hin. unfold snapPolygon in H. destruct (insertPolygon g P) as [hs | e].
  - exists hs. split; [reflexivity |]. bind_inv H rs Hrs. inversion H; subst. clear H.
    apply in_flat_map in Hin. destruct Hin as [[L' o] [Hrs' Ho]]. cbn [fst snd] in Ho.
    destruct o as [ps' |]; [| destruct Ho]. destruct Ho as [Ho | []]. inversion Ho; subst.
    apply mapM_ok in Hrs. clear -Hrs Hrs'. induction Hrs as [| a b l bs Hab F IH]; [destruct Hrs' |].
    destruct Hrs' as [E | Hr].
    + subst b. bind_inv Hab o Ho. inversion Hab; subst. split; [left; reflexivity | exact Ho].
    + destruct (IH Hr) as [I1 I2]. split; [right; exact I1 | exact I2].
  - destruct e; try discriminate. destruct (ignoreOutsideGrid cfg); inversion H; subst. destruct Hin.
Qed.

(** ** C04 clause 1 at the level of snapPolygon: no returned point is invented *)
Section Provenance.
  Hypothesis kmp_subseq : forall r r', kmpDeduplicate r = Ok r' -> subseq r' r.

  Theorem snap_provenance g P levels cfg r L ps p :
    snapPolygon g P levels cfg = Ok r -> In (L, ps) r -> In p (concat (concat ps)) ->
    exists hs r0 r' a b, insertPolygon g P = Ok hs /\ In r0 P /\ (r' = r0 \/ r' = rev r0) /\
      In (a, b) (dedges r') /\ In p (snapClosestPoints g (hotLevels g hs) a b L).
  Proof.
    intros H Hin Hp. destruct (level_value _ _ _ _ _ _ _ H Hin) as [hs [Hi [_ Hl]]].
    destruct (level_provenance kmp_subseq _ _ _ _ _ _ _ Hl Hp) as [idx [r0 [a [b [Hn [He Hs]]]]]].
    exists hs, r0, (ensureCorrectWindingOrder r0 (negb (idx =? 0)%nat)), a, b.
    split; [exact Hi |]. split; [eapply nth_error_In, Hn |]. split; [apply ensure_cases |]. auto.
  Qed.
End Provenance.

(** a level that yields geometry is present under its key *)
Theorem level_present g P levels cfg r hs L ps : snapPolygon g P levels cfg = Ok r ->
  insertPolygon g P = Ok hs -> In L levels -> snapLevel g (hotLevels g hs) P cfg L = Ok (Some ps) -> In (L, ps) r.
Proof.
  intros H Hi HL Hs. unfold snapPolygon in H. rewrite Hi in H. bind_inv H rs Hrs. inversion H; subst. clear H.
  apply in_flat_map. exists (L, Some ps). split; [| left; reflexivity].
  apply mapM_ok in Hrs. clear -Hrs HL Hs. induction Hrs as [| a b l bs Hab F IH]; [destruct HL |].
  destruct HL as [-> | HL]; [| right; apply IH, HL].
  left. rewrite Hs in Hab. cbn [bind] in Hab. inversion Hab. reflexivity.
Qed.

(** ** the reverse flag at the level of snapPolygon *)
Definition rev_related (res res' : list polygon) : Prop :=
  exists polys pls, res = polys ++ map (fun pl => [pl]) pls /\
                    res' = map (map (@rev pt)) polys ++ map (fun pl => [pl]) pls /\
                    Forall (poly_ok 1) polys /\ Forall pl_ok pls.

Lemma levelOut_none polys pls : levelOut polys pls = None <-> levelOut (map (map (@rev pt)) polys) pls = None.
Proof.
  unfold levelOut. cbn zeta. destruct polys as [| p polys]; [reflexivity |]. cbn [map app]. split; discriminate.
Qed.

Lemma levelOut_some polys pls x : Some x = levelOut polys pls -> x = polys ++ map (fun pl => [pl]) pls.
Proof.
  unfold levelOut. cbn zeta. destruct (polys ++ map (fun pl : ring => [pl]) pls); [discriminate |].
  intro H. inversion H. reflexivity.
Qed.

Theorem snap_reverse_flag g P levels cfg r : snapPolygon g P levels (setRev cfg false) = Ok r ->
  exists r', snapPolygon g P levels (setRev cfg true) = Ok r' /\
             Forall2 (fun kv kv' => fst kv = fst kv' /\ rev_related (snd kv) (snd kv')) r r'.
Proof.
  unfold snapPolygon. destruct (insertPolygon g P) as [hs | e].
  - intro H. bind_inv H rs Hrs. inversion H; subst. clear H.
    assert (Hm : exists rs', mapM (fun L => do r <- snapLevel g (hotLevels g hs) P (setRev cfg true) L; Ok (L, r)) levels = Ok rs' /\
              Forall2 (fun x x' => fst x = fst x' /\
                         exists polys pls, snd x = levelOut polys pls /\ snd x' = levelOut (map (map (@rev pt)) polys) pls /\
                                           Forall (poly_ok 1) polys /\ Forall pl_ok pls) rs rs').
    { revert rs Hrs. induction levels as [| L ls IH]; intros rs Hrs; cbn [mapM] in *.
      - inversion Hrs. exists []. split; [reflexivity | constructor].
      - bind_inv Hrs b Hb. bind_inv Hb o Hres. inversion Hb; subst. bind_inv Hrs bs Hbs. inversion Hrs; subst.
        pose proof (reverse_flag_only_reverses g (hotLevels g hs) P cfg L) as Hr. rewrite Hres in Hr.
        destruct Hr as [polys [pls [E1 [E2 [F1 F2]]]]]. rewrite E2. cbn [bind].
        destruct (IH _ Hbs) as [bs' [E3 F3]]. rewrite E3. cbn [bind]. eexists. split; [reflexivity |].
        constructor; [| exact F3]. cbn [fst snd]. split; [reflexivity |]. exists polys, pls. auto. }
    destruct Hm as [rs' [E F]]. rewrite E. cbn [bind]. eexists. split; [reflexivity |].
    clear -F. induction F as [| [L o] [L' o'] rs rs' [EL [polys [pls [E1 [E2 [F1 F2]]]]]] F IH]; cbn [flat_map]; [constructor |].
    cbn [fst snd] in *. subst L'.
    destruct o as [res |].
    + destruct o' as [res' |]; [| exfalso; symmetry in E2; apply levelOut_none in E2; congruence].
      cbn [app]. constructor; [| exact IH]. cbn [fst snd]. split; [reflexivity |]. exists polys, pls.
      apply levelOut_some in E1. apply levelOut_some in E2. auto.
    + destruct o' as [res' |]; [exfalso; symmetry in E1; apply levelOut_none in E1; congruence |]. exact IH.
  - intro H. exists r. split; [exact H |]. destruct e; try discriminate. cbn [ignoreOutsideGrid setRev] in H.
    destruct (ignoreOutsideGrid cfg); inversion H. constructor.
Qed.

(** the model is a function of its arguments: the same polygon with the same settings gives the same
    result, whatever the process, the repetition or the iteration order of Go's maps (the ordered maps of
    the code are modelled as ordered lists; the only unordered iteration, over levels, is covered by
    [level_order_irrelevant] and [levels_keyed]) *)
Lemma snap_functional g P levels cfg r1 r2 :
  snapPolygon g P levels cfg = r1 -> snapPolygon g P levels cfg = r2 -> r1 = r2.
Proof. intros H1 H2. congruence. Qed.
