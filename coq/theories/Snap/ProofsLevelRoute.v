(** * Routing one ring: [routeRing] = assembling the per-edge centre lists + hit accounting.
      Provenance, no equal neighbours, and "flagged iff recorded twice". *)
From Coq Require Import ZArith List Bool Lia Permutation.
From Texel Require Import Prelude.Base Index.Model Snap.Model Snap.ProofsBasics Snap.ProofsSplit.
Import ListNotations.
Open Scope Z_scope.

(** ** routeRing as two folds over the list of segments *)
Fixpoint assemble (segs : list (list pt)) (nr : list pt) : res (list pt) :=
  match segs with
  | [] => Ok nr
  | pts :: rest => do c <- cleanupNewVertices pts (last_opt nr); assemble rest (nr ++ c)
  end.

Definition recorded (segs : list (list pt)) : list pt := concat (map (@tl pt) segs).

Definition hitsAll (segs : list (list pt)) (st : hits) (id : nat) : hits :=
  fold_left (fun s v => checkPointHits s v id) (recorded segs) st.

Fixpoint edgesFrom (first : pt) (verts : list pt) : list (pt * pt) :=
  match verts with
  | [] => []
  | v :: r => (v, match r with [] => first | w :: _ => w end) :: edgesFrom first r
  end.

Lemma edgesFrom_pairs first verts : edgesFrom first verts = pairs (verts ++ [first]).
Proof.
  induction verts as [| v r IH]; [reflexivity |]. cbn [edgesFrom]. rewrite IH.
  destruct r as [| w r]; reflexivity.
Qed.

Lemma edgesFrom_dedges first t : edgesFrom first (first :: t) = dedges (first :: t).
Proof. apply edgesFrom_pairs. Qed.

Definition segsOf (g : grid) (hots : list (list (Z * Z))) (L : nat) (es : list (pt * pt)) : list (list pt) :=
  map (fun e => snapClosestPoints g hots (fst e) (snd e) L) es.

Lemma routeRing_eq g hots L id first : forall verts st nr,
  routeRing g hots L id first verts st nr =
    do nr' <- assemble (segsOf g hots L (edgesFrom first verts)) nr;
    Ok (nr', hitsAll (segsOf g hots L (edgesFrom first verts)) st id).
Proof.
  induction verts as [| v r IH]; intros st nr; [reflexivity |].
  cbn [routeRing edgesFrom segsOf map assemble fst snd]. unfold snapAndHit.
  destruct (cleanupNewVertices _ (last_opt nr)) as [c | e]; cbn [bind]; [| reflexivity].
  rewrite IH. unfold hitsAll, recorded, segsOf. cbn [map concat]. rewrite fold_left_app. reflexivity.
Qed.

(** ** provenance and equal neighbours *)
Lemma assemble_incl segs : forall nr nr', assemble segs nr = Ok nr' ->
  incl nr' (nr ++ concat segs).
Proof.
  induction segs as [| pts rest IH]; intros nr nr' H; cbn [assemble] in H.
  - inversion H; subst. cbn [concat]. rewrite app_nil_r. apply incl_refl.
  - bind_inv H c Hc. apply IH in H. apply cleanupNewVertices_subseq, subseq_incl in Hc.
    intros x Hx. apply H in Hx. cbn [concat]. apply in_app_or in Hx. destruct Hx as [Hx | Hx].
    + apply in_app_or in Hx. destruct Hx as [Hx | Hx]; [apply in_or_app; left; exact Hx |].
      apply in_or_app. right. apply in_or_app. left. apply Hc, Hx.
    + apply in_or_app. right. apply in_or_app. right. exact Hx.
Qed.

Lemma assemble_nonempty segs : forall nr nr', assemble segs nr = Ok nr' -> Forall (fun s => s <> []) segs.
Proof.
  induction segs as [| pts rest IH]; intros nr nr' H; cbn [assemble] in H; [constructor |].
  bind_inv H c Hc. constructor; [| apply (IH _ _ H)]. destruct pts; [discriminate | discriminate].
Qed.

(** what cleanupNewVertices returns *)
Definition keptOf (pts : list pt) : list pt := if (1 <? length pts)%nat then removelast pts else pts.

Lemma cleanupNewVertices_spec pts lv c : cleanupNewVertices pts lv = Ok c ->
  pts <> [] /\
  c = match lv with
      | Some l => if pt_eqb (hd dp pts) l then tl (keptOf pts) else keptOf pts
      | None => keptOf pts
      end.
Proof.
  unfold cleanupNewVertices, keptOf. destruct pts as [| first t]; [discriminate |]. cbn [hd].
  intro H. split; [discriminate |]. destruct lv as [l |]; [destruct (pt_eqb first l) |]; inversion H; reflexivity.
Qed.

Lemma no_adj_lin_app (a b : list pt) : no_adj_lin a -> no_adj_lin b ->
  (a <> [] -> b <> [] -> last a dp <> hd dp b) -> no_adj_lin (a ++ b).
Proof.
  intros Ha Hb Hj. destruct b as [| y b]; [rewrite app_nil_r; exact Ha |].
  destruct (snoc_cases a) as [-> | [a' [z ->]]]; [exact Hb |].
  intros p q Hin. rewrite <- app_assoc in Hin. cbn [app] in Hin. rewrite pairs_app in Hin.
  apply in_app_or in Hin. destruct Hin as [Hin | Hin].
  - apply Ha, Hin.
  - rewrite pairs_cons2 in Hin. destruct Hin as [E | Hin]; [| apply Hb, Hin].
    inversion E; subst. specialize (Hj ltac:(intro X; apply app_eq_nil in X; destruct X; discriminate) ltac:(discriminate)).
    rewrite last_last in Hj. exact Hj.
Qed.

Lemma no_adj_lin_subprefix (l : list pt) : no_adj_lin l -> no_adj_lin (removelast l).
Proof.
  intro H. destruct (snoc_cases l) as [-> | [l' [z ->]]]; [exact H |]. rewrite removelast_last.
  intros p q Hin. apply H. destruct (snoc_cases l') as [-> | [l'' [y ->]]]; [destruct Hin |].
  rewrite <- app_assoc. cbn [app]. rewrite pairs_snoc. apply in_or_app. left. exact Hin.
Qed.

Lemma no_adj_lin_tl (l : list pt) : no_adj_lin l -> no_adj_lin (tl l).
Proof. destruct l; [auto | apply no_adj_lin_tail]. Qed.

Lemma last_opt_last (l : list pt) z : last_opt l = Some z -> l <> [] /\ last l dp = z.
Proof.
  destruct (snoc_cases l) as [-> | [l' [y ->]]]; [discriminate |]. rewrite last_opt_snoc, last_last.
  intro H; inversion H; subst. split; [intro X; apply app_eq_nil in X; destruct X; discriminate | reflexivity].
Qed.

Lemma hd_keptOf pts : pts <> [] -> hd dp (keptOf pts) = hd dp pts.
Proof.
  unfold keptOf. destruct pts as [| a [| b t]]; [congruence | reflexivity |]. intros _. reflexivity.
Qed.

Lemma keptOf_ne pts : pts <> [] -> keptOf pts <> [].
Proof. unfold keptOf. destruct pts as [| a [| b t]]; [congruence | discriminate | discriminate]. Qed.

Lemma no_adj_keptOf pts : no_adj_lin pts -> no_adj_lin (keptOf pts).
Proof. unfold keptOf. destruct (1 <? length pts)%nat; [apply no_adj_lin_subprefix | auto]. Qed.

(** the assembled ring has no two equal consecutive vertices as soon as no segment has *)
Theorem route_no_adj_lin segs : forall nr nr', Forall no_adj_lin segs -> no_adj_lin nr ->
  assemble segs nr = Ok nr' -> no_adj_lin nr'.
Proof.
  induction segs as [| pts rest IH]; intros nr nr' Hs Hn H; cbn [assemble] in H.
  - inversion H; subst. exact Hn.
  - bind_inv H c Hc. inversion Hs as [| ? ? Hp Hrest]; subst.
    apply (IH _ _ Hrest) in H; [exact H |].
    destruct (cleanupNewVertices_spec _ _ _ Hc) as [Hne Ec].
    pose proof (no_adj_keptOf pts Hp) as Hk.
    destruct (last_opt nr) as [z |] eqn:El.
    + destruct (last_opt_last _ _ El) as [Hnr Ez]. destruct (pt_eqb_spec (hd dp pts) z) as [Eh | Nh]; subst c.
      * apply no_adj_lin_app; [exact Hn | apply no_adj_lin_tl, Hk |].
        intros _ Ht. rewrite Ez, <- Eh, <- (hd_keptOf pts Hne).
        destruct (keptOf pts) as [| a [| b t]]; cbn [tl hd] in *; [congruence | congruence |].
        apply (no_adj_lin_head _ _ _ Hk).
      * apply no_adj_lin_app; [exact Hn | exact Hk |]. intros _ _. rewrite Ez, hd_keptOf by exact Hne. auto.
    + apply last_opt_None in El. subst nr c. exact Hk.
Qed.

(** ** the chain structure: with exact routing (every segment list starts where the previous one
       ended, cyclically) the assembled ring is the closed chain of recorded centres *)
Fixpoint seg_chain (h : pt) (segs : list (list pt)) : Prop :=
  match segs with [] => True | s :: rest => hd dp s = h /\ seg_chain (last s dp) rest end.

Fixpoint endOf (h : pt) (segs : list (list pt)) : pt :=
  match segs with [] => h | s :: rest => endOf (last s dp) rest end.

Definition chain_inv (nr Cacc : list pt) : Prop := nr = Cacc \/ nr ++ [last Cacc dp] = Cacc.

Lemma last_two_adj (l : list pt) z h : no_adj_lin ((l ++ [z]) ++ [h]) -> z <> h.
Proof. intro H. apply H. rewrite <- app_assoc. cbn [app]. rewrite pairs_snoc. apply in_or_app. right. left. reflexivity. Qed.

Lemma assemble_step nr Cacc s c : Cacc <> [] -> nr <> [] -> no_adj_lin Cacc -> chain_inv nr Cacc ->
  hd dp s = last Cacc dp -> no_adj_lin s -> cleanupNewVertices s (last_opt nr) = Ok c ->
  nr ++ c <> [] /\ no_adj_lin (Cacc ++ tl s) /\ chain_inv (nr ++ c) (Cacc ++ tl s) /\
  last (Cacc ++ tl s) dp = last s dp.
Proof.
  intros HC Hnr HnC Hinv Hh Hs Hc.
  destruct (cleanupNewVertices_spec _ _ _ Hc) as [Hne Ec].
  destruct (snoc_cases nr) as [-> | [nr0 [z Enr]]]; [congruence |].
  rewrite Enr, last_opt_snoc in Ec.
  destruct s as [| h t]; [congruence |]. cbn [hd tl] in *. subst h.
  assert (Hz : z = last nr dp) by (rewrite Enr, last_last; reflexivity).
  split; [intro X; apply app_eq_nil in X; destruct X; congruence |].
  assert (HnC1 : no_adj_lin (Cacc ++ t)).
  { apply no_adj_lin_app; [exact HnC | apply (no_adj_lin_tail _ _ Hs) |].
    intros _ Ht. destruct t as [| y t]; [congruence |]. cbn [hd]. apply (no_adj_lin_head _ _ _ Hs). }
  split; [exact HnC1 |].
  destruct (snoc_cases t) as [-> | [t' [y ->]]].
  - (* one-point segment *)
    rewrite app_nil_r. unfold keptOf in Ec. cbn [length Nat.ltb Nat.leb tl] in Ec. split; [| reflexivity].
    destruct Hinv as [Hi | Hi].
    + rewrite Hi in Hz. rewrite Hz, pt_eqb_refl in Ec. subst c. rewrite app_nil_r. left. exact Hi.
    + assert (Nz : z <> last Cacc dp).
      { apply (last_two_adj nr0). rewrite <- Enr, Hi. exact HnC. }
      destruct (pt_eqb_spec (last Cacc dp) z) as [E | _]; [congruence |]. subst c. left. exact Hi.
  - (* longer segment *)
    assert (Ek : keptOf (last Cacc dp :: t' ++ [y]) = last Cacc dp :: t').
    { unfold keptOf. replace (1 <? length (last Cacc dp :: t' ++ [y]))%nat with true.
      - rewrite app_comm_cons, removelast_last. reflexivity.
      - symmetry. apply Nat.ltb_lt. cbn [length]. rewrite app_length. cbn [length]. lia. }
    rewrite Ek in Ec. cbn [tl] in Ec.
    assert (Hl : last (Cacc ++ t' ++ [y]) dp = y) by (rewrite app_assoc, last_last; reflexivity).
    split.
    + right. rewrite Hl. destruct Hinv as [Hi | Hi].
      * rewrite Hi in Hz. rewrite Hz, pt_eqb_refl in Ec. subst c. rewrite Hi, <- app_assoc. reflexivity.
      * assert (Nz : z <> last Cacc dp).
        { apply (last_two_adj nr0). rewrite <- Enr, Hi. exact HnC. }
        destruct (pt_eqb_spec (last Cacc dp) z) as [E | _]; [congruence |]. subst c.
        rewrite <- Hi at 2. rewrite <- !app_assoc. reflexivity.
    + rewrite Hl. rewrite app_comm_cons, last_last. reflexivity.
Qed.

Lemma assemble_chain segs : forall nr Cacc nr', Cacc <> [] -> nr <> [] -> no_adj_lin Cacc -> chain_inv nr Cacc ->
  seg_chain (last Cacc dp) segs -> Forall no_adj_lin segs -> assemble segs nr = Ok nr' ->
  nr' <> [] /\ no_adj_lin (Cacc ++ recorded segs) /\ chain_inv nr' (Cacc ++ recorded segs) /\
  last (Cacc ++ recorded segs) dp = endOf (last Cacc dp) segs.
Proof.
  induction segs as [| s rest IH]; intros nr Cacc nr' HC Hnr HnC Hinv Hch Hs H; cbn [assemble] in H.
  - inversion H; subst. unfold recorded. cbn [map concat endOf]. rewrite app_nil_r. auto.
  - bind_inv H c Hc. inversion Hs as [| ? ? Hs0 Hrest]; subst. cbn [seg_chain] in Hch. destruct Hch as [Hh Hch].
    destruct (assemble_step nr Cacc s c HC Hnr HnC Hinv Hh Hs0 Hc) as [N1 [N2 [N3 N4]]].
    assert (HC1 : Cacc ++ tl s <> []) by (intro X; apply app_eq_nil in X; destruct X; congruence).
    rewrite <- N4 in Hch.
    destruct (IH _ _ _ HC1 N1 N2 N3 Hch Hrest H) as [M1 [M2 [M3 M4]]].
    unfold recorded in *. cbn [map concat endOf]. rewrite app_assoc. rewrite <- N4. auto.
Qed.

Theorem route_structure s0 rest nr :
  Forall no_adj_lin (s0 :: rest) -> seg_chain (last s0 dp) rest -> endOf (last s0 dp) rest = hd dp s0 ->
  assemble (s0 :: rest) [] = Ok nr ->
  let C := hd dp s0 :: recorded (s0 :: rest) in
  nr <> [] /\ no_adj_lin C /\ chain_inv nr C /\ last C dp = hd dp s0.
Proof.
  intros Hs Hch Hend H. cbn [assemble last_opt rev] in H. bind_inv H c Hc.
  destruct (cleanupNewVertices_spec _ _ _ Hc) as [Hne Ec]. cbn [app] in H.
  inversion Hs as [| ? ? Hs0 Hrest]; subst.
  assert (Hnr : keptOf s0 <> []) by (apply keptOf_ne, Hne).
  assert (Hinv : chain_inv (keptOf s0) s0).
  { unfold chain_inv, keptOf. destruct (Nat.ltb_spec 1 (length s0)) as [Hl | Hl]; [right | left; reflexivity].
    destruct (snoc_cases s0) as [-> | [s' [z ->]]]; [congruence |]. rewrite removelast_last, last_last. reflexivity. }
  destruct (assemble_chain rest (keptOf s0) s0 nr Hne Hnr Hs0 Hinv Hch Hrest H) as [M1 [M2 [M3 M4]]].
  assert (EC : hd dp s0 :: recorded (s0 :: rest) = s0 ++ recorded rest).
  { unfold recorded. cbn [map concat]. destruct s0; [congruence | reflexivity]. }
  cbn zeta. rewrite EC. rewrite M4, Hend. auto.
Qed.

(** ** dropping the closing vertex (first step of cleanupNewRing) *)
Definition dropClosing (newRing : ring) : ring :=
  match newRing, last_opt newRing with
  | first :: _, Some l => if (1 <? length newRing)%nat && pt_eqb first l then removelast newRing else newRing
  | _, _ => newRing
  end.

Lemma dropClosing_subseq nr : subseq (dropClosing nr) nr.
Proof.
  unfold dropClosing. destruct nr as [| a t]; [constructor |]. destruct (last_opt (a :: t)); [| apply subseq_refl].
  destruct ((1 <? length (a :: t))%nat && pt_eqb a p); [apply subseq_removelast | apply subseq_refl].
Qed.

(** with exact routing the ring handed to kmpDeduplicate is a rotation of the recorded centres *)
Theorem route_counts s0 rest nr :
  Forall no_adj_lin (s0 :: rest) -> seg_chain (last s0 dp) rest -> endOf (last s0 dp) rest = hd dp s0 ->
  assemble (s0 :: rest) [] = Ok nr ->
  Permutation (dropClosing nr) (recorded (s0 :: rest)) \/ (length (dropClosing nr) <= 1)%nat.
Proof.
  intros Hs Hch Hend H. destruct (route_structure s0 rest nr Hs Hch Hend H) as [Hnr [HnC [Hinv Hl]]].
  set (h0 := hd dp s0) in *. set (R := recorded (s0 :: rest)) in *.
  destruct (snoc_cases R) as [ER | [R' [y ER]]]; rewrite ER in *.
  - right. destruct Hinv as [-> | Hi]; [cbn; lia |].
    cbn [last] in Hi. destruct nr; [congruence | destruct nr; discriminate].
  - rewrite app_comm_cons, last_last in Hl. subst y. left.
    assert (Ed : dropClosing nr = h0 :: R').
    { destruct Hinv as [-> | Hi].
      - unfold dropClosing. rewrite app_comm_cons, last_opt_snoc.
        replace (1 <? length ((h0 :: R') ++ [h0]))%nat with true
          by (symmetry; apply Nat.ltb_lt; rewrite app_length; cbn [length]; lia).
        cbn [app]. rewrite pt_eqb_refl. cbn [andb]. rewrite app_comm_cons, removelast_last. reflexivity.
      - change (h0 :: R' ++ [h0]) with ((h0 :: R') ++ [h0]) in Hi. rewrite last_last in Hi. apply app_inj_tail in Hi.
        destruct Hi as [Hi _]. subst nr. unfold dropClosing.
        destruct (snoc_cases R') as [-> | [R'' [w ->]]].
        + exfalso. apply (HnC h0 h0); [left; reflexivity | reflexivity].
        + rewrite app_comm_cons, last_opt_snoc.
          assert (Nw : w <> h0). { apply (last_two_adj (h0 :: R'')). exact HnC. }
          destruct (pt_eqb_spec h0 w) as [E | _]; [congruence |]. rewrite andb_false_r. reflexivity. }
    rewrite Ed. apply Permutation_cons_append.
Qed.

(** ** hit accounting *)
Lemma hm_get_app m p id q : hm_get (hm_app m p id) q = if pt_eqb q p then hm_get m p ++ [id] else hm_get m q.
Proof.
  induction m as [| [x l] m IH]; cbn [hm_app hm_get].
  - destruct (pt_eqb q p); reflexivity.
  - destruct (pt_eqb_spec p x) as [Epx | Npx]; cbn [hm_get].
    + subst x. destruct (pt_eqb_spec q p) as [Eqp | Nqp]; reflexivity.
    + destruct (pt_eqb_spec q x) as [Eqx | Nqx].
      * subst x. destruct (pt_eqb_spec q p) as [E | _]; [congruence | reflexivity].
      * rewrite IH. reflexivity.
Qed.

Lemma mem_nat_snoc id id' l : mem_nat id' (l ++ [id]) = mem_nat id' l || Nat.eqb id' id.
Proof. unfold mem_nat. rewrite existsb_app. cbn [existsb]. rewrite orb_false_r. reflexivity. Qed.

Lemma checkPointHits_eq st v id :
  checkPointHits st v id =
    if negb (mem_nat id (hm_get (hitOnce st) v)) then mkHits (hm_app (hitOnce st) v id) (hitMultiple st)
    else if negb (mem_nat id (hm_get (hitMultiple st) v)) then mkHits (hitOnce st) (hm_app (hitMultiple st) v id)
    else st.
Proof. unfold checkPointHits. destruct (hm_get (hitOnce st) v); reflexivity. Qed.

Definition onceb (st : hits) (id : nat) (p : pt) : bool := mem_nat id (hm_get (hitOnce st) p).
Definition multib (st : hits) (id : nat) (p : pt) : bool := mem_nat id (hm_get (hitMultiple st) p).

Lemma checkPointHits_same st v id q :
  onceb (checkPointHits st v id) id q = onceb st id q || pt_eqb q v /\
  multib (checkPointHits st v id) id q = multib st id q || (pt_eqb q v && onceb st id v).
Proof.
  unfold onceb, multib. rewrite checkPointHits_eq.
  destruct (mem_nat id (hm_get (hitOnce st) v)) eqn:O; cbn [negb].
  - destruct (mem_nat id (hm_get (hitMultiple st) v)) eqn:M; cbn [negb hitOnce hitMultiple].
    + destruct (pt_eqb_spec q v) as [-> | N]; rewrite ?O, ?M, ?orb_true_r, ?orb_false_r; auto.
    + rewrite hm_get_app. destruct (pt_eqb_spec q v) as [-> | N].
      * rewrite mem_nat_snoc, Nat.eqb_refl, O, !orb_true_r. auto.
      * rewrite !orb_false_r. auto.
  - cbn [hitOnce hitMultiple]. rewrite hm_get_app. destruct (pt_eqb_spec q v) as [-> | N].
    + rewrite mem_nat_snoc, Nat.eqb_refl, !orb_true_r, orb_false_r. auto.
    + rewrite !orb_false_r. auto.
Qed.

Lemma checkPointHits_other st v id id' q : id' <> id ->
  onceb (checkPointHits st v id) id' q = onceb st id' q /\
  multib (checkPointHits st v id) id' q = multib st id' q.
Proof.
  intro N. apply Nat.eqb_neq in N. unfold onceb, multib. rewrite checkPointHits_eq.
  destruct (negb (mem_nat id (hm_get (hitOnce st) v))); cbn [hitOnce hitMultiple].
  - rewrite hm_get_app. destruct (pt_eqb_spec q v) as [-> | _]; [rewrite mem_nat_snoc, N, orb_false_r |]; auto.
  - destruct (negb (mem_nat id (hm_get (hitMultiple st) v))); cbn [hitOnce hitMultiple]; [| auto].
    rewrite hm_get_app. destruct (pt_eqb_spec q v) as [-> | _]; [rewrite mem_nat_snoc, N, orb_false_r |]; auto.
Qed.

Definition hits_fresh (st : hits) (id : nat) : Prop := forall p, onceb st id p = false /\ multib st id p = false.

Definition cnt (l : list pt) (p : pt) : nat := count_occ pt_dec l p.

Lemma hits_fold l : forall st id p,
  let st' := fold_left (fun s v => checkPointHits s v id) l st in
  onceb st' id p = onceb st id p || (1 <=? cnt l p)%nat /\
  multib st' id p = multib st id p || (onceb st id p && (1 <=? cnt l p)%nat) || (2 <=? cnt l p)%nat.
Proof.
  induction l as [| v l IH]; intros st id p; cbn [fold_left]; cbn zeta.
  - unfold cnt. cbn [count_occ Nat.leb]. rewrite andb_false_r, !orb_false_r. auto.
  - destruct (checkPointHits_same st v id p) as [E1 E2].
    destruct (IH (checkPointHits st v id) id p) as [I1 I2]. cbn zeta in *. rewrite I1, I2, E1, E2.
    unfold cnt. cbn [count_occ]. destruct (pt_dec v p) as [E | N].
    + subst v. rewrite pt_eqb_refl. cbn [andb].
      destruct (onceb st id p), (multib st id p), (count_occ pt_dec l p) as [| [| n]]; split; reflexivity.
    + assert (Np : pt_eqb p v = false) by (destruct (pt_eqb_spec p v); congruence).
      rewrite Np. cbn [andb]. rewrite !orb_false_r. auto.
Qed.

Theorem hit_accounting g hots L id first verts st0 nr st :
  routeRing g hots L id first verts st0 [] = Ok (nr, st) -> hits_fresh st0 id ->
  forall p, isMultiFor st id p = true <->
            (2 <= count_occ pt_dec (recorded (segsOf g hots L (edgesFrom first verts))) p)%nat.
Proof.
  intros H Hf p. rewrite routeRing_eq in H. bind_inv H nr' Ha. inversion H; subst.
  unfold isMultiFor. fold (multib (hitsAll (segsOf g hots L (edgesFrom first verts)) st0 id) id p).
  unfold hitsAll. destruct (hits_fold (recorded (segsOf g hots L (edgesFrom first verts))) st0 id p) as [_ I2].
  cbn zeta in I2. rewrite I2. destruct (Hf p) as [-> ->]. cbn [orb andb]. unfold cnt. rewrite Nat.leb_le. reflexivity.
Qed.

(** other rings' ids are untouched; the ring's own id is recorded only under that id *)
Lemma hits_fold_other l : forall st id id' p, id' <> id ->
  let st' := fold_left (fun s v => checkPointHits s v id) l st in
  onceb st' id' p = onceb st id' p /\ multib st' id' p = multib st id' p.
Proof.
  induction l as [| v l IH]; intros st id id' p N; cbn [fold_left]; [auto |].
  destruct (IH (checkPointHits st v id) id id' p N) as [-> ->]. apply checkPointHits_other, N.
Qed.

Lemma route_fresh_other g hots L id first verts st0 nr st id' :
  routeRing g hots L id first verts st0 [] = Ok (nr, st) -> id' <> id -> hits_fresh st0 id' -> hits_fresh st id'.
Proof.
  intros H N Hf p. rewrite routeRing_eq in H. bind_inv H nr' Ha. inversion H; subst.
  unfold hitsAll. destruct (hits_fold_other (recorded (segsOf g hots L (edgesFrom first verts))) st0 id id' p N) as [-> ->].
  apply Hf.
Qed.
