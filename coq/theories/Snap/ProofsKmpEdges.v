(** * C18 for kmpDeduplicate: conservation of directed cyclic edges modulo cancellation.

    - [kmp_conserves_le2_upto_9]: every chain over 5 centres of length <= 9 without equal
      cyclic neighbours that visits no centre more than twice is reduced to a ring whose
      directed cyclic edge multiset is that of the chain minus cancelling pairs (e, reverse e).
      (Exhaustive evaluation; the general statement is [kmp_conserves_le2] in ProofsKmpLe2.)
    - [kmp_conserves_le3_upto_10]: the same up to three visits (4 centres, length <= 10), when
      zero-length edges (p, p) of the OUTPUT are ignored: with three visits the output may
      contain two equal neighbours ([kmp_output_adjacent_dup]).
    - [F5_invented_edge]: with four visits the output can contain an edge that is neither an
      edge of the chain nor the reverse of one (finding F5). *)
From Coq Require Import ZArith List Bool Lia.
From Texel Require Import Prelude.Base Index.Model Snap.Model Snap.ProofsKmpSearch Snap.ProofsKmpEnum.
Import ListNotations.
Open Scope Z_scope.

Definition edge := (pt * pt)%type.

Fixpoint pairs (l : list pt) : list edge :=
  match l with a :: ((b :: _) as t) => (a, b) :: pairs t | _ => [] end.

(** directed edges of the closed ring (a ring of fewer than two vertices has none) *)
Definition cedges (r : list pt) : list edge :=
  match r with [] => [] | [_] => [] | a :: _ => pairs (r ++ [a]) end.

Definition edge_eqb (e f : edge) : bool := pt_eqb (fst e) (fst f) && pt_eqb (snd e) (snd f).
Definition cnt (e : edge) (l : list edge) : Z := zlen (filter (edge_eqb e) l).
Definition swap (e : edge) : edge := (snd e, fst e).
Definition nondeg (l : list edge) : list edge := filter (fun e => negb (pt_eqb (fst e) (snd e))) l.

(** [E'] is [E] minus cancelling pairs: nothing is added, and what is removed is removed together
    with its reverse, as often *)
Definition conserves (E E' : list edge) : Prop :=
  forall e, cnt e E' <= cnt e E /\ cnt e E - cnt e E' = cnt (swap e) E - cnt (swap e) E'.

Definition consb (E E' : list edge) : bool :=
  forallb (fun e => (cnt e E' <=? cnt e E) && (cnt e E - cnt e E' =? cnt (swap e) E - cnt (swap e) E'))
          (E ++ E').

Lemma edge_eqb_eq e f : edge_eqb e f = true <-> e = f.
Proof.
  destruct e as [a b], f as [c d]. unfold edge_eqb. cbn [fst snd].
  rewrite andb_true_iff, !pt_eqb_eq. split.
  - intros [H1 H2]. subst. reflexivity.
  - intro H. inversion H. auto.
Qed.

Lemma cnt_absent e l : existsb (edge_eqb e) l = false -> cnt e l = 0.
Proof.
  unfold cnt. induction l as [| f l IH]; cbn [existsb filter]; [reflexivity |].
  intro H. apply orb_false_iff in H. destruct H as [H1 H2]. rewrite H1. apply IH. exact H2.
Qed.

Lemma existsb_app_false {A} (p : A -> bool) l1 l2 :
  existsb p (l1 ++ l2) = false -> existsb p l1 = false /\ existsb p l2 = false.
Proof. rewrite existsb_app. apply orb_false_iff. Qed.

Lemma swap_swap e : swap (swap e) = e.
Proof. destruct e. reflexivity. Qed.

Lemma consb_spec E E' : consb E E' = true -> conserves E E'.
Proof.
  unfold consb. rewrite forallb_forall. intros H e.
  assert (Hin : forall x, existsb (edge_eqb x) (E ++ E') = true ->
            cnt x E' <= cnt x E /\ cnt x E - cnt x E' = cnt (swap x) E - cnt (swap x) E').
  { intros x Hx. apply existsb_exists in Hx. destruct Hx as (f & Hf & Hxf).
    apply edge_eqb_eq in Hxf. subst f. specialize (H x Hf).
    apply andb_true_iff in H. destruct H as [H1 H2]. apply Z.leb_le in H1. apply Z.eqb_eq in H2. auto. }
  destruct (existsb (edge_eqb e) (E ++ E')) eqn:X; [apply Hin; exact X |].
  apply existsb_app_false in X. destruct X as [X1 X2].
  rewrite (cnt_absent e E X1), (cnt_absent e E' X2).
  destruct (existsb (edge_eqb (swap e)) (E ++ E')) eqn:Y.
  - destruct (Hin _ Y) as [_ H2]. rewrite swap_swap in H2.
    rewrite (cnt_absent e E X1), (cnt_absent e E' X2) in H2. lia.
  - apply existsb_app_false in Y. destruct Y as [Y1 Y2].
    rewrite (cnt_absent _ E Y1), (cnt_absent _ E' Y2). lia.
Qed.

(** ** the class of C18 on words *)
Definition visits_le (n : nat) (w : list nat) : bool :=
  forallb (fun a => (length (filter (Nat.eqb a) w) <=? n)%nat) w.

Definition first_ne_last (w : list nat) : bool :=
  match w, rev w with a :: _, b :: _ => negb (Nat.eqb a b) | _, _ => true end.

Definition conserves_b (v : nat) (w : list nat) : bool :=
  if visits_le v w && first_ne_last w then
    match kmpDeduplicate (chain w) with
    | Ok r' => consb (cedges (chain w)) (cedges r')
    | Err _ => false
    end
  else true.

Definition conserves_nd_b (v : nat) (w : list nat) : bool :=
  if visits_le v w && first_ne_last w then
    match kmpDeduplicate (chain w) with
    | Ok r' => consb (cedges (chain w)) (nondeg (cedges r'))
    | Err _ => false
    end
  else true.

(** The general statement ([kmp_conserves_le2], for every ring with at most two visits per point) is
    proved in ProofsKmpLe2; the bounded evaluation below is kept as an independent check of it. *)
Lemma kmp_conserves_le2_eval : allw_ne_upto 5 9 (conserves_b 2) = true.
Proof. vm_cast_no_check (eq_refl true). Qed.

(** C18 (kmp part), bounded: at most two visits per centre => directed edges are conserved modulo
    cancellation.  [nen_from 5 w]: no two consecutive letters are equal; [first_ne_last]: the
    closing edge is not degenerate either; [visits_le 2 w]: no letter occurs more than twice. *)
Theorem kmp_conserves_le2_upto_9 : forall w,
  (length w <= 9)%nat -> Forall (fun a => (a < 5)%nat) w ->
  nen_from 5 w = true -> first_ne_last w = true -> visits_le 2 w = true ->
  exists r', kmpDeduplicate (chain w) = Ok r' /\ conserves (cedges (chain w)) (cedges r').
Proof.
  intros w Hl Hw Hne Hfl Hv.
  pose proof (allw_ne_upto_spec 5 9 _ kmp_conserves_le2_eval w Hl Hw Hne) as H.
  unfold conserves_b in H. rewrite Hv, Hfl in H. cbn [andb] in H.
  destruct (kmpDeduplicate (chain w)) as [r' | e]; [| discriminate].
  exists r'. split; [reflexivity | apply consb_spec; exact H].
Qed.

Lemma kmp_conserves_le3_eval : allw_ne_upto 4 10 (conserves_nd_b 3) = true.
Proof. vm_cast_no_check (eq_refl true). Qed.

(** up to three visits the same holds once zero-length output edges are dropped *)
Theorem kmp_conserves_le3_upto_10 : forall w,
  (length w <= 10)%nat -> Forall (fun a => (a < 4)%nat) w ->
  nen_from 4 w = true -> first_ne_last w = true -> visits_le 3 w = true ->
  exists r', kmpDeduplicate (chain w) = Ok r' /\ conserves (cedges (chain w)) (nondeg (cedges r')).
Proof.
  intros w Hl Hw Hne Hfl Hv.
  pose proof (allw_ne_upto_spec 4 10 _ kmp_conserves_le3_eval w Hl Hw Hne) as H.
  unfold conserves_nd_b in H. rewrite Hv, Hfl in H. cbn [andb] in H.
  destruct (kmpDeduplicate (chain w)) as [r' | e]; [| discriminate].
  exists r'. split; [reflexivity | apply consb_spec; exact H].
Qed.

(** with three visits the output can have two equal neighbours: C A B A B A -> C A B A A *)
Example kmp_output_adjacent_dup :
  let A := (0, 0) in let B := (1, 0) in let C := (1, 1) in
  kmpDeduplicate [C; A; B; A; B; A] = Ok [C; A; B; A; A].
Proof. vm_compute. reflexivity. Qed.

(** ** F5: four visits, an invented edge.
    A B A B A B C B A D with A = (0,0), B = (1,0), C = (1,1), D = (0,1) becomes A B A C B A D:
    the edge A -> C is not an edge of the chain, and neither is C -> A. *)
Theorem F5_invented_edge : exists r r' e,
  kmpDeduplicate r = Ok r' /\ In e (cedges r') /\ ~ In e (cedges r) /\ ~ In (swap e) (cedges r).
Proof.
  exists [(0, 0); (1, 0); (0, 0); (1, 0); (0, 0); (1, 0); (1, 1); (1, 0); (0, 0); (0, 1)].
  exists [(0, 0); (1, 0); (0, 0); (1, 1); (1, 0); (0, 0); (0, 1)].
  exists ((0, 0), (1, 1)).
  split; [vm_compute; reflexivity |]. split.
  - vm_compute. right; right; left. reflexivity.
  - split; vm_compute; intuition congruence.
Qed.

Example kmp_refuted_4visits :
  let A := (0, 0) in let B := (1, 0) in let C := (1, 1) in let D := (0, 1) in
  kmpDeduplicate [A; B; A; B; A; B; C; B; A; D] = Ok [A; B; A; C; B; A; D] /\
  consb (cedges [A; B; A; B; A; B; C; B; A; D]) (nondeg (cedges [A; B; A; C; B; A; D])) = false.
Proof. vm_compute. split; reflexivity. Qed.

Print Assumptions kmp_conserves_le2_upto_9.
Print Assumptions kmp_conserves_le3_upto_10.
Print Assumptions F5_invented_edge.
