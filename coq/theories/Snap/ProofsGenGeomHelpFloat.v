(** * The regenerated float predicates over the abstract float type (gen/GeomHelpFloatGen.v): the rational instance
      IS the exact reading of GeomHelpGen.v; the binary64 instance replays, bit for bit, the inputs on which the real
      code was observed to leave the exact reading (Snap/FloatWitnesses.v).

    Why the exact model could not see finding F23: in exact arithmetic the body of Shoelace that multiplies the raw
    ordinates and the repaired body (ordinates relative to the first point) compute the SAME number
    ([shoelace_raw_agrees]); only the binary64 evaluation tells them apart ([f23_regression]). *)
From Coq Require Import ZArith QArith Qabs Lia Lqa List Bool.
From Coq Require Import Floats.SpecFloat.
From Texel Require Import Prelude.Base Tms.Json Snap.Model Snap.ProofsBasics Snap.GoGeomHelp Snap.GoFloatOps
  Snap.FloatWitnesses Snap.ProofsGenGeomHelp.
From Texel.Gen Require Import GeomHelpGen GeomHelpFloatGen.
Import ListNotations.
Open Scope Z_scope.

(** ** the rational instance is the exact reading *)
Theorem genF_Shoelace_Q : forall (eps : Q) (pts : list qpt), genF_Shoelace (Qops eps) pts = gen_Shoelace pts.
Proof. reflexivity. Qed.

Theorem genF_RayIntersect_Q : forall (eps : Q) (p s e : qpt),
  genF_RayIntersect (Qops eps) p s e = gen_RayIntersect eps p s e.
Proof. reflexivity. Qed.

(** ** raw body against regenerated body, exact arithmetic *)
Lemma shoelace_raw_qxprod : forall (eps : Q) (l : list qpt), l <> [] ->
  exists a : Q, shoelace_raw (Qops eps) l = Ok a /\ (a == Qabs (qxprod l) / 2)%Q.
Proof.
  intros eps l Hne. unfold shoelace_raw. change (fT (Qops eps)) with Q. rewrite zlen_eqb0.
  destruct l as [|x l'] eqn:El; [contradiction|]. rewrite <- El.
  destruct (last_opt l) as [lst|] eqn:Hl; [|apply last_opt_None in Hl; rewrite Hl in El; discriminate].
  rewrite (@idx_last_of (Q * Q) l lst Hl). cbn [bind].
  match goal with
  | |- context [@fold_left ?A ?B ?f l ?s0] =>
      assert (Hf : (fst (@fold_left A B f l s0) == 0 + - qxprod l)%Q);
      [ rewrite (fold_shift f (0%Q, 0%Q));
        [ rewrite (shift_sum_closed _ l lst Hl); reflexivity
        | intros s p0 p1; unfold shoelace_raw_step, shift_term; cbn [fst snd Qops f_add f_sub f_mul];
          change (fT (Qops eps)) with Q; split; [reflexivity | ring] ]
      | destruct (@fold_left A B f l s0) as [sm p0] ]
  end.
  cbn [fst] in Hf. eexists; split; [reflexivity|].
  cbn [Qops f_abs f_quo f_int]. rewrite Hf.
  assert (E1 : (0 + - qxprod l == - qxprod l)%Q) by ring.
  rewrite E1. unfold Qdiv. rewrite Qabs_Qmult, Qabs_opp. reflexivity.
Qed.

(** on every list of rational points the body of Shoelace before the repair of F23 and the regenerated Shoelace
    return the same number (for the raw body of the source the statement is trivial; for the repaired body it is the
    translation invariance of the closed cross-product sum) *)
Theorem shoelace_raw_agrees : forall (eps : Q) (l : list qpt),
  exists a b : Q, shoelace_raw (Qops eps) l = Ok a /\ gen_Shoelace l = Ok b /\ (a == b)%Q.
Proof.
  intros eps l. destruct l as [|x l'] eqn:El.
  - exists 0%Q, 0%Q. repeat split; reflexivity.
  - rewrite <- El. assert (Hne : l <> []) by (subst; discriminate).
    destruct (shoelace_raw_qxprod eps l Hne) as [a [Ha Qa]].
    destruct (gen_Shoelace_qxprod l Hne) as [b [Hb Qb]].
    exists a, b. repeat split; try assumption. rewrite Qa, Qb. reflexivity.
Qed.

(** ** finding F23, bit for bit (binary64) *)
Definition f23_area_big : spec_float := b64 352882391203187 (-52).       (* 0.078355631139712 *)
Definition f23_area_island : spec_float := b64 200750868434409 (-53).    (* 0.022287823634937642 *)

(** the rational a float64 denotes (0 for an infinity / NaN: not used on such values) and the exact area of a ring
    of float64 points: the regenerated Shoelace in exact arithmetic on the rationals the floats denote *)
Definition b64_q (x : spec_float) : Q := match b64_toQ x with Some v => v | None => 0%Q end.
Definition exact_area (r : list (spec_float * spec_float)) : res Q :=
  gen_Shoelace (map (fun p => (b64_q (fst p), b64_q (snd p))) r).

(** |x - c| < tol *)
Definition b64_close (x : spec_float) (c : res Q) (tol : Q) : bool :=
  match b64_toQ x, c with Some v, Ok c => Qltb (Qabs (v - c)) tol | _, _ => false end.

(** - the body before the repair, on the two shells of the witness, in binary64: area 0 for the 30 x 30 pixel shell,
      0.0625 for the 16 x 16 pixel island: the order of the two areas is WRONG, and neither is within 0.01 m2 of the
      exact area of the ring (0.078.. and 0.022.. m2);
    - the regenerated Shoelace (the source as it is now), in binary64: 0.078355631139712 and 0.022287823634937642 -
      the values the Go code returns, to the last bit - within 1e-12 of the exact areas: the order is right. *)
Lemma f23_regression :
  shoelace_raw B64ops f23_big = Ok (b64 0 0) /\
  shoelace_raw B64ops f23_island = Ok (b64 1 (-4)) /\
  SFltb (b64 0 0) (b64 1 (-4)) = true /\
  b64_close (b64 0 0) (exact_area f23_big) (1 # 100) = false /\
  b64_close (b64 1 (-4)) (exact_area f23_island) (1 # 100) = false /\
  genF_Shoelace B64ops f23_big = Ok f23_area_big /\
  genF_Shoelace B64ops f23_island = Ok f23_area_island /\
  SFltb f23_area_island f23_area_big = true /\
  b64_close f23_area_big (exact_area f23_big) (1 # 1000000000000) = true /\
  b64_close f23_area_island (exact_area f23_island) (1 # 1000000000000) = true /\
  b64_close f23_area_big (Ok (78355631139712 # 1000000000000000)) (1 # 1000000000000) = true /\
  b64_close f23_area_island (Ok (22287823634937642 # 1000000000000000000)) (1 # 1000000000000) = true.
Proof. vm_compute. repeat split; reflexivity. Qed.

(** ** the nudge of RayIntersect, bit for bit (binary64), and its exact reading *)

(** binary64: on the tall segment the regenerated RayIntersect answers "no intersection", the model "intersection";
    on the segment of an eighth of the height both say "intersection" *)
Lemma nudge_witness_b64 :
  genF_RayIntersect B64ops nudge_pt nudge_start nudge_end = Ok (false, false) /\
  rayIntersect nudge_pt_Z nudge_start_Z nudge_end_Z = (true, false) /\
  genF_RayIntersect B64ops nudge_pt nudge_start nudge_end_ok = Ok (true, false) /\
  rayIntersect nudge_pt_Z nudge_start_Z nudge_end_ok_Z = (true, false).
Proof. vm_compute. repeat split; reflexivity. Qed.

(** the exact reading with eps = one unit in the last place of pt[0] gives the same answers as binary64: the
    deviation from the model is the size of the nudge, not rounding *)
Lemma nudge_witness_exact :
  gen_RayIntersect nudge_ulp (injPd nudge_D nudge_pt_Z) (injPd nudge_D nudge_start_Z) (injPd nudge_D nudge_end_Z)
    = Ok (false, false) /\
  gen_RayIntersect nudge_ulp (injPd nudge_D nudge_pt_Z) (injPd nudge_D nudge_start_Z) (injPd nudge_D nudge_end_ok_Z)
    = Ok (true, false).
Proof. vm_compute. repeat split; reflexivity. Qed.

(** and [nudge_ok] separates the two: it holds for the lower segment, it fails for the tall one *)
Lemma nudge_witness_ok : nudge_ok nudge_D nudge_ulp nudge_pt_Z nudge_start_Z nudge_end_ok_Z.
Proof.
  unfold nudge_ok. cbn [fst snd nudge_pt_Z nudge_start_Z nudge_end_ok_Z]. intros _ _. split.
  - vm_compute. discriminate.
  - intros _. vm_compute. reflexivity.
Qed.

Lemma nudge_witness_not_ok : ~ nudge_ok nudge_D nudge_ulp nudge_pt_Z nudge_start_Z nudge_end_Z.
Proof.
  unfold nudge_ok. cbn [fst snd nudge_pt_Z nudge_start_Z nudge_end_Z]. intros H.
  destruct (H eq_refl ltac:(vm_compute; reflexivity)) as [_ H2].
  specialize (H2 ltac:(discriminate)). vm_compute in H2. discriminate.
Qed.
