(** * C18, nesting clause, vertex form (PARTIAL): what matchInnersToPolygons guarantees.

    Every hole of a returned polygon was attached to its shell because the model's [ringContains shell v]
    answered "contained or on the boundary" for at least one vertex v of the hole: the polygon whose count is the
    single maximum after some vertex has a positive count, and in the fall-back (largest shell among the candidates)
    the candidates are exactly the shells that contained a vertex.  Holes that no shell contains a vertex of
    become shells of their own.  Nothing here says that the OTHER points of the hole are inside the shell. *)
From Coq Require Import ZArith List Bool Lia Permutation.
From Texel Require Import Prelude.Base Index.Model Snap.Model Snap.ProofsBasics Snap.ProofsSplit Snap.ProofsMatch
  Snap.ProofsLevel Snap.ProofsLevelThms.
Import ListNotations.
Open Scope Z_scope.

(** the model's test answered "in or on" for a vertex of [h] *)
Definition vertex_contained (o h : ring) : Prop :=
  exists v on, In v h /\ ringContains o v = Ok (true, on).

(** shell first; every later ring has a vertex the shell contains *)
Definition well_nested (p : polygon) : Prop :=
  exists o a, p = o :: a /\ Forall (vertex_contained o) a.

(** the polygon with (integer) index k, counted the way append_inner counts *)
Fixpoint zth (polys : list polygon) (k : Z) : option polygon :=
  match polys with [] => None | p :: r => if k =? 0 then Some p else zth r (k - 1) end.

Lemma zth_range polys : forall k p, zth polys k = Some p -> 0 <= k < zlen polys.
Proof.
  induction polys as [| q polys IH]; intros k p H; cbn [zth] in H; [discriminate |].
  unfold zlen. cbn [length]. destruct (Z.eqb_spec k 0) as [-> | N]; [lia |].
  apply IH in H. unfold zlen in H. lia.
Qed.

Lemma zth_some polys : forall k, 0 <= k < zlen polys -> exists p, zth polys k = Some p.
Proof.
  induction polys as [| q polys IH]; intros k Hk; unfold zlen in Hk; cbn [length] in Hk; [lia |].
  cbn [zth]. destruct (Z.eqb_spec k 0) as [-> | N]; [eauto |]. apply IH. unfold zlen. lia.
Qed.

Lemma append_inner_nested polys : forall k inner, Forall well_nested polys ->
  (forall p, zth polys k = Some p -> exists o a, p = o :: a /\ vertex_contained o inner) ->
  Forall well_nested (append_inner polys k inner).
Proof.
  induction polys as [| q polys IH]; intros k inner F Hk; cbn [append_inner]; [constructor |].
  inversion F as [| ? ? Hq Fr]; subst. cbn [zth] in Hk. destruct (k =? 0).
  - constructor; [| exact Fr]. destruct (Hk q eq_refl) as [o [a [-> Hv]]].
    exists o, (a ++ [inner]). split; [reflexivity |]. destruct Hq as [o' [a' [E Fa]]]. inversion E; subst.
    apply Forall_app. split; [exact Fa | constructor; [exact Hv | constructor]].
  - constructor; [exact Hq |]. apply IH; [exact Fr | exact Hk].
Qed.

Lemma append_inner_length polys : forall k inner, length (append_inner polys k inner) = length polys.
Proof.
  induction polys as [| q polys IH]; intros k inner; cbn [append_inner]; [reflexivity |].
  destruct (k =? 0); cbn [length]; [reflexivity | rewrite IH; reflexivity].
Qed.

(** ** matchVertices: every polygon that received a count contains a vertex *)
Definition counted (polys : list polygon) (inner : ring) (c : list (Z * Z)) : Prop :=
  forall k, In k (map fst c) -> forall p, zth polys k = Some p -> exists o a, p = o :: a /\ vertex_contained o inner.

Lemma matchVertices_counted cancelled innerI polys inner : forall verts counts m counts', incl verts inner ->
  counted polys inner counts -> matchVertices cancelled innerI polys verts counts = Ok (m, counts') -> counted polys inner counts'.
Proof.
  induction verts as [| v verts IH]; intros counts m counts' Hin Hc H; cbn [matchVertices] in H.
  - inversion H; subst. exact Hc.
  - match type of H with bind (?f polys 0 counts) _ = _ => set (go := f) in * end.
    assert (Hv : In v inner) by (apply Hin; left; reflexivity).
    assert (Hgo : forall l k c c', go l k c = Ok c' -> 0 <= k ->
                    (forall j p, 0 <= j -> zth l j = Some p -> zth polys (k + j) = Some p) ->
                    counted polys inner c -> counted polys inner c').
    { induction l as [| p l IHl]; intros k c c' Hg Hk Hl Hcc; cbn in Hg.
      - inversion Hg; subst. exact Hcc.
      - assert (Hl' : forall j q, 0 <= j -> zth l j = Some q -> zth polys (k + 1 + j) = Some q).
        { intros j q Hj Hq. replace (k + 1 + j) with (k + (j + 1)) by lia. apply Hl; [lia |].
          cbn [zth]. destruct (Z.eqb_spec (j + 1) 0); [lia |]. replace (j + 1 - 1) with j by lia. exact Hq. }
        destruct (skipCancelled cancelled k innerI); [apply (IHl (k + 1) _ c' Hg); [lia | exact Hl' | exact Hcc] |].
        bind_inv Hg outer Ho. bind_inv Hg cb Hcb.
        apply (IHl (k + 1) _ c' Hg); [lia | |].
        + intros j q Hj Hq. replace (k + 1 + j) with (k + (j + 1)) by lia. apply Hl; [lia |].
          cbn [zth]. destruct (Z.eqb_spec (j + 1) 0); [lia |]. replace (j + 1 - 1) with j by lia. exact Hq.
        + destruct cb as [b on]. cbn [fst]. destruct b; [| exact Hcc].
          intros k' Hk' q Hq. apply om_incr_keys in Hk'. destruct Hk' as [-> | Hk']; [| apply (Hcc k' Hk' q Hq)].
          assert (Ep : zth polys (k + 0) = Some p) by (apply Hl; [lia | reflexivity]).
          rewrite Z.add_0_r in Ep. rewrite Ep in Hq. inversion Hq; subst q.
          apply idx_0 in Ho. destruct Ho as [t ->]. exists outer, t. split; [reflexivity |]. exists v, on. auto. }
    bind_inv H c1 Hc1.
    assert (Hc1' : counted polys inner c1).
    { apply (Hgo polys 0 counts c1 Hc1); [lia | | exact Hc]. intros j p _ Hp. exact Hp. }
    destruct (maxWinners c1) as [k n]. destruct (n =? 1).
    + inversion H; subst. exact Hc1'.
    + apply (IH _ _ _ (fun x Hx => Hin x (or_intror Hx)) Hc1' H).
Qed.

(** ** the cached order of the polygons by area lists every index *)
Lemma area_place_keys l : forall k a j, In j (map fst (area_place l k a)) <-> j = k \/ In j (map fst l).
Proof.
  induction l as [| [k' a'] l IH]; intros k a j; cbn [area_place map fst In]; [intuition |].
  destruct (a' <? a); cbn [map fst In]; [intuition |]. rewrite IH. intuition.
Qed.

Lemma sorted_covers polys : forall j, 0 <= j < zlen polys -> In j (sortPolyIdxsByOuterAreaDesc polys).
Proof.
  unfold sortPolyIdxsByOuterAreaDesc.
  match goal with |- forall j, _ -> In j (map fst (?f polys 0 [])) => set (go := f) end.
  assert (G : forall l k acc j, (In j (map fst acc) \/ k <= j < k + zlen l) -> In j (map fst (go l k acc))).
  { induction l as [| p l IHl]; intros k acc j H; cbn.
    - destruct H as [H | H]; [exact H | unfold zlen in H; cbn [length] in H; lia].
    - apply IHl. destruct H as [H | H].
      + left. apply area_place_keys. right. exact H.
      + destruct (Z.eq_dec j k) as [-> | N]; [left; apply area_place_keys; left; reflexivity |].
        right. unfold zlen in *. cbn [length] in H. lia. }
  intros j Hj. apply G. right. lia.
Qed.

Lemma lastMatch_found hay needle a : In a needle -> In a hay -> In (lastMatch hay needle) needle.
Proof.
  intros Hn Hh. unfold lastMatch.
  destruct (filter (fun h => mem_Z h needle) (rev hay)) as [| h l] eqn:E.
  - exfalso. assert (H : In a (filter (fun h => mem_Z h needle) (rev hay))).
    { apply filter_In. split; [rewrite <- in_rev; exact Hh |].
      unfold mem_Z. apply existsb_exists. exists a. split; [exact Hn | apply Z.eqb_refl]. }
    rewrite E in H. destruct H.
  - assert (H : In h (filter (fun h => mem_Z h needle) (rev hay))) by (rewrite E; left; reflexivity).
    apply filter_In in H. destruct H as [_ H]. unfold mem_Z in H. apply existsb_exists in H.
    destruct H as [x [Hx Ex]]. apply Z.eqb_eq in Ex. congruence.
Qed.

(** ** the loop *)
Definition order_ok (n : Z) (sorted : option (list Z)) : Prop :=
  match sorted with None => True | Some s => forall j, 0 <= j < n -> In j s end.

Lemma matchInnersLoop_nested cancelled : forall innerRings innerI polys sorted turned polys' turned',
  Forall well_nested polys -> order_ok (zlen polys) sorted ->
  matchInnersLoop cancelled innerI polys innerRings sorted turned = Ok (polys', turned') -> Forall well_nested polys'.
Proof.
  induction innerRings as [| inner rest IH]; intros innerI polys sorted turned polys' turned' F Hs H; cbn [matchInnersLoop] in H.
  - inversion H; subst. exact F.
  - bind_inv H m Hm. destruct m as [mk counts].
    assert (K0 : keys_in (zlen polys) []) by (intros k []).
    destruct (matchVertices_keys _ _ _ _ _ _ _ K0 Hm) as [Kc Ks].
    assert (C0 : counted polys inner []) by (intros k []).
    pose proof (matchVertices_counted cancelled innerI polys inner inner [] _ _ (incl_refl _) C0 Hm) as Cc.
    assert (Hlen : forall k, zlen (append_inner polys k inner) = zlen polys)
      by (intro k; unfold zlen; rewrite append_inner_length; reflexivity).
    destruct mk as [k |].
    + refine (IH _ _ sorted turned polys' turned' (append_inner_nested polys k inner F (Cc k (Ks k eq_refl))) _ H).
      rewrite Hlen. exact Hs.
    + destruct (length counts =? 0)%nat eqn:El.
      * apply (IH _ _ _ _ _ _ F Hs H).
      * set (srt := match sorted with Some s => s | None => sortPolyIdxsByOuterAreaDesc polys end) in *.
        assert (Hsrt : forall j, 0 <= j < zlen polys -> In j srt).
        { unfold srt. destruct sorted as [s |]; [exact Hs | apply sorted_covers]. }
        assert (Hk : In (lastMatch srt (map fst counts)) (map fst counts)).
        { destruct counts as [| [a b] c]; [discriminate |].
          apply (lastMatch_found srt _ a); [left; reflexivity | apply Hsrt, Kc; left; reflexivity]. }
        refine (IH _ _ (Some srt) turned polys' turned' (append_inner_nested polys _ inner F (Cc _ Hk)) _ H).
        cbn [order_ok]. rewrite Hlen. exact Hsrt.
Qed.

Theorem match_nested (outs ins : list ring) ps :
  matchInnersToPolygons (map (fun o => [o]) outs) ins = Ok ps -> Forall well_nested ps.
Proof.
  assert (F0 : Forall well_nested (map (fun o : ring => [o]) outs)).
  { rewrite Forall_forall. intros p Hp. apply in_map_iff in Hp. destruct Hp as [o [<- _]]. exists o, []. auto. }
  unfold matchInnersToPolygons. destruct ins as [| i ins]; [intro H; inversion H; subst; exact F0 |].
  intro H. bind_inv H cancelled Hcb. bind_inv H r Hr. destruct r as [polys' turned']. inversion H; subst. cbn [fst snd].
  apply Forall_app. split.
  - exact (matchInnersLoop_nested cancelled (i :: ins) 0 _ None [] polys' turned' F0 I Hr).
  - rewrite Forall_forall. intros p Hp. apply in_map_iff in Hp. destruct Hp as [t [<- _]]. exists t, []. auto.
Qed.

(** ** one level.  [ps0]: the polygons before the reverse-winding-order flag reverses their rings *)
Theorem level_nested g hots P cfg L ps : snapLevel g hots P cfg L = Ok (Some ps) ->
  exists ps0 pls, ps = flipb (reverseWindingOrder cfg) ps0 ++ map (fun pl : ring => [pl]) pls /\
                  Forall well_nested ps0 /\ Forall pl_ok pls.
Proof.
  intro H. rewrite snapLevel_eq in H. bind_inv H acc Hl. bind_inv H polys Hp. inversion H as [Hr]. clear H.
  apply levelResult_some in Hr. destruct Hr as [-> _].
  destruct (ringsLoop_classes _ _ _ _ _ _ Hl) as [_ [_ [Cp _]]].
  unfold levelPolys in Hp. destruct (aAlive acc).
  - bind_inv Hp oi Hd. bind_inv Hp ps0 Hm. inversion Hp; subst polys.
    exists ps0, (aPL acc). split; [reflexivity |]. split; [exact (match_nested _ _ _ Hm) | exact Cp].
  - inversion Hp; subst polys. exists [], (aPL acc). split; [unfold flipb; destruct (reverseWindingOrder cfg); reflexivity |].
    split; [constructor | exact Cp].
Qed.

Corollary level_nested_noflip g hots P cfg L ps : reverseWindingOrder cfg = false ->
  snapLevel g hots P cfg L = Ok (Some ps) ->
  forall shell holes h, In (shell :: holes) ps -> In h holes -> vertex_contained shell h.
Proof.
  intros Rv H shell holes h Hin Hh. destruct (level_nested g hots P cfg L ps H) as [ps0 [pls [-> [F _]]]].
  rewrite Rv in Hin. cbn [flipb] in Hin. apply in_app_or in Hin. destruct Hin as [Hin | Hin].
  - rewrite Forall_forall in F. destruct (F _ Hin) as [o [a [E Fa]]]. inversion E; subst.
    rewrite Forall_forall in Fa. apply Fa, Hh.
  - apply in_map_iff in Hin. destruct Hin as [pl [E _]]. inversion E; subst. destruct Hh.
Qed.

(** ** what "on the boundary" means exactly: when ringContains reports the boundary, the point is on a closed
       edge of the ring (the closing edge first-last included) *)
Definition on_closed_segment (p a b : pt) : Prop :=
  (fst b - fst a) * (snd p - snd a) = (snd b - snd a) * (fst p - fst a) /\
  Z.min (fst a) (fst b) <= fst p <= Z.max (fst a) (fst b) /\
  Z.min (snd a) (snd b) <= snd p <= Z.max (snd a) (snd b).

Lemma rayIntersect_on p s e x : rayIntersect p s e = (x, true) -> on_closed_segment p s e.
Proof.
  unfold rayIntersect, on_closed_segment. destruct p as [px py], s as [sx sy], e as [ex ey]. cbn [fst snd].
  destruct (Z.ltb_spec ex sx) as [Hsw | Hsw]; cbn [fst snd];
    repeat match goal with
           | |- context [Z.eqb ?a ?b] => destruct (Z.eqb_spec a b); cbn [andb orb negb]
           | |- context [Z.ltb ?a ?b] => destruct (Z.ltb_spec a b); cbn [andb orb negb]
           | |- context [Z.leb ?a ?b] => destruct (Z.leb_spec a b); cbn [andb orb negb]
           end; intro Hres; inversion Hres; subst; try (split; [lia | lia]).
Qed.

Theorem ringContains_on (o : ring) v b : ringContains o v = Ok (b, true) ->
  exists a c, (In (a, c) (pairs o) \/ (a = hd dp o /\ c = last o dp)) /\ on_closed_segment v a c.
Proof.
  unfold ringContains. intro H. bind_inv H f0 Hf. bind_inv H lst Hlst.
  destruct (rayIntersect v f0 lst) as [c0 on0] eqn:E0.
  assert (Ho : o <> []) by (apply idx_0 in Hf; destruct Hf as [t ->]; discriminate).
  destruct on0.
  - exists f0, lst. split; [| exact (rayIntersect_on _ _ _ _ E0)]. right.
    rewrite (ProofsSplitRefine.idx_hd_ne o Ho) in Hf. rewrite (ProofsSplitRefine.idx_last_ne o Ho) in Hlst.
    inversion Hf. inversion Hlst. auto.
  - inversion H as [Hl]. clear H.
    match type of Hl with ?f o c0 = _ => set (loop := f) in * end.
    assert (G : forall l c, loop l c = (b, true) -> exists a c', In (a, c') (pairs l) /\ on_closed_segment v a c').
    { induction l as [| a l IHl]; intros c Hc; [cbn in Hc; discriminate |].
      destruct l as [| b' l']; [cbn in Hc; discriminate |].
      cbn in Hc. destruct (rayIntersect v a b') as [x on] eqn:Er. destruct on.
      - exists a, b'. split; [left; reflexivity | exact (rayIntersect_on _ _ _ _ Er)].
      - fold loop in Hc. destruct (IHl _ Hc) as [a0 [c1 [Hin Hon]]]. exists a0, c1. split; [right; exact Hin | exact Hon]. }
    destruct (G o c0 Hl) as [a [c' [Hin Hon]]]. exists a, c'. auto.
Qed.

Print Assumptions match_nested.
Print Assumptions level_nested.
Print Assumptions level_nested_noflip.
Print Assumptions ringContains_on.
