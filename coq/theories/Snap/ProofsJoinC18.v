(** * C18 end to end: from [snapLevel] / [snapPolygon] down to the component theorems.

    On the class of the property — every routed-and-cleaned ring (the argument on which the model calls
    kmpDeduplicate: the routed ring with its closing vertex dropped) visits no pixel centre at three
    positions, [le2] — for all four combinations of keep-points-and-lines and reverse-winding-order:

    - [level_edges_end_to_end]: every directed cyclic edge of every returned ring is, up to reversal of its
      direction, a directed cyclic edge of one of the routed-and-cleaned rings.  (cleanupNewVertices merges
      nothing: it only drops the duplicate joint between consecutive routed edges, so the cyclic edges of the
      routed-and-cleaned ring ARE the routed steps between consecutive pixel centres.  On the class no run is
      merged either, which is stronger than "routed edge or straight run of routed edges".)
    - [level_area_end_to_end]: the doubled signed area of the returned geometry is the sum of the doubled signed
      areas of the routed-and-cleaned rings, where a ring whose pieces all landed in the other role (a shell whose
      routed ring runs clockwise, a hole whose routed ring runs counter-clockwise) counts with the opposite sign
      — the documented whole-ring reversal of splitRing — and a hole that found no shell and was turned into a
      shell of its own ([tu], matchInnersToPolygons) counts with the opposite sign too; everything negated under
      reverse-winding-order.  Nothing else: spikes and cancelling shell/hole pairs contribute zero, rings of
      fewer than three vertices have area zero. *)
From Coq Require Import ZArith List Bool Lia Permutation.
From Texel Require Import Prelude.Base Index.Model Snap.Model Snap.ProofsBasics Snap.ProofsSplit
  Snap.ProofsSplitRefine Snap.ProofsSplitThms Snap.ProofsDedupe Snap.ProofsDedupeCancel Snap.ProofsMatch
  Snap.ProofsLevelRoute Snap.ProofsLevel Snap.ProofsLevelThms Snap.ProofsLevelEdges Snap.ProofsLevelC07
  Snap.ProofsLevelJoin Index.ProofsInsert Index.ProofsGrid Index.ProofsRouting Snap.ProofsJoinC05.
From Texel Require Snap.ProofsKmpEdges Snap.ProofsKmpLe2.
Import ListNotations.
Open Scope Z_scope.

Notation cedges := ProofsKmpEdges.cedges.
Notation le2 := ProofsKmpLe2.le2.
Notation conserves := ProofsKmpEdges.conserves.
Notation cnt := ProofsKmpEdges.cnt.

(** ** the two vocabularies (kmp prover / split prover) agree *)
Lemma kpairs_eq (l : list pt) : ProofsKmpEdges.pairs l = pairs l.
Proof.
  induction l as [| a l IH]; [reflexivity |]. destruct l as [| b l]; [reflexivity |].
  change (ProofsKmpEdges.pairs (a :: b :: l)) with ((a, b) :: ProofsKmpEdges.pairs (b :: l)).
  rewrite IH. reflexivity.
Qed.

Lemma kswap_eq (e : pt * pt) : ProofsKmpEdges.swap e = swap e.
Proof. reflexivity. Qed.

Lemma cedges_dedges (r : ring) : (2 <= length r)%nat -> cedges r = dedges r.
Proof.
  destruct r as [| a [| b t]]; cbn [length]; intro H; try lia.
  unfold ProofsKmpEdges.cedges, dedges. apply kpairs_eq.
Qed.

Lemma cedges_small (r : ring) : (length r < 2)%nat -> cedges r = [].
Proof. destruct r as [| a [| b t]]; cbn [length]; intro H; try lia; reflexivity. Qed.

Lemma cedges_incl_dedges (r : ring) e : In e (cedges r) -> In e (dedges r).
Proof.
  destruct (Nat.le_gt_cases 2 (length r)) as [H | H].
  - rewrite (cedges_dedges r H). auto.
  - rewrite (cedges_small r) by lia. intros [].
Qed.

Lemma cnt_count e l : cnt e l = Z.of_nat (count_occ edge_dec l e).
Proof.
  unfold ProofsKmpEdges.cnt. induction l as [| f l IH]; [reflexivity |]. cbn [filter count_occ].
  destruct (edge_dec f e) as [E | N].
  - subst f. replace (ProofsKmpEdges.edge_eqb e e) with true
      by (symmetry; apply ProofsKmpEdges.edge_eqb_eq; reflexivity).
    unfold zlen in *. cbn [length]. lia.
  - destruct (ProofsKmpEdges.edge_eqb e f) eqn:X; [| exact IH].
    apply ProofsKmpEdges.edge_eqb_eq in X. congruence.
Qed.

Lemma count_occ_swap (l : list (pt * pt)) e : count_occ edge_dec (map swap l) e = count_occ edge_dec l (swap e).
Proof.
  induction l as [| f l IH]; [reflexivity |]. cbn [map count_occ].
  destruct (edge_dec (swap f) e) as [E | N], (edge_dec f (swap e)) as [E' | N']; try (rewrite IH; reflexivity).
  - exfalso. apply N'. subst e. destruct f; reflexivity.
  - exfalso. apply N. subst f. destruct e; reflexivity.
Qed.

(** [conserves E E'] says exactly that E with the reverses of E' is E' with the reverses of E *)
Lemma conserves_perm (E E' : list (pt * pt)) : conserves E E' -> Permutation (E ++ map swap E') (E' ++ map swap E).
Proof.
  intro H. apply (Permutation_count_occ edge_dec). intro e. specialize (H e). destruct H as [_ H].
  rewrite !count_occ_app, !count_occ_swap. rewrite !cnt_count in H. rewrite kswap_eq in H. lia.
Qed.

(** cancelling pairs enclose nothing *)
Lemma conserves_sumc (E E' : list (pt * pt)) : conserves E E' -> sumc E = sumc E'.
Proof.
  intro H. pose proof (sumc_perm _ _ (conserves_perm E E' H)) as S.
  rewrite !sumc_app, !sumc_swap in S. lia.
Qed.

Lemma conserves_In (E E' : list (pt * pt)) e : conserves E E' -> In e E' -> In e E.
Proof.
  intros H Hin. specialize (H e). destruct H as [H _]. rewrite !cnt_count in H.
  apply (count_occ_In edge_dec). apply (count_occ_In edge_dec) in Hin. lia.
Qed.

Lemma xprod_cedges (r : ring) : xprod r = sumc (cedges r).
Proof.
  destruct (Nat.le_gt_cases 2 (length r)) as [H | H].
  - rewrite (cedges_dedges r H). apply xprod_dedges.
  - rewrite (cedges_small r) by lia. destruct r as [| a [| b t]]; cbn [length] in H; try lia; [reflexivity |].
    unfold xprod. cbn. lia.
Qed.

Lemma xprod_small (r : ring) : (length r < 3)%nat -> xprod r = 0.
Proof.
  destruct r as [| a [| b [| c t]]]; cbn [length]; intro H; try lia; unfold xprod; cbn; lia.
Qed.

Lemma cedges_rev (r : ring) e : In e (cedges (rev r)) -> In (swap e) (cedges r).
Proof.
  destruct (Nat.le_gt_cases 2 (length r)) as [H | H].
  - rewrite (cedges_dedges r H), (cedges_dedges (rev r)) by (rewrite rev_length; exact H).
    intro Hin. apply (Permutation_in _ (dedges_rev r)) in Hin. apply in_map_iff in Hin.
    destruct Hin as [f [<- Hf]]. destruct f; exact Hf.
  - rewrite (cedges_small (rev r)) by (rewrite rev_length; lia). intros [].
Qed.

(** ** sums of doubled areas *)
Lemma sum_xprod_app a b : sum_xprod (a ++ b) = sum_xprod a + sum_xprod b.
Proof. induction a as [| x a IH]; cbn [app sum_xprod]; lia. Qed.

Lemma sum_xprod_perm a b : Permutation a b -> sum_xprod a = sum_xprod b.
Proof. intro P. rewrite !sum_xprod_dedges. apply sumc_perm, all_dedges_perm, P. Qed.

Lemma sum_xprod_rev a : sum_xprod (map (@rev pt) a) = - sum_xprod a.
Proof. induction a as [| x a IH]; cbn [map sum_xprod]; [reflexivity |]. rewrite xprod_rev. lia. Qed.

Lemma sum_xprod_small a : Forall (fun x : ring => (length x < 3)%nat) a -> sum_xprod a = 0.
Proof. induction 1 as [| x a Hx _ IH]; cbn [sum_xprod]; [reflexivity |]. rewrite (xprod_small x Hx). lia. Qed.

Lemma sum_xprod_nonneg a : Forall (fun x : ring => 0 <= xprod x) a -> 0 <= sum_xprod a.
Proof. induction 1 as [| x a Hx _ IH]; cbn [sum_xprod]; lia. Qed.

Lemma sum_xprod_nonpos a : Forall (fun x : ring => xprod x <= 0) a -> sum_xprod a <= 0.
Proof. induction 1 as [| x a Hx _ IH]; cbn [sum_xprod]; lia. Qed.

(** ** the loop after kmpDeduplicate ([trimClosing]) only removes loops (a, a) from the cyclic edges *)
Lemma pairs_snoc_repeat a k : forall l : list pt,
  pairs ((l ++ [a]) ++ repeat a k) = pairs (l ++ [a]) ++ repeat (a, a) k.
Proof.
  induction k as [| k IH]; intro l; [cbn [repeat]; rewrite !app_nil_r; reflexivity |].
  cbn [repeat]. replace ((l ++ [a]) ++ a :: repeat a k) with (((l ++ [a]) ++ [a]) ++ repeat a k)
    by (rewrite <- (app_assoc (l ++ [a]) [a]); reflexivity).
  rewrite (IH (l ++ [a])). rewrite <- (app_assoc l [a] [a]). cbn [app]. rewrite pairs_snoc, <- app_assoc. reflexivity.
Qed.

Lemma cedges_trim (r : ring) : exists a k, cedges r = cedges (trimClosing r) ++ repeat (a, a) k.
Proof.
  destruct r as [| a t]; [exists dp, 0%nat; reflexivity |].
  destruct (trimClosing_spec a t) as [k [E Hs]]. exists a.
  destruct Hs as [Ht | [m [z [Ht Hz]]]]; rewrite Ht in E |- *.
  - rewrite (cedges_small [a]) by (cbn; lia). cbn [app].
    destruct k as [| k]; [exists 0%nat; rewrite E; reflexivity |]. exists (S (S k)).
    rewrite E. cbn [app repeat]. unfold ProofsKmpEdges.cedges. rewrite kpairs_eq.
    replace ((a :: a :: repeat a k) ++ [a]) with (([] ++ [a]) ++ repeat a (S (S k)))
      by (cbn [app repeat]; rewrite <- repeat_cons; reflexivity).
    rewrite pairs_snoc_repeat. reflexivity.
  - exists k. rewrite E.
    assert (L2 : (2 <= length (a :: m ++ [z]))%nat) by (cbn [length]; rewrite app_length; cbn [length]; lia).
    assert (L2' : (2 <= length ((a :: m ++ [z]) ++ repeat a k))%nat) by (rewrite app_length; lia).
    rewrite (cedges_dedges _ L2), (cedges_dedges _ L2').
    change ((a :: m ++ [z]) ++ repeat a k) with (a :: ((m ++ [z]) ++ repeat a k)). unfold dedges.
    replace ((a :: (m ++ [z]) ++ repeat a k) ++ [a]) with (((a :: m ++ [z]) ++ [a]) ++ repeat a k).
    + apply (pairs_snoc_repeat a k (a :: m ++ [z])).
    + cbn [app]. f_equal. rewrite <- !app_assoc. f_equal. f_equal. cbn [app]. apply repeat_cons.
Qed.

Lemma cedges_trim_In (r : ring) e : In e (cedges (trimClosing r)) -> In e (cedges r).
Proof. destruct (cedges_trim r) as [a [k E]]. rewrite E. intro H. apply in_or_app. left. exact H. Qed.

Lemma sumc_loops a k : sumc (repeat (a, a) k) = 0.
Proof. induction k as [| k IH]; [reflexivity |]. cbn [repeat sumc fst snd]. unfold cross. lia. Qed.

Lemma xprod_trimClosing (r : ring) : xprod (trimClosing r) = xprod r.
Proof.
  rewrite !xprod_cedges. destruct (cedges_trim r) as [a [k E]]. rewrite E, sumc_app, sumc_loops. lia.
Qed.

(** ** one ring: cleanupNewRing on the class *)

(** edges: every cyclic edge of every ring returned for one input ring is an edge of the routed-and-cleaned
    ring or the reverse of one *)
Theorem cleanup_edges nr o m sets : le2 (dropClosing nr) -> cleanupNewRing nr o m = Ok sets ->
  forall x e, In x (rings_of_sets sets) -> In e (cedges x) ->
    In e (cedges (dropClosing nr)) \/ In (swap e) (cedges (dropClosing nr)).
Proof.
  intros Hle H x e Hx He. set (c := dropClosing nr) in *.
  destruct (cleanup_cases _ _ _ _ H) as [[Hl ->] | [r2 [Hl [Hk [[Hl2 ->] | [Hl2 Hs]]]]]].
  - apply small_sets_rings in Hx. destruct Hx as [-> _]. left. exact He.
  - apply small_sets_rings in Hx. destruct Hx as [-> _]. left.
    destruct (ProofsKmpLe2.kmp_conserves_le2 c Hle) as [r' [Hk' Hc]]. fold c in Hk. rewrite Hk in Hk'.
    inversion Hk'; subst r'. exact (conserves_In _ _ e Hc (cedges_trim_In _ _ He)).
  - destruct (ProofsKmpLe2.kmp_conserves_le2 c Hle) as [r' [Hk' Hc]]. fold c in Hk. rewrite Hk in Hk'.
    inversion Hk'; subst r'.
    apply cedges_incl_dedges in He. destruct e as [a b].
    destruct (split_edge_from _ _ _ _ _ _ _ Hs Hx He) as [Hd | Hd];
      rewrite <- (cedges_dedges (trimClosing r2)) in Hd by lia; [left | right];
      exact (conserves_In _ _ _ Hc (cedges_trim_In _ _ Hd)).
Qed.

(** area: what one input ring adds to the collected shells and holes is the doubled area of its
    routed-and-cleaned ring, or (whole-ring reversal) its negation, and then the routed ring ran the wrong
    way round: clockwise for the shell, counter-clockwise for a hole *)
Definition contribOK (isOuter : bool) (c : ring) (k : Z) : Prop :=
  k = xprod c \/ (k = - xprod c /\ if isOuter then xprod c < 0 else 0 < xprod c).

Theorem cleanup_area nr o m sets : le2 (dropClosing nr) -> cleanupNewRing nr o m = Ok sets ->
  contribOK o (dropClosing nr) (sum_xprod (outers sets ++ inners sets)).
Proof.
  intros Hle H. set (c := dropClosing nr) in *.
  destruct (cleanup_cases _ _ _ _ H) as [[Hl ->] | [r2 [Hl [Hk [[Hl2 ->] | [Hl2 Hs]]]]]];
    cbn [outers inners app sum_xprod].
  - left. symmetry. apply xprod_small, Hl.
  - left. destruct (ProofsKmpLe2.kmp_conserves_le2 c Hle) as [r' [Hk' Hc]]. fold c in Hk. rewrite Hk in Hk'.
    inversion Hk'; subst r'. rewrite (xprod_cedges c), (conserves_sumc _ _ Hc), <- xprod_cedges, <- xprod_trimClosing.
    symmetry. apply xprod_small, Hl2.
  - destruct (ProofsKmpLe2.kmp_conserves_le2 c Hle) as [r' [Hk' Hc]]. fold c in Hk. rewrite Hk in Hk'.
    inversion Hk'; subst r'.
    assert (Ec : xprod c = xprod (trimClosing r2))
      by (rewrite (xprod_cedges c), (conserves_sumc _ _ Hc), <- xprod_cedges, xprod_trimClosing; reflexivity).
    set (r2t := trimClosing r2) in *.
    destruct (split_orientation _ _ _ _ Hs) as [Oo [Oi Op]].
    assert (Zp : sum_xprod (pointsAndLines sets) = 0).
    { apply sum_xprod_small. eapply Forall_impl; [| exact Op]. cbn beta. intros; lia. }
    destruct (split_conserves _ _ _ _ Hs) as [s0 [Es P]].
    assert (Et : sum_xprod (outers s0) + sum_xprod (inners s0) + sum_xprod (pointsAndLines s0) = xprod r2t).
    { rewrite <- Z.add_assoc, <- !sum_xprod_app, sum_xprod_dedges, xprod_dedges. apply sumc_perm, P. }
    unfold contribOK. rewrite Ec, sum_xprod_app.
    destruct (swapb o s0) eqn:Sw.
    + subst sets. unfold swapb in Sw. unfold swapSets in *. destruct o; cbn [andb negb orb] in Sw;
        rewrite ?orb_false_r in Sw; apply andb_prop in Sw; destruct Sw as [Sw _]; apply length_zero_nil in Sw;
        cbn [outers inners pointsAndLines sum_xprod] in *; rewrite Sw in Et; cbn [sum_xprod] in Et;
        rewrite sum_xprod_rev in *.
      * assert (G : 0 <= - sum_xprod (inners s0)).
        { rewrite <- sum_xprod_rev. apply sum_xprod_nonneg. eapply Forall_impl; [| exact Oo]. cbn beta. tauto. }
        lia.
      * assert (G : - sum_xprod (outers s0) <= 0).
        { rewrite <- sum_xprod_rev. apply sum_xprod_nonpos. eapply Forall_impl; [| exact Oi]. cbn beta. tauto. }
        lia.
    + subst sets. left. lia.
Qed.

(** ** the routed-and-cleaned ring of one input ring: what the model hands to kmpDeduplicate.
       It does not depend on the hit maps left by the earlier rings. *)
Definition routedClean (g : grid) (hots : list (list (Z * Z))) (L : nat) (idx : nat) (r : ring) : res ring :=
  do x <- routeOf g hots L idx (ensureCorrectWindingOrder r (negb (Nat.eqb idx 0))) (mkHits [] []);
  Ok (dropClosing (fst x)).

Lemma routeOf_ring_indep g hots L idx r' st nr st' : routeOf g hots L idx r' st = Ok (nr, st') ->
  forall st0, exists st0', routeOf g hots L idx r' st0 = Ok (nr, st0').
Proof.
  unfold routeOf. destruct r' as [| first t].
  - intro H. inversion H; subst. eauto.
  - intros H st0. rewrite routeRing_eq in *. bind_inv H nr' Ha. inversion H; subst. rewrite Ha. cbn [bind]. eauto.
Qed.

Lemma routedClean_of_route g hots L idx r st nr st' :
  routeOf g hots L idx (ensureCorrectWindingOrder r (negb (Nat.eqb idx 0))) st = Ok (nr, st') ->
  routedClean g hots L idx r = Ok (dropClosing nr).
Proof.
  intro H. destruct (routeOf_ring_indep _ _ _ _ _ _ _ _ H (mkHits [] [])) as [st0' E].
  unfold routedClean. rewrite E. reflexivity.
Qed.

(** [routedClean] IS the argument of kmpDeduplicate: a live ring step routes the ring and then runs this on it *)
Theorem ringStep_kmp_argument g hots L cfg acc idx r acc' : aAlive acc = true ->
  ringStep g hots L cfg acc idx r = Ok acc' ->
  exists c m sets, routedClean g hots L idx r = Ok c /\
    (if (length c <? 3)%nat then Ok (mkSets [] [] (asPointOrLine c))
     else do rk <- kmpDeduplicate c;
          let r2 := trimClosing rk in
          if (length r2 <? 3)%nat then Ok (mkSets [] [] (asPointOrLine r2)) else splitRing r2 (Nat.eqb idx 0) m) = Ok sets /\
    acc' = if deadb cfg (Nat.eqb idx 0) sets
           then mkAcc false (aHits acc') (aOuters acc) (aInners acc) (aPL acc)
           else mkAcc true (aHits acc') (aOuters acc ++ outers sets) (aInners acc ++ inners sets)
                      (if keepPointsAndLines cfg then aPL acc ++ pointsAndLines sets else aPL acc).
Proof.
  intros Al H. destruct (ringStep_alive _ _ _ _ _ _ _ _ Al H) as [nr [st [sets [Hr [Hc E]]]]].
  exists (dropClosing nr), (isMultiFor st idx), sets. split; [exact (routedClean_of_route _ _ _ _ _ _ _ _ Hr) |].
  rewrite cleanupNewRing_eq in Hc. split; [exact Hc |]. rewrite E. destruct (deadb cfg _ sets); reflexivity.
Qed.

(** the class of C18 at one level *)
Definition class_le2 (g : grid) (hots : list (list (Z * Z))) (L : nat) (P : list ring) : Prop :=
  forall idx r c, nth_error P idx = Some r -> routedClean g hots L idx r = Ok c -> le2 c.

Definition edge_routed (g : grid) (hots : list (list (Z * Z))) (L : nat) (P : list ring) (e : pt * pt) : Prop :=
  exists idx r c, nth_error P idx = Some r /\ routedClean g hots L idx r = Ok c /\
                  (In e (cedges c) \/ In (swap e) (cedges c)).

(** ** (E1) edges, one level, all flag combinations *)
Theorem level_edges_end_to_end g hots P cfg L ps : class_le2 g hots L P ->
  snapLevel g hots P cfg L = Ok (Some ps) ->
  forall poly x e, In poly ps -> In x poly -> In e (cedges x) -> edge_routed g hots L P e.
Proof.
  intros Hcl H poly x e Hpoly Hx He.
  pose (Q := fun x : ring => forall e, In e (cedges x) -> edge_routed g hots L P e).
  assert (F : Forall (Forall Q) ps).
  { apply (level_lift Q g hots P cfg L ps); [| | exact H].
    - intros y Hy f Hf. apply cedges_rev in Hf. destruct (Hy _ Hf) as [idx [r [c [Hn [Hr Hd]]]]].
      exists idx, r, c. split; [exact Hn |]. split; [exact Hr |].
      replace (swap (swap f)) with f in Hd by (destruct f; reflexivity). tauto.
    - intros acc Hl. apply (ringsLoop_rings g hots L cfg Q (fun _ _ => True) P acc); [| exact I | exact Hl].
      intros idx r st nr st' sets Hn _ Hr Hc. split; [exact I |].
      pose proof (routedClean_of_route _ _ _ _ _ _ _ _ Hr) as Hrc.
      pose proof (Hcl idx r _ Hn Hrc) as Hle.
      rewrite Forall_forall. intros y Hy f Hf. exists idx, r, (dropClosing nr).
      split; [exact Hn |]. split; [exact Hrc |]. exact (cleanup_edges nr _ _ sets Hle Hc y f Hy Hf). }
  rewrite Forall_forall in F. specialize (F poly Hpoly). rewrite Forall_forall in F. exact (F x Hx e He).
Qed.

(** ** (E2) signed area, one level *)
Fixpoint sumZ (l : list Z) : Z := match l with [] => 0 | k :: r => k + sumZ r end.

Lemma sumZ_app a b : sumZ (a ++ b) = sumZ a + sumZ b.
Proof. induction a as [| x a IH]; cbn [app sumZ]; lia. Qed.

(** input ring number [fst ir] has the routed-and-cleaned ring [fst ck] and contributes [snd ck] *)
Definition ringRel (g : grid) (hots : list (list (Z * Z))) (L : nat) (ir : nat * ring) (ck : ring * Z) : Prop :=
  routedClean g hots L (fst ir) (snd ir) = Ok (fst ck) /\ contribOK (Nat.eqb (fst ir) 0) (fst ck) (snd ck).

Lemma indexed_nth_error {A} (l : list A) : forall k n a, nth_error l n = Some a ->
  nth_error (indexed k l) n = Some ((k + n)%nat, a).
Proof.
  induction l as [| x l IH]; intros k [| n] a H; cbn [nth_error indexed] in *; try discriminate.
  - inversion H; subst. rewrite Nat.add_0_r. reflexivity.
  - rewrite <- Nat.add_succ_comm. apply IH, H.
Qed.

Lemma indexed_length {A} (l : list A) : forall k, length (indexed k l) = length l.
Proof. induction l as [| x l IH]; intro k; cbn [indexed length]; [reflexivity | rewrite IH; reflexivity]. Qed.

Lemma firstn_S_nth {A} (l : list A) : forall n a, nth_error l n = Some a -> firstn (S n) l = firstn n l ++ [a].
Proof.
  induction l as [| x l IH]; intros [| n] a H; cbn [nth_error] in H; try discriminate.
  - inversion H; subst. destruct l; reflexivity.
  - cbn [firstn app]. f_equal. apply IH, H.
Qed.

Definition accInv (g : grid) (hots : list (list (Z * Z))) (L : nat) (P : list ring) (n : nat) (a : levelAcc) : Prop :=
  (n = 0%nat -> a = acc0) /\
  (aAlive a = false -> aPL a = []) /\
  (aAlive a = true -> exists cks, Forall2 (ringRel g hots L) (firstn n (indexed 0 P)) cks /\
       sum_xprod (aOuters a ++ aInners a) = sumZ (map snd cks)).

Lemma ringsLoop_area g hots L cfg P acc : class_le2 g hots L P ->
  ringsLoop g hots L cfg acc0 0 P = Ok acc -> accInv g hots L P (length P) acc.
Proof.
  intros Hcl H.
  apply (ringsLoop_inv g hots L cfg (accInv g hots L P) P 0 acc0 acc); [| | exact H].
  - intros k r a a' Hn [I0 [Id Ia]] Hs. cbn [Nat.add] in *. destruct (aAlive a) eqn:Al.
    + destruct (ringStep_alive _ _ _ _ _ _ _ _ Al Hs) as [nr [st [sets [Hr [Hc ->]]]]].
      pose proof (routedClean_of_route _ _ _ _ _ _ _ _ Hr) as Hrc.
      pose proof (Hcl k r _ Hn Hrc) as Hle.
      destruct (deadb cfg (k =? 0)%nat sets) eqn:Dd.
      * split; [intro X; discriminate |]. cbn [aAlive aPL]. split; [| intro X; discriminate].
        intros _. unfold deadb in Dd. apply andb_prop in Dd. destruct Dd as [Dd _]. apply andb_prop in Dd.
        destruct Dd as [Dd _]. apply Nat.eqb_eq in Dd. rewrite (I0 Dd). reflexivity.
      * split; [intro X; discriminate |]. cbn [aAlive aOuters aInners]. split; [intro X; discriminate |].
        intros _. destruct (Ia eq_refl) as [cks [F S]].
        exists (cks ++ [(dropClosing nr, sum_xprod (outers sets ++ inners sets))]). split.
        -- rewrite (firstn_S_nth _ k _ (indexed_nth_error P 0 k r Hn)). apply Forall2_app; [exact F |].
           constructor; [| constructor]. split; cbn [fst snd Nat.add]; [exact Hrc |].
           exact (cleanup_area nr _ _ sets Hle Hc).
        -- rewrite map_app, sumZ_app. cbn [map snd sumZ]. rewrite !sum_xprod_app in *. lia.
    + rewrite ringStep_dead in Hs by exact Al. inversion Hs; subst a'.
      split; [intro X; discriminate |]. split; [intros _; exact (Id eq_refl) |]. intro X. congruence.
  - split; [reflexivity |]. split; [intro X; discriminate |]. intros _. exists []. split; [constructor | reflexivity].
Qed.

Definition flipr (cfg : config) (x : ring) : ring := if reverseWindingOrder cfg then rev x else x.
Definition flipz (cfg : config) : Z := if reverseWindingOrder cfg then -1 else 1.

Lemma sum_xprod_flipb b (ps : list polygon) :
  sum_xprod (concat (flipb b ps)) = (if b then -1 else 1) * sum_xprod (concat ps).
Proof. unfold flipb. destruct b; [rewrite concat_map_rev, sum_xprod_rev |]; lia. Qed.

Lemma concat_singleton_id (l : list ring) : concat (map (fun pl : ring => [pl]) l) = l.
Proof. induction l as [| x l IH]; [reflexivity |]. cbn [map concat app]. rewrite IH. reflexivity. Qed.

Theorem level_area_end_to_end g hots P cfg L ps : class_le2 g hots L P ->
  snapLevel g hots P cfg L = Ok (Some ps) ->
  exists cks tu,
    Forall2 (ringRel g hots L) (indexed 0 P) cks /\
    Forall (fun t : ring => (3 <= length t)%nat /\ xprod t <= 0 /\ In [flipr cfg (rev t)] ps) tu /\
    sum_xprod (concat ps) = flipz cfg * (sumZ (map snd cks) - 2 * sum_xprod tu).
Proof.
  intros Hcl H. rewrite snapLevel_eq in H. bind_inv H acc Hl. bind_inv H polys Hp. inversion H as [Hr]. clear H.
  apply levelResult_some in Hr. destruct Hr as [Eps Hne].
  destruct (ringsLoop_area g hots L cfg P acc Hcl Hl) as [_ [Id Ia]].
  destruct (ringsLoop_classes _ _ _ _ _ _ Hl) as [Co [Ci [Cp _]]].
  destruct (aAlive acc) eqn:Al.
  2:{ exfalso. unfold levelPolys in Hp. rewrite Al in Hp. inversion Hp; subst polys. rewrite (Id eq_refl) in Eps.
      cbn [map app] in Eps. exact (Hne Eps). }
  destruct (Ia eq_refl) as [cks [F S]].
  rewrite firstn_all2 in F by (rewrite indexed_length; lia).
  unfold levelPolys in Hp. rewrite Al in Hp. bind_inv Hp oi Hd. destruct oi as [outs' ins'].
  bind_inv Hp ps0 Hm. inversion Hp; subst polys. clear Hp. cbn [fst snd] in Hm.
  destruct (dedupe_cancels _ _ _ _ Hd) as [dO [dI [PO [PI PC]]]].
  destruct (match_spec _ _ _ Hm) as [polys' [matched [tu [E [_ [P1 P2]]]]]]. subst ps0.
  exists cks, tu. split; [exact F |].
  assert (Hins : forall t, In t tu -> In t (aInners acc)).
  { intros t Ht. apply (Permutation_in _ (Permutation_sym PI)), in_or_app. left.
    apply (Permutation_in _ (Permutation_sym P2)), in_or_app. right. exact Ht. }
  split.
  - rewrite Forall_forall. intros t Ht. rewrite Forall_forall in Ci. destruct (Ci t (Hins t Ht)) as [C1 C2].
    split; [exact C1 |]. split; [exact C2 |]. subst ps. apply in_or_app. left.
    unfold flipb, flipr. destruct (reverseWindingOrder cfg).
    + apply in_map_iff. exists [rev t]. split; [reflexivity |]. apply in_or_app. right.
      apply in_map_iff. exists t. auto.
    + apply in_or_app. right. apply in_map_iff. exists t. auto.
  - subst ps. rewrite concat_app, sum_xprod_app, concat_singleton_id.
    rewrite (sum_xprod_small (aPL acc)) by (eapply Forall_impl; [| exact Cp]; cbn beta; unfold pl_ok; intros; lia).
    rewrite sum_xprod_flipb. unfold flipz. rewrite concat_app, concat_singleton_rev, sum_xprod_app, sum_xprod_rev.
    rewrite (sum_xprod_perm _ _ P1), sum_xprod_app.
    apply sum_xprod_perm in PO, PI, P2. rewrite !sum_xprod_app in *.
    assert (Ec : sum_xprod dI = - sum_xprod dO).
    { rewrite !sum_xprod_dedges. rewrite (sumc_perm _ _ PC), sumc_swap. reflexivity. }
    rewrite <- S. destruct (reverseWindingOrder cfg); lia.
Qed.

(** ** the routed-and-cleaned rings as a function, and the exact form of (E2) when no routed ring runs the
       wrong way round *)
Definition routedRings (g : grid) (hots : list (list (Z * Z))) (L : nat) (P : list ring) : res (list ring) :=
  mapM (fun ir => routedClean g hots L (fst ir) (snd ir)) (indexed 0 P).

Lemma indexed_In {A} (l : list A) : forall k i a, In (i, a) (indexed k l) -> (k <= i)%nat /\ nth_error l (i - k) = Some a.
Proof.
  induction l as [| x l IH]; intros k i a H; cbn [indexed] in H; [destruct H |]. destruct H as [E | H].
  - inversion E; subst. rewrite Nat.sub_diag. split; [lia | reflexivity].
  - destruct (IH _ _ _ H) as [Hk Hn]. split; [lia |].
    replace (i - k)%nat with (S (i - S k)) by lia. exact Hn.
Qed.

Lemma ringRel_rings g hots L l cks : Forall2 (ringRel g hots L) l cks ->
  mapM (fun ir => routedClean g hots L (fst ir) (snd ir)) l = Ok (map fst cks).
Proof.
  intro F. apply mapM_of_Forall2. induction F as [| ir ck l cks [H _] F IH]; cbn [map]; constructor; assumption.
Qed.

(** the routed shell does not run clockwise and no routed hole runs counter-clockwise *)
Definition roles_kept (g : grid) (hots : list (list (Z * Z))) (L : nat) (P : list ring) : Prop :=
  forall idx r c, nth_error P idx = Some r -> routedClean g hots L idx r = Ok c ->
    if Nat.eqb idx 0 then 0 <= xprod c else xprod c <= 0.

Corollary level_area_roles_kept g hots P cfg L ps : class_le2 g hots L P -> roles_kept g hots L P ->
  snapLevel g hots P cfg L = Ok (Some ps) ->
  exists cs tu,
    routedRings g hots L P = Ok cs /\
    Forall (fun t : ring => (3 <= length t)%nat /\ xprod t <= 0 /\ In [flipr cfg (rev t)] ps) tu /\
    sum_xprod (concat ps) = flipz cfg * (sum_xprod cs - 2 * sum_xprod tu).
Proof.
  intros Hcl Hro H. destruct (level_area_end_to_end g hots P cfg L ps Hcl H) as [cks [tu [F [Ht S]]]].
  exists (map fst cks), tu. split; [apply ringRel_rings, F |]. split; [exact Ht |]. rewrite S. f_equal. f_equal.
  assert (G : forall l, (forall i r, In (i, r) l -> nth_error P i = Some r) -> forall cks,
                Forall2 (ringRel g hots L) l cks -> sumZ (map snd cks) = sum_xprod (map fst cks)).
  { intros l Hl cks0 F0. induction F0 as [| ir ck l cks0 [H1 H2] F0 IH]; [reflexivity |].
    cbn [map sumZ sum_xprod]. rewrite IH by (intros i r Hin; apply Hl; right; exact Hin). f_equal.
    destruct ir as [i r]. cbn [fst snd] in *. pose proof (Hro i r _ (Hl i r (or_introl eq_refl)) H1) as Ho.
    destruct H2 as [E | [E Hs]]; [exact E |]. destruct (i =? 0)%nat; lia. }
  apply (G (indexed 0 P)); [| exact F].
  intros i r Hin. destruct (indexed_In P 0 i r Hin) as [_ Hn]. rewrite Nat.sub_0_r in Hn. exact Hn.
Qed.

(** a boolean form of the class, for concrete polygons *)
Definition class_le2b (g : grid) (hots : list (list (Z * Z))) (L : nat) (P : list ring) : bool :=
  forallb (fun ir => match routedClean g hots L (fst ir) (snd ir) with
                     | Ok c => ProofsKmpLe2.le2b c
                     | Err _ => true
                     end) (indexed 0 P).

Lemma class_le2b_sound g hots L P : class_le2b g hots L P = true -> class_le2 g hots L P.
Proof.
  intros H idx r c Hn Hr. unfold class_le2b in H. rewrite forallb_forall in H.
  specialize (H (idx, r) (indexed_nth P 0 idx r Hn)). cbn [fst snd] in H. rewrite Hr in H.
  apply ProofsKmpLe2.le2b_spec, H.
Qed.

(** ** the role changes are real for arbitrary input rings: without them the equation is false.
       Witnesses (32 x 32 pixels of size 2, level 3): a SELF-CROSSING ring written counter-clockwise whose routed
       ring runs clockwise and is reversed as a whole; a "hole" OUTSIDE its shell that is turned into a shell.
       Neither is a valid polygon: for valid polygons no role change was ever observed (the harness checks the
       exact equation on the implementation), but excluding it needs that routing preserves the topology (C01),
       which is not a theorem. *)
Definition hotsOf (g : grid) (P : list ring) : list (list (Z * Z)) :=
  match insertPolygon g P with Ok hs => hotLevels g hs | Err _ => [] end.

Theorem level_area_exact_refuted : exists g P cfg L ps cs,
  class_le2 g (hotsOf g P) L P /\ snapLevel g (hotsOf g P) P cfg L = Ok (Some ps) /\
  routedRings g (hotsOf g P) L P = Ok cs /\ length P = 1%nat /\
  sum_xprod (concat ps) = - (flipz cfg * sum_xprod cs) /\ sum_xprod cs <> 0.
Proof.
  exists (mkGrid (mkExtent 0 0 64 64) 2 5), [[(42, 3); (63, 31); (7, 30); (29, 57)]], (mkConfig true false false), 3%nat,
         [[[(28, 60); (4, 28); (60, 28); (44, 4)]]], [[(44, 4); (60, 28); (4, 28); (28, 60)]].
  split; [apply class_le2b_sound; vm_compute; reflexivity |].
  split; [vm_compute; reflexivity |]. split; [vm_compute; reflexivity |]. split; [reflexivity |].
  split; [vm_compute; reflexivity | vm_compute; discriminate].
Qed.

Theorem level_area_turned_hole_witness : exists g P cfg L ps cs,
  class_le2 g (hotsOf g P) L P /\ roles_kept g (hotsOf g P) L P /\
  snapLevel g (hotsOf g P) P cfg L = Ok (Some ps) /\ routedRings g (hotsOf g P) L P = Ok cs /\
  sum_xprod (concat ps) <> flipz cfg * sum_xprod cs.
Proof.
  exists (mkGrid (mkExtent 0 0 64 64) 2 5), [[(2,2);(22,2);(22,22);(2,22)]; [(42,42);(42,58);(58,58);(58,42)]],
         (mkConfig true false false), 3%nat,
         [[[(4, 4); (20, 4); (20, 20); (4, 20)]]; [[(60, 44); (60, 60); (44, 60); (44, 44)]]],
         [[(4, 4); (20, 4); (20, 20); (4, 20)]; [(44, 44); (44, 60); (60, 60); (60, 44)]].
  split; [apply class_le2b_sound; vm_compute; reflexivity |].
  split.
  { intros idx r c Hn Hr. destruct idx as [| [| idx]]; cbn [nth_error] in Hn.
    - inversion Hn; subst r. vm_compute in Hr. inversion Hr; subst c. vm_compute. discriminate.
    - inversion Hn; subst r. vm_compute in Hr. inversion Hr; subst c. vm_compute. discriminate.
    - destruct idx; discriminate. }
  split; [vm_compute; reflexivity |]. split; [vm_compute; reflexivity |]. vm_compute. discriminate.
Qed.

(** ** snapPolygon: every requested level *)
Theorem snap_edges_end_to_end g P levels cfg res hs : insertPolygon g P = Ok hs ->
  (forall L, In L levels -> class_le2 g (hotLevels g hs) L P) ->
  snapPolygon g P levels cfg = Ok res ->
  forall L ps poly x e, In (L, ps) res -> In poly ps -> In x poly -> In e (cedges x) ->
    edge_routed g (hotLevels g hs) L P e.
Proof.
  intros Hi Hcl H L ps poly x e Hin. destruct (level_value _ _ _ _ _ _ _ H Hin) as [hs' [Hi' [HL Hl]]].
  rewrite Hi in Hi'. inversion Hi'; subst hs'.
  exact (level_edges_end_to_end g _ P cfg L ps (Hcl L HL) Hl poly x e).
Qed.

Theorem snap_area_end_to_end g P levels cfg res hs : insertPolygon g P = Ok hs ->
  (forall L, In L levels -> class_le2 g (hotLevels g hs) L P) ->
  snapPolygon g P levels cfg = Ok res ->
  forall L ps, In (L, ps) res ->
  exists cks tu,
    Forall2 (ringRel g (hotLevels g hs) L) (indexed 0 P) cks /\
    Forall (fun t : ring => (3 <= length t)%nat /\ xprod t <= 0 /\ In [flipr cfg (rev t)] ps) tu /\
    sum_xprod (concat ps) = flipz cfg * (sumZ (map snd cks) - 2 * sum_xprod tu).
Proof.
  intros Hi Hcl H L ps Hin. destruct (level_value _ _ _ _ _ _ _ H Hin) as [hs' [Hi' [HL Hl]]].
  rewrite Hi in Hi'. inversion Hi'; subst hs'.
  exact (level_area_end_to_end g _ P cfg L ps (Hcl L HL) Hl).
Qed.

(** ** the cyclic edges of a routed-and-cleaned ring are routed steps: two consecutive pixel centres of the list
       snapClosestPoints returns for one edge of the (normalised) input ring.  cleanupNewVertices merges nothing;
       it drops the joint that two consecutive lists share.  Needs exact routing ([routing_ok], from C02). *)
Lemma route_dropClosing s0 rest nr :
  Forall no_adj_lin (s0 :: rest) -> seg_chain (last s0 dp) rest -> endOf (last s0 dp) rest = hd dp s0 ->
  assemble (s0 :: rest) [] = Ok nr ->
  (exists R', recorded (s0 :: rest) = R' ++ [hd dp s0] /\ dropClosing nr = hd dp s0 :: R') \/
  (length (dropClosing nr) <= 1)%nat.
Proof.
  intros Hs Hch Hend H. destruct (route_structure s0 rest nr Hs Hch Hend H) as [Hnr [HnC [Hinv Hl]]].
  set (h0 := hd dp s0) in *. set (R := recorded (s0 :: rest)) in *.
  destruct (snoc_cases R) as [ER | [R' [y ER]]]; rewrite ER in *.
  - right. destruct Hinv as [-> | Hi]; [cbn; lia |].
    cbn [last] in Hi. destruct nr; [congruence | destruct nr; discriminate].
  - rewrite app_comm_cons, last_last in Hl. subst y. left. exists R'. split; [reflexivity |].
    destruct Hinv as [-> | Hi].
    + unfold dropClosing. rewrite app_comm_cons, last_opt_snoc.
      replace (1 <? length ((h0 :: R') ++ [h0]))%nat with true
        by (symmetry; apply Nat.ltb_lt; rewrite app_length; cbn [length]; lia).
      cbn [app]. rewrite pt_eqb_refl. cbn [andb]. rewrite app_comm_cons, removelast_last. reflexivity.
    + change (h0 :: R' ++ [h0]) with ((h0 :: R') ++ [h0]) in Hi. rewrite last_last in Hi. apply app_inj_tail in Hi.
      destruct Hi as [Hi _]. subst nr. unfold dropClosing.
      destruct (snoc_cases R') as [-> | [R'' [w ->]]].
      * exfalso. apply (HnC h0 h0); [left; reflexivity | reflexivity].
      * rewrite app_comm_cons, last_opt_snoc.
        assert (Nw : w <> h0). { apply (last_two_adj (h0 :: R'')). exact HnC. }
        destruct (pt_eqb_spec h0 w) as [E | _]; [congruence |]. rewrite andb_false_r. reflexivity.
Qed.

Lemma last_app_tl (acc s : list pt) : acc <> [] -> s <> [] -> hd dp s = last acc dp ->
  last (acc ++ tl s) dp = last s dp /\ pairs (acc ++ tl s) = pairs acc ++ pairs s.
Proof.
  intros Ha Hs Hh. destruct (snoc_cases acc) as [-> | [a' [z ->]]]; [congruence |].
  destruct s as [| h t]; [congruence |]. cbn [hd tl] in *. rewrite last_last in Hh. subst h. split.
  - destruct (snoc_cases t) as [-> | [t' [y ->]]].
    + rewrite app_nil_r, last_last. reflexivity.
    + rewrite app_assoc, last_last, app_comm_cons, last_last. reflexivity.
  - rewrite <- app_assoc. cbn [app]. apply pairs_app.
Qed.

Lemma pairs_chain segs : forall acc, acc <> [] -> seg_chain (last acc dp) segs -> Forall (fun s : list pt => s <> []) segs ->
  forall e, In e (pairs (acc ++ recorded segs)) -> In e (pairs acc) \/ exists s, In s segs /\ In e (pairs s).
Proof.
  induction segs as [| s rest IH]; intros acc Ha Hch Hne e He.
  - unfold recorded in He. cbn [map concat] in He. rewrite app_nil_r in He. auto.
  - cbn [seg_chain] in Hch. destruct Hch as [Hh Hch]. inversion Hne as [| ? ? Hs Hrest]; subst.
    destruct (last_app_tl acc s Ha Hs Hh) as [El Ep].
    unfold recorded in He. cbn [map concat] in He. rewrite app_assoc in He. fold (recorded rest) in He.
    assert (Ha' : acc ++ tl s <> []) by (intro X; apply app_eq_nil in X; destruct X; congruence).
    rewrite <- El in Hch. destruct (IH (acc ++ tl s) Ha' Hch Hrest e He) as [H1 | [s' [Hs' H1]]].
    + rewrite Ep in H1. apply in_app_or in H1. destruct H1 as [H1 | H1]; [auto |].
      right. exists s. split; [left; reflexivity | exact H1].
    + right. exists s'. split; [right; exact Hs' | exact H1].
Qed.

Theorem routedClean_edges_routed g hots L idx r c :
  routing_ok g hots L (ensureCorrectWindingOrder r (negb (Nat.eqb idx 0))) ->
  routedClean g hots L idx r = Ok c ->
  forall e, In e (cedges c) ->
    exists a b, In (a, b) (dedges (ensureCorrectWindingOrder r (negb (Nat.eqb idx 0)))) /\
                In e (pairs (snapClosestPoints g hots a b L)).
Proof.
  set (r' := ensureCorrectWindingOrder r (negb (Nat.eqb idx 0))). intros [[cf Hc] Hadj] H e He.
  unfold routedClean in H. fold r' in H. bind_inv H x Hx. destruct x as [nr st']. cbn [fst] in H.
  inversion H; subst c. clear H. unfold routeOf in Hx. destruct r' as [| first t] eqn:Er.
  - inversion Hx; subst. destruct He.
  - rewrite routeRing_eq in Hx. bind_inv Hx nr' Ha. inversion Hx; subst nr' st'. clear Hx.
    rewrite edgesFrom_dedges in *. set (es := dedges (first :: t)) in *.
    assert (Hseg : Forall no_adj_lin (segsOf g hots L es)).
    { rewrite Forall_forall. intros s Hs. unfold segsOf in Hs. apply in_map_iff in Hs.
      destruct Hs as [[a b] [<- Hab]]. apply Hadj, Hab. }
    pose proof (assemble_nonempty _ _ _ Ha) as Hne.
    assert (Ees : es = pairs (first :: (t ++ [first]))) by reflexivity.
    destruct (endpoints_chain cf (fun a b => snapClosestPoints g hots a b L) (t ++ [first]) first) as [C1 C2].
    { intros a b Hin. apply Hc. rewrite <- Ees in Hin. exact Hin. }
    { rewrite <- Ees. exact Hne. }
    rewrite <- Ees in C1, C2. fold (segsOf g hots L es) in C1, C2.
    assert (El : last (first :: t ++ [first]) dp = first) by (rewrite app_comm_cons, last_last; reflexivity).
    rewrite El in C2.
    assert (Hfrom : forall s, In s (segsOf g hots L es) -> In e (pairs s) ->
              exists a b, In (a, b) es /\ In e (pairs (snapClosestPoints g hots a b L))).
    { intros s Hs Hes. unfold segsOf in Hs. apply in_map_iff in Hs. destruct Hs as [[a b] [<- Hab]].
      exists a, b. auto. }
    destruct (segsOf g hots L es) as [| s0 rest] eqn:Es.
    { exfalso. unfold segsOf, es in Es. destruct t; discriminate. }
    cbn [seg_chain endOf] in C1, C2. destruct C1 as [Eh C1].
    inversion Hne as [| ? ? Hs0 Hrest]; subst.
    destruct (route_dropClosing s0 rest nr Hseg C1 ltac:(congruence) Ha) as [[R' [ER Ed]] | Hl].
    + rewrite Ed in He. destruct R' as [| b R'']; [destruct He |].
      assert (EC : cedges (hd dp s0 :: b :: R'') = pairs (s0 ++ recorded rest)).
      { rewrite cedges_dedges by (cbn [length]; lia). unfold dedges.
        change ((hd dp s0 :: b :: R'') ++ [hd dp s0]) with (hd dp s0 :: ((b :: R'') ++ [hd dp s0])).
        rewrite <- ER. unfold recorded. cbn [map concat]. destruct s0; [congruence | reflexivity]. }
      rewrite EC in He.
      destruct (pairs_chain rest s0 Hs0 C1 Hrest e He) as [H1 | [s [Hs H1]]].
      * apply (Hfrom s0); [left; reflexivity | exact H1].
      * apply (Hfrom s); [right; exact Hs | exact H1].
    + rewrite cedges_small in He by lia. destruct He.
Qed.

(** (E1) in terms of routed steps: every cyclic edge of every returned ring is, up to direction, a step between
    two consecutive centres of the list returned for one edge of the polygon *)
Definition routed_step (g : grid) (hots : list (list (Z * Z))) (L : nat) (P : list ring) (e : pt * pt) : Prop :=
  exists idx r a b, nth_error P idx = Some r /\
    In (a, b) (dedges (ensureCorrectWindingOrder r (negb (Nat.eqb idx 0)))) /\
    (In e (pairs (snapClosestPoints g hots a b L)) \/ In (swap e) (pairs (snapClosestPoints g hots a b L))).

Theorem level_edges_routed_steps g hots P cfg L ps : class_le2 g hots L P ->
  (forall idx r, nth_error P idx = Some r ->
                 routing_ok g hots L (ensureCorrectWindingOrder r (negb (Nat.eqb idx 0)))) ->
  snapLevel g hots P cfg L = Ok (Some ps) ->
  forall poly x e, In poly ps -> In x poly -> In e (cedges x) -> routed_step g hots L P e.
Proof.
  intros Hcl Hrt H poly x e Hpoly Hx He.
  destruct (level_edges_end_to_end g hots P cfg L ps Hcl H poly x e Hpoly Hx He) as [idx [r [c [Hn [Hr Hd]]]]].
  destruct Hd as [Hd | Hd];
    destruct (routedClean_edges_routed g hots L idx r c (Hrt idx r Hn) Hr _ Hd) as [a [b [Hab Hs]]];
    exists idx, r, a, b; auto.
Qed.

(** the same for snapPolygon with the routing premise discharged (C02): grids whose stored extent covers their
    pixels, requested levels within the index *)
Theorem snap_edges_routed_steps g P levels cfg res hs : 0 < gres g -> RootCovers g ->
  (forall L, In L levels -> (L <= gdeep g)%nat) ->
  insertPolygon g P = Ok hs ->
  (forall L, In L levels -> class_le2 g (hotLevels g hs) L P) ->
  snapPolygon g P levels cfg = Ok res ->
  forall L ps poly x e, In (L, ps) res -> In poly ps -> In x poly -> In e (cedges x) ->
    routed_step g (hotLevels g hs) L P e.
Proof.
  intros Hr C HLs Hi Hcl H L ps poly x e Hin. destruct (level_value _ _ _ _ _ _ _ H Hin) as [hs' [Hi' [HL Hl]]].
  rewrite Hi in Hi'. inversion Hi'; subst hs'.
  apply (level_edges_routed_steps g _ P cfg L ps (Hcl L HL)); [| exact Hl].
  intros idx r0 Hn. exact (routing_premise_closed g P hs levels Hr C Hi HLs L idx r0 HL Hn).
Qed.

Print Assumptions level_edges_end_to_end.
Print Assumptions level_area_end_to_end.
Print Assumptions snap_edges_end_to_end.
Print Assumptions snap_area_end_to_end.
Print Assumptions level_edges_routed_steps.
Print Assumptions snap_edges_routed_steps.
Print Assumptions level_area_roles_kept.
Print Assumptions level_area_exact_refuted.
Print Assumptions level_area_turned_hole_witness.
