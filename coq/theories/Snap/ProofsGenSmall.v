(** * Tie G2: cleanupNewVertices, asPointOrLine and ensureCorrectWindingOrder REGENERATED from snap.go on every
      run (gen/SnapSmallGen.v) are the model's (Snap/Model.v) on all inputs.

    [windingOrderIsCorrect] (the winding.Order float predicate of the geom library) and
    [mapslicehelp.ReverseClone] are not translated: the generated code calls the model's [windingOrderIsCorrect]
    and [rev].  The generated functions live in the error monad; the last two never fail.  Slice expressions
    are checked against the length (Go: the capacity): [gen_cleanupNewVertices_no_slice_panic] shows that no
    slice expression of cleanupNewVertices is out of bounds, so the difference cannot show. *)
From Coq Require Import ZArith List Bool Lia.
From Texel Require Import Prelude.Base Index.Model Snap.Model Snap.ProofsKmpSearch.
From Texel.Gen Require Import SnapSmallGen.
Import ListNotations.
Open Scope Z_scope.

Lemma slice_all_but_last {A} (l : list A) : l <> [] -> slice l 0 (zlen l - 1) = Ok (removelast l).
Proof.
  intro H. pose proof (zlen_pos_of_ne l H) as Hp.
  rewrite slice_ok by lia. cbn [skipn Z.to_nat]. f_equal.
  rewrite removelast_firstn_len. f_equal. unfold zlen in *. lia.
Qed.

Lemma slice_tail {A} (l : list A) : l <> [] -> slice l 1 (zlen l) = Ok (tl l).
Proof.
  intro H. pose proof (zlen_pos_of_ne l H) as Hp. rewrite slice_ok by lia.
  destruct l as [| a l]; [congruence |]. cbn [skipn Z.to_nat Pos.to_nat Pos.iter_op Nat.add tl]. f_equal.
  change (skipn (Pos.to_nat 1) (a :: l)) with l.
  replace (Z.to_nat (zlen (a :: l) - 1)) with (length l) by (rewrite zlen_cons; unfold zlen; lia).
  apply firstn_all.
Qed.

Theorem gen_cleanupNewVertices_spec nv lv : gen_cleanupNewVertices nv lv = cleanupNewVertices nv lv.
Proof.
  unfold gen_cleanupNewVertices, cleanupNewVertices. cbv zeta.
  destruct nv as [| first rest]; [reflexivity |].
  assert (Hne : first :: rest <> []) by discriminate.
  pose proof (zlen_pos_of_ne _ Hne) as Hp.
  destruct (Z.eqb_spec (zlen (first :: rest)) 0) as [E | _]; [lia |].
  destruct (Nat.ltb_spec 1 (length (first :: rest))) as [Hn | Hn].
  - (* more than one vertex: the last one is dropped *)
    assert (Hz : 2 <= zlen (first :: rest)) by (unfold zlen; lia).
    rewrite Z.min_r by lia. rewrite slice_all_but_last by assumption. cbn [bind].
    destruct rest as [| second rest]; [cbn [length] in Hn; lia |].
    change (removelast (first :: second :: rest)) with (first :: removelast (second :: rest)).
    generalize (removelast (second :: rest)); intro rl.
    destruct lv as [lv |]; cbn [bind]; [| reflexivity].
    change (idx (first :: rl) 0) with (Ok (A := pt) first). cbn [bind].
    destruct (pt_eqb first lv); [| reflexivity].
    rewrite slice_tail by discriminate. reflexivity.
  - (* exactly one vertex: kept *)
    destruct rest as [| second rest]; [| cbn [length] in Hn; lia].
    change (zlen [first]) with 1. change (Z.min (1 - 1) 1) with 0.
    change (slice [first] 0 (1 - 0)) with (Ok [first]). cbn [bind].
    destruct lv as [lv |]; cbn [bind]; [| reflexivity].
    change (idx [first] 0) with (Ok (A := pt) first). cbn [bind].
    destruct (pt_eqb first lv); reflexivity.
Qed.

Corollary gen_cleanupNewVertices_no_slice_panic nv lv :
  gen_cleanupNewVertices nv lv <> Err SliceBounds /\ gen_cleanupNewVertices nv lv <> Err IndexOutOfRange.
Proof.
  rewrite gen_cleanupNewVertices_spec. unfold cleanupNewVertices.
  destruct nv as [| first rest]; [split; discriminate |].
  destruct lv as [lv |]; [destruct (pt_eqb first lv) |]; split; discriminate.
Qed.

Theorem gen_asPointOrLine_spec r : gen_asPointOrLine r = Ok (asPointOrLine r).
Proof. destruct r; reflexivity. Qed.

Theorem gen_ensureCorrectWindingOrder_spec r cw :
  gen_ensureCorrectWindingOrder r cw = Ok (ensureCorrectWindingOrder r cw).
Proof.
  unfold gen_ensureCorrectWindingOrder, ensureCorrectWindingOrder.
  destruct (windingOrderIsCorrect r cw); reflexivity.
Qed.
