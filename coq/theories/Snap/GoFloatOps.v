(** * An abstract float type for the REGENERATED float predicates (gen/GeomHelpFloatGen.v, translator/geomhelp.go,
      genGeomHelpFloat), with its two instances.  Definitions only.

    The generated functions [genF_Shoelace], [genF_RayIntersect] take a record [fo : fops] and use nothing about
    float64 but its fields.  Two readings of the SAME regenerated statement list:

    - [Qops eps]: exact rationals, the reading of Snap/GoGeomHelp.v ([genF_f (Qops eps)] is [gen_f eps] of
      GeomHelpGen.v by reflexivity); the theorems against the model are about this reading;
    - [B64ops]: IEEE-754 binary64 as specified by Coq.Floats.SpecFloat ([prec] = 53, [emax] = 1024): round to nearest,
      ties to even, gradual underflow, signed zeros, infinities, NaN; axiom-free and executable ([vm_compute]).
      This is what a Go float64 operation computes (Go spec: IEEE-754; TRUSTED: the compiler does not fuse
      x*y + z into one rounding - true for amd64, the platform of the correspondence runs; it may on arm64 / ppc64 /
      s390x).  Comparisons with NaN are false, [!=] is the negation of [==] (true on NaN), as in Go.
      It is used for [Example]s that replay a float defect bit for bit (finding F23, the nudge of RayIntersect),
      not for general theorems. *)
From Coq Require Import ZArith QArith Qabs List Bool.
From Coq Require Import Floats.SpecFloat.
From Texel Require Import Prelude.Base Tms.Json Snap.GoGeomHelp.
Import ListNotations.
Open Scope Z_scope.

Record fops : Type := MkFops {
  fT : Type;
  f_int : Z -> fT;                 (* an integer-valued literal *)
  f_add : fT -> fT -> fT;
  f_sub : fT -> fT -> fT;
  f_mul : fT -> fT -> fT;
  f_quo : fT -> fT -> fT;          (* x / c for a non-zero literal c *)
  f_div : fT -> fT -> res fT;      (* x / y: the rational instance stops at a zero divisor *)
  f_opp : fT -> fT;
  f_abs : fT -> fT;                (* math.Abs *)
  f_eqb : fT -> fT -> bool;
  f_ltb : fT -> fT -> bool;
  f_leb : fT -> fT -> bool;
  f_nextup : fT -> fT              (* math.Nextafter(x, math.Inf(1)) *)
}.

(** [p[0] = v], [p[1] = v] on a [2]float64 *)
Definition pset0 {A : Type} (p : A * A) (v : A) : A * A := (v, snd p).
Definition pset1 {A : Type} (p : A * A) (v : A) : A * A := (fst p, v).

(** ** exact rationals *)
Definition Qops (eps : Q) : fops :=
  {| fT := Q; f_int := inject_Z; f_add := Qplus; f_sub := Qminus; f_mul := Qmult; f_quo := Qdiv; f_div := fdiv;
     f_opp := Qopp; f_abs := Qabs; f_eqb := Qeq_bool; f_ltb := Qltb; f_leb := Qle_bool;
     f_nextup := go_nextafter_up eps |}.

(** ** IEEE-754 binary64 *)
Definition b64_prec : Z := 53.
Definition b64_emax : Z := 1024.

(** the float64 m * 2^e (rounded if m has more than 53 bits) *)
Definition b64 (m e : Z) : spec_float := binary_normalize b64_prec b64_emax m e false.

Definition B64ops : fops :=
  {| fT := spec_float;
     f_int := fun z => b64 z 0;
     f_add := SFadd b64_prec b64_emax; f_sub := SFsub b64_prec b64_emax; f_mul := SFmul b64_prec b64_emax;
     f_quo := SFdiv b64_prec b64_emax;
     f_div := fun x y => Ok (SFdiv b64_prec b64_emax x y);
     f_opp := SFopp; f_abs := SFabs;
     f_eqb := SFeqb; f_ltb := SFltb; f_leb := SFleb;
     f_nextup := SFsucc b64_prec b64_emax |}.

(** the rational a finite float64 denotes *)
Definition b64_toQ (x : spec_float) : option Q :=
  match x with
  | S754_zero _ => Some 0%Q
  | S754_finite s m e =>
      let v := (inject_Z (Z.pos m) * Qpower (inject_Z 2) e)%Q in Some (if s then (- v)%Q else v)
  | _ => None
  end.

(** a point given by the two float64 values mx * 2^ex, my * 2^ey *)
Definition b64pt (mx ex my ey : Z) : spec_float * spec_float := (b64 mx ex, b64 my ey).

(** the hand transcription of the body of geomhelp.Shoelace BEFORE the repair of finding F23 (it multiplied the raw
    ordinates); kept to replay that finding and to show that in exact arithmetic the two bodies agree *)
Definition shoelace_raw_step (fo : fops) (st : fT fo * (fT fo * fT fo)) (p1 : fT fo * fT fo) : fT fo * (fT fo * fT fo) :=
  let '(sum, p0) := st in
  (f_add fo sum (f_sub fo (f_mul fo (snd p0) (fst p1)) (f_mul fo (fst p0) (snd p1))), p1).

Definition shoelace_raw (fo : fops) (pts : list (fT fo * fT fo)) : res (fT fo) :=
  if zlen pts =? 0 then Ok (f_int fo 0)
  else
    do p0 <- idx pts (zlen pts - 1);
    let '(sum, _) := fold_left (shoelace_raw_step fo) pts (f_int fo 0, p0) in
    Ok (f_abs fo (f_quo fo sum (f_int fo 2))).
