(** * Executable model of package snap (snap.go), with the helpers of geomhelp,
      mapslicehelp and the two container libraries it relies on.

    Definitions only.  Coordinates are the INTEGER pixel centres (units of 1e-10); the Go
    code works on their float images, which are in bijection with them on the grids the
    correspondence uses (DESIGN 4.2).  Float predicates (winding sign, Shoelace, RayIntersect)
    are modelled by their exact integer versions.  Loops that re-assign their variable run on
    explicit fuel; [Err OutOfFuel] stands for non-termination. *)
From Coq Require Import ZArith List Bool.
From Texel Require Import Prelude.Base Index.Model.
Import ListNotations.
Open Scope Z_scope.

(** ** orientation: winding.Order{}.OfPoints = sign of the cross-product sum *)
Fixpoint xprod_from (prev : pt) (l : list pt) : Z :=
  match l with
  | [] => 0
  | p :: r => fst prev * snd p - fst p * snd prev + xprod_from p r
  end.

(** twice the signed area (counter-clockwise positive) *)
Definition xprod (r : ring) : Z :=
  match last_opt r with None => 0 | Some l => xprod_from l r end.

Definition orient (r : ring) : Z :=
  if (length r <? 3)%nat then 0 else Z.sgn (xprod r).

Definition windingOrderIsCorrect (r : ring) (shouldBeClockwise : bool) : bool :=
  let o := orient r in
  ((o =? -1) && shouldBeClockwise) || ((o =? 1) && negb shouldBeClockwise) || (o =? 0).

Definition ensureCorrectWindingOrder (r : ring) (shouldBeClockwise : bool) : ring :=
  if windingOrderIsCorrect r shouldBeClockwise then r else rev r.

(** ** cleanupNewVertices *)
Definition cleanupNewVertices (newVertices : list pt) (lastVertex : option pt) : res (list pt) :=
  match newVertices with
  | [] => Err NoPointsFound
  | first :: _ =>
      let n := length newVertices in
      let kept := if (1 <? n)%nat then removelast newVertices else newVertices in
      match lastVertex with
      | Some lv => if pt_eqb first lv then Ok (tl kept) else Ok kept
      | None => Ok kept
      end
  end.

(** ** kmpTable / kmpSearch / kmpSearchAll *)
Fixpoint kmpTableLoop (fuel : nat) (find : list pt) (table : list Z) (pos cnd : Z) : res (list Z) :=
  match fuel with
  | O => Err OutOfFuel
  | S f =>
      if pos <? zlen find then
        do a <- idx find (pos - 1);
        do b <- idx find cnd;
        if pt_eqb a b then
          do t <- setidx table pos (cnd + 1);
          kmpTableLoop f find t (pos + 1) (cnd + 1)
        else if 0 <? cnd then
          do c <- idx table cnd;
          kmpTableLoop f find table pos c
        else
          do t <- setidx table pos 0;
          kmpTableLoop f find t (pos + 1) cnd
      else Ok table
  end.

Definition kmpTable (find : list pt) (table : list Z) : res (list Z) :=
  do t0 <- setidx table 0 (-1);
  do t1 <- setidx t0 1 0;
  kmpTableLoop (2 * length find + 2) find t1 2 0.

Fixpoint kmpSearchLoop (fuel : nat) (corpus find : list pt) (table : list Z) (m i : Z) : res Z :=
  match fuel with
  | O => Err OutOfFuel
  | S f =>
      if m + i <? zlen corpus then
        do a <- idx find i;
        do b <- idx corpus (m + i);
        if pt_eqb a b then
          if i =? zlen find - 1 then Ok m
          else kmpSearchLoop f corpus find table m (i + 1)
        else
          do ti <- idx table i;
          if -1 <? ti then
            (* i = table[i]; m = m + i - table[i]   (with the NEW i) *)
            do ti' <- idx table ti;
            kmpSearchLoop f corpus find table (m + ti - ti') ti
          else kmpSearchLoop f corpus find table (m + 1) 0
      else Ok (zlen corpus)
  end.

Definition kmpSearch (corpus find : list pt) : res Z :=
  let table := repeat 0 (Nat.max (length corpus) 2) in
  do t <- kmpTable find table;
  kmpSearchLoop ((length corpus + 2) * (length find + 2)) corpus find t 0 0.

Fixpoint kmpSearchAllLoop (fuel : nat) (corpus find : list pt) (offset : Z) (acc : list Z) : res (list Z) :=
  match fuel with
  | O => Err OutOfFuel
  | S f =>
      do m <- kmpSearch corpus find;
      if m =? zlen corpus then Ok acc
      else
        let acc' := acc ++ [m + offset] in
        do rest <- slice corpus (m + zlen find) (zlen corpus);
        if zlen rest <? zlen find then Ok acc'
        else kmpSearchAllLoop f rest find (offset + m + zlen find) acc'
  end.

Definition kmpSearchAll (corpus find : list pt) : res (list Z) :=
  kmpSearchAllLoop (length corpus + 2) corpus find 0 [].

(** ** go-sortedmap as used for sequencesToRemove: keyed by the printed segment,
       sorted by range start; [Insert] on an existing key is a no-op; a new value
       goes after all values that are not greater (sort.Search on less(val, existing)). *)
Definition seqmap := list (list pt * (Z * Z)).

Fixpoint seq_has (m : seqmap) (k : list pt) : bool :=
  match m with [] => false | (k', _) :: r => ring_eqb k k' || seq_has r k end.

Fixpoint seq_place (m : seqmap) (k : list pt) (v : Z * Z) : seqmap :=
  match m with
  | [] => [(k, v)]
  | (k', v') :: r => if fst v <? fst v' then (k, v) :: m else (k', v') :: seq_place r k v
  end.

Definition seq_insert (m : seqmap) (k : list pt) (v : Z * Z) : seqmap :=
  if seq_has m k then m else seq_place m k v.

(** mapslicehelp.RemoveSequences *)
Fixpoint removeSequencesLoop (s : list pt) (m : seqmap) (keepFrom : Z) (acc : list pt) : res (list pt) :=
  match m with
  | [] => do t <- slice s keepFrom (zlen s); Ok (acc ++ t)
  | (_, (a, b)) :: r => do t <- slice s keepFrom a; removeSequencesLoop s r b (acc ++ t)
  end.

Definition removeSequences (s : list pt) (m : seqmap) : res (list pt) := removeSequencesLoop s m 0 [].

(** ** kmpDeduplicate *)

(** the backwards scan that builds reverseSegment (j = 3 .. len visited) *)
Fixpoint reverseScan (fuel : nat) (r visited : list pt) (i j : Z) (acc : list pt) : res (list pt) :=
  match fuel with
  | O => Ok acc
  | S f =>
      if j <=? zlen visited then
        let nextI := i + (j - 2) in
        if nextI <=? zlen r - 1 then
          do v <- idx visited (zlen visited - j);
          do w <- idx r nextI;
          if pt_eqb v w then reverseScan f r visited i (j + 1) (acc ++ [v]) else Ok acc
        else Ok acc
      else Ok acc
  end.

(** growing the search corpus until it contains a vertex that is not in the segment *)
Fixpoint corpusLoop (fuel : nat) (r segment : list pt) (start e k : Z) : res (list pt) :=
  match fuel with
  | O => Err OutOfFuel
  | S f =>
      do corpus <- slice r start (Z.min e (zlen r));
      do fresh <- slice corpus k (zlen corpus);
      let stop := existsb (fun v => negb (mem_pt v segment)) fresh || (zlen r <? e) in
      if stop then Ok corpus
      else corpusLoop f r segment start (e + 2 * zlen segment) (zlen corpus)
  end.

Definition lastZ (l : list Z) : res Z :=
  match last_opt l with Some z => Ok z | None => Err IndexOutOfRange end.

Fixpoint kmpDedupLoop (fuel : nat) (r : list pt) (seqs : seqmap) (visited : list pt) (i : Z) : res seqmap :=
  match fuel with
  | O => Err OutOfFuel
  | S f =>
      if i <? zlen r then
        do vertex <- idx r i;
        let lv := zlen visited in
        let stepBack := match (if lv <=? 1 then None else nth_error visited (Z.to_nat (lv - 2))) with
                        | Some p => pt_eqb p vertex | None => false end in
        if negb stepBack then kmpDedupLoop f r seqs (visited ++ [vertex]) (i + 1)
        else
          do v1 <- idx visited (lv - 1);
          do v2 <- idx visited (lv - 2);
          do reverseSegment <- reverseScan (length visited) r visited i 3 [v1; v2];
          let segment := rev reverseSegment in
          let L := zlen segment in
          let start := i - L in
          do corpus <- corpusLoop (length r + 2) r segment start (start + 3 * L) 0;
          do matches <- kmpSearchAll corpus segment;
          do reverseMatches <- kmpSearchAll corpus reverseSegment;
          let nm := zlen matches in
          let nr := zlen reverseMatches in
          if (1 <? nm) && (nm - nr =? 1) then
            do lm <- lastZ matches;
            let sequenceEnd := start + lm + L in
            kmpDedupLoop f r (seq_insert seqs segment (start + L, sequenceEnd)) [] sequenceEnd
          else if (1 <? nm) && (nm =? nr) then
            do lm <- lastZ matches;
            let sequenceEnd := start + lm + L in
            kmpDedupLoop f r (seq_insert seqs segment (start + 2 * L - 1, sequenceEnd)) [] sequenceEnd
          else if (nm =? 1) && (nr =? 1) then
            kmpDedupLoop f r seqs [] (start + 2 * L - 1)
          else
            do se <- (if nm <? nr then
                        do lr <- lastZ reverseMatches;
                        Ok (start + 2 * (L - 1) * nm, start + lr + L)
                      else if (1 <? nm) && (1 <? nm - nr) then
                        do lm <- lastZ matches;
                        Ok (start + 2 * (L - 1) * nr, start + lm + L)
                      else Ok (0, 0));
            let '(sequenceEnd, endPointIdx) := se in
            let i' := endPointIdx - 1 in
            if i' <? 0 then Err IndexOutOfRange   (* ring[i] with a negative i on the next iteration *)
            else kmpDedupLoop f r (seq_insert seqs segment (start, sequenceEnd)) [] i'
      else Ok seqs
  end.

Definition kmpFuel (r : list pt) : nat := 4 * length r + 8.

Definition kmpDeduplicate (r : list pt) : res (list pt) :=
  do seqs <- kmpDedupLoop (kmpFuel r) r [] [] 0;
  removeSequences r seqs.

(** ** splitRing *)

(** the ordered map used as a stack: insertion-ordered association list, oldest first *)
Definition stack := list (Z * list pt).

Fixpoint st_get (s : stack) (k : Z) : option (list pt) :=
  match s with [] => None | (k', v) :: r => if k =? k' then Some v else st_get r k end.

Fixpoint st_set (s : stack) (k : Z) (v : list pt) : stack :=
  match s with
  | [] => [(k, v)]
  | (k', v') :: r => if k =? k' then (k', v) :: r else (k', v') :: st_set r k v
  end.

Definition st_del (s : stack) (k : Z) : stack := filter (fun e => negb (fst e =? k)) s.

Definition st_value (s : stack) (k : Z) : list pt := match st_get s k with Some v => v | None => [] end.

Definition first_last_eq (t : list pt) : res bool :=
  do a <- idx t 0; do b <- idx t (zlen t - 1); Ok (pt_eqb a b).

(** walking back over the older partial rings (r = stack.Newest().Prev() ...): [older] is the
    stack without its newest entry, newest first *)
Fixpoint prependLoop (older : stack) (tempRing : list pt) (toRemove : list Z)
  : res (option (Z * list pt * list Z)) :=
  match older with
  | [] => Ok None
  | (stackIdx, partial) :: rest =>
      do pl <- idx partial (zlen partial - 1);
      do t0 <- idx tempRing 0;
      if pt_eqb pl t0 then
        let toRemove' := toRemove ++ [stackIdx] in
        let tempRing' := partial ++ tl tempRing in
        do closed <- first_last_eq tempRing';
        if closed then Ok (Some (stackIdx, removelast tempRing', toRemove'))
        else prependLoop rest tempRing' toRemove'
      else Ok None
  end.

Definition complete := list (Z * list pt).

Record splitState := mkSplit { sIdx : Z; sStack : stack; sDone : complete }.

Definition splitStep (isMulti : pt -> bool) (n : Z) (st : splitState) (vertexIdx : Z) (vertex : pt)
  : res splitState :=
  let k := sIdx st in
  let plain := (vertexIdx =? 0) || negb (isMulti vertex) in
  let stk1 :=
    if plain then
      match st_get (sStack st) k with
      | None => st_set (sStack st) k []
      | Some p => st_set (sStack st) k (p ++ [vertex])
      end
    else st_set (sStack st) k (st_value (sStack st) k ++ [vertex]) in
  if plain && (vertexIdx <? n - 1) then Ok (mkSplit k stk1 (sDone st))
  else
    let tempRing := st_value stk1 k in
    do closed <- first_last_eq tempRing;
    do sd <- (if closed then Ok (st_del stk1 k, sDone st ++ [(k, removelast tempRing)])
              else
                match rev stk1 with
                | [] => Ok (stk1, sDone st)
                | _newest :: older =>
                    do r <- prependLoop older tempRing [k];
                    match r with
                    | None => Ok (stk1, sDone st)
                    | Some (stackIdx, ringDone, toRemove) =>
                        Ok (fold_left st_del toRemove stk1, sDone st ++ [(stackIdx, ringDone)])
                    end
                end);
    let '(stk2, done2) := sd in
    if vertexIdx <? n - 1 then
      Ok (mkSplit (k + 1) (st_set stk2 (k + 1) (st_value stk2 (k + 1) ++ [vertex])) done2)
    else if (0 <? length stk2)%nat then Err PartialRingsOnStack
    else Ok (mkSplit k stk2 done2).

Fixpoint splitLoop (isMulti : pt -> bool) (n : Z) (st : splitState) (i : Z) (l : list pt) : res splitState :=
  match l with
  | [] => Ok st
  | v :: r => do st' <- splitStep isMulti n st i v; splitLoop isMulti n st' (i + 1) r
  end.

(** completeRings is a Go map: a later ring with the same key overwrites an earlier one; keys sorted *)
Fixpoint insert_sorted (k : Z) (v : list pt) (l : complete) : complete :=
  match l with
  | [] => [(k, v)]
  | (k', v') :: r =>
      if k <? k' then (k, v) :: l
      else if k =? k' then (k, v) :: r
      else (k', v') :: insert_sorted k v r
  end.

Definition sortComplete (c : complete) : complete :=
  fold_left (fun acc e => insert_sorted (fst e) (snd e) acc) c [].

Record ringSets := mkSets { outers : list ring; inners : list ring; pointsAndLines : list ring }.

Definition classify (isOuter : bool) (acc : ringSets) (r : ring) : ringSets :=
  if (length r <? 3)%nat then mkSets (outers acc) (inners acc) (pointsAndLines acc ++ [r])
  else if isOuter then
    if negb (windingOrderIsCorrect r false) then mkSets (outers acc) (inners acc ++ [r]) (pointsAndLines acc)
    else mkSets (outers acc ++ [r]) (inners acc) (pointsAndLines acc)
  else
    if negb (windingOrderIsCorrect r true) then mkSets (outers acc ++ [r]) (inners acc) (pointsAndLines acc)
    else mkSets (outers acc) (inners acc ++ [r]) (pointsAndLines acc).

Definition splitRing (r : ring) (isOuter : bool) (isMulti : pt -> bool) : res ringSets :=
  do r0 <- idx r 0;
  let checkRing := r ++ [r0] in
  do st <- splitLoop isMulti (zlen checkRing) (mkSplit 0 [(0, [])] []) 0 checkRing;
  let sets := fold_left (classify isOuter) (map snd (sortComplete (sDone st))) (mkSets [] [] []) in
  if isOuter && (length (outers sets) =? 0)%nat && (0 <? length (inners sets))%nat then
    Ok (mkSets (map (@rev pt) (inners sets)) [] (pointsAndLines sets))
  else if negb isOuter && (length (inners sets) =? 0)%nat && (0 <? length (outers sets))%nat then
    Ok (mkSets [] (map (@rev pt) (outers sets)) (pointsAndLines sets))
  else Ok sets.

(** ** cleanupNewRing *)
(** a too small ring is a point or a line; an empty ring is nothing at all (F7 repair) *)
Definition asPointOrLine (r : ring) : list ring := match r with [] => [] | _ => [r] end.

(** the loop after kmpDeduplicate: [for len > 1 && ring[0] == ring[len-1] { ring = ring[:len-1] }]
    — the trailing vertices equal to the first one are dropped, the first one stays *)
Fixpoint stripTrailing (a : pt) (t : list pt) : list pt :=
  match t with
  | [] => []
  | b :: t' => match stripTrailing a t' with
               | [] => if pt_eqb a b then [] else [b]
               | s => b :: s
               end
  end.

Definition trimClosing (r : ring) : ring :=
  match r with [] => [] | a :: t => a :: stripTrailing a t end.

Definition cleanupNewRing (newRing : ring) (isOuter : bool) (isMulti : pt -> bool) : res ringSets :=
  let n := length newRing in
  let r1 := match newRing, last_opt newRing with
            | first :: _, Some l => if (1 <? n)%nat && pt_eqb first l then removelast newRing else newRing
            | _, _ => newRing
            end in
  if (length r1 <? 3)%nat then Ok (mkSets [] [] (asPointOrLine r1))
  else
    do r2' <- kmpDeduplicate r1;
    let r2 := trimClosing r2' in
    if (length r2 <? 3)%nat then Ok (mkSets [] [] (asPointOrLine r2))
    else splitRing r2 isOuter isMulti.

(** ** dedupeInnersOuters *)
Definition ringsAreEqual (ringI ringJ : ring) (iIsOuter jIsOuter : bool) : res bool :=
  let n := zlen ringI in
  if negb (n =? zlen ringJ) then Ok false
  else
    do i0 <- idx ringI 0;
    let fix index (l : list pt) (k : Z) : Z :=
        match l with [] => -1 | p :: r => if pt_eqb p i0 then k else index r (k + 1) end in
    let ix := index ringJ 0 in
    if ix <? 0 then Ok false
    else
      let differentWindingOrder := iIsOuter && negb jIsOuter in
      let fix loop (l : list pt) (k : Z) : res bool :=
          match l with
          | [] => Ok true
          | p :: r =>
              do q <- idx ringJ (if differentWindingOrder then (ix + n - k) mod n else (ix + k) mod n);
              if pt_eqb p q then loop r (k + 1) else Ok false
          end in
      loop ringI 0.

Definition mem_Z (z : Z) (l : list Z) : bool := existsb (Z.eqb z) l.

(** one outer iteration (index i) of dedupeInnersOuters *)
Definition dedupeStep (outs ins : list ring) (st : list Z * list Z) (i : Z) : res (list Z * list Z) :=
  let '(processed, toDelete) := st in
  let lenOuters := zlen outs in
  let lenAll := lenOuters + zlen ins in
  if mem_Z i processed then Ok st
  else
    let ringOf j := if j <? lenOuters then idx outs j else idx ins (j - lenOuters) in
    let iIsOuter := i <? lenOuters in
    do ringI <- ringOf i;
    do equals <- foldM (fun acc j =>
                    if mem_Z j processed then Ok acc
                    else do ringJ <- ringOf j;
                         do e <- ringsAreEqual ringI ringJ iIsOuter (j <? lenOuters);
                         Ok (if e then acc ++ [(j, j <? lenOuters)] else acc))
                  (map (fun k => i + 1 + Z.of_nat k) (seq 0 (Z.to_nat (lenAll - i - 1))))
                  [(i, iIsOuter)];
    if (length equals <=? 1)%nat then Ok st
    else
      let nO := zlen (filter (fun e => snd e) equals) in
      let nI := zlen (filter (fun e => negb (snd e)) equals) in
      let delO0 := if nO =? nI then nO - 1 else Z.min nO nI in
      let delI0 := if nO =? nI then nI - 1 else Z.min nO nI in
      let '(p', d', _, _) :=
        fold_left (fun (acc : list Z * list Z * Z * Z) (e : Z * bool) =>
                     let '(p, d, dO, dI) := acc in
                     if snd e && (0 <? dO) then (p ++ [fst e], d ++ [fst e], dO - 1, dI)
                     else if negb (snd e) && (0 <? dI) then (p ++ [fst e], d ++ [fst e], dO, dI - 1)
                     else (p ++ [fst e], d, dO, dI))
                  equals (processed, toDelete, delO0, delI0) in
      Ok (p', d').

Fixpoint filter_idx {A} (l : list A) (k : Z) (del : list Z) : list A :=
  match l with
  | [] => []
  | a :: r => if mem_Z k del then filter_idx r (k + 1) del else a :: filter_idx r (k + 1) del
  end.

Definition dedupeInnersOuters (outs ins : list ring) : res (list ring * list ring) :=
  let lenAll := zlen outs + zlen ins in
  do st <- foldM (dedupeStep outs ins) (map Z.of_nat (seq 0 (Z.to_nat lenAll))) ([], []);
  let del := snd st in
  Ok (filter_idx outs 0 del, filter_idx ins (zlen outs) del).

(** ** ringContains / RayIntersect (exact; the Nextafter nudge is an infinitesimal shift to the right) *)
Definition rayIntersect (p s e : pt) : bool * bool :=
  let '(s, e) := if fst e <? fst s then (e, s) else (s, e) in
  let px := fst p in let py := snd p in
  let sx := fst s in let sy := snd s in
  let ex := fst e in let ey := snd e in
  (* phase 1: exact hits and the decision to nudge *)
  let early : option (bool * bool) * bool :=
    if px =? sx then
      if py =? sy then (Some (false, true), false)
      else if (sx =? ex) && (((ey <? sy) && (py <=? sy) && (ey <=? py)) || ((sy <? ey) && (py <=? ey) && (sy <=? py)))
           then (Some (false, true), false)
           else (None, true)
    else if px =? ex then
      if py =? ey then (Some (false, true), false) else (None, true)
    else (None, false) in
  match early with
  | (Some r, _) => r
  | (None, nudged) =>
      let outsideX := if nudged then (px <? sx) || (ex <=? px) else (px <? sx) || (ex <? px) in
      if outsideX then (false, false)
      else
        let '(ylo, yhi) := if ey <? sy then (ey, sy) else (sy, ey) in
        if yhi <? py then (false, false)
        else if py <? ylo then (true, false)
        else if nudged then (py <? sy, false)    (* rs = (py - sy) / epsilon = -inf or +inf *)
        else
          let lhs := (py - sy) * (ex - sx) in
          let rhs := (ey - sy) * (px - sx) in
          if lhs =? rhs then (false, true) else (lhs <=? rhs, false)
  end.

Definition ringContains (r : ring) (p : pt) : res (bool * bool) :=
  do first <- idx r 0;
  do lst <- idx r (zlen r - 1);
  let '(c0, on0) := rayIntersect p first lst in
  if on0 then Ok (true, true)
  else
    let fix loop (l : list pt) (c : bool) : bool * bool :=
        match l with
        | a :: ((b :: _) as r') =>
            let '(x, on) := rayIntersect p a b in
            if on then (true, true) else loop r' (if x then negb c else c)
        | _ => (c, false)
        end in
    Ok (loop r c0).

(** ** matchInnersToPolygons *)
Definition polygon := list ring.

(** ordered map polyI -> count (insertion ordered) *)
Fixpoint om_incr (m : list (Z * Z)) (k : Z) : list (Z * Z) :=
  match m with
  | [] => [(k, 1)]
  | (k', v) :: r => if k =? k' then (k', v + 1) :: r else (k', v) :: om_incr r k
  end.

(** FindLastKeyWithMaxValue: number of keys holding the maximum, and one of them *)
Definition maxWinners (m : list (Z * Z)) : Z * Z :=
  match rev m with
  | [] => (0, 0)
  | (k0, v0) :: r =>
      let '(k, v, n) := fold_left (fun (acc : Z * Z * Z) (e : Z * Z) =>
                                    let '(k, v, n) := acc in
                                    if v <? snd e then (fst e, snd e, 1)
                                    else if snd e =? v then (k, v, n + 1) else acc) r (k0, v0, 1) in
      (k, n)
  end.

Definition absArea2 (r : ring) : Z := Z.abs (xprod r).

(** sortPolyIdxsByOuterAreaDesc with go-sortedmap's insertion rule (descending, equal values after) *)
Fixpoint area_place (l : list (Z * Z)) (k a : Z) : list (Z * Z) :=
  match l with
  | [] => [(k, a)]
  | (k', a') :: r => if a' <? a then (k, a) :: l else (k', a') :: area_place r k a
  end.

Definition sortPolyIdxsByOuterAreaDesc (polys : list polygon) : list Z :=
  let fix go (l : list polygon) (k : Z) (acc : list (Z * Z)) :=
      match l with
      | [] => acc
      | p :: r => go r (k + 1) (area_place acc k (match p with [] => 0 | o :: _ => absArea2 o end))
      end in
  map fst (go polys 0 []).

Definition lastMatch (haystack needle : list Z) : Z :=
  match filter (fun h => mem_Z h needle) (rev haystack) with h :: _ => h | [] => 0 end.

Fixpoint append_inner (polys : list polygon) (k : Z) (inner : ring) : list polygon :=
  match polys with
  | [] => []
  | p :: r => if k =? 0 then (p ++ [inner]) :: r else p :: append_inner r (k - 1) inner
  end.

(** cancelledBy (repair of F16): polygon index -> index of the FIRST inner ring that is equal to the polygon's outer ring
    (ringsAreEqual outer inner true false: same points, opposite direction).  The outer ring is read inside the loop over
    the inner rings, as in the code (a polygon without rings panics only when there is an inner ring to compare with). *)
Fixpoint firstEqualInner (p : polygon) (innerRings : list ring) (j : Z) : res (option Z) :=
  match innerRings with
  | [] => Ok None
  | inner :: rest =>
      do outer <- idx p 0;
      do e <- ringsAreEqual outer inner true false;
      if e then Ok (Some j) else firstEqualInner p rest (j + 1)
  end.

Fixpoint cancelledByFrom (polys : list polygon) (innerRings : list ring) (k : Z) : res (list (Z * Z)) :=
  match polys with
  | [] => Ok []
  | p :: rest =>
      do t <- firstEqualInner p innerRings 0;
      do m <- cancelledByFrom rest innerRings (k + 1);
      Ok (match t with Some j => (k, j) :: m | None => m end)
  end.

Definition cancelledBy (polys : list polygon) (innerRings : list ring) : res (list (Z * Z)) :=
  cancelledByFrom polys innerRings 0.

Fixpoint cb_find (m : list (Z * Z)) (k : Z) : option Z :=
  match m with
  | [] => None
  | (k', v) :: r => if k =? k' then Some v else cb_find r k
  end.

(** [if twinI, cancelled := cancelledBy[polyI]; cancelled && twinI != innerI { continue }] *)
Definition skipCancelled (cancelled : list (Z * Z)) (polyI innerI : Z) : bool :=
  match cb_find cancelled polyI with Some twinI => negb (twinI =? innerI) | None => false end.

(** per vertex: add the containing polygons (a cancelled polygon only for its twin), then look for a single winner *)
Fixpoint matchVertices (cancelled : list (Z * Z)) (innerI : Z) (polys : list polygon) (verts : list pt)
                       (counts : list (Z * Z)) : res (option Z * list (Z * Z)) :=
  match verts with
  | [] => Ok (None, counts)
  | v :: r =>
      do counts' <- (let fix go (l : list polygon) (k : Z) (c : list (Z * Z)) : res (list (Z * Z)) :=
                         match l with
                         | [] => Ok c
                         | p :: rest =>
                             if skipCancelled cancelled k innerI then go rest (k + 1) c
                             else
                               do outer <- idx p 0;
                               do cb <- ringContains outer v;
                               go rest (k + 1) (if fst cb then om_incr c k else c)
                         end in go polys 0 counts);
      let '(k, n) := maxWinners counts' in
      if n =? 1 then Ok (Some k, counts') else matchVertices cancelled innerI polys r counts'
  end.

Fixpoint matchInnersLoop (cancelled : list (Z * Z)) (innerI : Z) (polys : list polygon) (innerRings : list ring)
                         (sorted : option (list Z)) (turned : list ring) : res (list polygon * list ring) :=
  match innerRings with
  | [] => Ok (polys, turned)
  | inner :: rest =>
      do m <- matchVertices cancelled innerI polys inner [];
      match m with
      | (Some k, _) => matchInnersLoop cancelled (innerI + 1) (append_inner polys k inner) rest sorted turned
      | (None, counts) =>
          if (length counts =? 0)%nat then matchInnersLoop cancelled (innerI + 1) polys rest sorted (turned ++ [rev inner])
          else
            let srt := match sorted with Some s => s | None => sortPolyIdxsByOuterAreaDesc polys end in
            let k := lastMatch srt (map fst counts) in
            matchInnersLoop cancelled (innerI + 1) (append_inner polys k inner) rest (Some srt) turned
      end
  end.

Definition matchInnersToPolygons (polys : list polygon) (innerRings : list ring) : res (list polygon) :=
  match innerRings with
  | [] => Ok polys
  | _ =>
      do cancelled <- cancelledBy polys innerRings;
      do r <- matchInnersLoop cancelled 0 polys innerRings None [];
      Ok (fst r ++ map (fun t => [t]) (snd r))
  end.

(** ** addPointsAndSnap, for ONE level (levels do not interact: C08) *)
Record config := mkConfig { keepPointsAndLines : bool; ignoreOutsideGrid : bool; reverseWindingOrder : bool }.

(** routing one ring: every edge through SnapClosestPoints + cleanupNewVertices *)
Fixpoint routeRing (g : grid) (hots : list (list (Z * Z))) (L : nat) (ringId : nat)
                   (first : pt) (verts : list pt) (st : hits) (newRing : list pt) : res (list pt * hits) :=
  match verts with
  | [] => Ok (newRing, st)
  | v :: r =>
      let next := match r with [] => first | w :: _ => w end in
      let '(pts, st') := snapAndHit g hots st v next L ringId in
      do cleaned <- cleanupNewVertices pts (last_opt newRing);
      routeRing g hots L ringId first r st' (newRing ++ cleaned)
  end.

Definition isMultiFor (st : hits) (ringId : nat) (p : pt) : bool :=
  mem_nat ringId (hm_get (hitMultiple st) p).

Record levelAcc := mkAcc { aAlive : bool; aHits : hits; aOuters : list ring; aInners : list ring; aPL : list ring }.

Definition ringStep (g : grid) (hots : list (list (Z * Z))) (L : nat) (cfg : config)
                    (acc : levelAcc) (ringIdx : nat) (r : ring) : res levelAcc :=
  if negb (aAlive acc) then Ok acc
  else
    let isOuter := Nat.eqb ringIdx 0 in
    let r' := ensureCorrectWindingOrder r (negb isOuter) in
    do routed <- match r' with
                 | [] => Ok ([], aHits acc)
                 | first :: _ => routeRing g hots L ringIdx first r' (aHits acc) []
                 end;
    let '(newRing, st) := routed in
    do sets <- cleanupNewRing newRing isOuter (isMultiFor st ringIdx);
    if isOuter && (length (outers sets) =? 0)%nat
       && (negb (keepPointsAndLines cfg) || (length (pointsAndLines sets) =? 0)%nat)
    then Ok (mkAcc false st (aOuters acc) (aInners acc) (aPL acc))
    else Ok (mkAcc true st (aOuters acc ++ outers sets) (aInners acc ++ inners sets)
                   (if keepPointsAndLines cfg then aPL acc ++ pointsAndLines sets else aPL acc)).

Fixpoint ringsLoop (g : grid) (hots : list (list (Z * Z))) (L : nat) (cfg : config)
                   (acc : levelAcc) (ringIdx : nat) (P : list ring) : res levelAcc :=
  match P with
  | [] => Ok acc
  | r :: rest => do acc' <- ringStep g hots L cfg acc ringIdx r; ringsLoop g hots L cfg acc' (S ringIdx) rest
  end.

(** result for one level: [None] = the level is absent from the returned map *)
Definition snapLevel (g : grid) (hots : list (list (Z * Z))) (P : list ring) (cfg : config) (L : nat)
  : res (option (list polygon)) :=
  do acc <- ringsLoop g hots L cfg (mkAcc true (mkHits [] []) [] [] []) 0 P;
  do polys <- (if aAlive acc then
                 do oi <- dedupeInnersOuters (aOuters acc) (aInners acc);
                 do ps <- matchInnersToPolygons (map (fun o => [o]) (fst oi)) (snd oi);
                 Ok (if reverseWindingOrder cfg then map (map (@rev pt)) ps else ps)
               else Ok []);
  let all := polys ++ map (fun pl => [pl]) (aPL acc) in
  Ok (match all with [] => None | _ => Some all end).

(** ** SnapPolygon: keyed by the requested levels *)
Definition snapPolygon (g : grid) (P : list ring) (levels : list nat) (cfg : config)
  : res (list (nat * list polygon)) :=
  match insertPolygon g P with
  | Err OutsideGrid => if ignoreOutsideGrid cfg then Ok [] else Err OutsideGrid
  | Err e => Err e
  | Ok hs =>
      let hots := hotLevels g hs in
      do rs <- mapM (fun L => do r <- snapLevel g hots P cfg L; Ok (L, r)) levels;
      Ok (flat_map (fun lr => match snd lr with Some ps => [(fst lr, ps)] | None => [] end) rs)
  end.
