(** * The Morton-key limit is dead code for deepest levels up to 32; above, in-grid polygons panic (F11). *)
From Coq Require Import ZArith List Bool Lia.
From Texel Require Import Prelude.Base Index.Model Index.ProofsInsert Snap.Model Snap.ModelFull.
Import ListNotations.
Open Scope Z_scope.

Lemma pow2_le_keyLimit n : (n <= 32)%nat -> pow2 n <= keyLimit.
Proof. intro H. unfold pow2, keyLimit. apply Z.pow_le_mono_r; lia. Qed.

Lemma insertPointFull_eq g hs p : (gdeep g <= 32)%nat -> insertPointFull g hs p = insertPoint g hs p.
Proof.
  intro Hd. unfold insertPointFull, insertPoint. destruct (gres g =? 0); [reflexivity |].
  destruct (inGridCoord g (deepestCoord g p)) eqn:E; [| reflexivity].
  unfold inGridCoord in E. apply negb_true_iff in E. rewrite !orb_false_iff, !Z.ltb_ge in E.
  pose proof (pow2_le_keyLimit (gdeep g) Hd) as Hk. unfold gsize in E.
  replace (keyLimit <=? fst (deepestCoord g p)) with false by (symmetry; apply Z.leb_gt; lia).
  replace (keyLimit <=? snd (deepestCoord g p)) with false by (symmetry; apply Z.leb_gt; lia).
  reflexivity.
Qed.

Lemma foldM_ext {A S} (f f' : S -> A -> res S) l : (forall s a, f s a = f' s a) -> forall s, foldM f l s = foldM f' l s.
Proof. intro H. induction l as [| a l IH]; intro s; cbn [foldM]; [reflexivity |]. rewrite H. destruct (f' s a); cbn [bind]; auto. Qed.

Theorem snapPolygonFull_eq g P levels cfg : (gdeep g <= 32)%nat ->
  snapPolygonFull g P levels cfg = snapPolygon g P levels cfg.
Proof.
  intro Hd. unfold snapPolygonFull, snapPolygon, insertPolygonFull, insertPolygon.
  rewrite (foldM_ext (insertPointFull g) (insertPoint g) (concat P) (fun s a => insertPointFull_eq g s a Hd)).
  reflexivity.
Qed.

(** F11 at model level: a grid of deepest level 33 (NZTM2000Quad tile matrix 21) and a triangle whose vertices
    all lie INSIDE the grid; SnapPolygon panics with "cannot make Z". *)
Definition gNZTM21 : grid :=
  mkGrid (mkExtent (-32605867284000000) 4194359938054120 67581674429945888 104381901652000000) 11663364 33.

Theorem deep_level_refuted : exists g P levels cfg,
  0 < gres g /\ Forall (insideGrid g) (concat P) /\ snapPolygonFull g P levels cfg = Err MustToZ.
Proof.
  exists gNZTM21,
         [[(36112385343241952, 12262615563838380); (36112385312671728, 12262615568594934); (36112385280703960, 12262615561603670)]],
         [33%nat], (mkConfig false false false).
  split; [reflexivity |]. split.
  - repeat constructor; vm_compute; intuition discriminate.
  - vm_compute. reflexivity.
Qed.
