(** * [kmp_short_nodup] is FALSE of kmpDeduplicate: it can return the two-vertex "line" [p; p] (finding F14).

    The premise that the C05 theorems used to carry,
      [forall r r', no_adj_dup r -> kmpDeduplicate r = Ok r' -> (length r' < 3)%nat -> NoDup r'],
    is refuted by a chain of 75 vertices over three pixel centres without two equal cyclic neighbours
    ([w75], found by a search on the Go code through the hook [snap.VerifKmpDeduplicate]; before the repair
    [snap.SnapPolygon] with keep-points-and-lines returned the polygon [[ring75]] on a 16 x 16 grid as the
    single "line" [(8.5 8.5) (8.5 8.5)]).

    Mechanism (two detections, [kmpDedupLoop] records [(0, 40)] and [(41, 74)]):
    - the first step back is found at i = 6 with the segment r[0..6) = B A C B A C; its reverse occurs
      MORE often than the segment (4 against 5 reported matches), so the [default:] branch records the
      range [start, start + 2 (L-1) * len matches) = [0, 40) but resumes at
      [start + reverseMatches[last] + L - 1 = 35], FIVE positions before the end of that range (the same
      overshoot as finding F13);
    - scanning resumes inside the range that is going to be deleted; the next detection (segment
      r[36..39) = C A B, equally many matches of the segment and of its reverse: "multiple backtrace")
      keeps [segment ++ reverse] = r[36..41) and records [41, 74); r[36..40) lies inside the first range,
      so of the five kept vertices only r[40] = C survives — together with the tail r[74] = C.
    Nothing is kept between two vertices that were never neighbours: output [C; C].
    With the same overshoot the spike removal can delete EVERY vertex ([kmp_empty_output]).

    REPAIR (fix commit in /repo, mirrored in Snap/Model.v [trimClosing]): cleanupNewRing drops the closing
    vertex again AFTER kmpDeduplicate, in a loop ([for len > 1 && ring[0] == ring[len-1]]): what reaches
    asPointOrLine then has one vertex or two different ones BY CONSTRUCTION (ProofsLevel.trimClosing_short_NoDup),
    whatever kmpDeduplicate returns — a single [if] would leave [a; a] from an output [a; a; a], which nothing
    proved about kmpDeduplicate excludes.  The statements about kmpDeduplicate below remain true; the
    end-to-end witness is kept as a regression ([F14_regression]). *)
From Coq Require Import ZArith List Bool Lia.
From Texel Require Import Prelude.Base Index.Model Snap.Model Snap.ProofsBasics
  Snap.ProofsKmpSearch Snap.ProofsKmpEnum.
Import ListNotations.
Open Scope Z_scope.

(** ** a boolean test for "no two equal cyclic neighbours" *)
Definition no_adj_dupb (r : ring) : bool :=
  forallb (fun e : pt * pt => negb (pt_eqb (fst e) (snd e))) (dedges r).

Lemma no_adj_dupb_spec r : no_adj_dupb r = true -> no_adj_dup r.
Proof.
  unfold no_adj_dupb, no_adj_dup. intros H a b Hin E. rewrite forallb_forall in H.
  specialize (H (a, b) Hin). cbn [fst snd] in H. subst b. rewrite pt_eqb_refl in H. discriminate.
Qed.

(** ** the witness: letters 0 1 2 = A B C = (0,0) (1,0) (1,1) *)
Definition w75 : list nat :=
  [1;0;2;1;0;2;0;1;2;0;1;2;0;1;2;0;1;0;2;0;1;2;0;1;2;0;1;2;0;1;2;0;1;2;0;1;2;0;1;0;
   2;0;1;0;2;1;0;2;0;1;0;1;2;0;1;0;2;1;0;2;0;1;0;2;1;0;2;0;1;2;1;2;0;1;2]%nat.

Lemma w75_shape : length w75 = 75%nat /\ Forall (fun a => (a < 3)%nat) w75 /\ no_adj_dup (chain w75).
Proof.
  split; [reflexivity |]. split.
  - apply Forall_forall. intros a Ha. vm_compute in Ha.
    repeat (destruct Ha as [<- | Ha]; [lia |]). destruct Ha.
  - apply no_adj_dupb_spec. vm_compute. reflexivity.
Qed.

(** what the loop records, and what RemoveSequences makes of it *)
Lemma w75_ranges :
  kmpDedupLoop (kmpFuel (chain w75)) (chain w75) [] [] 0 =
    Ok [([(1, 0); (0, 0); (1, 1); (1, 0); (0, 0); (1, 1)], (0, 40)); ([(1, 1); (0, 0); (1, 0)], (41, 74))].
Proof. vm_compute. reflexivity. Qed.

Lemma w75_output : kmpDeduplicate (chain w75) = Ok [(1, 1); (1, 1)].
Proof. vm_compute. reflexivity. Qed.

Theorem kmp_short_nodup_refuted : exists r r',
  no_adj_dup r /\ (3 <= length r)%nat /\ kmpDeduplicate r = Ok r' /\ (length r' < 3)%nat /\ ~ NoDup r'.
Proof.
  exists (chain w75), [(1, 1); (1, 1)].
  split; [apply w75_shape |]. split; [vm_compute; lia |]. split; [exact w75_output |].
  split; [cbn [length]; lia |].
  intro ND. inversion ND as [| x l Hn _]. subst. apply Hn. left. reflexivity.
Qed.

(** ... so the premise as it was stated for all rings could not be assumed: a theorem that carried it was vacuous *)
Corollary kmp_short_nodup_premise_false :
  ~ (forall r r', no_adj_dup r -> kmpDeduplicate r = Ok r' -> (length r' < 3)%nat -> NoDup r').
Proof.
  intro H. destruct kmp_short_nodup_refuted as (r & r' & Hn & _ & Hk & Hl & Hnd). exact (Hnd (H r r' Hn Hk Hl)).
Qed.

(** ** every vertex deleted: a chain of 80 vertices over three centres is reduced to the empty ring *)
Definition w80 : list nat :=
  [2;3;0;2;3;0;3;2;0;3;2;0;3;2;0;3;2;0;3;2;0;3;2;0;3;2;0;3;2;0;3;2;0;3;2;3;0;2;3;0;
   3;2;0;2;0;3;0;3;2;0;2;0;3;0;2;3;2;3;0;2;3;0;2;3;0;2;3;0;3;2;0;2;3;2;3;2;0;2;3;0]%nat.

Theorem kmp_empty_output : exists r,
  no_adj_dup r /\ (3 <= length r)%nat /\ kmpDeduplicate r = Ok [] /\
  kmpDedupLoop (kmpFuel r) r [] [] 0 =
    Ok [([(1, 1); (0, 1); (0, 0); (1, 1); (0, 1); (0, 0)], (0, 40)); ([(0, 0); (1, 1); (0, 1); (0, 0)], (40, 80))].
Proof.
  exists (chain w80). split; [apply no_adj_dupb_spec; vm_compute; reflexivity |].
  split; [vm_compute; lia |]. split; vm_compute; reflexivity.
Qed.

(** ** end to end, regression of F14: 16 x 16 pixels of size 2; A = (9,9) B = (17,9) C = (17,17) are pixel
       centres.  The ring that used to come back as the line [(17,17); (17,17)] collapses to the point (17,17),
       returned with keep-points-and-lines and dropped without. *)
Definition g16 : grid := mkGrid (mkExtent 0 0 32 32) 2 4.
Definition Q3 (n : nat) : pt := match n with 0%nat => (9, 9) | 1%nat => (17, 9) | _ => (17, 17) end.
Definition ring75 : ring := map Q3 w75.

Example F14_regression :
  snapPolygon g16 [ring75] [4%nat] (mkConfig true false false) = Ok [(4%nat, [[[(17, 17)]]])] /\
  snapPolygon g16 [ring75] [4%nat] (mkConfig false false false) = Ok [] /\
  cleanupNewRing (chain w75) true (fun _ => true) = Ok (mkSets [] [] [[(1, 1)]]) /\
  cleanupNewRing (chain w80) true (fun _ => true) = Ok (mkSets [] [] []).
Proof. vm_compute. repeat split; reflexivity. Qed.

Print Assumptions kmp_short_nodup_refuted.
Print Assumptions kmp_short_nodup_premise_false.
Print Assumptions kmp_empty_output.
