(** * [kmp_short_nodup] is FALSE: kmpDeduplicate can return the two-vertex "line" [p; p].

    The premise that the C05 theorems carried,
      [forall r r', no_adj_dup r -> kmpDeduplicate r = Ok r' -> (length r' < 3)%nat -> NoDup r'],
    is refuted by a chain of 75 vertices over three pixel centres without two equal cyclic neighbours
    ([w75], found by a search on the Go code through the hook [snap.VerifKmpDeduplicate], replayed on
    [snap.SnapPolygon]: with keep-points-and-lines the polygon [[ring75]] on a 16 x 16 grid is returned
    as the single "line" [(8.5 8.5) (8.5 8.5)]).

    Mechanism (two detections, [kmpDedupLoop] records [(0, 40)] and [(41, 74)]):
    - the first step back is found at i = 6 with the segment r[0..6) = B A C B A C; its reverse occurs
      MORE often than the segment (4 against 5 reported matches), so the [default:] branch records the
      range [start, start + 2 (L-1) * len matches) = [0, 40) but resumes at
      [start + reverseMatches[last] + L - 1 = 35], FIVE positions before the end of that range (the same
      overshoot as finding F13);
    - scanning resumes inside the range that is going to be deleted; the next detection (segment
      r[36..39) = C A B, equally many matches of the segment and of its reverse: "multiple backtrace")
      keeps [segment ++ reverse] = r[36..41) and records [41, 74); r[36..40) lies inside the first range,
      so of the five kept vertices only r[40] = C survives — together with the tail r[74] = C.
    Nothing is kept between two vertices that were never neighbours: output [C; C].

    With the same overshoot the spike removal can delete EVERY vertex ([kmp_empty_output]). *)
From Coq Require Import ZArith List Bool Lia.
From Texel Require Import Prelude.Base Index.Model Index.ProofsRouting Snap.Model Snap.ProofsBasics
  Snap.ProofsSplit Snap.ProofsSplitThms Snap.ProofsKmpSearch Snap.ProofsKmpEnum Snap.ProofsLevelRoute
  Snap.ProofsLevel Snap.ProofsLevelThms Snap.ProofsLevelC07 Snap.ProofsLevelJoin Snap.ProofsJoinC05.
Import ListNotations.
Open Scope Z_scope.

(** ** a boolean test for "no two equal cyclic neighbours" *)
Definition no_adj_dupb (r : ring) : bool :=
  forallb (fun e : pt * pt => negb (pt_eqb (fst e) (snd e))) (dedges r).

Lemma no_adj_dupb_spec r : no_adj_dupb r = true -> no_adj_dup r.
Proof.
  unfold no_adj_dupb, no_adj_dup. intros H a b Hin E. rewrite forallb_forall in H.
  specialize (H (a, b) Hin). cbn [fst snd] in H. subst b. rewrite pt_eqb_refl in H. discriminate.
Qed.

(** ** the witness: letters 0 1 2 = A B C = (0,0) (1,0) (1,1) *)
Definition w75 : list nat :=
  [1;0;2;1;0;2;0;1;2;0;1;2;0;1;2;0;1;0;2;0;1;2;0;1;2;0;1;2;0;1;2;0;1;2;0;1;2;0;1;0;
   2;0;1;0;2;1;0;2;0;1;0;1;2;0;1;0;2;1;0;2;0;1;0;2;1;0;2;0;1;2;1;2;0;1;2]%nat.

Lemma w75_shape : length w75 = 75%nat /\ Forall (fun a => (a < 3)%nat) w75 /\ no_adj_dup (chain w75).
Proof.
  split; [reflexivity |]. split.
  - apply Forall_forall. intros a Ha. vm_compute in Ha.
    repeat (destruct Ha as [<- | Ha]; [lia |]). destruct Ha.
  - apply no_adj_dupb_spec. vm_compute. reflexivity.
Qed.

(** what the loop records, and what RemoveSequences makes of it *)
Lemma w75_ranges :
  kmpDedupLoop (kmpFuel (chain w75)) (chain w75) [] [] 0 =
    Ok [([(1, 0); (0, 0); (1, 1); (1, 0); (0, 0); (1, 1)], (0, 40)); ([(1, 1); (0, 0); (1, 0)], (41, 74))].
Proof. vm_compute. reflexivity. Qed.

Lemma w75_output : kmpDeduplicate (chain w75) = Ok [(1, 1); (1, 1)].
Proof. vm_compute. reflexivity. Qed.

Theorem kmp_short_nodup_refuted : exists r r',
  no_adj_dup r /\ (3 <= length r)%nat /\ kmpDeduplicate r = Ok r' /\ (length r' < 3)%nat /\ ~ NoDup r'.
Proof.
  exists (chain w75), [(1, 1); (1, 1)].
  split; [apply w75_shape |]. split; [vm_compute; lia |]. split; [exact w75_output |].
  split; [cbn [length]; lia |].
  intro ND. inversion ND as [| x l Hn _]. subst. apply Hn. left. reflexivity.
Qed.

(** ... so the premise as it was stated for all rings cannot be assumed: a theorem that carries it is vacuous *)
Corollary kmp_short_nodup_premise_false :
  ~ (forall r r', no_adj_dup r -> kmpDeduplicate r = Ok r' -> (length r' < 3)%nat -> NoDup r').
Proof.
  intro H. destruct kmp_short_nodup_refuted as (r & r' & Hn & _ & Hk & Hl & Hnd). exact (Hnd (H r r' Hn Hk Hl)).
Qed.

(** ** every vertex deleted: a chain of 80 vertices over three centres is reduced to the empty ring *)
Definition w80 : list nat :=
  [2;3;0;2;3;0;3;2;0;3;2;0;3;2;0;3;2;0;3;2;0;3;2;0;3;2;0;3;2;0;3;2;0;3;2;3;0;2;3;0;
   3;2;0;2;0;3;0;3;2;0;2;0;3;0;2;3;2;3;0;2;3;0;2;3;0;2;3;0;3;2;0;2;3;2;3;2;0;2;3;0]%nat.

Theorem kmp_empty_output : exists r,
  no_adj_dup r /\ (3 <= length r)%nat /\ kmpDeduplicate r = Ok [] /\
  kmpDedupLoop (kmpFuel r) r [] [] 0 =
    Ok [([(1, 1); (0, 1); (0, 0); (1, 1); (0, 1); (0, 0)], (0, 40)); ([(0, 0); (1, 1); (0, 1); (0, 0)], (40, 80))].
Proof.
  exists (chain w80). split; [apply no_adj_dupb_spec; vm_compute; reflexivity |].
  split; [vm_compute; lia |]. split; vm_compute; reflexivity.
Qed.

(** ** end to end, at the level of snapPolygon: the conclusion of [C05_rings_well_formed] fails on an
       in-grid ring for which every OTHER hypothesis of [snap_rings_well_formed] and of
       [snap_rings_well_formed_closed] holds (grid with positive resolution whose extent covers its
       pixels, requested level within the index, insertPolygon succeeds, routing premises true).
       16 x 16 pixels of size 2; A = (9,9) B = (17,9) C = (17,17) are pixel centres. *)
Definition g16 : grid := mkGrid (mkExtent 0 0 32 32) 2 4.
Definition Q3 (n : nat) : pt := match n with 0%nat => (9, 9) | 1%nat => (17, 9) | _ => (17, 17) end.
Definition ring75 : ring := map Q3 w75.

Lemma ring75_snapped :
  snapPolygon g16 [ring75] [4%nat] (mkConfig true false false) = Ok [(4%nat, [[[(17, 17); (17, 17)]]])].
Proof. vm_compute. reflexivity. Qed.

Theorem snap_repeat_free_refuted : exists g P levels cfg r hs,
  0 < gres g /\ RootCovers g /\ (forall L, In L levels -> (L <= gdeep g)%nat) /\
  insertPolygon g P = Ok hs /\
  (forall L idx r0, In L levels -> nth_error P idx = Some r0 ->
     routing_ok g (hotLevels g hs) L (ensureCorrectWindingOrder r0 (negb (Nat.eqb idx 0)))) /\
  snapPolygon g P levels cfg = Ok r /\
  exists L ps poly x, In (L, ps) r /\ In poly ps /\ In x poly /\ ~ NoDup x.
Proof.
  destruct (insertPolygon g16 [ring75]) as [hs |] eqn:E; [| vm_compute in E; discriminate].
  exists g16, [ring75], [4%nat], (mkConfig true false false), [(4%nat, [[[(17, 17); (17, 17)]]])], hs.
  split; [reflexivity |]. split; [vm_compute; repeat split; discriminate |].
  split; [intros L [<- | []]; cbn [gdeep g16]; lia |].
  split; [exact E |]. split.
  - apply all_routing_okb_sound. vm_compute in E. inversion E. vm_compute. reflexivity.
  - split; [exact ring75_snapped |].
    exists 4%nat, [[[(17, 17); (17, 17)]]], [[(17, 17); (17, 17)]], [(17, 17); (17, 17)].
    split; [left; reflexivity |]. split; [left; reflexivity |]. split; [left; reflexivity |].
    intro ND. inversion ND as [| x l Hn _]. subst. apply Hn. left. reflexivity.
Qed.

(** ** what IS true without any premise about kmpDeduplicate: a returned ring visits no vertex twice,
       or it is such a two-vertex line [p; p].  (Rings of three or more vertices come out of splitRing,
       one-vertex rings are trivially repeat-free; only the two-vertex output of kmpDeduplicate is
       not controlled.) *)
Definition nodup_or_pp (x : ring) : Prop := NoDup x \/ exists p, x = [p; p].

Lemma nodup_or_pp_rev x : nodup_or_pp x -> nodup_or_pp (rev x).
Proof. intros [H | [p ->]]; [left; apply NoDup_rev, H | right; exists p; reflexivity]. Qed.

Lemma short_nodup_or_pp (x : ring) : (length x < 3)%nat -> nodup_or_pp x.
Proof.
  destruct x as [| a [| b [| c t]]]; cbn [length]; intro Hl; try lia.
  - left. constructor.
  - left. constructor; [intros [] | constructor].
  - destruct (pt_dec a b) as [-> | N]; [right; exists b; reflexivity |].
    left. constructor; [intros [E | []]; congruence | constructor; [intros [] | constructor]].
Qed.

Theorem cleanup_repeat_free_partial nr o m sets :
  no_adj_lin nr ->
  (forall p, (2 <= count_occ pt_dec (dropClosing nr) p)%nat -> m p = true) ->
  cleanupNewRing nr o m = Ok sets -> Forall nodup_or_pp (rings_of_sets sets).
Proof.
  intros Hn Hfl H. rewrite Forall_forall.
  destruct (cleanup_cases _ _ _ _ H) as [[Hl ->] | [r2 [Hl [Hk [[Hl2 ->] | [_ Hs]]]]]]; intros x Hx.
  - apply small_sets_rings in Hx. destruct Hx as [-> _]. left.
    apply dropClosing_no_adj_lin in Hn. destruct (dropClosing nr) as [| a [| b [| c t]]]; cbn [length] in Hl; try lia.
    + constructor.
    + constructor; [intros [] | constructor].
    + constructor; [| constructor; [intros [] | constructor]].
      intros [E | []]. apply (no_adj_lin_head _ _ _ Hn). auto.
  - apply small_sets_rings in Hx. destruct Hx as [-> _]. apply short_nodup_or_pp, Hl2.
  - left. pose proof (split_repeat_free r2 o m sets) as Hr. rewrite Forall_forall in Hr. apply Hr; try assumption.
    intros p Hp. apply Hfl. pose proof (subseq_count_occ pt_dec _ _ p (kmp_subseq_joined _ _ Hk)). lia.
Qed.

Theorem level_repeat_free_partial g hots P cfg L ps :
  (forall idx r, nth_error P idx = Some r ->
                 routing_ok g hots L (ensureCorrectWindingOrder r (negb (Nat.eqb idx 0)))) ->
  snapLevel g hots P cfg L = Ok (Some ps) -> Forall (Forall nodup_or_pp) ps.
Proof.
  intros Hrt H. apply (level_lift nodup_or_pp g hots P cfg L ps); [exact nodup_or_pp_rev | | exact H].
  intros acc Hl.
  apply (ringsLoop_rings g hots L cfg nodup_or_pp (fun k st => forall id, (k <= id)%nat -> hits_fresh st id) P acc);
    [| | exact Hl].
  - intros idx r st nr st' sets Hnth Hj Hr Hc.
    destruct (routeOf_facts _ _ _ _ _ _ _ _ Hr) as [_ [Hother Hok]].
    destruct (Hok (Hrt idx r Hnth) (Hj idx (le_n _))) as [Hadj Hfl].
    split.
    + intros id Hid. apply Hother; [lia | apply Hj; lia].
    + apply (cleanup_repeat_free_partial nr _ _ sets Hadj Hfl Hc).
  - intros id _ p. split; reflexivity.
Qed.

(** at the level of snapPolygon, routing premises discharged from C02 as in [snap_rings_well_formed_closed]:
    every returned ring is repeat-free (and then last <> first, no equal neighbours) or is a line [p; p] *)
Theorem snap_rings_well_formed_partial g P levels cfg r :
  0 < gres g -> RootCovers g -> (forall L, In L levels -> (L <= gdeep g)%nat) ->
  snapPolygon g P levels cfg = Ok r ->
  forall L ps poly x, In (L, ps) r -> In poly ps -> In x poly ->
    (NoDup x /\ ((2 <= length x)%nat -> hd dp x <> last x dp /\ no_adj_dup x)) \/ exists p, x = [p; p].
Proof.
  intros Hr C HLs H L ps poly x Hin Hpoly Hx.
  destruct (insertPolygon g P) as [hs | e] eqn:Hi.
  - destruct (level_value _ _ _ _ _ _ _ H Hin) as [hs' [Hi' [HL Hl]]]. rewrite Hi in Hi'. inversion Hi'; subst hs'.
    pose proof (level_repeat_free_partial g (hotLevels g hs) P cfg L ps
                  (fun idx r0 => routing_premise_closed g P hs levels Hr C Hi HLs L idx r0 HL) Hl) as F.
    rewrite Forall_forall in F. specialize (F poly Hpoly). rewrite Forall_forall in F.
    destruct (F x Hx) as [ND | Hpp]; [left; exact (NoDup_well_formed x ND) | right; exact Hpp].
  - exfalso. unfold snapPolygon in H. rewrite Hi in H.
    destruct e; try discriminate. destruct (ignoreOutsideGrid cfg); [| discriminate].
    injection H as <-. destruct Hin.
Qed.

Print Assumptions kmp_short_nodup_refuted.
Print Assumptions kmp_short_nodup_premise_false.
Print Assumptions kmp_empty_output.
Print Assumptions snap_repeat_free_refuted.
Print Assumptions snap_rings_well_formed_partial.
