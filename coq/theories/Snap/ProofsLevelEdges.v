(** * C18 at the level of one tile matrix: the directed edges of the returned polygons are the edges of
      the accumulated rings (the outputs of splitRing) minus cancelling shell/hole pairs, with the holes that
      found no shell turned into shells (reversed). *)
From Coq Require Import ZArith List Bool Lia Permutation.
From Texel Require Import Prelude.Base Index.Model Snap.Model Snap.ProofsBasics Snap.ProofsSplit
  Snap.ProofsSplitThms Snap.ProofsDedupe Snap.ProofsDedupeCancel Snap.ProofsMatch Snap.ProofsLevelThms.
Import ListNotations.
Open Scope Z_scope.

Lemma all_dedges_app a b : all_dedges (a ++ b) = all_dedges a ++ all_dedges b.
Proof. unfold all_dedges. rewrite map_app, concat_app. reflexivity. Qed.

Lemma all_dedges_perm a b : Permutation a b -> Permutation (all_dedges a) (all_dedges b).
Proof. apply Permutation_concat_map. Qed.

Lemma all_dedges_rev (rs : list ring) : Permutation (all_dedges (map (@rev pt) rs)) (map swap (all_dedges rs)).
Proof.
  induction rs as [| r rs IH]; [constructor |]. unfold all_dedges in *. cbn [map concat]. rewrite map_app.
  apply Permutation_app; [apply dedges_rev | exact IH].
Qed.

Theorem level_edges_cancel cfg acc polys : aAlive acc = true -> reverseWindingOrder cfg = false ->
  levelPolys cfg acc = Ok polys ->
  exists dO dI tu,
    Permutation (all_dedges dI) (map swap (all_dedges dO)) /\
    Permutation (all_dedges (concat polys) ++ all_dedges dO ++ all_dedges dI ++ all_dedges tu)
                (all_dedges (aOuters acc ++ aInners acc) ++ map swap (all_dedges tu)).
Proof.
  intros Al Rv H. unfold levelPolys in H. rewrite Al, Rv in H. bind_inv H oi Hd. destruct oi as [outs' ins'].
  bind_inv H ps Hm. inversion H; subst polys. clear H. cbn [fst snd flipb] in *.
  destruct (dedupe_cancels _ _ _ _ Hd) as [dO [dI [PO [PI PC]]]].
  destruct (match_spec _ _ _ Hm) as [polys' [matched [tu [E [_ [P1 P2]]]]]]. subst ps.
  exists dO, dI, tu. split; [exact PC |].
  rewrite concat_app, concat_singleton_rev, !all_dedges_app.
  apply all_dedges_perm in PO, PI, P1, P2. rewrite !all_dedges_app in *.
  pose proof (all_dedges_rev tu) as PR.
  clear PC Hd Hm. perm_count.
Qed.
