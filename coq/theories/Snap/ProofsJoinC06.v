(** * C06 end to end: every stage of snapLevel / snapPolygon other than kmpDeduplicate is total.

    - routing: cleanupNewVertices fails only on an empty centre list; for an edge of the indexed polygon the list
      starts with the centre of the pixel of its start vertex (C02);
    - cleanupNewRing: besides kmpDeduplicate only splitRing is called, on a non-empty ring (total, ProofsSplitThms);
    - dedupeInnersOuters: every index is a ring number in range; ringsAreEqual indexes ringJ at a value mod n with
      n = len ringI = len ringJ > 0; rings have at least three vertices;
    - matchInnersToPolygons: polygons and shells are never empty; ringContains reads the first and the last vertex
      of a non-empty shell; the fall-back index is only used by append_inner, which cannot fail;
    - the level assembly and the mapM over the requested levels.
    Hence: an error of snapPolygon on an in-grid polygon is an error of kmpDeduplicate on a routed-and-cleaned ring
    of at least three vertices ([snapPolygon_errors_from_kmp]), and on the class of C18 there is none
    ([snapPolygon_total_on_class]). *)
From Coq Require Import ZArith List Bool Lia Permutation.
From Texel Require Import Prelude.Base Index.Model Index.ProofsInsert Index.ProofsGrid Index.ProofsRouting
  Snap.Model Snap.ProofsBasics Snap.ProofsSplit Snap.ProofsSplitRefine Snap.ProofsSplitThms Snap.ProofsDedupe
  Snap.ProofsDedupeCancel Snap.ProofsMatch Snap.ProofsLevelRoute Snap.ProofsLevel Snap.ProofsLevelThms
  Snap.ProofsLevelC07 Snap.ProofsNoCollapse Snap.ProofsJoinC18.
From Texel Require Snap.ProofsKmpSearch Snap.ProofsKmpTotal Snap.ProofsKmpLe2 Snap.ModelFull Snap.ProofsFull.
Import ListNotations.
Open Scope Z_scope.

(** ** dedupeInnersOuters *)
Lemma ringsAreEqual_total (I J : ring) io jo : I <> [] -> exists b, ringsAreEqual I J io jo = Ok b.
Proof.
  intro HI. unfold ringsAreEqual. cbn zeta. destruct (Z.eqb_spec (zlen I) (zlen J)) as [En | Nn]; cbn [negb]; [| eauto].
  destruct I as [| i0 t]; [congruence |]. rewrite idx_0_cons. cbn [bind].
  set (n := zlen (i0 :: t)) in *. assert (Hn : 0 < n) by (unfold n, zlen; cbn [length]; lia). clearbody n.
  match goal with |- context [if (?f J 0 <? 0) then _ else _] => set (index := f) end.
  match goal with |- context [?f t (0 + 1)] => set (loop := f) end.
  destruct (index J 0 <? 0); [eauto |].
  assert (Hidx : forall k, exists q, idx J (if io && negb jo then (index J 0 + n - k) mod n
                                            else (index J 0 + k) mod n) = Ok q).
  { intro k. apply ProofsKmpSearch.idx_in_range. rewrite <- En. destruct (io && negb jo); apply Z.mod_pos_bound; exact Hn. }
  assert (G : forall l k, exists b, loop l k = Ok b).
  { induction l as [| p l IHl]; intro k; cbn; [eauto |]. destruct (Hidx k) as [q Eq]. rewrite Eq. cbn [bind].
    destruct (pt_eqb p q); [apply IHl | eauto]. }
  destruct (Hidx 0) as [q Eq]. rewrite Eq. cbn [bind]. destruct (pt_eqb i0 q); [apply G | eauto].
Qed.

Lemma dedupeStep_total outs ins st i : Forall (fun x : ring => x <> []) (outs ++ ins) ->
  0 <= i < zlen outs + zlen ins -> exists st', dedupeStep outs ins st i = Ok st'.
Proof.
  intros Hne Hi. destruct st as [processed toDelete]. unfold dedupeStep.
  destruct (mem_Z i processed); [eauto |].
  rewrite (ringOf_ok outs ins i Hi). cbn [bind].
  set (lenAll := zlen outs + zlen ins) in *. set (I := ringAt outs ins i).
  assert (Hat : forall j, 0 <= j < lenAll -> ringAt outs ins j <> []).
  { intros j Hj. rewrite Forall_forall in Hne. apply Hne. unfold ringAt. apply nth_In.
    unfold lenAll, zlen in Hj. rewrite app_length. lia. }
  match goal with |- context [foldM ?F ?jj ?a0] => set (F0 := F); set (js := jj); set (a00 := a0) end.
  assert (Hfold : forall l acc, Forall (fun j => i < j < lenAll) l -> exists acc', foldM F0 l acc = Ok acc').
  { induction l as [| j l IHl]; intros acc Hl; cbn [foldM]; [eauto |]. inversion Hl as [| ? ? Hj Hl']; subst.
    unfold F0 at 1. destruct (mem_Z j processed); cbn [bind]; [apply IHl, Hl' |].
    rewrite (ringOf_ok outs ins j) by (unfold lenAll in *; lia). cbn [bind].
    destruct (ringsAreEqual_total I (ringAt outs ins j) (i <? zlen outs) (j <? zlen outs) (Hat i Hi)) as [b Eb].
    rewrite Eb. cbn [bind]. apply IHl, Hl'. }
  destruct (Hfold js a00) as [equals Ee].
  { rewrite Forall_forall. intros j Hj. unfold js in Hj. apply in_map_iff in Hj.
    destruct Hj as [k [<- Hk]]. apply in_seq in Hk. lia. }
  rewrite Ee. cbn [bind]. destruct (length equals <=? 1)%nat; [eauto |].
  match goal with |- context [fold_left ?f ?l ?a] => destruct (fold_left f l a) as [[[p' d'] x] y] end. eauto.
Qed.

Theorem dedupe_total outs ins : Forall (fun x : ring => x <> []) (outs ++ ins) ->
  exists r, dedupeInnersOuters outs ins = Ok r.
Proof.
  intro Hne. unfold dedupeInnersOuters. set (lenAll := zlen outs + zlen ins).
  assert (Hall : forall l st, Forall (fun i => 0 <= i < lenAll) l -> exists st', foldM (dedupeStep outs ins) l st = Ok st').
  { induction l as [| i l IHl]; intros st Hl; cbn [foldM]; [eauto |]. inversion Hl as [| ? ? Hi Hl']; subst.
    destruct (dedupeStep_total outs ins st i Hne Hi) as [st1 E1]. rewrite E1. cbn [bind]. apply IHl, Hl'. }
  destruct (Hall (map Z.of_nat (seq 0 (Z.to_nat lenAll))) ([], [])) as [st' E].
  { rewrite Forall_forall. intros i Hi. apply in_map_iff in Hi. destruct Hi as [k [<- Hk]]. apply in_seq in Hk. lia. }
  rewrite E. cbn [bind]. eauto.
Qed.

(** ** matchInnersToPolygons *)
Definition shell_ok (p : polygon) : Prop := exists o a, p = o :: a /\ o <> [].

Lemma append_inner_shell_ok polys : forall k inner, Forall shell_ok polys -> Forall shell_ok (append_inner polys k inner).
Proof.
  induction polys as [| q polys IH]; intros k inner F; cbn [append_inner]; [constructor |].
  inversion F as [| ? ? Hq Fr]; subst. destruct (k =? 0).
  - constructor; [| exact Fr]. destruct Hq as [o [a [-> Ho]]]. exists o, (a ++ [inner]). auto.
  - constructor; [exact Hq | apply IH, Fr].
Qed.

(** the repair of F16: comparing a non-empty shell with the inner rings cannot fail *)
Lemma firstEqualInner_total (p : polygon) : shell_ok p -> forall innerRings j,
  exists t, firstEqualInner p innerRings j = Ok t.
Proof.
  intros [o [a [-> Ho]]]. induction innerRings as [| inner rest IH]; intro j; cbn [firstEqualInner]; [eauto |].
  rewrite idx_0_cons. cbn [bind]. destruct (ringsAreEqual_total o inner true false Ho) as [b Eb]. rewrite Eb. cbn [bind].
  destruct b; [eauto | apply IH].
Qed.

Lemma cancelledBy_total innerRings : forall polys k, Forall shell_ok polys ->
  exists m, cancelledByFrom polys innerRings k = Ok m.
Proof.
  induction polys as [| p polys IH]; intros k F; cbn [cancelledByFrom]; [eauto |].
  inversion F as [| ? ? Hp Fr]; subst. destruct (firstEqualInner_total p Hp innerRings 0) as [t Et]. rewrite Et. cbn [bind].
  destruct (IH (k + 1) Fr) as [m Em]. rewrite Em. cbn [bind]. eauto.
Qed.

Lemma matchVertices_total cancelled innerI polys : Forall shell_ok polys -> forall verts counts,
  exists r, matchVertices cancelled innerI polys verts counts = Ok r.
Proof.
  intro F. induction verts as [| v verts IH]; intro counts; cbn [matchVertices]; [eauto |].
  match goal with |- context [bind (?f polys 0 counts) _] => set (go := f) end.
  assert (Hgo : forall l k c, Forall shell_ok l -> exists c', go l k c = Ok c').
  { induction l as [| p l IHl]; intros k c Fl; [cbn; eauto |]. inversion Fl as [| ? ? [o [a [-> Ho]]] Fl']; subst.
    change (go ((o :: a) :: l) k c) with
      (if skipCancelled cancelled k innerI then go l (k + 1) c
       else do outer <- idx (o :: a) 0; do cb <- ringContains outer v; go l (k + 1) (if fst cb then om_incr c k else c)).
    destruct (skipCancelled cancelled k innerI); [apply IHl, Fl' |].
    rewrite idx_0_cons. cbn [bind]. destruct (ringContains_ok o v Ho) as [cb Ecb]. rewrite Ecb. cbn [bind].
    apply IHl, Fl'. }
  destruct (Hgo polys 0 counts F) as [c1 E1]. rewrite E1. cbn [bind].
  destruct (maxWinners c1) as [k n]. destruct (n =? 1); [eauto | apply IH].
Qed.

Lemma matchInnersLoop_total cancelled : forall innerRings innerI polys sorted turned, Forall shell_ok polys ->
  exists r, matchInnersLoop cancelled innerI polys innerRings sorted turned = Ok r.
Proof.
  induction innerRings as [| inner rest IH]; intros innerI polys sorted turned F; cbn [matchInnersLoop]; [eauto |].
  destruct (matchVertices_total cancelled innerI polys F inner []) as [[mk counts] Em]. rewrite Em. cbn [bind].
  destruct mk as [k |]; [apply IH, append_inner_shell_ok, F |].
  destruct (length counts =? 0)%nat; [apply IH, F | apply IH, append_inner_shell_ok, F].
Qed.

Theorem match_total (outs ins : list ring) : Forall (fun x : ring => x <> []) outs ->
  exists ps, matchInnersToPolygons (map (fun o => [o]) outs) ins = Ok ps.
Proof.
  intro Hne. unfold matchInnersToPolygons. destruct ins as [| i ins]; [eauto |].
  assert (F : Forall shell_ok (map (fun o : ring => [o]) outs)).
  { rewrite Forall_forall in *. intros p Hp. apply in_map_iff in Hp. destruct Hp as [o [<- Ho]]. exists o, []. auto. }
  unfold cancelledBy. destruct (cancelledBy_total (i :: ins) _ 0 F) as [cancelled Ec]. rewrite Ec. cbn [bind].
  destruct (matchInnersLoop_total cancelled (i :: ins) 0 (map (fun o : ring => [o]) outs) None [] F) as [r E].
  rewrite E. cbn [bind]. eauto.
Qed.

(** ** the level assembly *)
Theorem levelPolys_total g hots L cfg P acc : ringsLoop g hots L cfg acc0 0 P = Ok acc ->
  exists polys, levelPolys cfg acc = Ok polys.
Proof.
  intro Hl. destruct (ringsLoop_classes _ _ _ _ _ _ Hl) as [Co [Ci _]].
  assert (No : Forall (fun x : ring => x <> []) (aOuters acc)).
  { eapply Forall_impl; [| exact Co]. intros x [Hx _] E. subst x. cbn in Hx. lia. }
  assert (Ni : Forall (fun x : ring => x <> []) (aInners acc)).
  { eapply Forall_impl; [| exact Ci]. intros x [Hx _] E. subst x. cbn in Hx. lia. }
  unfold levelPolys. destruct (aAlive acc); [| eauto].
  destruct (dedupe_total (aOuters acc) (aInners acc)) as [[outs' ins'] Ed]; [apply Forall_app; auto |].
  rewrite Ed. cbn [bind fst snd]. destruct (dedupe_sub _ _ _ _ Ed) as [S1 _].
  destruct (match_total outs' ins' (subseq_Forall _ _ _ S1 No)) as [ps Em]. rewrite Em. cbn [bind]. eauto.
Qed.

(** ** routing one ring *)
Lemma assemble_total segs : Forall (fun s : list pt => s <> []) segs -> forall nr, exists nr', assemble segs nr = Ok nr'.
Proof.
  induction 1 as [| s segs Hs _ IH]; intro nr; cbn [assemble]; [eauto |].
  assert (E : exists c, cleanupNewVertices s (last_opt nr) = Ok c).
  { unfold cleanupNewVertices. destruct s as [| f0 t]; [congruence |]. destruct (last_opt nr) as [lv |]; [| eauto].
    destruct (pt_eqb f0 lv); eauto. }
  destruct E as [c Ec]. rewrite Ec. cbn [bind]. apply IH.
Qed.

Lemma routeOf_total g hots L idx r' st :
  (forall a b, In (a, b) (dedges r') -> snapClosestPoints g hots a b L <> []) ->
  exists nr st', routeOf g hots L idx r' st = Ok (nr, st').
Proof.
  intro Hne. unfold routeOf. destruct r' as [| f0 t]; [eauto |]. rewrite routeRing_eq, edgesFrom_dedges.
  destruct (assemble_total (segsOf g hots L (dedges (f0 :: t)))) with (nr := @nil pt) as [nr E].
  - rewrite Forall_forall. intros s Hs. unfold segsOf in Hs. apply in_map_iff in Hs. destruct Hs as [[a b] [<- Hab]].
    apply Hne, Hab.
  - rewrite E. cbn [bind]. eauto.
Qed.

(** the only error of cleanupNewRing is an error of kmpDeduplicate on the routed-and-cleaned ring *)
Lemma cleanupNewRing_err nr o m e : cleanupNewRing nr o m = Err e ->
  (3 <= length (dropClosing nr))%nat /\ kmpDeduplicate (dropClosing nr) = Err e.
Proof.
  rewrite cleanupNewRing_eq. cbn zeta. destruct (Nat.ltb_spec (length (dropClosing nr)) 3) as [H1 | H1]; [discriminate |].
  destruct (kmpDeduplicate (dropClosing nr)) as [rk | e'] eqn:Ek; cbn [bind].
  - destruct (Nat.ltb_spec (length (trimClosing rk)) 3) as [H2 | H2]; [discriminate |].
    destruct (split_total (trimClosing rk) o m) as [sets Es]; [destruct (trimClosing rk); [cbn in H2; lia | discriminate] |].
    rewrite Es. discriminate.
  - intro H. inversion H. auto.
Qed.

(** ** the rings of one level.  [routes_nonempty]: no edge of a (normalised) ring is routed to an empty list *)
Definition routes_nonempty (g : grid) (hots : list (list (Z * Z))) (L : nat) (idx : nat) (r : ring) : Prop :=
  forall a b, In (a, b) (dedges (ensureCorrectWindingOrder r (negb (Nat.eqb idx 0)))) ->
              snapClosestPoints g hots a b L <> [].

Definition kmp_failure (g : grid) (hots : list (list (Z * Z))) (L : nat) (idx : nat) (r : ring) (e : err) : Prop :=
  exists c, routedClean g hots L idx r = Ok c /\ (3 <= length c)%nat /\ kmpDeduplicate c = Err e.

Lemma ringStep_err g hots L cfg acc idx r e : routes_nonempty g hots L idx r ->
  ringStep g hots L cfg acc idx r = Err e -> kmp_failure g hots L idx r e.
Proof.
  intros Hne H. destruct (aAlive acc) eqn:Al; [| rewrite ringStep_dead in H by exact Al; discriminate].
  rewrite ringStep_eq in H by exact Al.
  destruct (routeOf_total g hots L idx _ (aHits acc) Hne) as [nr [st' Er]]. rewrite Er in H. cbn [bind fst snd] in H.
  destruct (cleanupNewRing nr (Nat.eqb idx 0) (isMultiFor st' idx)) as [sets | e'] eqn:Ec; cbn [bind] in H; [discriminate |].
  inversion H; subst e'. destruct (cleanupNewRing_err _ _ _ _ Ec) as [Hl Hk].
  exists (dropClosing nr). split; [exact (routedClean_of_route _ _ _ _ _ _ _ _ Er) | auto].
Qed.

Lemma ringsLoop_err g hots L cfg e : forall P idx0 acc,
  (forall k r, nth_error P k = Some r -> routes_nonempty g hots L (idx0 + k) r) ->
  ringsLoop g hots L cfg acc idx0 P = Err e ->
  exists k r, nth_error P k = Some r /\ kmp_failure g hots L (idx0 + k) r e.
Proof.
  induction P as [| r rest IH]; intros idx0 acc Hne H; cbn [ringsLoop] in H; [discriminate |].
  destruct (ringStep g hots L cfg acc idx0 r) as [acc' | e'] eqn:Es; cbn [bind] in H.
  - destruct (IH (S idx0) acc') as [k [r' [Hn Hf]]]; [| exact H |].
    + intros k r' Hn. rewrite Nat.add_succ_comm. apply (Hne (S k) r' Hn).
    + exists (S k), r'. rewrite Nat.add_succ_comm in Hf. auto.
  - inversion H; subst e'. exists 0%nat, r. rewrite Nat.add_0_r. split; [reflexivity |].
    apply (ringStep_err g hots L cfg acc idx0 r e); [| exact Es]. specialize (Hne 0%nat r eq_refl). rewrite Nat.add_0_r in Hne. exact Hne.
Qed.

Theorem level_errors_from_kmp g hots P cfg L e :
  (forall idx r, nth_error P idx = Some r -> routes_nonempty g hots L idx r) ->
  snapLevel g hots P cfg L = Err e ->
  exists idx r, nth_error P idx = Some r /\ kmp_failure g hots L idx r e.
Proof.
  intros Hne H. rewrite snapLevel_eq in H.
  destruct (ringsLoop g hots L cfg acc0 0 P) as [acc | e'] eqn:El; cbn [bind] in H.
  - destruct (levelPolys_total g hots L cfg P acc El) as [polys Ep]. rewrite Ep in H. discriminate.
  - inversion H; subst e'. destruct (ringsLoop_err g hots L cfg e P 0 acc0 Hne El) as [k [r [Hn Hf]]]. eauto.
Qed.

(** ** snapPolygon *)
Lemma mapM_err {A B} (f : A -> res B) (l : list A) e : mapM f l = Err e -> exists a, In a l /\ f a = Err e.
Proof.
  induction l as [| a l IH]; cbn [mapM]; [discriminate |]. destruct (f a) as [b | e'] eqn:Ea; cbn [bind].
  - destruct (mapM f l) as [bs | e''] eqn:El; cbn [bind]; [discriminate |]. intro H. inversion H; subst e''.
    destruct (IH eq_refl) as [a' [Hin Ha']]. exists a'. split; [right; exact Hin | exact Ha'].
  - intro H. inversion H; subst e'. exists a. split; [left; reflexivity | exact Ea].
Qed.

(** the routing premise from C02: the list of an edge of the indexed polygon starts with the centre of the pixel
    of its start vertex *)
Lemma routes_nonempty_from_C02 g P hs L idx r : 0 < gres g -> RootCovers g -> insertPolygon g P = Ok hs ->
  (L <= gdeep g)%nat -> nth_error P idx = Some r -> routes_nonempty g (hotLevels g hs) L idx r.
Proof.
  intros Hr C Hi HL Hn a b Hab.
  assert (Hin : forall v, In v (ensureCorrectWindingOrder r (negb (Nat.eqb idx 0))) -> In v (concat P)).
  { intros v Hv. apply in_concat. exists r. split; [exact (nth_error_In _ _ Hn) |].
    unfold ensureCorrectWindingOrder in Hv. destruct (windingOrderIsCorrect r _); [exact Hv | apply in_rev; exact Hv]. }
  apply ProofsSplitThms.dedges_In in Hab as [Ha Hb].
  destruct (C02_routing_vertices g P hs a b L Hr C Hi (Hin a Ha) (Hin b Hb) HL) as [[Ep _] [[r1 E1] _]].
  rewrite Ep, E1. discriminate.
Qed.

Theorem snapPolygon_errors_from_kmp g P levels cfg hs e : 0 < gres g -> RootCovers g ->
  (forall L, In L levels -> (L <= gdeep g)%nat) -> insertPolygon g P = Ok hs ->
  snapPolygon g P levels cfg = Err e ->
  exists L idx r, In L levels /\ nth_error P idx = Some r /\ kmp_failure g (hotLevels g hs) L idx r e /\
                  (e = IndexOutOfRange \/ e = SliceBounds).
Proof.
  intros Hr C HLs Hi H. unfold snapPolygon in H. rewrite Hi in H.
  destruct (mapM _ levels) as [rs | e'] eqn:Em; cbn [bind] in H; [discriminate |]. inversion H; subst e'.
  apply mapM_err in Em. destruct Em as [L [HL EL]].
  destruct (snapLevel g (hotLevels g hs) P cfg L) as [x | e'] eqn:Es; cbn [bind] in EL; [discriminate |].
  inversion EL; subst e'.
  destruct (level_errors_from_kmp g (hotLevels g hs) P cfg L e) as [idx [r [Hn Hf]]]; [| exact Es |].
  { intros idx r Hn. exact (routes_nonempty_from_C02 g P hs L idx r Hr C Hi (HLs L HL) Hn). }
  exists L, idx, r. split; [exact HL |]. split; [exact Hn |]. split; [exact Hf |].
  destruct Hf as [c [_ [_ Hk]]].
  destruct (ProofsKmpTotal.kmpDeduplicate_partial c) as [[r' E] | [E | (seqs & _ & _ & E)]].
  - congruence.
  - unfold kmpDeduplicate in Hk. rewrite E in Hk. cbn [bind] in Hk. inversion Hk. auto.
  - rewrite E in Hk. inversion Hk. auto.
Qed.

(** on the class there is no error at all *)
Theorem snapPolygon_total_on_class g P levels cfg hs : 0 < gres g -> RootCovers g ->
  (forall L, In L levels -> (L <= gdeep g)%nat) -> insertPolygon g P = Ok hs ->
  (forall L idx r c, In L levels -> nth_error P idx = Some r ->
     routedClean g (hotLevels g hs) L idx r = Ok c -> ProofsKmpLe2.le2 c) ->
  exists res, snapPolygon g P levels cfg = Ok res.
Proof.
  intros Hr C HLs Hi Hcl. destruct (snapPolygon g P levels cfg) as [res | e] eqn:E; [eauto |]. exfalso.
  destruct (snapPolygon_errors_from_kmp g P levels cfg hs e Hr C HLs Hi E) as [L [idx [r [HL [Hn [[c [Hc [_ Hk]]] _]]]]]].
  destruct (ProofsKmpLe2.kmp_total_le2 c (Hcl L idx r c HL Hn Hc)) as [r' Er]. congruence.
Qed.

(** stated on the vertices: all inside the grid *)
Corollary snapPolygon_total_on_class_inGrid g P levels cfg : 0 < gres g -> RootCovers g ->
  (forall L, In L levels -> (L <= gdeep g)%nat) -> Forall (insideGrid g) (concat P) ->
  (forall hs L idx r c, insertPolygon g P = Ok hs -> In L levels -> nth_error P idx = Some r ->
     routedClean g (hotLevels g hs) L idx r = Ok c -> ProofsKmpLe2.le2 c) ->
  exists res, snapPolygon g P levels cfg = Ok res.
Proof.
  intros Hr C HLs Hin Hcl. destruct (proj2 (insertPolygon_ok_iff g P Hr) Hin) as [hs Hi].
  exact (snapPolygon_total_on_class g P levels cfg hs Hr C HLs Hi (fun L idx r c => Hcl hs L idx r c Hi)).
Qed.

(** the model with the Morton-key limit (the one the correspondence runs): the same up to deepest level 32 *)
Corollary snapPolygonFull_total_on_class g P levels cfg hs : (gdeep g <= 32)%nat -> 0 < gres g -> RootCovers g ->
  (forall L, In L levels -> (L <= gdeep g)%nat) -> insertPolygon g P = Ok hs ->
  (forall L idx r c, In L levels -> nth_error P idx = Some r ->
     routedClean g (hotLevels g hs) L idx r = Ok c -> ProofsKmpLe2.le2 c) ->
  exists res, ModelFull.snapPolygonFull g P levels cfg = Ok res.
Proof. intro Hd. rewrite (ProofsFull.snapPolygonFull_eq g P levels cfg Hd). apply snapPolygon_total_on_class. Qed.

Corollary snapPolygonFull_errors_from_kmp g P levels cfg hs e : (gdeep g <= 32)%nat -> 0 < gres g -> RootCovers g ->
  (forall L, In L levels -> (L <= gdeep g)%nat) -> insertPolygon g P = Ok hs ->
  ModelFull.snapPolygonFull g P levels cfg = Err e ->
  exists L idx r, In L levels /\ nth_error P idx = Some r /\ kmp_failure g (hotLevels g hs) L idx r e /\
                  (e = IndexOutOfRange \/ e = SliceBounds).
Proof. intro Hd. rewrite (ProofsFull.snapPolygonFull_eq g P levels cfg Hd). apply snapPolygon_errors_from_kmp. Qed.

Print Assumptions snapPolygon_errors_from_kmp.
Print Assumptions snapPolygon_total_on_class.
Print Assumptions snapPolygon_total_on_class_inGrid.
Print Assumptions snapPolygonFull_total_on_class.
Print Assumptions snapPolygonFull_errors_from_kmp.
