(** * The sweep lemma over the reals, and back to rational parameters (C01, continuity half, stage B).

    - [sweep_axis_R]: Geom/Close.v's [sweep_axis] with real time and real parameter, and with any half-open box
      [lo, hi) around the targets instead of the symmetric [-h, h).
    - [rationalize]: if the segment a b (integer end points) is inside a half-open box with integer bounds at a REAL
      parameter between two rational parameters, it is inside it at a RATIONAL parameter between them: every
      non-strict constraint is either tight with a non-zero rational slope (then the parameter is rational), or
      constant, or strict; strict constraints hold on a neighbourhood, which contains a rational. *)
From Coq Require Import Reals QArith Qreals Lra ZArith Lia.
From Texel Require Import Prelude.Base Index.Model Index.ProofsLine.
Local Open Scope R_scope.

(** ** convexity and the sweep lemma, one axis *)
Lemma convex_half_open_R (lo hi u v mu : R) : lo <= u -> u < hi -> lo <= v -> v < hi -> 0 <= mu -> mu <= 1 ->
  lo <= (1 - mu) * u + mu * v /\ (1 - mu) * u + mu * v < hi.
Proof.
  intros U1 U2 V1 V2 M0 M1.
  assert (P1 : 0 <= (1 - mu) * (u - lo)) by (apply Rmult_le_pos; lra).
  assert (P2 : 0 <= mu * (v - lo)) by (apply Rmult_le_pos; lra).
  assert (P3 : 0 <= (1 - mu) * (hi - u)) by (apply Rmult_le_pos; lra).
  assert (P4 : 0 <= mu * (hi - v)) by (apply Rmult_le_pos; lra).
  split; [lra |].
  destruct (Req_dec mu 1) as [-> | N].
  - lra.
  - assert (P5 : 0 < (1 - mu) * (hi - u)) by (apply Rmult_lt_0_compat; lra). lra.
Qed.

(** the box [lo, hi) around the target is the same for the three pixels involved; it need not be symmetric (the
    centre of a pixel of odd size is half a unit off its middle) *)
Lemma sweep_axis_R (lo hi lam mu a' b' c1 c2 v d : R) :
  0 <= lam -> lam <= 1 -> 0 <= mu -> mu <= 1 ->
  lo <= a' - c1 -> a' - c1 < hi -> lo <= b' - c2 -> b' - c2 < hi -> lo <= v - d -> v - d < hi ->
  (1 - lam) * v + lam * d = (1 - mu) * ((1 - lam) * a' + lam * c1) + mu * ((1 - lam) * b' + lam * c2) ->
  lo <= ((1 - mu) * a' + mu * b') - d /\ ((1 - mu) * a' + mu * b') - d < hi.
Proof.
  intros L0 L1 M0 M1 A1 A2 B1 B2 V1 V2 E.
  destruct (convex_half_open_R lo hi (a' - c1) (b' - c2) mu A1 A2 B1 B2 M0 M1) as [E1 E2].
  set (e := (1 - mu) * (a' - c1) + mu * (b' - c2)) in *.
  assert (W : ((1 - mu) * a' + mu * b') - d = (1 - lam) * (v - d) + lam * e).
  { unfold e. replace ((1 - lam) * (v - d)) with ((1 - lam) * v + lam * d - d) by ring. rewrite E. ring. }
  rewrite W.
  destruct (convex_half_open_R lo hi e (v - d) (1 - lam) E1 E2 V1 V2 ltac:(lra) ltac:(lra)) as [X1 X2].
  replace (1 - (1 - lam)) with lam in * by ring. lra.
Qed.

(** ** rationals among the reals *)
Lemma Q2R_inject_Z z : Q2R (inject_Z z) = IZR z.
Proof. unfold Q2R, inject_Z. cbn [Qnum Qden]. rewrite Rinv_1. ring. Qed.

Lemma Q2R_co from to t : Q2R (co from to t) = IZR from + Q2R t * (IZR to - IZR from).
Proof. unfold co. rewrite Q2R_plus, Q2R_mult, Q2R_minus, !Q2R_inject_Z. reflexivity. Qed.

Definition ratl (x : R) : Prop := exists q : Q, x = Q2R q.

Lemma ratl_Q q : ratl (Q2R q). Proof. exists q. reflexivity. Qed.
Lemma ratl_IZR z : ratl (IZR z). Proof. exists (inject_Z z). symmetry. apply Q2R_inject_Z. Qed.
Lemma ratl_plus x y : ratl x -> ratl y -> ratl (x + y).
Proof. intros [p ->] [q ->]. exists (p + q)%Q. symmetry. apply Q2R_plus. Qed.
Lemma ratl_minus x y : ratl x -> ratl y -> ratl (x - y).
Proof. intros [p ->] [q ->]. exists (p - q)%Q. symmetry. apply Q2R_minus. Qed.
Lemma ratl_opp x : ratl x -> ratl (- x).
Proof. intros [p ->]. exists (- p)%Q. symmetry. apply Q2R_opp. Qed.
Lemma ratl_div x y : ratl x -> ratl y -> y <> 0 -> ratl (x / y).
Proof.
  intros [p ->] [q ->] N. exists (p / q)%Q. symmetry. apply Q2R_div. intro E. apply N. rewrite (Qeq_eqR _ _ E). unfold Q2R. cbn. lra.
Qed.

Lemma Q_dense (x y : R) : x < y -> exists q : Q, x < Q2R q < y.
Proof.
  intro H. set (n := up (/ (y - x))). destruct (archimed (/ (y - x))) as [N1 _]. fold n in N1.
  assert (Hi : 0 < / (y - x)) by (apply Rinv_0_lt_compat; lra).
  assert (Hn : (0 < n)%Z) by (apply lt_IZR; lra).
  set (k := up (x * IZR n)). destruct (archimed (x * IZR n)) as [K1 K2]. fold k in K1, K2.
  exists (k # Z.to_pos n)%Q. unfold Q2R. cbn [Qnum Qden]. rewrite Z2Pos.id by exact Hn.
  assert (Hp : 0 < IZR n) by (apply IZR_lt; exact Hn).
  assert (Hinv : / IZR n < y - x).
  { apply (Rmult_lt_reg_l (IZR n)); [exact Hp |]. rewrite Rinv_r by lra.
    apply (Rmult_lt_reg_l (/ (y - x))); [exact Hi |]. rewrite Rmult_1_r.
    replace (/ (y - x) * (IZR n * (y - x))) with (IZR n * ((y - x) * / (y - x))) by ring. rewrite Rinv_r by lra. lra. }
  assert (E1 : x = x * IZR n * / IZR n) by (field; lra).
  split.
  - rewrite E1 at 1. apply Rmult_lt_compat_r; [apply Rinv_0_lt_compat; exact Hp | lra].
  - assert (IZR k * / IZR n <= (x * IZR n + 1) * / IZR n) by (apply Rmult_le_compat_r; [left; apply Rinv_0_lt_compat; exact Hp | lra]).
    replace ((x * IZR n + 1) * / IZR n) with (x + / IZR n) in * by (field; lra). lra.
Qed.

(** ** one linear constraint C + m D in the parameter m *)
Definition near (m e : R) (Q : R -> Prop) : Prop := 0 < e /\ forall m', Rabs (m' - m) < e -> Q m'.

Lemma strict_near (C D m : R) : 0 < C + m * D -> exists e, near m e (fun m' => 0 < C + m' * D).
Proof.
  intro G. set (g := C + m * D) in *. exists (g / (Rabs D + 1)).
  pose proof (Rabs_pos D) as HD. assert (Hd : 0 < Rabs D + 1) by lra.
  assert (He : 0 < g / (Rabs D + 1)) by (apply Rdiv_lt_0_compat; assumption).
  split; [exact He |]. intros m' Hm.
  assert (E : C + m' * D = g + (m' - m) * D) by (unfold g; ring). rewrite E.
  assert (B : Rabs ((m' - m) * D) <= g / (Rabs D + 1) * Rabs D).
  { rewrite Rabs_mult. apply Rmult_le_compat_r; [exact HD | lra]. }
  assert (B2 : g / (Rabs D + 1) * Rabs D < g).
  { assert (Eg : g = g / (Rabs D + 1) * (Rabs D + 1)) by (field; lra). rewrite Eg at 2.
    apply Rmult_lt_compat_l; [exact He | lra]. }
  pose proof (Rle_abs (- ((m' - m) * D))) as B3. rewrite Rabs_Ropp in B3. lra.
Qed.

Lemma nonstrict_near (C D m : R) : ratl C -> ratl D -> 0 <= C + m * D ->
  ratl m \/ exists e, near m e (fun m' => 0 <= C + m' * D).
Proof.
  intros HC HD G. destruct (Req_dec D 0) as [Z | N].
  - right. exists 1. split; [lra |]. intros m' _. rewrite Z in *. lra.
  - destruct G as [G | G].
    + right. destruct (strict_near C D m G) as [e [He H]]. exists e. split; [exact He |]. intros m' Hm. left. apply H, Hm.
    + left. assert (E : m = (- C) / D) by (field_simplify_eq; [lra | exact N]). rewrite E.
      apply ratl_div; [apply ratl_opp, HC | exact HD | exact N].
Qed.

Lemma near_and m e1 e2 (Q1 Q2 : R -> Prop) : near m e1 Q1 -> near m e2 Q2 -> near m (Rmin e1 e2) (fun x => Q1 x /\ Q2 x).
Proof.
  intros [E1 H1] [E2 H2]. split; [apply Rmin_glb_lt; assumption |]. intros m' Hm.
  pose proof (Rmin_l e1 e2). pose proof (Rmin_r e1 e2). split; [apply H1 | apply H2]; lra.
Qed.

(** ** a real parameter in the box between two rational parameters => a rational one *)
Definition inbox (x0 dxr lx ux y0 dyr ly uy lo hi m : R) : Prop :=
  lo <= m /\ m <= hi /\ lx <= x0 + m * dxr /\ x0 + m * dxr < ux /\ ly <= y0 + m * dyr /\ y0 + m * dyr < uy.

Lemma rationalize_core (x0 dxr lx ux y0 dyr ly uy lo hi m : R) :
  ratl x0 -> ratl dxr -> ratl lx -> ratl y0 -> ratl dyr -> ratl ly -> ratl lo -> ratl hi ->
  inbox x0 dxr lx ux y0 dyr ly uy lo hi m -> exists q : Q, inbox x0 dxr lx ux y0 dyr ly uy lo hi (Q2R q).
Proof.
  intros Rx0 Rdx Rlx Ry0 Rdy Rly Rlo Rhi [H1 [H2 [H3 [H4 [H5 H6]]]]].
  assert (Done : ratl m -> exists q : Q, inbox x0 dxr lx ux y0 dyr ly uy lo hi (Q2R q)).
  { intros [q E]. exists q. rewrite <- E. unfold inbox. auto 10. }
  assert (R1 : ratl 1) by (exists 1%Q; unfold Q2R; cbn; lra).
  destruct (nonstrict_near (- lo) 1 m (ratl_opp _ Rlo) R1 ltac:(lra)) as [K | [e1 N1]]; [auto |].
  destruct (nonstrict_near hi (- 1) m Rhi (ratl_opp _ R1) ltac:(lra)) as [K | [e2 N2]]; [auto |].
  destruct (nonstrict_near (x0 - lx) dxr m (ratl_minus _ _ Rx0 Rlx) Rdx ltac:(lra)) as [K | [e3 N3]]; [auto |].
  destruct (nonstrict_near (y0 - ly) dyr m (ratl_minus _ _ Ry0 Rly) Rdy ltac:(lra)) as [K | [e4 N4]]; [auto |].
  destruct (strict_near (ux - x0) (- dxr) m ltac:(lra)) as [e5 N5].
  destruct (strict_near (uy - y0) (- dyr) m ltac:(lra)) as [e6 N6].
  pose proof (near_and _ _ _ _ _ (near_and _ _ _ _ _ (near_and _ _ _ _ _ N1 N2) (near_and _ _ _ _ _ N3 N4)) (near_and _ _ _ _ _ N5 N6)) as [He H].
  set (e := Rmin (Rmin (Rmin e1 e2) (Rmin e3 e4)) (Rmin e5 e6)) in *.
  destruct (Q_dense (m - e / 2) (m + e / 2) ltac:(lra)) as [q [Q1 Q2]].
  exists q. assert (Ha : Rabs (Q2R q - m) < e) by (apply Rabs_def1; lra).
  destruct (H _ Ha) as [[[A1 A2] [A3 A4]] [A5 A6]]. unfold inbox. repeat split; lra.
Qed.

Theorem rationalize (a b : pt) (e : extent) (ta tb : Q) (m : R) :
  Q2R ta <= m -> m <= Q2R tb ->
  IZR (eminx e) <= IZR (fst a) + m * (IZR (fst b) - IZR (fst a)) -> IZR (fst a) + m * (IZR (fst b) - IZR (fst a)) < IZR (emaxx e) ->
  IZR (eminy e) <= IZR (snd a) + m * (IZR (snd b) - IZR (snd a)) -> IZR (snd a) + m * (IZR (snd b) - IZR (snd a)) < IZR (emaxy e) ->
  exists m' : Q, (ta <= m' /\ m' <= tb)%Q /\ PIn a b m' e.
Proof.
  intros H1 H2 H3 H4 H5 H6.
  destruct (rationalize_core (IZR (fst a)) (IZR (fst b) - IZR (fst a)) (IZR (eminx e)) (IZR (emaxx e))
                             (IZR (snd a)) (IZR (snd b) - IZR (snd a)) (IZR (eminy e)) (IZR (emaxy e)) (Q2R ta) (Q2R tb) m)
    as [q [G1 [G2 [G3 [G4 [G5 G6]]]]]];
    try apply ratl_IZR; try apply ratl_Q; try (apply ratl_minus; apply ratl_IZR); [unfold inbox; auto 10 |].
  exists q. split; [split; apply Rle_Qle; assumption |].
  unfold PIn, AxisIn. repeat split.
  - apply Rle_Qle. rewrite Q2R_co, Q2R_inject_Z. exact G3.
  - apply Rlt_Qlt. rewrite Q2R_co, Q2R_inject_Z. exact G4.
  - apply Rle_Qle. rewrite Q2R_co, Q2R_inject_Z. exact G5.
  - apply Rlt_Qlt. rewrite Q2R_co, Q2R_inject_Z. exact G6.
Qed.

Print Assumptions rationalize.
