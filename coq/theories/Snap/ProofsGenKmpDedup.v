(** * Tie G2 (loops): kmpDeduplicate (snap.go) and mapslicehelp.RemoveSequences REGENERATED from source on every
      run (gen/KmpDedupGen.v) are the model's [kmpDeduplicate] / [removeSequences] (Snap/Model.v).

    Same translation as gen/KmpGen.v (error monad, one Fixpoint on fuel per [for] loop over the variables it
    assigns, [range] loops as [range_loop]).  Kept as calls of the model's function of the same meaning, after
    the translator has checked on the AST that the source calls the expected library function:
    - [sortedmap.New[string, [2]int](n, func(a, b [2]int) bool { return a[xAx] < b[xAx] })] = the empty [seqmap],
      [X.Insert(fmt.Sprint(segment), [2]int{a, b})] = [seq_insert X segment (a, b)] (key: the segment itself),
      [mmap := X.Map(); for _, key := range X.Keys() { .. mmap[key] .. }] = the entries of X in order;
    - [slices.Contains(segment, v)] = [mem_pt v segment]; [copy] / [slices.Reverse] on a local created by [make]
      = [go_copy] / [rev]; [append(corpus, ring[a:b]...)] = [corpus ++ ..] (slices as values);
    - kmpSearchAll is gen/KmpGen.v's (equal to the model's: Snap/ProofsGenKmp.v).
    The scan loop runs on the model's fuel + 1: the model reports a negative restart index in the iteration that
    computes it, the Go code one iteration later when it indexes with it.  The equality holds for EVERY ring and
    every outcome, because the model never exhausts its fuel ([kmpDeduplicate_no_OutOfFuel]). *)
From Coq Require Import ZArith List Bool Lia.
From Texel Require Import Prelude.Base Prelude.GoLoop Index.Model Snap.Model Snap.ProofsKmpSearch
  Snap.ProofsKmpTotal Snap.ProofsGenKmp.
From Texel.Gen Require Import KmpGen KmpDedupGen.
Import ListNotations.
Open Scope Z_scope.

Lemma bind_Ok_id {A} (x : res A) : bind x (fun t => Ok t) = x.
Proof. destruct x; reflexivity. Qed.

(** ** mapslicehelp.RemoveSequences *)
Lemma gen_RemoveSequences_loop s : forall (m : seqmap) newS keepFrom,
  bind (range_loop (R := list pt)
          (fun (key : list pt * (Z * Z)) '((newS, keepFrom) : list pt * Z) =>
             do t <- slice s keepFrom (fst (snd key)); Ok (Cont (newS ++ t, snd (snd key))))
          m (newS, keepFrom))
       (fun out => match out with
                   | Ret r => Ok r
                   | Next (newS, keepFrom) => do t <- slice s keepFrom (zlen s); Ok (newS ++ t)
                   end)
  = removeSequencesLoop s m keepFrom newS.
Proof.
  induction m as [| [key [a b]] m IH]; intros newS keepFrom; [reflexivity |].
  cbn [range_loop removeSequencesLoop fst snd].
  destruct (slice s keepFrom a) as [t | e]; cbn [bind]; [apply IH | reflexivity].
Qed.

Theorem gen_RemoveSequences_spec s m : gen_RemoveSequences s m = removeSequences s m.
Proof. unfold gen_RemoveSequences, removeSequences. cbv zeta. apply gen_RemoveSequences_loop. Qed.

(** ** small facts *)
Lemma idx_last (l : list Z) : idx l (zlen l - 1) = lastZ l.
Proof.
  unfold lastZ, last_opt, idx. destruct l as [| a l] using rev_ind; [reflexivity |].
  rewrite rev_app_distr. cbn [rev app]. rewrite zlen_app. change (zlen [a]) with 1.
  pose proof (zlen_nonneg l). destruct (Z.ltb_spec (zlen l + 1 - 1) 0) as [H1 | _]; [lia |].
  replace (Z.to_nat (zlen l + 1 - 1)) with (length l) by (unfold zlen; lia).
  rewrite nth_error_app2 by lia. rewrite Nat.sub_diag. reflexivity.
Qed.

Lemma go_copy_fresh {A} (z : A) (l : list A) : go_copy (repeat z (Z.to_nat (zlen l))) l = l.
Proof.
  unfold go_copy. rewrite repeat_length. replace (Z.to_nat (zlen l)) with (length l) by (unfold zlen; lia).
  rewrite firstn_all. rewrite skipn_all2 by (rewrite repeat_length; lia). apply app_nil_r.
Qed.

Lemma range_loop_contains (segment : list pt) : forall (l : list pt) (stop : bool),
  range_loop (R := list pt)
    (fun (v : pt) (stop : bool) => if negb (mem_pt v segment) then Ok (Brk true) else Ok (Cont stop)) l stop
  = Ok (Next (stop || existsb (fun v => negb (mem_pt v segment)) l)).
Proof.
  induction l as [| v l IH]; intro stop; cbn [range_loop existsb]; [rewrite orb_false_r; reflexivity |].
  destruct (negb (mem_pt v segment)); cbn [orb]; [rewrite orb_true_r; reflexivity | apply IH].
Qed.

Lemma firstn_add {A} (l : list A) : forall n m, firstn (n + m) l = firstn n l ++ firstn m (skipn n l).
Proof.
  induction l as [| a l IH]; intros n m.
  - rewrite !firstn_nil, skipn_nil, firstn_nil. reflexivity.
  - destruct n as [| n]; [reflexivity |]. cbn [Nat.add firstn skipn app]. f_equal. apply IH.
Qed.

Lemma slice_app {A} (r : list A) a b c x y :
  slice r a b = Ok x -> slice r b c = Ok y -> slice r a c = Ok (x ++ y).
Proof.
  intros Hx Hy. apply slice_Ok_inv in Hx. apply slice_Ok_inv in Hy.
  destruct Hx as (H1 & H2 & ->). destruct Hy as (H3 & H4 & ->).
  rewrite slice_ok by lia. f_equal.
  replace (Z.to_nat (c - a)) with (Z.to_nat (b - a) + Z.to_nat (c - b))%nat by lia.
  rewrite firstn_add. f_equal. f_equal. rewrite skipn_skipn_add. f_equal. lia.
Qed.

Lemma idx_nth {A} (l : list A) k : 0 <= k ->
  idx l k = match nth_error l (Z.to_nat k) with Some a => Ok a | None => Err IndexOutOfRange end.
Proof. intro H. unfold idx. destruct (Z.ltb_spec k 0); [lia | reflexivity]. Qed.

(** ** the reverse scan (loop 2): the model's fuel [length visited] is enough *)
Lemma gen_reverse_scan r seqs visited i vertex : forall fuel j acc,
  j <= zlen visited + 1 -> zlen visited + 2 - j <= Z.of_nat fuel ->
  exists j', gen_kmpDeduplicate_loop2 r (zlen r) seqs visited i vertex fuel acc j
             = match reverseScan fuel r visited i j acc with Ok rs => Ok (Next (rs, j')) | Err e => Err e end.
Proof.
  induction fuel as [| fuel IH]; intros j acc Hj Hf; [lia |].
  cbn [gen_kmpDeduplicate_loop2 reverseScan]. cbv zeta.
  destruct (Z.leb_spec j (zlen visited)) as [Hle | Hgt]; [| eexists; reflexivity].
  destruct (i + (j - 2) <=? zlen r - 1); cbn [bind]; [| eexists; reflexivity].
  destruct (idx visited (zlen visited - j)) as [a | e]; cbn [bind]; [| exists 0; reflexivity].
  destruct (idx r (i + (j - 2))) as [b | e]; cbn [bind]; [| exists 0; reflexivity].
  destruct (pt_eqb a b); [apply IH; lia | eexists; reflexivity].
Qed.

(** ** the corpus expansion (loop 3); invariant: corpus = ring[start : min(end, len ring)] *)
Lemma corpusLoop_slice_err r segment start e k fuel x :
  slice r start (Z.min e (zlen r)) = Err x -> corpusLoop (S fuel) r segment start e k = Err x.
Proof. intro H. cbn [corpusLoop]. rewrite H. reflexivity. Qed.

Lemma gen_corpus_loop r seqs visited i vertex rs j segment start : forall fuel e k corpus,
  slice r start (Z.min e (zlen r)) = Ok corpus ->
  exists e' k',
    gen_kmpDeduplicate_loop3 r (zlen r) seqs visited i vertex rs j segment start fuel e k corpus
    = match corpusLoop fuel r segment start e k with Ok c => Ok (Next (e', k', c)) | Err x => Err x end.
Proof.
  induction fuel as [| fuel IH]; intros e k corpus Hs; [exists 0, 0; reflexivity |].
  cbn [gen_kmpDeduplicate_loop3 corpusLoop]. cbv zeta. rewrite Hs. cbn [bind].
  destruct (slice corpus k (zlen corpus)) as [fresh | x]; cbn [bind]; [| exists 0, 0; reflexivity].
  rewrite range_loop_contains. cbn [bind orb].
  destruct (Z.ltb_spec (zlen r) e) as [Hlt | Hge].
  - rewrite orb_true_r. eexists; eexists; reflexivity.
  - rewrite orb_false_r. destruct (existsb (fun v => negb (mem_pt v segment)) fresh); [eexists; eexists; reflexivity |].
    pose proof (zlen_nonneg segment) as HL. pose proof (slice_Ok_inv _ _ _ _ Hs) as (H1 & H2 & _).
    rewrite Z.min_l in Hs, H1 by lia.
    rewrite (slice_ok r e (Z.min (e + 2 * zlen segment) (zlen r))) by lia. cbn [bind].
    apply IH. eapply slice_app; [exact Hs |]. apply slice_ok; lia.
Qed.

(** ** the scan over the ring (loop 1) *)
Lemma gen_loop1_negative r fuel seqs visited i : i < 0 ->
  gen_kmpDeduplicate_loop1 r (zlen r) (S fuel) seqs visited i = Err IndexOutOfRange.
Proof.
  intro Hi. cbn [gen_kmpDeduplicate_loop1]. pose proof (zlen_nonneg r).
  destruct (Z.ltb_spec i (zlen r)); [| lia]. unfold idx at 1. destruct (Z.ltb_spec i 0); [reflexivity | lia].
Qed.

Lemma gen_dedup_loop r : forall fuel seqs visited i,
  kmpDedupLoop fuel r seqs visited i <> Err OutOfFuel ->
  exists v' i',
    gen_kmpDeduplicate_loop1 r (zlen r) (S fuel) seqs visited i
    = match kmpDedupLoop fuel r seqs visited i with Ok s => Ok (Next (s, v', i')) | Err e => Err e end.
Proof.
  induction fuel as [| fuel IH]; intros seqs visited i; [intro H; exfalso; apply H; reflexivity |].
  cbn [kmpDedupLoop]. remember (S fuel) as f1 eqn:Ef1. cbn [gen_kmpDeduplicate_loop1]. cbv zeta. subst f1.
  destruct (i <? zlen r); [| intros _; eexists; eexists; reflexivity].
  destruct (idx r i) as [vertex | e]; cbn [bind]; [| intros _; exists [], 0; reflexivity].
  destruct (Z.leb_spec (zlen visited) 1) as [Hle | Hgt]; cbn [bind negb].
  - (* fewer than two visited points: no step back *) apply IH.
  - rewrite (idx_nth visited (zlen visited - 2)) by lia.
    destruct (nth_error visited (Z.to_nat (zlen visited - 2))) as [p |] eqn:Ep;
      [| apply nth_error_None in Ep; unfold zlen in *; lia].
    cbn [bind]. destruct (pt_eqb p vertex); cbn [negb]; [| apply IH].
    (* a step back *)
    destruct (idx visited (zlen visited - 1)) as [v1 | e]; cbn [bind]; [| intros _; exists [], 0; reflexivity].
    destruct (gen_reverse_scan r seqs visited i vertex (length visited) 3 [v1; p]) as [j' ->];
      [lia | unfold zlen; lia |].
    destruct (reverseScan (length visited) r visited i 3 [v1; p]) as [rs | e]; cbn [bind];
      [| intros _; exists [], 0; reflexivity].
    rewrite go_copy_fresh.
    set (segment := rev rs). set (L := zlen segment). set (start := i - L).
    replace (length r + 2)%nat with (S (length r + 1)) by lia.
    destruct (slice r start (Z.min (start + 3 * L) (zlen r))) as [c0 | e] eqn:Es; cbn [bind].
    2: { rewrite (corpusLoop_slice_err _ _ _ _ _ _ _ Es). cbn [bind]. intros _; exists [], 0; reflexivity. }
    destruct (gen_corpus_loop r seqs visited i vertex rs j' segment start (S (length r + 1)) _ 0 _ Es) as (e' & k' & ->).
    destruct (corpusLoop (S (length r + 1)) r segment start (start + 3 * L) 0) as [corpus | e]; cbn [bind];
      [| intros _; exists [], 0; reflexivity].
    rewrite !gen_kmpSearchAll_spec.
    destruct (kmpSearchAll corpus segment) as [ms | e]; cbn [bind]; [| intros _; exists [], 0; reflexivity].
    destruct (kmpSearchAll corpus rs) as [rms | e]; cbn [bind]; [| intros _; exists [], 0; reflexivity].
    rewrite !idx_last.
    destruct ((1 <? zlen ms) && (zlen ms - zlen rms =? 1)).
    { destruct (lastZ ms) as [lm | e]; cbn [bind]; [apply IH | intros _; exists [], 0; reflexivity]. }
    destruct ((1 <? zlen ms) && (zlen ms =? zlen rms)).
    { destruct (lastZ ms) as [lm | e]; cbn [bind]; [apply IH | intros _; exists [], 0; reflexivity]. }
    destruct ((zlen ms =? 1) && (zlen rms =? 1)); [apply IH |].
    cbv beta.
    assert (Tail : forall seqs' i',
      (if i' <? 0 then Err IndexOutOfRange else kmpDedupLoop fuel r seqs' [] i') <> Err OutOfFuel ->
      exists v' i'', gen_kmpDeduplicate_loop1 r (zlen r) (S fuel) seqs' [] i'
                     = match (if i' <? 0 then Err IndexOutOfRange else kmpDedupLoop fuel r seqs' [] i') with
                       | Ok s => Ok (Next (s, v', i'')) | Err e => Err e end).
    { intros seqs' i'. destruct (Z.ltb_spec i' 0) as [Hn | Hp]; [| apply IH].
      intros _. rewrite gen_loop1_negative by assumption. exists [], 0; reflexivity. }
    destruct (zlen ms <? zlen rms).
    { destruct (lastZ rms) as [lr | e]; cbn [bind]; [apply Tail | intros _; exists [], 0; reflexivity]. }
    destruct ((1 <? zlen ms) && (1 <? zlen ms - zlen rms)).
    { destruct (lastZ ms) as [lm | e]; cbn [bind]; [apply Tail | intros _; exists [], 0; reflexivity]. }
    cbn [bind]. apply Tail.
Qed.

(** ** kmpDeduplicate: every ring, every outcome *)
Theorem gen_kmpDeduplicate_spec r : gen_kmpDeduplicate r = kmpDeduplicate r.
Proof.
  assert (Hne : kmpDedupLoop (kmpFuel r) r [] [] 0 <> Err OutOfFuel).
  { intro H. apply (kmpDeduplicate_no_OutOfFuel r). unfold kmpDeduplicate. rewrite H. reflexivity. }
  unfold gen_kmpDeduplicate, kmpDeduplicate. cbv zeta.
  destruct (gen_dedup_loop r (kmpFuel r) [] [] 0 Hne) as (v' & i' & ->).
  destruct (kmpDedupLoop (kmpFuel r) r [] [] 0) as [seqs | e]; cbn [bind]; [| reflexivity].
  rewrite gen_RemoveSequences_spec. apply bind_Ok_id.
Qed.
