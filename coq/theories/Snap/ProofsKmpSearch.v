(** * C06, search helpers: kmpTable / kmpSearch / kmpSearchAll are total on every input that
      satisfies the callers' size preconditions, and their results are in range.

    What is NOT true of the model (and of the Go code): a position reported by [kmpSearch] need
    not be an occurrence of [find] (the non-standard shift [i = table[i]; m = m + i - table[i]]
    evaluated with the new [i] under-shifts, after which the assumed matched prefix is wrong):
    [kmpSearch_unsound_refuted] below. *)
From Coq Require Import ZArith List Bool Lia Sorted.
From Texel Require Import Prelude.Base Index.Model Snap.Model.
Import ListNotations.
Open Scope Z_scope.

(** ** lists, checked access *)
Lemma zlen_nonneg {A} (l : list A) : 0 <= zlen l.
Proof. unfold zlen. lia. Qed.

Lemma zlen_app {A} (l1 l2 : list A) : zlen (l1 ++ l2) = zlen l1 + zlen l2.
Proof. unfold zlen. rewrite app_length. lia. Qed.

Lemma zlen_cons {A} (a : A) (l : list A) : zlen (a :: l) = zlen l + 1.
Proof. unfold zlen. cbn [length]. lia. Qed.

Lemma zlen_nil {A} : zlen (@nil A) = 0.
Proof. reflexivity. Qed.

Lemma zlen_pos_of_ne {A} (l : list A) : l <> [] -> 1 <= zlen l.
Proof. destruct l as [| a l]; [congruence |]. intros _. rewrite zlen_cons. pose proof (zlen_nonneg l). lia. Qed.

Lemma pt_eqb_eq p q : pt_eqb p q = true <-> p = q.
Proof.
  destruct p as [px py], q as [qx qy]. unfold pt_eqb. cbn [fst snd].
  rewrite andb_true_iff, !Z.eqb_eq. split.
  - intros [Hx Hy]. subst. reflexivity.
  - intro H. inversion H. auto.
Qed.

Lemma pt_eqb_refl p : pt_eqb p p = true.
Proof. apply pt_eqb_eq. reflexivity. Qed.

Lemma pt_eqb_neq p q : pt_eqb p q = false <-> p <> q.
Proof.
  split.
  - intros H E. apply pt_eqb_eq in E. congruence.
  - intros H. destruct (pt_eqb p q) eqn:E; [| reflexivity]. apply pt_eqb_eq in E. contradiction.
Qed.

Lemma idx_Ok_inv {A} (l : list A) i a :
  idx l i = Ok a -> 0 <= i < zlen l /\ nth_error l (Z.to_nat i) = Some a.
Proof.
  unfold idx. destruct (Z.ltb_spec i 0) as [Hi | Hi]; [discriminate |].
  destruct (nth_error l (Z.to_nat i)) as [b |] eqn:E; [| discriminate].
  intro H. inversion H. subst b. split; [| reflexivity].
  assert (Hn : (Z.to_nat i < length l)%nat) by (apply nth_error_Some; congruence).
  unfold zlen. lia.
Qed.

Lemma idx_nth_error {A} (l : list A) i a :
  0 <= i -> nth_error l (Z.to_nat i) = Some a -> idx l i = Ok a.
Proof.
  intros Hi E. unfold idx. destruct (Z.ltb_spec i 0) as [H | H]; [lia |]. rewrite E. reflexivity.
Qed.

Lemma idx_in_range {A} (l : list A) i : 0 <= i < zlen l -> exists a, idx l i = Ok a.
Proof.
  intros H. unfold idx. destruct (Z.ltb_spec i 0) as [Hi | Hi]; [lia |].
  destruct (nth_error l (Z.to_nat i)) as [b |] eqn:E; [eauto |].
  apply nth_error_None in E. unfold zlen in H. lia.
Qed.

Lemma set_nth_some {A} (l : list A) n v : (n < length l)%nat ->
  exists l', set_nth l n v = Some l' /\ length l' = length l /\ nth_error l' n = Some v /\
             forall j, j <> n -> nth_error l' j = nth_error l j.
Proof.
  revert n. induction l as [| a l IH]; intros n H; cbn [length] in H; [lia |].
  destruct n as [| n]; cbn [set_nth].
  - exists (v :: l). repeat split. intros [| j] Hj; [congruence | reflexivity].
  - destruct (IH n ltac:(lia)) as (l' & E & Hl & Hn & Ho). rewrite E.
    exists (a :: l'). cbn [length nth_error]. repeat split; [lia | exact Hn |].
    intros [| j] Hj; cbn [nth_error]; [reflexivity | apply Ho; lia].
Qed.

Lemma setidx_ok {A} (l : list A) i v : 0 <= i < zlen l ->
  exists l', setidx l i v = Ok l' /\ zlen l' = zlen l /\ idx l' i = Ok v /\
             forall j, j <> i -> idx l' j = idx l j.
Proof.
  intros H. unfold setidx. destruct (Z.ltb_spec i 0) as [Hi | Hi]; [lia |].
  destruct (set_nth_some l (Z.to_nat i) v) as (l' & E & Hl & Hn & Ho); [unfold zlen in H; lia |].
  rewrite E. exists l'. repeat split.
  - unfold zlen. rewrite Hl. reflexivity.
  - apply idx_nth_error; assumption.
  - intros j Hj. unfold idx. destruct (Z.ltb_spec j 0) as [Hj0 | Hj0]; [reflexivity |].
    rewrite Ho; [reflexivity | lia].
Qed.

Lemma slice_ok {A} (l : list A) a b : 0 <= a <= b -> b <= zlen l ->
  slice l a b = Ok (firstn (Z.to_nat (b - a)) (skipn (Z.to_nat a) l)).
Proof.
  intros H1 H2. unfold slice.
  destruct (Z.ltb_spec a 0) as [Ha | Ha]; [lia |]. destruct (Z.ltb_spec b a) as [Hb | Hb]; [lia |].
  destruct (Z.ltb_spec (zlen l) b) as [Hl | Hl]; [lia |]. reflexivity.
Qed.

Lemma slice_Ok_inv {A} (l : list A) a b t : slice l a b = Ok t ->
  0 <= a <= b /\ b <= zlen l /\ t = firstn (Z.to_nat (b - a)) (skipn (Z.to_nat a) l).
Proof.
  unfold slice.
  destruct (Z.ltb_spec a 0) as [Ha | Ha]; [discriminate |].
  destruct (Z.ltb_spec b a) as [Hb | Hb]; [discriminate |].
  destruct (Z.ltb_spec (zlen l) b) as [Hl | Hl]; [discriminate |]. cbn [orb]. intro HE. inversion HE.
  repeat split; lia.
Qed.

Lemma zlen_slice {A} (l : list A) a b : 0 <= a <= b -> b <= zlen l ->
  zlen (firstn (Z.to_nat (b - a)) (skipn (Z.to_nat a) l)) = b - a.
Proof.
  intros H1 H2. unfold zlen in *. rewrite firstn_length, skipn_length. lia.
Qed.

(** ** kmpTable *)
Lemma kmpTableLoop_S f find table pos cnd :
  kmpTableLoop (S f) find table pos cnd =
  if pos <? zlen find then
    do a <- idx find (pos - 1);
    do b <- idx find cnd;
    if pt_eqb a b then
      do t <- setidx table pos (cnd + 1);
      kmpTableLoop f find t (pos + 1) (cnd + 1)
    else if 0 <? cnd then
      do c <- idx table cnd;
      kmpTableLoop f find table pos c
    else
      do t <- setidx table pos 0;
      kmpTableLoop f find t (pos + 1) cnd
  else Ok table.
Proof. reflexivity. Qed.

(** the failure-function bounds: [t[0] = -1] and [0 <= t[k] < k] for [1 <= k < pos] *)
Definition tbl_inv (t : list Z) (pos : Z) : Prop :=
  idx t 0 = Ok (-1) /\ forall k, 1 <= k < pos -> exists v, idx t k = Ok v /\ 0 <= v < k.

Lemma tbl_inv_mono t p q : q <= p -> tbl_inv t p -> tbl_inv t q.
Proof. intros Hq [H0 H]. split; [exact H0 |]. intros k Hk. apply H. lia. Qed.

Lemma tbl_inv_set t t' pos v : 2 <= pos -> 0 <= v < pos -> tbl_inv t pos ->
  idx t' pos = Ok v -> (forall j, j <> pos -> idx t' j = idx t j) -> tbl_inv t' (pos + 1).
Proof.
  intros Hp Hv [H0 H] Hset Hoth. split.
  - rewrite Hoth; [exact H0 | lia].
  - intros k Hk. destruct (Z.eq_dec k pos) as [-> | Hne].
    + exists v. split; [exact Hset | lia].
    + rewrite Hoth; [| exact Hne]. apply H. lia.
Qed.

Lemma kmpTableLoop_ok find : forall fuel table pos cnd,
  zlen find <= zlen table -> 2 <= pos -> 0 <= cnd <= pos - 2 -> tbl_inv table pos ->
  Z.of_nat fuel > Z.max 0 (2 * (zlen find - pos)) + cnd ->
  exists t, kmpTableLoop fuel find table pos cnd = Ok t /\ zlen t = zlen table /\
            tbl_inv t (Z.max pos (zlen find)).
Proof.
  induction fuel as [| f IH]; intros table pos cnd Hlen Hpos Hcnd Hinv Hfuel; [lia |].
  rewrite kmpTableLoop_S. destruct (Z.ltb_spec pos (zlen find)) as [Hlt | Hge].
  - destruct (idx_in_range find (pos - 1)) as [a Ea]; [lia |].
    destruct (idx_in_range find cnd) as [b Eb]; [lia |].
    rewrite Ea, Eb. cbn [bind]. destruct (pt_eqb a b).
    + destruct (setidx_ok table pos (cnd + 1)) as (t' & Es & Hl & Hset & Hoth); [lia |].
      rewrite Es. cbn [bind].
      destruct (IH t' (pos + 1) (cnd + 1)) as (t & Et & Htl & Hti); try lia.
      * apply (tbl_inv_set table t' pos (cnd + 1)); try assumption; lia.
      * exists t. split; [exact Et |]. split; [lia |].
        replace (Z.max pos (zlen find)) with (Z.max (pos + 1) (zlen find)) by lia. exact Hti.
    + destruct (Z.ltb_spec 0 cnd) as [Hc | Hc].
      * destruct Hinv as [H0 Hk]. destruct (Hk cnd) as (v & Ev & Hv); [lia |].
        rewrite Ev. cbn [bind].
        destruct (IH table pos v) as (t & Et & Htl & Hti); try lia; try assumption.
        -- split; assumption.
        -- exists t. auto.
      * destruct (setidx_ok table pos 0) as (t' & Es & Hl & Hset & Hoth); [lia |].
        rewrite Es. cbn [bind].
        destruct (IH t' (pos + 1) cnd) as (t & Et & Htl & Hti); try lia.
        -- apply (tbl_inv_set table t' pos 0); try assumption; lia.
        -- exists t. split; [exact Et |]. split; [lia |].
           replace (Z.max pos (zlen find)) with (Z.max (pos + 1) (zlen find)) by lia. exact Hti.
  - exists table. split; [reflexivity |]. split; [reflexivity |].
    replace (Z.max pos (zlen find)) with pos by lia. exact Hinv.
Qed.

Lemma kmpTable_inv find table : 2 <= zlen table -> zlen find <= zlen table ->
  exists t, kmpTable find table = Ok t /\ zlen t = zlen table /\ tbl_inv t (Z.max 2 (zlen find)).
Proof.
  intros H2 Hlen. unfold kmpTable.
  destruct (setidx_ok table 0 (-1)) as (t0 & E0 & Hl0 & Hs0 & Ho0); [lia |].
  rewrite E0. cbn [bind].
  destruct (setidx_ok t0 1 0) as (t1 & E1 & Hl1 & Hs1 & Ho1); [lia |].
  rewrite E1. cbn [bind].
  destruct (kmpTableLoop_ok find (2 * length find + 2) t1 2 0) as (t & Et & Htl & Hti); try lia.
  - split.
    + rewrite Ho1; [exact Hs0 | lia].
    + intros k Hk. assert (k = 1) by lia. subst k. exists 0. split; [exact Hs1 | lia].
  - unfold zlen. lia.
  - exists t. split; [exact Et |]. split; [lia | exact Hti].
Qed.

(** C06: kmpTable never indexes out of range and never runs out of fuel; the table it returns
    has the failure-function bounds *)
Theorem kmpTable_ok find table : (2 <= length table)%nat -> (length find <= length table)%nat ->
  exists t, kmpTable find table = Ok t /\ length t = length table /\ idx t 0 = Ok (-1) /\
            forall k, 1 <= k < zlen find -> exists v, idx t k = Ok v /\ 0 <= v < k.
Proof.
  intros H2 Hlen.
  destruct (kmpTable_inv find table) as (t & Et & Htl & H0 & Hk); try (unfold zlen; lia).
  exists t. split; [exact Et |]. split; [unfold zlen in Htl; lia |]. split; [exact H0 |].
  intros k Hk'. apply Hk. lia.
Qed.

(** ** kmpSearch *)
Lemma kmpSearchLoop_S f corpus find table m i :
  kmpSearchLoop (S f) corpus find table m i =
  if m + i <? zlen corpus then
    do a <- idx find i;
    do b <- idx corpus (m + i);
    if pt_eqb a b then
      if i =? zlen find - 1 then Ok m
      else kmpSearchLoop f corpus find table m (i + 1)
    else
      do ti <- idx table i;
      if -1 <? ti then
        do ti' <- idx table ti;
        kmpSearchLoop f corpus find table (m + ti - ti') ti
      else kmpSearchLoop f corpus find table (m + 1) 0
  else Ok (zlen corpus).
Proof. reflexivity. Qed.

(** the measure: [m] strictly increases on every mismatch, [i] on every match *)
Lemma kmpSearchLoop_ok corpus find t : tbl_inv t (zlen find) ->
  forall fuel m i, 0 <= m <= zlen corpus -> 0 <= i < zlen find ->
    Z.of_nat fuel >= (zlen corpus + 1 - m) * (zlen find + 1) - i ->
    exists r, kmpSearchLoop fuel corpus find t m i = Ok r /\ m <= r <= zlen corpus /\
              (r < zlen corpus -> r + zlen find <= zlen corpus).
Proof.
  intros [H0 Hk]. set (lc := zlen corpus). set (lf := zlen find).
  induction fuel as [| f IH]; intros m i Hm Hi Hfuel.
  - exfalso. assert (1 * (lf + 1) <= (lc + 1 - m) * (lf + 1)) by (apply Z.mul_le_mono_nonneg_r; lia).
    fold lc lf in Hfuel. lia.
  - rewrite kmpSearchLoop_S. fold lc lf. destruct (Z.ltb_spec (m + i) lc) as [Hlt | Hge].
    + destruct (idx_in_range find i) as [a Ea]; [fold lf; lia |].
      destruct (idx_in_range corpus (m + i)) as [b Eb]; [fold lc; lia |].
      rewrite Ea, Eb. cbn [bind]. destruct (pt_eqb a b).
      * destruct (Z.eqb_spec i (lf - 1)) as [Hlast | Hnl].
        -- exists m. split; [reflexivity |]. lia.
        -- destruct (IH m (i + 1)) as (r & Er & Hr1 & Hr2); try lia.
           exists r. split; [exact Er |]. split; [lia | exact Hr2].
      * assert (Hstep : forall m', m + 1 <= m' <= lc -> forall i', 0 <= i' < lf ->
                  exists r, kmpSearchLoop f corpus find t m' i' = Ok r /\ m <= r <= lc /\
                            (r < lc -> r + lf <= lc)).
        { intros m' Hm' i' Hi'.
          assert (Hmul : (lc + 1 - m') * (lf + 1) <= (lc + 1 - m - 1) * (lf + 1))
            by (apply Z.mul_le_mono_nonneg_r; lia).
          destruct (IH m' i') as (r & Er & Hr1 & Hr2); try lia.
          exists r. split; [exact Er |]. split; [lia | exact Hr2]. }
        destruct (Z.eq_dec i 0) as [-> | Hi0].
        -- rewrite H0. cbn [bind]. change (-1 <? -1) with false. cbv iota.
           apply Hstep; lia.
        -- destruct (Hk i) as (v & Ev & Hv); [fold lf; lia |].
           rewrite Ev. cbn [bind]. destruct (Z.ltb_spec (-1) v) as [_ | Hv']; [| lia].
           destruct (Z.eq_dec v 0) as [-> | Hv0].
           ++ rewrite H0. cbn [bind]. apply Hstep; lia.
           ++ destruct (Hk v) as (w & Ew & Hw); [fold lf; lia |].
              rewrite Ew. cbn [bind]. apply Hstep; lia.
    + exists lc. split; [reflexivity |]. lia.
Qed.

(** C06: kmpSearch returns for every corpus and every non-empty pattern that fits the table;
    the result is [len corpus] ("not found") or a position at which the pattern fits. *)
Theorem kmpSearch_ok corpus find : find <> [] -> (length find <= Nat.max (length corpus) 2)%nat ->
  exists m, kmpSearch corpus find = Ok m /\ 0 <= m <= zlen corpus /\
            (m < zlen corpus -> m + zlen find <= zlen corpus).
Proof.
  intros Hne Hlen. unfold kmpSearch.
  destruct (kmpTable_inv find (repeat 0 (Nat.max (length corpus) 2))) as (t & Et & Htl & Hti).
  - unfold zlen. rewrite repeat_length. lia.
  - unfold zlen. rewrite repeat_length. lia.
  - rewrite Et. cbn [bind]. pose proof (zlen_pos_of_ne find Hne) as Hf.
    assert (Hti' : tbl_inv t (zlen find)) by (apply (tbl_inv_mono t (Z.max 2 (zlen find))); [lia | exact Hti]).
    destruct (kmpSearchLoop_ok corpus find t Hti'
                ((length corpus + 2) * (length find + 2)) 0 0) as (r & Er & Hr1 & Hr2).
    + pose proof (zlen_nonneg corpus). lia.
    + lia.
    + unfold zlen. nia.
    + exists r. auto.
Qed.

(** ** kmpSearchAll *)
Lemma kmpSearchAllLoop_S f corpus find offset acc :
  kmpSearchAllLoop (S f) corpus find offset acc =
  do m <- kmpSearch corpus find;
  if m =? zlen corpus then Ok acc
  else
    let acc' := acc ++ [m + offset] in
    do rest <- slice corpus (m + zlen find) (zlen corpus);
    if zlen rest <? zlen find then Ok acc'
    else kmpSearchAllLoop f rest find (offset + m + zlen find) acc'.
Proof. reflexivity. Qed.

(** [chain_from lo L ms]: [ms] starts at or after [lo] and consecutive entries are at least [L] apart *)
Fixpoint chain_from (lo L : Z) (ms : list Z) : Prop :=
  match ms with [] => True | m :: r => lo <= m /\ chain_from (m + L) L r end.

Lemma kmpSearchAllLoop_ok find : find <> [] -> forall fuel corpus offset acc,
  (length find <= length corpus)%nat -> (length corpus < fuel)%nat ->
  exists ms, kmpSearchAllLoop fuel corpus find offset acc = Ok (acc ++ ms) /\
             chain_from offset (zlen find) ms /\
             Forall (fun x => x + zlen find <= offset + zlen corpus) ms.
Proof.
  intros Hne. pose proof (zlen_pos_of_ne find Hne) as Hf.
  induction fuel as [| f IH]; intros corpus offset acc Hlen Hfuel; [lia |].
  rewrite kmpSearchAllLoop_S.
  destruct (kmpSearch_ok corpus find Hne) as (m & Em & Hm1 & Hm2); [lia |].
  rewrite Em. cbn [bind]. destruct (Z.eqb_spec m (zlen corpus)) as [Heq | Hneq].
  - exists []. rewrite app_nil_r. split; [reflexivity |]. split; [exact I | constructor].
  - assert (Hm3 : m + zlen find <= zlen corpus) by (apply Hm2; lia).
    cbv zeta. rewrite slice_ok by lia. cbn [bind].
    set (rest := firstn (Z.to_nat (zlen corpus - (m + zlen find))) (skipn (Z.to_nat (m + zlen find)) corpus)).
    assert (Hrest : zlen rest = zlen corpus - (m + zlen find)) by (apply zlen_slice; lia).
    destruct (Z.ltb_spec (zlen rest) (zlen find)) as [Hshort | Hlong].
    + exists [m + offset]. split; [reflexivity |]. split.
      * cbn [chain_from]. split; [lia | exact I].
      * constructor; [lia | constructor].
    + destruct (IH rest (offset + m + zlen find) (acc ++ [m + offset])) as (ms & Ems & Hch & Hall).
      * unfold zlen in Hlong. lia.
      * unfold zlen in Hrest, Hf. lia.
      * exists ((m + offset) :: ms). split.
        -- rewrite Ems. rewrite <- app_assoc. reflexivity.
        -- split.
           ++ cbn [chain_from]. split; [lia |].
              replace (m + offset + zlen find) with (offset + m + zlen find) by lia. exact Hch.
           ++ constructor; [lia |]. eapply Forall_impl; [| exact Hall].
              cbv beta. intros x Hx. lia.
Qed.

Lemma chain_from_lower lo L ms : 0 <= L -> chain_from lo L ms -> Forall (fun x => lo <= x) ms.
Proof.
  intro HL. revert lo. induction ms as [| m r IH]; intros lo H; [constructor |].
  cbn [chain_from] in H. destruct H as [H1 H2]. constructor; [exact H1 |].
  eapply Forall_impl; [| apply (IH _ H2)]. cbv beta. intros x Hx. lia.
Qed.

Lemma chain_from_sorted lo L ms : 1 <= L -> chain_from lo L ms -> StronglySorted Z.lt ms.
Proof.
  intro HL. revert lo. induction ms as [| m r IH]; intros lo H; [constructor |].
  cbn [chain_from] in H. destruct H as [H1 H2]. constructor; [apply (IH _ H2) |].
  eapply Forall_impl; [| apply (chain_from_lower _ L _ ltac:(lia) H2)]. cbv beta. intros x Hx. lia.
Qed.

(** consecutive reported positions do not overlap *)
Lemma chain_from_gap lo L ms : chain_from lo L ms ->
  forall j a b, nth_error ms j = Some a -> nth_error ms (S j) = Some b -> a + L <= b.
Proof.
  revert lo. induction ms as [| m r IH]; intros lo H j a b Ha Hb; [destruct j; discriminate |].
  cbn [chain_from] in H. destruct H as [H1 H2]. destruct j as [| j].
  - cbn [nth_error] in Ha, Hb. inversion Ha. subst a. destruct r as [| m2 r2]; [discriminate |].
    cbn [nth_error] in Hb. inversion Hb. subst b. cbn [chain_from] in H2. lia.
  - cbn [nth_error] in Ha. change (nth_error (m :: r) (S (S j))) with (nth_error r (S j)) in Hb.
    eapply IH; eassumption.
Qed.

(** C06: kmpSearchAll returns for every corpus at least as long as the non-empty pattern; the
    reported positions are non-negative, strictly increasing, pairwise non-overlapping and each
    leaves room for the pattern. *)
Theorem kmpSearchAll_ok corpus find : find <> [] -> (length find <= length corpus)%nat ->
  exists ms, kmpSearchAll corpus find = Ok ms /\
             chain_from 0 (zlen find) ms /\
             StronglySorted Z.lt ms /\
             Forall (fun m => 0 <= m /\ m + zlen find <= zlen corpus) ms /\
             (forall j a b, nth_error ms j = Some a -> nth_error ms (S j) = Some b -> a + zlen find <= b).
Proof.
  intros Hne Hlen. unfold kmpSearchAll. pose proof (zlen_pos_of_ne find Hne) as Hf.
  destruct (kmpSearchAllLoop_ok find Hne (length corpus + 2) corpus 0 []) as (ms & E & Hch & Hall);
    try lia.
  exists ms. cbn [app] in E. split; [exact E |]. split; [exact Hch |].
  split; [apply (chain_from_sorted 0 (zlen find)); assumption |]. split.
  - pose proof (chain_from_lower 0 (zlen find) ms ltac:(lia) Hch) as Hlo.
    rewrite Forall_forall in *. intros x Hx. split; [apply Hlo; exact Hx |].
    specialize (Hall x Hx). cbv beta in Hall. lia.
  - apply (chain_from_gap 0). exact Hch.
Qed.

(** ** what is false: a reported position need not be an occurrence.
    corpus = B A A B A B A A, find = B A A B A A (A = (0,0), B = (1,0); the shortest such pair over
    two letters): the mismatch at
    i = 5 sets i = table[5] = 2 and m = 0 + 2 - table[2] = 2 (the standard algorithm: m = 3); the
    comparison resumes at corpus[4], everything matches, and 2 is returned although
    corpus[2..8) = A B A B A A. *)
(** Reachability from kmpDeduplicate: not observed.  With an instrumented copy of the loop, every
    position reported by the two kmpSearchAll calls was a true occurrence on all chains without equal
    neighbours over 3 centres up to length 15 and 4 centres up to length 10, and on all chains (equal
    neighbours allowed) over 2 centres up to length 16 and 3 centres up to length 10.  On rings
    with at most two visits per point the search is provably exact (ProofsKmpNaive, ProofsKmpLe2). *)
Definition occurs_at (corpus find : list pt) (m : Z) : bool :=
  ring_eqb (firstn (length find) (skipn (Z.to_nat m) corpus)) find.

Example kmpSearch_unsound_refuted :
  let A := (0, 0) in let B := (1, 0) in
  let corpus := [B; A; A; B; A; B; A; A] in
  let find := [B; A; A; B; A; A] in
  kmpSearch corpus find = Ok 2 /\ occurs_at corpus find 2 = false /\
  firstn 6 (skipn 2 corpus) = [A; B; A; B; A; A].
Proof. vm_compute. repeat split; reflexivity. Qed.
