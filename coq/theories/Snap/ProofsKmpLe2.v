(** * C18, the kmp lemma in general: on a ring that visits no point more than twice
      kmpDeduplicate is total and conserves the directed cyclic edges modulo cancellation.

    [le2 r]: no point occurs at three different positions of [r].  Nothing else is assumed
    (equal neighbours, first = last and short rings are allowed).

    Why: at a detected step back the segment S = ring[start..i) is followed by its reflection, so
    every element of S but the last has both its visits right there.  Hence S and its reverse have
    no repeated element (kmpSearch is the exact naive search, ProofsKmpNaive), S occurs in the corpus
    only at 0 — or also at 2 when L = 2 and the ring reads x y x y — and its reverse only at L-1.
    So (len matches, len reverseMatches) is (1,1): nothing recorded, or (2,1): the second "x y" is
    recorded for removal, which deletes the edges y->x and x->y.  The recorded ranges are ordered
    and at least two apart, so RemoveSequences succeeds. *)
From Coq Require Import ZArith List Bool Lia.
From Texel Require Import Prelude.Base Index.Model Snap.Model Snap.ProofsKmpSearch Snap.ProofsKmpSubseq
  Snap.ProofsKmpTotal Snap.ProofsKmpNaive Snap.ProofsKmpEnum Snap.ProofsKmpEdges.
Import ListNotations.
Open Scope Z_scope.

Definition le2 (r : list pt) : Prop :=
  forall x y z p, x < y -> y < z -> idx r x = Ok p -> idx r y = Ok p -> idx r z = Ok p -> False.

Lemma le2_third r x y q p : le2 r -> x < y -> idx r x = Ok p -> idx r y = Ok p -> idx r q = Ok p ->
  q = x \/ q = y.
Proof.
  intros H Hxy Hx Hy Hq.
  destruct (Z.lt_trichotomy q x) as [Hl | [He | Hg]]; [exfalso; apply (H q x y p); assumption | auto |].
  destruct (Z.lt_trichotomy q y) as [Hl | [He | Hg']]; [exfalso; apply (H x q y p); assumption | auto |].
  exfalso. apply (H x y q p); assumption.
Qed.

(** ** positions *)
Lemma idx_slice (r : list pt) s n k : 0 <= s -> 0 <= k < n ->
  idx (firstn (Z.to_nat n) (skipn (Z.to_nat s) r)) k = idx r (s + k).
Proof.
  intros Hs Hk. unfold idx.
  destruct (Z.ltb_spec k 0) as [H1 | H1]; [lia |]. destruct (Z.ltb_spec (s + k) 0) as [H2 | H2]; [lia |].
  rewrite nth_error_firstn_lt by lia. rewrite nth_error_skipn_add.
  replace (Z.to_nat s + Z.to_nat k)%nat with (Z.to_nat (s + k)) by lia. reflexivity.
Qed.

Lemma nth_error_rev {A} (l : list A) : forall k, (k < length l)%nat ->
  nth_error (rev l) k = nth_error l (length l - 1 - k).
Proof.
  induction l as [| a l IH]; intros k Hk; [cbn [length] in Hk; lia |].
  cbn [rev length] in *. destruct (Nat.eq_dec k (length l)) as [-> | Hne].
  - rewrite nth_error_app2 by (rewrite rev_length; lia). rewrite rev_length.
    replace (length l - length l)%nat with 0%nat by lia.
    replace (S (length l) - 1 - length l)%nat with 0%nat by lia. reflexivity.
  - rewrite nth_error_app1 by (rewrite rev_length; lia). rewrite IH by lia.
    replace (S (length l) - 1 - k)%nat with (S (length l - 1 - k)) by lia. reflexivity.
Qed.

Lemma idx_rev (l : list pt) k : 0 <= k < zlen l -> idx (rev l) k = idx l (zlen l - 1 - k).
Proof.
  intros Hk. unfold idx, zlen in *.
  destruct (Z.ltb_spec k 0) as [H1 | H1]; [lia |].
  destruct (Z.ltb_spec (Z.of_nat (length l) - 1 - k) 0) as [H2 | H2]; [lia |].
  rewrite nth_error_rev by lia.
  replace (Z.to_nat (Z.of_nat (length l) - 1 - k)) with (length l - 1 - Z.to_nat k)%nat by lia. reflexivity.
Qed.

Lemma contig_idx r visited i k : contig r visited i -> 0 <= k < zlen visited ->
  idx visited k = idx r (i - zlen visited + k).
Proof.
  intros (H0 & Hle & Heq) Hk. unfold zlen in *. rewrite Heq at 1.
  replace (length visited) with (Z.to_nat (Z.of_nat (length visited))) at 1 by lia.
  replace (Z.to_nat i - length visited)%nat with (Z.to_nat (i - Z.of_nat (length visited))) by lia.
  apply idx_slice; lia.
Qed.

(** ** the step-back test *)
Definition sbk (visited : list pt) (vertex : pt) : bool :=
  match (if zlen visited <=? 1 then None else nth_error visited (Z.to_nat (zlen visited - 2))) with
  | Some p => pt_eqb p vertex
  | None => false
  end.

Lemma sbk_true visited vertex : sbk visited vertex = true ->
  2 <= zlen visited /\ idx visited (zlen visited - 2) = Ok vertex.
Proof.
  unfold sbk. destruct (Z.leb_spec (zlen visited) 1) as [H | H]; [discriminate |].
  destruct (nth_error visited (Z.to_nat (zlen visited - 2))) as [p |] eqn:E; [| discriminate].
  intro Hp. apply pt_eqb_eq in Hp. subst p. split; [lia |]. apply idx_nth_error; [lia | exact E].
Qed.

Lemma loop_nodetect f r seqs visited i vertex : i < zlen r -> idx r i = Ok vertex ->
  sbk visited vertex = false ->
  kmpDedupLoop (S f) r seqs visited i = kmpDedupLoop f r seqs (visited ++ [vertex]) (i + 1).
Proof.
  intros Hi Ev Hsb. rewrite kmpDedupLoop_S. destruct (Z.ltb_spec i (zlen r)) as [_ | H]; [| lia].
  rewrite Ev. cbn [bind]. cbv zeta. fold (sbk visited vertex). rewrite Hsb. reflexivity.
Qed.

(** ** the reverse scan stops where the reflection stops *)
Lemma reverseScan_refl : forall fuel r visited i j acc rs,
  reverseScan fuel r visited i j acc = Ok rs -> zlen acc = j - 1 ->
  forall j', j <= j' <= zlen rs ->
    exists p, idx visited (zlen visited - j') = Ok p /\ idx r (i + j' - 2) = Ok p.
Proof.
  induction fuel as [| f IH]; intros r visited i j acc rs E Hacc j' Hj'.
  - cbn [reverseScan] in E. inversion E. subst rs. lia.
  - rewrite reverseScan_S in E. cbv zeta in E.
    destruct (j <=? zlen visited); [| inversion E; subst rs; lia].
    destruct (i + (j - 2) <=? zlen r - 1); [| inversion E; subst rs; lia].
    destruct (idx visited (zlen visited - j)) as [v |] eqn:Ev; [| discriminate]. cbn [bind] in E.
    destruct (idx r (i + (j - 2))) as [w |] eqn:Ew; [| discriminate]. cbn [bind] in E.
    destruct (pt_eqb v w) eqn:Hvw; [| inversion E; subst rs; lia].
    apply pt_eqb_eq in Hvw. subst w.
    destruct (Z.eq_dec j' j) as [-> | Hne].
    + exists v. split; [exact Ev |]. replace (i + j - 2) with (i + (j - 2)) by lia. exact Ew.
    + apply (IH _ _ _ _ _ _ E); [rewrite zlen_app, zlen_cons, zlen_nil; lia | lia].
Qed.

(** ** occurrences of the segment and of its reverse in the corpus, under [le2] *)
Section Reflection.
  Variable r : list pt.
  Variables start L : Z.
  Variables corpus Sg Rg : list pt.
  Hypothesis Hle2 : le2 r.
  Hypothesis HL : 2 <= L.
  Hypothesis Hstart : 0 <= start.
  (** the ring reads Sg and then Sg backwards (sharing the turning vertex) *)
  Hypothesis Hrefl : forall k, 0 <= k <= L - 1 ->
    exists p, idx r (start + L - 1 - k) = Ok p /\ idx r (start + L - 1 + k) = Ok p.
  Hypothesis Hcorp : forall k, 0 <= k < zlen corpus -> idx corpus k = idx r (start + k).
  Hypothesis Hclen : 2 * L - 1 <= zlen corpus.
  Hypothesis HSlen : zlen Sg = L.
  Hypothesis HS : forall k, 0 <= k < L -> idx Sg k = idx r (start + k).
  Hypothesis HRlen : zlen Rg = L.
  Hypothesis HR : forall k, 0 <= k < L -> idx Rg k = idx r (start + L - 1 - k).

  Lemma refl_uniq a q : 0 <= a < L - 1 -> idx r q = idx r (start + a) ->
    q = start + a \/ q = start + 2 * L - 2 - a.
  Proof.
    intros Ha Hq. destruct (Hrefl (L - 1 - a)) as (p & H1 & H2); [lia |].
    replace (start + L - 1 - (L - 1 - a)) with (start + a) in H1 by lia.
    replace (start + L - 1 + (L - 1 - a)) with (start + 2 * L - 2 - a) in H2 by lia.
    rewrite H1 in Hq. apply (le2_third r (start + a) (start + 2 * L - 2 - a) q p Hle2); try assumption. lia.
  Qed.

  Lemma occS_0 : occZ corpus Sg 0.
  Proof.
    split; [lia |]. split; [lia |]. intros k Hk. rewrite HSlen in Hk.
    rewrite Hcorp by lia. rewrite HS by lia. f_equal.
  Qed.

  Lemma occR_1 : occZ corpus Rg (L - 1).
  Proof.
    split; [lia |]. split; [lia |]. intros k Hk. rewrite HRlen in Hk.
    rewrite Hcorp by lia. rewrite HR by lia.
    destruct (Hrefl k) as (p & H1 & H2); [lia |].
    replace (start + (L - 1 + k)) with (start + L - 1 + k) by lia. congruence.
  Qed.

  Lemma occS_where m : occZ corpus Sg m -> m = 0 \/ (L = 2 /\ m = 2).
  Proof.
    intros (Hm0 & Hfit & Hocc). rewrite HSlen in *.
    pose proof (Hocc 0 ltac:(lia)) as H0. rewrite Hcorp in H0 by lia. rewrite HS in H0 by lia.
    destruct (refl_uniq 0 (start + (m + 0))) as [Hq | Hq]; [lia | rewrite H0; f_equal; lia | left; lia |].
    assert (Hm : m = 2 * L - 2) by lia.
    destruct (Z.eq_dec L 2) as [HL2 | HL2]; [right; lia |]. exfalso.
    pose proof (Hocc 1 ltac:(lia)) as H1. rewrite Hcorp in H1 by lia. rewrite HS in H1 by lia.
    destruct (refl_uniq 1 (start + (m + 1))) as [Hq1 | Hq1]; [lia | exact H1 | lia | lia].
  Qed.

  Lemma occR_where m : occZ corpus Rg m -> m = L - 1.
  Proof.
    intros (Hm0 & Hfit & Hocc). rewrite HRlen in *.
    pose proof (Hocc (L - 1) ltac:(lia)) as H0. rewrite Hcorp in H0 by lia. rewrite HR in H0 by lia.
    replace (start + L - 1 - (L - 1)) with (start + 0) in H0 by lia.
    destruct (refl_uniq 0 (start + (m + (L - 1)))) as [Hq | Hq]; [lia | exact H0 | lia | lia].
  Qed.

  Lemma head_fresh_of (l : list pt) : (forall k a b, 1 <= k -> idx l 0 = Ok a -> idx l k = Ok b -> a <> b) ->
    head_fresh l.
  Proof.
    intro H. destruct l as [| a t]; [exact I |]. cbn [head_fresh]. intro Hin.
    apply In_nth_error in Hin. destruct Hin as [n Hn].
    apply (H (Z.of_nat (S n)) a a); [lia | reflexivity | | reflexivity].
    apply idx_nth_error; [lia |]. rewrite Nat2Z.id. cbn [nth_error]. exact Hn.
  Qed.

  Lemma hfS : head_fresh Sg.
  Proof.
    apply head_fresh_of. intros k a b Hk Ha Hb Hab. subst b.
    pose proof (idx_Ok_inv _ _ _ Hb) as [Hkr _]. rewrite HSlen in Hkr.
    rewrite HS in Ha, Hb by lia.
    destruct (refl_uniq 0 (start + k)) as [Hq | Hq]; [lia | congruence | lia | lia].
  Qed.

  Lemma hfR : head_fresh Rg.
  Proof.
    apply head_fresh_of. intros k a b Hk Ha Hb Hab. subst b.
    pose proof (idx_Ok_inv _ _ _ Hb) as [Hkr _]. rewrite HRlen in Hkr.
    rewrite HR in Ha, Hb by lia.
    (* Rg[k] = Sg[L-1-k], both of whose visits are at distance k from the turning vertex *)
    destruct (refl_uniq (L - 1 - k) (start + L - 1 - 0)) as [Hq | Hq]; [lia | | lia | lia].
    replace (start + (L - 1 - k)) with (start + L - 1 - k) by lia. congruence.
  Qed.

  Lemma S_ne : Sg <> [].
  Proof. intro E. rewrite E, zlen_nil in HSlen. lia. Qed.

  Lemma R_ne : Rg <> [].
  Proof. intro E. rewrite E, zlen_nil in HRlen. lia. Qed.

  Lemma searchS : exists ms, kmpSearchAll corpus Sg = Ok ms /\
    (ms = [0] \/ (L = 2 /\ ms = [0; 2] /\ occZ corpus Sg 2)).
  Proof.
    destruct (kmpSearchAll_greedy corpus Sg S_ne hfS) as (ms & E & Hg); [unfold zlen in *; lia |].
    exists ms. split; [exact E |].
    destruct ms as [| x rest]; [exfalso; apply (Hg 0 occS_0) |].
    cbn [greedy] in Hg. destruct Hg as (m & Hx & Hocc & Hfirst & Hrest).
    assert (Hm : m = 0).
    { destruct (occS_where m Hocc) as [H | [_ H]]; [exact H |]. exfalso. apply (Hfirst 0); [lia | exact occS_0]. }
    subst m x. rewrite HSlen in Hrest. replace (0 + 0) with 0 by lia.
    destruct rest as [| x' rest']; [left; reflexivity |]. right.
    cbn [greedy] in Hrest. destruct Hrest as (m' & Hx' & Hocc' & Hfirst' & Hrest').
    apply (occZ_skipn corpus Sg (0 + L) m' ltac:(lia) ltac:(lia)) in Hocc'.
    pose proof (occS_where _ Hocc') as [H | [HL2 H]]; [pose proof Hocc' as (? & _); lia |].
    assert (m' = 0) by lia. subst m' x'. split; [exact HL2 |].
    rewrite HSlen in Hrest'. replace (0 + L + 0) with 2 in Hocc' by lia. split; [| exact Hocc'].
    replace (0 + (0 + 0 + L)) with 2 by lia.
    destruct rest' as [| x'' rest'']; [reflexivity |]. exfalso.
    cbn [greedy] in Hrest'. destruct Hrest' as (m'' & _ & Hocc'' & _).
    apply (occZ_skipn _ Sg (0 + L) m'' ltac:(lia) ltac:(lia)) in Hocc''.
    apply (occZ_skipn corpus Sg (0 + L) _ ltac:(lia) ltac:(lia)) in Hocc''.
    pose proof Hocc'' as (Hpos & _). pose proof Hocc' as (Hpos' & _).
    destruct (occS_where _ Hocc'') as [H0 | [_ H2]]; lia.
  Qed.

  Lemma searchR : kmpSearchAll corpus Rg = Ok [L - 1].
  Proof.
    destruct (kmpSearchAll_greedy corpus Rg R_ne hfR) as (ms & E & Hg); [unfold zlen in *; lia |].
    rewrite E. f_equal.
    destruct ms as [| x rest]; [exfalso; apply (Hg (L - 1) occR_1) |].
    cbn [greedy] in Hg. destruct Hg as (m & Hx & Hocc & Hfirst & Hrest).
    pose proof (occR_where m Hocc) as Hm. subst m x. replace (L - 1 + 0) with (L - 1) by lia.
    destruct rest as [| x' rest']; [reflexivity |]. exfalso.
    cbn [greedy] in Hrest. destruct Hrest as (m' & _ & Hocc' & _). rewrite HRlen in Hocc'.
    apply (occZ_skipn corpus Rg (L - 1 + L) m' ltac:(lia) ltac:(lia)) in Hocc'.
    pose proof Hocc' as (Hpos & _). pose proof (occR_where _ Hocc'). lia.
  Qed.
End Reflection.
