(** * C18, the kmp lemma in general: on a ring that visits no point more than twice
      kmpDeduplicate is total and conserves the directed cyclic edges modulo cancellation.

    [le2 r]: no point occurs at three different positions of [r].  Nothing else is assumed
    (equal neighbours, first = last and short rings are allowed).

    Why: at a detected step back the segment S = ring[start..i) is followed by its reflection, so
    every element of S but the last has both its visits right there.  Hence S and its reverse have
    no repeated element (kmpSearch is the exact naive search, ProofsKmpNaive), S occurs in the corpus
    only at 0 — or also at 2 when L = 2 and the ring reads x y x y — and its reverse only at L-1.
    So (len matches, len reverseMatches) is (1,1): nothing recorded, or (2,1): the second "x y" is
    recorded for removal, which deletes the edges y->x and x->y.  The recorded ranges are ordered
    and at least two apart, so RemoveSequences succeeds. *)
From Coq Require Import ZArith List Bool Lia.
From Texel Require Import Prelude.Base Index.Model Snap.Model Snap.ProofsKmpSearch Snap.ProofsKmpSubseq
  Snap.ProofsKmpTotal Snap.ProofsKmpNaive Snap.ProofsKmpEnum Snap.ProofsKmpEdges.
Import ListNotations.
Open Scope Z_scope.

Definition le2 (r : list pt) : Prop :=
  forall x y z p, x < y -> y < z -> idx r x = Ok p -> idx r y = Ok p -> idx r z = Ok p -> False.

Lemma le2_third r x y q p : le2 r -> x < y -> idx r x = Ok p -> idx r y = Ok p -> idx r q = Ok p ->
  q = x \/ q = y.
Proof.
  intros H Hxy Hx Hy Hq.
  destruct (Z.lt_trichotomy q x) as [Hl | [He | Hg]]; [exfalso; apply (H q x y p); assumption | auto |].
  destruct (Z.lt_trichotomy q y) as [Hl | [He | Hg']]; [exfalso; apply (H x q y p); assumption | auto |].
  exfalso. apply (H x y q p); assumption.
Qed.

(** ** positions *)
Lemma idx_slice (r : list pt) s n k : 0 <= s -> 0 <= k < n ->
  idx (firstn (Z.to_nat n) (skipn (Z.to_nat s) r)) k = idx r (s + k).
Proof.
  intros Hs Hk. unfold idx.
  destruct (Z.ltb_spec k 0) as [H1 | H1]; [lia |]. destruct (Z.ltb_spec (s + k) 0) as [H2 | H2]; [lia |].
  rewrite nth_error_firstn_lt by lia. rewrite nth_error_skipn_add.
  replace (Z.to_nat s + Z.to_nat k)%nat with (Z.to_nat (s + k)) by lia. reflexivity.
Qed.

Lemma nth_error_rev {A} (l : list A) : forall k, (k < length l)%nat ->
  nth_error (rev l) k = nth_error l (length l - 1 - k).
Proof.
  induction l as [| a l IH]; intros k Hk; [cbn [length] in Hk; lia |].
  cbn [rev length] in *. destruct (Nat.eq_dec k (length l)) as [-> | Hne].
  - rewrite nth_error_app2 by (rewrite rev_length; lia). rewrite rev_length.
    replace (length l - length l)%nat with 0%nat by lia.
    replace (S (length l) - 1 - length l)%nat with 0%nat by lia. reflexivity.
  - rewrite nth_error_app1 by (rewrite rev_length; lia). rewrite IH by lia.
    replace (S (length l) - 1 - k)%nat with (S (length l - 1 - k)) by lia. reflexivity.
Qed.

Lemma idx_rev (l : list pt) k : 0 <= k < zlen l -> idx (rev l) k = idx l (zlen l - 1 - k).
Proof.
  intros Hk. unfold idx, zlen in *.
  destruct (Z.ltb_spec k 0) as [H1 | H1]; [lia |].
  destruct (Z.ltb_spec (Z.of_nat (length l) - 1 - k) 0) as [H2 | H2]; [lia |].
  rewrite nth_error_rev by lia.
  replace (Z.to_nat (Z.of_nat (length l) - 1 - k)) with (length l - 1 - Z.to_nat k)%nat by lia. reflexivity.
Qed.

Lemma contig_idx r visited i k : contig r visited i -> 0 <= k < zlen visited ->
  idx visited k = idx r (i - zlen visited + k).
Proof.
  intros (H0 & Hle & Heq) Hk. unfold zlen in *. rewrite Heq at 1.
  replace (length visited) with (Z.to_nat (Z.of_nat (length visited))) at 1 by lia.
  replace (Z.to_nat i - length visited)%nat with (Z.to_nat (i - Z.of_nat (length visited))) by lia.
  apply idx_slice; lia.
Qed.

(** ** the step-back test *)
Definition sbk (visited : list pt) (vertex : pt) : bool :=
  match (if zlen visited <=? 1 then None else nth_error visited (Z.to_nat (zlen visited - 2))) with
  | Some p => pt_eqb p vertex
  | None => false
  end.

Lemma sbk_true visited vertex : sbk visited vertex = true ->
  2 <= zlen visited /\ idx visited (zlen visited - 2) = Ok vertex.
Proof.
  unfold sbk. destruct (Z.leb_spec (zlen visited) 1) as [H | H]; [discriminate |].
  destruct (nth_error visited (Z.to_nat (zlen visited - 2))) as [p |] eqn:E; [| discriminate].
  intro Hp. apply pt_eqb_eq in Hp. subst p. split; [lia |]. apply idx_nth_error; [lia | exact E].
Qed.

Lemma loop_nodetect f r seqs visited i vertex : i < zlen r -> idx r i = Ok vertex ->
  sbk visited vertex = false ->
  kmpDedupLoop (S f) r seqs visited i = kmpDedupLoop f r seqs (visited ++ [vertex]) (i + 1).
Proof.
  intros Hi Ev Hsb. rewrite kmpDedupLoop_S. destruct (Z.ltb_spec i (zlen r)) as [_ | H]; [| lia].
  rewrite Ev. cbn [bind]. cbv zeta. fold (sbk visited vertex). rewrite Hsb. reflexivity.
Qed.

(** ** the reverse scan stops where the reflection stops *)
Lemma reverseScan_refl : forall fuel r visited i j acc rs,
  reverseScan fuel r visited i j acc = Ok rs -> zlen acc = j - 1 ->
  forall j', j <= j' <= zlen rs ->
    exists p, idx visited (zlen visited - j') = Ok p /\ idx r (i + j' - 2) = Ok p.
Proof.
  induction fuel as [| f IH]; intros r visited i j acc rs E Hacc j' Hj'.
  - cbn [reverseScan] in E. inversion E. subst rs. lia.
  - rewrite reverseScan_S in E. cbv zeta in E.
    destruct (j <=? zlen visited); [| inversion E; subst rs; lia].
    destruct (i + (j - 2) <=? zlen r - 1); [| inversion E; subst rs; lia].
    destruct (idx visited (zlen visited - j)) as [v |] eqn:Ev; [| discriminate]. cbn [bind] in E.
    destruct (idx r (i + (j - 2))) as [w |] eqn:Ew; [| discriminate]. cbn [bind] in E.
    destruct (pt_eqb v w) eqn:Hvw; [| inversion E; subst rs; lia].
    apply pt_eqb_eq in Hvw. subst w.
    destruct (Z.eq_dec j' j) as [-> | Hne].
    + exists v. split; [exact Ev |]. replace (i + j - 2) with (i + (j - 2)) by lia. exact Ew.
    + apply (IH _ _ _ _ _ _ E); [rewrite zlen_app, zlen_cons, zlen_nil; lia | lia].
Qed.

(** ** occurrences of the segment and of its reverse in the corpus, under [le2] *)
Section Reflection.
  Variable r : list pt.
  Variables start L : Z.
  Variables corpus Sg Rg : list pt.
  Hypothesis Hle2 : le2 r.
  Hypothesis HL : 2 <= L.
  Hypothesis Hstart : 0 <= start.
  (** the ring reads Sg and then Sg backwards (sharing the turning vertex) *)
  Hypothesis Hrefl : forall k, 0 <= k <= L - 1 ->
    exists p, idx r (start + L - 1 - k) = Ok p /\ idx r (start + L - 1 + k) = Ok p.
  Hypothesis Hcorp : forall k, 0 <= k < zlen corpus -> idx corpus k = idx r (start + k).
  Hypothesis Hclen : 2 * L - 1 <= zlen corpus.
  Hypothesis HSlen : zlen Sg = L.
  Hypothesis HS : forall k, 0 <= k < L -> idx Sg k = idx r (start + k).
  Hypothesis HRlen : zlen Rg = L.
  Hypothesis HR : forall k, 0 <= k < L -> idx Rg k = idx r (start + L - 1 - k).

  Lemma refl_uniq a q : 0 <= a < L - 1 -> idx r q = idx r (start + a) ->
    q = start + a \/ q = start + 2 * L - 2 - a.
  Proof.
    intros Ha Hq. destruct (Hrefl (L - 1 - a)) as (p & H1 & H2); [lia |].
    replace (start + L - 1 - (L - 1 - a)) with (start + a) in H1 by lia.
    replace (start + L - 1 + (L - 1 - a)) with (start + 2 * L - 2 - a) in H2 by lia.
    rewrite H1 in Hq. apply (le2_third r (start + a) (start + 2 * L - 2 - a) q p Hle2); try assumption. lia.
  Qed.

  Lemma occS_0 : occZ corpus Sg 0.
  Proof.
    split; [lia |]. split; [lia |]. intros k Hk. rewrite HSlen in Hk.
    rewrite Hcorp by lia. rewrite HS by lia. f_equal.
  Qed.

  Lemma occR_1 : occZ corpus Rg (L - 1).
  Proof.
    split; [lia |]. split; [lia |]. intros k Hk. rewrite HRlen in Hk.
    rewrite Hcorp by lia. rewrite HR by lia.
    destruct (Hrefl k) as (p & H1 & H2); [lia |].
    replace (start + (L - 1 + k)) with (start + L - 1 + k) by lia. congruence.
  Qed.

  Lemma occS_where m : occZ corpus Sg m -> m = 0 \/ (L = 2 /\ m = 2).
  Proof.
    intros (Hm0 & Hfit & Hocc). rewrite HSlen in *.
    pose proof (Hocc 0 ltac:(lia)) as H0. rewrite Hcorp in H0 by lia. rewrite HS in H0 by lia.
    destruct (refl_uniq 0 (start + (m + 0))) as [Hq | Hq]; [lia | rewrite H0; f_equal; lia | left; lia |].
    assert (Hm : m = 2 * L - 2) by lia.
    destruct (Z.eq_dec L 2) as [HL2 | HL2]; [right; lia |]. exfalso.
    pose proof (Hocc 1 ltac:(lia)) as H1. rewrite Hcorp in H1 by lia. rewrite HS in H1 by lia.
    destruct (refl_uniq 1 (start + (m + 1))) as [Hq1 | Hq1]; [lia | exact H1 | lia | lia].
  Qed.

  Lemma occR_where m : occZ corpus Rg m -> m = L - 1.
  Proof.
    intros (Hm0 & Hfit & Hocc). rewrite HRlen in *.
    pose proof (Hocc (L - 1) ltac:(lia)) as H0. rewrite Hcorp in H0 by lia. rewrite HR in H0 by lia.
    replace (start + L - 1 - (L - 1)) with (start + 0) in H0 by lia.
    destruct (refl_uniq 0 (start + (m + (L - 1)))) as [Hq | Hq]; [lia | exact H0 | lia | lia].
  Qed.

  Lemma head_fresh_of (l : list pt) : (forall k a b, 1 <= k -> idx l 0 = Ok a -> idx l k = Ok b -> a <> b) ->
    head_fresh l.
  Proof.
    intro H. destruct l as [| a t]; [exact I |]. cbn [head_fresh]. intro Hin.
    apply In_nth_error in Hin. destruct Hin as [n Hn].
    apply (H (Z.of_nat (S n)) a a); [lia | reflexivity | | reflexivity].
    apply idx_nth_error; [lia |]. rewrite Nat2Z.id. cbn [nth_error]. exact Hn.
  Qed.

  Lemma hfS : head_fresh Sg.
  Proof.
    apply head_fresh_of. intros k a b Hk Ha Hb Hab. subst b.
    pose proof (idx_Ok_inv _ _ _ Hb) as [Hkr _]. rewrite HSlen in Hkr.
    rewrite HS in Ha, Hb by lia.
    destruct (refl_uniq 0 (start + k)) as [Hq | Hq]; [lia | congruence | lia | lia].
  Qed.

  Lemma hfR : head_fresh Rg.
  Proof.
    apply head_fresh_of. intros k a b Hk Ha Hb Hab. subst b.
    pose proof (idx_Ok_inv _ _ _ Hb) as [Hkr _]. rewrite HRlen in Hkr.
    rewrite HR in Ha, Hb by lia.
    (* Rg[k] = Sg[L-1-k], both of whose visits are at distance k from the turning vertex *)
    destruct (refl_uniq (L - 1 - k) (start + L - 1 - 0)) as [Hq | Hq]; [lia | | lia | lia].
    replace (start + (L - 1 - k)) with (start + L - 1 - k) by lia. congruence.
  Qed.

  Lemma S_ne : Sg <> [].
  Proof. intro E. rewrite E, zlen_nil in HSlen. lia. Qed.

  Lemma R_ne : Rg <> [].
  Proof. intro E. rewrite E, zlen_nil in HRlen. lia. Qed.

  Lemma searchS : exists ms, kmpSearchAll corpus Sg = Ok ms /\
    (ms = [0] \/ (L = 2 /\ ms = [0; 2] /\ occZ corpus Sg 2)).
  Proof.
    destruct (kmpSearchAll_greedy corpus Sg S_ne hfS) as (ms & E & Hg); [unfold zlen in *; lia |].
    exists ms. split; [exact E |].
    destruct ms as [| x rest]; [exfalso; apply (Hg 0 occS_0) |].
    cbn [greedy] in Hg. destruct Hg as (m & Hx & Hocc & Hfirst & Hrest).
    assert (Hm : m = 0).
    { destruct (occS_where m Hocc) as [H | [_ H]]; [exact H |]. exfalso. apply (Hfirst 0); [lia | exact occS_0]. }
    subst m x. rewrite HSlen in Hrest. replace (0 + 0) with 0 by lia.
    destruct rest as [| x' rest']; [left; reflexivity |]. right.
    cbn [greedy] in Hrest. destruct Hrest as (m' & Hx' & Hocc' & Hfirst' & Hrest').
    pose proof Hocc' as (Hm'0 & _).
    apply (occZ_skipn corpus Sg (0 + L) m' ltac:(lia) ltac:(lia)) in Hocc'.
    pose proof (occS_where _ Hocc') as [H | [HL2 H]]; [lia |].
    assert (m' = 0) by lia. subst m' x'. split; [exact HL2 |].
    rewrite HSlen in Hrest'. replace (0 + L + 0) with 2 in Hocc' by lia. split; [| exact Hocc'].
    replace (0 + (0 + 0 + L)) with 2 by lia.
    destruct rest' as [| x'' rest'']; [reflexivity |]. exfalso.
    cbn [greedy] in Hrest'. destruct Hrest' as (m'' & _ & Hocc'' & _).
    pose proof Hocc'' as (Hm''0 & _).
    apply (occZ_skipn _ Sg (0 + L) m'' ltac:(lia) ltac:(lia)) in Hocc''.
    apply (occZ_skipn corpus Sg (0 + L) _ ltac:(lia) ltac:(lia)) in Hocc''.
    destruct (occS_where _ Hocc'') as [H0 | [_ H2]]; lia.
  Qed.

  Lemma searchR : kmpSearchAll corpus Rg = Ok [L - 1].
  Proof.
    destruct (kmpSearchAll_greedy corpus Rg R_ne hfR) as (ms & E & Hg); [unfold zlen in *; lia |].
    rewrite E. f_equal.
    destruct ms as [| x rest]; [exfalso; apply (Hg (L - 1) occR_1) |].
    cbn [greedy] in Hg. destruct Hg as (m & Hx & Hocc & Hfirst & Hrest).
    pose proof (occR_where m Hocc) as Hm. subst m x. replace (L - 1 + 0) with (L - 1) by lia.
    destruct rest as [| x' rest']; [reflexivity |]. exfalso.
    cbn [greedy] in Hrest. destruct Hrest as (m' & _ & Hocc' & _). rewrite HRlen in Hocc'.
    pose proof Hocc' as (Hm'0 & _).
    apply (occZ_skipn corpus Rg (L - 1 + L) m' ltac:(lia) ltac:(lia)) in Hocc'.
    pose proof (occR_where _ Hocc'). lia.
  Qed.
End Reflection.

(** ** one detection under [le2]: a plain backtrace (nothing recorded) or the zigzag x y x y *)
Definition zpat (r : list pt) (a : Z) : Prop :=
  exists x y, idx r (a - 2) = Ok x /\ idx r (a - 1) = Ok y /\ idx r a = Ok x /\ idx r (a + 1) = Ok y.

Lemma detect_le2 f r seqs visited i vertex : le2 r -> contig r visited i -> i < zlen r ->
  idx r i = Ok vertex -> sbk visited vertex = true ->
  (exists L, 2 <= L <= zlen visited /\ i + L - 1 <= zlen r /\
      kmpDedupLoop (S f) r seqs visited i = kmpDedupLoop f r seqs [] (i + L - 1)) \/
  (2 <= zlen visited /\ i + 2 <= zlen r /\ zpat r i /\ exists key,
      kmpDedupLoop (S f) r seqs visited i = kmpDedupLoop f r (seq_insert seqs key (i, i + 2)) [] (i + 2)).
Proof.
  intros Hle2 Hct Hi Ev Hsb. pose proof (sbk_true _ _ Hsb) as [Hlv Hv2].
  pose proof Hct as (H0 & Hle & Heq).
  destruct (idx_in_range visited (zlen visited - 1)) as [v1 E1]; [lia |].
  destruct (reverseScan_ok (length visited) r visited i 3 [v1; vertex]) as [rs Ers]; [lia | lia |].
  destruct (reverseScan_spec _ _ _ _ _ _ _ Ers) as [Hrs Hlen]; [lia | lia | |].
  { pose proof (idx_Ok_inv _ _ _ E1) as [_ E1']. pose proof (idx_Ok_inv _ _ _ Hv2) as [_ E2'].
    replace (3 - 1) with 2 by lia.
    rewrite (skipn_nth_cons visited _ vertex E2').
    replace (S (Z.to_nat (zlen visited - 2))) with (Z.to_nat (zlen visited - 1)) by lia.
    rewrite (skipn_nth_cons visited _ v1 E1').
    replace (S (Z.to_nat (zlen visited - 1))) with (length visited) by (unfold zlen in *; lia).
    rewrite skipn_all. reflexivity. }
  replace (3 - 1) with 2 in Hlen by lia.
  assert (HLr : zlen (rev rs) = zlen rs) by (unfold zlen; rewrite rev_length; reflexivity).
  set (L := zlen rs) in *. set (start := i - L).
  assert (Hstart : 0 <= start) by (unfold start, zlen in *; lia).
  (* positions of visited in the ring *)
  assert (Hvis : forall k, 0 <= k < zlen visited -> idx visited k = idx r (i - zlen visited + k))
    by (intros k Hk; apply contig_idx; assumption).
  (* the reflection around i - 1 *)
  assert (Hrefl : forall k, 0 <= k <= L - 1 ->
            exists p, idx r (start + L - 1 - k) = Ok p /\ idx r (start + L - 1 + k) = Ok p).
  { intros k Hk. unfold start.
    destruct (Z.eq_dec k 0) as [-> | Hk0].
    { exists v1. rewrite Hvis in E1 by lia.
      replace (i - L + L - 1 - 0) with (i - zlen visited + (zlen visited - 1)) by lia.
      replace (i - L + L - 1 + 0) with (i - zlen visited + (zlen visited - 1)) by lia. auto. }
    destruct (Z.eq_dec k 1) as [-> | Hk1].
    { exists vertex. rewrite Hvis in Hv2 by lia.
      replace (i - L + L - 1 - 1) with (i - zlen visited + (zlen visited - 2)) by lia.
      replace (i - L + L - 1 + 1) with i by lia. auto. }
    destruct (reverseScan_refl _ _ _ _ _ _ _ Ers ltac:(reflexivity) (k + 1)) as (p & Hp1 & Hp2); [fold L; lia |].
    exists p. rewrite Hvis in Hp1 by lia.
    replace (i - L + L - 1 - k) with (i - zlen visited + (zlen visited - (k + 1))) by lia.
    replace (i - L + L - 1 + k) with (i + (k + 1) - 2) by lia. auto. }
  (* the segment is the slice ring[start .. i) *)
  assert (Hseg : rev rs = firstn (Z.to_nat L) (skipn (Z.to_nat start) r)).
  { pose proof (f_equal (@rev pt) Hrs) as Hseg1. rewrite rev_involutive in Hseg1.
    rewrite Hseg1, (skipn_block r visited _ Heq).
    f_equal; [unfold L, zlen in *; lia |]. f_equal. unfold start, L, zlen in *. lia. }
  assert (HS : forall k, 0 <= k < L -> idx (rev rs) k = idx r (start + k)).
  { intros k Hk. rewrite Hseg. apply idx_slice; lia. }
  assert (HR : forall k, 0 <= k < L -> idx rs k = idx r (start + L - 1 - k)).
  { intros k Hk. rewrite <- (rev_involutive rs) at 1. rewrite idx_rev by lia. rewrite HLr.
    rewrite HS by lia. f_equal. lia. }
  (* the corpus *)
  destruct (Hrefl (L - 1) ltac:(lia)) as (plast & _ & Hplast).
  apply idx_Ok_inv in Hplast. destruct Hplast as [Hplast _].
  destruct (corpusLoop_ok (length r + 2) r (rev rs) start (start + 3 * L) 0) as [corpus Ec];
    try lia; try (unfold start; lia).
  { unfold zlen at 1. unfold start. lia. }
  destruct (corpusLoop_spec _ _ _ _ _ _ _ Ec) as (e' & He1 & He2 & Hcorp).
  assert (Hce : zlen corpus = e' - start) by (rewrite Hcorp; apply zlen_slice; lia).
  assert (Hclen : 2 * L - 1 <= zlen corpus).
  { apply (corpusLoop_len _ _ _ _ _ _ _ Ec (2 * L - 1)); lia. }
  assert (Hcidx : forall k, 0 <= k < zlen corpus -> idx corpus k = idx r (start + k)).
  { intros k Hk. rewrite Hcorp. apply idx_slice; lia. }
  destruct (searchS r start L corpus (rev rs) rs Hle2 ltac:(lia) Hrefl Hcidx Hclen HLr HS eq_refl)
    as (ms & Ems & Hms).
  pose proof (searchR r start L corpus (rev rs) rs Hle2 ltac:(lia) Hrefl Hcidx Hclen eq_refl HR) as Erms.
  (* run the iteration *)
  rewrite kmpDedupLoop_S. destruct (Z.ltb_spec i (zlen r)) as [_ | Hge]; [| lia].
  rewrite Ev. cbn [bind]. cbv zeta. fold (sbk visited vertex). rewrite Hsb. cbn [negb].
  rewrite E1, Hv2. cbn [bind]. rewrite Ers. cbn [bind]. rewrite HLr. fold L. fold start.
  rewrite Ec. cbn [bind]. rewrite Ems, Erms. cbn [bind].
  change (zlen [L - 1]) with 1.
  destruct Hms as [-> | (HL2 & -> & Hocc2)].
  - left. exists L. split; [lia |]. split; [unfold start in *; lia |].
    change (zlen [0]) with 1.
    change ((1 <? 1) && (1 - 1 =? 1)) with false. change ((1 <? 1) && (1 =? 1)) with false.
    change ((1 =? 1) && (1 =? 1)) with true. cbv iota. f_equal. unfold start. lia.
  - right. split; [lia |].
    destruct Hocc2 as (_ & Hfit2 & Hocc2). rewrite HLr in Hfit2, Hocc2.
    pose proof (Hocc2 1 ltac:(lia)) as H31. rewrite Hcidx in H31 by lia. rewrite HS in H31 by lia.
    destruct (Hrefl 0 ltac:(lia)) as (y & Hy & _). destruct (Hrefl 1 ltac:(lia)) as (x & Hx1 & Hx2).
    assert (Hi1 : idx r (i + 1) = Ok y).
    { replace (i + 1) with (start + (2 + 1)) by (unfold start; lia). rewrite H31.
      replace (start + 1) with (start + L - 1 - 0) by lia. exact Hy. }
    pose proof (idx_Ok_inv _ _ _ Hi1) as [Hi1r _].
    split; [lia |]. split.
    + exists x, y. replace (i - 2) with (start + L - 1 - 1) by (unfold start; lia).
      replace (i - 1) with (start + L - 1 - 0) by (unfold start; lia).
      split; [exact Hx1 |]. split; [exact Hy |]. split; [| exact Hi1].
      replace i with (start + L - 1 + 1) by (unfold start; lia). exact Hx2.
    + exists (rev rs). change (zlen [0; 2]) with 2.
      change ((1 <? 2) && (2 - 1 =? 1)) with true. cbv iota.
      change (lastZ [0; 2]) with (Ok 2). cbn [bind].
      replace (start + L) with i by (unfold start; lia).
      replace (start + 2 + L) with (i + 2) by (unfold start; lia). reflexivity.
Qed.

(** ** the recorded ranges: zigzag blocks (a, a+2) with ring[a-2..a+2) = x y x y, in order, each
       starting at least two after the end of the previous one *)
Fixpoint zzb (r : list pt) (lo hi : Z) (m : seqmap) : Prop :=
  match m with
  | [] => lo <= hi
  | (_, (a, b)) :: rest => b = a + 2 /\ lo + 2 <= a /\ zpat r a /\ zzb r b hi rest
  end.

Lemma zzb_le r : forall m lo hi, zzb r lo hi m -> lo <= hi.
Proof.
  induction m as [| [k [a b]] m IH]; intros lo hi H; cbn [zzb] in H; [exact H |].
  destruct H as (Hb & Ha & _ & Hr). apply IH in Hr. lia.
Qed.

Lemma zzb_mono r : forall m lo hi hi', zzb r lo hi m -> hi <= hi' -> zzb r lo hi' m.
Proof.
  induction m as [| [k [a b]] m IH]; intros lo hi hi' H Hh; cbn [zzb] in *; [lia |].
  destruct H as (Hb & Ha & Hp & Hr). repeat split; try assumption. apply (IH _ _ _ Hr Hh).
Qed.

Lemma zzb_place r k a : zpat r a -> forall m lo hi, zzb r lo hi m -> hi + 2 <= a ->
  zzb r lo (a + 2) (seq_place m k (a, a + 2)).
Proof.
  intro Hp. induction m as [| [k' [a' b']] m IH]; intros lo hi H Hhi; cbn [seq_place].
  - cbn [zzb] in *. repeat split; try lia; assumption.
  - cbn [zzb] in H. destruct H as (Hb & Ha & Hp' & Hr). pose proof (zzb_le _ _ _ _ Hr) as Hle.
    cbn [fst]. destruct (Z.ltb_spec a a') as [Hlt | Hge]; [lia |].
    cbn [zzb]. repeat split; try assumption. apply (IH _ _ Hr Hhi).
Qed.

Lemma zzb_insert r k a m lo hi : zpat r a -> zzb r lo hi m -> hi + 2 <= a ->
  zzb r lo (a + 2) (seq_insert m k (a, a + 2)).
Proof.
  intros Hp H Hhi. unfold seq_insert. destruct (seq_has m k).
  - apply (zzb_mono r m lo hi); [exact H | lia].
  - apply (zzb_place r k a Hp m lo hi H Hhi).
Qed.

(** ** the loop under [le2] *)
Lemma kmpDedupLoop_le2 r : le2 r -> forall fuel seqs visited i,
  contig r visited i -> i - zlen visited <= zlen r -> zzb r 0 (i - zlen visited) seqs ->
  Z.of_nat fuel > Z.max 0 (zlen r - i) ->
  exists out, kmpDedupLoop fuel r seqs visited i = Ok out /\ zzb r 0 (zlen r) out.
Proof.
  intro Hle2. induction fuel as [| f IH]; intros seqs visited i Hct Hi0 Hzz Hfuel; [lia |].
  pose proof Hct as (H0 & _ & _). pose proof (zlen_nonneg visited) as Hlv0.
  destruct (Z.lt_ge_cases i (zlen r)) as [Hi | Hi].
  - destruct (idx_in_range r i) as [vertex Ev]; [lia |].
    destruct (sbk visited vertex) eqn:Hsb.
    + destruct (detect_le2 f r seqs visited i vertex Hle2 Hct Hi Ev Hsb)
        as [(L & HL & Hend & E) | (Hlv & Hend & Hp & key & E)]; rewrite E.
      * apply IH; [apply contig_nil; lia | change (zlen (@nil pt)) with 0; lia | | lia].
        change (zlen (@nil pt)) with 0. apply (zzb_mono r seqs 0 (i - zlen visited)); [exact Hzz | lia].
      * apply IH; [apply contig_nil; lia | change (zlen (@nil pt)) with 0; lia | | lia].
        change (zlen (@nil pt)) with 0. replace (i + 2 - 0) with (i + 2) by lia.
        apply (zzb_insert r key i seqs 0 (i - zlen visited) Hp Hzz). lia.
    + rewrite (loop_nodetect f r seqs visited i vertex Hi Ev Hsb).
      apply IH; [apply contig_snoc; assumption | | | lia];
        rewrite zlen_app; change (zlen [vertex]) with 1;
        replace (i + 1 - (zlen visited + 1)) with (i - zlen visited) by lia; assumption.
  - rewrite kmpDedupLoop_S. destruct (Z.ltb_spec i (zlen r)) as [Hlt | _]; [lia |].
    exists seqs. split; [reflexivity |]. apply (zzb_mono r seqs 0 (i - zlen visited)); [exact Hzz | lia].
Qed.

(** ** RemoveSequences on zigzag blocks conserves the edges modulo cancellation *)
Lemma cnt_app e l1 l2 : cnt e (l1 ++ l2) = cnt e l1 + cnt e l2.
Proof. unfold cnt. rewrite filter_app, zlen_app. reflexivity. Qed.

Lemma cnt_cons e f l : cnt e (f :: l) = (if edge_eqb e f then 1 else 0) + cnt e l.
Proof. unfold cnt. cbn [filter]. destruct (edge_eqb e f); [rewrite zlen_cons; lia | lia]. Qed.

Lemma edge_eqb_swap e a b : edge_eqb (swap e) (a, b) = edge_eqb e (b, a).
Proof. destruct e as [u v]. unfold edge_eqb, swap. cbn [fst snd]. apply andb_comm. Qed.

Lemma pairs_app : forall U a W, pairs (U ++ a :: W) = pairs (U ++ [a]) ++ pairs (a :: W).
Proof.
  induction U as [| u U IH]; intros a W.
  - reflexivity.
  - destruct U as [| u' U'].
    + reflexivity.
    + change (pairs ((u :: u' :: U') ++ a :: W)) with ((u, u') :: pairs ((u' :: U') ++ a :: W)).
      change (pairs ((u :: u' :: U') ++ [a])) with ((u, u') :: pairs ((u' :: U') ++ [a])).
      rewrite IH. reflexivity.
Qed.

Lemma conserves_refl E : conserves E E.
Proof. intro e. lia. Qed.

Lemma conserves_trans E1 E2 E3 : conserves E1 E2 -> conserves E2 E3 -> conserves E1 E3.
Proof. intros H12 H23 e. specialize (H12 e). specialize (H23 e). lia. Qed.

Lemma conserves_block U x y V :
  conserves (pairs (U ++ x :: y :: x :: y :: V)) (pairs (U ++ x :: y :: V)).
Proof.
  intro e. rewrite (pairs_app U x (y :: x :: y :: V)), (pairs_app U x (y :: V)).
  change (pairs (x :: y :: x :: y :: V)) with ((x, y) :: (y, x) :: pairs (x :: y :: V)).
  rewrite !cnt_app, !cnt_cons, !edge_eqb_swap.
  destruct (edge_eqb e (x, y)), (edge_eqb e (y, x)); lia.
Qed.

Lemma removeSequencesLoop_zz r : forall m k acc, 0 <= k -> zzb r k (zlen r) m ->
  exists t, removeSequencesLoop r m k acc = Ok t /\
    forall tl, conserves (pairs (acc ++ skipn (Z.to_nat k) r ++ tl)) (pairs (t ++ tl)).
Proof.
  induction m as [| [key [a b]] m IH]; intros k acc Hk Hzz; cbn [removeSequencesLoop zzb] in *.
  - rewrite slice_ok by lia. cbn [bind].
    rewrite firstn_all2 by (rewrite skipn_length; unfold zlen; lia).
    eexists. split; [reflexivity |]. intro tl. rewrite <- app_assoc. apply conserves_refl.
  - destruct Hzz as (Hb & Ha & (x & y & Hx1 & Hy1 & Hx2 & Hy2) & Hrest). subst b.
    pose proof (idx_Ok_inv _ _ _ Hx1) as [_ Nx1]. pose proof (idx_Ok_inv _ _ _ Hy1) as [_ Ny1].
    pose proof (idx_Ok_inv _ _ _ Hx2) as [_ Nx2]. pose proof (idx_Ok_inv _ _ _ Hy2) as [Hr2 Ny2].
    rewrite slice_ok by lia. cbn [bind].
    destruct (IH (a + 2) (acc ++ firstn (Z.to_nat (a - k)) (skipn (Z.to_nat k) r)) ltac:(lia) Hrest)
      as (t & Et & Hcons).
    exists t. split; [exact Et |]. intro tl.
    refine (conserves_trans _ _ _ _ (Hcons tl)).
    (* the block x y x y *)
    set (P0 := firstn (Z.to_nat (a - 2 - k)) (skipn (Z.to_nat k) r)).
    assert (Hsk : skipn (Z.to_nat k) r = P0 ++ x :: y :: x :: y :: skipn (Z.to_nat (a + 2)) r).
    { rewrite <- (firstn_skipn (Z.to_nat (a - 2 - k)) (skipn (Z.to_nat k) r)) at 1. fold P0. f_equal.
      rewrite skipn_skipn_add.
      replace (Z.to_nat k + Z.to_nat (a - 2 - k))%nat with (Z.to_nat (a - 2)) by lia.
      rewrite (skipn_nth_cons r _ x Nx1).
      replace (S (Z.to_nat (a - 2))) with (Z.to_nat (a - 1)) by lia.
      rewrite (skipn_nth_cons r _ y Ny1).
      replace (S (Z.to_nat (a - 1))) with (Z.to_nat a) by lia.
      rewrite (skipn_nth_cons r _ x Nx2).
      replace (S (Z.to_nat a)) with (Z.to_nat (a + 1)) by lia.
      rewrite (skipn_nth_cons r _ y Ny2).
      replace (S (Z.to_nat (a + 1))) with (Z.to_nat (a + 2)) by lia. reflexivity. }
    assert (Hpiece : firstn (Z.to_nat (a - k)) (skipn (Z.to_nat k) r) = P0 ++ [x; y]).
    { replace (Z.to_nat (a - k)) with (Z.to_nat (a - 2 - k) + 2)%nat by lia.
      rewrite firstn_add_skipn. fold P0. f_equal.
      rewrite Hsk. rewrite skipn_app.
      assert (HP0 : length P0 = Z.to_nat (a - 2 - k)).
      { unfold P0. rewrite firstn_length, skipn_length. unfold zlen in Hr2. lia. }
      rewrite HP0, skipn_all2 by lia. replace (Z.to_nat (a - 2 - k) - Z.to_nat (a - 2 - k))%nat with 0%nat by lia.
      reflexivity. }
    rewrite Hpiece. rewrite Hsk at 1.
    replace (acc ++ (P0 ++ x :: y :: x :: y :: skipn (Z.to_nat (a + 2)) r) ++ tl)
      with ((acc ++ P0) ++ x :: y :: x :: y :: (skipn (Z.to_nat (a + 2)) r ++ tl))
      by (rewrite <- !app_assoc; reflexivity).
    replace ((acc ++ P0 ++ [x; y]) ++ skipn (Z.to_nat (a + 2)) r ++ tl)
      with ((acc ++ P0) ++ x :: y :: (skipn (Z.to_nat (a + 2)) r ++ tl))
      by (rewrite <- !app_assoc; reflexivity).
    apply conserves_block.
Qed.

(** ** C18, kmp lemma: at most two visits => total, and edges conserved modulo cancellation *)
Theorem kmp_conserves_le2 : forall r, le2 r ->
  exists r', kmpDeduplicate r = Ok r' /\ conserves (cedges r) (cedges r').
Proof.
  intros r Hle2. unfold kmpDeduplicate.
  destruct (kmpDedupLoop_le2 r Hle2 (kmpFuel r) [] [] 0) as (out & El & Hzz).
  - apply contig_nil. lia.
  - change (zlen (@nil pt)) with 0. pose proof (zlen_nonneg r). lia.
  - change (zlen (@nil pt)) with 0. cbn [zzb]. lia.
  - unfold kmpFuel, zlen. lia.
  - rewrite El. cbn [bind]. unfold removeSequences.
    destruct (removeSequencesLoop_zz r out 0 [] ltac:(lia) Hzz) as (t & Et & Hcons).
    exists t. split; [exact Et |].
    change (Z.to_nat 0) with 0%nat in Hcons. cbn [skipn app] in Hcons.
    assert (Hsub : subseq t r).
    { apply (removeSequences_subseq r out t); [| exact Et].
      apply (kmpDedupLoop_rng _ _ _ _ _ _ (Forall_nil _) El). }
    destruct r as [| a [| b r']].
    + inversion Hsub. subst. apply conserves_refl.
    + assert (Ht : cedges t = []).
      { inversion Hsub as [| x l l' H1 | x l l' H1]; subst; [inversion H1 | inversion H1]; reflexivity. }
      rewrite Ht. apply conserves_refl.
    + (* the first two vertices are never removed *)
      assert (Ht : exists t', t = a :: b :: t').
      { destruct out as [| [key [a1 b1]] rest].
        - cbn [removeSequencesLoop] in Et. pose proof (zlen_nonneg (a :: b :: r')).
          rewrite slice_ok in Et by lia. cbn [bind app] in Et. inversion Et.
          change (Z.to_nat 0) with 0%nat. cbn [skipn].
          rewrite firstn_all2 by (unfold zlen; cbn [length]; lia). eauto.
        - cbn [zzb] in Hzz. destruct Hzz as (Hb1 & Ha1 & (x & y & _ & _ & _ & Hy2) & Hrest).
          pose proof (idx_Ok_inv _ _ _ Hy2) as [Hr2 _].
          cbn [removeSequencesLoop] in Et. rewrite slice_ok in Et by lia. cbn [bind app] in Et.
          assert (Hpre : forall m k acc t0, removeSequencesLoop (a :: b :: r') m k acc = Ok t0 ->
                     exists w, t0 = acc ++ w).
          { induction m as [| [key' [a' b']] m IHm]; intros k acc t0 E0; cbn [removeSequencesLoop] in E0.
            - destruct (slice _ k _) as [p |]; [| discriminate]. cbn [bind] in E0. inversion E0. eauto.
            - destruct (slice _ k a') as [p |]; [| discriminate]. cbn [bind] in E0.
              destruct (IHm _ _ _ E0) as [w Hw]. exists (p ++ w). rewrite Hw, app_assoc. reflexivity. }
          destruct (Hpre _ _ _ _ Et) as [w Hw]. rewrite Hw.
          change (Z.to_nat 0) with 0%nat. cbn [skipn].
          replace (Z.to_nat (a1 - 0)) with (S (S (Z.to_nat (a1 - 2)))) by lia.
          cbn [firstn app]. eauto. }
      destruct Ht as [t' ->].
      change (cedges (a :: b :: r')) with (pairs ((a :: b :: r') ++ [a])).
      change (cedges (a :: b :: t')) with (pairs ((a :: b :: t') ++ [a])).
      apply Hcons.
Qed.

Corollary kmp_total_le2 : forall r, le2 r -> exists r', kmpDeduplicate r = Ok r'.
Proof. intros r H. destruct (kmp_conserves_le2 r H) as (r' & E & _). eauto. Qed.

Print Assumptions kmp_conserves_le2.

(** ** a decidable form of the hypothesis: no point occurs more than twice *)
Definition cntp (p : pt) (l : list pt) : nat := length (filter (pt_eqb p) l).

Definition le2b (r : list pt) : bool := forallb (fun p => (cntp p r <=? 2)%nat) r.

Lemma cntp_app p l1 l2 : cntp p (l1 ++ l2) = (cntp p l1 + cntp p l2)%nat.
Proof. unfold cntp. rewrite filter_app, app_length. reflexivity. Qed.

Lemma cntp_cons_same p l : cntp p (p :: l) = S (cntp p l).
Proof. unfold cntp. cbn [filter]. rewrite pt_eqb_refl. reflexivity. Qed.

Lemma cntp_In p l : In p l -> (1 <= cntp p l)%nat.
Proof.
  induction l as [| q l IH]; intro H; [contradiction |]. destruct H as [-> | H].
  - rewrite cntp_cons_same. lia.
  - change (q :: l) with ([q] ++ l). rewrite cntp_app. specialize (IH H). lia.
Qed.

Lemma le2b_spec r : le2b r = true -> le2 r.
Proof.
  intros Hb x y z p Hxy Hyz Hx Hy Hz.
  apply idx_Ok_inv in Hx. apply idx_Ok_inv in Hy. apply idx_Ok_inv in Hz.
  destruct Hx as [Hxr Nx], Hy as [Hyr Ny], Hz as [Hzr Nz].
  unfold le2b in Hb. rewrite forallb_forall in Hb.
  specialize (Hb p (nth_error_In _ _ Nx)). apply Nat.leb_le in Hb.
  destruct (nth_error_split r _ Nx) as (l1 & l2 & E1 & L1). subst r.
  rewrite nth_error_app2 in Ny, Nz by lia.
  replace (Z.to_nat y - length l1)%nat with (S (Z.to_nat y - length l1 - 1)) in Ny by lia.
  replace (Z.to_nat z - length l1)%nat with (S (Z.to_nat z - length l1 - 1)) in Nz by lia.
  cbn [nth_error] in Ny, Nz.
  destruct (nth_error_split l2 _ Ny) as (l3 & l4 & E2 & L3). subst l2.
  rewrite nth_error_app2 in Nz by lia.
  replace (Z.to_nat z - length l1 - 1 - length l3)%nat with (S (Z.to_nat z - length l1 - 1 - length l3 - 1)) in Nz by lia.
  cbn [nth_error] in Nz. apply nth_error_In in Nz. apply cntp_In in Nz.
  rewrite cntp_app in Hb. change (p :: l3 ++ p :: l4) with ([p] ++ l3 ++ [p] ++ l4) in Hb.
  rewrite !cntp_app in Hb. change (cntp p [p]) with (length (if pt_eqb p p then [p] else [])) in Hb.
  rewrite pt_eqb_refl in Hb. cbn [length] in Hb. lia.
Qed.

Corollary kmp_conserves_le2b : forall r, le2b r = true ->
  exists r', kmpDeduplicate r = Ok r' /\ conserves (cedges r) (cedges r').
Proof. intros r H. apply kmp_conserves_le2. apply le2b_spec. exact H. Qed.

(** non-vacuity: a zigzag with two visits of A and of B; the cancelling pair B->A, A->B disappears *)
Example kmp_conserves_le2_example :
  let A := (0, 0) in let B := (1, 0) in let C := (1, 1) in let D := (0, 1) in
  le2 [D; A; B; A; B; C] /\ kmpDeduplicate [D; A; B; A; B; C] = Ok [D; A; B; C] /\
  le2 [A; B; C; D; C; B] /\ kmpDeduplicate [A; B; C; D; C; B] = Ok [A; B; C; D; C; B].
Proof.
  cbv zeta. split; [apply le2b_spec; vm_compute; reflexivity |]. split; [vm_compute; reflexivity |].
  split; [apply le2b_spec; vm_compute; reflexivity | vm_compute; reflexivity].
Qed.

Print Assumptions kmp_conserves_le2b.
