(** * splitRing, part 1: an abstract stack machine (no keys) and its invariants.

    The Go code keeps the partial rings in an ordered map keyed by a counter.  Here the keys are
    erased: the state is the list of partial rings NEWEST FIRST and the list of completed rings in
    completion order.  [ProofsSplitRefine] shows that [splitStep] computes [astep] on the values. *)
From Coq Require Import ZArith List Bool Lia Permutation.
From Texel Require Import Prelude.Base Index.Model Snap.Model Snap.ProofsBasics.
Import ListNotations.
Open Scope Z_scope.

Definition dp : pt := (0, 0).

Definition closedb (t : list pt) : bool := pt_eqb (hd dp t) (last t dp).

(** walking back over the older partial rings until the ring closes *)
Fixpoint aclose (K : list (list pt)) (t : list pt) : option (ring * list (list pt)) :=
  if closedb t then Some (removelast t, K)
  else match K with [] => None | q :: rest => aclose rest (q ++ tl t) end.

Definition astate := (list (list pt) * list ring)%type.

(** the closing phase of a step *)
Definition aphase (q : list pt) (rest : list (list pt)) (D : list ring) (v : pt) : astate :=
  match aclose rest (q ++ [v]) with
  | Some (ring, rest') => (rest', D ++ [ring])
  | None => ((q ++ [v]) :: rest, D)
  end.

(** one vertex with index > 0; [lastp]: it is the closing vertex of checkRing *)
Definition astep (isMulti : pt -> bool) (lastp : bool) (v : pt) (a : astate) : option astate :=
  let '(K, D) := a in
  match K with
  | [] => None
  | q :: rest =>
      if negb (isMulti v) && negb lastp then Some ((q ++ [v]) :: rest, D)
      else
        let '(K2, D2) := aphase q rest D v in
        if negb lastp then Some ([v] :: K2, D2)
        else match K2 with [] => Some ([], D2) | _ => None end
  end.

Definition isnil {A} (l : list A) : bool := match l with [] => true | _ => false end.

Fixpoint aloop (isMulti : pt -> bool) (l : list pt) (a : astate) : option astate :=
  match l with
  | [] => Some a
  | v :: rest => match astep isMulti (isnil rest) v a with
                 | Some a' => aloop isMulti rest a'
                 | None => None
                 end
  end.

(** ** small list facts *)
Lemma hd_app (q l : list pt) : q <> [] -> hd dp (q ++ l) = hd dp q.
Proof. destruct q; [congruence | reflexivity]. Qed.

Lemma last_snoc (q : list pt) v : last (q ++ [v]) dp = v.
Proof. apply last_last. Qed.

Lemma last_app_ne (q l : list pt) : l <> [] -> last (q ++ l) dp = last l dp.
Proof.
  intro H. destruct (snoc_cases l) as [-> | [l' [z ->]]]; [congruence |].
  rewrite app_assoc, !last_last. reflexivity.
Qed.

Lemma last_cons_ne {A} (a : A) l d : l <> [] -> last (a :: l) d = last l d.
Proof. destruct l; [congruence | reflexivity]. Qed.

Lemma pairs_snoc1 (q : list pt) v : q <> [] -> pairs (q ++ [v]) = pairs q ++ [(last q dp, v)].
Proof.
  intro H. destruct (snoc_cases q) as [-> | [q' [z ->]]]; [congruence |].
  rewrite last_last, <- app_assoc. cbn [app]. apply pairs_snoc.
Qed.

Lemma pairs_join (q t : list pt) : q <> [] -> t <> [] -> last q dp = hd dp t ->
  pairs (q ++ tl t) = pairs q ++ pairs t.
Proof.
  intros Hq Ht E. destruct t as [| a t']; [congruence |]. cbn [hd tl] in *.
  destruct (snoc_cases q) as [-> | [q' [z ->]]]; [congruence |].
  rewrite last_last in E. subst z. rewrite <- app_assoc. cbn [app]. apply pairs_app.
Qed.

Lemma closed_dedges (t : list pt) : closedb t = true -> dedges (removelast t) = pairs t.
Proof.
  unfold closedb. intro C. apply pt_eqb_eq in C.
  destruct t as [| a t']; [reflexivity |].
  destruct (snoc_cases t') as [-> | [m [z ->]]]; [reflexivity |].
  cbn [hd] in C. rewrite app_comm_cons, last_last in C. subst z.
  rewrite app_comm_cons, removelast_last. reflexivity.
Qed.

(** ** invariant A: shape of the stack *)
Fixpoint chain (K : list (list pt)) : Prop :=
  match K with
  | q' :: ((q :: _) as rest) => last q dp = hd dp q' /\ chain rest
  | _ => True
  end.

Record ainv (r0 vprev : pt) (K : list (list pt)) : Prop := mkAinv {
  a_ne : Forall (fun q => q <> []) K;
  a_chain : chain K;
  a_some : K <> [];
  a_bottom : hd dp (last K []) = r0;
  a_nodup : NoDup (map (hd dp) K);
  a_prev : last (hd [] K) dp = vprev }.

Lemma chain_tail q K : chain (q :: K) -> chain K.
Proof. destruct K as [| q' K]; cbn [chain]; tauto. Qed.

Lemma chain_cons q' q K : last q dp = hd dp q' -> chain (q :: K) -> chain (q' :: q :: K).
Proof. intros; cbn [chain]; auto. Qed.

Lemma chain_replace_hd t q K : hd dp t = hd dp q -> chain (q :: K) -> chain (t :: K).
Proof. destruct K as [| q' K]; cbn [chain]; [tauto |]. intros E [H C]. split; congruence. Qed.

Lemma last_nonempty_default {A} (l : list A) d d' : l <> [] -> last l d = last l d'.
Proof.
  intro H. destruct (snoc_cases l) as [-> | [l' [z ->]]]; [congruence |]. rewrite !last_last. reflexivity.
Qed.

Lemma last_tl (t : list pt) : (2 <= length t)%nat -> last (tl t) dp = last t dp.
Proof.
  destruct t as [| a [| b t]]; cbn [length]; try lia. intros _. reflexivity.
Qed.

Lemma tl_ne (t : list pt) : (2 <= length t)%nat -> tl t <> [].
Proof. destruct t as [| a [| b t]]; cbn [length]; try lia. intros _. discriminate. Qed.

Lemma len2_ne (t : list pt) : (2 <= length t)%nat -> t <> [].
Proof. destruct t; cbn [length]; [lia | discriminate]. Qed.

Lemma join_len (q t : list pt) : q <> [] -> (2 <= length t)%nat -> (2 <= length (q ++ tl t))%nat.
Proof.
  intros Hq Ht. rewrite app_length. destruct q; [congruence |]. destruct t as [| a [| b t]]; cbn [length tl] in *; lia.
Qed.

(** what [aclose] returns: the stack is [B ++ K'] and the closing partial ([last B t]: the oldest
    merged one) starts with the vertex that ends [t] *)
Lemma aclose_some K : forall t ring K', (2 <= length t)%nat -> Forall (fun q => q <> []) K ->
  aclose K t = Some (ring, K') ->
  exists B, K = B ++ K' /\ hd dp (last B t) = last t dp /\ ring <> [].
Proof.
  induction K as [| q rest IH]; intros t ring K' Ht Hne H; cbn [aclose] in H.
  - destruct (closedb t) eqn:C; [| discriminate]. inversion H; subst.
    exists []. split; [reflexivity |]. split; [apply pt_eqb_eq, C |].
    destruct t as [| a [| b t]]; cbn [length] in Ht; try lia. cbn [removelast]. discriminate.
  - destruct (closedb t) eqn:C.
    + inversion H; subst. exists []. split; [reflexivity |]. split; [apply pt_eqb_eq, C |].
      destruct t as [| a [| b t]]; cbn [length] in Ht; try lia. cbn [removelast]. discriminate.
    + inversion Hne as [| ? ? Hq Hrest]; subst.
      destruct (IH _ _ _ (join_len q t Hq Ht) Hrest H) as [B [E [Hh Hr]]].
      exists (q :: B). split; [cbn [app]; congruence |]. split; [| exact Hr].
      rewrite last_app_ne in Hh by (apply tl_ne, Ht). rewrite last_tl in Hh by exact Ht.
      destruct B as [| b B]; [cbn [last] in *; rewrite hd_app in Hh by exact Hq; exact Hh |].
      rewrite last_cons_ne by discriminate.
      rewrite (last_nonempty_default (b :: B) t (q ++ tl t)) by discriminate. exact Hh.
Qed.

Lemma aclose_none K : forall t, Forall (fun q => q <> []) K -> aclose K t = None ->
  hd dp t <> last t dp /\ ((2 <= length t)%nat -> Forall (fun q => hd dp q <> last t dp) K).
Proof.
  induction K as [| q rest IH]; intros t Hne H; cbn [aclose] in H.
  - destruct (closedb t) eqn:C; [discriminate |]. split; [| constructor].
    intro E. apply pt_eqb_eq in E. unfold closedb in C. congruence.
  - destruct (closedb t) eqn:C; [discriminate |].
    inversion Hne as [| ? ? Hq Hrest]; subst. split.
    + intro E. apply pt_eqb_eq in E. unfold closedb in C. congruence.
    + intro Ht. destruct (IH _ Hrest H) as [H1 H2].
      rewrite last_app_ne in H1, H2 by (apply tl_ne, Ht). rewrite last_tl in H1, H2 by exact Ht.
      rewrite hd_app in H1 by exact Hq. constructor; [exact H1 |].
      apply H2. apply join_len; assumption.
Qed.

(** edges are conserved by closing *)
Lemma aclose_edges K : forall t ring K', (2 <= length t)%nat -> Forall (fun q => q <> []) K ->
  chain (t :: K) -> aclose K t = Some (ring, K') ->
  Permutation (pairs t ++ concat (map pairs K)) (dedges ring ++ concat (map pairs K')).
Proof.
  induction K as [| q rest IH]; intros t ring K' Ht Hne Hc H; cbn [aclose] in H.
  - destruct (closedb t) eqn:C; [| discriminate]. inversion H; subst.
    rewrite closed_dedges by exact C. apply Permutation_refl.
  - destruct (closedb t) eqn:C.
    + inversion H; subst. rewrite closed_dedges by exact C. apply Permutation_refl.
    + inversion Hne as [| ? ? Hq Hrest]; subst.
      cbn [chain] in Hc. destruct Hc as [Hl Hc].
      assert (Hc' : chain ((q ++ tl t) :: rest)).
      { apply (chain_replace_hd _ q); [apply hd_app, Hq | exact Hc]. }
      pose proof (IH _ _ _ (join_len q t Hq Ht) Hrest Hc' H) as P.
      rewrite pairs_join in P by (try assumption; apply len2_ne, Ht).
      cbn [map concat]. rewrite <- P. rewrite !app_assoc. apply Permutation_app_tail, Permutation_app_comm.
Qed.

(** ** the closing phase of a step *)

Lemma last_cons_default {A} (t : A) (B : list A) d : last (t :: B) d = last B t.
Proof.
  destruct B as [| b B]; [reflexivity |]. rewrite last_cons_ne by discriminate.
  apply last_nonempty_default. discriminate.
Qed.

Lemma last_app_r {A} (X Y : list A) d : Y <> [] -> last (X ++ Y) d = last Y d.
Proof.
  intro H. destruct (snoc_cases Y) as [-> | [Y' [z ->]]]; [congruence |].
  rewrite app_assoc, !last_last. reflexivity.
Qed.

Lemma chain_mid X : forall q1 R, X <> [] -> chain (X ++ q1 :: R) ->
  last q1 dp = hd dp (last X []) /\ chain (q1 :: R).
Proof.
  induction X as [| x X IH]; intros q1 R Hne Hc; [congruence |].
  destruct X as [| y X].
  - cbn [app] in Hc. cbn [chain] in Hc. cbn [last]. exact Hc.
  - change ((x :: y :: X) ++ q1 :: R) with (x :: (y :: X) ++ q1 :: R) in Hc.
    apply chain_tail in Hc. rewrite last_cons_ne by discriminate. apply IH; [discriminate | exact Hc].
Qed.

Lemma NoDup_app_disjoint {A} (X Y : list A) a : NoDup (X ++ Y) -> In a X -> ~ In a Y.
Proof.
  induction X as [| x X IH]; intros ND Hin; [destruct Hin |].
  cbn [app] in ND. inversion ND as [| ? ? Hn Hd]; subst. destruct Hin as [-> | Hin].
  - intro HY. apply Hn. apply in_or_app. right. exact HY.
  - apply IH; assumption.
Qed.

Lemma NoDup_app_r {A} (X Y : list A) : NoDup (X ++ Y) -> NoDup Y.
Proof. induction X as [| x X IH]; intro ND; [exact ND |]. inversion ND; subst. apply IH. assumption. Qed.

Lemma NoDup_app_l {A} (X Y : list A) : NoDup (X ++ Y) -> NoDup X.
Proof.
  induction X as [| x X IH]; intro ND; [constructor |]. cbn [app] in ND. inversion ND as [| ? ? Hn Hd]; subst.
  constructor; [| apply IH, Hd]. intro H. apply Hn. apply in_or_app. left. exact H.
Qed.

Lemma last_In {A} (l : list A) d : l <> [] -> In (last l d) l.
Proof.
  intro H. destruct (snoc_cases l) as [-> | [l' [z ->]]]; [congruence |].
  rewrite last_last. apply in_or_app. right. left. reflexivity.
Qed.

Section Phase.
  Variables (r0 vprev v : pt) (q : list pt) (rest : list (list pt)) (D : list ring).
  Hypothesis Hinv : ainv r0 vprev (q :: rest).

  Let t := q ++ [v].

  Lemma ph_q : q <> [].
  Proof. pose proof (a_ne _ _ _ Hinv) as H. inversion H; assumption. Qed.

  Lemma ph_rest : Forall (fun q => q <> []) rest.
  Proof. pose proof (a_ne _ _ _ Hinv) as H. inversion H; assumption. Qed.

  Lemma ph_t2 : (2 <= length t)%nat.
  Proof.
    unfold t. rewrite app_length. pose proof ph_q as H. cbn [length].
    assert (length q <> 0)%nat by (intro E; apply length_zero_iff_nil in E; congruence). lia.
  Qed.

  Lemma ph_hdt : hd dp t = hd dp q.
  Proof. apply hd_app, ph_q. Qed.

  Lemma ph_lastt : last t dp = v.
  Proof. apply last_snoc. Qed.

  Lemma ph_chain_t : chain (t :: rest).
  Proof. apply (chain_replace_hd _ q); [apply ph_hdt | apply (a_chain _ _ _ Hinv)]. Qed.

  Lemma phase_cases K2 D2 (Hph : aphase q rest D v = (K2, D2)) :
    (exists ring B, aclose rest t = Some (ring, K2) /\ D2 = D ++ [ring] /\ rest = B ++ K2 /\
                    hd dp (last B q) = v /\ ring <> []) \/
    (aclose rest t = None /\ K2 = t :: rest /\ D2 = D /\ hd dp q <> v /\ Forall (fun q => hd dp q <> v) rest).
  Proof.
    unfold aphase in Hph. fold t in Hph. destruct (aclose rest t) as [[ring rest'] |] eqn:E.
    - left. inversion Hph; subst. exists ring.
      destruct (aclose_some _ _ _ _ ph_t2 ph_rest E) as [B [E1 [E2 E3]]].
      exists B. repeat split; try assumption; try reflexivity.
      rewrite ph_lastt in E2. destruct B as [| b B]; [cbn [last] in *; rewrite <- ph_hdt; exact E2 |].
      rewrite (last_nonempty_default (b :: B) q t) by discriminate. exact E2.
    - right. inversion Hph; subst. destruct (aclose_none _ _ ph_rest E) as [H1 H2].
      rewrite ph_lastt in H1, H2. rewrite ph_hdt in H1. repeat split; try reflexivity; [exact H1 |].
      apply H2, ph_t2.
  Qed.

  Lemma phase_ne K2 D2 (Hph : aphase q rest D v = (K2, D2)) : Forall (fun q => q <> []) K2.
  Proof.
    destruct (phase_cases K2 D2 Hph) as [[ring [B [_ [_ [E _]]]]] | [_ [-> _]]].
    - pose proof ph_rest as H. rewrite E in H. apply Forall_app in H. apply H.
    - constructor; [apply len2_ne, ph_t2 | apply ph_rest].
  Qed.

  Lemma phase_chain K2 D2 (Hph : aphase q rest D v = (K2, D2)) : chain ([v] :: K2).
  Proof.
    destruct (phase_cases K2 D2 Hph) as [[ring [B [_ [_ [E [Hh _]]]]]] | [_ [-> _]]].
    - destruct K2 as [| q1 R]; [exact I |].
      pose proof (a_chain _ _ _ Hinv) as Hc. rewrite E in Hc.
      change (q :: B ++ q1 :: R) with ((q :: B) ++ q1 :: R) in Hc.
      apply chain_mid in Hc; [| discriminate]. destruct Hc as [H1 H2].
      rewrite last_cons_default in H1. cbn [chain]. split; [cbn [hd]; congruence | exact H2].
    - apply chain_cons; [apply ph_lastt | apply ph_chain_t].
  Qed.

  Lemma phase_bottom K2 D2 (Hph : aphase q rest D v = (K2, D2)) : K2 <> [] -> hd dp (last K2 []) = r0.
  Proof.
    intro Hne. pose proof (a_bottom _ _ _ Hinv) as Hb. pose proof ph_hdt as Hh.
    destruct (phase_cases K2 D2 Hph) as [[ring [B [_ [_ [E _]]]]] | [_ [E _]]].
    - rewrite E in Hb. change (q :: B ++ K2) with ((q :: B) ++ K2) in Hb.
      rewrite last_app_r in Hb by exact Hne. exact Hb.
    - rewrite E. destruct rest as [| q1 R]; [cbn [last] in *; rewrite Hh; exact Hb |].
      rewrite last_cons_ne in * by discriminate. exact Hb.
  Qed.

  Lemma phase_empty K2 D2 (Hph : aphase q rest D v = (K2, D2)) : K2 = [] -> v = r0.
  Proof.
    intro E0. pose proof (a_bottom _ _ _ Hinv) as Hb.
    destruct (phase_cases K2 D2 Hph) as [[ring [B [_ [_ [E [Hh _]]]]]] | [_ [E _]]]; [| congruence].
    rewrite E, E0, app_nil_r, last_cons_default in Hb. congruence.
  Qed.

  Lemma phase_nodup K2 D2 (Hph : aphase q rest D v = (K2, D2)) : NoDup (map (hd dp) ([v] :: K2)).
  Proof.
    pose proof (a_nodup _ _ _ Hinv) as ND.
    destruct (phase_cases K2 D2 Hph) as [[ring [B [_ [_ [E [Hh _]]]]]] | [_ [E [_ [H1 H2]]]]].
    - rewrite E in ND. change (q :: B ++ K2) with ((q :: B) ++ K2) in ND. rewrite map_app in ND.
      cbn [map hd]. constructor; [| apply (NoDup_app_r _ _ ND)].
      apply (NoDup_app_disjoint _ _ _ ND). rewrite <- Hh. apply in_map.
      rewrite <- last_cons_default with (d := []). apply last_In. discriminate.
    - rewrite E. cbn [map hd]. rewrite ph_hdt. constructor; [| exact ND].
      intros [Hq | Hr]; [congruence |]. rewrite Forall_forall in H2.
      apply in_map_iff in Hr. destruct Hr as [x [Hx Hin]]. apply (H2 x Hin). exact Hx.
  Qed.

  Lemma phase_closing K2 D2 (Hph : aphase q rest D v = (K2, D2)) : v = r0 -> K2 = [].
  Proof.
    intro Ev. pose proof (a_nodup _ _ _ Hinv) as ND. pose proof (a_bottom _ _ _ Hinv) as Hb.
    destruct (phase_cases K2 D2 Hph) as [[ring [B [_ [_ [E [Hh _]]]]]] | [_ [E [_ [H1 H2]]]]].
    - destruct K2 as [| q1 R] eqn:EK; [reflexivity |]. exfalso.
      rewrite E in ND, Hb. change (q :: B ++ q1 :: R) with ((q :: B) ++ q1 :: R) in ND, Hb.
      rewrite last_app_r in Hb by discriminate. rewrite map_app in ND.
      apply (NoDup_app_disjoint _ _ v ND).
      + rewrite <- Hh. apply in_map. rewrite <- last_cons_default with (d := []). apply last_In. discriminate.
      + rewrite Ev, <- Hb. apply in_map. apply last_In. discriminate.
    - exfalso. destruct rest as [| q1 R].
      + cbn [last] in Hb. congruence.
      + rewrite last_cons_ne in Hb by discriminate. rewrite Forall_forall in H2.
        apply (H2 (last (q1 :: R) [])); [apply last_In; discriminate | congruence].
  Qed.

  Lemma phase_edges K2 D2 (Hph : aphase q rest D v = (K2, D2)) :
    Permutation (concat (map pairs K2) ++ concat (map dedges D2))
                ((concat (map pairs (q :: rest)) ++ concat (map dedges D)) ++ [(last q dp, v)]).
  Proof.
    destruct (phase_cases K2 D2 Hph) as [[ring [B [Ha [-> _]]]] | [_ [-> [-> _]]]].
    - pose proof (aclose_edges _ _ _ _ ph_t2 ph_rest ph_chain_t Ha) as P.
      unfold t in P. rewrite pairs_snoc1 in P by apply ph_q.
      clear Hph. perm_count.
    - cbn [map concat]. unfold t. rewrite pairs_snoc1 by apply ph_q. clear Hph. perm_count.
  Qed.

  Lemma phase_done_ne K2 D2 (Hph : aphase q rest D v = (K2, D2)) : Forall (fun ring : ring => ring <> []) D -> Forall (fun ring : ring => ring <> []) D2.
  Proof.
    intro H. destruct (phase_cases K2 D2 Hph) as [[ring [B [_ [-> [_ [_ Hr]]]]]] | [_ [_ [-> _]]]]; [| exact H].
    apply Forall_app. split; [exact H | constructor; [exact Hr | constructor]].
  Qed.
End Phase.

(** ** the invariant of the loop: shape + conservation of directed edges *)
Record sinv (r0 : pt) (pref : list pt) (a : astate) : Prop := mkSinv {
  s_a : ainv r0 (last pref dp) (fst a);
  s_edges : Permutation (concat (map pairs (fst a)) ++ concat (map dedges (snd a))) (pairs pref);
  s_ne : Forall (fun ring : ring => ring <> []) (snd a) }.

Lemma sinv_init r0 : sinv r0 [r0] ([[r0]], []).
Proof.
  constructor; cbn [fst snd].
  - constructor; cbn; try tauto; try discriminate.
    + repeat constructor. discriminate.
    + repeat constructor. intros [].
  - apply Permutation_refl.
  - constructor.
Qed.

Lemma astep_nonlast isMulti r0 pref v a : sinv r0 pref a -> pref <> [] ->
  exists a', astep isMulti false v a = Some a' /\ sinv r0 (pref ++ [v]) a'.
Proof.
  intros [Ha He Hn] Hp. destruct a as [K D]. cbn [fst snd] in *.
  destruct K as [| q rest]; [exfalso; apply (a_some _ _ _ Ha); reflexivity |].
  assert (Hq : q <> []) by (pose proof (a_ne _ _ _ Ha) as H; inversion H; assumption).
  assert (Hl : last q dp = last pref dp) by apply (a_prev _ _ _ Ha).
  cbn [astep]. destruct (negb (isMulti v) && negb false) eqn:Epl.
  - eexists. split; [reflexivity |]. constructor; cbn [fst snd].
    + constructor.
      * pose proof (a_ne _ _ _ Ha) as H. inversion H; subst. constructor; [| assumption].
        intro E. apply app_eq_nil in E. destruct E; discriminate.
      * apply (chain_replace_hd _ q); [apply hd_app, Hq | apply (a_chain _ _ _ Ha)].
      * discriminate.
      * pose proof (a_bottom _ _ _ Ha) as Hb. destruct rest as [| q1 R].
        -- cbn [last] in *. rewrite hd_app by exact Hq. exact Hb.
        -- rewrite last_cons_ne in * by discriminate. exact Hb.
      * cbn [map]. rewrite hd_app by exact Hq. apply (a_nodup _ _ _ Ha).
      * cbn [hd]. rewrite !last_snoc. reflexivity.
    + cbn [map concat] in *. rewrite !pairs_snoc1 by assumption. rewrite Hl. perm_count.
    + exact Hn.
  - destruct (aphase q rest D v) as [K2 D2] eqn:Eph. cbn [negb].
    eexists. split; [reflexivity |]. constructor; cbn [fst snd].
    + constructor.
      * constructor; [discriminate | apply (phase_ne _ _ _ _ _ _ Ha _ _ Eph)].
      * apply (phase_chain _ _ _ _ _ _ Ha _ _ Eph).
      * discriminate.
      * destruct K2 as [| q1 R] eqn:EK.
        -- cbn [last hd]. apply (phase_empty _ _ _ _ _ _ Ha _ _ Eph). reflexivity.
        -- rewrite last_cons_ne by discriminate. apply (phase_bottom _ _ _ _ _ _ Ha _ _ Eph). discriminate.
      * apply (phase_nodup _ _ _ _ _ _ Ha _ _ Eph).
      * cbn [hd last]. rewrite last_snoc. reflexivity.
    + pose proof (phase_edges _ _ _ _ _ _ Ha _ _ Eph) as P. cbn [map concat] in *.
      rewrite pairs_snoc1 by assumption. rewrite Hl in P. change (pairs [v]) with (@nil (pt * pt)).
      perm_count.
    + apply (phase_done_ne _ _ _ _ _ _ Ha _ _ Eph), Hn.
Qed.

Lemma astep_last isMulti r0 pref a : sinv r0 pref a -> pref <> [] ->
  exists D', astep isMulti true r0 a = Some ([], D') /\
             Permutation (concat (map dedges D')) (pairs (pref ++ [r0])) /\
             Forall (fun ring : ring => ring <> []) D'.
Proof.
  intros [Ha He Hn] Hp. destruct a as [K D]. cbn [fst snd] in *.
  destruct K as [| q rest]; [exfalso; apply (a_some _ _ _ Ha); reflexivity |].
  assert (Hl : last q dp = last pref dp) by apply (a_prev _ _ _ Ha).
  cbn [astep]. rewrite andb_false_r. destruct (aphase q rest D r0) as [K2 D2] eqn:Eph. cbn [negb].
  pose proof (phase_closing _ _ _ _ _ _ Ha _ _ Eph eq_refl) as ->.
  exists D2. split; [reflexivity |]. split.
  - pose proof (phase_edges _ _ _ _ _ _ Ha _ _ Eph) as P. cbn [map concat] in *.
    rewrite pairs_snoc1 by assumption. rewrite Hl in P. perm_count.
  - apply (phase_done_ne _ _ _ _ _ _ Ha _ _ Eph), Hn.
Qed.

(** the whole loop over [tl r ++ [r0]]: it never fails, empties the stack and conserves the edges *)
Lemma aloop_total isMulti r0 : forall l pref a, sinv r0 pref a -> pref <> [] ->
  exists D', aloop isMulti (l ++ [r0]) a = Some ([], D') /\
             Permutation (concat (map dedges D')) (pairs (pref ++ l ++ [r0])) /\
             Forall (fun ring : ring => ring <> []) D'.
Proof.
  induction l as [| v l IH]; intros pref a Hs Hp.
  - cbn [app aloop isnil]. destruct (astep_last isMulti r0 pref a Hs Hp) as [D' [E [P N]]].
    rewrite E. exists D'. auto.
  - cbn [app aloop]. replace (isnil (l ++ [r0])) with false by (destruct l; reflexivity).
    destruct (astep_nonlast isMulti r0 pref v a Hs Hp) as [a' [E Hs']]. rewrite E.
    assert (Hp' : pref ++ [v] <> []) by (intro X; apply app_eq_nil in X; destruct X; discriminate).
    destruct (IH (pref ++ [v]) a' Hs' Hp') as [D' [E' [P N]]].
    exists D'. split; [exact E' |]. split; [| exact N]. rewrite <- app_assoc in P. exact P.
Qed.

Theorem asplit_total_conserves isMulti (r : ring) r0 t : r = r0 :: t ->
  exists D, aloop isMulti (t ++ [r0]) ([[r0]], []) = Some ([], D) /\
            Permutation (concat (map dedges D)) (dedges r) /\
            Forall (fun ring : ring => ring <> []) D.
Proof.
  intros ->. destruct (aloop_total isMulti r0 t [r0] _ (sinv_init r0)) as [D [E [P N]]]; [discriminate |].
  exists D. split; [exact E |]. split; [| exact N]. exact P.
Qed.

(** ** invariant C: when every repeated vertex is flagged, the path on the stack is repeat-free *)
Fixpoint path (K : list (list pt)) : list pt :=
  match K with
  | [] => []
  | q :: rest => match rest with [] => q | _ => path rest ++ tl q end
  end.

Lemma path_cons q rest : rest <> [] -> path (q :: rest) = path rest ++ tl q.
Proof. destruct rest; [congruence | reflexivity]. Qed.

Lemma path_merge u q rest : q <> [] -> path (u :: q :: rest) = path ((q ++ tl u) :: rest).
Proof.
  intro Hq. destruct rest as [| r1 R].
  - reflexivity.
  - rewrite (path_cons u) by discriminate. rewrite (path_cons q) by discriminate.
    rewrite (path_cons (q ++ tl u)) by discriminate. destruct q; [congruence |]. cbn [tl app].
    rewrite app_assoc. reflexivity.
Qed.

Lemma path_snoc q rest v : q <> [] -> path ((q ++ [v]) :: rest) = path (q :: rest) ++ [v].
Proof.
  intro Hq. destruct rest as [| r1 R]; [reflexivity |].
  rewrite !path_cons by discriminate. destruct q; [congruence |]. cbn [tl app]. rewrite app_assoc. reflexivity.
Qed.

Lemma last_path K : K <> [] -> Forall (fun q => q <> []) K -> chain K ->
  last (path K) dp = last (hd [] K) dp.
Proof.
  induction K as [| q rest IH]; intros Hne Hf Hc; [congruence |].
  destruct rest as [| q1 R]; [reflexivity |].
  rewrite path_cons by discriminate. cbn [hd].
  inversion Hf as [| ? ? Hq Hrest]; subst. cbn [chain] in Hc. destruct Hc as [Hl Hc].
  destruct q as [| a [| b q']]; [congruence | |].
  - cbn [tl]. rewrite app_nil_r. rewrite IH by (try discriminate; assumption). cbn [hd last] in *. exact Hl.
  - rewrite last_app_r by discriminate. reflexivity.
Qed.

Lemma in_path K x : In x (path K) -> exists q, In q K /\ In x q.
Proof.
  induction K as [| q rest IH]; [intros [] |].
  destruct rest as [| q1 R].
  - intro H. exists q. split; [left; reflexivity | exact H].
  - rewrite path_cons by discriminate. intro H. apply in_app_or in H. destruct H as [H | H].
    + destruct (IH H) as [q' [H1 H2]]. exists q'. split; [right; exact H1 | exact H2].
    + exists q. split; [left; reflexivity |]. destruct q; [destruct H | right; exact H].
Qed.

Lemma path_ne K : K <> [] -> Forall (fun q => q <> []) K -> path K <> [].
Proof.
  induction K as [| q rest IH]; intros Hne Hf; [congruence |].
  inversion Hf as [| ? ? Hq Hrest]; subst.
  destruct rest as [| q1 R]; [exact Hq |].
  rewrite path_cons by discriminate. intro E. apply app_eq_nil in E. destruct E as [E _].
  revert E. apply IH; [discriminate | exact Hrest].
Qed.

(** the merged top [u] of a repeat-free path is repeat-free and shares nothing but its first
    vertex with the path below it *)
Lemma nodup_top u K : u <> [] -> Forall (fun q => q <> []) K -> chain (u :: K) -> NoDup (path (u :: K)) ->
  NoDup u /\ NoDup (path K) /\ incl (path K) (path (u :: K)) /\ (forall x, In x (path K) -> ~ In x (tl u)).
Proof.
  intros Hu Hne Hc ND. destruct K as [| q rest].
  - cbn [path] in *. repeat split; [exact ND | constructor | intros x [] | intros x []].
  - rewrite path_cons in * by discriminate.
    assert (Hl : In (hd dp u) (path (q :: rest))).
    { cbn [chain] in Hc. destruct Hc as [Hl Hc]. rewrite <- Hl.
      change q with (hd [] (q :: rest)).
      rewrite <- (last_path (q :: rest)) by (try discriminate; assumption).
      apply last_In. apply path_ne; [discriminate | assumption]. }
    split; [| split; [apply (NoDup_app_l _ _ ND) | split]].
    + destruct u as [| a u']; [congruence |]. cbn [hd tl] in *. constructor.
      * apply (NoDup_app_disjoint _ _ _ ND), Hl.
      * apply (NoDup_app_r _ _ ND).
    + intros x Hx. apply in_or_app. left. exact Hx.
    + intros x Hx. apply (NoDup_app_disjoint _ _ _ ND), Hx.
Qed.

Section Flags.
  Variable isMulti : pt -> bool.

  (** the property carried through [aclose]: flagged vertices on the path start a partial,
      or lie inside the merged top [u] *)
  Definition flagQ (u : list pt) (K : list (list pt)) : Prop :=
    forall x, isMulti x = true -> In x (path (u :: K)) ->
              In x (map (hd dp) K) \/ x = hd dp u \/ In x (tl u).

  Lemma aclose_nodup K : forall u v ring K', u <> [] -> Forall (fun q => q <> []) K -> chain (u :: K) ->
    NoDup (path (u :: K)) -> flagQ u K -> aclose K (u ++ [v]) = Some (ring, K') ->
    NoDup ring /\ NoDup (path K') /\ incl (path K') (path (u :: K)) /\
    (forall x, isMulti x = true -> In x (path K') -> In x (map (hd dp) K') \/ x = v).
  Proof.
    induction K as [| q rest IH]; intros u v ring K' Hu Hne Hc ND HQ H.
    - cbn [aclose] in H. destruct (closedb (u ++ [v])) eqn:C; [| discriminate]. inversion H; subst.
      rewrite removelast_last. cbn [path] in *. repeat split; try assumption.
      + constructor.
      + intros x [].
      + intros x _ [].
    - cbn [aclose] in H. destruct (closedb (u ++ [v])) eqn:C.
      + inversion H; subst. rewrite removelast_last.
        unfold closedb in C. apply pt_eqb_eq in C. rewrite hd_app, last_snoc in C by exact Hu.
        destruct (nodup_top u _ Hu Hne Hc ND) as [N1 [N2 [N3 N4]]].
        repeat split; try assumption.
        intros x Fx Hx. destruct (HQ x Fx (N3 x Hx)) as [Q | [Q | Q]]; [left; exact Q | right; congruence |].
        exfalso. apply (N4 x Hx Q).
      + inversion Hne as [| ? ? Hq Hrest]; subst.
        assert (Et : q ++ tl (u ++ [v]) = (q ++ tl u) ++ [v]).
        { destruct u; [congruence |]. cbn [tl app]. rewrite app_assoc. reflexivity. }
        rewrite Et in H.
        assert (Hu' : q ++ tl u <> []) by (intro E; apply app_eq_nil in E; destruct E; congruence).
        cbn [chain] in Hc. destruct Hc as [Hl Hc].
        assert (Hc' : chain ((q ++ tl u) :: rest)).
        { apply (chain_replace_hd _ q); [apply hd_app, Hq | exact Hc]. }
        rewrite (path_merge u q rest Hq) in ND.
        assert (HQ' : flagQ (q ++ tl u) rest).
        { intros x Fx Hx. rewrite <- (path_merge u q rest Hq) in Hx.
          destruct (HQ x Fx Hx) as [Q | [Q | Q]].
          - cbn [map] in Q. destruct Q as [Q | Q]; [right; left; rewrite hd_app by exact Hq; congruence | left; exact Q].
          - right. rewrite Q, <- Hl. destruct q as [| a [| b q']]; [congruence | left; reflexivity |].
            right. change (In (last (b :: q') dp) ((b :: q') ++ tl u)). apply in_or_app. left. apply last_In. discriminate.
          - right. right. destruct q; [congruence |]. cbn [app tl]. apply in_or_app. right. exact Q. }
        destruct (IH _ _ _ _ Hu' Hrest Hc' ND HQ' H) as [N1 [N2 [N3 N4]]].
        rewrite (path_merge u q rest Hq). repeat split; assumption.
  Qed.
End Flags.

Lemma NoDup_snoc {A} (l : list A) a : NoDup l -> ~ In a l -> NoDup (l ++ [a]).
Proof.
  induction l as [| x l IH]; intros ND Hn; cbn [app].
  - constructor; [intros [] | constructor].
  - inversion ND as [| ? ? Hx Hd]; subst. constructor.
    + intro H. apply in_app_or in H. destruct H as [H | [H | []]]; [exact (Hx H) |].
      apply Hn. left. symmetry. exact H.
    + apply IH; [exact Hd |]. intro H. apply Hn. right. exact H.
Qed.

Lemma path_push v K : K <> [] -> path ([v] :: K) = path K.
Proof. intro H. rewrite path_cons by exact H. apply app_nil_r. Qed.

Section FlagLoop.
  Variable isMulti : pt -> bool.

  Record finv (pref : list pt) (a : astate) : Prop := mkFinv {
    f_nodup : NoDup (path (fst a));
    f_flag : forall x, isMulti x = true -> In x (path (fst a)) -> In x (map (hd dp) (fst a));
    f_incl : incl (path (fst a)) pref;
    f_done : Forall (@NoDup pt) (snd a) }.

  Lemma finv_init r0 : finv [r0] ([[r0]], []).
  Proof.
    constructor; cbn [fst snd path map hd].
    - constructor; [intros [] | constructor].
    - intros x _ H. exact H.
    - apply incl_refl.
    - constructor.
  Qed.

  (** the closing phase under the flag invariant *)
  Lemma fphase r0 vprev v q rest D K2 D2 pref :
    ainv r0 vprev (q :: rest) -> finv pref (q :: rest, D) -> isMulti v = true \/ v = r0 ->
    aphase q rest D v = (K2, D2) ->
    Forall (@NoDup pt) D2 /\ (K2 = [] \/ finv (pref ++ [v]) ([v] :: K2, D2)).
  Proof.
    intros Ha [Fn Ff Fi Fd] Hv Eph. cbn [fst snd] in *.
    assert (Hq : q <> []) by (pose proof (a_ne _ _ _ Ha) as H; inversion H; assumption).
    assert (Hrest : Forall (fun q => q <> []) rest) by (pose proof (a_ne _ _ _ Ha) as H; inversion H; assumption).
    destruct (phase_cases _ _ _ _ _ _ Ha _ _ Eph) as [[ring [B [Hc [-> [E [Hh Hr]]]]]] | [Hc [-> [-> [H1 H2]]]]].
    - assert (HQ : flagQ isMulti q rest).
      { intros x Fx Hx. destruct (Ff x Fx Hx) as [Q | Q]; [right; left; congruence | left; exact Q]. }
      destruct (aclose_nodup isMulti rest q v ring K2 Hq Hrest (a_chain _ _ _ Ha) Fn HQ Hc) as [N1 [N2 [N3 N4]]].
      split; [apply Forall_app; split; [exact Fd | constructor; [exact N1 | constructor]] |].
      destruct K2 as [| q1 R] eqn:EK; [left; reflexivity | right]. rewrite <- EK in *.
      assert (HK : K2 <> []) by (rewrite EK; discriminate).
      constructor; cbn [fst snd]; rewrite ?path_push by exact HK.
      + exact N2.
      + intros x Fx Hx. cbn [map hd]. destruct (N4 x Fx Hx) as [Q | Q]; [right; exact Q | left; congruence].
      + intros x Hx. apply in_or_app. left. apply Fi, N3, Hx.
      + apply Forall_app; split; [exact Fd | constructor; [exact N1 | constructor]].
    - split; [exact Fd | right].
      assert (Hnv : ~ In v (path (q :: rest))).
      { intro Hin. destruct Hv as [Fv | Ev].
        - destruct (Ff v Fv Hin) as [Q | Q]; [congruence |].
          apply in_map_iff in Q. destruct Q as [x [Hx Hin']]. rewrite Forall_forall in H2. apply (H2 x Hin'), Hx.
        - pose proof (a_bottom _ _ _ Ha) as Hb. destruct rest as [| q1 R].
          + cbn [last] in Hb. congruence.
          + rewrite last_cons_ne in Hb by discriminate. rewrite Forall_forall in H2.
            apply (H2 (last (q1 :: R) [])); [apply last_In; discriminate | congruence]. }
      constructor; cbn [fst snd]; rewrite ?path_push by discriminate; rewrite ?path_snoc by exact Hq.
      + apply NoDup_snoc; assumption.
      + intros x Fx Hx. cbn [map hd]. rewrite hd_app by exact Hq. apply in_app_or in Hx.
        destruct Hx as [Hx | [Hx | []]]; [right; apply (Ff x Fx Hx) | left; exact Hx].
      + apply incl_app; [apply incl_appl, Fi | apply incl_appr, incl_refl].
      + exact Fd.
  Qed.

  Lemma fstep_nonlast r0 pref v a a' : sinv r0 pref a -> finv pref a ->
    (isMulti v = false -> ~ In v pref) ->
    astep isMulti false v a = Some a' -> finv (pref ++ [v]) a'.
  Proof.
    intros [Ha _ _] F Hv E. destruct a as [K D]. cbn [fst snd] in *.
    destruct K as [| q rest]; [discriminate |].
    assert (Hq : q <> []) by (pose proof (a_ne _ _ _ Ha) as H; inversion H; assumption).
    cbn [astep] in E. destruct (isMulti v) eqn:Fv; cbn [negb andb] in E.
    - destruct (aphase q rest D v) as [K2 D2] eqn:Eph. inversion E; subst.
      destruct (fphase _ _ _ _ _ _ _ _ pref Ha F (or_introl Fv) Eph) as [N [-> | F']]; [| exact F'].
      constructor; cbn [fst snd path map hd].
      + constructor; [intros [] | constructor].
      + intros x _ H. exact H.
      + intros x [<- | []]. apply in_or_app. right. left. reflexivity.
      + exact N.
    - inversion E; subst. destruct F as [Fn Ff Fi Fd]. cbn [fst snd] in *.
      constructor; cbn [fst snd]; rewrite ?path_snoc by exact Hq.
      + apply NoDup_snoc; [exact Fn |]. intro H. apply (Hv eq_refl), Fi, H.
      + intros x Fx Hx. cbn [map]. rewrite hd_app by exact Hq. apply in_app_or in Hx.
        destruct Hx as [Hx | [Hx | []]]; [apply (Ff x Fx Hx) | congruence].
      + apply incl_app; [apply incl_appl, Fi | apply incl_appr, incl_refl].
      + exact Fd.
  Qed.

  Lemma fstep_last r0 pref a K' D' : sinv r0 pref a -> finv pref a ->
    astep isMulti true r0 a = Some (K', D') -> Forall (@NoDup pt) D'.
  Proof.
    intros [Ha _ _] F E. destruct a as [K D]. cbn [fst snd] in *.
    destruct K as [| q rest]; [discriminate |].
    cbn [astep] in E. rewrite andb_false_r in E.
    destruct (aphase q rest D r0) as [K2 D2] eqn:Eph. cbn [negb] in E.
    destruct (fphase _ _ _ _ _ _ _ _ pref Ha F (or_intror eq_refl) Eph) as [N _].
    destruct K2; inversion E; subst. exact N.
  Qed.

  (** flags contain every vertex that occurs again later in the ring *)
  Lemma floop r0 : forall l pref a K' D',
    (forall p1 v p2, pref ++ l = p1 ++ v :: p2 -> (length pref <= length p1)%nat -> isMulti v = false -> ~ In v p1) ->
    sinv r0 pref a -> finv pref a -> pref <> [] ->
    aloop isMulti (l ++ [r0]) a = Some (K', D') -> Forall (@NoDup pt) D'.
  Proof.
    induction l as [| v l IH]; intros pref a K' D' Hfl Hs Hf Hp E.
    - cbn [app aloop isnil] in E.
      destruct (astep isMulti true r0 a) as [[K1 D1] |] eqn:E1; [| discriminate].
      inversion E; subst. apply (fstep_last r0 pref a K' D' Hs Hf E1).
    - cbn [app aloop] in E. replace (isnil (l ++ [r0])) with false in E by (destruct l; reflexivity).
      destruct (astep_nonlast isMulti r0 pref v a Hs Hp) as [a' [E1 Hs']]. rewrite E1 in E.
      assert (Hf' : finv (pref ++ [v]) a').
      { apply (fstep_nonlast r0 pref v a a' Hs Hf); [| exact E1].
        intro Fv. apply (Hfl pref v l eq_refl (le_n _) Fv). }
      apply (IH (pref ++ [v]) a' K' D'); try assumption.
      + intros p1 w p2 Esplit Hlen. apply (Hfl p1 w p2); [rewrite <- Esplit, <- app_assoc; reflexivity |].
        rewrite app_length in Hlen. cbn [length] in Hlen. lia.
      + intro X. apply app_eq_nil in X. destruct X; discriminate.
  Qed.
End FlagLoop.

(** ** summary for the abstract machine *)
Lemma flagged_prefix_free isMulti (r : ring) :
  (forall p, (2 <= count_occ pt_dec r p)%nat -> isMulti p = true) ->
  forall p1 v p2, r = p1 ++ v :: p2 -> isMulti v = false -> ~ In v p1.
Proof.
  intros Hfl p1 v p2 E Fv Hin. rewrite (Hfl v) in Fv; [discriminate |].
  rewrite E, count_occ_app. rewrite count_occ_cons_eq by reflexivity.
  apply (count_occ_In pt_dec) in Hin. lia.
Qed.

Theorem asplit_nodup isMulti (r : ring) r0 t K D : r = r0 :: t ->
  (forall p, (2 <= count_occ pt_dec r p)%nat -> isMulti p = true) ->
  aloop isMulti (t ++ [r0]) ([[r0]], []) = Some (K, D) -> Forall (@NoDup pt) D.
Proof.
  intros Er Hfl E.
  apply (floop isMulti r0 t [r0] ([[r0]], []) K D); try assumption.
  - intros p1 v p2 Es _. apply (flagged_prefix_free isMulti r Hfl p1 v p2). rewrite Er. exact Es.
  - apply sinv_init.
  - apply finv_init.
  - discriminate.
Qed.
