(** * splitRing, part 1: an abstract stack machine (no keys) and its invariants.

    The Go code keeps the partial rings in an ordered map keyed by a counter.  Here the keys are
    erased: the state is the list of partial rings NEWEST FIRST and the list of completed rings in
    completion order.  [ProofsSplitRefine] shows that [splitStep] computes [astep] on the values. *)
From Coq Require Import ZArith List Bool Lia Permutation.
From Texel Require Import Prelude.Base Index.Model Snap.Model Snap.ProofsBasics.
Import ListNotations.
Open Scope Z_scope.

Definition dp : pt := (0, 0).

Definition closedb (t : list pt) : bool := pt_eqb (hd dp t) (last t dp).

(** walking back over the older partial rings until the ring closes *)
Fixpoint aclose (K : list (list pt)) (t : list pt) : option (ring * list (list pt)) :=
  if closedb t then Some (removelast t, K)
  else match K with [] => None | q :: rest => aclose rest (q ++ tl t) end.

Definition astate := (list (list pt) * list ring)%type.

(** one vertex with index > 0; [lastp]: it is the closing vertex of checkRing *)
Definition astep (isMulti : pt -> bool) (lastp : bool) (v : pt) (a : astate) : option astate :=
  let '(K, D) := a in
  match K with
  | [] => None
  | q :: rest =>
      if negb (isMulti v) && negb lastp then Some ((q ++ [v]) :: rest, D)
      else
        let t := q ++ [v] in
        let '(K2, D2) := match aclose rest t with
                         | Some (ring, rest') => (rest', D ++ [ring])
                         | None => (t :: rest, D)
                         end in
        if negb lastp then Some ([v] :: K2, D2)
        else match K2 with [] => Some ([], D2) | _ => None end
  end.

Definition isnil {A} (l : list A) : bool := match l with [] => true | _ => false end.

Fixpoint aloop (isMulti : pt -> bool) (l : list pt) (a : astate) : option astate :=
  match l with
  | [] => Some a
  | v :: rest => match astep isMulti (isnil rest) v a with
                 | Some a' => aloop isMulti rest a'
                 | None => None
                 end
  end.

(** ** small list facts *)
Lemma hd_app (q l : list pt) : q <> [] -> hd dp (q ++ l) = hd dp q.
Proof. destruct q; [congruence | reflexivity]. Qed.

Lemma last_snoc (q : list pt) v : last (q ++ [v]) dp = v.
Proof. apply last_last. Qed.

Lemma last_app_ne (q l : list pt) : l <> [] -> last (q ++ l) dp = last l dp.
Proof.
  intro H. destruct (snoc_cases l) as [-> | [l' [z ->]]]; [congruence |].
  rewrite app_assoc, !last_last. reflexivity.
Qed.

Lemma last_cons_ne {A} (a : A) l d : l <> [] -> last (a :: l) d = last l d.
Proof. destruct l; [congruence | reflexivity]. Qed.

Lemma pairs_snoc1 (q : list pt) v : q <> [] -> pairs (q ++ [v]) = pairs q ++ [(last q dp, v)].
Proof.
  intro H. destruct (snoc_cases q) as [-> | [q' [z ->]]]; [congruence |].
  rewrite last_last, <- app_assoc. cbn [app]. apply pairs_snoc.
Qed.

Lemma pairs_join (q t : list pt) : q <> [] -> t <> [] -> last q dp = hd dp t ->
  pairs (q ++ tl t) = pairs q ++ pairs t.
Proof.
  intros Hq Ht E. destruct t as [| a t']; [congruence |]. cbn [hd tl] in *.
  destruct (snoc_cases q) as [-> | [q' [z ->]]]; [congruence |].
  rewrite last_last in E. subst z. rewrite <- app_assoc. cbn [app]. apply pairs_app.
Qed.

Lemma closed_dedges (t : list pt) : closedb t = true -> dedges (removelast t) = pairs t.
Proof.
  unfold closedb. intro C. apply pt_eqb_eq in C.
  destruct t as [| a t']; [reflexivity |].
  destruct (snoc_cases t') as [-> | [m [z ->]]]; [reflexivity |].
  cbn [hd] in C. rewrite app_comm_cons, last_last in C. subst z.
  rewrite app_comm_cons, removelast_last. reflexivity.
Qed.

(** ** invariant A: shape of the stack *)
Fixpoint chain (K : list (list pt)) : Prop :=
  match K with
  | q' :: ((q :: _) as rest) => last q dp = hd dp q' /\ chain rest
  | _ => True
  end.

Record ainv (r0 vprev : pt) (K : list (list pt)) : Prop := mkAinv {
  a_ne : Forall (fun q => q <> []) K;
  a_chain : chain K;
  a_some : K <> [];
  a_bottom : hd dp (last K []) = r0;
  a_nodup : NoDup (map (hd dp) K);
  a_prev : last (hd [] K) dp = vprev }.

Lemma chain_tail q K : chain (q :: K) -> chain K.
Proof. destruct K as [| q' K]; cbn [chain]; tauto. Qed.

Lemma chain_cons q' q K : last q dp = hd dp q' -> chain (q :: K) -> chain (q' :: q :: K).
Proof. intros; cbn [chain]; auto. Qed.

Lemma chain_replace_hd t q K : hd dp t = hd dp q -> chain (q :: K) -> chain (t :: K).
Proof. destruct K as [| q' K]; cbn [chain]; [tauto |]. intros E [H C]. split; congruence. Qed.

Lemma last_nonempty_default {A} (l : list A) d d' : l <> [] -> last l d = last l d'.
Proof.
  intro H. destruct (snoc_cases l) as [-> | [l' [z ->]]]; [congruence |]. rewrite !last_last. reflexivity.
Qed.

Lemma last_tl (t : list pt) : (2 <= length t)%nat -> last (tl t) dp = last t dp.
Proof.
  destruct t as [| a [| b t]]; cbn [length]; try lia. intros _. reflexivity.
Qed.

Lemma tl_ne (t : list pt) : (2 <= length t)%nat -> tl t <> [].
Proof. destruct t as [| a [| b t]]; cbn [length]; try lia. intros _. discriminate. Qed.

Lemma len2_ne (t : list pt) : (2 <= length t)%nat -> t <> [].
Proof. destruct t; cbn [length]; [lia | discriminate]. Qed.

Lemma join_len (q t : list pt) : q <> [] -> (2 <= length t)%nat -> (2 <= length (q ++ tl t))%nat.
Proof.
  intros Hq Ht. rewrite app_length. destruct q; [congruence |]. destruct t as [| a [| b t]]; cbn [length tl] in *; lia.
Qed.

(** what [aclose] returns: the stack is [B ++ K'] and the closing partial ([last B t]: the oldest
    merged one) starts with the vertex that ends [t] *)
Lemma aclose_some K : forall t ring K', (2 <= length t)%nat -> Forall (fun q => q <> []) K ->
  aclose K t = Some (ring, K') ->
  exists B, K = B ++ K' /\ hd dp (last B t) = last t dp /\ ring <> [].
Proof.
  induction K as [| q rest IH]; intros t ring K' Ht Hne H; cbn [aclose] in H.
  - destruct (closedb t) eqn:C; [| discriminate]. inversion H; subst.
    exists []. split; [reflexivity |]. split; [apply pt_eqb_eq, C |].
    destruct t as [| a [| b t]]; cbn [length] in Ht; try lia. cbn [removelast]. discriminate.
  - destruct (closedb t) eqn:C.
    + inversion H; subst. exists []. split; [reflexivity |]. split; [apply pt_eqb_eq, C |].
      destruct t as [| a [| b t]]; cbn [length] in Ht; try lia. cbn [removelast]. discriminate.
    + inversion Hne as [| ? ? Hq Hrest]; subst.
      destruct (IH _ _ _ (join_len q t Hq Ht) Hrest H) as [B [E [Hh Hr]]].
      exists (q :: B). split; [cbn [app]; congruence |]. split; [| exact Hr].
      rewrite last_app_ne in Hh by (apply tl_ne, Ht). rewrite last_tl in Hh by exact Ht.
      destruct B as [| b B]; [cbn [last] in *; rewrite hd_app in Hh by exact Hq; exact Hh |].
      rewrite last_cons_ne by discriminate.
      rewrite (last_nonempty_default (b :: B) t (q ++ tl t)) by discriminate. exact Hh.
Qed.

Lemma aclose_none K : forall t, Forall (fun q => q <> []) K -> aclose K t = None ->
  hd dp t <> last t dp /\ ((2 <= length t)%nat -> Forall (fun q => hd dp q <> last t dp) K).
Proof.
  induction K as [| q rest IH]; intros t Hne H; cbn [aclose] in H.
  - destruct (closedb t) eqn:C; [discriminate |]. split; [| constructor].
    intro E. apply pt_eqb_eq in E. unfold closedb in C. congruence.
  - destruct (closedb t) eqn:C; [discriminate |].
    inversion Hne as [| ? ? Hq Hrest]; subst. split.
    + intro E. apply pt_eqb_eq in E. unfold closedb in C. congruence.
    + intro Ht. destruct (IH _ Hrest H) as [H1 H2].
      rewrite last_app_ne in H1, H2 by (apply tl_ne, Ht). rewrite last_tl in H1, H2 by exact Ht.
      rewrite hd_app in H1 by exact Hq. constructor; [exact H1 |].
      apply H2. apply join_len; assumption.
Qed.

(** edges are conserved by closing *)
Lemma aclose_edges K : forall t ring K', (2 <= length t)%nat -> Forall (fun q => q <> []) K ->
  chain (t :: K) -> aclose K t = Some (ring, K') ->
  Permutation (pairs t ++ concat (map pairs K)) (dedges ring ++ concat (map pairs K')).
Proof.
  induction K as [| q rest IH]; intros t ring K' Ht Hne Hc H; cbn [aclose] in H.
  - destruct (closedb t) eqn:C; [| discriminate]. inversion H; subst.
    rewrite closed_dedges by exact C. apply Permutation_refl.
  - destruct (closedb t) eqn:C.
    + inversion H; subst. rewrite closed_dedges by exact C. apply Permutation_refl.
    + inversion Hne as [| ? ? Hq Hrest]; subst.
      cbn [chain] in Hc. destruct Hc as [Hl Hc].
      assert (Hc' : chain ((q ++ tl t) :: rest)).
      { apply (chain_replace_hd _ q); [apply hd_app, Hq | exact Hc]. }
      pose proof (IH _ _ _ (join_len q t Hq Ht) Hrest Hc' H) as P.
      rewrite pairs_join in P by (try assumption; apply len2_ne, Ht).
      cbn [map concat]. rewrite <- P. rewrite !app_assoc. apply Permutation_app_tail, Permutation_app_comm.
Qed.
