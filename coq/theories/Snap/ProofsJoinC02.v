(** * C02, polygon clause, joined with the rest: the chains of Snap/ProofsNoCollapse.v are the routed-and-cleaned
      rings of Snap/ProofsJoinC18.v; they ARE the concatenation of the routed edges (joints written once); the result
      of a non-collapsing polygon is given by an explicit formula, per level and for snapPolygon. *)
From Coq Require Import ZArith List Bool Lia Permutation.
From Texel Require Import Prelude.Base Index.Model Index.ProofsInsert Index.ProofsGrid Index.ProofsRouting
  Snap.Model Snap.ProofsBasics Snap.ProofsSplit Snap.ProofsLevelRoute Snap.ProofsLevel Snap.ProofsLevelThms
  Snap.ProofsLevelC07 Snap.ProofsLevelJoin Snap.ProofsNoCollapse Snap.ProofsJoinC05 Snap.ProofsJoinC18.
Import ListNotations.
Open Scope Z_scope.

(** ** one vocabulary *)
Lemma chainOf_routedClean g hots L idx r : chainOf g hots L idx r = routedClean g hots L idx r.
Proof. reflexivity. Qed.

Lemma chainsFrom_indexed g hots L : forall P k,
  chainsFrom g hots L k P = mapM (fun ir => routedClean g hots L (fst ir) (snd ir)) (indexed k P).
Proof.
  induction P as [| r P IH]; intro k; [reflexivity |]. cbn [chainsFrom indexed mapM fst snd].
  rewrite chainOf_routedClean, IH. reflexivity.
Qed.

Lemma chains_routedRings g hots L P : chains g hots L P = routedRings g hots L P.
Proof. apply chainsFrom_indexed. Qed.

(** ** a routed-and-cleaned ring IS the concatenation of the routed edges of its ring: with exact routing (C02)
       consecutive lists share their joint, the first centre of every list but the first is dropped, and the closing
       vertex is dropped: [c ++ [first of c] = first of c :: concatenation of the tails of the lists] *)
Theorem chain_is_concatenation g hots L idx r c :
  routing_ok g hots L (ensureCorrectWindingOrder r (negb (Nat.eqb idx 0))) ->
  routedClean g hots L idx r = Ok c -> (2 <= length c)%nat ->
  c ++ [hd dp c] =
    hd dp c :: concat (map (@tl pt) (map (fun e => snapClosestPoints g hots (fst e) (snd e) L)
                                         (dedges (ensureCorrectWindingOrder r (negb (Nat.eqb idx 0)))))).
Proof.
  set (r' := ensureCorrectWindingOrder r (negb (Nat.eqb idx 0))). intros [[cf Hc] Hadj] H Hlen.
  unfold routedClean in H. fold r' in H. bind_inv H x Hx. destruct x as [nr st']. cbn [fst] in H.
  inversion H; subst c. clear H. unfold routeOf in Hx. destruct r' as [| f0 t] eqn:Er.
  - inversion Hx; subst. cbn in Hlen. lia.
  - rewrite routeRing_eq in Hx. bind_inv Hx nr' Ha. inversion Hx; subst nr' st'. clear Hx.
    rewrite edgesFrom_dedges in *. set (es := dedges (f0 :: t)) in *.
    assert (Hseg : Forall no_adj_lin (segsOf g hots L es)).
    { rewrite Forall_forall. intros s Hs. unfold segsOf in Hs. apply in_map_iff in Hs.
      destruct Hs as [[a b] [<- Hab]]. apply Hadj, Hab. }
    pose proof (assemble_nonempty _ _ _ Ha) as Hne.
    assert (Ees : es = pairs (f0 :: (t ++ [f0]))) by reflexivity.
    destruct (endpoints_chain cf (fun a b => snapClosestPoints g hots a b L) (t ++ [f0]) f0) as [C1 C2].
    { intros a b Hin. apply Hc. rewrite <- Ees in Hin. exact Hin. }
    { rewrite <- Ees. exact Hne. }
    rewrite <- Ees in C1, C2. fold (segsOf g hots L es) in C1, C2.
    assert (El : last (f0 :: t ++ [f0]) dp = f0) by (rewrite app_comm_cons, last_last; reflexivity).
    rewrite El in C2. fold (segsOf g hots L es). fold (recorded (segsOf g hots L es)).
    destruct (segsOf g hots L es) as [| s0 rest] eqn:Es.
    { exfalso. unfold segsOf, es in Es. destruct t; discriminate. }
    cbn [seg_chain endOf] in C1, C2. destruct C1 as [Eh C1].
    destruct (route_dropClosing s0 rest nr Hseg C1 ltac:(congruence) Ha) as [[R' [ER Ed]] | Hl]; [| lia].
    rewrite Ed. cbn [hd]. rewrite ER. reflexivity.
Qed.

(** the routing premise discharged from C02 *)
Corollary chain_is_concatenation_closed g P hs L idx r c : 0 < gres g -> RootCovers g ->
  insertPolygon g P = Ok hs -> (L <= gdeep g)%nat -> nth_error P idx = Some r ->
  routedClean g (hotLevels g hs) L idx r = Ok c -> (2 <= length c)%nat ->
  c ++ [hd dp c] =
    hd dp c :: concat (map (@tl pt) (map (fun e => snapClosestPoints g (hotLevels g hs) (fst e) (snd e) L)
                                         (dedges (ensureCorrectWindingOrder r (negb (Nat.eqb idx 0)))))).
Proof.
  intros Hr C Hi HL Hn. apply chain_is_concatenation.
  apply (routing_ok_from_C02 g P hs L r); try assumption; [exact (nth_error_In _ _ Hn) |].
  unfold ensureCorrectWindingOrder. destruct (windingOrderIsCorrect r _); auto.
Qed.

(** ** the result of a non-collapsing polygon, explicitly.  [ccw c]: c written counter-clockwise; [cw c]: clockwise *)
Definition ccw (c : ring) : ring := if 0 <? xprod c then c else rev c.
Definition cw (c : ring) : ring := if xprod c <? 0 then c else rev c.

Lemma shell_is_ccw c x : xprod c <> 0 -> ring_like c x -> 0 <= xprod x -> (0 < xprod c -> x = c) -> x = ccw c.
Proof.
  intros Hz Hl Hx He. unfold ccw. destruct (Z.ltb_spec 0 (xprod c)) as [Hp | Hn]; [auto |].
  destruct Hl as [-> | ->]; [lia | reflexivity].
Qed.

Lemma hole_is_cw c x : xprod c <> 0 -> inner_of c x -> x = cw c.
Proof.
  intros Hz [Hl [Hx He]]. unfold cw. destruct (Z.ltb_spec (xprod c) 0) as [Hp | Hn]; [auto |].
  destruct Hl as [-> | ->]; [lia | reflexivity].
Qed.

Lemma holes_are_cw cr xs : Forall (fun c => xprod c <> 0) cr -> Forall2 inner_of cr xs -> xs = map cw cr.
Proof.
  intros Hz F. induction F as [| c x cr xs Hx F IH]; [reflexivity |]. inversion Hz; subst. cbn [map].
  f_equal; [apply hole_is_cw; assumption | apply IH; assumption].
Qed.

(** one level: the shell is the first chain written counter-clockwise, the holes the other chains written clockwise;
    a hole is attached to the shell iff the model's ringContains finds one of its vertices in or on the shell
    ([attached], in order), the others become shells of their own (reversed); all reversed under the flag *)
Theorem noncollapsing_level g hots P cfg L c0 cr :
  routedRings g hots L P = Ok (c0 :: cr) -> Forall (fun c : ring => (3 <= length c)%nat /\ xprod c <> 0) (c0 :: cr) ->
  NoDup (concat (c0 :: cr)) ->
  snapLevel g hots P cfg L = Ok (Some (flipb (reverseWindingOrder cfg) (polysOf (ccw c0) (map cw cr)))).
Proof.
  intros Hc Hf ND. rewrite <- chains_routedRings in Hc.
  assert (Hl : Forall (fun c : ring => (3 <= length c)%nat) (c0 :: cr)) by (eapply Forall_impl; [| exact Hf]; cbn beta; tauto).
  assert (Hz : Forall (fun c : ring => xprod c <> 0) (c0 :: cr)) by (eapply Forall_impl; [| exact Hf]; cbn beta; tauto).
  destruct (no_collapse g hots P cfg L c0 cr Hc Hl ND) as [x0 [xs [Hx0 [Ho [Hex [F E]]]]]].
  inversion Hz as [| ? ? Hz0 Hzr]; subst.
  rewrite (shell_is_ccw c0 x0 Hz0 Hx0 Ho Hex), (holes_are_cw cr xs Hzr F) in E. exact E.
Qed.

(** a polygon without holes: exactly one polygon with exactly one ring, the routed-and-cleaned shell *)
Corollary noncollapsing_level_single g hots P cfg L c0 :
  routedRings g hots L P = Ok [c0] -> NoDup c0 -> (3 <= length c0)%nat -> xprod c0 <> 0 ->
  snapLevel g hots P cfg L = Ok (Some [[flipr cfg (ccw c0)]]).
Proof.
  intros Hc ND Hl Hz.
  rewrite (noncollapsing_level g hots P cfg L c0 [] Hc); [| constructor; [auto | constructor] | cbn [concat]; rewrite app_nil_r; exact ND].
  unfold flipb, flipr, polysOf. cbn [map filter app]. destruct (reverseWindingOrder cfg); reflexivity.
Qed.

(** ** snapPolygon: every requested level.  [c0 L], [cr L]: the chains at level L *)
Lemma mapM_all {A B} (f : A -> res B) (h : A -> B) (l : list A) : (forall a, In a l -> f a = Ok (h a)) -> mapM f l = Ok (map h l).
Proof.
  induction l as [| a l IH]; intro H; [reflexivity |]. cbn [mapM map]. rewrite (H a (or_introl eq_refl)). cbn [bind].
  rewrite IH by (intros b Hb; apply H; right; exact Hb). reflexivity.
Qed.

Theorem noncollapsing_snapPolygon g P levels cfg hs (c0 : nat -> ring) (cr : nat -> list ring) :
  insertPolygon g P = Ok hs ->
  (forall L, In L levels ->
     routedRings g (hotLevels g hs) L P = Ok (c0 L :: cr L) /\
     Forall (fun c : ring => (3 <= length c)%nat /\ xprod c <> 0) (c0 L :: cr L) /\
     NoDup (concat (c0 L :: cr L))) ->
  snapPolygon g P levels cfg =
    Ok (map (fun L => (L, flipb (reverseWindingOrder cfg) (polysOf (ccw (c0 L)) (map cw (cr L))))) levels).
Proof.
  intros Hi H. unfold snapPolygon. rewrite Hi.
  rewrite (mapM_all _ (fun L => (L, Some (flipb (reverseWindingOrder cfg) (polysOf (ccw (c0 L)) (map cw (cr L))))))).
  - cbn [bind]. f_equal. induction levels as [| L levels IH]; [reflexivity |]. cbn [map flat_map fst snd app].
    f_equal. apply IH. intros L' HL'. apply H. right. exact HL'.
  - intros L HL. destruct (H L HL) as [Hc [Hf ND]].
    rewrite (noncollapsing_level g _ P cfg L (c0 L) (cr L) Hc Hf ND). reflexivity.
Qed.

Print Assumptions chain_is_concatenation_closed.
Print Assumptions noncollapsing_level.
Print Assumptions noncollapsing_level_single.
Print Assumptions noncollapsing_snapPolygon.

(** the rings of that result, flattened: the shell and every hole exactly once — a hole as it is (clockwise) when it
    is attached, reversed when it became a shell of its own; nothing lost, nothing added, nothing split *)
Lemma polysOf_rings x0 xs :
  Permutation (concat (polysOf x0 xs)) (x0 :: map (fun h => if attached x0 h then h else rev h) xs).
Proof.
  unfold polysOf. rewrite concat_app, concat_singleton_rev. cbn [concat app]. rewrite app_nil_r.
  apply perm_skip. apply filter_split_perm.
Qed.
