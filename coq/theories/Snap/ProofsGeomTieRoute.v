(** * Geometry of routed edges (C04 clause 2 for routed edges, sweep lemma on pixels).

    Ties Geom/Close.v to the pixels and routes of the index (Index/ProofsRouting.v). *)
From Coq Require Import ZArith QArith Lqa Lia List Bool.
From Texel Require Import Prelude.Base Index.Model Index.ProofsInsert Index.ProofsQ Index.ProofsLine
  Index.ProofsGrid Index.ProofsDescent Index.ProofsRouting Geom.Close.
Import ListNotations.
Open Scope Q_scope.

(** half the pixel size of level L, as a rational *)
Definition halfSpan (g : grid) (L : nat) : Q := inject_Z (quadSpan g L) * (1 # 2).

(** the centroid is the exact middle of the pixel: above the deepest level, or even resolution *)
Definition ExactMiddle (g : grid) (L : nat) : Prop := (L < gdeep g)%nat \/ Z.even (gres g) = true.

(** the point of the segment a b with parameter t, and a point between two integer points *)
Definition segPt (a b : pt) (t : Q) : Q * Q := (co (fst a) (fst b) t, co (snd a) (snd b) t).
Definition between (c1 c2 : pt) (lam : Q) : Q * Q :=
  ((1 - lam) * inject_Z (fst c1) + lam * inject_Z (fst c2), (1 - lam) * inject_Z (snd c1) + lam * inject_Z (snd c2)).

(** Chebyshev distance at most H *)
Definition ChebLe (H : Q) (p q : Q * Q) : Prop :=
  - H <= fst p - fst q /\ fst p - fst q <= H /\ - H <= snd p - snd q /\ snd p - snd q <= H.

Lemma pix_span g L q :
  (emaxx (pixExt g L q) - eminx (pixExt g L q) = quadSpan g L /\
   emaxy (pixExt g L q) - eminy (pixExt g L q) = quadSpan g L)%Z.
Proof. unfold pixExt, quadExtent. cbn [eminx emaxx eminy emaxy]. split; ring. Qed.

(** a point of the pixel is within half a pixel of the centroid (half-open), exact middle *)
Lemma pin_centre_exact g L q a b t : ExactMiddle g L -> PIn a b t (pixExt g L q) ->
  InSq (halfSpan g L) (inject_Z (fst (pixCen g L q)), inject_Z (snd (pixCen g L q))) (segPt a b t).
Proof.
  intros Ex [[X1 X2] [Y1 Y2]]. destruct (centre_is_middle g L (fst q) (snd q) Ex) as [Mx My].
  destruct (pix_span g L q) as [Sx Sy]. unfold pixExt, pixCen in *.
  set (e := quadExtent g L (fst q) (snd q)) in *. set (c := quadCentroid g L (fst q) (snd q)) in *.
  assert (Mx' : 2 * inject_Z (fst c) == inject_Z (eminx e) + inject_Z (emaxx e)).
  { change 2 with (inject_Z 2). rewrite <- inject_Z_mult, <- inject_Z_plus, Mx. reflexivity. }
  assert (My' : 2 * inject_Z (snd c) == inject_Z (eminy e) + inject_Z (emaxy e)).
  { change 2 with (inject_Z 2). rewrite <- inject_Z_mult, <- inject_Z_plus, My. reflexivity. }
  assert (Sx' : inject_Z (emaxx e) - inject_Z (eminx e) == inject_Z (quadSpan g L)) by (rewrite <- inject_Z_minus, Sx; reflexivity).
  assert (Sy' : inject_Z (emaxy e) - inject_Z (eminy e) == inject_Z (quadSpan g L)) by (rewrite <- inject_Z_minus, Sy; reflexivity).
  unfold InSq, halfSpan, segPt. cbn [fst snd]. repeat split; lra.
Qed.

(** conversely *)
Lemma centre_pin_exact g L q a b t : ExactMiddle g L ->
  InSq (halfSpan g L) (inject_Z (fst (pixCen g L q)), inject_Z (snd (pixCen g L q))) (segPt a b t) ->
  PIn a b t (pixExt g L q).
Proof.
  intros Ex [X1 [X2 [Y1 Y2]]]. destruct (centre_is_middle g L (fst q) (snd q) Ex) as [Mx My].
  destruct (pix_span g L q) as [Sx Sy]. unfold pixExt, pixCen in *.
  set (e := quadExtent g L (fst q) (snd q)) in *. set (c := quadCentroid g L (fst q) (snd q)) in *.
  assert (Mx' : 2 * inject_Z (fst c) == inject_Z (eminx e) + inject_Z (emaxx e)).
  { change 2 with (inject_Z 2). rewrite <- inject_Z_mult, <- inject_Z_plus, Mx. reflexivity. }
  assert (My' : 2 * inject_Z (snd c) == inject_Z (eminy e) + inject_Z (emaxy e)).
  { change 2 with (inject_Z 2). rewrite <- inject_Z_mult, <- inject_Z_plus, My. reflexivity. }
  assert (Sx' : inject_Z (emaxx e) - inject_Z (eminx e) == inject_Z (quadSpan g L)) by (rewrite <- inject_Z_minus, Sx; reflexivity).
  assert (Sy' : inject_Z (emaxy e) - inject_Z (eminy e) == inject_Z (quadSpan g L)) by (rewrite <- inject_Z_minus, Sy; reflexivity).
  unfold halfSpan, segPt in *. cbn [fst snd] in *. unfold PIn, AxisIn. repeat split; lra.
Qed.

(** without exactness the centroid may sit half a unit (0.5e-10) below the middle *)
Lemma pin_centre_general g L q a b t : PIn a b t (pixExt g L q) ->
  ChebLe (halfSpan g L + (1 # 2)) (inject_Z (fst (pixCen g L q)), inject_Z (snd (pixCen g L q))) (segPt a b t).
Proof.
  intros [[X1 X2] [Y1 Y2]]. destruct (centre_near_middle g L (fst q) (snd q)) as [[Mx0 Mx1] [My0 My1]].
  destruct (pix_span g L q) as [Sx Sy]. unfold pixExt, pixCen in *.
  set (e := quadExtent g L (fst q) (snd q)) in *. set (c := quadCentroid g L (fst q) (snd q)) in *.
  rewrite Zle_Qle in Mx0, Mx1, My0, My1.
  rewrite !inject_Z_minus, !inject_Z_plus, !inject_Z_mult in Mx0, Mx1, My0, My1.
  change (inject_Z 2) with 2 in *. change (inject_Z 1) with 1 in *. change (inject_Z 0) with 0 in *.
  assert (Sx' : inject_Z (emaxx e) - inject_Z (eminx e) == inject_Z (quadSpan g L)) by (rewrite <- inject_Z_minus, Sx; reflexivity).
  assert (Sy' : inject_Z (emaxy e) - inject_Z (eminy e) == inject_Z (quadSpan g L)) by (rewrite <- inject_Z_minus, Sy; reflexivity).
  unfold ChebLe, halfSpan, segPt. cbn [fst snd]. repeat split; lra.
Qed.

(** ** routed_edge_close *)
Lemma close_core (a b c1 c2 : pt) (t1 t2 lam H : Q) :
  0 <= t1 -> t1 <= 1 -> 0 <= t2 -> t2 <= 1 -> 0 <= lam -> lam <= 1 ->
  ChebLe H (inject_Z (fst c1), inject_Z (snd c1)) (segPt a b t1) ->
  ChebLe H (inject_Z (fst c2), inject_Z (snd c2)) (segPt a b t2) ->
  exists t, 0 <= t /\ t <= 1 /\ ChebLe H (between c1 c2 lam) (segPt a b t).
Proof.
  intros A0 A1 B0 B1 L0 L1 [X1 [X2 [Y1 Y2]]] [U1 [U2 [V1 V2]]].
  exists ((1 - lam) * t1 + lam * t2).
  destruct (convex_param t1 t2 lam A0 A1 B0 B1 L0 L1) as [T0 T1]. split; [exact T0 |]. split; [exact T1 |].
  unfold ChebLe, between, segPt, co in *. cbn [fst snd] in *.
  destruct (close_axis _ _ t1 t2 _ _ H lam L0 L1 X1 X2 U1 U2) as [Cx1 Cx2].
  destruct (close_axis _ _ t1 t2 _ _ H lam L0 L1 Y1 Y2 V1 V2) as [Cy1 Cy2].
  repeat split; assumption.
Qed.

Lemma insq_cheb h c p : InSq h c p -> ChebLe h c p.
Proof. unfold InSq, ChebLe. intros [A [B [C D]]]. repeat split; lra. Qed.

(** every point of the segment between the centroids of two pixels met by the closed segment a b is within
    half a pixel (Chebyshev) of some point of a b *)
Theorem routed_edge_close g L a b q1 q2 lam : ExactMiddle g L ->
  Meets a b (pixExt g L q1) -> Meets a b (pixExt g L q2) -> 0 <= lam -> lam <= 1 ->
  exists t, 0 <= t /\ t <= 1 /\
    ChebLe (halfSpan g L) (between (pixCen g L q1) (pixCen g L q2) lam) (segPt a b t).
Proof.
  intros Ex [t1 [A0 [A1 P1]]] [t2 [B0 [B1 P2]]] L0 L1.
  apply (close_core a b _ _ t1 t2 lam _ A0 A1 B0 B1 L0 L1).
  - apply insq_cheb. apply pin_centre_exact; assumption.
  - apply insq_cheb. apply pin_centre_exact; assumption.
Qed.

(** the same without the exactness hypothesis, with the extra half unit *)
Theorem routed_edge_close_general g L a b q1 q2 lam :
  Meets a b (pixExt g L q1) -> Meets a b (pixExt g L q2) -> 0 <= lam -> lam <= 1 ->
  exists t, 0 <= t /\ t <= 1 /\
    ChebLe (halfSpan g L + (1 # 2)) (between (pixCen g L q1) (pixCen g L q2) lam) (segPt a b t).
Proof.
  intros [t1 [A0 [A1 P1]]] [t2 [B0 [B1 P2]]] L0 L1.
  apply (close_core a b _ _ t1 t2 lam _ A0 A1 B0 B1 L0 L1); apply pin_centre_general; assumption.
Qed.

(** ** for the chain of centres a polygon edge is replaced by *)
Theorem routed_chain_close g P hs a b L c1 c2 lam :
  (0 < gres g)%Z -> RootCovers g -> insertPolygon g P = Ok hs -> In a (concat P) -> In b (concat P) ->
  (L <= gdeep g)%nat -> ExactMiddle g L ->
  In c1 (snapClosestPoints g (hotLevels g hs) a b L) -> In c2 (snapClosestPoints g (hotLevels g hs) a b L) ->
  0 <= lam -> lam <= 1 ->
  exists t, 0 <= t /\ t <= 1 /\ ChebLe (halfSpan g L) (between c1 c2 lam) (segPt a b t).
Proof.
  intros Hr C Hi Ha Hb HL Ex H1 H2 L0 L1.
  destruct (C02_routing_vertices g P hs a b L Hr C Hi Ha Hb HL) as [[Ep [_ [M _]]] _].
  rewrite Ep in H1, H2. apply in_map_iff in H1 as [q1 [<- Q1]]. apply in_map_iff in H2 as [q2 [<- Q2]].
  apply M in Q1 as [_ M1]. apply M in Q2 as [_ M2].
  apply routed_edge_close; assumption.
Qed.

(** in particular for two consecutive centres of the chain: every edge of the routed chain of a polygon
    edge is within half a pixel of that polygon edge *)
Corollary routed_chain_edge_close g P hs a b L l1 c1 c2 l2 lam :
  (0 < gres g)%Z -> RootCovers g -> insertPolygon g P = Ok hs -> In a (concat P) -> In b (concat P) ->
  (L <= gdeep g)%nat -> ExactMiddle g L ->
  snapClosestPoints g (hotLevels g hs) a b L = l1 ++ c1 :: c2 :: l2 ->
  0 <= lam -> lam <= 1 ->
  exists t, 0 <= t /\ t <= 1 /\ ChebLe (halfSpan g L) (between c1 c2 lam) (segPt a b t).
Proof.
  intros Hr C Hi Ha Hb HL Ex E L0 L1.
  apply (routed_chain_close g P hs a b L c1 c2 lam Hr C Hi Ha Hb HL Ex); try assumption; rewrite E;
    apply in_or_app; right; cbn; auto.
Qed.

(** ** the sweep lemma on pixels.

    q1, q2, qd pixels of level L with exact centroids; the source segment a b is in q1 at parameter ta and in
    q2 at parameter tb; v is a (rational) point of qd.  If, moving every point the fraction lam of the way
    to the centre of its pixel, v lands on the moved edge at parameter mu, then the source segment is in qd at
    the parameter mu of the way from ta to tb. *)
Theorem sweep_pixels g L a b q1 q2 qd (ta tb lam mu : Q) (v : Q * Q) : ExactMiddle g L ->
  0 <= lam -> lam <= 1 -> 0 <= mu -> mu <= 1 ->
  PIn a b ta (pixExt g L q1) -> PIn a b tb (pixExt g L q2) ->
  let cen q := (inject_Z (fst (pixCen g L q)), inject_Z (snd (pixCen g L q))) in
  InSq (halfSpan g L) (cen qd) v ->
  peq (mix lam v (cen qd)) (mix mu (mix lam (segPt a b ta) (cen q1)) (mix lam (segPt a b tb) (cen q2))) ->
  PIn a b ((1 - mu) * ta + mu * tb) (pixExt g L qd).
Proof.
  intros Ex L0 L1 M0 M1 Pa Pb cen Hv E.
  apply (centre_pin_exact g L qd a b _ Ex).
  pose proof (sweep_lemma (halfSpan g L) lam mu (segPt a b ta) (segPt a b tb) (cen q1) (cen q2) v (cen qd)
                L0 L1 M0 M1 (pin_centre_exact g L q1 a b ta Ex Pa) (pin_centre_exact g L q2 a b tb Ex Pb) Hv E) as S.
  unfold InSq, mix, segPt, cen in *. cbn [fst snd] in *. destruct S as [S1 [S2 [S3 S4]]].
  assert (Ex' : forall from to, co from to ((1 - mu) * ta + mu * tb) == (1 - mu) * co from to ta + mu * co from to tb)
    by (intros; unfold co; ring).
  rewrite !Ex'. repeat split; assumption.
Qed.
