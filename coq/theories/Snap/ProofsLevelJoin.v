(** * Joining with the kmp prover's interface lemma [kmp_subseq] (ProofsKmpSubseq.v): the theorems of
      ProofsLevelThms / ProofsLevelC07 with that premise discharged.  The two [subseq] inductives have the
      same shape; they are related by a trivial induction. *)
From Coq Require Import ZArith List Bool Lia Permutation.
From Texel Require Import Prelude.Base Index.Model Snap.Model.
From Texel Require Snap.ProofsKmpSubseq.
From Texel Require Import Snap.ProofsBasics Snap.ProofsSplit Snap.ProofsLevelRoute Snap.ProofsLevel
  Snap.ProofsLevelThms Snap.ProofsLevelC07.
Import ListNotations.
Open Scope Z_scope.

Lemma subseq_of_kmp {A} (l l' : list A) : ProofsKmpSubseq.subseq l l' -> ProofsBasics.subseq l l'.
Proof. induction 1; constructor; assumption. Qed.

Theorem kmp_subseq_joined : forall r r', kmpDeduplicate r = Ok r' -> ProofsBasics.subseq r' r.
Proof. intros r r' H. apply subseq_of_kmp, ProofsKmpSubseq.kmp_subseq, H. Qed.

(** C04 clause 1 / C03, closed *)
Theorem snap_provenance_closed g P levels cfg r L ps p :
  snapPolygon g P levels cfg = Ok r -> In (L, ps) r -> In p (concat (concat ps)) ->
  exists hs r0 r' a b, insertPolygon g P = Ok hs /\ In r0 P /\ (r' = r0 \/ r' = rev r0) /\
    In (a, b) (dedges r') /\ In p (snapClosestPoints g (hotLevels g hs) a b L).
Proof. exact (snap_provenance kmp_subseq_joined g P levels cfg r L ps p). Qed.

(** C05 "visits no vertex twice", with only the routing premises and the short-output kmp fact left *)
Theorem level_repeat_free_closed g hots P cfg L ps :
  (forall r r', no_adj_dup r -> kmpDeduplicate r = Ok r' -> (length r' < 3)%nat -> NoDup r') ->
  (forall idx r, nth_error P idx = Some r ->
                 routing_ok g hots L (ensureCorrectWindingOrder r (negb (Nat.eqb idx 0)))) ->
  snapLevel g hots P cfg L = Ok (Some ps) -> Forall (Forall (@NoDup pt)) ps.
Proof. intros Hk. exact (level_repeat_free kmp_subseq_joined Hk g hots P cfg L ps). Qed.
