(** * Joining with the kmp prover's interface lemma [kmp_subseq] (ProofsKmpSubseq.v): the theorems of
      ProofsLevelThms / ProofsLevelC07 with that premise discharged.  The two [subseq] inductives have the
      same shape; they are related by a trivial induction. *)
From Coq Require Import ZArith List Bool Lia Permutation.
From Texel Require Import Prelude.Base Index.Model Snap.Model.
From Texel Require Snap.ProofsKmpSubseq.
From Texel Require Import Snap.ProofsBasics Snap.ProofsSplit Snap.ProofsLevelRoute Snap.ProofsLevel
  Snap.ProofsLevelThms Snap.ProofsLevelC07.
Import ListNotations.
Open Scope Z_scope.

Lemma subseq_of_kmp {A} (l l' : list A) : ProofsKmpSubseq.subseq l l' -> ProofsBasics.subseq l l'.
Proof. induction 1; constructor; assumption. Qed.

Theorem kmp_subseq_joined : forall r r', kmpDeduplicate r = Ok r' -> ProofsBasics.subseq r' r.
Proof. intros r r' H. apply subseq_of_kmp, ProofsKmpSubseq.kmp_subseq, H. Qed.

(** C04 clause 1 / C03, closed *)
Theorem snap_provenance_closed g P levels cfg r L ps p :
  snapPolygon g P levels cfg = Ok r -> In (L, ps) r -> In p (concat (concat ps)) ->
  exists hs r0 r' a b, insertPolygon g P = Ok hs /\ In r0 P /\ (r' = r0 \/ r' = rev r0) /\
    In (a, b) (dedges r') /\ In p (snapClosestPoints g (hotLevels g hs) a b L).
Proof. exact (snap_provenance kmp_subseq_joined g P levels cfg r L ps p). Qed.

(** C05 "visits no vertex twice", with only the routing premises left *)
Theorem level_repeat_free_closed g hots P cfg L ps :
  (forall idx r, nth_error P idx = Some r ->
                 routing_ok g hots L (ensureCorrectWindingOrder r (negb (Nat.eqb idx 0)))) ->
  snapLevel g hots P cfg L = Ok (Some ps) -> Forall (Forall (@NoDup pt)) ps.
Proof. exact (level_repeat_free kmp_subseq_joined g hots P cfg L ps). Qed.

(** ** C05 at the level of snapPolygon *)
Definition ring_well_formed (x : ring) : Prop :=
  NoDup x /\ ((2 <= length x)%nat -> hd dp x <> last x dp /\ no_adj_dup x).

Lemma NoDup_well_formed (x : ring) : NoDup x -> ring_well_formed x.
Proof.
  intro ND. split; [exact ND |]. intro Hl. pose proof (NoDup_no_adj_dup x ND Hl) as Hn. split; [| exact Hn].
  apply ProofsSplitThms.no_adj_dup_first_last; [exact Hn |]. destruct x; [cbn in Hl; lia | discriminate].
Qed.

Theorem snap_rings_well_formed g P levels cfg r hs :
  insertPolygon g P = Ok hs ->
  (forall L idx r0, In L levels -> nth_error P idx = Some r0 ->
     routing_ok g (hotLevels g hs) L (ensureCorrectWindingOrder r0 (negb (Nat.eqb idx 0)))) ->
  snapPolygon g P levels cfg = Ok r ->
  forall L ps poly x, In (L, ps) r -> In poly ps -> In x poly -> ring_well_formed x.
Proof.
  intros Hi Hrt H L ps poly x Hin Hpoly Hx.
  destruct (level_value _ _ _ _ _ _ _ H Hin) as [hs' [Hi' [HL Hl]]]. rewrite Hi in Hi'. inversion Hi'; subst hs'.
  pose proof (level_repeat_free_closed g (hotLevels g hs) P cfg L ps (fun idx r0 => Hrt L idx r0 HL) Hl) as F.
  rewrite Forall_forall in F. specialize (F poly Hpoly). rewrite Forall_forall in F. apply NoDup_well_formed, F, Hx.
Qed.

Theorem snap_orientation g P levels cfg r L ps : snapPolygon g P levels cfg = Ok r -> In (L, ps) r ->
  ps <> [] /\
  exists big small, ps = big ++ small /\
    Forall (poly_ok (if reverseWindingOrder cfg then -1 else 1)) big /\
    Forall plpoly_ok small /\ (keepPointsAndLines cfg = false -> small = []).
Proof.
  intros H Hin. destruct (level_value _ _ _ _ _ _ _ H Hin) as [hs [Hi [HL Hl]]]. split.
  - intro E. subst ps. apply (level_never_empty _ _ _ _ _ Hl).
  - apply (level_orientation _ _ _ _ _ _ Hl).
Qed.

Theorem snap_keep_policy g P levels cfg rF rT :
  snapPolygon g P levels (setKeep cfg false) = Ok rF -> snapPolygon g P levels (setKeep cfg true) = Ok rT ->
  forall L ps, In (L, ps) rF ->
    Forall (Forall (fun x : ring => (3 <= length x)%nat)) ps /\
    exists extra, In (L, ps ++ extra) rT /\ Forall plpoly_ok extra.
Proof.
  intros HF HT L ps Hin. destruct (level_value _ _ _ _ _ _ _ HF Hin) as [hs [Hi [HL Hl]]].
  destruct (keep_policy _ _ _ _ _ _ Hl) as [extra [E [Fe F3]]]. split; [exact F3 |].
  exists extra. split; [| exact Fe]. apply (level_present g P levels (setKeep cfg true) rT hs L _ HT Hi HL E).
Qed.

(** ** a boolean check of the routing premises, for concrete polygons (non-vacuity examples) *)
Definition pixelCentre (g : grid) (L : nat) (p : pt) : pt :=
  let d := deepestCoord g p in
  let k := pow2 (gdeep g - L) in
  quadCentroid g L (fst d / k) (snd d / k).

Definition adjdupb (l : list pt) : bool := existsb (fun e => pt_eqb (fst e) (snd e)) (pairs l).

Lemma adjdupb_sound l : adjdupb l = false -> no_adj_lin l.
Proof.
  intros H a b Hin Eab. subst b. unfold adjdupb in H.
  assert (T : existsb (fun e : pt * pt => pt_eqb (fst e) (snd e)) (pairs l) = true); [| congruence].
  apply existsb_exists. exists (a, a). split; [exact Hin | apply pt_eqb_refl].
Qed.

Definition routing_okb (g : grid) (hots : list (list (Z * Z))) (L : nat) (r' : ring) : bool :=
  forallb (fun e => let s := snapClosestPoints g hots (fst e) (snd e) L in
                    (isnil s || (pt_eqb (hd dp s) (pixelCentre g L (fst e)) && pt_eqb (last s dp) (pixelCentre g L (snd e))))
                    && negb (adjdupb s)) (dedges r').

Lemma routing_okb_sound g hots L r' : routing_okb g hots L r' = true -> routing_ok g hots L r'.
Proof.
  intro H. unfold routing_okb in H. rewrite forallb_forall in H. split.
  - exists (pixelCentre g L). intros a b Hin Hne. specialize (H (a, b) Hin). cbn [fst snd] in H. cbn zeta in H.
    apply andb_prop in H. destruct H as [H _]. apply orb_prop in H. destruct H as [H | H].
    + destruct (snapClosestPoints g hots a b L); [congruence | discriminate].
    + apply andb_prop in H. destruct H as [H1 H2]. apply pt_eqb_eq in H1, H2. auto.
  - intros a b Hin. specialize (H (a, b) Hin). cbn [fst snd] in H. cbn zeta in H.
    apply andb_prop in H. destruct H as [_ H]. apply negb_true_iff in H. apply adjdupb_sound, H.
Qed.

Fixpoint indexed {A} (k : nat) (l : list A) : list (nat * A) :=
  match l with [] => [] | a :: r => (k, a) :: indexed (S k) r end.

Lemma indexed_nth {A} (l : list A) : forall k idx a, nth_error l idx = Some a -> In ((k + idx)%nat, a) (indexed k l).
Proof.
  induction l as [| x l IH]; intros k [| idx] a H; cbn [nth_error] in H; try discriminate.
  - inversion H; subst. rewrite Nat.add_0_r. left. reflexivity.
  - right. rewrite <- Nat.add_succ_comm. apply IH, H.
Qed.

Definition all_routing_okb (g : grid) (hots : list (list (Z * Z))) (levels : list nat) (P : list ring) : bool :=
  forallb (fun L => forallb (fun ir => routing_okb g hots L (ensureCorrectWindingOrder (snd ir) (negb (Nat.eqb (fst ir) 0))))
                            (indexed 0 P)) levels.

Lemma all_routing_okb_sound g hots levels P : all_routing_okb g hots levels P = true ->
  forall L idx r0, In L levels -> nth_error P idx = Some r0 ->
    routing_ok g hots L (ensureCorrectWindingOrder r0 (negb (Nat.eqb idx 0))).
Proof.
  intros H L idx r0 HL Hn. unfold all_routing_okb in H. rewrite forallb_forall in H. specialize (H L HL).
  rewrite forallb_forall in H. specialize (H (idx, r0) (indexed_nth P 0 idx r0 Hn)). cbn [fst snd] in H.
  apply routing_okb_sound, H.
Qed.
