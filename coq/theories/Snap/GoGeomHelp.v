(** * The Go constructs of the float predicates of geomhelp/geomhelp.go and snap.windingOrderIsCorrect, as Gallina —
      the vocabulary of the REGENERATED file gen/GeomHelpGen.v (translator/geomhelp.go).  Definitions only.

    This is the reading under which the generated definitions are a translation of the Go source (trusted base of
    the source ties C05_source_tie_shoelace / _ray_intersect / _winding_order_is_correct):

    - [float64] is an EXACT rational [Q] (the vocabulary of Tms/GoAddr.v): [+ - *] are the field operations,
      [<] is [Qltb], [<=] is [Qle_bool], [==] is [Qeq_bool] ([>] and [>=] with the operands exchanged); a floating
      point evaluation differs from this reading by rounding: that envelope (dyadic grids exact, real grids held by
      the run-time correspondence, DESIGN 4.2) is NOT part of the theorems about the generated functions;
    - [x / y] on float64 is [fdiv x y]: Go does not panic on a zero divisor, it produces +-Inf or NaN (and every
      comparison with NaN is false); such a value has no rational reading, so a zero divisor is the explicit outcome
      [Err DivZero] ("the exact reading ends here") and NOT Coq's [x / 0 = 0].  The tie theorems show that
      [gen_RayIntersect] never produces it on lattice points.  [x / c] for a non-zero literal [c] is the plain
      field division;
    - [math.Nextafter(x, math.Inf(1))] is [go_nextafter_up eps x = x + eps] for a parameter [eps : Q] of the generated
      function: the next float64 above [x] is SOME number above [x]; which one (one unit in the last place of x)
      is not part of the reading — the theorems say for which [eps] the result is the model's;
    - [math.Abs] is [Qabs];
    - [[2]float64] is a pair [qpt] (an ARRAY: assignment and parameter passing copy it), [p[0]] / [p[1]] = [fst] /
      [snd], [p[0] = v] = [set0 p v]; [[][2]float64] is a list, [len] = [zlen], [s[i]] = [idx s i] of Prelude/Base.v
      ([Err IndexOutOfRange] = the run-time panic);
    - every generated function returns [res T] (Prelude/Base.v). *)
From Coq Require Import ZArith QArith Qabs List Bool.
From Texel Require Import Prelude.Base Tms.Json.
Import ListNotations.
Open Scope Z_scope.

(** [[2]float64] under the exact reading *)
Definition qpt : Type := (Q * Q)%type.

(** the image of a lattice point of the model under the exact reading.  The model's ordinates are INTEGERS counting
    units of 1 / D of the coordinate unit (intgeom: D = 10^10); the number the Go code computes with is o / D.
    [injPd D] is that image, [injP] the case D = 1 (the ordinates themselves; [injP p] and [injPd 1 p] are
    convertible).  The predicates are invariant under the scale; the theorems say how D enters the nudge. *)
Definition injPd (D : positive) (p : pt) : qpt := (fst p # D, snd p # D).
Definition injP (p : pt) : qpt := (inject_Z (fst p), inject_Z (snd p)).

(** [x / y] on float64 *)
Definition fdiv (x y : Q) : res Q := if Qeq_bool y 0 then Err DivZero else Ok (x / y)%Q.

(** [p[0] = v], [p[1] = v] on a [2]float64 *)
Definition set0 (p : qpt) (v : Q) : qpt := (v, snd p).
Definition set1 (p : qpt) (v : Q) : qpt := (fst p, v).

(** [math.Nextafter(x, math.Inf(1))] *)
Definition go_nextafter_up (eps x : Q) : Q := (x + eps)%Q.

(** ** when the nudge of RayIntersect is small enough (a HYPOTHESIS of the tie theorem, not a Go construct)
    [nudge_ok D eps p s e]: the nudge [eps] (in coordinate units; the lattice points are o / D) is small enough for the
    segment s-e and the point p.  It only says something when p is nudged and the slope comparison can be reached,
    i.e. when p lies on the vertical through the left end s' of the segment (s', e' = s, e ordered by x) and the
    segment is not vertical:
    - the nudged point does not jump over the right end:  eps <= e'.x - s'.x;
    - and, unless p is at the height of s', the nudge moves the point by less across the segment than the point is
      away from it:  eps * |e'.y - s'.y| < |p.y - s'.y| * (e'.x - s'.x)   (all differences in coordinate units). *)
Definition nudge_ok (D : positive) (eps : Q) (p s e : pt) : Prop :=
  let s' := if fst e <? fst s then e else s in
  let e' := if fst e <? fst s then s else e in
  fst p = fst s' -> fst s' < fst e' ->
    (eps <= (fst e' - fst s') # D)%Q /\
    (snd p <> snd s' ->
       (eps * (Z.abs (snd e' - snd s') # D) < (Z.abs (snd p - snd s') * (fst e' - fst s')) # (D * D))%Q).

(** ** TRUSTED micro-model of the go-spatial library call [winding.Order{}.OfPoints(ring...)]
    (github.com/go-spatial/geom/winding, not translated): with the zero [Order] (y axis up) the library returns
    Colinear for fewer than three points and otherwise the SIGN of the cross-product sum
    sum_i (x_{i-1} * y_i - x_i * y_{i-1}) over the closed ring (it first subtracts the first point from every point,
    which does not change the exact sum): negative = Clockwise (-1), zero = Colinear (0), positive =
    CounterClockwise (1); [IsClockwise] / [IsCounterClockwise] / [IsColinear] compare with these constants. *)
Inductive winding := Clockwise | Colinear | CounterClockwise.

Fixpoint qxprod_from (prev : qpt) (l : list qpt) : Q :=
  match l with
  | [] => 0%Q
  | p :: r => (fst prev * snd p - fst p * snd prev + qxprod_from p r)%Q
  end.

Definition qxprod (r : list qpt) : Q :=
  match last_opt r with None => 0%Q | Some l => qxprod_from l r end.

Definition winding_OfPoints (r : list qpt) : winding :=
  if (length r <? 3)%nat then Colinear
  else match (qxprod r ?= 0)%Q with Lt => Clockwise | Eq => Colinear | Gt => CounterClockwise end.

Definition winding_IsClockwise (w : winding) : bool := match w with Clockwise => true | _ => false end.
Definition winding_IsCounterClockwise (w : winding) : bool := match w with CounterClockwise => true | _ => false end.
Definition winding_IsColinear (w : winding) : bool := match w with Colinear => true | _ => false end.
