(** * Tie G2: matchInnersToPolygons (snap.go) REGENERATED from source on every run (gen/MatchGen.v) is the
      model's [matchInnersToPolygons] (Snap/Model.v), for ALL inputs and all outcomes ([Err] included).

    The translation (translator/match.go) derives every statement from the AST: the labelled loop over the
    inner rings, the nested loops over a ring's vertices and over the polygon indices, [continue matchInners]
    out of the vertex loop, the lazily computed [polyISortedByOuterAreaDesc] (a nil-checked [[]int] is an
    [option (list Z)]), the in-place [polygons[k] = append(polygons[k], innerRing)] ([idx] + [setidx]: an index
    out of range is [Err IndexOutOfRange] in the generated code; the model's [append_inner] would silently do
    nothing there -- the proof shows that the index is always in range, so the two never differ) and the final
    loop appending the inners turned outers.

    Kept as calls of the MODEL's function (trusted), after the translator checked the AST for the exact callee,
    import path and declared signature:
    - [ringContains] = [Snap.Model.ringContains] (float predicate), [sortPolyIdxsByOuterAreaDesc] =
      [Snap.Model.sortPolyIdxsByOuterAreaDesc] (go-sortedmap + float Shoelace; its result is nil exactly when it
      is empty: [nilable_of_keys]);
    - [mapslicehelp.FindLastKeyWithMaxValue] = [maxWinners] (key and number of winners; the maximum itself must be
      discarded), [mapslicehelp.LastMatch] = [lastMatch], [mapslicehelp.OrderedMapKeys] = [map fst],
      [mapslicehelp.ReverseClone] = [rev];
    - github.com/wk8/go-ordered-map/v2: [orderedmap.New[int, uint](orderedmap.WithCapacity[int, uint](n))] = [[]],
      [m.Set(k, v)] = [om_set m k v], [m.Value(k)] = [om_get m k], [m.Len()] = [om_len m] (Snap/MatchSupport.v);
      here it is PROVED that [Set(k, Value(k)+1)] is the model's [om_incr];
    - [for i := range s] = [range_loop] over [go_indices s]; [for i, x := range s] = [range_loop] over [go_enum s];
      [log.Printf] = nothing; [int]/[uint] = exact [Z]; slices are values (no sharing of backing arrays);
    - (repair of F16) [ringsAreEqual] = [Snap.Model.ringsAreEqual] (signature checked; tied to the source on its own in
      Snap/ProofsGenRingHelpers.v); the Go [map[int]int] [cancelledBy] = [imap] of Snap/MatchSupport.v
      ([make(map[int]int, n)] = [[]], [m[k] = v] = [im_set], [v, ok := m[k]] = [im_get] / [im_has]); here it is PROVED
      that the two nested loops with [break] that fill the map compute the model's [cancelledBy] and that the
      comma-ok test is the model's [skipCancelled]. *)
From Coq Require Import ZArith List Bool Lia.
From Texel Require Import Prelude.Base Prelude.GoLoop Index.Model Snap.Model Snap.MatchSupport
  Snap.ProofsBasics Snap.ProofsMatch.
From Texel.Gen Require Import MatchGen.
Import ListNotations.
Open Scope Z_scope.

(** ** the ordered map *)
Lemma om_set_get_incr (m : omap) k : om_set m k (om_get m k + 1) = om_incr m k.
Proof.
  induction m as [| [k' v] m IH]; cbn [om_set om_get om_incr]; [reflexivity |].
  destruct (k =? k'); [reflexivity | rewrite IH; reflexivity].
Qed.

Lemma om_len_0 (m : omap) : (om_len m =? 0) = (length m =? 0)%nat.
Proof. unfold om_len, zlen. destruct m; reflexivity. Qed.

(** ** checked indexing *)
Lemma idx_app_mid {A} (pre : list A) a l : idx (pre ++ a :: l) (Z.of_nat (length pre)) = Ok a.
Proof.
  unfold idx. destruct (Z.ltb_spec (Z.of_nat (length pre)) 0) as [H | _]; [lia |].
  rewrite Nat2Z.id, nth_error_app2 by lia. rewrite Nat.sub_diag. reflexivity.
Qed.

Lemma idx_setidx_append (polys : list (list (list pt))) : forall k (inner : list pt), 0 <= k < zlen polys ->
  exists p, idx polys k = Ok p /\ setidx polys k (p ++ [inner]) = Ok (append_inner polys k inner).
Proof.
  induction polys as [| q polys IH]; intros k inner Hk; unfold zlen in Hk; cbn [length] in Hk; [lia |].
  cbn [append_inner]. destruct (Z.eqb_spec k 0) as [-> | N].
  - exists q. split; reflexivity.
  - destruct (IH (k - 1) inner) as [p [Hi Hs]]; [unfold zlen; lia |]. exists p.
    unfold idx, setidx in *. destruct (Z.ltb_spec k 0) as [H0 | _]; [lia |].
    destruct (Z.ltb_spec (k - 1) 0) as [H1 | _]; [lia |].
    replace (Z.to_nat k) with (S (Z.to_nat (k - 1))) by lia. cbn [nth_error set_nth].
    split; [exact Hi |].
    destruct (set_nth polys (Z.to_nat (k - 1)) (p ++ [inner])) as [l' |]; [| discriminate].
    inversion Hs; subst. reflexivity.
Qed.

(** ** the loop over the polygon indices = the inner [go] of the model's [matchVertices] *)
Definition scan (cancelled : list (Z * Z)) (innerI : Z) (v : pt)
  : list (list (list pt)) -> Z -> list (Z * Z) -> res (list (Z * Z)) :=
  fix go (l : list (list (list pt))) (k : Z) (c : list (Z * Z)) : res (list (Z * Z)) :=
    match l with
    | [] => Ok c
    | p :: rest =>
        if skipCancelled cancelled k innerI then go rest (k + 1) c
        else
          do outer <- idx p 0;
          do cb <- ringContains outer v;
          go rest (k + 1) (if fst cb then om_incr c k else c)
    end.

Lemma scan_cons cancelled innerI v (p : list (list pt)) rest k c :
  scan cancelled innerI v (p :: rest) k c =
  if skipCancelled cancelled k innerI then scan cancelled innerI v rest (k + 1) c
  else do outer <- idx p 0; do cb <- ringContains outer v;
       scan cancelled innerI v rest (k + 1) (if fst cb then om_incr c k else c).
Proof. reflexivity. Qed.

Lemma matchVertices_cons cancelled innerI polys v r counts :
  matchVertices cancelled innerI polys (v :: r) counts =
  do counts' <- scan cancelled innerI v polys 0 counts;
  let '(k, n) := maxWinners counts' in
  if n =? 1 then Ok (Some k, counts') else matchVertices cancelled innerI polys r counts'.
Proof. reflexivity. Qed.

(** ** the Go map: comma-ok lookup = the model's [skipCancelled] *)
Lemma im_find_cb_find (m : imap) k : im_find m k = cb_find m k.
Proof. induction m as [| [k' v] m IH]; cbn [im_find cb_find]; [reflexivity | rewrite IH; reflexivity]. Qed.

Lemma skip_eq (m : imap) k i : (im_has m k && negb (im_get m k =? i)) = skipCancelled m k i.
Proof. unfold im_has, im_get, skipCancelled. rewrite im_find_cb_find. destruct (cb_find m k); reflexivity. Qed.

Lemma im_set_fresh (m : imap) k v : (forall k', In k' (map fst m) -> k' < k) -> im_set m k v = m ++ [(k, v)].
Proof.
  induction m as [| [k' v'] m IH]; intro H; cbn [im_set app]; [reflexivity |].
  destruct (Z.eqb_spec k k') as [-> | N].
  - specialize (H k' (or_introl eq_refl)). lia.
  - rewrite IH; [reflexivity |]. intros x Hx. apply H. right. exact Hx.
Qed.

Lemma gen_scan {R : Type} (cancelled : imap) (innerI : Z) (polys : list (list (list pt))) (v : pt) :
  forall (l pre : list (list (list pt))) (c : omap),
  polys = pre ++ l ->
  range_loop (R := R)
    (fun (polyI : Z) (c : omap) =>
       if im_has cancelled polyI && negb (im_get cancelled polyI =? innerI) then Ok (Cont c)
       else
         do t1 <- idx polys polyI;
         do t2 <- idx t1 0;
         do t3 <- ringContains t2 v;
         do c <- (if fst t3 then Ok (om_set c polyI (om_get c polyI + 1)) else Ok c);
         Ok (Cont c))
    (map Z.of_nat (seq (length pre) (length l))) c
  = match scan cancelled innerI v l (zlen pre) c with Ok c' => Ok (Next c') | Err e => Err e end.
Proof.
  induction l as [| p l IH]; intros pre c E; [reflexivity |].
  cbn [length seq map range_loop]. rewrite scan_cons. rewrite skip_eq. fold (zlen pre).
  assert (E' : polys = (pre ++ [p]) ++ l) by (rewrite <- app_assoc; exact E).
  specialize (IH (pre ++ [p])). rewrite app_length in IH. cbn [length] in IH.
  replace (length pre + 1)%nat with (S (length pre)) in IH by lia.
  replace (zlen (pre ++ [p])) with (zlen pre + 1) in IH by (unfold zlen; rewrite app_length; cbn [length]; lia).
  destruct (skipCancelled cancelled (zlen pre) innerI); [apply IH, E' |].
  unfold zlen at 1. rewrite E at 1. rewrite idx_app_mid. cbn [bind].
  destruct (idx p 0) as [outer | e]; cbn [bind]; [| reflexivity].
  destruct (ringContains outer v) as [cb | e]; cbn [bind]; [| reflexivity].
  fold (zlen pre).
  destruct (fst cb); cbn [bind].
  - rewrite om_set_get_incr. apply IH, E'.
  - apply IH, E'.
Qed.

(** ** the loop over the vertices of one inner ring = [matchVertices] *)
Lemma gen_vertices {R : Type} (cancelled : imap) (innerI : Z) (inner : list pt) (sorted : option (list Z))
                   (turned : list (list pt)) :
  forall (verts : list pt) (polys : list (list (list pt))) (c : omap),
  keys_in (zlen polys) c ->
  range_loop (R := rctl (list (list (list pt)) * option (list Z) * list (list pt)) R)
    (fun (vertex : pt) '((polygons, c) : list (list (list pt)) * omap) =>
       do out <- range_loop (R := rctl (list (list (list pt)) * omap)
                                       (rctl (list (list (list pt)) * option (list Z) * list (list pt)) R))
                   (fun (polyI : Z) (c : omap) =>
                      if im_has cancelled polyI && negb (im_get cancelled polyI =? innerI) then Ok (Cont c)
                      else
                        do t1 <- idx polygons polyI;
                        do t2 <- idx t1 0;
                        do t3 <- ringContains t2 vertex;
                        do c <- (if fst t3 then Ok (om_set c polyI (om_get c polyI + 1)) else Ok c);
                        Ok (Cont c))
                   (go_indices polygons) c;
       match out with
       | Ret r => Ok r
       | Next c =>
           if snd (maxWinners c) =? 1
           then (do t5 <- idx polygons (fst (maxWinners c));
                 do polygons <- setidx polygons (fst (maxWinners c)) (t5 ++ [inner]);
                 Ok (RRet (Cont (polygons, sorted, turned))))
           else Ok (Cont (polygons, c))
       end)
    verts (polys, c)
  = match matchVertices cancelled innerI polys verts c with
    | Err e => Err e
    | Ok (Some k, _) => Ok (Ret (Cont (append_inner polys k inner, sorted, turned)))
    | Ok (None, c') => Ok (Next (polys, c'))
    end.
Proof.
  induction verts as [| v verts IH]; intros polys c Hk; [reflexivity |].
  cbn [range_loop]. unfold go_indices.
  rewrite (gen_scan cancelled innerI polys v polys [] c eq_refl). change (zlen (@nil (list (list pt)))) with 0.
  rewrite matchVertices_cons.
  destruct (scan cancelled innerI v polys 0 c) as [c1 | e] eqn:Hs; cbn [bind]; [| reflexivity].
  destruct (maxWinners c1) as [k n] eqn:Mw. cbn [fst snd].
  assert (Hone : matchVertices cancelled innerI polys [v] c = Ok (if n =? 1 then Some k else None, c1)).
  { rewrite matchVertices_cons, Hs. cbn [bind]. rewrite Mw. destruct (n =? 1); reflexivity. }
  destruct (matchVertices_keys _ _ _ _ _ _ _ Hk Hone) as [Hk1 Hin].
  destruct (n =? 1).
  - assert (Hr : 0 <= k < zlen polys) by (apply Hk1, Hin; reflexivity).
    destruct (idx_setidx_append polys k inner Hr) as [p [Hi Hset]].
    rewrite Hi. cbn [bind]. rewrite Hset. cbn [bind]. reflexivity.
  - apply IH, Hk1.
Qed.

(** ** the sorted indices are as many as the polygons *)
Lemma area_place_length l k a : length (area_place l k a) = S (length l).
Proof.
  induction l as [| [k' a'] l IH]; cbn [area_place length]; [reflexivity |].
  destruct (a' <? a); cbn [length]; [reflexivity | rewrite IH; reflexivity].
Qed.

Lemma sortPolyIdxs_length polys : length (sortPolyIdxsByOuterAreaDesc polys) = length polys.
Proof.
  unfold sortPolyIdxsByOuterAreaDesc. rewrite map_length.
  match goal with |- length (?f polys 0 []) = _ => set (go := f) end.
  assert (H : forall l k acc, length (go l k acc) = (length l + length acc)%nat).
  { induction l as [| p l IHl]; intros k acc; cbn [go length]; [reflexivity |].
    rewrite IHl, area_place_length. lia. }
  rewrite H. cbn [length]. lia.
Qed.

Lemma nilable_sorted polys : polys <> [] ->
  nilable_of_keys (sortPolyIdxsByOuterAreaDesc polys) = Some (sortPolyIdxsByOuterAreaDesc polys).
Proof.
  intro Hne. pose proof (sortPolyIdxs_length polys) as Hl.
  destruct (sortPolyIdxsByOuterAreaDesc polys); [| reflexivity].
  destruct polys; [congruence | discriminate].
Qed.

Lemma append_inner_length polys : forall k inner, length (append_inner polys k inner) = length polys.
Proof.
  induction polys as [| p polys IH]; intros k inner; cbn [append_inner]; [reflexivity |].
  destruct (k =? 0); cbn [length]; [reflexivity | rewrite IH; reflexivity].
Qed.

(** ** the labelled loop over the inner rings = [matchInnersLoop] *)
Definition outer_body (cancelled : imap) (ix : Z * list pt)
  : list (list (list pt)) * option (list Z) * list (list pt) ->
    res (rctl (list (list (list pt)) * option (list Z) * list (list pt)) (list (list (list pt)))) :=
  let '(innerI, v_innerRing) := ix in
  fun st =>
  let '(v_polygons, v_sorted, v_turned) := st in
  do out <- range_loop (R := rctl (list (list (list pt)) * option (list Z) * list (list pt)) (list (list (list pt))))
    (fun (vertex : pt) '((polygons, c) : list (list (list pt)) * omap) =>
       do out <- range_loop (R := rctl (list (list (list pt)) * omap)
                                       (rctl (list (list (list pt)) * option (list Z) * list (list pt)) (list (list (list pt)))))
                   (fun (polyI : Z) (c : omap) =>
                      if im_has cancelled polyI && negb (im_get cancelled polyI =? innerI) then Ok (Cont c)
                      else
                        do t1 <- idx polygons polyI;
                        do t2 <- idx t1 0;
                        do t3 <- ringContains t2 vertex;
                        do c <- (if fst t3 then Ok (om_set c polyI (om_get c polyI + 1)) else Ok c);
                        Ok (Cont c))
                   (go_indices polygons) c;
       match out with
       | Ret r => Ok r
       | Next c =>
           if snd (maxWinners c) =? 1
           then (do t5 <- idx polygons (fst (maxWinners c));
                 do polygons <- setidx polygons (fst (maxWinners c)) (t5 ++ [v_innerRing]);
                 Ok (RRet (Cont (polygons, v_sorted, v_turned))))
           else Ok (Cont (polygons, c))
       end)
    v_innerRing (v_polygons, @nil (Z * Z));
  match out with
  | Ret r => Ok r
  | Next (v_polygons, c) =>
      if om_len c =? 0 then Ok (Cont (v_polygons, v_sorted, v_turned ++ [rev v_innerRing]))
      else
        do v_sorted <- (if is_nil v_sorted then Ok (nilable_of_keys (sortPolyIdxsByOuterAreaDesc v_polygons))
                        else Ok v_sorted);
        do t8 <- idx v_polygons (lastMatch (nilable_get v_sorted) (map fst c));
        do v_polygons <- setidx v_polygons (lastMatch (nilable_get v_sorted) (map fst c)) (t8 ++ [v_innerRing]);
        Ok (Cont (v_polygons, v_sorted, v_turned))
  end.

Lemma gen_outer (cancelled : imap) : forall (inners : list (list pt)) (n : nat) (polys : list (list (list pt)))
                         (sorted : option (list Z)) (turned : list (list pt)),
  exists sorted',
    range_loop (R := list (list (list pt))) (outer_body cancelled)
      (combine (map Z.of_nat (seq n (length inners))) inners) (polys, sorted, turned)
    = match matchInnersLoop cancelled (Z.of_nat n) polys inners sorted turned with
      | Ok (p, t) => Ok (Next (p, sorted', t))
      | Err e => Err e
      end.
Proof.
  induction inners as [| inner rest IH]; intros n polys sorted turned; [exists sorted; reflexivity |].
  cbn [length seq map combine range_loop matchInnersLoop]. unfold outer_body at 1.
  assert (K0 : keys_in (zlen polys) []) by (intros k []).
  rewrite (gen_vertices cancelled (Z.of_nat n) inner sorted turned inner polys [] K0).
  replace (Z.of_nat n + 1) with (Z.of_nat (S n)) by lia.
  destruct (matchVertices cancelled (Z.of_nat n) polys inner []) as [[mk counts] | e] eqn:Hm; cbn [bind]; [| exists sorted; reflexivity].
  destruct (matchVertices_keys _ _ _ _ _ _ _ K0 Hm) as [Kc _].
  destruct mk as [k |]; cbn [bind]; [apply IH |].
  rewrite om_len_0. destruct (length counts =? 0)%nat eqn:El; [apply IH |].
  assert (Hne : polys <> []).
  { destruct counts as [| [a b] cs]; [discriminate |]. specialize (Kc a (or_introl eq_refl)).
    intros ->. unfold zlen in Kc. cbn [length] in Kc. lia. }
  assert (Hpos : 0 < zlen polys) by (destruct polys; [congruence | unfold zlen; cbn [length]; lia]).
  set (srt := match sorted with Some s => s | None => sortPolyIdxsByOuterAreaDesc polys end).
  assert (Hs : (if is_nil sorted then Ok (nilable_of_keys (sortPolyIdxsByOuterAreaDesc polys)) else Ok sorted)
               = Ok (Some srt)).
  { subst srt. destruct sorted as [s |]; cbn [is_nil]; [reflexivity |]. rewrite nilable_sorted by exact Hne. reflexivity. }
  rewrite Hs. cbn [bind nilable_get].
  assert (Hr : 0 <= lastMatch srt (map fst counts) < zlen polys).
  { destruct (lastMatch_in srt (map fst counts)) as [Hin | ->]; [apply Kc, Hin | lia]. }
  destruct (idx_setidx_append polys _ inner Hr) as [p [Hi Hset]].
  rewrite Hi. cbn [bind]. rewrite Hset. cbn [bind]. apply IH.
Qed.

(** ** the inners turned outers become polygons of their own *)
Lemma gen_turned {R : Type} (turned : list (list pt)) : forall (l pre : list (list pt)) (polys : list (list (list pt))),
  turned = pre ++ l ->
  range_loop (R := R)
    (fun (i : Z) (polys : list (list (list pt))) => do t <- idx turned i; Ok (Cont (polys ++ [[t]])))
    (map Z.of_nat (seq (length pre) (length l))) polys
  = Ok (Next (polys ++ map (fun t => [t]) l)).
Proof.
  induction l as [| t l IH]; intros pre polys E; [cbn [length seq map range_loop]; rewrite app_nil_r; reflexivity |].
  cbn [length seq map range_loop]. rewrite E at 1. rewrite idx_app_mid. cbn [bind].
  specialize (IH (pre ++ [t]) (polys ++ [[t]])). rewrite app_length in IH. cbn [length] in IH.
  replace (length pre + 1)%nat with (S (length pre)) in IH by lia.
  rewrite IH by (rewrite <- app_assoc; exact E). rewrite <- app_assoc. reflexivity.
Qed.

(** ** (repair of F16) the two loops that fill the Go map [cancelledBy] = the model's [cancelledBy] *)
Lemma gen_firstEqual {R : Type} (polys : list (list (list pt))) (inners : list (list pt)) (polyI : Z) (p : list (list pt)) :
  idx polys polyI = Ok p -> forall (l pre : list (list pt)) (m : imap),
  inners = pre ++ l ->
  range_loop (R := R)
    (fun (innerI : Z) (m : imap) =>
       do t1 <- idx polys polyI;
       do t2 <- idx t1 0;
       do t3 <- idx inners innerI;
       do t4 <- ringsAreEqual t2 t3 true false;
       if t4 then Ok (Brk (im_set m polyI innerI)) else Ok (Cont m))
    (map Z.of_nat (seq (length pre) (length l))) m
  = match firstEqualInner p l (zlen pre) with
    | Err e => Err e
    | Ok (Some j) => Ok (Next (im_set m polyI j))
    | Ok None => Ok (Next m)
    end.
Proof.
  intro Hp.
  match goal with |- forall l pre m, _ -> range_loop ?b _ _ = _ => set (body := b) end.
  induction l as [| h l IH]; intros pre m E; [reflexivity |].
  cbn [length seq map range_loop firstEqualInner]. unfold polygon, Base.ring in *.
  unfold body at 1. cbv beta. rewrite Hp. cbn [bind].
  destruct (idx p 0) as [outer | e]; cbn [bind]; [| reflexivity].
  rewrite E at 1. rewrite idx_app_mid. cbn [bind].
  destruct (ringsAreEqual outer h true false) as [[|] | e]; cbn [bind]; [reflexivity | | reflexivity].
  specialize (IH (pre ++ [h]) m). rewrite app_length in IH. cbn [length] in IH.
  replace (length pre + 1)%nat with (S (length pre)) in IH by lia.
  replace (zlen (pre ++ [h])) with (zlen pre + 1) in IH by (unfold zlen; rewrite app_length; cbn [length]; lia).
  apply IH. rewrite <- app_assoc. exact E.
Qed.

Lemma gen_cancelled {R : Type} (polys : list (list (list pt))) (inners : list (list pt)) :
  forall (l pre : list (list (list pt))) (m : imap),
  polys = pre ++ l -> (forall k, In k (map fst m) -> k < zlen pre) ->
  range_loop (R := R)
    (fun (polyI : Z) (m : imap) =>
       do out <- range_loop (R := rctl imap R)
                   (fun (innerI : Z) (m : imap) =>
                      do t1 <- idx polys polyI;
                      do t2 <- idx t1 0;
                      do t3 <- idx inners innerI;
                      do t4 <- ringsAreEqual t2 t3 true false;
                      if t4 then Ok (Brk (im_set m polyI innerI)) else Ok (Cont m))
                   (go_indices inners) m;
       match out with
       | Ret r => Ok r
       | Next m => Ok (Cont m)
       end)
    (map Z.of_nat (seq (length pre) (length l))) m
  = match cancelledByFrom l inners (zlen pre) with
    | Err e => Err e
    | Ok m' => Ok (Next (m ++ m'))
    end.
Proof.
  match goal with |- forall l pre m, _ -> _ -> range_loop ?b _ _ = _ => set (body := b) end.
  induction l as [| p l IH]; intros pre m E Hm; [cbn [length seq map range_loop cancelledByFrom]; rewrite app_nil_r; reflexivity |].
  cbn [length seq map range_loop cancelledByFrom]. unfold body at 1. cbv beta. unfold go_indices.
  assert (Hp : idx polys (Z.of_nat (length pre)) = Ok p) by (rewrite E; apply idx_app_mid).
  rewrite (gen_firstEqual polys inners (Z.of_nat (length pre)) p Hp inners [] m eq_refl).
  change (zlen (@nil (list pt))) with 0.
  assert (E' : polys = (pre ++ [p]) ++ l) by (rewrite <- app_assoc; exact E).
  pose proof (IH (pre ++ [p])) as IH'. rewrite app_length in IH'. cbn [length] in IH'.
  replace (length pre + 1)%nat with (S (length pre)) in IH' by lia.
  replace (zlen (pre ++ [p])) with (zlen pre + 1) in IH' by (unfold zlen; rewrite app_length; cbn [length]; lia).
  destruct (firstEqualInner p inners 0) as [[j |] | e]; cbn [bind]; [| | reflexivity].
  - fold (zlen pre). rewrite (im_set_fresh m (zlen pre) j Hm).
    rewrite (IH' (m ++ [(zlen pre, j)]) E').
    + destruct (cancelledByFrom l inners (zlen pre + 1)) as [m' | e]; cbn [bind]; [| reflexivity].
      rewrite <- app_assoc. reflexivity.
    + intros k Hk. rewrite map_app in Hk. apply in_app_or in Hk. destruct Hk as [Hk | [<- | []]]; [specialize (Hm k Hk); lia | cbn [fst]; lia].
  - rewrite (IH' m E').
    + destruct (cancelledByFrom l inners (zlen pre + 1)) as [m' | e]; reflexivity.
    + intros k Hk. specialize (Hm k Hk). lia.
Qed.

(** ** the function *)
Theorem gen_matchInnersToPolygons_spec (polys : list (list (list pt))) (inners : list (list pt)) (hasInners : bool) :
  gen_matchInnersToPolygons polys inners hasInners = matchInnersToPolygons polys inners.
Proof.
  unfold gen_matchInnersToPolygons, matchInnersToPolygons. cbv zeta. unfold polygon, Base.ring.
  destruct inners as [| inner rest]; [reflexivity |].
  change (zlen (inner :: rest) =? 0) with false. cbv iota.
  unfold go_indices at 1.
  rewrite (gen_cancelled polys (inner :: rest) polys [] [] eq_refl) by (intros k []).
  change (zlen (@nil (list (list pt)))) with 0. unfold cancelledBy. cbn [app].
  destruct (cancelledByFrom polys (inner :: rest) 0) as [cancelled | e]; cbn [bind]; [| reflexivity].
  destruct (gen_outer cancelled (inner :: rest) 0 polys None []) as [s' H].
  unfold outer_body in H.
  change (go_enum (inner :: rest)) with (combine (map Z.of_nat (seq 0 (length (inner :: rest)))) (inner :: rest)).
  rewrite H. clear H.
  change (Z.of_nat 0) with 0.
  match goal with |- context [matchInnersLoop ?c ?i ?a ?b ?d ?f] => destruct (matchInnersLoop c i a b d f) as [[p t] | e] end;
    cbn [bind]; [| reflexivity].
  unfold go_indices. rewrite (gen_turned t t [] p eq_refl). reflexivity.
Qed.
