(** * matchInnersToPolygons after the repair of F16: a cancelled polygon takes no other hole.

    A polygon whose outer ring is equal to one of the inner rings ([ringsAreEqual outer inner true false]: the same
    points in the opposite direction, any starting point) encloses nothing.  [cancelledBy] records, per polygon index,
    the index of the FIRST such inner ring (its twin), and the counting loop of [matchVertices] skips the polygon for
    every inner ring but the twin.  Hence ([cancelled_polygon_takes_no_other_hole]): in the result, such a polygon
    has received nothing, or exactly one ring, and that ring is an inner ring equal to its outer ring.
    Before the repair a hole inside the zero-area pair was attached to it (it is the smallest polygon containing the
    hole) and the shell around it came back without that hole: finding F16, [F16_regression] below replays the
    witness on the repaired model. *)
From Coq Require Import ZArith List Bool Lia Permutation.
From Texel Require Import Prelude.Base Index.Model Snap.Model Snap.ProofsBasics Snap.ProofsMatch Snap.ProofsJoinC18b.
Import ListNotations.
Open Scope Z_scope.

(** ** [firstEqualInner] / [cancelledBy] *)
Lemma firstEqualInner_some (p : polygon) : forall l j0 j, firstEqualInner p l j0 = Ok (Some j) ->
  j0 <= j /\ exists t o, nth_error l (Z.to_nat (j - j0)) = Some t /\ idx p 0 = Ok o /\ ringsAreEqual o t true false = Ok true.
Proof.
  induction l as [| h l IH]; intros j0 j H; cbn [firstEqualInner] in H; [discriminate |].
  bind_inv H o Ho. bind_inv H e He. destruct e.
  - inversion H; subst. split; [lia |]. exists h, o. rewrite Z.sub_diag. auto.
  - destruct (IH _ _ H) as [Hj [t [o' [Hn [Ho' He']]]]]. split; [lia |]. exists t, o'.
    replace (Z.to_nat (j - j0)) with (S (Z.to_nat (j - (j0 + 1)))) by lia. auto.
Qed.

Lemma firstEqualInner_none (p : polygon) o : idx p 0 = Ok o -> forall l j0, firstEqualInner p l j0 = Ok None ->
  forall t, In t l -> ringsAreEqual o t true false = Ok false.
Proof.
  intro Ho. induction l as [| h l IH]; intros j0 H t Ht; [destruct Ht |]. cbn [firstEqualInner] in H.
  rewrite Ho in H. cbn [bind] in H. bind_inv H e He. destruct e; [discriminate |].
  destruct Ht as [<- | Ht]; [exact He | exact (IH _ H t Ht)].
Qed.

Lemma cancelledByFrom_keys ins : forall l k0 m, cancelledByFrom l ins k0 = Ok m -> forall k, In k (map fst m) -> k0 <= k.
Proof.
  induction l as [| p l IH]; intros k0 m H k Hk; cbn [cancelledByFrom] in H.
  - inversion H; subst. destruct Hk.
  - bind_inv H t Ht. bind_inv H m' Hm'. inversion H; subst. clear H.
    assert (Hr : In k (map fst m') -> k0 <= k) by (intro X; specialize (IH _ _ Hm' k X); lia).
    destruct t as [j |]; [| exact (Hr Hk)]. destruct Hk as [<- | Hk]; [cbn [fst]; lia | exact (Hr Hk)].
Qed.

Lemma cb_find_not_in m k : ~ In k (map fst m) -> cb_find m k = None.
Proof.
  induction m as [| [k' v] m IH]; intro H; cbn [cb_find]; [reflexivity |].
  destruct (Z.eqb_spec k k') as [-> | N]; [exfalso; apply H; left; reflexivity |]. apply IH. intro X. apply H. right. exact X.
Qed.

(** the entry of polygon number [k0 + i] is the first inner ring equal to its outer ring *)
Lemma cancelledByFrom_find ins : forall l k0 m, cancelledByFrom l ins k0 = Ok m ->
  forall i p, nth_error l i = Some p -> firstEqualInner p ins 0 = Ok (cb_find m (k0 + Z.of_nat i)).
Proof.
  induction l as [| q l IH]; intros k0 m H i p Hi; [destruct i; discriminate |]. cbn [cancelledByFrom] in H.
  bind_inv H t Ht. bind_inv H m' Hm'. inversion H; subst. clear H.
  pose proof (cancelledByFrom_keys ins _ _ _ Hm') as Hkeys.
  destruct i as [| i]; cbn [nth_error] in Hi.
  - inversion Hi; subst q. rewrite Z.add_0_r. rewrite Ht. f_equal.
    assert (Hn : cb_find m' k0 = None) by (apply cb_find_not_in; intro X; specialize (Hkeys _ X); lia).
    destruct t as [j |]; [cbn [cb_find]; rewrite Z.eqb_refl; reflexivity | symmetry; exact Hn].
  - rewrite (IH _ _ Hm' i p Hi). f_equal. replace (k0 + 1 + Z.of_nat i) with (k0 + Z.of_nat (S i)) by lia.
    destruct t as [j |]; [| reflexivity]. cbn [cb_find]. destruct (Z.eqb_spec (k0 + Z.of_nat (S i)) k0); [lia | reflexivity].
Qed.

(** ** the counting loop never counts a polygon that is skipped *)
Lemma matchVertices_skips cancelled innerI polys k : skipCancelled cancelled k innerI = true ->
  forall verts counts m counts', ~ In k (map fst counts) ->
  matchVertices cancelled innerI polys verts counts = Ok (m, counts') -> ~ In k (map fst counts').
Proof.
  intro Hs. induction verts as [| v verts IH]; intros counts m counts' Hn H; cbn [matchVertices] in H.
  - inversion H; subst. exact Hn.
  - match type of H with bind (?f polys 0 counts) _ = _ => set (go := f) in * end.
    assert (Hgo : forall l k0 c c', go l k0 c = Ok c' -> ~ In k (map fst c) -> ~ In k (map fst c')).
    { induction l as [| p l IHl]; intros k0 c c' Hg Hc; cbn in Hg.
      - inversion Hg; subst. exact Hc.
      - destruct (skipCancelled cancelled k0 innerI) eqn:Es; [exact (IHl _ _ _ Hg Hc) |].
        bind_inv Hg outer Ho. bind_inv Hg cb Hcb. apply (IHl _ _ _ Hg).
        destruct (fst cb); [| exact Hc]. intro X. apply om_incr_keys in X. destruct X as [-> | X]; [congruence | exact (Hc X)]. }
    bind_inv H c1 Hc1. apply Hgo in Hc1; [| exact Hn].
    destruct (maxWinners c1) as [k' n]. destruct (n =? 1).
    + inversion H; subst. exact Hc1.
    + exact (IH _ _ _ Hc1 H).
Qed.

(** ** [append_inner] and the polygon with number k *)
Lemma zth_append_other polys : forall k k' inner, k <> k' -> zth (append_inner polys k' inner) k = zth polys k.
Proof.
  induction polys as [| q polys IH]; intros k k' inner N; cbn [append_inner zth]; [reflexivity |].
  destruct (Z.eqb_spec k' 0) as [-> | N'].
  - cbn [zth]. destruct (Z.eqb_spec k 0); [congruence | reflexivity].
  - cbn [zth]. destruct (Z.eqb_spec k 0); [reflexivity |]. apply IH. lia.
Qed.

Lemma zth_append_same polys : forall k inner p, zth polys k = Some p -> zth (append_inner polys k inner) k = Some (p ++ [inner]).
Proof.
  induction polys as [| q polys IH]; intros k inner p H; cbn [zth] in H; [discriminate |]. cbn [append_inner].
  destruct (Z.eqb_spec k 0) as [-> | N]; cbn [zth].
  - inversion H; subst. reflexivity.
  - destruct (Z.eqb_spec k 0); [congruence |]. apply IH, H.
Qed.

Lemma zth_nth_error polys : forall k, zth polys (Z.of_nat k) = nth_error polys k.
Proof.
  induction polys as [| q polys IH]; intro k; cbn [zth]; [destruct k; reflexivity |].
  destruct k as [| k]; [reflexivity |]. destruct (Z.eqb_spec (Z.of_nat (S k)) 0); [lia |].
  replace (Z.of_nat (S k) - 1) with (Z.of_nat k) by lia. cbn [nth_error]. apply IH.
Qed.

(** ** the loop: the polygon with number k, cancelled by the inner ring with number j, receives nothing or that ring *)
Lemma matchInnersLoop_cancelled cancelled k j : cb_find cancelled k = Some j ->
  forall rest innerI polys sorted turned polys' turned' p,
  order_ok (zlen polys) sorted ->
  matchInnersLoop cancelled innerI polys rest sorted turned = Ok (polys', turned') ->
  zth polys k = Some p ->
  exists a, zth polys' k = Some (p ++ a) /\
    (a = [] \/ exists t, a = [t] /\ innerI <= j /\ nth_error rest (Z.to_nat (j - innerI)) = Some t).
Proof.
  intro Hc. induction rest as [| inner rest IH]; intros innerI polys sorted turned polys' turned' p Hs H Hp;
    cbn [matchInnersLoop] in H.
  - inversion H; subst. exists []. rewrite app_nil_r. auto.
  - bind_inv H m Hm. destruct m as [mk counts].
    assert (K0 : keys_in (zlen polys) []) by (intros x []).
    destruct (matchVertices_keys _ _ _ _ _ _ _ K0 Hm) as [Kc Ks].
    assert (Hlen : forall k', zlen (append_inner polys k' inner) = zlen polys)
      by (intro k'; unfold zlen; rewrite append_inner_length; reflexivity).
    (* what the rest of the loop does, given the polygon number k after this step *)
    assert (Hrest : forall polys1 sorted1 turned1 p1, order_ok (zlen polys1) sorted1 ->
              matchInnersLoop cancelled (innerI + 1) polys1 rest sorted1 turned1 = Ok (polys', turned') ->
              zth polys1 k = Some p1 ->
              (p1 = p \/ (p1 = p ++ [inner] /\ j = innerI)) ->
              exists a, zth polys' k = Some (p ++ a) /\
                (a = [] \/ exists t, a = [t] /\ innerI <= j /\ nth_error (inner :: rest) (Z.to_nat (j - innerI)) = Some t)).
    { intros polys1 sorted1 turned1 p1 Hs1 H1 Hp1 Hcase.
      destruct (IH _ _ _ _ _ _ _ Hs1 H1 Hp1) as [a [Hz Ha]]. destruct Hcase as [-> | [-> ->]].
      - exists a. split; [exact Hz |]. destruct Ha as [-> | [t [-> [Hj Hn]]]]; [auto |]. right. exists t.
        split; [reflexivity |]. split; [lia |].
        replace (Z.to_nat (j - innerI)) with (S (Z.to_nat (j - (innerI + 1)))) by lia. exact Hn.
      - destruct Ha as [-> | [t [_ [Hj _]]]]; [| lia]. exists [inner]. rewrite app_nil_r in Hz. split; [exact Hz |].
        right. exists inner. rewrite Z.sub_diag. split; [reflexivity | split; [lia | reflexivity]]. }
    (* attaching to the polygon with number k' *)
    assert (Hatt : forall k' sorted1, In k' (map fst counts) -> order_ok (zlen polys) sorted1 ->
              matchInnersLoop cancelled (innerI + 1) (append_inner polys k' inner) rest sorted1 turned = Ok (polys', turned') ->
              exists a, zth polys' k = Some (p ++ a) /\
                (a = [] \/ exists t, a = [t] /\ innerI <= j /\ nth_error (inner :: rest) (Z.to_nat (j - innerI)) = Some t)).
    { intros k' sorted1 Hin Hs1 H1.
      assert (Hs1' : order_ok (zlen (append_inner polys k' inner)) sorted1) by (rewrite Hlen; exact Hs1).
      destruct (Z.eq_dec k' k) as [-> | Nk].
      - destruct (Z.eq_dec j innerI) as [-> | Nj].
        + apply (Hrest _ _ _ (p ++ [inner]) Hs1' H1 (zth_append_same _ _ _ _ Hp)). right. auto.
        + exfalso. assert (Hskip : skipCancelled cancelled k innerI = true).
          { unfold skipCancelled. rewrite Hc. destruct (Z.eqb_spec j innerI); [congruence | reflexivity]. }
          apply (matchVertices_skips cancelled innerI polys k Hskip inner [] mk counts (fun x => x) Hm Hin).
      - apply (Hrest _ _ _ p Hs1' H1); [rewrite zth_append_other by congruence; exact Hp | left; reflexivity]. }
    destruct mk as [k' |].
    + apply (Hatt k' sorted (Ks k' eq_refl) Hs H).
    + destruct (length counts =? 0)%nat eqn:El.
      * apply (Hrest _ _ _ p Hs H Hp). left. reflexivity.
      * set (srt := match sorted with Some s => s | None => sortPolyIdxsByOuterAreaDesc polys end) in *.
        assert (Hsrt : forall x, 0 <= x < zlen polys -> In x srt).
        { unfold srt. destruct sorted as [s |]; [exact Hs | apply sorted_covers]. }
        assert (Hk : In (lastMatch srt (map fst counts)) (map fst counts)).
        { destruct counts as [| [a b] c]; [discriminate |].
          apply (lastMatch_found srt _ a); [left; reflexivity | apply Hsrt, Kc; left; reflexivity]. }
        apply (Hatt _ (Some srt) Hk Hsrt H).
Qed.

(** ** the theorem *)
Theorem cancelled_polygon_takes_no_other_hole (polys : list polygon) (ins : list ring) ps (k : nat) p o :
  matchInnersToPolygons polys ins = Ok ps ->
  nth_error polys k = Some p -> idx p 0 = Ok o ->
  (exists t, In t ins /\ ringsAreEqual o t true false = Ok true) ->
  exists a, nth_error ps k = Some (p ++ a) /\
    (a = [] \/ exists t, a = [t] /\ In t ins /\ ringsAreEqual o t true false = Ok true).
Proof.
  intros H Hp Ho [t0 [Ht0 Et0]]. unfold matchInnersToPolygons in H. destruct ins as [| i0 ins0]; [destruct Ht0 |].
  set (ins := i0 :: ins0) in *. bind_inv H cancelled Hcb. bind_inv H r Hr. destruct r as [polys' turned']. inversion H; subst ps.
  cbn [fst snd]. clear H.
  pose proof (cancelledByFrom_find ins polys 0 cancelled Hcb k p Hp) as Hf. rewrite Z.add_0_l in Hf.
  destruct (cb_find cancelled (Z.of_nat k)) as [j |] eqn:Ec.
  - destruct (firstEqualInner_some p ins 0 j Hf) as [Hj [t [o' [Hn [Ho' He]]]]]. rewrite Ho in Ho'. inversion Ho'; subst o'.
    rewrite Z.sub_0_r in Hn.
    assert (Hz : zth polys (Z.of_nat k) = Some p) by (rewrite zth_nth_error; exact Hp).
    destruct (matchInnersLoop_cancelled cancelled (Z.of_nat k) j Ec ins 0 polys None [] polys' turned' p I Hr Hz)
      as [a [Hza Ha]].
    exists a. split.
    + rewrite zth_nth_error in Hza. rewrite nth_error_app1; [exact Hza |]. apply nth_error_Some. congruence.
    + destruct Ha as [-> | [t' [-> [_ Hn']]]]; [auto |]. right. exists t'. rewrite Z.sub_0_r in Hn'.
      rewrite Hn in Hn'. inversion Hn'; subst t'. split; [reflexivity |]. split; [eapply nth_error_In; exact Hn | exact He].
  - exfalso. pose proof (firstEqualInner_none p o Ho ins 0 Hf t0 Ht0) as X. congruence.
Qed.


(** ** regression of F16: witness "case 3" (a shell, a C-shaped hole whose band is thinner than a pixel, a square hole
       in the island inside the C), coordinates in 1e-10 units, grid 64 x 64 at the origin, pixels of 2.0 on the
       requested level 5 (tile matrix 1 of the synthetic set: 32 x 32 pixels).  The routed C splits into the island
       outer ring and an equal inner ring (the cancelled pair, no centre is visited more than twice); the square hole
       lies inside the island.  Repaired: the square hole is attached to the shell, the cancelled pair is a polygon of
       its own.  (Before the repair the result was [[shell]; [island; twin; hole]]: the shell covered the hole.) *)
Definition gF16 : grid := mkGrid (mkExtent 0 0 640000000000 640000000000) 20000000000 5.
Definition gF16deep : grid := mkGrid (mkExtent 0 0 640000000000 640000000000) 5000000000 7.
Definition pF16 : list ring :=
  [
   [(195450709640, 395450709640); (50000000000, 395450709640); (50000000000, 250000000000);
    (195450709640, 250000000000)];
   [(121697154791, 367634860940); (77815848700, 367634860940); (77815848700, 277815848700);
    (167634860940, 277815848700); (167634860940, 367634860940); (123753554849, 367634860940);
    (123753554849, 374160301523); (174160301523, 374160301523); (174160301523, 271290408116);
    (71290408116, 271290408116); (71290408116, 374160301523); (121697154791, 374160301523)];
   [(96206301379, 349244408260); (96206301379, 296206301379); (149244408260, 296206301379);
    (149244408260, 349244408260)]
  ].
Definition shellF16 : ring := [(190000000000, 390000000000); (50000000000, 390000000000); (50000000000, 250000000000); (190000000000, 250000000000)].
Definition holeF16 : ring := [(150000000000, 350000000000); (150000000000, 290000000000); (90000000000, 290000000000); (90000000000, 350000000000)].
Definition islandF16 : ring :=
  [(130000000000, 370000000000); (70000000000, 370000000000); (70000000000, 270000000000); (170000000000, 270000000000);
   (170000000000, 370000000000)].
Definition twinF16 : ring :=
  [(130000000000, 370000000000); (170000000000, 370000000000); (170000000000, 270000000000); (70000000000, 270000000000);
   (70000000000, 370000000000)].

Lemma F16_regression :
  snapPolygon gF16 pF16 [5%nat] (mkConfig false false false)
    = Ok [(5%nat, [[shellF16; holeF16]; [islandF16; twinF16]])] /\
  (exists r, snapPolygon gF16deep pF16 [4; 5; 6; 7]%nat (mkConfig false false false) = Ok r /\
             In (5%nat, [[shellF16; holeF16]; [islandF16; twinF16]]) r) /\
  ringsAreEqual islandF16 twinF16 true false = Ok true /\
  matchInnersToPolygons [[shellF16]; [islandF16]] [twinF16; holeF16] = Ok [[shellF16; holeF16]; [islandF16; twinF16]] /\
  cancelledBy [[shellF16]; [islandF16]] [twinF16; holeF16] = Ok [(1, 0)].
Proof.
  split; [vm_compute; reflexivity |]. split; [eexists; split; [vm_compute; reflexivity | right; left; reflexivity] |].
  vm_compute. repeat split; reflexivity.
Qed.

Print Assumptions cancelled_polygon_takes_no_other_hole.
Print Assumptions F16_regression.
