(** * matchInnersToPolygons: every inner ring is appended to exactly one polygon or becomes a new
      single-ring polygon reversed; the first rings are untouched. *)
From Coq Require Import ZArith List Bool Lia Permutation.
From Texel Require Import Prelude.Base Index.Model Snap.Model Snap.ProofsBasics.
Import ListNotations.
Open Scope Z_scope.

Definition keys_in (N : Z) (c : list (Z * Z)) : Prop := forall k, In k (map fst c) -> 0 <= k < N.

Lemma om_incr_keys m k k' : In k' (map fst (om_incr m k)) -> k' = k \/ In k' (map fst m).
Proof.
  induction m as [| [a v] m IH]; cbn [om_incr map fst In].
  - intros [H | []]; auto.
  - destruct (k =? a); cbn [map fst In]; [auto |]. intros [H | H]; [auto |]. destruct (IH H); auto.
Qed.

Lemma maxWinners_fold r : forall k0 v0 n0 k v n,
  fold_left (fun (acc : Z * Z * Z) (e : Z * Z) =>
               let '(k, v, n) := acc in
               if v <? snd e then (fst e, snd e, 1)
               else if snd e =? v then (k, v, n + 1) else acc) r (k0, v0, n0) = (k, v, n) ->
  k = k0 \/ In k (map fst r).
Proof.
  induction r as [| e r IH]; intros k0 v0 n0 k v n H; cbn [fold_left] in H.
  - inversion H. auto.
  - destruct (v0 <? snd e).
    + apply IH in H. destruct H as [-> | H]; right; [left; reflexivity | right; exact H].
    + destruct (snd e =? v0); apply IH in H; destruct H as [-> | H]; auto; right; right; exact H.
Qed.

Lemma maxWinners_key m k n : maxWinners m = (k, n) -> n = 1 -> In k (map fst m).
Proof.
  unfold maxWinners. destruct (rev m) as [| [k0 v0] r] eqn:E.
  - intros H Hn. inversion H. lia.
  - destruct (fold_left _ r (k0, v0, 1)) as [[k1 v1] n1] eqn:F. intros H _. inversion H; subst.
    apply maxWinners_fold in F.
    assert (Hm : forall x, In x (map fst (rev m)) -> In x (map fst m)).
    { intros x Hx. rewrite map_rev in Hx. apply in_rev in Hx. exact Hx. }
    apply Hm. rewrite E. cbn [map fst]. destruct F as [-> | F]; [left; reflexivity | right; exact F].
Qed.

Lemma lastMatch_in hay needle : In (lastMatch hay needle) needle \/ lastMatch hay needle = 0.
Proof.
  unfold lastMatch. destruct (filter (fun h => mem_Z h needle) (rev hay)) as [| h l] eqn:E; [auto |].
  left. assert (H : In h (filter (fun h => mem_Z h needle) (rev hay))) by (rewrite E; left; reflexivity).
  apply filter_In in H. destruct H as [_ H]. unfold mem_Z in H. apply existsb_exists in H.
  destruct H as [x [Hx Ex]]. apply Z.eqb_eq in Ex. congruence.
Qed.

(** matchVertices: keys of the counts are polygon indices; a single winner is one of them *)
Lemma matchVertices_keys cancelled innerI polys : forall verts counts m counts',
  keys_in (zlen polys) counts -> matchVertices cancelled innerI polys verts counts = Ok (m, counts') ->
  keys_in (zlen polys) counts' /\ (forall k, m = Some k -> In k (map fst counts')).
Proof.
  induction verts as [| v verts IH]; intros counts m counts' Hk H; cbn [matchVertices] in H.
  - inversion H; subst. split; [exact Hk | discriminate].
  - match type of H with bind (?f polys 0 counts) _ = _ => set (go := f) in * end.
    assert (Hgo : forall l k c c', go l k c = Ok c' -> keys_in (zlen polys) c -> 0 <= k -> k + zlen l <= zlen polys ->
                                   keys_in (zlen polys) c').
    { induction l as [| p l IHl]; intros k c c' Hg Hc Hk0 Hkl; cbn in Hg.
      - inversion Hg; subst. exact Hc.
      - unfold zlen in Hkl. cbn [length] in Hkl.
        destruct (skipCancelled cancelled k innerI); [apply (IHl (k + 1) _ c' Hg); [exact Hc | lia | unfold zlen; lia] |].
        bind_inv Hg outer Ho. bind_inv Hg cb Hcb.
        apply (IHl (k + 1) _ c' Hg); [| lia | unfold zlen; lia].
        destruct (fst cb); [| exact Hc]. intros k' Hk'. apply om_incr_keys in Hk'.
        destruct Hk' as [-> | Hk']; [unfold zlen; lia | apply Hc, Hk']. }
    bind_inv H c1 Hc1. apply Hgo in Hc1; [| exact Hk | lia | lia].
    destruct (maxWinners c1) as [k n] eqn:Mw. destruct (Z.eqb_spec n 1) as [En | Nn].
    + inversion H; subst. split; [exact Hc1 |]. intros k' Ek. inversion Ek; subst.
      apply (maxWinners_key _ _ _ Mw eq_refl).
    + apply (IH _ _ _ Hc1 H).
Qed.

(** ** append_inner *)
Definition ext (S : list ring) (p p' : polygon) : Prop := exists a, p' = p ++ a /\ incl a S.

Lemma ext_refl S p : ext S p p.
Proof. exists []. split; [symmetry; apply app_nil_r | intros x []]. Qed.

Lemma Forall2_ext_refl S polys : Forall2 (ext S) polys polys.
Proof. induction polys; constructor; [apply ext_refl | assumption]. Qed.

Lemma Forall2_ext_trans S1 S2 l1 l2 l3 : Forall2 (ext S1) l1 l2 -> Forall2 (ext S2) l2 l3 ->
  Forall2 (ext (S1 ++ S2)) l1 l3.
Proof.
  intro H. revert l3. induction H as [| p1 p2 l1 l2 [a [E1 I1]] H IH]; intros l3 H23; inversion H23 as [| ? p3 ? l3' [b [E2 I2]] H']; subst.
  - constructor.
  - constructor; [| apply IH; assumption]. exists (a ++ b). split; [rewrite app_assoc; reflexivity |].
    apply incl_app; [apply incl_appl, I1 | apply incl_appr, I2].
Qed.

Lemma Forall2_length' {A B} (R : A -> B -> Prop) l l' : Forall2 R l l' -> length l = length l'.
Proof. induction 1; cbn [length]; congruence. Qed.

Lemma append_inner_spec polys : forall k inner, 0 <= k < zlen polys ->
  Forall2 (ext [inner]) polys (append_inner polys k inner) /\
  Permutation (concat (append_inner polys k inner)) (concat polys ++ [inner]).
Proof.
  induction polys as [| p polys IH]; intros k inner Hk; unfold zlen in Hk; cbn [length] in Hk; [lia |].
  cbn [append_inner]. destruct (Z.eqb_spec k 0) as [-> | N].
  - split.
    + constructor; [| apply Forall2_ext_refl]. exists [inner]. split; [reflexivity | apply incl_refl].
    + cbn [concat]. rewrite <- !app_assoc. apply Permutation_app_head, Permutation_app_comm.
  - destruct (IH (k - 1) inner) as [F P]; [unfold zlen; lia |]. split.
    + constructor; [apply ext_refl | exact F].
    + cbn [concat]. rewrite <- app_assoc. apply Permutation_app_head, P.
Qed.

(** ** the loop *)
Lemma matchInnersLoop_spec cancelled : forall innerRings innerI polys sorted turned polys' turned',
  matchInnersLoop cancelled innerI polys innerRings sorted turned = Ok (polys', turned') ->
  exists matched tu, Forall2 (ext matched) polys polys' /\
    Permutation (concat polys') (concat polys ++ matched) /\
    turned' = turned ++ map (@rev pt) tu /\ Permutation innerRings (matched ++ tu).
Proof.
  induction innerRings as [| inner rest IH]; intros innerI polys sorted turned polys' turned' H; cbn [matchInnersLoop] in H.
  - inversion H; subst. exists [], []. cbn [map app]. rewrite !app_nil_r.
    split; [apply Forall2_ext_refl |]. split; [apply Permutation_refl |]. split.
    + reflexivity.
    + apply perm_nil.
  - bind_inv H m Hm. destruct m as [mk counts].
    assert (K0 : keys_in (zlen polys) []) by (intros k []).
    destruct (matchVertices_keys _ _ _ _ _ _ _ K0 Hm) as [Kc Ks].
    assert (Happ : forall k sorted', 0 <= k < zlen polys ->
              matchInnersLoop cancelled (innerI + 1) (append_inner polys k inner) rest sorted' turned = Ok (polys', turned') ->
              exists matched tu, Forall2 (ext matched) polys polys' /\
                Permutation (concat polys') (concat polys ++ matched) /\
                turned' = turned ++ map (@rev pt) tu /\ Permutation (inner :: rest) (matched ++ tu)).
    { intros k sorted' Hk H'. destruct (append_inner_spec polys k inner Hk) as [F P].
      destruct (IH _ _ _ _ _ _ H') as [matched [tu [F' [P' [Et Pi]]]]].
      exists (inner :: matched), tu. split; [| split; [| split]].
      - apply (Forall2_ext_trans [inner] matched _ _ _ F F').
      - eapply Permutation_trans; [exact P' |]. eapply Permutation_trans; [apply Permutation_app_tail, P |].
        rewrite <- app_assoc. reflexivity.
      - exact Et.
      - cbn [app]. apply perm_skip, Pi. }
    destruct mk as [k |].
    + apply (Happ k sorted); [| exact H]. apply Kc, Ks. reflexivity.
    + destruct (length counts =? 0)%nat eqn:El.
      * destruct (IH _ _ _ _ _ _ H) as [matched [tu [F' [P' [Et Pi]]]]].
        exists matched, (inner :: tu). split; [exact F' |]. split; [exact P' |]. split.
        -- rewrite Et. cbn [map]. rewrite <- app_assoc. reflexivity.
        -- apply Permutation_cons_app, Pi.
      * eapply Happ; [| exact H].
        assert (Hne : counts <> []) by (destruct counts; [discriminate | discriminate]).
        assert (Hpos : 0 < zlen polys).
        { destruct counts as [| [a b] c]; [congruence |]. specialize (Kc a (or_introl eq_refl)). lia. }
        match goal with |- 0 <= lastMatch ?h ?n < _ => destruct (lastMatch_in h n) as [Hin | ->]; [apply Kc, Hin | lia] end.
Qed.

(** ** matchInnersToPolygons on single-ring polygons made of the outers *)
Lemma concat_singletons (outs : list ring) : concat (map (fun o : ring => [o]) outs) = outs.
Proof. induction outs as [| o outs IHo]; [reflexivity |]. cbn [map concat app]. rewrite IHo. reflexivity. Qed.

Lemma ext_singletons matched (outs : list ring) : forall polys',
  Forall2 (ext matched) (map (fun o : ring => [o]) outs) polys' ->
  Forall2 (fun o p => exists a, p = o :: a /\ incl a matched) outs polys'.
Proof.
  induction outs as [| o outs IHo]; intros polys' F; inversion F as [| ? p ? l' [a [E I]] F']; subst; constructor.
  - exists a. split; [reflexivity | exact I].
  - apply IHo. exact F'.
Qed.

Theorem match_spec (outs ins : list ring) ps :
  matchInnersToPolygons (map (fun o => [o]) outs) ins = Ok ps ->
  exists polys' matched tu,
    ps = polys' ++ map (fun t => [rev t]) tu /\
    Forall2 (fun o p => exists a, p = o :: a /\ incl a matched) outs polys' /\
    Permutation (concat polys') (outs ++ matched) /\
    Permutation ins (matched ++ tu).
Proof.
  unfold matchInnersToPolygons. intro H.
  pose proof (concat_singletons outs) as Hc. pose proof (fun m => ext_singletons m outs) as HF.
  destruct ins as [| i ins].
  - inversion H; subst. exists (map (fun o : ring => [o]) outs), [], [].
    split; [cbn [map]; rewrite app_nil_r; reflexivity |]. split; [apply HF, Forall2_ext_refl |].
    split; [| apply perm_nil]. unfold Base.ring in *. rewrite Hc, app_nil_r. apply Permutation_refl.
  - bind_inv H cancelled Hcb. bind_inv H r Hr. destruct r as [polys' turned']. inversion H; subst. cbn [fst snd].
    destruct (matchInnersLoop_spec _ _ _ _ _ _ _ _ Hr) as [matched [tu [F [P [Et Pi]]]]].
    exists polys', matched, tu. cbn [app] in Et. subst turned'. rewrite map_map. unfold Base.ring in *. rewrite Hc in P.
    repeat split; try assumption. apply HF, F.
Qed.
