(** * a valid polygon (Geom/Polygon.v) has its edges separated: any two edges are the same edge or touch at most at
      a common end point — the hypothesis of the C01 theorems on routed steps *)
From Coq Require Import ZArith QArith Lqa Lia List Bool Permutation.
From Texel Require Import Prelude.Base Index.Model Index.ProofsLine Snap.Model Snap.ProofsBasics Geom.Cross Geom.Touch
  Geom.Polygon Snap.ProofsJoinC04b Snap.ProofsJoinC01c Snap.ProofsJoinC01d.
Import ListNotations.

Lemma no_share_touch_only a b c d : ~ SegsShare a b c d -> touch_only_at_ends a b c d.
Proof. intros N x y X0 X1 Y0 Y1 Ex Ey. exfalso. apply N. exists x, y. auto 10. Qed.

Lemma only_vertex_touch_only a b c : OnlyShareVertex a b c -> touch_only_at_ends a b b c.
Proof.
  intros H x y X0 X1 Y0 Y1 Ex Ey. destruct (H x y X0 X1 Y0 Y1 Ex Ey) as [E1 E2]. split; [right; exact E1 | left; exact E2].
Qed.

(** ** positions in the edge list of a ring *)
Lemma combine_seq_In {A} (l : list A) : forall k i x,
  In (i, x) (combine (seq k (length l)) l) <-> (k <= i)%nat /\ nth_error l (i - k) = Some x.
Proof.
  induction l as [| a l IH]; intros k i x; cbn [length seq combine].
  - split; [intros [] | intros [_ H]; destruct (i - k)%nat; discriminate].
  - cbn [In]. rewrite IH. split.
    + intros [E | [Hk Hn]].
      * inversion E; subst. rewrite Nat.sub_diag. split; [lia | reflexivity].
      * split; [lia |]. replace (i - k)%nat with (S (i - S k)) by lia. exact Hn.
    + intros [Hk Hn]. destruct (Nat.eq_dec i k) as [-> | N].
      * left. rewrite Nat.sub_diag in Hn. inversion Hn. reflexivity.
      * right. split; [lia |]. replace (i - k)%nat with (S (i - S k)) in Hn by lia. exact Hn.
Qed.

Lemma indexed_In {A} (l : list A) i x : In (i, x) (Polygon.indexed l) <-> nth_error l i = Some x.
Proof. unfold Polygon.indexed. rewrite combine_seq_In, Nat.sub_0_r. split; [tauto | intro H; split; [lia | exact H]]. Qed.

Lemma nonadj_In (es : list edge) i j e f : nth_error es i = Some e -> nth_error es j = Some f ->
  (i + 1 < j)%nat -> ~ (i = 0%nat /\ j = (length es - 1)%nat) -> In (e, f) (nonadj_pairs es).
Proof.
  intros Hi Hj Hlt Hn. unfold nonadj_pairs. cbn zeta. apply in_flat_map. exists (i, e). split; [apply indexed_In, Hi |].
  apply in_flat_map. exists (j, f). split; [apply indexed_In, Hj |]. cbn [fst snd].
  replace (i + 1 <? j)%nat with true by (symmetry; apply Nat.ltb_lt; exact Hlt).
  destruct ((i =? 0)%nat && (j =? length es - 1)%nat) eqn:E.
  - exfalso. apply andb_prop in E. destruct E as [E1 E2]. apply Nat.eqb_eq in E1, E2. auto.
  - left. reflexivity.
Qed.

Lemma pairsC_succ {A} (l : list A) : forall first i x y, nth_error l i = Some x -> nth_error l (S i) = Some y ->
  In (x, y) (pairsC first l).
Proof.
  induction l as [| a l IH]; intros first i x y Hx Hy; [destruct i; discriminate |].
  destruct l as [| b l]; [destruct i; cbn in Hy; [discriminate | destruct i; discriminate] |].
  cbn [pairsC]. destruct i as [| i]; cbn [nth_error] in Hx, Hy.
  - inversion Hx; inversion Hy; subst. left. reflexivity.
  - right. apply (IH first i x y Hx Hy).
Qed.

Lemma pairsC_last {A} (l : list A) : forall first x, l <> [] -> nth_error l (length l - 1) = Some x -> In (x, first) (pairsC first l).
Proof.
  induction l as [| a l IH]; intros first x Hne Hx; [congruence |].
  destruct l as [| b l].
  - cbn in Hx. inversion Hx. left. reflexivity.
  - cbn [pairsC]. right. apply IH; [discriminate |]. cbn [length] in *. replace (S (S (length l)) - 1)%nat with (S (length l)) in Hx by lia.
    cbn [nth_error] in Hx. replace (S (length l) - 1)%nat with (length l) by lia. exact Hx.
Qed.

(** ** one simple ring *)
Lemma simple_ring_separated (r : ring) e f : simple_ring r -> In e (ring_edges r) -> In f (ring_edges r) ->
  e = f \/ touch_only_at_ends (fst e) (snd e) (fst f) (snd f).
Proof.
  intros [Hl [_ [Fn Fa]]] He Hf. set (es := ring_edges r) in *.
  apply In_nth_error in He. apply In_nth_error in Hf. destruct He as [i Hi]. destruct Hf as [j Hj].
  rewrite Forall_forall in Fn, Fa.
  assert (Hes : es <> []) by (intro E; rewrite E in Hi; destruct i; discriminate).
  assert (Hbi : (i < length es)%nat) by (apply nth_error_Some; congruence).
  assert (Hbj : (j < length es)%nat) by (apply nth_error_Some; congruence).
  assert (Adj : forall x y, In (x, y) (adj_pairs es) -> touch_only_at_ends (fst x) (snd x) (fst y) (snd y)).
  { intros x y Hxy. destruct (Fa _ Hxy) as [E O]. cbn [fst snd] in E, O. rewrite <- E. apply only_vertex_touch_only, O. }
  assert (Non : forall i j x y, nth_error es i = Some x -> nth_error es j = Some y -> (i + 1 < j)%nat ->
                  ~ (i = 0%nat /\ j = (length es - 1)%nat) -> touch_only_at_ends (fst x) (snd x) (fst y) (snd y)).
  { intros i0 j0 x y Hx Hy Hlt Hn. apply no_share_touch_only. apply (Fn (x, y) (nonadj_In es i0 j0 x y Hx Hy Hlt Hn)). }
  assert (Hadj0 : forall x y, nth_error es 0 = Some x -> nth_error es (length es - 1) = Some y -> In (y, x) (adj_pairs es)).
  { intros x y Hx Hy. unfold adj_pairs. destruct es as [| e0 t] eqn:Ees; [congruence |]. cbn [nth_error] in Hx. inversion Hx; subst x.
    apply pairsC_last; [discriminate | exact Hy]. }
  assert (Hadj1 : forall k x y, nth_error es k = Some x -> nth_error es (S k) = Some y -> In (x, y) (adj_pairs es)).
  { intros k x y Hx Hy. unfold adj_pairs. destruct es as [| e0 t] eqn:Ees; [congruence |]. apply (pairsC_succ _ e0 k x y Hx Hy). }
  destruct (lt_eq_lt_dec i j) as [[Hlt | Heq] | Hgt].
  - right. destruct (Nat.eq_dec (S i) j) as [E | N1].
    + subst j. apply Adj, (Hadj1 i e f Hi Hj).
    + destruct (Nat.eq_dec i 0) as [E0 | N0]; [destruct (Nat.eq_dec j (length es - 1)) as [E1 | N2] |].
      * subst i j. apply touch_only_sym, Adj, (Hadj0 e f Hi Hj).
      * apply (Non i j e f Hi Hj); lia.
      * apply (Non i j e f Hi Hj); lia.
  - left. subst j. congruence.
  - right. apply touch_only_sym. destruct (Nat.eq_dec (S j) i) as [E | N1].
    + subst i. apply Adj, (Hadj1 j f e Hj Hi).
    + destruct (Nat.eq_dec j 0) as [E0 | N0]; [destruct (Nat.eq_dec i (length es - 1)) as [E1 | N2] |].
      * subst i j. apply touch_only_sym, Adj, (Hadj0 f e Hj Hi).
      * apply (Non j i f e Hj Hi); lia.
      * apply (Non j i f e Hj Hi); lia.
Qed.

Lemma rings_disjoint_touch r1 r2 e f : rings_disjoint r1 r2 -> In e (ring_edges r1) -> In f (ring_edges r2) ->
  touch_only_at_ends (fst e) (snd e) (fst f) (snd f).
Proof.
  intros H He Hf. unfold rings_disjoint in H. rewrite Forall_forall in H. apply no_share_touch_only.
  apply (H (e, f)). apply in_prod; assumption.
Qed.

Lemma dedges_ring_edges3 (r : ring) : (3 <= length r)%nat -> dedges r = ring_edges r.
Proof.
  destruct r as [| a [| b [| c t]]]; cbn [length]; intro H; try lia. unfold dedges. cbn [ring_edges]. rewrite pairsC_pairs. reflexivity.
Qed.

Theorem valid_polygon_edges_separated P : valid_polygon P -> edges_separated P.
Proof.
  intro V. destruct P as [| shell holes]; [destruct V |]. destruct V as [Vs [Vh [Vin Vap]]].
  assert (Simple : forall r, In r (shell :: holes) -> simple_ring r).
  { intros r [<- | Hr]; [exact Vs |]. rewrite Forall_forall in Vh. apply Vh, Hr. }
  assert (Disj : forall r1 r2, In r1 (shell :: holes) -> In r2 (shell :: holes) -> r1 <> r2 ->
                   rings_disjoint r1 r2 \/ rings_disjoint r2 r1).
  { rewrite Forall_forall in Vin. intros r1 r2 [<- | H1] [<- | H2] N; try congruence.
    - right. apply (Vin r2 H2).
    - left. apply (Vin r1 H1).
    - destruct (ForallOrdPairs_In Vap r1 r2 H1 H2) as [E | [[D _] | [D _]]]; [congruence | auto | auto]. }
  intros r1 r2 a b c d H1 H2 Hab Hcd.
  pose proof (Simple r1 H1) as S1. pose proof (Simple r2 H2) as S2.
  rewrite (dedges_ring_edges3 r1) in Hab by (destruct S1; assumption).
  rewrite (dedges_ring_edges3 r2) in Hcd by (destruct S2; assumption).
  destruct (list_eq_dec pt_dec r1 r2) as [E | N].
  - subst r2. destruct (simple_ring_separated r1 (a, b) (c, d) S1 Hab Hcd) as [E | T]; [left; exact E | right; right; exact T].
  - right; right. destruct (Disj r1 r2 H1 H2 N) as [D | D].
    + exact (rings_disjoint_touch r1 r2 (a, b) (c, d) D Hab Hcd).
    + apply touch_only_sym. exact (rings_disjoint_touch r2 r1 (c, d) (a, b) D Hcd Hab).
Qed.

Print Assumptions valid_polygon_edges_separated.
