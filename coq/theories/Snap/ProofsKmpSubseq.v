(** * kmpDeduplicate only deletes: its result is a subsequence of its argument, and it is the
      identity on a ring in which the loop never detects a step back.  (C05/C18 interface lemmas
      [kmp_subseq], [kmp_id_no_step_back]; RemoveSequences: [removeSequences_subseq],
      [removeSequences_ok_iff].) *)
From Coq Require Import ZArith List Bool Lia.
From Texel Require Import Prelude.Base Index.Model Snap.Model Snap.ProofsKmpSearch.
Import ListNotations.
Open Scope Z_scope.

(** ** subsequences *)
Inductive subseq {A} : list A -> list A -> Prop :=
| sub_nil : subseq [] []
| sub_skip x l l' : subseq l l' -> subseq l (x :: l')
| sub_keep x l l' : subseq l l' -> subseq (x :: l) (x :: l').

Lemma subseq_refl {A} (l : list A) : subseq l l.
Proof. induction l as [| a l IH]; [constructor | apply sub_keep; exact IH]. Qed.

Lemma subseq_nil_l {A} (l : list A) : subseq [] l.
Proof. induction l as [| a l IH]; [constructor | apply sub_skip; exact IH]. Qed.

Lemma subseq_app {A} (a b c d : list A) : subseq a b -> subseq c d -> subseq (a ++ c) (b ++ d).
Proof.
  intros Hab Hcd. induction Hab as [| x l l' H IH | x l l' H IH]; cbn [app].
  - exact Hcd.
  - apply sub_skip. exact IH.
  - apply sub_keep. exact IH.
Qed.

Lemma subseq_firstn_le {A} (l : list A) : forall n m, (n <= m)%nat -> subseq (firstn n l) (firstn m l).
Proof.
  induction l as [| a l IH]; intros n m Hnm.
  - rewrite !firstn_nil. constructor.
  - destruct n as [| n]; [apply subseq_nil_l |]. destruct m as [| m]; [lia |].
    cbn [firstn]. apply sub_keep. apply IH. lia.
Qed.

Lemma subseq_length {A} (l l' : list A) : subseq l l' -> (length l <= length l')%nat.
Proof. intro H. induction H as [| x l l' H IH | x l l' H IH]; cbn [length]; lia. Qed.

Lemma subseq_In {A} (l l' : list A) x : subseq l l' -> In x l -> In x l'.
Proof.
  intro H. induction H as [| y l l' H IH | y l l' H IH]; intro Hx.
  - exact Hx.
  - right. apply IH. exact Hx.
  - destruct Hx as [-> | Hx]; [left; reflexivity | right; apply IH; exact Hx].
Qed.

Lemma firstn_add_skipn {A} (l : list A) : forall k d, firstn (k + d) l = firstn k l ++ firstn d (skipn k l).
Proof.
  induction l as [| a l IH]; intros k d.
  - rewrite skipn_nil, !firstn_nil. reflexivity.
  - destruct k as [| k]; [reflexivity |]. cbn [Nat.add firstn skipn app]. rewrite IH. reflexivity.
Qed.

(** ** RemoveSequences *)

(** exactly what the slice expressions of RemoveSequences demand, in map order: every range must
    start at or after the end of the previous one ([keepFrom <= a], first [keepFrom] = 0), start
    inside the slice, and the last end must not exceed the length.  Nothing is demanded of a range's
    own end except through the next range (or the final [s[keepFrom:]]). *)
Fixpoint ranges_ok (n : Z) (m : seqmap) (keepFrom : Z) : Prop :=
  match m with
  | [] => 0 <= keepFrom <= n
  | (_, (a, b)) :: r => 0 <= keepFrom <= a /\ a <= n /\ ranges_ok n r b
  end.

Lemma removeSequencesLoop_ok_iff s : forall m keepFrom acc,
  (exists t, removeSequencesLoop s m keepFrom acc = Ok t) <-> ranges_ok (zlen s) m keepFrom.
Proof.
  induction m as [| [key [a b]] m IH]; intros keepFrom acc; cbn [removeSequencesLoop ranges_ok].
  - split.
    + intros [t E]. destruct (slice s keepFrom (zlen s)) as [p |] eqn:Es; [| discriminate].
      apply slice_Ok_inv in Es. lia.
    + intros H. rewrite slice_ok by lia. cbn [bind]. eauto.
  - split.
    + intros [t E]. destruct (slice s keepFrom a) as [p |] eqn:Es; [| discriminate].
      cbn [bind] in E. apply slice_Ok_inv in Es. split; [lia |]. split; [lia |].
      apply (IH b (acc ++ p)). eauto.
    + intros (H1 & H2 & H3). rewrite slice_ok by lia. cbn [bind]. apply IH. exact H3.
Qed.

Theorem removeSequences_ok_iff s m :
  (exists t, removeSequences s m = Ok t) <-> ranges_ok (zlen s) m 0.
Proof. apply removeSequencesLoop_ok_iff. Qed.

(** every recorded range ends at or after its start *)
Definition rng_ok (m : seqmap) : Prop := Forall (fun e => fst (snd e) <= snd (snd e)) m.

Lemma removeSequencesLoop_subseq s : forall m keepFrom acc t,
  rng_ok m -> subseq acc (firstn (Z.to_nat keepFrom) s) ->
  removeSequencesLoop s m keepFrom acc = Ok t -> subseq t s.
Proof.
  induction m as [| [key [a b]] m IH]; intros keepFrom acc t Hr Hacc E; cbn [removeSequencesLoop] in E.
  - destruct (slice s keepFrom (zlen s)) as [p |] eqn:Es; [| discriminate]. cbn [bind] in E.
    inversion E. subst t. apply slice_Ok_inv in Es. destruct Es as (H1 & H2 & ->).
    rewrite firstn_all2 by (rewrite skipn_length; unfold zlen; lia).
    pose proof (subseq_app _ _ _ _ Hacc (subseq_refl (skipn (Z.to_nat keepFrom) s))) as Hs.
    rewrite firstn_skipn in Hs. exact Hs.
  - destruct (slice s keepFrom a) as [p |] eqn:Es; [| discriminate]. cbn [bind] in E.
    apply slice_Ok_inv in Es. destruct Es as (H1 & H2 & ->).
    inversion Hr as [| e m' Hab Hm]. subst. cbn [fst snd] in Hab.
    apply (IH b (acc ++ firstn (Z.to_nat (a - keepFrom)) (skipn (Z.to_nat keepFrom) s)) t Hm); [| exact E].
    replace (Z.to_nat b) with (Z.to_nat keepFrom + Z.to_nat (b - keepFrom))%nat by lia.
    rewrite firstn_add_skipn. apply subseq_app; [exact Hacc |].
    apply subseq_firstn_le. lia.
Qed.

(** RemoveSequences returns a subsequence as soon as no range ends before it starts (the slice
    expressions then force the pieces to be taken at non-decreasing offsets) *)
Theorem removeSequences_subseq s m t : rng_ok m -> removeSequences s m = Ok t -> subseq t s.
Proof.
  intros Hr E. apply (removeSequencesLoop_subseq s m 0 [] t Hr); [| exact E].
  apply subseq_nil_l.
Qed.

(** ... and NOT for an arbitrary map: a range that ends before it starts makes RemoveSequences
    emit a prefix twice, without any panic. *)
Example removeSequences_subseq_refuted :
  let s := [(0, 0); (1, 0); (2, 0)] in
  removeSequences s [([], (2, 0))] = Ok [(0, 0); (1, 0); (0, 0); (1, 0); (2, 0)] /\
  ~ subseq [(0, 0); (1, 0); (0, 0); (1, 0); (2, 0)] s.
Proof.
  split; [reflexivity |]. intro H. apply subseq_length in H. cbn [length] in H. lia.
Qed.

(** ** the sorted map keeps the invariant *)
Lemma seq_place_rng m k v : rng_ok m -> fst v <= snd v -> rng_ok (seq_place m k v).
Proof.
  intros Hm Hv. induction m as [| [k' v'] m IH]; cbn [seq_place].
  - constructor; [exact Hv | constructor].
  - inversion Hm as [| e m' He Hm']. subst. destruct (fst v <? fst v').
    + constructor; [exact Hv | exact Hm].
    + constructor; [exact He | apply IH; exact Hm'].
Qed.

Lemma seq_insert_rng m k v : rng_ok m -> fst v <= snd v -> rng_ok (seq_insert m k v).
Proof.
  intros Hm Hv. unfold seq_insert. destruct (seq_has m k); [exact Hm | apply seq_place_rng; assumption].
Qed.

(** ** helpers of the de-duplication loop *)
Lemma reverseScan_S f r visited i j acc :
  reverseScan (S f) r visited i j acc =
  if j <=? zlen visited then
    let nextI := i + (j - 2) in
    if nextI <=? zlen r - 1 then
      do v <- idx visited (zlen visited - j);
      do w <- idx r nextI;
      if pt_eqb v w then reverseScan f r visited i (j + 1) (acc ++ [v]) else Ok acc
    else Ok acc
  else Ok acc.
Proof. reflexivity. Qed.

Lemma reverseScan_len : forall fuel r visited i j acc rs,
  reverseScan fuel r visited i j acc = Ok rs -> zlen acc <= zlen rs.
Proof.
  induction fuel as [| f IH]; intros r visited i j acc rs E.
  - cbn [reverseScan] in E. inversion E. lia.
  - rewrite reverseScan_S in E. cbv zeta in E.
    destruct (j <=? zlen visited); [| inversion E; lia].
    destruct (i + (j - 2) <=? zlen r - 1); [| inversion E; lia].
    destruct (idx visited (zlen visited - j)) as [v |]; [| discriminate]. cbn [bind] in E.
    destruct (idx r (i + (j - 2))) as [w |]; [| discriminate]. cbn [bind] in E.
    destruct (pt_eqb v w); [| inversion E; lia].
    apply IH in E. rewrite zlen_app, zlen_cons, zlen_nil in E. lia.
Qed.

Lemma corpusLoop_S f r segment start e k :
  corpusLoop (S f) r segment start e k =
  do corpus <- slice r start (Z.min e (zlen r));
  do fresh <- slice corpus k (zlen corpus);
  let stop := existsb (fun v => negb (mem_pt v segment)) fresh || (zlen r <? e) in
  if stop then Ok corpus
  else corpusLoop f r segment start (e + 2 * zlen segment) (zlen corpus).
Proof. reflexivity. Qed.

(** the corpus is a slice of the ring that starts at [start] and contains at least the segment *)
Lemma corpusLoop_len : forall fuel r segment start e k corpus,
  corpusLoop fuel r segment start e k = Ok corpus ->
  forall n, 0 <= n -> start + n <= e -> start + n <= zlen r -> n <= zlen corpus.
Proof.
  induction fuel as [| f IH]; intros r segment start e k corpus E n Hn He Hr; [discriminate |].
  rewrite corpusLoop_S in E.
  destruct (slice r start (Z.min e (zlen r))) as [c |] eqn:Es; [| discriminate]. cbn [bind] in E.
  destruct (slice c k (zlen c)) as [fresh |]; [| discriminate]. cbn [bind] in E. cbv zeta in E.
  destruct (existsb (fun v => negb (mem_pt v segment)) fresh || (zlen r <? e)).
  - inversion E. subst c. apply slice_Ok_inv in Es. destruct Es as (H1 & H2 & ->).
    rewrite zlen_slice by lia. lia.
  - apply (IH _ _ _ _ _ _ E n Hn); [| exact Hr]. pose proof (zlen_nonneg segment). lia.
Qed.

Lemma last_opt_In {A} (l : list A) z : last_opt l = Some z -> In z l.
Proof.
  unfold last_opt. intro H. destruct (rev l) as [| a t] eqn:E; [discriminate |].
  inversion H. subst a. apply in_rev. rewrite E. left. reflexivity.
Qed.

Lemma last_opt_cons {A} (a b : A) (l : list A) : last_opt (a :: b :: l) = last_opt (b :: l).
Proof.
  unfold last_opt. change (rev (a :: b :: l)) with (rev (b :: l) ++ [a]).
  destruct (rev (b :: l)) as [| x t] eqn:E; [| reflexivity].
  apply (f_equal (@length A)) in E. rewrite rev_length in E. discriminate.
Qed.

Lemma lastZ_In l z : lastZ l = Ok z -> In z l.
Proof.
  unfold lastZ. destruct (last_opt l) as [y |] eqn:E; [| discriminate].
  intro H. inversion H. subst y. apply last_opt_In. exact E.
Qed.

Lemma lastZ_ge0 lo L ms z : 0 <= L -> chain_from lo L ms -> lastZ ms = Ok z -> lo <= z.
Proof.
  intros HL Hch Hz. apply lastZ_In in Hz.
  pose proof (chain_from_lower lo L ms HL Hch) as Hlo. rewrite Forall_forall in Hlo. apply Hlo. exact Hz.
Qed.

(** with at least two matches the last one starts at or after the end of the first *)
Lemma lastZ_ge2 lo L ms z : 0 <= L -> chain_from lo L ms -> 1 < zlen ms -> lastZ ms = Ok z -> lo + L <= z.
Proof.
  intros HL Hch Hlen Hz. destruct ms as [| m1 [| m2 ms]].
  - rewrite zlen_nil in Hlen. lia.
  - rewrite zlen_cons, zlen_nil in Hlen. lia.
  - unfold lastZ in Hz. rewrite last_opt_cons in Hz. cbn [chain_from] in Hch. destruct Hch as [H1 H2].
    assert (Hz' : lastZ (m2 :: ms) = Ok z) by exact Hz.
    pose proof (lastZ_ge0 (m1 + L) L (m2 :: ms) z HL H2 Hz'). lia.
Qed.

Lemma kmpDedupLoop_S f r seqs visited i :
  kmpDedupLoop (S f) r seqs visited i =
  if i <? zlen r then
    do vertex <- idx r i;
    let lv := zlen visited in
    let stepBack := match (if lv <=? 1 then None else nth_error visited (Z.to_nat (lv - 2))) with
                    | Some p => pt_eqb p vertex | None => false end in
    if negb stepBack then kmpDedupLoop f r seqs (visited ++ [vertex]) (i + 1)
    else
      do v1 <- idx visited (lv - 1);
      do v2 <- idx visited (lv - 2);
      do reverseSegment <- reverseScan (length visited) r visited i 3 [v1; v2];
      let segment := rev reverseSegment in
      let L := zlen segment in
      let start := i - L in
      do corpus <- corpusLoop (length r + 2) r segment start (start + 3 * L) 0;
      do matches <- kmpSearchAll corpus segment;
      do reverseMatches <- kmpSearchAll corpus reverseSegment;
      let nm := zlen matches in
      let nr := zlen reverseMatches in
      if (1 <? nm) && (nm - nr =? 1) then
        do lm <- lastZ matches;
        let sequenceEnd := start + lm + L in
        kmpDedupLoop f r (seq_insert seqs segment (start + L, sequenceEnd)) [] sequenceEnd
      else if (1 <? nm) && (nm =? nr) then
        do lm <- lastZ matches;
        let sequenceEnd := start + lm + L in
        kmpDedupLoop f r (seq_insert seqs segment (start + 2 * L - 1, sequenceEnd)) [] sequenceEnd
      else if (nm =? 1) && (nr =? 1) then
        kmpDedupLoop f r seqs [] (start + 2 * L - 1)
      else
        do se <- (if nm <? nr then
                    do lr <- lastZ reverseMatches;
                    Ok (start + 2 * (L - 1) * nm, start + lr + L)
                  else if (1 <? nm) && (1 <? nm - nr) then
                    do lm <- lastZ matches;
                    Ok (start + 2 * (L - 1) * nr, start + lm + L)
                  else Ok (0, 0));
        let '(sequenceEnd, endPointIdx) := se in
        let i' := endPointIdx - 1 in
        if i' <? 0 then Err IndexOutOfRange
        else kmpDedupLoop f r (seq_insert seqs segment (start, sequenceEnd)) [] i'
  else Ok seqs.
Proof. reflexivity. Qed.

(** one iteration: either the loop is over, or it continues on the same map, or it continues on
    the map extended by a range that does not end before it starts *)
Lemma kmpDedup_step f r seqs visited i out :
  kmpDedupLoop (S f) r seqs visited i = Ok out ->
  out = seqs \/
  (exists vis' i', kmpDedupLoop f r seqs vis' i' = Ok out) \/
  (exists seg a b i', a <= b /\ kmpDedupLoop f r (seq_insert seqs seg (a, b)) [] i' = Ok out).
Proof.
  rewrite kmpDedupLoop_S. destruct (Z.ltb_spec i (zlen r)) as [Hi | Hi];
    [| intro H; inversion H; left; reflexivity].
  destruct (idx r i) as [vertex |] eqn:Ev; [| discriminate]. cbn [bind]. cbv zeta.
  match goal with |- (if negb ?b then _ else _) = _ -> _ => destruct b end; cbn [negb];
    [| intro H; right; left; eauto].
  destruct (idx visited (zlen visited - 1)) as [v1 |]; [| discriminate]. cbn [bind].
  destruct (idx visited (zlen visited - 2)) as [v2 |]; [| discriminate]. cbn [bind].
  destruct (reverseScan (length visited) r visited i 3 [v1; v2]) as [rs |] eqn:Ers; [| discriminate].
  cbn [bind]. apply reverseScan_len in Ers.
  assert (HL : 2 <= zlen (rev rs)).
  { unfold zlen in *. rewrite rev_length. cbn [length] in Ers. lia. }
  set (L := zlen (rev rs)) in *. set (start := i - L).
  destruct (corpusLoop (length r + 2) r (rev rs) start (start + 3 * L) 0) as [corpus |] eqn:Ec;
    [| discriminate]. cbn [bind].
  assert (Hc : L <= zlen corpus).
  { apply (corpusLoop_len _ _ _ _ _ _ _ Ec L); unfold start; lia. }
  assert (Hne : rev rs <> []).
  { intro E0. unfold L in HL. rewrite E0, zlen_nil in HL. lia. }
  destruct (kmpSearchAll_ok corpus (rev rs) Hne) as (ms & Ems & Hch & _).
  { unfold L, zlen in Hc. lia. }
  rewrite Ems. cbn [bind]. fold L in Hch.
  destruct (kmpSearchAll corpus rs) as [rms |]; [| discriminate]. cbn [bind].
  pose proof (zlen_nonneg ms) as Hnm. pose proof (zlen_nonneg rms) as Hnr.
  destruct ((1 <? zlen ms) && (zlen ms - zlen rms =? 1)) eqn:B1.
  { destruct (lastZ ms) as [lm |] eqn:Elm; [| discriminate]. cbn [bind]. intro H.
    right; right. exists (rev rs), (start + L), (start + lm + L), (start + lm + L).
    split; [| exact H]. pose proof (lastZ_ge0 0 L ms lm ltac:(lia) Hch Elm). lia. }
  destruct ((1 <? zlen ms) && (zlen ms =? zlen rms)) eqn:B2.
  { destruct (lastZ ms) as [lm |] eqn:Elm; [| discriminate]. cbn [bind]. intro H.
    right; right. exists (rev rs), (start + 2 * L - 1), (start + lm + L), (start + lm + L).
    split; [| exact H]. apply andb_true_iff in B2. destruct B2 as [B2 _]. apply Z.ltb_lt in B2.
    pose proof (lastZ_ge2 0 L ms lm ltac:(lia) Hch B2 Elm). lia. }
  destruct ((zlen ms =? 1) && (zlen rms =? 1)) eqn:B3.
  { intro H. right; left. eauto. }
  destruct (zlen ms <? zlen rms) eqn:B4.
  { destruct (lastZ rms) as [lr |]; [| discriminate]. cbn [bind].
    destruct (start + lr + L - 1 <? 0); [discriminate |]. intro H.
    right; right. exists (rev rs), start, (start + 2 * (L - 1) * zlen ms), (start + lr + L - 1).
    split; [| exact H]. assert (0 <= 2 * (L - 1) * zlen ms) by (apply Z.mul_nonneg_nonneg; lia). lia. }
  destruct ((1 <? zlen ms) && (1 <? zlen ms - zlen rms)) eqn:B5.
  { destruct (lastZ ms) as [lm |]; [| discriminate]. cbn [bind].
    destruct (start + lm + L - 1 <? 0); [discriminate |]. intro H.
    right; right. exists (rev rs), start, (start + 2 * (L - 1) * zlen rms), (start + lm + L - 1).
    split; [| exact H]. assert (0 <= 2 * (L - 1) * zlen rms) by (apply Z.mul_nonneg_nonneg; lia). lia. }
  cbn [bind]. change (0 - 1 <? 0) with true. cbv iota. discriminate.
Qed.

Lemma kmpDedupLoop_rng : forall fuel r seqs visited i out,
  rng_ok seqs -> kmpDedupLoop fuel r seqs visited i = Ok out -> rng_ok out.
Proof.
  induction fuel as [| f IH]; intros r seqs visited i out Hs E; [discriminate |].
  apply kmpDedup_step in E. destruct E as [-> | [(vis' & i' & E) | (seg & a & b & i' & Hab & E)]].
  - exact Hs.
  - apply (IH _ _ _ _ _ Hs E).
  - apply (IH _ _ _ _ _ (seq_insert_rng seqs seg (a, b) Hs Hab) E).
Qed.

(** ** interface lemma 1: spike removal only deletes vertices, keeping the order *)
Theorem kmp_subseq : forall r r', kmpDeduplicate r = Ok r' -> subseq r' r.
Proof.
  intros r r' E. unfold kmpDeduplicate in E.
  destruct (kmpDedupLoop (kmpFuel r) r [] [] 0) as [seqs |] eqn:El; [| discriminate]. cbn [bind] in E.
  apply (removeSequences_subseq r seqs r'); [| exact E].
  apply (kmpDedupLoop_rng _ _ _ _ _ _ (Forall_nil _) El).
Qed.

(** ** interface lemma 2: no step back, nothing removed *)

(** the loop never sees [ring[i] = ring[i+2]] *)
Definition no_step_back (r : list pt) : Prop :=
  forall i p q, nth_error r i = Some p -> nth_error r (S (S i)) = Some q -> p <> q.

Lemma nth_error_firstn_lt {A} (l : list A) : forall n k, (k < n)%nat -> nth_error (firstn n l) k = nth_error l k.
Proof.
  induction l as [| a l IH]; intros n k H.
  - rewrite firstn_nil. reflexivity.
  - destruct n as [| n]; [lia |]. destruct k as [| k]; [reflexivity |].
    cbn [firstn nth_error]. apply IH. lia.
Qed.

Lemma firstn_S_snoc {A} (l : list A) : forall n v, nth_error l n = Some v -> firstn (S n) l = firstn n l ++ [v].
Proof.
  induction l as [| a l IH]; intros n v H.
  - destruct n; discriminate.
  - destruct n as [| n].
    + cbn [nth_error] in H. inversion H. reflexivity.
    + cbn [nth_error] in H. change (firstn (S (S n)) (a :: l)) with (a :: firstn (S n) l).
      rewrite (IH n v H). reflexivity.
Qed.

Lemma kmpDedupLoop_no_step_back r : no_step_back r -> forall fuel i,
  (i <= length r)%nat -> (length r - i < fuel)%nat ->
  kmpDedupLoop fuel r [] (firstn i r) (Z.of_nat i) = Ok [].
Proof.
  intros Hns. induction fuel as [| f IH]; intros i Hi Hfuel; [lia |].
  rewrite kmpDedupLoop_S. destruct (Z.ltb_spec (Z.of_nat i) (zlen r)) as [Hlt | Hge]; [| reflexivity].
  unfold zlen in Hlt. assert (Hi' : (i < length r)%nat) by lia.
  destruct (nth_error r i) as [vertex |] eqn:Ev; [| apply nth_error_None in Ev; lia].
  assert (Eidx : idx r (Z.of_nat i) = Ok vertex).
  { apply idx_nth_error; [lia |]. rewrite Nat2Z.id. exact Ev. }
  rewrite Eidx.
  cbn [bind]. cbv zeta.
  assert (Hlv : zlen (firstn i r) = Z.of_nat i) by (unfold zlen; rewrite firstn_length; lia).
  rewrite Hlv.
  assert (Hsb : match (if Z.of_nat i <=? 1 then None else nth_error (firstn i r) (Z.to_nat (Z.of_nat i - 2))) with
                | Some p => pt_eqb p vertex | None => false end = false).
  { destruct (Z.leb_spec (Z.of_nat i) 1) as [H1 | H1]; [reflexivity |].
    rewrite nth_error_firstn_lt by lia.
    destruct (nth_error r (Z.to_nat (Z.of_nat i - 2))) as [p |] eqn:Ep; [| reflexivity].
    apply pt_eqb_neq. apply (Hns (Z.to_nat (Z.of_nat i - 2)) p vertex Ep).
    replace (S (S (Z.to_nat (Z.of_nat i - 2)))) with i by lia. exact Ev. }
  rewrite Hsb. cbn [negb]. rewrite <- (firstn_S_snoc r i vertex Ev).
  replace (Z.of_nat i + 1) with (Z.of_nat (S i)) by lia. apply IH; lia.
Qed.

Theorem kmp_id_no_step_back : forall r, no_step_back r -> kmpDeduplicate r = Ok r.
Proof.
  intros r Hns. unfold kmpDeduplicate.
  pose proof (kmpDedupLoop_no_step_back r Hns (kmpFuel r) 0) as E. cbn [firstn Z.of_nat] in E.
  rewrite E by (unfold kmpFuel; lia). cbn [bind]. unfold removeSequences. cbn [removeSequencesLoop].
  pose proof (zlen_nonneg r). rewrite slice_ok by lia. cbn [bind app].
  change (Z.to_nat 0) with 0%nat. cbn [skipn].
  rewrite firstn_all2; [reflexivity | unfold zlen; lia].
Qed.

Lemma NoDup_no_step_back r : NoDup r -> no_step_back r.
Proof.
  intros Hnd i p q Hp Hq Heq. subst q.
  rewrite NoDup_nth_error in Hnd. specialize (Hnd i (S (S i))).
  assert (i < length r)%nat by (apply nth_error_Some; congruence).
  rewrite Hp, Hq in Hnd. specialize (Hnd ltac:(assumption) eq_refl). lia.
Qed.

Corollary kmp_id_NoDup : forall r, NoDup r -> kmpDeduplicate r = Ok r.
Proof. intros r H. apply kmp_id_no_step_back. apply NoDup_no_step_back. exact H. Qed.

Print Assumptions kmp_subseq.
Print Assumptions kmp_id_no_step_back.
