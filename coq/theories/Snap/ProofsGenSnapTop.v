(** * Tie G2 for the top of snap.go: the REGENERATED addPointsAndSnap (gen/SnapTopGen.v, translator/snaptop.go) is
      the interleaved model [addPointsAndSnapI] (Snap/ModelInterleaved.v), for EVERY iteration order of the Go maps;
      the regenerated verticesHitMultiple is the predicate [hit_multi] the regenerated cleanupNewRing is called with;
      the regenerated tileMatrixIDsByLevels builds its map with [Tms.Model.deepestLevel]; the regenerated SnapPolygon,
      read at the tile matrix id of every requested level, is [snapPolygonI] on the grid FromTileMatrixSet builds.

    What the generated code keeps as calls of trusted micro-models (Snap/SnapTopSupport.v), after the translator has
    checked the AST for the exact callee / import path / declared signature:
    - Go maps keyed by level = association lists ([aget] / [aset] / [afind] of ModelInterleaved), map[Level]any = the
      list of its keys ([as_keys], [adel], [mem_nat]); every range over a map iterates in the order [gord site keys],
      [gord] being a parameter ([gen_site]: one constructor per range-over-map statement / call of SnapClosestPoints,
      indexed by the key variables of the enclosing loops);
    - ix.SnapClosestPoints = [px_SnapClosestPoints] (the model's routing [snapAndHit] on every requested level, in the
      order of its own range statement), ix.GetHitMultiple = [px_GetHitMultiple], (hitMultiple, ringIdx) handed to
      cleanupNewRing = [hit_multi];
    - geomhelp.FloatPolygonsToGeomPolygonsForAllKeys, geom.Polygon.LinearRings, intgeom.Point.ToGeomPoint = identity;
      slices.Contains on the ring ids of a hit map = [mem_nat].
    - (SnapPolygon / tileMatrixIDsByLevels) a tms20.TileMatrixSet = [tmsview] (root tile width; [tvIndex]: the grid
      pointindex.FromTileMatrixSet builds, or its error, which SnapPolygon turns into a panic = [px_FromTileMatrixSet]);
      ix.InsertPolygon = [px_InsertPolygon] (the model's [insertPolygon]; a returned error is always an OutsideGridError:
      checked on the AST; errors.As on it = "not nil"; panic(err) = [Err OutsideGrid]); slices.Max = [go_slices_max];
      uint(math.Log2(float64(w))) = [Tms.Model.go_log2_uint], uint(x) = x mod 2^64, uint + = [GoTms.uint_add], the constant
      VectorTileInternalPixelResolution = the regenerated one of ConstsGen.v; log.Println = nothing;
      map[tms20.TMID][]geom.Polygon = association list ([gm_get] / [gm_set] of Prelude/GoAssoc.v).
    The calls cleanupNewVertices, cleanupNewRing, ensureCorrectWindingOrder, dedupeInnersOuters, outersToPolygons,
    matchInnersToPolygons, reverseWindingOrderIfConfigured, mapslicehelp.LastElement are calls of the REGENERATED
    functions of the other gen files, rewritten to the model's by their tie theorems (C06_source_tie_...). *)
From Coq Require Import ZArith List Bool Lia Permutation.
From Texel Require Import Prelude.Base Prelude.GoLoop Prelude.GoLib Prelude.GoAssoc Index.Model Snap.Model Snap.ModelInterleaved
  Snap.SnapTopSupport Snap.ProofsBasics Snap.ProofsInterleaved.
From Texel Require Snap.ProofsGenSmall Snap.ProofsGenCleanup Snap.ProofsGenDedupe Snap.ProofsGenMatch Snap.ProofsGenRingHelpers.
From Texel Require Tms.Model Tms.GoTms.
From Texel.Gen Require SnapSmallGen CleanupRingGen DedupeGen MatchGen RingHelpersGen.
From Texel.Gen Require Import SnapTopGen.
Import ListNotations.
Open Scope Z_scope.

(** ** a translated range loop against a monadic fold of the model *)
Section Sim.
  Context {A SG SM R : Type}.
  Variables (body : A -> SG -> res (rctl SG R)) (step : SM -> A -> res SM) (Inv : list A -> SG -> SM -> Prop).

  Definition sim_step (x : res (rctl SG R)) (y : res SM) (P : SG -> SM -> Prop) : Prop :=
    match x, y with
    | Ok (Cont t), Ok t' => P t t'
    | Err e, Err e' => e = e'
    | _, _ => False
    end.

  Definition sim_out (x : res (ctl SG R)) (y : res SM) (P : SG -> SM -> Prop) : Prop :=
    match x, y with
    | Ok (Next t), Ok t' => P t t'
    | Err e, Err e' => e = e'
    | _, _ => False
    end.

  Lemma range_foldM_sim :
    (forall a rest s s', Inv (a :: rest) s s' -> sim_step (body a s) (step s' a) (Inv rest)) ->
    forall l s s', Inv l s s' -> sim_out (range_loop body l s) (foldM step l s') (Inv []).
  Proof.
    intros H l. induction l as [| a l IH]; intros s s' HI; cbn [range_loop foldM].
    - exact HI.
    - specialize (H a l s s' HI). unfold sim_step in H.
      destruct (body a s) as [[t | t | r] | e]; destruct (step s' a) as [t' | e']; cbn [bind]; try contradiction.
      + apply IH, H.
      + exact H.
  Qed.
End Sim.

(** ** small facts *)
Lemma zlen_eqb_0 {A} (l : list A) : (zlen l =? 0) = (length l =? 0)%nat.
Proof. destruct l; reflexivity. Qed.

Lemma zlen_ltb_0 {A} (l : list A) : (0 <? zlen l) = match l with [] => false | _ => true end.
Proof. destruct l; [reflexivity |]. unfold zlen. cbn [length]. apply Z.ltb_lt. lia. Qed.

Lemma idx_app_mid {A} (pre : list A) x r : idx (pre ++ x :: r) (Z.of_nat (length pre)) = Ok x.
Proof.
  unfold idx. destruct (Z.ltb_spec (Z.of_nat (length pre)) 0) as [H | _]; [lia |].
  rewrite Nat2Z.id, nth_error_app2 by lia. rewrite Nat.sub_diag. reflexivity.
Qed.

Lemma go_enumerate_succ {A} (n : nat) (l : list A) : go_enumerate (Z.of_nat n + 1) l = go_enumerate (Z.of_nat (S n)) l.
Proof. f_equal. lia. Qed.

Lemma as_keys_NoDup levels : NoDup levels -> as_keys levels = levels.
Proof.
  unfold as_keys. intro ND.
  assert (G : forall acc, (forall L, In L levels -> ~ In L acc) ->
            fold_left (fun acc L => if mem_nat L acc then acc else acc ++ [L]) levels acc = acc ++ levels).
  { induction ND as [| a l Ha ND IH]; intros acc Hacc; cbn [fold_left].
    - symmetry. apply app_nil_r.
    - destruct (mem_nat a acc) eqn:E.
      + apply mem_nat_In in E. exfalso. exact (Hacc a (or_introl eq_refl) E).
      + rewrite IH.
        * rewrite <- app_assoc. reflexivity.
        * intros L HL HI. apply in_app_or in HI. destruct HI as [HI | [<- | []]].
          -- exact (Hacc L (or_intror HL) HI).
          -- contradiction. }
  apply (G []). intros L _ [].
Qed.

Lemma aset_keys_In {A} (m : list (nat * A)) L v x : In x (map fst (aset m L v)) <-> x = L \/ In x (map fst m).
Proof.
  induction m as [| [k w] m IH]; cbn [aset map fst In].
  - split; [intros [<- | []]; left; reflexivity | intros [-> | []]; left; reflexivity].
  - destruct (Nat.eqb_spec L k) as [-> | N]; cbn [map fst In].
    + split; [intros [<- | H]; [left; reflexivity | right; right; exact H] | intros [-> | [<- | H]]; [left | left | right]; auto].
    + rewrite IH. split; [intros [<- | [-> | H]] | intros [-> | [<- | H]]]; auto.
Qed.

Lemma aset_keys_NoDup {A} (m : list (nat * A)) L v : NoDup (map fst m) -> NoDup (map fst (aset m L v)).
Proof.
  induction m as [| [k w] m IH]; cbn [aset map fst]; intro ND.
  - constructor; [intros [] | constructor].
  - destruct (Nat.eqb_spec L k) as [-> | N]; cbn [map fst]; [exact ND |].
    inversion ND as [| ? ? Hk ND']; subst. constructor; [| apply IH, ND'].
    intro H. apply aset_keys_In in H. destruct H as [-> | H]; [congruence | contradiction].
Qed.

Lemma aget_notin {A} (m : list (nat * A)) L d : ~ In L (map fst m) -> aget m L d = d.
Proof.
  induction m as [| [k w] m IH]; cbn [aget map fst In]; intro H; [reflexivity |].
  destruct (Nat.eqb_spec L k) as [-> | N]; [exfalso; apply H; left; reflexivity | apply IH; intro; apply H; right; assumption].
Qed.

Lemma aget_aset_same {A} (m : list (nat * A)) L v d : aget (aset m L v) L d = v.
Proof. rewrite aget_aset, Nat.eqb_refl. reflexivity. Qed.

Lemma aget_aset_other {A} (m : list (nat * A)) L L' v d : L' <> L -> aget (aset m L v) L' d = aget m L' d.
Proof. intro N. rewrite aget_aset. destruct (Nat.eqb_spec L' L); [contradiction | reflexivity]. Qed.

(** ** verticesHitMultiple: membership in the regenerated set is [hit_multi], whatever the order of the range *)
Lemma vhm_loop hm ringIdx (l : list pt) : forall acc,
  exists vs, range_loop (gen_verticesHitMultiple_range1 hm ringIdx) l acc = Ok (Next vs) /\
    forall p, mem_pt p vs = mem_pt p acc || (mem_pt p l && hit_multi hm ringIdx p).
Proof.
  induction l as [| k l IH]; intro acc; cbn [range_loop].
  - exists acc. split; [reflexivity |]. intro p. cbn [mem_pt andb]. rewrite orb_false_r. reflexivity.
  - unfold gen_verticesHitMultiple_range1 at 1. cbv zeta.
    destruct (mem_nat (Z.to_nat ringIdx) (hm_get hm k)) eqn:E; cbn [bind].
    + destruct (IH (k :: acc)) as [vs [Hr Hm]]. exists vs. split; [exact Hr |]. intro p. rewrite Hm. cbn [mem_pt].
      unfold hit_multi. destruct (pt_eqb_spec p k) as [-> | N]; cbn [orb andb].
      * rewrite E. rewrite !orb_true_r. destruct (mem_pt k acc); reflexivity.
      * reflexivity.
    + destruct (IH acc) as [vs [Hr Hm]]. exists vs. split; [exact Hr |]. intro p. rewrite Hm. cbn [mem_pt].
      unfold hit_multi. destruct (pt_eqb_spec p k) as [-> | N]; cbn [orb andb]; [| reflexivity].
      rewrite E. destruct (mem_pt k l); reflexivity.
Qed.

Lemma hm_get_notin hm p : mem_pt p (map fst hm) = false -> hm_get hm p = [].
Proof.
  induction hm as [| [q l] hm IH]; cbn [map fst mem_pt hm_get]; intro H; [reflexivity |].
  apply orb_false_elim in H. destruct H as [H1 H2]. rewrite H1. apply IH, H2.
Qed.

Theorem gen_verticesHitMultiple_spec (pord : gen_site -> list pt -> list pt) hm ringIdx :
  (forall s l, Permutation (pord s l) l) ->
  exists vs, gen_verticesHitMultiple pord hm ringIdx = Ok vs /\ forall p, mem_pt p vs = hit_multi hm ringIdx p.
Proof.
  intro Hp. unfold gen_verticesHitMultiple. cbv zeta.
  destruct (vhm_loop hm ringIdx (pord GSite1 (map fst hm)) []) as [vs [Hr Hm]].
  rewrite Hr. cbn [bind]. exists vs. split; [reflexivity |]. intro p. rewrite Hm. cbn [mem_pt orb].
  destruct (mem_pt p (pord GSite1 (map fst hm))) eqn:E; [reflexivity |]. cbn [andb].
  unfold hit_multi. rewrite hm_get_notin; [reflexivity |].
  destruct (mem_pt p (map fst hm)) eqn:E2; [| reflexivity].
  apply mem_pt_In in E2. apply (Permutation_in _ (Permutation_sym (Hp GSite1 _))) in E2.
  apply mem_pt_In in E2. congruence.
Qed.

(** ** addPointsAndSnap *)
Definition site_order (gord : gen_site -> list nat -> list nat) (s : site) : list nat -> list nat :=
  match s with
  | SHit r v => gord (GSite3 (Z.of_nat r) (Z.of_nat v))
  | SEdge r v => gord (GSite4 (Z.of_nat r) (Z.of_nat v))
  | SRing r => gord (GSite5 (Z.of_nat r))
  | SFinal => gord GSite6
  | SPL => gord GSite7
  end.

Section Proofs.
  Variable gord : gen_site -> list nat -> list nat.
  Hypothesis gord_perm : forall s l, Permutation (gord s l) l.
  Variables (g : grid) (hots : list (list (Z * Z))) (cfg : config).

  Let ord := site_order gord.

  Lemma ord_perm : forall st l, Permutation (ord st l) l.
  Proof. intros [r v | r v | r | |] l; apply gord_perm. Qed.

  Lemma gord_NoDup s l : NoDup l -> NoDup (gord s l).
  Proof. intro ND. eapply Permutation_NoDup; [apply Permutation_sym, gord_perm | exact ND]. Qed.

  Lemma gord_In s l L : In L (gord s l) <-> In L l.
  Proof. split; apply Permutation_in; [apply gord_perm | apply Permutation_sym, gord_perm]. Qed.

  Definition hits_rel (ix : pindex) (m : lmap) : Prop :=
    pxGrid ix = g /\ pxHots ix = hots /\ forall L, px_level_hits ix L = dHits (lget m L).

  Definition acc_rel (no ni npl : list (nat * list (list pt))) (m : lmap) : Prop :=
    forall L, aget no L [] = dOuters (lget m L) /\ aget ni L [] = dInners (lget m L) /\ aget npl L [] = dPL (lget m L).

  Definition ring_rel (nrG nrM : list (nat * list pt)) : Prop := forall L, aget nrG L [] = aget nrM L [].

  (** *** ix.SnapClosestPoints against snapAllLevels *)
  Definition gstep (ri : nat) (a b : pt) :=
    fun (acc : list (nat * hits) * list (nat * list pt)) (L : nat) =>
      let '(hm, nv) := acc in
      let '(pts, st') := snapAndHit g hots (aget hm L hits0) a b L ri in
      (aset hm L st', aset nv L pts).

  Definition mstep (ri : nat) (a b : pt) :=
    fun (acc : lmap * list (nat * list pt)) (L : nat) =>
      let '(m, nv) := acc in
      let d := lget m L in
      let '(pts, st') := snapAndHit g hots (dHits d) a b L ri in
      (aset m L (mkLD st' (dOuters d) (dInners d) (dPL d)), aset nv L pts).

  Lemma snap_fold_rel ri a b no ni npl l : forall hm nv m,
    (forall L, aget hm L hits0 = dHits (lget m L)) -> acc_rel no ni npl m ->
    snd (fold_left (gstep ri a b) l (hm, nv)) = snd (fold_left (mstep ri a b) l (m, nv)) /\
    (forall L, aget (fst (fold_left (gstep ri a b) l (hm, nv))) L hits0
               = dHits (lget (fst (fold_left (mstep ri a b) l (m, nv))) L)) /\
    acc_rel no ni npl (fst (fold_left (mstep ri a b) l (m, nv))).
  Proof.
    induction l as [| k l IH]; intros hm nv m Hh Ha; cbn [fold_left].
    - cbn [fst snd]. auto.
    - assert (Eg : gstep ri a b (hm, nv) k
                   = let '(pts, st') := snapAndHit g hots (dHits (lget m k)) a b k ri in (aset hm k st', aset nv k pts))
        by (unfold gstep; rewrite (Hh k); reflexivity).
      assert (Em : mstep ri a b (m, nv) k
                   = let '(pts, st') := snapAndHit g hots (dHits (lget m k)) a b k ri in
                     (aset m k (mkLD st' (dOuters (lget m k)) (dInners (lget m k)) (dPL (lget m k))), aset nv k pts))
        by reflexivity.
      rewrite Eg, Em. clear Eg Em.
      destruct (snapAndHit g hots (dHits (lget m k)) a b k ri) as [pts st'].
      apply IH.
      + intro L. unfold lget. rewrite !aget_aset. destruct (Nat.eqb L k); [reflexivity | apply Hh].
      + intro L. unfold lget. rewrite aget_aset. destruct (Nat.eqb_spec L k) as [-> | N]; [| apply Ha].
        cbn [dOuters dInners dPL]. apply Ha.
  Qed.

  Lemma px_snap_rel ix m no ni npl ri vi a b alive :
    hits_rel ix m -> acc_rel no ni npl m ->
    snd (px_SnapClosestPoints (gord (GSite3 (Z.of_nat ri) (Z.of_nat vi))) ix (a, b) alive (Z.of_nat ri))
      = snd (snapAllLevels ord g hots ri vi a b alive m) /\
    hits_rel (fst (px_SnapClosestPoints (gord (GSite3 (Z.of_nat ri) (Z.of_nat vi))) ix (a, b) alive (Z.of_nat ri)))
             (fst (snapAllLevels ord g hots ri vi a b alive m)) /\
    acc_rel no ni npl (fst (snapAllLevels ord g hots ri vi a b alive m)).
  Proof.
    intros [Hg [Hh Hl]] Ha. unfold px_SnapClosestPoints, snapAllLevels. cbn [fst snd]. rewrite Hg, Hh, Nat2Z.id.
    change (ord (SHit ri vi) alive) with (gord (GSite3 (Z.of_nat ri) (Z.of_nat vi)) alive).
    set (l := gord (GSite3 (Z.of_nat ri) (Z.of_nat vi)) alive).
    pose proof (snap_fold_rel ri a b no ni npl l (pxHits ix) [] m Hl Ha) as [H1 [H2 H3]].
    unfold gstep in H1, H2. unfold mstep in H1, H2, H3.
    destruct (fold_left _ l (pxHits ix, [])) as [hm' nv1].
    destruct (fold_left _ l (m, [])) as [m' nv2].
    cbn [fst snd] in *. split; [exact H1 |]. split; [| exact H3].
    split; [reflexivity |]. split; [reflexivity |]. exact H2.
  Qed.

  (** *** the cleanupNewVertices loop over the levels (snap.go 116-119) *)
  Lemma clean_rel ri vi nv alive nrG nrM : ring_rel nrG nrM ->
    sim_out (range_loop (gen_addPointsAndSnap_range4 nv) (gord (GSite4 (Z.of_nat ri) (Z.of_nat vi)) alive) nrG)
            (cleanAllLevels ord ri vi alive nv nrM) ring_rel.
  Proof.
    intro H. unfold cleanAllLevels.
    change (ord (SEdge ri vi) alive) with (gord (GSite4 (Z.of_nat ri) (Z.of_nat vi)) alive).
    apply (range_foldM_sim _ _ (fun _ => ring_rel)); [| exact H].
    clear H nrG nrM. intros L _ nrG nrM H. unfold gen_addPointsAndSnap_range4, sim_step.
    rewrite ProofsGenRingHelpers.gen_LastElement_spec. cbn [bind].
    rewrite ProofsGenSmall.gen_cleanupNewVertices_spec. rewrite (H L).
    destruct (cleanupNewVertices (aget nv L []) (last_opt (aget nrM L []))) as [c | e]; cbn [bind]; [| reflexivity].
    intro L'. rewrite !aget_aset. destruct (Nat.eqb L' L); [reflexivity | apply H].
  Qed.

  (** *** the walk over the vertices of one ring (snap.go 110-120) *)
  Lemma vertices_rel ri ring alive no ni npl : forall verts pre ix m nrG nrM,
    ring = pre ++ verts -> hits_rel ix m -> acc_rel no ni npl m -> ring_rel nrG nrM ->
    match range_loop (gen_addPointsAndSnap_range3 gord alive (Z.of_nat ri) ring (zlen ring))
                     (go_enumerate (Z.of_nat (length pre)) verts) (ix, nrG),
          verticesLoop ord g hots ri (length pre) (hd (0, 0) ring) verts alive m nrM with
    | Ok (Next (ix', nrG')), Ok (m', nrM') => hits_rel ix' m' /\ acc_rel no ni npl m' /\ ring_rel nrG' nrM'
    | Err e, Err e' => e = e'
    | _, _ => False
    end.
  Proof.
    induction verts as [| v r IH]; intros pre ix m nrG nrM Hring Hh Ha Hr; cbn [go_enumerate range_loop verticesLoop].
    - auto.
    - unfold gen_addPointsAndSnap_range3 at 1. cbn [fst snd]. cbv zeta.
      assert (Hlen : zlen ring = Z.of_nat (length pre) + 1 + zlen r).
      { subst ring. unfold zlen. rewrite app_length. cbn [length]. lia. }
      unfold go_rem. destruct (Z.eqb_spec (zlen ring) 0) as [E0 | _]; [unfold zlen in *; lia |]. cbn [bind].
      assert (Hnext : idx ring (Z.rem (Z.of_nat (length pre) + 1) (zlen ring))
                      = Ok (match r return pt with [] => hd (0, 0) ring | w :: _ => w end)).
      { destruct r as [| w r'].
        - rewrite Hlen. unfold zlen. cbn [length]. rewrite Z.add_0_r, Z.rem_same by lia.
          subst ring. destruct pre; reflexivity.
        - rewrite Z.rem_small by (rewrite Hlen; unfold zlen; cbn [length]; lia).
          subst ring. replace (pre ++ v :: w :: r') with ((pre ++ [v]) ++ w :: r') by (rewrite <- app_assoc; reflexivity).
          replace (Z.of_nat (length pre) + 1) with (Z.of_nat (length (pre ++ [v]))) by (rewrite app_length; cbn [length]; lia).
          apply idx_app_mid. }
      rewrite Hnext. cbn [bind].
      set (next := match r return pt with [] => hd (0, 0) ring | w :: _ => w end).
      pose proof (px_snap_rel ix m no ni npl ri (length pre) v next alive Hh Ha) as [H1 [H2 H3]].
      destruct (px_SnapClosestPoints (gord (GSite3 (Z.of_nat ri) (Z.of_nat (length pre)))) ix (v, next) alive (Z.of_nat ri)) as [ix1 nv1].
      destruct (snapAllLevels ord g hots ri (length pre) v next alive m) as [m1 nv2].
      cbn [fst snd] in H1, H2, H3. subst nv2.
      pose proof (clean_rel ri (length pre) nv1 alive nrG nrM Hr) as Hc. unfold sim_out in Hc.
      destruct (range_loop (gen_addPointsAndSnap_range4 nv1) _ nrG) as [[nrG1 | rr] | e];
        destruct (cleanAllLevels ord ri (length pre) alive nv1 nrM) as [nrM1 | e']; cbn [bind]; try contradiction; [| exact Hc].
      rewrite go_enumerate_succ.
      replace (S (length pre)) with (length (pre ++ [v])) by (rewrite app_length; cbn [length]; lia).
      apply IH; [rewrite <- app_assoc; exact Hring | exact H2 | exact H3 | exact Hc].
  Qed.

  (** *** the cleanupNewRing loop over the levels, with delete(levelMap, level) (snap.go 123-135) *)
  Definition lev_inv (ix : pindex) (rest : list nat)
      (gs : list nat * list (nat * list (list pt)) * list (nat * list (list pt)) * list (nat * list (list pt))) (s : istate) : Prop :=
    let '(alive, no, ni, npl) := gs in
    alive = iAlive s /\ hits_rel ix (iData s) /\ acc_rel no ni npl (iData s) /\ NoDup (lv_keys npl) /\
    NoDup alive /\ NoDup rest /\ (forall L, In L rest -> In L alive).

  Lemma ring_levels_rel ix ri nrG nrM alive no ni npl s :
    ring_rel nrG nrM -> lev_inv ix alive (alive, no, ni, npl) s ->
    sim_out (range_loop (gen_addPointsAndSnap_range5 ix cfg (Z.of_nat ri) (Nat.eqb ri 0) nrG)
                        (gord (GSite5 (Z.of_nat ri)) alive) (alive, no, ni, npl))
            (ringLevels ord cfg ri nrM s) (lev_inv ix []).
  Proof.
    intros Hr Hinv. unfold ringLevels.
    assert (Ealive : alive = iAlive s) by (destruct Hinv as [E _]; exact E).
    rewrite <- Ealive. change (ord (SRing ri) alive) with (gord (GSite5 (Z.of_nat ri)) alive).
    apply (range_foldM_sim _ _ (lev_inv ix)).
    - clear Hinv Ealive s no ni npl. intros L rest [[[alive' no] ni] npl] s [E [Hh [Ha [NDk [NDa [NDr Hin]]]]]].
      unfold gen_addPointsAndSnap_range5, sim_step.
      assert (HL : mem_nat L alive' = true) by (apply mem_nat_In, Hin; left; reflexivity).
      rewrite HL. cbn [negb].
      rewrite ProofsGenCleanup.gen_cleanupNewRing_spec. rewrite (Hr L).
      destruct Hh as [Hg [Hhots Hl]].
      replace (hit_multi (px_GetHitMultiple ix L) (Z.of_nat ri)) with (isMultiFor (dHits (lget (iData s) L)) ri)
        by (unfold hit_multi, px_GetHitMultiple, isMultiFor; rewrite Nat2Z.id, Hl; reflexivity).
      destruct (cleanupNewRing (aget nrM L []) (Nat.eqb ri 0) (isMultiFor (dHits (lget (iData s) L)) ri)) as [sets | e];
        cbn [bind]; [| reflexivity].
      cbv zeta. rewrite !zlen_eqb_0.
      destruct (proj1 (NoDup_cons_iff L rest) NDr) as [HnL NDr'].
      destruct (Nat.eqb ri 0 && (length (outers sets) =? 0)%nat
                && (negb (keepPointsAndLines cfg) || (length (pointsAndLines sets) =? 0)%nat)).
      + cbn [lev_inv iAlive iData]. split; [rewrite E; reflexivity |].
        split; [split; [exact Hg | split; [exact Hhots | exact Hl]] |]. split; [exact Ha |]. split; [exact NDk |].
        split; [apply adel_NoDup, NDa |]. split; [exact NDr' |].
        intros L' HL'. apply filter_In. split; [apply Hin; right; exact HL' |].
          destruct (Nat.eqb_spec L' L) as [-> | N]; [contradiction | reflexivity].
      + assert (Hacc : forall v x, aget v L [] = x -> (forall L', L' <> L -> aget v L' [] = dPL (lget (iData s) L')) ->
                  acc_rel (aset no L (aget no L [] ++ outers sets)) (aset ni L (aget ni L [] ++ inners sets)) v
                  (aset (iData s) L (mkLD (dHits (lget (iData s) L)) (dOuters (lget (iData s) L) ++ outers sets)
                                          (dInners (lget (iData s) L) ++ inners sets) x))).
        { intros v x Hx H L'. unfold lget. rewrite !aget_aset. destruct (Nat.eqb_spec L' L) as [-> | N].
          - cbn [dOuters dInners dPL]. destruct (Ha L) as [H1 [H2 _]]. unfold lget in H1, H2. rewrite H1, H2. auto.
          - destruct (Ha L') as [H1 [H2 _]]. unfold lget in *. rewrite H1, H2. split; [reflexivity |]. split; [reflexivity |].
            apply H, N. }
        assert (Hhits : hits_rel ix (aset (iData s) L (mkLD (dHits (lget (iData s) L)) (dOuters (lget (iData s) L) ++ outers sets)
                                          (dInners (lget (iData s) L) ++ inners sets)
                                          (if keepPointsAndLines cfg then dPL (lget (iData s) L) ++ pointsAndLines sets
                                           else dPL (lget (iData s) L))))).
        { split; [exact Hg |]. split; [exact Hhots |]. intro L'. rewrite Hl. unfold lget. rewrite aget_aset.
          destruct (Nat.eqb_spec L' L) as [-> | N]; reflexivity. }
        destruct (keepPointsAndLines cfg); cbn [bind lev_inv iAlive iData].
        * split; [exact E |]. split; [exact Hhits |]. split.
          -- destruct (Ha L) as [_ [_ H3]]. rewrite <- H3.
             apply Hacc; [apply aget_aset_same |]. intros L' N. rewrite aget_aset_other by exact N. apply Ha.
          -- split; [apply aset_keys_NoDup, NDk |]. split; [exact NDa |]. split; [exact NDr' |].
             intros L' HL'. apply Hin. right. exact HL'.
        * split; [exact E |]. split; [exact Hhits |]. split.
          -- destruct (Ha L) as [_ [_ H3]]. rewrite <- H3. apply Hacc; [reflexivity |]. intros L' N. apply Ha.
          -- split; [exact NDk |]. split; [exact NDa |]. split; [exact NDr' |].
             intros L' HL'. apply Hin. right. exact HL'.
    - destruct Hinv as [E [Hh [Ha [NDk [NDa [_ _]]]]]]. cbn [lev_inv].
      split; [exact E |]. split; [exact Hh |]. split; [exact Ha |]. split; [exact NDk |]. split; [exact NDa |].
      split; [apply gord_NoDup, NDa |]. intros L HL. apply gord_In in HL. exact HL.
  Qed.

  (** *** the make loop: newRing[level] = make(..) for every level (snap.go 105-107) *)
  Lemma init_ring_loop l : forall nr, (forall L, aget nr L (@nil pt) = []) ->
    exists nr', range_loop gen_addPointsAndSnap_range2 l nr = Ok (Next nr') /\ forall L, aget nr' L (@nil pt) = [].
  Proof.
    induction l as [| k l IH]; intros nr H; cbn [range_loop].
    - exists nr. auto.
    - unfold gen_addPointsAndSnap_range2 at 1. apply IH. intro L. rewrite aget_aset.
      destruct (Nat.eqb L k); [reflexivity | apply H].
  Qed.

  (** *** one ring (snap.go 96-136) *)
  Definition top_rel (gs : pindex * list nat * list (nat * list (list pt)) * list (nat * list (list pt)) * list (nat * list (list pt)))
                     (s : istate) : Prop :=
    let '(ix, alive, no, ni, npl) := gs in
    alive = iAlive s /\ hits_rel ix (iData s) /\ acc_rel no ni npl (iData s) /\ NoDup (lv_keys npl) /\ NoDup alive.

  Lemma ring_step_rel ri r gs s : top_rel gs s ->
    sim_step (gen_addPointsAndSnap_range1 gord cfg (Z.of_nat ri, r) gs) (ringStepI ord g hots cfg s ri r) top_rel.
  Proof.
    destruct gs as [[[[ix alive] no] ni] npl]. intros [E [Hh [Ha [NDk NDa]]]].
    unfold gen_addPointsAndSnap_range1, ringStepI, sim_step. cbn [fst snd]. cbv zeta. rewrite <- E.
    destruct alive as [| a0 al].
    - cbn [zlen length Z.of_nat Z.eqb]. cbn [top_rel]. auto.
    - rewrite zlen_eqb_0. cbn [length Nat.eqb].
      replace (Z.of_nat ri =? 0) with (Nat.eqb ri 0) by (destruct ri; reflexivity).
      rewrite ProofsGenSmall.gen_ensureCorrectWindingOrder_spec. cbn [bind].
      set (r' := ensureCorrectWindingOrder r (negb (Nat.eqb ri 0))).
      destruct (init_ring_loop (gord (GSite2 (Z.of_nat ri)) (a0 :: al)) [] (fun L => eq_refl)) as [nr0 [Hi Hnr0]].
      rewrite Hi. cbn [bind].
      assert (Em : match r' with
                   | [] => Ok (iData s, [])
                   | first :: _ => verticesLoop ord g hots ri 0 first r' (a0 :: al) (iData s) []
                   end = verticesLoop ord g hots ri 0 (hd (0, 0) r') r' (a0 :: al) (iData s) [])
        by (destruct r'; reflexivity).
      rewrite Em. clear Em.
      assert (Hr0 : ring_rel nr0 []) by (intro L; rewrite Hnr0; reflexivity).
      pose proof (vertices_rel ri r' (a0 :: al) no ni npl r' [] ix (iData s) nr0 [] eq_refl Hh Ha Hr0) as Hv.
      cbn [length Z.of_nat] in Hv.
      destruct (range_loop (gen_addPointsAndSnap_range3 gord (a0 :: al) (Z.of_nat ri) r' (zlen r')) (go_enumerate 0 r') (ix, nr0))
        as [[[ix1 nrG] | x] | e];
        destruct (verticesLoop ord g hots ri 0 (hd (0, 0) r') r' (a0 :: al) (iData s) []) as [[m1 nrM] | e'];
        cbn [bind]; try contradiction; [| exact Hv].
      destruct Hv as [Hh1 [Ha1 Hr1]].
      assert (Hinv : lev_inv ix1 (a0 :: al) (a0 :: al, no, ni, npl) (mkI (iAlive s) m1)).
      { cbn [lev_inv iAlive iData]. split; [exact E |]. split; [exact Hh1 |]. split; [exact Ha1 |]. split; [exact NDk |].
        split; [exact NDa |]. split; [exact NDa |]. auto. }
      pose proof (ring_levels_rel ix1 ri nrG nrM (a0 :: al) no ni npl (mkI (iAlive s) m1) Hr1 Hinv) as Hl.
      unfold sim_out in Hl. rewrite <- E in Hl.
      destruct (range_loop (gen_addPointsAndSnap_range5 ix1 cfg (Z.of_nat ri) (Nat.eqb ri 0) nrG) _ (a0 :: al, no, ni, npl))
        as [[[[[alive' no'] ni'] npl'] | x] | e];
        destruct (ringLevels ord cfg ri nrM (mkI (a0 :: al) m1)) as [s' | e']; try contradiction; [| exact Hl].
      destruct Hl as [E' [Hh' [Ha' [NDk' [NDa' _]]]]]. cbn [bind top_rel]. auto.
  Qed.

  Lemma rings_rel P : forall ri gs s, top_rel gs s ->
    sim_out (range_loop (gen_addPointsAndSnap_range1 gord cfg) (go_enumerate (Z.of_nat ri) P) gs)
            (ringsLoopI ord g hots cfg s ri P) top_rel.
  Proof.
    induction P as [| r P IH]; intros ri gs s H; cbn [go_enumerate range_loop ringsLoopI].
    - exact H.
    - pose proof (ring_step_rel ri r gs s H) as Hs. unfold sim_step in Hs.
      destruct (gen_addPointsAndSnap_range1 gord cfg (Z.of_nat ri, r) gs) as [[t | t | x] | e];
        destruct (ringStepI ord g hots cfg s ri r) as [s1 | e']; cbn [bind]; try contradiction.
      + rewrite go_enumerate_succ. apply IH, Hs.
      + exact Hs.
  Qed.

  (** *** dedupe, match, reverse per level still alive (snap.go 139-146) *)
  Definition fin_inv (m : lmap) (rest : list nat)
      (gs : list (nat * list (list pt)) * list (nat * list (list pt)) * list (nat * list (list (list pt))))
      (np' : list (nat * list polygon)) : Prop :=
    let '(no, ni, np) := gs in
    np = np' /\ NoDup rest /\
    forall L, In L rest -> aget no L [] = dOuters (lget m L) /\ aget ni L [] = dInners (lget m L).

  Lemma finish_rel (P : list (list pt)) s no ni npl : acc_rel no ni npl (iData s) -> NoDup (iAlive s) ->
    sim_out (range_loop (gen_addPointsAndSnap_range6 P cfg) (gord GSite6 (iAlive s)) (no, ni, []))
            (finishLevels ord cfg s) (fin_inv (iData s) []).
  Proof.
    intros Ha NDa. unfold finishLevels. change (ord SFinal (iAlive s)) with (gord GSite6 (iAlive s)).
    apply (range_foldM_sim _ _ (fin_inv (iData s))).
    - clear no ni npl Ha. intros L rest [[no ni] np] np' [-> [NDr Hrel]].
      destruct (proj1 (NoDup_cons_iff L rest) NDr) as [HnL NDr'].
      unfold gen_addPointsAndSnap_range6, sim_step. cbv zeta.
      destruct (Hrel L (or_introl eq_refl)) as [H1 H2]. rewrite H1, H2.
      rewrite ProofsGenDedupe.gen_dedupeInnersOuters_spec.
      destruct (dedupeInnersOuters (dOuters (lget (iData s) L)) (dInners (lget (iData s) L))) as [oi | e]; cbn [bind]; [| reflexivity].
      cbv zeta. rewrite !aget_aset_same.
      rewrite ProofsGenRingHelpers.gen_outersToPolygons_spec. cbn [bind].
      rewrite ProofsGenMatch.gen_matchInnersToPolygons_spec. unfold polygon, Base.ring.
      destruct (matchInnersToPolygons _ _) as [ps | e]; cbn [bind]; [| reflexivity].
      rewrite ProofsGenRingHelpers.gen_reverseWindingOrderIfConfigured_spec. cbn [bind].
      rewrite zlen_ltb_0.
      assert (Hrest : forall L', In L' rest ->
                aget (aset no L (fst oi)) L' [] = dOuters (lget (iData s) L') /\
                aget (aset ni L (snd oi)) L' [] = dInners (lget (iData s) L')).
      { intros L' HL'. assert (N : L' <> L) by (intro; subst; contradiction).
        rewrite !aget_aset_other by exact N. apply Hrel. right. exact HL'. }
      destruct (if reverseWindingOrder cfg then map (map (@rev pt)) ps else ps) as [| p0 ps']; cbn [bind fin_inv]; auto.
    - cbn [fin_inv]. split; [reflexivity |]. split; [apply gord_NoDup, NDa |]. intros L _. split; apply Ha.
  Qed.

  (** *** points and lines at the end (snap.go 149-153): per-key updates, so the order is irrelevant *)
  Section PL.
    Variables (pl : nat -> list ring)
              (stepf : list (nat * list polygon) -> nat -> list (nat * list polygon)).
    Hypothesis stepf_spec : forall np L,
      (forall L', L' <> L -> afind (stepf np L) L' = afind np L') /\
      afind (stepf np L) L = match pl L with
                             | [] => afind np L
                             | pls => Some (aget np L [] ++ map (fun p => [p]) pls)
                             end.

    Lemma pl_fold_afind ls : NoDup ls -> forall np L,
      afind (fold_left stepf ls np) L =
      if mem_nat L ls
      then match pl L with [] => afind np L | pls => Some (aget np L [] ++ map (fun p => [p]) pls) end
      else afind np L.
    Proof.
      induction 1 as [| a ls Ha ND IH]; intros np L; cbn [fold_left].
      - reflexivity.
      - rewrite IH. unfold mem_nat. cbn [existsb]. fold (mem_nat L ls).
        destruct (stepf_spec np a) as [Ho Hs].
        destruct (Nat.eqb_spec L a) as [-> | N]; cbn [orb].
        + destruct (mem_nat a ls) eqn:E; [apply mem_nat_In in E; contradiction | exact Hs].
        + rewrite (Ho L N). rewrite (aget_afind (stepf np a)), (Ho L N), <- aget_afind. reflexivity.
    Qed.
  End PL.

  Definition pl_inner (L : nat) (pls : list (list pt)) (np : list (nat * list (list (list pt)))) :=
    fold_left (fun np p => aset np L (aget np L [] ++ [[p]])) pls np.

  Lemma pl_inner_spec L pls : forall np,
    (forall L', L' <> L -> afind (pl_inner L pls np) L' = afind np L') /\
    afind (pl_inner L pls np) L = match pls with
                                  | [] => afind np L
                                  | _ => Some (aget np L [] ++ map (fun p => [p]) pls)
                                  end.
  Proof.
    unfold pl_inner. induction pls as [| p pls IH]; intro np; cbn [fold_left].
    - auto.
    - destruct (IH (aset np L (aget np L [] ++ [[p]]))) as [I1 I2]. split.
      + intros L' N. rewrite (I1 L' N), afind_aset. destruct (Nat.eqb_spec L' L); [contradiction | reflexivity].
      + rewrite I2. destruct pls as [| p' pls].
        * rewrite afind_aset, Nat.eqb_refl. reflexivity.
        * rewrite aget_aset_same, <- app_assoc. reflexivity.
  Qed.

  Lemma range8_fold L pls : forall np,
    range_loop (gen_addPointsAndSnap_range8 L) pls np = Ok (Next (pl_inner L pls np)).
  Proof.
    unfold pl_inner. induction pls as [| p pls IH]; intro np; cbn [range_loop fold_left]; [reflexivity |].
    unfold gen_addPointsAndSnap_range8 at 1. apply IH.
  Qed.

  Lemma range7_fold npl ks : forall np,
    range_loop (gen_addPointsAndSnap_range7 npl) ks np
    = Ok (Next (fold_left (fun np L => pl_inner L (aget npl L []) np) ks np)).
  Proof.
    induction ks as [| k ks IH]; intro np; cbn [range_loop fold_left]; [reflexivity |].
    unfold gen_addPointsAndSnap_range7 at 1. cbv zeta. rewrite range8_fold. cbn [bind]. apply IH.
  Qed.

  (** *** the whole function *)
  Theorem gen_addPointsAndSnap_spec P levels : NoDup levels ->
    (do np <- gen_addPointsAndSnap gord (mkPIndex g hots []) P levels cfg;
     Ok (map (fun L => (L, afind np L)) levels))
    = addPointsAndSnapI ord g hots cfg P levels.
  Proof.
    intro ND. unfold gen_addPointsAndSnap, addPointsAndSnapI. cbv zeta. rewrite (as_keys_NoDup _ ND).
    unfold polygon_linear_rings.
    assert (H0 : top_rel (mkPIndex g hots [], levels, [], [], []) (mkI levels [])).
    { cbn [top_rel iAlive iData]. split; [reflexivity |]. split; [repeat split |]. split; [intro L; repeat split |].
      split; [constructor | exact ND]. }
    pose proof (rings_rel P 0 _ _ H0) as Hr. cbn [Z.of_nat] in Hr. unfold sim_out in Hr.
    destruct (range_loop (gen_addPointsAndSnap_range1 gord cfg) (go_enumerate 0 P) (mkPIndex g hots [], levels, [], [], []))
      as [[[[[[ix alive] no] ni] npl] | x] | e];
      destruct (ringsLoopI ord g hots cfg (mkI levels []) 0 P) as [s | e']; cbn [bind]; try contradiction; [| subst; reflexivity].
    destruct Hr as [E [Hh [Ha [NDk NDa]]]]. subst alive.
    pose proof (finish_rel P s no ni npl Ha NDa) as Hf. unfold sim_out in Hf.
    destruct (range_loop (gen_addPointsAndSnap_range6 P cfg) (gord GSite6 (iAlive s)) (no, ni, [])) as [[[[no' ni'] np] | x] | e];
      destruct (finishLevels ord cfg s) as [np' | e']; cbn [bind]; try contradiction; [| subst; reflexivity].
    destruct Hf as [-> _].
    rewrite range7_fold. cbn [bind]. unfold geom_polygons_for_all_keys, appendPL. f_equal.
    apply map_ext_in. intros L HL. f_equal.
    rewrite (pl_fold_afind (fun L => aget npl L []) (fun np L => pl_inner L (aget npl L []) np)).
    - rewrite (pl_fold_afind (fun L => dPL (lget (iData s) L))).
      + destruct (Ha L) as [_ [_ H3]]. rewrite <- H3.
        assert (Hm : mem_nat L (ord SPL levels) = true) by (apply mem_nat_In, (Permutation_in _ (Permutation_sym (ord_perm SPL levels))), HL).
        rewrite Hm.
        destruct (aget npl L []) as [| p0 pls] eqn:Epl.
        * destruct (mem_nat L (gord GSite7 (lv_keys npl))); reflexivity.
        * assert (Hk : mem_nat L (gord GSite7 (lv_keys npl)) = true).
          { apply mem_nat_In, gord_In. destruct (in_dec Nat.eq_dec L (lv_keys npl)) as [I | I]; [exact I |].
            rewrite (aget_notin npl L [] I) in Epl. discriminate. }
          rewrite Hk. reflexivity.
      + intros np0 L0. cbv beta. destruct (dPL (lget (iData s) L0)) as [| p0 pls].
        * auto.
        * split; [intros L' N; rewrite afind_aset; destruct (Nat.eqb_spec L' L0); [contradiction | reflexivity] |].
          rewrite afind_aset, Nat.eqb_refl. reflexivity.
      + eapply Permutation_NoDup; [apply Permutation_sym, ord_perm | exact ND].
    - intros np0 L0. cbv beta. destruct (pl_inner_spec L0 (aget npl L0 []) np0) as [I1 I2]. split; [exact I1 |].
      refine (eq_trans I2 _). destruct (aget npl L0 []); reflexivity.
    - apply gord_NoDup, NDk.
  Qed.

  (** *** the keys of the returned map are requested levels (needed by SnapPolygon, which re-keys the map) *)
  Lemma range_loop_inv {A S R} (body : A -> S -> res (rctl S R)) (I : S -> Prop) l :
    (forall a s, In a l -> I s ->
       match body a s with Ok (Cont s') => I s' | Ok (Brk s') => I s' | Ok (RRet _) => False | Err _ => True end) ->
    forall s, I s -> match range_loop body l s with Ok (Next s') => I s' | Ok (Ret _) => False | Err _ => True end.
  Proof.
    induction l as [| a l IH]; intros H s Hs; cbn [range_loop]; [exact Hs |].
    pose proof (H a s (or_introl eq_refl) Hs) as Ha.
    destruct (body a s) as [[s' | s' | r] | e]; auto.
    apply IH; [| exact Ha]. intros; apply H; [right |]; assumption.
  Qed.

  Lemma range_loop_noret {A S R} (body : A -> S -> res (rctl S R)) l :
    (forall a s, match body a s with Ok (RRet _) => False | _ => True end) ->
    forall s, match range_loop body l s with Ok (Ret _) => False | _ => True end.
  Proof.
    intros H s. pose proof (range_loop_inv body (fun _ => True) l) as G.
    assert (G' : match range_loop body l s with Ok (Next _) => True | Ok (Ret _) => False | Err _ => True end).
    { apply G; [| exact I]. intros a s0 _ _. specialize (H a s0). destruct (body a s0) as [[? | ? | ?] | ?]; auto. }
    destruct (range_loop body l s) as [[? | ?] | ?]; auto.
  Qed.

  Lemma range2_noret l nr : match range_loop gen_addPointsAndSnap_range2 l nr with Ok (Ret _) => False | _ => True end.
  Proof. apply range_loop_noret. intros a s. exact I. Qed.

  Lemma range4_noret nv l nr : match range_loop (gen_addPointsAndSnap_range4 nv) l nr with Ok (Ret _) => False | _ => True end.
  Proof.
    apply range_loop_noret. intros L s. unfold gen_addPointsAndSnap_range4.
    destruct (RingHelpersGen.gen_LastElement _) as [lv | e]; cbn [bind]; [| exact I].
    destruct (SnapSmallGen.gen_cleanupNewVertices _ _) as [c | e]; cbn [bind]; exact I.
  Qed.

  Lemma range3_noret alive ri r rl l s :
    match range_loop (gen_addPointsAndSnap_range3 gord alive ri r rl) l s with Ok (Ret _) => False | _ => True end.
  Proof.
    apply range_loop_noret. intros [vi v] [ix nr]. unfold gen_addPointsAndSnap_range3. cbn [fst snd]. cbv zeta.
    destruct (go_rem _ _) as [k | e]; cbn [bind]; [| exact I].
    destruct (idx _ _) as [w | e]; cbn [bind]; [| exact I].
    destruct (px_SnapClosestPoints _ _ _ _ _) as [ix1 nv].
    pose proof (range4_noret nv (gord (GSite4 ri vi) alive) nr) as H4.
    destruct (range_loop (gen_addPointsAndSnap_range4 nv) _ nr) as [[nr1 | x] | e]; cbn [bind]; [exact I | contradiction | exact I].
  Qed.

  Lemma aset_keys_incl {A} (m : list (nat * A)) L v lv0 : In L lv0 -> incl (lv_keys m) lv0 -> incl (lv_keys (aset m L v)) lv0.
  Proof. intros HL H x Hx. apply aset_keys_In in Hx. destruct Hx as [-> | Hx]; [exact HL | apply H, Hx]. Qed.

  Definition keys_inv5 (lv0 : list nat)
      (gs : list nat * list (nat * list (list pt)) * list (nat * list (list pt)) * list (nat * list (list pt))) : Prop :=
    let '(alive, _, _, npl) := gs in incl alive lv0 /\ incl (lv_keys npl) lv0.

  Lemma range5_keys lv0 ix ri io nr l gs : incl l lv0 -> keys_inv5 lv0 gs ->
    match range_loop (gen_addPointsAndSnap_range5 ix cfg ri io nr) l gs with
    | Ok (Next gs') => keys_inv5 lv0 gs' | Ok (Ret _) => False | Err _ => True end.
  Proof.
    intros Hl. apply range_loop_inv. clear gs. intros L [[[alive no] ni] npl] HL [Ha Hk].
    unfold gen_addPointsAndSnap_range5.
    destruct (negb (mem_nat L alive)); [split; assumption |].
    destruct (CleanupRingGen.gen_cleanupNewRing _ _ _) as [sets | e]; cbn [bind]; [| exact I].
    cbv zeta. destruct (_ && _).
    - split; [| exact Hk]. intros x Hx. apply Ha, (adel_incl _ _ _ Hx).
    - destruct (keepPointsAndLines cfg); cbn [bind]; (split; [exact Ha |]); [| exact Hk].
      apply aset_keys_incl; [apply Hl, HL | exact Hk].
  Qed.

  Definition keys_inv1 (lv0 : list nat)
      (gs : pindex * list nat * list (nat * list (list pt)) * list (nat * list (list pt)) * list (nat * list (list pt))) : Prop :=
    let '(_, alive, _, _, npl) := gs in incl alive lv0 /\ incl (lv_keys npl) lv0.

  Lemma range1_keys lv0 l gs : keys_inv1 lv0 gs ->
    match range_loop (gen_addPointsAndSnap_range1 gord cfg) l gs with
    | Ok (Next gs') => keys_inv1 lv0 gs' | Ok (Ret _) => False | Err _ => True end.
  Proof.
    apply range_loop_inv. clear gs. intros [ri r] [[[[ix alive] no] ni] npl] _ [Ha Hk].
    unfold gen_addPointsAndSnap_range1. cbn [fst snd]. cbv zeta.
    destruct (zlen alive =? 0); [split; assumption |].
    destruct (SnapSmallGen.gen_ensureCorrectWindingOrder _ _) as [r' | e]; cbn [bind]; [| exact I].
    pose proof (range2_noret (gord (GSite2 ri) alive) []) as H2.
    destruct (range_loop gen_addPointsAndSnap_range2 _ _) as [[nr | x] | e]; cbn [bind]; [| contradiction | exact I].
    pose proof (range3_noret alive ri r' (zlen r') (go_enumerate 0 r') (ix, nr)) as H3.
    destruct (range_loop (gen_addPointsAndSnap_range3 _ _ _ _ _) _ _) as [[[ix1 nr1] | x] | e]; cbn [bind]; [| contradiction | exact I].
    assert (Hl : incl (gord (GSite5 ri) alive) lv0) by (intros x Hx; apply gord_In in Hx; apply Ha, Hx).
    pose proof (range5_keys lv0 ix1 ri (ri =? 0) nr1 _ (alive, no, ni, npl) Hl (conj Ha Hk)) as H5.
    destruct (range_loop (gen_addPointsAndSnap_range5 _ _ _ _ _) _ _) as [[[[[alive' no'] ni'] npl'] | x] | e]; cbn [bind];
      [exact H5 | contradiction | exact I].
  Qed.

  Lemma range6_keys lv0 (P : list (list pt)) l gs : incl l lv0 ->
    (let '(_, _, np) := gs in incl (lv_keys np) lv0) ->
    match range_loop (gen_addPointsAndSnap_range6 P cfg) l gs with
    | Ok (Next (_, _, np')) => incl (lv_keys np') lv0
    | Ok (Ret _) => False
    | Err _ => True
    end.
  Proof.
    intros Hl H0.
    pose proof (range_loop_inv (gen_addPointsAndSnap_range6 P cfg)
                  (fun gs : list (nat * list (list pt)) * list (nat * list (list pt)) * list (nat * list (list (list pt))) =>
                     let '(_, _, np) := gs in incl (lv_keys np) lv0) l) as H.
    specialize (H) with (2 := H0).
    assert (Hs : match range_loop (gen_addPointsAndSnap_range6 P cfg) l gs with
                 | Ok (Next s') => let '(_, _, np) := s' in incl (lv_keys np) lv0
                 | Ok (Ret _) => False
                 | Err _ => True
                 end).
    { apply H. clear H H0. intros L [[no ni] np] HL Hk. unfold gen_addPointsAndSnap_range6.
      destruct (DedupeGen.gen_dedupeInnersOuters _ _) as [oi | e]; cbn [bind]; [| exact I]. cbv zeta.
      destruct (RingHelpersGen.gen_outersToPolygons _) as [ops | e]; cbn [bind]; [| exact I].
      destruct (MatchGen.gen_matchInnersToPolygons _ _ _) as [ps | e]; cbn [bind]; [| exact I].
      destruct (RingHelpersGen.gen_reverseWindingOrderIfConfigured _ _) as [ps' | e]; cbn [bind]; [| exact I].
      destruct (0 <? zlen ps'); cbn [bind]; [| exact Hk]. apply aset_keys_incl; [apply Hl, HL | exact Hk]. }
    destruct (range_loop (gen_addPointsAndSnap_range6 P cfg) l gs) as [[[[no' ni'] np'] | x] | e]; exact Hs.
  Qed.

  Lemma pl_inner_keys lv0 L pls : In L lv0 -> forall np, incl (lv_keys np) lv0 -> incl (lv_keys (pl_inner L pls np)) lv0.
  Proof.
    intro HL. unfold pl_inner. induction pls as [| p pls IH]; intros np H; cbn [fold_left]; [exact H |].
    apply IH, aset_keys_incl; assumption.
  Qed.

  Lemma pl_outer_keys lv0 (npl : list (nat * list (list pt))) ks : incl ks lv0 -> forall np, incl (lv_keys np) lv0 ->
    incl (lv_keys (fold_left (fun np L => pl_inner L (aget npl L []) np) ks np)) lv0.
  Proof.
    induction ks as [| k ks IH]; intros Hk np H; cbn [fold_left]; [exact H |].
    apply IH; [intros x Hx; apply Hk; right; exact Hx |]. apply pl_inner_keys; [apply Hk; left; reflexivity | exact H].
  Qed.

  Lemma gen_addPointsAndSnap_keys ix P levels np : NoDup levels ->
    gen_addPointsAndSnap gord ix P levels cfg = Ok np -> incl (lv_keys np) levels.
  Proof.
    intros ND. unfold gen_addPointsAndSnap. cbv zeta. rewrite (as_keys_NoDup _ ND).
    pose proof (range1_keys levels (go_enumerate 0 (polygon_linear_rings P)) (ix, levels, [], [], [])
                  (conj (incl_refl _) (fun x (H : In x []) => match H with end))) as H1.
    destruct (range_loop (gen_addPointsAndSnap_range1 gord cfg) _ _) as [[[[[[ix1 alive] no] ni] npl] | x] | e]; cbn [bind];
      try discriminate.
    - destruct H1 as [Ha Hk].
      assert (Hl : incl (gord GSite6 alive) levels) by (intros x Hx; apply gord_In in Hx; apply Ha, Hx).
      pose proof (range6_keys levels P _ (no, ni, []) Hl (fun x (H : In x []) => match H with end)) as H6.
      destruct (range_loop (gen_addPointsAndSnap_range6 P cfg) _ _) as [[[[no' ni'] np1] | x] | e]; cbn [bind]; try discriminate.
      + rewrite range7_fold. cbn [bind]. unfold geom_polygons_for_all_keys. intro E. injection E as <-.
        apply pl_outer_keys; [| exact H6]. intros x Hx. apply gord_In in Hx. apply Hk, Hx.
      + contradiction.
    - contradiction.
  Qed.
End Proofs.

Theorem gen_addPointsAndSnap_tie gord g hots cfg P levels :
  (forall s l, Permutation (gord s l) l) -> NoDup levels ->
  (do np <- gen_addPointsAndSnap gord (mkPIndex g hots []) P levels cfg;
   Ok (map (fun L => (L, afind np L)) levels))
  = addPointsAndSnapI (site_order gord) g hots cfg P levels.
Proof. intros Hp ND. exact (gen_addPointsAndSnap_spec gord Hp g hots cfg P levels ND). Qed.

(** with C08_levels_do_not_interact: the regenerated function computes, level by level, the per-level model *)
Theorem gen_addPointsAndSnap_per_level gord g hots cfg P levels :
  (forall s l, Permutation (gord s l) l) -> NoDup levels ->
  forall rs,
    (do np <- gen_addPointsAndSnap gord (mkPIndex g hots []) P levels cfg; Ok (map (fun L => (L, afind np L)) levels)) = Ok rs
    <-> mapM (fun L => do r <- snapLevel g hots P cfg L; Ok (L, r)) levels = Ok rs.
Proof.
  intros Hp ND rs. rewrite (gen_addPointsAndSnap_spec gord Hp g hots cfg P levels ND).
  apply (levels_do_not_interact (site_order gord) g hots cfg P levels); [| exact ND].
  intros [r v | r v | r | |] l; apply Hp.
Qed.

(** ** tileMatrixIDsByLevels: the regenerated function builds the map level -> tile matrix id with the level
       arithmetic of the TMS model ([Tms.Model.deepestLevel]: uint(tmID) + levelDiff, 64-bit wrap-around included) *)
Definition tmIDsByLevels (tw : Z) (tmIDs : list Z) : list (nat * Z) :=
  fold_left (fun m id => aset m (Z.to_nat (Tms.Model.deepestLevel tw id)) id) tmIDs [].

Lemma tmids_range1_fold diff l : forall m,
  range_loop (gen_tileMatrixIDsByLevels_range1 diff) l m
  = Ok (Next (fold_left (fun m id => aset m (Z.to_nat (GoTms.uint_add (id mod Tms.Model.two64) diff)) id) l m)).
Proof.
  induction l as [| id l IH]; intro m; cbn [range_loop fold_left]; [reflexivity |].
  unfold gen_tileMatrixIDsByLevels_range1 at 1. cbv zeta. apply IH.
Qed.

Theorem gen_tileMatrixIDsByLevels_spec view tmIDs :
  gen_tileMatrixIDsByLevels view tmIDs = Ok (tmIDsByLevels (tvRootTileWidth view) tmIDs).
Proof. unfold gen_tileMatrixIDsByLevels. cbv zeta. rewrite tmids_range1_fold. reflexivity. Qed.

Lemma tmIDsByLevels_keys tw tmIDs :
  NoDup (lv_keys (tmIDsByLevels tw tmIDs)) /\
  forall L, In L (lv_keys (tmIDsByLevels tw tmIDs)) ->
            Z.to_nat (Tms.Model.deepestLevel tw (aget (tmIDsByLevels tw tmIDs) L 0)) = L.
Proof.
  unfold tmIDsByLevels.
  assert (G : forall l m, (NoDup (lv_keys m) /\ forall L, In L (lv_keys m) -> Z.to_nat (Tms.Model.deepestLevel tw (aget m L 0)) = L) ->
            let m' := fold_left (fun m id => aset m (Z.to_nat (Tms.Model.deepestLevel tw id)) id) l m in
            NoDup (lv_keys m') /\ forall L, In L (lv_keys m') -> Z.to_nat (Tms.Model.deepestLevel tw (aget m' L 0)) = L).
  { induction l as [| id l IH]; intros m H; cbn [fold_left]; [exact H |].
    apply IH. destruct H as [ND H]. split; [apply aset_keys_NoDup, ND |].
    intros L HL. rewrite aget_aset. destruct (Nat.eqb_spec L (Z.to_nat (Tms.Model.deepestLevel tw id))) as [-> | N]; [reflexivity |].
    apply H. apply aset_keys_In in HL. destruct HL as [-> | HL]; [contradiction | exact HL]. }
  apply (G tmIDs []). split; [constructor | intros L []].
Qed.

(** ** SnapPolygon *)
Lemma gm_get_set {V} (m : list (Z * V)) k v k' :
  gm_get Z.eqb (gm_set Z.eqb m k v) k' = if k' =? k then Some v else gm_get Z.eqb m k'.
Proof.
  induction m as [| [k0 v0] m IH]; cbn [gm_set gm_get].
  - reflexivity.
  - destruct (Z.eqb_spec k k0) as [-> | N]; cbn [gm_get].
    + destruct (k' =? k0); reflexivity.
    + rewrite IH. destruct (Z.eqb_spec k' k0) as [-> | N']; [| reflexivity].
      destruct (Z.eqb_spec k0 k); [congruence | reflexivity].
Qed.

Lemma afind_keys {A} (m : list (nat * A)) L d : afind m L = if mem_nat L (lv_keys m) then Some (aget m L d) else None.
Proof.
  unfold lv_keys, mem_nat. induction m as [| [k v] m IH]; cbn [afind aget map fst existsb]; [reflexivity |].
  destruct (Nat.eqb L k); cbn [orb]; [reflexivity | exact IH].
Qed.

Lemma flat_map_map {A B C} (f : B -> list C) (h : A -> B) l : flat_map f (map h l) = flat_map (fun x => f (h x)) l.
Proof. induction l as [| a l IH]; cbn [map flat_map]; [reflexivity | rewrite IH; reflexivity]. Qed.

Lemma flat_map_ext_in {A B} (f h : A -> list B) l : (forall x, In x l -> f x = h x) -> flat_map f l = flat_map h l.
Proof.
  induction l as [| a l IH]; intro H; cbn [flat_map]; [reflexivity |].
  rewrite (H a (or_introl eq_refl)), IH; [reflexivity |]. intros x Hx. apply H. right. exact Hx.
Qed.

Definition read_by_level (byLevel : list (nat * Z)) (levels : list nat) (out : list (Z * list (list (list pt))))
  : list (nat * list polygon) :=
  flat_map (fun L => match gm_get Z.eqb out (aget byLevel L 0) with Some ps => [(L, ps)] | None => [] end) levels.

Lemma snap_polygon_range1_fold l : forall acc, range_loop gen_SnapPolygon_range1 l acc = Ok (Next (acc ++ l)).
Proof.
  induction l as [| k l IH]; intro acc; cbn [range_loop]; [rewrite app_nil_r; reflexivity |].
  unfold gen_SnapPolygon_range1 at 1. rewrite IH, <- app_assoc. reflexivity.
Qed.

Lemma snap_polygon_range2_fold byLevel np ks : forall out,
  range_loop (gen_SnapPolygon_range2 byLevel np) ks out
  = Ok (Next (fold_left (fun out L => gm_set Z.eqb out (aget byLevel L 0) (aget np L [])) ks out)).
Proof.
  induction ks as [| k ks IH]; intro out; cbn [range_loop fold_left]; [reflexivity |].
  unfold gen_SnapPolygon_range2 at 1. cbv zeta. apply IH.
Qed.

Lemma rekey_get (byLevel : list (nat * Z)) (np : list (nat * list (list (list pt)))) (S : nat -> Prop) L0 :
  (forall L L', S L -> S L' -> aget byLevel L 0 = aget byLevel L' 0 -> L = L') -> S L0 ->
  forall ks out, (forall L, In L ks -> S L) ->
  gm_get Z.eqb (fold_left (fun out L => gm_set Z.eqb out (aget byLevel L 0) (aget np L [])) ks out) (aget byLevel L0 0)
  = if mem_nat L0 ks then Some (aget np L0 []) else gm_get Z.eqb out (aget byLevel L0 0).
Proof.
  intros Hinj H0. induction ks as [| a ks IH]; intros out Hks; cbn [fold_left]; [reflexivity |].
  rewrite IH by (intros L HL; apply Hks; right; exact HL).
  unfold mem_nat. cbn [existsb]. fold (mem_nat L0 ks).
  destruct (mem_nat L0 ks) eqn:E.
  - rewrite orb_true_r. reflexivity.
  - rewrite orb_false_r, gm_get_set. destruct (Nat.eqb_spec L0 a) as [-> | N].
    + rewrite Z.eqb_refl. reflexivity.
    + destruct (Z.eqb_spec (aget byLevel L0 0) (aget byLevel a 0)) as [Eq | _]; [| reflexivity].
      exfalso. apply N. apply Hinj; [exact H0 | apply Hks; left; reflexivity | exact Eq].
Qed.

Lemma read_by_level_nil byLevel levels : read_by_level byLevel levels [] = [].
Proof. unfold read_by_level. induction levels as [| a l IH]; [reflexivity | exact IH]. Qed.

Theorem gen_SnapPolygon_spec gord view tmIDs P cfg :
  (forall s l, Permutation (gord s l) l) ->
  let byLevel := tmIDsByLevels (tvRootTileWidth view) tmIDs in
  let levels := gord GSite8 (lv_keys byLevel) in
  (do out <- gen_SnapPolygon gord P view tmIDs cfg; Ok (read_by_level byLevel levels out))
  = (do d <- go_slices_max tmIDs; do g <- tvIndex view d; snapPolygonI (site_order gord) g P levels cfg).
Proof.
  intros Hp byLevel levels. unfold gen_SnapPolygon.
  destruct (go_slices_max tmIDs) as [d | e]; cbn [bind]; [| reflexivity]. cbv zeta.
  unfold px_FromTileMatrixSet. destruct (tvIndex view d) as [g | e]; cbn [bind]; [| reflexivity].
  rewrite gen_tileMatrixIDsByLevels_spec. cbn [bind]. fold byLevel.
  rewrite snap_polygon_range1_fold. cbn [bind app]. fold levels.
  destruct (tmIDsByLevels_keys (tvRootTileWidth view) tmIDs) as [NDk Hlev]. fold byLevel in NDk, Hlev.
  assert (NDl : NoDup levels) by (eapply Permutation_NoDup; [apply Permutation_sym, Hp | exact NDk]).
  assert (Hin : forall L, In L levels <-> In L (lv_keys byLevel))
    by (intro L; split; apply Permutation_in; [apply Hp | apply Permutation_sym, Hp]).
  pose proof (read_by_level_nil byLevel levels) as Hempty.
  unfold px_InsertPolygon, snapPolygonI. cbn [pxGrid pxHits].
  destruct (insertPolygon g P) as [hs | e].
  - cbn [bind fst snd].
    pose proof (gen_addPointsAndSnap_spec gord Hp g (hotLevels g hs) cfg P levels NDl) as Hmain.
    pose proof (gen_addPointsAndSnap_keys gord Hp cfg (mkPIndex g (hotLevels g hs) []) P levels) as Hkeys.
    destruct (gen_addPointsAndSnap gord (mkPIndex g (hotLevels g hs) []) P levels cfg) as [np | e]; cbn [bind] in *.
    + rewrite <- Hmain. cbn [bind]. cbv zeta. rewrite snap_polygon_range2_fold. cbn [bind]. f_equal.
      rewrite flat_map_map. unfold read_by_level. apply flat_map_ext_in. intros L0 HL0. cbn [fst snd].
      specialize (Hkeys np NDl eq_refl).
      rewrite (rekey_get byLevel np (fun L => In L (lv_keys byLevel)) L0).
      * cbn [gm_get]. rewrite (afind_keys np L0 []).
        replace (mem_nat L0 (gord GSite9 (lv_keys np))) with (mem_nat L0 (lv_keys np)); [destruct (mem_nat L0 (lv_keys np)); reflexivity |].
        destruct (mem_nat L0 (lv_keys np)) eqn:E1; destruct (mem_nat L0 (gord GSite9 (lv_keys np))) eqn:E2; try reflexivity.
        -- apply mem_nat_In in E1. apply (Permutation_in _ (Permutation_sym (Hp GSite9 _))) in E1. apply mem_nat_In in E1. congruence.
        -- apply mem_nat_In in E2. apply (Permutation_in _ (Hp GSite9 _)) in E2. apply mem_nat_In in E2. congruence.
      * intros L L' HL HL' Eq. rewrite <- (Hlev L HL), <- (Hlev L' HL'), Eq. reflexivity.
      * apply Hin, HL0.
      * intros L HL. apply Hin, Hkeys. apply (Permutation_in _ (Hp GSite9 _)), HL.
    + rewrite <- Hmain. reflexivity.
  - destruct e; cbn [bind fst snd andb]; try reflexivity.
    destruct (ignoreOutsideGrid cfg); cbn [bind]; [rewrite Hempty |]; reflexivity.
Qed.

(** without wrap-around the level of tile matrix [id] is id + log2(root tile width) + log2(16) *)
Lemma deepestLevel_plain tw id : 1 <= tw -> 0 <= id -> id + Z.log2 tw + 4 < 2 ^ 64 ->
  Tms.Model.deepestLevel tw id = id + Z.log2 tw + 4.
Proof.
  intros Htw Hid Hb. unfold Tms.Model.deepestLevel, Tms.Model.levelDiff, Tms.Model.go_log2_uint, Tms.Model.two64.
  destruct (Z.leb_spec tw 0) as [H | _]; [lia |].
  change (Z.log2 ConstsGen.gen_VectorTileInternalPixelResolution) with 4.
  change (ConstsGen.gen_VectorTileInternalPixelResolution <=? 0) with false. cbv iota.
  pose proof (Z.log2_nonneg tw) as Hl.
  rewrite (Z.mod_small id) by lia. rewrite (Z.mod_small (Z.log2 tw + 4)) by lia. rewrite Z.mod_small by lia. lia.
Qed.
