(** * Tie G2 (loops): dedupeInnersOuters (snap.go), mapslicehelp.CountVals and mapslicehelp.DeleteFromSliceByIndex
      REGENERATED from source on every run (gen/DedupeGen.v) are the model's [dedupeInnersOuters] (Snap/Model.v):
      equal results for ALL lists of outer and inner rings, every outcome ([Err] included).

    Same translation as gen/KmpGen.v / gen/KmpDedupGen.v (error monad, one Fixpoint on fuel per [for] loop over the
    variables it assigns, 3-clause [for], [continue], branches that assign as local continuations).  Kept as calls of
    a micro-model, after the translator has checked on the AST that the source has exactly this shape (TRUSTED BASE):
    - the builtin map used as a set: [make(map[int]IsOuter)] = [[]], [M[k] = v] = [imap_set], [_, ok := M[k]] =
      [imap_has], [len(M)] = [imap_len] (Prelude/GoMap.v: an association list with unique keys; [type IsOuter = bool]
      is checked; copying a map variable, writing to a map parameter and ranging over a map are refused);
    - go-ordered-map/v2: [orderedmap.New[int, IsOuter](orderedmap.WithInitialData(orderedmap.Pair[int, IsOuter]{Key: k,
      Value: v}))] = [omap_set [] k v], [X.Set(k, v)] = [omap_set] (an existing key keeps its place, a new one goes
      to the back), [X.Len()] = [omap_len], [for p := X.Oldest(); p != nil; p = p.Next()] = [range_loop] over the
      entries in order with [p.Key] = [fst p], [p.Value] = [snd p];
    - [int(math.Abs(float64(a) - float64(b)))] on two [int] = [Z.abs (a - b)] (counts of rings, far below 2^53);
    - [ringsAreEqual(ringI, ringJ, iIsOuter, jIsOuter)] = the MODEL's [ringsAreEqual] (signature checked; tied to
      the source separately);
    - [int] is exact Z, [[2]float64] is [pt]; the two generic helpers are translated at the instantiation
      dedupeInnersOuters calls them with (CountVals at K = int, V = bool; DeleteFromSliceByIndex at
      V = [][2]float64, X = bool), [for i := range s] as [range_loop] over 0 .. len s - 1, [make([]V, 0, n)] as [[]].
    What the proof adds: the model keeps the two Go maps as lists of keys with repetitions allowed and appends to
    the ordered map; the generated code updates association lists in place.  They agree on membership
    ([agree]), which is all the code observes; the keys [Set] receives are new, so [omap_set] appends; the loops'
    fuel ([S lenAll]) never runs out; the early [return outers, inners] is the filter with nothing to delete. *)
From Coq Require Import ZArith List Bool Lia.
From Texel Require Import Prelude.Base Prelude.GoLoop Prelude.GoMap Index.Model Snap.Model Snap.ProofsKmpSearch.
From Texel.Gen Require Import DedupeGen.
Import ListNotations.
Open Scope Z_scope.

(** ** association lists *)
Lemma assoc_has_app m1 m2 k : assoc_has (m1 ++ m2) k = assoc_has m1 k || assoc_has m2 k.
Proof. unfold assoc_has. apply existsb_app. Qed.

Lemma assoc_has_replace m k v k' :
  assoc_has (map (fun e : Z * bool => if fst e =? k then (k, v) else e) m) k' = assoc_has m k'.
Proof.
  unfold assoc_has. induction m as [| [a b] m IH]; [reflexivity |].
  cbn [map existsb fst]. rewrite IH. f_equal.
  destruct (Z.eqb_spec a k) as [-> | Hne]; reflexivity.
Qed.

Lemma assoc_has_set m k v k' : assoc_has (assoc_set m k v) k' = assoc_has m k' || (k =? k').
Proof.
  unfold assoc_set. destruct (assoc_has m k) eqn:Hk.
  - rewrite assoc_has_replace. destruct (Z.eqb_spec k k') as [<- | _]; [rewrite Hk; reflexivity | rewrite orb_false_r; reflexivity].
  - rewrite assoc_has_app. f_equal. unfold assoc_has. cbn [existsb fst]. apply orb_false_r.
Qed.

Lemma assoc_set_fresh m k v : (forall e, In e m -> fst e < k) -> assoc_set m k v = m ++ [(k, v)].
Proof.
  intro Hlt. unfold assoc_set. destruct (assoc_has m k) eqn:Hk; [| reflexivity].
  unfold assoc_has in Hk. apply existsb_exists in Hk. destruct Hk as (e & Hin & Heq).
  apply Z.eqb_eq in Heq. specialize (Hlt e Hin). lia.
Qed.

(** the generated map [gm] and the model's key list [ml] have the same members *)
Definition agree (gm : imap) (ml : list Z) : Prop := forall k, imap_has gm k = mem_Z k ml.

Lemma agree_nil : agree [] [].
Proof. intro k. reflexivity. Qed.

Lemma agree_set gm ml k v : agree gm ml -> agree (imap_set gm k v) (ml ++ [k]).
Proof.
  intros H k'. unfold imap_set, imap_has in *. rewrite assoc_has_set, H. unfold mem_Z.
  rewrite existsb_app. cbn [existsb]. rewrite orb_false_r. f_equal. apply Z.eqb_sym.
Qed.

Lemma agree_empty gm ml : agree gm ml -> imap_len gm = 0 -> forall k, mem_Z k ml = false.
Proof.
  intros H Hl k. rewrite <- H. destruct gm; [reflexivity |].
  unfold imap_len in Hl. rewrite zlen_cons in Hl. pose proof (zlen_nonneg gm). lia.
Qed.

(** ** integer ranges *)
Definition zrange (j : Z) (n : nat) : list Z := map (fun k => j + Z.of_nat k) (seq 0 n).

Lemma zrange_cons j n : zrange j (S n) = j :: zrange (j + 1) n.
Proof.
  unfold zrange. cbn [seq map]. f_equal; [lia |].
  rewrite <- seq_shift, map_map. apply map_ext. intro k. lia.
Qed.

Lemma zrange_0 n : map Z.of_nat (seq 0 n) = zrange 0 n.
Proof. unfold zrange. apply map_ext. intro k. lia. Qed.

Lemma idx_app_mid {A} (pre : list A) a suf : idx (pre ++ a :: suf) (Z.of_nat (length pre)) = Ok a.
Proof.
  unfold idx. destruct (Z.ltb_spec (Z.of_nat (length pre)) 0); [lia |].
  rewrite Nat2Z.id, nth_error_app2 by lia. rewrite Nat.sub_diag. reflexivity.
Qed.

(** ** mapslicehelp.CountVals *)
Lemma gen_CountVals_loop v : forall (m : omap) n,
  range_loop (R := Z)
    (fun (p : Z * bool) (n : Z) => if Bool.eqb (snd p) v then Ok (Cont (n + 1)) else Ok (Cont n)) m n
  = Ok (Next (n + zlen (filter (fun e => Bool.eqb (snd e) v) m))).
Proof.
  induction m as [| p m IH]; intro n; cbn [range_loop filter].
  - rewrite zlen_nil, Z.add_0_r. reflexivity.
  - destruct (Bool.eqb (snd p) v); rewrite IH; [rewrite zlen_cons; do 2 f_equal; lia | reflexivity].
Qed.

Theorem gen_CountVals_spec m v : gen_CountVals m v = Ok (zlen (filter (fun e => Bool.eqb (snd e) v) m)).
Proof. unfold gen_CountVals. cbv zeta. rewrite gen_CountVals_loop. reflexivity. Qed.

Lemma count_true (m : list (Z * bool)) :
  filter (fun e => Bool.eqb (snd e) true) m = filter (fun e => snd e) m.
Proof. apply filter_ext. intros [a []]; reflexivity. Qed.

Lemma count_false (m : list (Z * bool)) :
  filter (fun e => Bool.eqb (snd e) false) m = filter (fun e => negb (snd e)) m.
Proof. apply filter_ext. intros [a []]; reflexivity. Qed.

(** ** mapslicehelp.DeleteFromSliceByIndex *)
Lemma gen_Delete_loop (gd : imap) (md : list Z) off : agree gd md ->
  forall (suf pre r : list (list pt)),
  range_loop (R := list (list pt))
    (fun (i : Z) (r : list (list pt)) =>
       if imap_has gd (i + off) then Ok (Cont r)
       else do t <- idx (pre ++ suf) i; Ok (Cont (r ++ [t])))
    (map Z.of_nat (seq (length pre) (length suf))) r
  = Ok (Next (r ++ filter_idx suf (Z.of_nat (length pre) + off) md)).
Proof.
  intros Hag. induction suf as [| a suf IH]; intros pre r.
  - cbn [length seq map range_loop filter_idx]. rewrite app_nil_r. reflexivity.
  - cbn [length seq map range_loop filter_idx]. rewrite Hag.
    replace (pre ++ a :: suf) with ((pre ++ [a]) ++ suf) by (rewrite <- app_assoc; reflexivity).
    replace (S (length pre)) with (length (pre ++ [a])) by (rewrite app_length; cbn [length]; lia).
    replace (Z.of_nat (length pre) + off + 1) with (Z.of_nat (length (pre ++ [a])) + off)
      by (rewrite app_length; cbn [length]; lia).
    destruct (mem_Z (Z.of_nat (length pre) + off) md).
    + apply IH.
    + replace ((pre ++ [a]) ++ suf) with (pre ++ a :: suf) at 1 by (rewrite <- app_assoc; reflexivity).
      rewrite idx_app_mid. cbn [bind].
      replace (pre ++ a :: suf) with ((pre ++ [a]) ++ suf) by (rewrite <- app_assoc; reflexivity).
      rewrite IH. rewrite <- app_assoc. reflexivity.
Qed.

Theorem gen_DeleteFromSliceByIndex_spec s gd md off : agree gd md ->
  gen_DeleteFromSliceByIndex s gd off = Ok (filter_idx s off md).
Proof.
  intro Hag. unfold gen_DeleteFromSliceByIndex. cbv zeta.
  pose proof (gen_Delete_loop gd md off Hag s [] []) as H. cbn [app length] in H.
  change (Z.of_nat 0 + off) with off in H. rewrite H. reflexivity.
Qed.

Lemma filter_idx_none {A} (l : list A) del : (forall k, mem_Z k del = false) -> forall k, filter_idx l k del = l.
Proof.
  intro H. induction l as [| a l IH]; intro k; cbn [filter_idx]; [reflexivity |].
  rewrite H, IH. reflexivity.
Qed.

(** ** the model's step, with its local definitions named *)
Definition ringOf (outs ins : list ring) (j : Z) : res ring :=
  if j <? zlen outs then idx outs j else idx ins (j - zlen outs).

Definition eqStep (outs ins : list ring) (processed : list Z) (ringI : ring) (iIsOuter : bool)
    (acc : list (Z * bool)) (j : Z) : res (list (Z * bool)) :=
  if mem_Z j processed then Ok acc
  else do ringJ <- ringOf outs ins j;
       do e <- ringsAreEqual ringI ringJ iIsOuter (j <? zlen outs);
       Ok (if e then acc ++ [(j, j <? zlen outs)] else acc).

Definition markStep (acc : list Z * list Z * Z * Z) (e : Z * bool) : list Z * list Z * Z * Z :=
  let '(p, d, dO, dI) := acc in
  if snd e && (0 <? dO) then (p ++ [fst e], d ++ [fst e], dO - 1, dI)
  else if negb (snd e) && (0 <? dI) then (p ++ [fst e], d ++ [fst e], dO, dI - 1)
  else (p ++ [fst e], d, dO, dI).

Lemma dedupeStep_unfold outs ins processed toDelete i :
  dedupeStep outs ins (processed, toDelete) i =
  if mem_Z i processed then Ok (processed, toDelete)
  else
    do ringI <- ringOf outs ins i;
    do equals <- foldM (eqStep outs ins processed ringI (i <? zlen outs))
                   (zrange (i + 1) (Z.to_nat (zlen outs + zlen ins - (i + 1)))) [(i, i <? zlen outs)];
    if (length equals <=? 1)%nat then Ok (processed, toDelete)
    else
      let nO := zlen (filter (fun e => snd e) equals) in
      let nI := zlen (filter (fun e => negb (snd e)) equals) in
      let delO0 := if nO =? nI then nO - 1 else Z.min nO nI in
      let delI0 := if nO =? nI then nI - 1 else Z.min nO nI in
      let '(p', d', _, _) := fold_left markStep equals (processed, toDelete, delO0, delI0) in
      Ok (p', d').
Proof.
  unfold dedupeStep, zrange.
  replace (zlen outs + zlen ins - i - 1) with (zlen outs + zlen ins - (i + 1)) by lia.
  reflexivity.
Qed.

Lemma ringOf_in_range outs ins i : 0 <= i < zlen outs + zlen ins -> exists r, ringOf outs ins i = Ok r.
Proof.
  intro Hi. unfold ringOf. destruct (Z.ltb_spec i (zlen outs)); apply idx_in_range; lia.
Qed.

Lemma if_bind {A B} (c : bool) (x y : res A) (K : A -> res B) :
  (if c then bind x K else bind y K) = bind (if c then x else y) K.
Proof. destruct c; reflexivity. Qed.

(** ** the loop over j (loop 2): collects the rings equal to ring i *)
Lemma gen_inner_loop outs ins gp gd mp i ringI : agree gp mp -> ringOf outs ins i = Ok ringI ->
  forall fuel j (eq : omap),
  (Z.to_nat (zlen outs + zlen ins - j) < fuel)%nat -> (forall e, In e eq -> fst e < j) ->
  exists j',
    gen_dedupeInnersOuters_loop2 outs ins (zlen outs) (zlen ins) (zlen outs + zlen ins) gp gd i (i <? zlen outs) fuel eq j
    = match foldM (eqStep outs ins mp ringI (i <? zlen outs)) (zrange j (Z.to_nat (zlen outs + zlen ins - j))) eq with
      | Ok eq' => Ok (Next (eq', j'))
      | Err e => Err e
      end.
Proof.
  intros Hag Hri. induction fuel as [| fuel IH]; intros j eq Hf Hlt; [lia |].
  cbn [gen_dedupeInnersOuters_loop2]. cbv zeta beta.
  destruct (Z.ltb_spec j (zlen outs + zlen ins)) as [Hj | Hj].
  2: { replace (Z.to_nat (zlen outs + zlen ins - j)) with 0%nat by lia. exists j. reflexivity. }
  replace (Z.to_nat (zlen outs + zlen ins - j)) with (S (Z.to_nat (zlen outs + zlen ins - (j + 1)))) by lia.
  rewrite zrange_cons. cbn [foldM]. unfold eqStep at 1. rewrite (Hag j).
  destruct (mem_Z j mp); cbn [bind].
  { apply IH; [lia |]. intros e He. specialize (Hlt e He). lia. }
  (* ring i is read again in every iteration *)
  assert (HR : forall k, (if k <? zlen outs then @idx (list pt) outs k else @idx (list pt) ins (k - zlen outs))
                         = ringOf outs ins k) by reflexivity.
  rewrite if_bind, HR, Hri. cbn [bind]. rewrite if_bind, HR.
  destruct (ringOf outs ins j) as [ringJ | e]; cbn [bind]; [| exists 0; reflexivity].
  destruct (ringsAreEqual ringI ringJ (i <? zlen outs) (j <? zlen outs)) as [[|] | e]; cbn [bind negb];
    [| | exists 0; reflexivity].
  all: try (unfold omap_set; rewrite (assoc_set_fresh eq j _ Hlt)).
  all: apply IH; [lia |]; intros e He; try (apply in_app_or in He; destruct He as [He | [<- | []]]; [| cbn [fst]; lia]);
       specialize (Hlt e He); lia.
Qed.

(** ** the loop over the equal rings (the iteration from Oldest()): marks processed / to delete *)
Lemma gen_mark_loop : forall (equals : omap) gp gd mp md dO dI, agree gp mp -> agree gd md ->
  exists gp' gd' dO' dI',
    range_loop (R := list (list pt) * list (list pt))
      (fun (v_p : Z * bool) '((v_processedIndexes, v_indexesToDelete, v_numOutersToDelete, v_numInnersToDelete) : imap * imap * Z * Z) =>
         if snd v_p && (0 <? v_numOutersToDelete)
         then Ok (Cont (imap_set v_processedIndexes (fst v_p) (snd v_p), imap_set v_indexesToDelete (fst v_p) (snd v_p),
                        v_numOutersToDelete - 1, v_numInnersToDelete))
         else if negb (snd v_p) && (0 <? v_numInnersToDelete)
         then Ok (Cont (imap_set v_processedIndexes (fst v_p) (snd v_p), imap_set v_indexesToDelete (fst v_p) (snd v_p),
                        v_numOutersToDelete, v_numInnersToDelete - 1))
         else Ok (Cont (imap_set v_processedIndexes (fst v_p) (snd v_p), v_indexesToDelete,
                        v_numOutersToDelete, v_numInnersToDelete)))
      equals (gp, gd, dO, dI)
    = Ok (Next (gp', gd', dO', dI')) /\
    agree gp' (fst (fst (fst (fold_left markStep equals (mp, md, dO, dI))))) /\
    agree gd' (snd (fst (fst (fold_left markStep equals (mp, md, dO, dI))))).
Proof.
  induction equals as [| e equals IH]; intros gp gd mp md dO dI Hp Hd.
  - exists gp, gd, dO, dI. cbn [range_loop fold_left fst snd]. auto.
  - cbn [range_loop fold_left]. unfold markStep at 2 4.
    destruct (snd e && (0 <? dO)); [| destruct (negb (snd e) && (0 <? dI))];
      apply IH; try apply agree_set; assumption.
Qed.

(** ** the loop over i (loop 1) *)
Lemma zlen_leb1 {A} (l : list A) : (zlen l <=? 1) = (length l <=? 1)%nat.
Proof. unfold zlen. destruct (Z.leb_spec (Z.of_nat (length l)) 1), (Nat.leb_spec (length l) 1); try reflexivity; lia. Qed.

Lemma abs_sub_eqb0 a b : (Z.abs (a - b) =? 0) = (a =? b).
Proof. destruct (Z.eqb_spec (Z.abs (a - b)) 0), (Z.eqb_spec a b); try reflexivity; lia. Qed.

Lemma gen_outer_loop outs ins : forall fuel i gp gd mp md,
  (Z.to_nat (zlen outs + zlen ins - i) < fuel)%nat -> 0 <= i -> agree gp mp -> agree gd md ->
  match foldM (dedupeStep outs ins) (zrange i (Z.to_nat (zlen outs + zlen ins - i))) (mp, md) with
  | Ok st' =>
      exists gp' gd' i',
        gen_dedupeInnersOuters_loop1 outs ins (zlen outs) (zlen ins) (zlen outs + zlen ins) fuel gp gd i
        = Ok (Next (gp', gd', i')) /\ agree gp' (fst st') /\ agree gd' (snd st')
  | Err e =>
      gen_dedupeInnersOuters_loop1 outs ins (zlen outs) (zlen ins) (zlen outs + zlen ins) fuel gp gd i = Err e
  end.
Proof.
  induction fuel as [| fuel IH]; intros i gp gd mp md Hf Hi Hp Hd; [lia |].
  cbn [gen_dedupeInnersOuters_loop1]. cbv zeta.
  destruct (Z.ltb_spec i (zlen outs + zlen ins)) as [Hlt | Hge].
  2: { replace (Z.to_nat (zlen outs + zlen ins - i)) with 0%nat by lia. cbn [zrange seq map foldM].
       exists gp, gd, i. cbn [fst snd]. auto. }
  replace (Z.to_nat (zlen outs + zlen ins - i)) with (S (Z.to_nat (zlen outs + zlen ins - (i + 1)))) by lia.
  rewrite zrange_cons. cbn [foldM]. rewrite dedupeStep_unfold. rewrite (Hp i).
  destruct (mem_Z i mp); cbn [bind].
  { apply IH; [lia | lia | assumption | assumption]. }
  destruct (ringOf_in_range outs ins i (conj Hi Hlt)) as [ringI Hri]. rewrite Hri. cbn [bind].
  change (omap_set [] i (i <? zlen outs)) with [(i, i <? zlen outs)].
  destruct (gen_inner_loop outs ins gp gd mp i ringI Hp Hri (S (Z.to_nat (zlen outs + zlen ins))) (i + 1) [(i, i <? zlen outs)])
    as [j' ->]; [lia | intros e [<- | []]; cbn [fst]; lia |].
  destruct (foldM (eqStep outs ins mp ringI (i <? zlen outs)) (zrange (i + 1) (Z.to_nat (zlen outs + zlen ins - (i + 1))))
              [(i, i <? zlen outs)]) as [equals | e]; cbn [bind]; [| reflexivity].
  unfold omap_len. rewrite zlen_leb1.
  destruct (length equals <=? 1)%nat.
  { apply IH; [lia | lia | assumption | assumption]. }
  rewrite !gen_CountVals_spec. cbn [bind]. rewrite (count_true equals), (count_false equals), abs_sub_eqb0. cbv zeta beta.
  set (nO := zlen (filter (fun e => snd e) equals)). set (nI := zlen (filter (fun e => negb (snd e)) equals)).
  destruct (nO =? nI); cbv iota;
    match goal with |- context [fold_left markStep equals (mp, md, ?dO, ?dI)] =>
      destruct (gen_mark_loop equals gp gd mp md dO dI Hp Hd) as (gp' & gd' & dO' & dI' & -> & Hp' & Hd');
      destruct (fold_left markStep equals (mp, md, dO, dI)) as [[[p' d'] a] b]
    end;
    cbn [bind fst snd] in *; (apply IH; [lia | lia | assumption | assumption]).
Qed.

(** ** dedupeInnersOuters: every pair of ring lists, every outcome *)
Theorem gen_dedupeInnersOuters_spec outs ins : gen_dedupeInnersOuters outs ins = dedupeInnersOuters outs ins.
Proof.
  unfold gen_dedupeInnersOuters, dedupeInnersOuters. cbv zeta.
  pose proof (zlen_nonneg outs) as HO. pose proof (zlen_nonneg ins) as HI.
  assert (Hf : (Z.to_nat (zlen outs + zlen ins - 0) < S (Z.to_nat (zlen outs + zlen ins)))%nat) by lia.
  pose proof (gen_outer_loop outs ins (S (Z.to_nat (zlen outs + zlen ins))) 0 [] [] [] [] Hf (Z.le_refl 0)
                agree_nil agree_nil) as H.
  rewrite Z.sub_0_r in H. rewrite zrange_0. unfold ring in *. revert H.
  match goal with |- match ?X with _ => _ end -> _ => destruct X as [[mp md] | e] end; intro H.
  - destruct H as (gp' & gd' & i' & -> & _ & Hd). cbn [bind snd] in *.
    destruct (Z.eqb_spec (imap_len gd') 0) as [Hz | Hnz].
    + pose proof (agree_empty gd' md Hd Hz) as Hnone. rewrite !filter_idx_none by assumption. reflexivity.
    + rewrite (gen_DeleteFromSliceByIndex_spec outs gd' md 0 Hd). cbn [bind].
      rewrite (gen_DeleteFromSliceByIndex_spec ins gd' md (zlen outs) Hd). reflexivity.
  - rewrite H. reflexivity.
Qed.
