(** * Machine-checked refutations of the full statements of C01 and C04 clause 2 for the faithful
      model of SnapPolygon (finding F5: kmpDeduplicate invents an edge on chains that visit a centre
      four times or more).  Both witnesses are valid polygons; both were replayed on the implementation. *)
From Coq Require Import ZArith QArith Lqa Lia List Bool.
From Texel Require Import Prelude.Base Index.Model Index.ProofsInsert Index.ProofsLine Index.ProofsRouting
  Snap.Model Geom.Cross Geom.Touch Geom.Polygon Geom.ClosedBox Geom.Close Snap.ProofsGeomTieRoute.
Import ListNotations.
Open Scope Z_scope.

(** ** C01: a valid polygon whose result at one level has two properly crossing edges *)

(** synthetic grid, deepest tile matrix 2, cell size 8, origin (32,32): 64 x 64 px of 0.5 at level 6 *)
Definition gC01 : grid := mkGrid (mkExtent 320000000000 320000000000 640000000000 640000000000) 5000000000 6.

Definition PC01 : list ring :=
  [[(486250000000, 523750000000); (490000000000, 532500000000); (481250000000, 523750000000);
    (485000000000, 530000000000); (483750000000, 527500000000); (496250000000, 540000000000);
    (485000000000, 538750000000); (475000000000, 520000000000); (480000000000, 521250000000);
    (500000000000, 522500000000); (498750000000, 533750000000); (496250000000, 538750000000)];
   [(490000000000, 528750000000); (488750000000, 523750000000); (493750000000, 525000000000);
    (497500000000, 527500000000); (496250000000, 531250000000)]].

Definition cfg0 : config := mkConfig false false false.

(** the ring returned for level 5 (pixels of 1.0) *)
Definition ringC01 : ring :=
  [(485000000000, 525000000000); (495000000000, 545000000000); (495000000000, 535000000000); (485000000000, 535000000000)].

Lemma C01_witness_valid : valid_polygon_b PC01 = true.
Proof. vm_compute. reflexivity. Qed.

Lemma C01_witness_inside : Forall (insideGrid gC01) (concat PC01).
Proof.
  apply (insertPolygon_ok_iff gC01 PC01); [reflexivity |]. eexists. vm_compute. reflexivity.
Qed.

Lemma C01_witness_result :
  exists r6, snapPolygon gC01 PC01 [5%nat; 6%nat] cfg0 = Ok [(5%nat, [[ringC01]]); (6%nat, r6)].
Proof. eexists. vm_compute. reflexivity. Qed.

(** the edges (48.5,52.5)-(49.5,54.5) and (49.5,53.5)-(48.5,53.5) cross at (49,53.5) *)
Definition eC01 : edge := ((485000000000, 525000000000), (495000000000, 545000000000)).
Definition fC01 : edge := ((495000000000, 535000000000), (485000000000, 535000000000)).

Theorem cross_witness :
  exists g P levels cfg r L ps e f,
    valid_polygon_b P = true /\ Forall (insideGrid g) (concat P) /\
    snapPolygon g P levels cfg = Ok r /\ In (L, ps) r /\
    In e (edges ps) /\ In f (edges ps) /\ edge_cross_b e f = true.
Proof.
  destruct C01_witness_result as [r6 E].
  exists gC01, PC01, [5%nat; 6%nat], cfg0, [(5%nat, [[ringC01]]); (6%nat, r6)], 5%nat, [[ringC01]], eC01, fC01.
  split; [exact C01_witness_valid |]. split; [exact C01_witness_inside |]. split; [exact E |].
  split; [left; reflexivity |].
  split; [vm_compute; left; reflexivity |]. split; [vm_compute; right; right; left; reflexivity |].
  vm_compute. reflexivity.
Qed.

(** the same in terms of the geometric predicates: the implication "valid input => no two edges of the
    result cross properly" is false of the model *)
Theorem no_cross_refuted :
  ~ (forall g P levels cfg r L ps, (0 < gres g) -> valid_polygon P -> Forall (insideGrid g) (concat P) ->
       snapPolygon g P levels cfg = Ok r -> In (L, ps) r ->
       forall e f, In e (edges ps) -> In f (edges ps) -> ~ edge_cross e f).
Proof.
  intro H. destruct cross_witness as [g [P [levels [cfg [r [L [ps [e [f [V [I [E [Hr [He [Hf X]]]]]]]]]]]]]]].
  assert (Hg : 0 < gres g).
  { destruct (Z.ltb_spec 0 (gres g)) as [Pz | Nz]; [exact Pz | exfalso].
    (* a non-positive resolution cannot index a non-empty polygon: insertPoint divides / rejects *)
    unfold snapPolygon in E. destruct P as [| sh hl]; [discriminate V |].
    destruct sh as [| v sh']; [vm_compute in V; discriminate |].
    unfold insertPolygon in E. cbn [concat app foldM] in E. unfold insertPoint at 1 in E.
    destruct (Z.eqb_spec (gres g) 0) as [Z0 | NZ0]; [cbn in E; discriminate |].
    inversion I as [| ? ? Iv _]; subst. unfold insideGrid in Iv. pose proof (gsize_pos g). nia. }
  apply (H g P levels cfg r L ps Hg (valid_polygon_b_sound P V) I E Hr e f He Hf).
  apply edge_cross_b_spec. exact X.
Qed.

(** the crossing point, by the parametric meaning of a proper crossing *)
Example C01_crossing_point :
  exists s t : Q, (0 < s /\ s < 1 /\ 0 < t /\ t < 1 /\
    co (fst (fst eC01)) (fst (snd eC01)) s == co (fst (fst fC01)) (fst (snd fC01)) t /\
    co (snd (fst eC01)) (snd (snd eC01)) s == co (snd (fst fC01)) (snd (snd fC01)) t)%Q.
Proof. apply proper_cross_param. apply cross_b_spec. vm_compute. reflexivity. Qed.

(** ** C04 clause 2: a valid polygon with an output edge whose midpoint is farther than half a pixel
    (Chebyshev) from every point of every input edge *)
Definition gC04 : grid := mkGrid (mkExtent 0 0 160000000000 160000000000) 10000000000 4.

Definition PC04 : list ring :=
  [[(65000000000, 50625000000); (55000000000, 50937500000); (65000000000, 51250000000);
    (55000000000, 51562500000); (65000000000, 51875000000); (55000000000, 52187500000);
    (50625000000, 60625000000); (50312500000, 50312500000); (69687500000, 50156250000);
    (69687500000, 65000000000)]].

Definition ringC04 : ring := [(65000000000, 55000000000); (55000000000, 65000000000); (55000000000, 55000000000)].
Definition eC04 : edge := ((65000000000, 55000000000), (55000000000, 65000000000)).

Definition dbl (p : pt) : pt := (2 * fst p, 2 * snd p).
Definition padd (p q : pt) : pt := (fst p + fst q, snd p + snd q).

(** exact test on doubled coordinates: the closed input edge f comes within S/2 of the midpoint of e *)
Definition edge_near_mid_b (S : Z) (e f : edge) : bool :=
  seg_meets_closed_box (dbl (fst f)) (dbl (snd f)) (padd (fst e) (snd e)) S.

Lemma C04_witness_valid : valid_polygon_b PC04 = true.
Proof. vm_compute. reflexivity. Qed.

Lemma C04_witness_inside : Forall (insideGrid gC04) (concat PC04).
Proof.
  apply (insertPolygon_ok_iff gC04 PC04); [reflexivity |]. eexists. vm_compute. reflexivity.
Qed.

Lemma C04_witness_result : snapPolygon gC04 PC04 [4%nat] cfg0 = Ok [(4%nat, [[ringC04]])].
Proof. vm_compute. reflexivity. Qed.

Lemma C04_witness_far :
  forallb (fun f => negb (edge_near_mid_b (quadSpan gC04 4) eC04 f)) (flat_map ring_edges PC04) = true.
Proof. vm_compute. reflexivity. Qed.

Theorem far_witness :
  exists g P levels cfg r L ps e,
    valid_polygon_b P = true /\ Forall (insideGrid g) (concat P) /\
    snapPolygon g P levels cfg = Ok r /\ In (L, ps) r /\ In e (edges ps) /\
    forall f, In f (flat_map ring_edges P) -> edge_near_mid_b (quadSpan g L) e f = false.
Proof.
  exists gC04, PC04, [4%nat], cfg0, [(4%nat, [[ringC04]])], 4%nat, [[ringC04]], eC04.
  split; [exact C04_witness_valid |]. split; [exact C04_witness_inside |]. split; [exact C04_witness_result |].
  split; [left; reflexivity |]. split; [vm_compute; left; reflexivity |].
  intros f Hf. pose proof C04_witness_far as F. rewrite forallb_forall in F. specialize (F f Hf).
  apply negb_true_iff in F. exact F.
Qed.

(** what the doubled test means: some point of the closed segment f is within S/2 (Chebyshev) of the
    midpoint of e *)
Lemma edge_near_mid_spec (g : grid) (L : nat) (e f : edge) :
  edge_near_mid_b (quadSpan g L) e f = true <->
  exists t : Q, (0 <= t /\ t <= 1 /\
    ChebLe (halfSpan g L) (between (fst e) (snd e) (1 # 2)) (segPt (fst f) (snd f) t))%Q.
Proof.
  unfold edge_near_mid_b. rewrite seg_meets_closed_box_spec. unfold WithinCheb, ChebLe, between, segPt, halfSpan, dbl, padd, co.
  cbn [fst snd]. rewrite !inject_Z_plus, !inject_Z_mult. change (inject_Z 2) with 2%Q.
  split; intros [t [T0 [T1 [X1 [X2 [Y1 Y2]]]]]]; exists t; repeat split; try assumption; lra.
Qed.

(** C04 clause 2 is false of the model: a point of an output edge farther than half a pixel from every
    point of the input boundary *)
Theorem half_pixel_refuted :
  exists g P levels cfg r L ps e,
    valid_polygon P /\ Forall (insideGrid g) (concat P) /\
    snapPolygon g P levels cfg = Ok r /\ In (L, ps) r /\ In e (edges ps) /\
    forall f, In f (flat_map ring_edges P) -> forall t : Q, (0 <= t -> t <= 1 ->
      ~ ChebLe (halfSpan g L) (between (fst e) (snd e) (1 # 2)) (segPt (fst f) (snd f) t))%Q.
Proof.
  destruct far_witness as [g [P [levels [cfg [r [L [ps [e [V [I [E [Hr [He F]]]]]]]]]]]]].
  exists g, P, levels, cfg, r, L, ps, e.
  split; [apply valid_polygon_b_sound; exact V |]. split; [exact I |]. split; [exact E |].
  split; [exact Hr |]. split; [exact He |].
  intros f Hf t T0 T1 C. specialize (F f Hf).
  assert (T : edge_near_mid_b (quadSpan g L) e f = true) by (apply edge_near_mid_spec; exists t; auto).
  congruence.
Qed.
