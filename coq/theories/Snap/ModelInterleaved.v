(** * A faithful, interleaved model of snap.addPointsAndSnap (snap.go 89-155).

    Definitions only.  [Snap.Model.snapLevel] processes every level on its own; the Go code has the loop
    over RINGS outside and the loops over LEVELS inside, with a shared [levelMap] (the levels still
    alive), hit maps per level inside the index and per-level accumulators.  This file follows the
    Go code statement by statement; [Snap.ProofsInterleaved] proves that it computes, for every
    level and for every iteration order of the Go maps, exactly [snapLevel].

    Go maps keyed by level are association lists ([aget] with a default = reading a missing key,
    [aset] = assignment).  Every [for level := range someMap] takes its order from the parameter
    [ord : site -> list nat -> list nat]; a [site] identifies the range statement and the iteration of the
    enclosing loops it belongs to, so that every execution of a range statement may use a different
    order (Go randomises each one).  The only assumption made about [ord] (in the proofs) is that
    [ord s l] is a permutation of [l]. *)
From Coq Require Import ZArith List Bool.
From Texel Require Import Prelude.Base Index.Model Snap.Model.
Import ListNotations.
Open Scope Z_scope.

(** ** association lists keyed by level *)
Fixpoint aget {A} (m : list (nat * A)) (L : nat) (d : A) : A :=
  match m with [] => d | (k, v) :: r => if Nat.eqb L k then v else aget r L d end.

Fixpoint aset {A} (m : list (nat * A)) (L : nat) (v : A) : list (nat * A) :=
  match m with
  | [] => [(L, v)]
  | (k, w) :: r => if Nat.eqb L k then (k, v) :: r else (k, w) :: aset r L v
  end.

(** delete(levelMap, level) *)
Definition adel (alive : list nat) (L : nat) : list nat := filter (fun k => negb (Nat.eqb k L)) alive.

(** per-level data that outlives a ring: ix.hitOnce[level] / ix.hitMultiple[level], newOuters[level],
    newInners[level], newPointsAndLines[level] *)
Record ldata := mkLD { dHits : hits; dOuters : list ring; dInners : list ring; dPL : list ring }.
Definition ld0 : ldata := mkLD (mkHits [] []) [] [] [].
Definition lmap := list (nat * ldata).
Definition lget (m : lmap) (L : nat) : ldata := aget m L ld0.

Record istate := mkI { iAlive : list nat; iData : lmap }.

(** the range statements *)
Inductive site :=
| SHit (ringIdx vertexIdx : nat)     (* pointindex.SnapClosestPoints: for level, quadrants := range quadrantsPerLevel *)
| SEdge (ringIdx vertexIdx : nat)    (* snap.go 112: for level := range levelMap (cleanupNewVertices) *)
| SRing (ringIdx : nat)              (* snap.go 119: for level := range levelMap (cleanupNewRing) *)
| SFinal                             (* snap.go 135: for l := range levelMap (dedupe, match, reverse) *)
| SPL.                               (* snap.go 145: for level, pointsAndLines := range newPointsAndLines *)

Section Interleaved.
  Variable ord : site -> list nat -> list nat.
  Variables (g : grid) (hots : list (list (Z * Z))) (cfg : config).

  (** ix.SnapClosestPoints(segment, levelMap, ringIdx): for every alive level the centres, and the hit
      accounting of that level; returns newVertices (a map level -> points) *)
  Definition snapAllLevels (ringIdx vertexIdx : nat) (a b : pt) (alive : list nat) (m : lmap)
    : lmap * list (nat * list pt) :=
    fold_left (fun (acc : lmap * list (nat * list pt)) (L : nat) =>
                 let '(m, nv) := acc in
                 let d := lget m L in
                 let '(pts, st') := snapAndHit g hots (dHits d) a b L ringIdx in
                 (aset m L (mkLD st' (dOuters d) (dInners d) (dPL d)), aset nv L pts))
              (ord (SHit ringIdx vertexIdx) alive) (m, []).

  (** snap.go 112-115: newRing[level] = append(newRing[level], cleanupNewVertices(newVertices[level], ...)) *)
  Definition cleanAllLevels (ringIdx vertexIdx : nat) (alive : list nat) (nv : list (nat * list pt))
                            (newRing : list (nat * list pt)) : res (list (nat * list pt)) :=
    foldM (fun nr L =>
             do c <- cleanupNewVertices (aget nv L []) (last_opt (aget nr L []));
             Ok (aset nr L (aget nr L [] ++ c)))
          (ord (SEdge ringIdx vertexIdx) alive) newRing.

  (** snap.go 105-116: walk through the vertices of the (normalised) ring *)
  Fixpoint verticesLoop (ringIdx vertexIdx : nat) (first : pt) (verts : list pt) (alive : list nat)
                        (m : lmap) (newRing : list (nat * list pt)) : res (lmap * list (nat * list pt)) :=
    match verts with
    | [] => Ok (m, newRing)
    | v :: r =>
        let next := match r with [] => first | w :: _ => w end in
        let '(m1, nv) := snapAllLevels ringIdx vertexIdx v next alive m in
        do nr1 <- cleanAllLevels ringIdx vertexIdx alive nv newRing;
        verticesLoop ringIdx (S vertexIdx) first r alive m1 nr1
    end.

  (** snap.go 119-131: cleanupNewRing per alive level, collapse test, accumulation *)
  Definition ringLevels (ringIdx : nat) (newRing : list (nat * list pt)) (s : istate) : res istate :=
    let isOuter := Nat.eqb ringIdx 0 in
    foldM (fun (s : istate) (L : nat) =>
             let d := lget (iData s) L in
             do sets <- cleanupNewRing (aget newRing L []) isOuter (isMultiFor (dHits d) ringIdx);
             if isOuter && (length (outers sets) =? 0)%nat
                && (negb (keepPointsAndLines cfg) || (length (pointsAndLines sets) =? 0)%nat)
             then Ok (mkI (adel (iAlive s) L) (iData s))
             else Ok (mkI (iAlive s)
                          (aset (iData s) L
                                (mkLD (dHits d) (dOuters d ++ outers sets) (dInners d ++ inners sets)
                                      (if keepPointsAndLines cfg then dPL d ++ pointsAndLines sets else dPL d)))))
          (ord (SRing ringIdx) (iAlive s)) s.

  (** snap.go 95-132: one ring *)
  Definition ringStepI (s : istate) (ringIdx : nat) (r : ring) : res istate :=
    match iAlive s with
    | [] => Ok s                                   (* if len(levelMap) == 0 { continue } *)
    | _ =>
        let isOuter := Nat.eqb ringIdx 0 in
        let r' := ensureCorrectWindingOrder r (negb isOuter) in
        do routed <- match r' with
                     | [] => Ok (iData s, [])
                     | first :: _ => verticesLoop ringIdx 0 first r' (iAlive s) (iData s) []
                     end;
        let '(m, newRing) := routed in
        ringLevels ringIdx newRing (mkI (iAlive s) m)
    end.

  Fixpoint ringsLoopI (s : istate) (ringIdx : nat) (P : list ring) : res istate :=
    match P with
    | [] => Ok s
    | r :: rest => do s' <- ringStepI s ringIdx r; ringsLoopI s' (S ringIdx) rest
    end.

  (** snap.go 134-142: for l := range levelMap { dedupe; match; reverse; if len > 0 { newPolygons[l] = ... } } *)
  Definition finishLevels (s : istate) : res (list (nat * list polygon)) :=
    foldM (fun (np : list (nat * list polygon)) (L : nat) =>
             let d := lget (iData s) L in
             do oi <- dedupeInnersOuters (dOuters d) (dInners d);
             do ps <- matchInnersToPolygons (map (fun o => [o]) (fst oi)) (snd oi);
             let ps' := if reverseWindingOrder cfg then map (map (@rev pt)) ps else ps in
             Ok (match ps' with [] => np | _ => aset np L ps' end))
          (ord SFinal (iAlive s)) [].

  (** snap.go 144-149: points and lines at the end, for EVERY level that has some, also deleted ones
      (ProofsInterleaved shows that a deleted level has none).  The Go code ranges over the keys of
      newPointsAndLines, i.e. over the requested levels that ever received a point or a line; ranging over
      all requested levels and skipping those without any is the same thing. *)
  Definition appendPL (levels : list nat) (m : lmap) (np : list (nat * list polygon)) : list (nat * list polygon) :=
    fold_left (fun (np : list (nat * list polygon)) (L : nat) =>
                 match dPL (lget m L) with
                 | [] => np
                 | pls => aset np L (aget np L [] ++ map (fun pl => [pl]) pls)
                 end)
              (ord SPL levels) np.

  (** the returned Go map, read at a requested level: [None] = key absent *)
  Fixpoint afind {A} (m : list (nat * A)) (L : nat) : option A :=
    match m with [] => None | (k, v) :: r => if Nat.eqb L k then Some v else afind r L end.

  Definition addPointsAndSnapI (P : list ring) (levels : list nat) : res (list (nat * option (list polygon))) :=
    do s <- ringsLoopI (mkI levels []) 0 P;
    do np <- finishLevels s;
    let np' := appendPL levels (iData s) np in
    Ok (map (fun L => (L, afind np' L)) levels).
End Interleaved.

(** SnapPolygon with the interleaved core *)
Definition snapPolygonI (ord : site -> list nat -> list nat) (g : grid) (P : list ring) (levels : list nat)
                        (cfg : config) : res (list (nat * list polygon)) :=
  match insertPolygon g P with
  | Err OutsideGrid => if ignoreOutsideGrid cfg then Ok [] else Err OutsideGrid
  | Err e => Err e
  | Ok hs =>
      do rs <- addPointsAndSnapI ord g (hotLevels g hs) cfg P levels;
      Ok (flat_map (fun lr => match snd lr with Some ps => [(fst lr, ps)] | None => [] end) rs)
  end.
