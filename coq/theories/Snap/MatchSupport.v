(** * Micro-models the regenerated matchInnersToPolygons (gen/MatchGen.v) is written against.

    Definitions only; TRUSTED (they stand for library behaviour that is not translated):
    - [om_get] / [om_set] / [om_len]: github.com/wk8/go-ordered-map/v2 as an insertion-ordered association
      list: [Value] of an absent key is the zero value, [Set] of a present key replaces the value and keeps
      the position, [Set] of an absent key appends the pair at the end, [Len] counts the pairs.
    - [go_indices l]: the values [for i := range l] gives to [i] (the length is read once, before the loop).
    - nil-able slices ([var x []int] that is compared with nil) are [option (list Z)]:
      [nilable_of_keys l] is the nil-ness of the result of go-sortedmap's [Keys()] (nil exactly when the
      map is empty: keys.go returns nil when boundsIdxSearch finds no values), [nilable_get] reads such a
      slice where a plain []int is expected (a nil slice is an empty slice for len / range / index).
    - [imap]: a Go [map[int]int] that is only stored into and looked up (no iteration, delete or len) as an
      association list: [m[k] = v] is [im_set] (the value of a present key is replaced, an absent key is added),
      [v, ok := m[k]] is [im_get] (the zero value when absent) and [im_has].
    - [go_enum l]: the pairs [for i, x := range l] gives to [(i, x)]. *)
From Coq Require Import ZArith List Bool.
From Texel Require Import Prelude.Base.
Import ListNotations.
Open Scope Z_scope.

Definition omap := list (Z * Z).

Fixpoint om_get (m : omap) (k : Z) : Z :=
  match m with
  | [] => 0
  | (k', v) :: r => if k =? k' then v else om_get r k
  end.

Fixpoint om_set (m : omap) (k v : Z) : omap :=
  match m with
  | [] => [(k, v)]
  | (k', v') :: r => if k =? k' then (k', v) :: r else (k', v') :: om_set r k v
  end.

Definition om_len (m : omap) : Z := zlen m.

Definition go_indices {A} (l : list A) : list Z := map Z.of_nat (seq 0 (length l)).

Definition nilable_of_keys (l : list Z) : option (list Z) :=
  match l with [] => None | _ => Some l end.

Definition nilable_get (o : option (list Z)) : list Z :=
  match o with Some l => l | None => [] end.

Definition is_nil (o : option (list Z)) : bool :=
  match o with None => true | Some _ => false end.

Definition imap := list (Z * Z).

Fixpoint im_find (m : imap) (k : Z) : option Z :=
  match m with
  | [] => None
  | (k', v) :: r => if k =? k' then Some v else im_find r k
  end.

Definition im_get (m : imap) (k : Z) : Z := match im_find m k with Some v => v | None => 0 end.

Definition im_has (m : imap) (k : Z) : bool := match im_find m k with Some _ => true | None => false end.

Fixpoint im_set (m : imap) (k v : Z) : imap :=
  match m with
  | [] => [(k, v)]
  | (k', v') :: r => if k =? k' then (k', v) :: r else (k', v') :: im_set r k v
  end.

Definition go_enum {A} (l : list A) : list (Z * A) := combine (go_indices l) l.
