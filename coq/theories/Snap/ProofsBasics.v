(** * Basic facts used by all structural proofs about the snapping pipeline:
      the error monad, checked list access, [subseq], directed cyclic edges and the
      cross-product sum ([xprod_rev]), winding normalisation, [cleanupNewVertices]. *)
From Coq Require Import ZArith List Bool Lia Permutation.
From Texel Require Import Prelude.Base Index.Model Snap.Model.
Import ListNotations.
Open Scope Z_scope.

(** ** the "is a subsequence of" relation shared with the kmp prover *)
Inductive subseq {A} : list A -> list A -> Prop :=
| sub_nil : subseq [] []
| sub_skip x l l' : subseq l l' -> subseq l (x :: l')
| sub_keep x l l' : subseq l l' -> subseq (x :: l) (x :: l').

Lemma subseq_refl {A} (l : list A) : subseq l l.
Proof. induction l as [| a l IH]; constructor; exact IH. Qed.

Lemma subseq_nil_l {A} (l : list A) : subseq [] l.
Proof. induction l as [| a l IH]; constructor; exact IH. Qed.

Lemma subseq_incl {A} (l l' : list A) : subseq l l' -> incl l l'.
Proof.
  induction 1 as [| x l l' H IH | x l l' H IH]; intros y Hy.
  - exact Hy.
  - right. apply IH, Hy.
  - destruct Hy as [E | Hy]; [left; exact E | right; apply IH, Hy].
Qed.

Lemma subseq_length {A} (l l' : list A) : subseq l l' -> (length l <= length l')%nat.
Proof. induction 1; cbn [length]; lia. Qed.

Lemma subseq_trans {A} (l1 l2 l3 : list A) : subseq l1 l2 -> subseq l2 l3 -> subseq l1 l3.
Proof.
  intros H12 H23. revert l1 H12.
  induction H23 as [| x l2 l3 H IH | x l2 l3 H IH]; intros l1 H12.
  - exact H12.
  - constructor. apply IH, H12.
  - inversion H12 as [| y m m' Hm | y m m' Hm]; subst.
    + constructor. apply IH, Hm.
    + apply sub_keep. apply IH, Hm.
Qed.

Lemma subseq_app {A} (a a' b b' : list A) : subseq a a' -> subseq b b' -> subseq (a ++ b) (a' ++ b').
Proof.
  intros Ha Hb. induction Ha as [| x l l' H IH | x l l' H IH]; cbn [app].
  - exact Hb.
  - constructor. exact IH.
  - apply sub_keep. exact IH.
Qed.

Lemma subseq_NoDup {A} (l l' : list A) : subseq l l' -> NoDup l' -> NoDup l.
Proof.
  induction 1 as [| x l l' H IH | x l l' H IH]; intro ND.
  - exact ND.
  - inversion ND; subst. apply IH. assumption.
  - inversion ND as [| ? ? Hn Hd]; subst. constructor.
    + intro Hin. apply Hn. apply (subseq_incl _ _ H), Hin.
    + apply IH, Hd.
Qed.

Lemma subseq_count_occ {A} (dec : forall x y : A, {x = y} + {x <> y}) (l l' : list A) (a : A) :
  subseq l l' -> (count_occ dec l a <= count_occ dec l' a)%nat.
Proof.
  induction 1 as [| x l l' H IH | x l l' H IH]; cbn [count_occ].
  - lia.
  - destruct (dec x a); lia.
  - destruct (dec x a); lia.
Qed.

Lemma subseq_firstn {A} (l : list A) n : subseq (firstn n l) l.
Proof.
  revert n. induction l as [| a l IH]; intros [| n]; cbn [firstn].
  - constructor.
  - constructor.
  - apply subseq_nil_l.
  - apply sub_keep, IH.
Qed.

Lemma subseq_skipn {A} (l : list A) n : subseq (skipn n l) l.
Proof.
  revert n. induction l as [| a l IH]; intros [| n]; cbn [skipn].
  - constructor.
  - constructor.
  - apply subseq_refl.
  - apply sub_skip, IH.
Qed.

Lemma subseq_removelast {A} (l : list A) : subseq (removelast l) l.
Proof.
  induction l as [| a l IH]; [constructor |].
  cbn [removelast]. destruct l as [| b l]; [constructor; constructor | apply sub_keep, IH].
Qed.

Lemma subseq_tl {A} (l : list A) : subseq (tl l) l.
Proof. destruct l; [constructor | constructor; apply subseq_refl]. Qed.

Lemma subseq_filter {A} (f : A -> bool) (l : list A) : subseq (filter f l) l.
Proof.
  induction l as [| a l IH]; [constructor |]. cbn [filter].
  destruct (f a); [apply sub_keep | constructor]; exact IH.
Qed.

(** ** the error monad *)
Lemma bind_ok {A B} (r : res A) (f : A -> res B) (b : B) :
  bind r f = Ok b -> exists a, r = Ok a /\ f a = Ok b.
Proof. destruct r as [a | e]; cbn [bind]; intro H; [eauto | discriminate]. Qed.

Ltac bind_inv H a Ha :=
  apply bind_ok in H; destruct H as [a [Ha H]].

Lemma mapM_ok {A B} (f : A -> res B) (l : list A) (bs : list B) :
  mapM f l = Ok bs -> Forall2 (fun a b => f a = Ok b) l bs.
Proof.
  revert bs. induction l as [| a l IH]; intros bs H; cbn [mapM] in H.
  - inversion H; subst. constructor.
  - bind_inv H b Hb. bind_inv H bs' Hbs. inversion H; subst. constructor; [exact Hb | apply IH, Hbs].
Qed.

Lemma mapM_of_Forall2 {A B} (f : A -> res B) (l : list A) (bs : list B) :
  Forall2 (fun a b => f a = Ok b) l bs -> mapM f l = Ok bs.
Proof.
  induction 1 as [| a b l bs Hab H IH]; cbn [mapM]; [reflexivity |].
  rewrite Hab. cbn [bind]. rewrite IH. reflexivity.
Qed.

(** ** points *)
Lemma pt_eqb_eq (p q : pt) : pt_eqb p q = true <-> p = q.
Proof.
  unfold pt_eqb. rewrite andb_true_iff, !Z.eqb_eq. destruct p, q; cbn [fst snd].
  split; [intros [-> ->]; reflexivity | intro H; inversion H; split; reflexivity].
Qed.

Lemma pt_eqb_spec (p q : pt) : reflect (p = q) (pt_eqb p q).
Proof. apply iff_reflect. symmetry. apply pt_eqb_eq. Qed.

Lemma pt_eqb_refl (p : pt) : pt_eqb p p = true.
Proof. apply pt_eqb_eq. reflexivity. Qed.

Definition pt_dec (p q : pt) : {p = q} + {p <> q}.
Proof. destruct (pt_eqb_spec p q); [left | right]; assumption. Defined.

Lemma mem_pt_In (p : pt) (l : list pt) : mem_pt p l = true <-> In p l.
Proof.
  induction l as [| q l IH]; cbn [mem_pt In]; [split; [discriminate | tauto] |].
  rewrite orb_true_iff, IH, pt_eqb_eq. split; intros [H | H]; auto.
Qed.

(** ** checked access *)
Lemma idx_In {A} (l : list A) i a : idx l i = Ok a -> In a l.
Proof.
  unfold idx. destruct (i <? 0); [discriminate |].
  destruct (nth_error l (Z.to_nat i)) eqn:E; [| discriminate].
  intro H; inversion H; subst. eapply nth_error_In, E.
Qed.

Lemma idx_0 {A} (l : list A) a : idx l 0 = Ok a -> exists t, l = a :: t.
Proof.
  unfold idx. cbn. destruct l as [| b t]; cbn; [discriminate |]. intro H; inversion H; eauto.
Qed.

Lemma idx_0_cons {A} (a : A) t : idx (a :: t) 0 = Ok a.
Proof. reflexivity. Qed.

Lemma slice_subseq {A} (l : list A) a b t : slice l a b = Ok t -> subseq t l.
Proof.
  unfold slice. destruct ((a <? 0) || (b <? a) || (zlen l <? b)); [discriminate |].
  intro H; inversion H; subst.
  eapply subseq_trans; [apply subseq_firstn | apply subseq_skipn].
Qed.

(** ** last element *)
Lemma last_opt_snoc {A} (l : list A) a : last_opt (l ++ [a]) = Some a.
Proof. unfold last_opt. rewrite rev_unit. reflexivity. Qed.

Lemma last_opt_nil {A} : @last_opt A [] = None.
Proof. reflexivity. Qed.

Lemma snoc_cases {A} (l : list A) : l = [] \/ exists l' a, l = l' ++ [a].
Proof.
  destruct (rev l) as [| a r] eqn:E.
  - left. apply (f_equal (@rev A)) in E. rewrite rev_involutive in E. exact E.
  - right. exists (rev r), a. apply (f_equal (@rev A)) in E. rewrite rev_involutive in E. exact E.
Qed.

Lemma last_opt_In {A} (l : list A) a : last_opt l = Some a -> In a l.
Proof.
  destruct (snoc_cases l) as [-> | [l' [b ->]]]; [discriminate |].
  rewrite last_opt_snoc. intro H; inversion H; subst. apply in_or_app. right. left. reflexivity.
Qed.

Lemma last_opt_None {A} (l : list A) : last_opt l = None -> l = [].
Proof.
  destruct (snoc_cases l) as [-> | [l' [b ->]]]; [reflexivity | rewrite last_opt_snoc; discriminate].
Qed.

Lemma removelast_snoc {A} (l : list A) a : removelast (l ++ [a]) = l.
Proof. apply removelast_last. Qed.

Lemma idx_last_snoc {A} (l : list A) a : idx (l ++ [a]) (zlen (l ++ [a]) - 1) = Ok a.
Proof.
  unfold idx, zlen. rewrite app_length. cbn [length].
  destruct (Z.ltb_spec (Z.of_nat (length l + 1) - 1) 0) as [H | H]; [lia |].
  replace (Z.to_nat (Z.of_nat (length l + 1) - 1)) with (length l) by lia.
  rewrite nth_error_app2 by lia. rewrite Nat.sub_diag. reflexivity.
Qed.

(** ** consecutive pairs, directed cyclic edges, cross-product sums *)
Fixpoint pairs {A} (l : list A) : list (A * A) :=
  match l with
  | a :: ((b :: _) as t) => (a, b) :: pairs t
  | _ => []
  end.

Definition swap {A} (e : A * A) : A * A := (snd e, fst e).

Lemma pairs_cons2 {A} (a b : A) t : pairs (a :: b :: t) = (a, b) :: pairs (b :: t).
Proof. reflexivity. Qed.

Lemma pairs_app {A} (l1 : list A) a l2 : pairs (l1 ++ a :: l2) = pairs (l1 ++ [a]) ++ pairs (a :: l2).
Proof.
  induction l1 as [| x l1 IH]; [reflexivity |].
  destruct l1 as [| y l1].
  - cbn [app]. rewrite pairs_cons2. reflexivity.
  - change ((x :: y :: l1) ++ a :: l2) with (x :: y :: (l1 ++ a :: l2)).
    change ((x :: y :: l1) ++ [a]) with (x :: y :: (l1 ++ [a])).
    rewrite !pairs_cons2. cbn [app]. f_equal. exact IH.
Qed.

Lemma pairs_snoc {A} (l : list A) a b : pairs (l ++ [a; b]) = pairs (l ++ [a]) ++ [(a, b)].
Proof. rewrite pairs_app. reflexivity. Qed.

Lemma pairs_rev {A} (l : list A) : pairs (rev l) = rev (map swap (pairs l)).
Proof.
  induction l as [| a l IH]; [reflexivity |].
  destruct l as [| b l]; [reflexivity |].
  rewrite pairs_cons2. cbn [map rev]. rewrite <- IH.
  cbn [rev]. rewrite <- app_assoc. cbn [app]. rewrite pairs_snoc. reflexivity.
Qed.

Lemma pairs_In_l {A} (l : list A) a b : In (a, b) (pairs l) -> In a l /\ In b l.
Proof.
  induction l as [| x l IH]; [intros [] |].
  destruct l as [| y l]; [intros [] |].
  rewrite pairs_cons2. intros [E | H].
  - inversion E; subst. split; [left | right; left]; reflexivity.
  - apply IH in H. destruct H; split; right; assumption.
Qed.

(** directed cyclic edges of a ring: a -> b for consecutive a, b and last -> first.
    [a] gives the loop (a, a); rings that come out of [splitRing] for input without equal
    neighbours have at least two vertices, and [a; b] gives a -> b, b -> a. *)
Definition dedges (r : ring) : list (pt * pt) :=
  match r with [] => [] | a :: _ => pairs (r ++ [a]) end.

Definition cross (a b : pt) : Z := fst a * snd b - fst b * snd a.

Fixpoint sumc (es : list (pt * pt)) : Z :=
  match es with [] => 0 | e :: r => cross (fst e) (snd e) + sumc r end.

Lemma sumc_app e1 e2 : sumc (e1 ++ e2) = sumc e1 + sumc e2.
Proof. induction e1 as [| e e1 IH]; cbn [app sumc] in *; lia. Qed.

Lemma sumc_perm e1 e2 : Permutation e1 e2 -> sumc e1 = sumc e2.
Proof.
  induction 1 as [| x l l' H IH | x y l | l l' l'' H1 IH1 H2 IH2].
  - reflexivity.
  - change (cross (fst x) (snd x) + sumc l = cross (fst x) (snd x) + sumc l'). lia.
  - change (cross (fst y) (snd y) + (cross (fst x) (snd x) + sumc l)
            = cross (fst x) (snd x) + (cross (fst y) (snd y) + sumc l)). lia.
  - lia.
Qed.

Lemma sumc_swap es : sumc (map swap es) = - sumc es.
Proof.
  induction es as [| e es IH]; [reflexivity |].
  cbn [map sumc] in *. rewrite IH. unfold swap, cross. cbn [fst snd]. lia.
Qed.

Lemma xprod_from_pairs prev l : xprod_from prev l = sumc (pairs (prev :: l)).
Proof.
  revert prev. induction l as [| p l IH]; intro prev; [reflexivity |].
  rewrite pairs_cons2. cbn [xprod_from sumc]. rewrite IH. unfold cross. cbn [fst snd]. reflexivity.
Qed.

(** the doubled signed area is the sum of the cross products over the directed edges *)
Lemma xprod_dedges r : xprod r = sumc (dedges r).
Proof.
  unfold xprod, dedges. destruct r as [| a t]; [reflexivity |].
  destruct (snoc_cases (a :: t)) as [E | [l' [z E]]]; [discriminate |].
  rewrite E at 1. rewrite last_opt_snoc. rewrite xprod_from_pairs.
  rewrite E. rewrite <- app_assoc. cbn [app]. rewrite pairs_snoc, sumc_app.
  rewrite <- E. rewrite pairs_cons2. cbn [sumc]. lia.
Qed.

Lemma dedges_rev r : Permutation (dedges (rev r)) (map swap (dedges r)).
Proof.
  destruct r as [| a t]; [constructor |].
  destruct (snoc_cases t) as [-> | [t' [z ->]]]; [apply Permutation_refl |].
  assert (E1 : rev (a :: t' ++ [z]) = z :: rev t' ++ [a]).
  { cbn [rev]. rewrite rev_unit. reflexivity. }
  rewrite E1. unfold dedges.
  assert (E2 : (z :: rev t' ++ [a]) ++ [z] = rev (z :: a :: t' ++ [z])).
  { cbn [rev]. rewrite rev_unit. cbn [app]. rewrite <- !app_assoc. reflexivity. }
  rewrite E2, pairs_rev, pairs_cons2.
  replace ((a :: t' ++ [z]) ++ [a]) with ((a :: t') ++ [z; a]) by (cbn [app]; rewrite <- app_assoc; reflexivity).
  rewrite pairs_snoc. change ((a :: t') ++ [z]) with (a :: t' ++ [z]).
  rewrite <- Permutation_rev. rewrite map_app. cbn [map].
  apply Permutation_cons_append.
Qed.

Theorem xprod_rev r : xprod (rev r) = - xprod r.
Proof. rewrite !xprod_dedges, (sumc_perm _ _ (dedges_rev r)), sumc_swap. reflexivity. Qed.

Lemma orient_rev r : orient (rev r) = - orient r.
Proof.
  unfold orient. rewrite rev_length. destruct (length r <? 3)%nat; [reflexivity |].
  rewrite xprod_rev. apply Z.sgn_opp.
Qed.

Lemma orient_cases r : orient r = -1 \/ orient r = 0 \/ orient r = 1.
Proof.
  unfold orient. destruct (length r <? 3)%nat; [auto |].
  destruct (Z.sgn_spec (xprod r)) as [[_ ->] | [[_ ->] | [_ ->]]]; auto.
Qed.

Theorem ring_reversal_invariant r b : xprod r <> 0 -> (3 <= length r)%nat ->
  ensureCorrectWindingOrder (rev r) b = ensureCorrectWindingOrder r b.
Proof.
  intros Hx Hl. unfold ensureCorrectWindingOrder, windingOrderIsCorrect.
  rewrite orient_rev, rev_involutive.
  assert (Ho : orient r = 1 \/ orient r = -1).
  { unfold orient. destruct (Nat.ltb_spec (length r) 3) as [H | _]; [lia |].
    destruct (Z.sgn_spec (xprod r)) as [[_ ->] | [[E _] | [_ ->]]]; auto. congruence. }
  destruct Ho as [-> | ->], b; reflexivity.
Qed.

(** what normalisation guarantees *)
Lemma ensure_cases r b : ensureCorrectWindingOrder r b = r \/ ensureCorrectWindingOrder r b = rev r.
Proof. unfold ensureCorrectWindingOrder. destruct (windingOrderIsCorrect r b); auto. Qed.

Lemma woc_false_ccw r : windingOrderIsCorrect r false = true -> 0 <= xprod r \/ (length r < 3)%nat.
Proof.
  unfold windingOrderIsCorrect, orient. destruct (Nat.ltb_spec (length r) 3) as [H | H]; [auto |].
  intro W. left. destruct (Z.sgn_spec (xprod r)) as [[P E] | [[P E] | [P E]]];
    first [lia | rewrite E in W; discriminate].
Qed.

Lemma woc_true_cw r : windingOrderIsCorrect r true = true -> xprod r <= 0 \/ (length r < 3)%nat.
Proof.
  unfold windingOrderIsCorrect, orient. destruct (Nat.ltb_spec (length r) 3) as [H | H]; [auto |].
  intro W. left. destruct (Z.sgn_spec (xprod r)) as [[P E] | [[P E] | [P E]]];
    first [lia | rewrite E in W; discriminate].
Qed.

Lemma woc_false_not r : windingOrderIsCorrect r false = false -> xprod r < 0.
Proof.
  unfold windingOrderIsCorrect, orient. destruct (Nat.ltb_spec (length r) 3) as [H | H]; [discriminate |].
  intro W. destruct (Z.sgn_spec (xprod r)) as [[P E] | [[P E] | [P E]]];
    first [lia | rewrite E in W; discriminate].
Qed.

Lemma woc_true_not r : windingOrderIsCorrect r true = false -> 0 < xprod r.
Proof.
  unfold windingOrderIsCorrect, orient. destruct (Nat.ltb_spec (length r) 3) as [H | H]; [discriminate |].
  intro W. destruct (Z.sgn_spec (xprod r)) as [[P E] | [[P E] | [P E]]];
    first [lia | rewrite E in W; discriminate].
Qed.

(** ** rings without equal neighbours *)
(** linear: no two consecutive entries are equal *)
Definition no_adj_lin (l : list pt) : Prop := forall a b, In (a, b) (pairs l) -> a <> b.
(** cyclic: moreover last <> first; a one-vertex ring does not qualify *)
Definition no_adj_dup (r : ring) : Prop := forall a b, In (a, b) (dedges r) -> a <> b.

Lemma no_adj_lin_cons a b t : a <> b -> no_adj_lin (b :: t) -> no_adj_lin (a :: b :: t).
Proof.
  intros Hab H x y Hin. rewrite pairs_cons2 in Hin. destruct Hin as [E | Hin]; [inversion E; subst; exact Hab | apply H, Hin].
Qed.

Lemma no_adj_lin_tail a t : no_adj_lin (a :: t) -> no_adj_lin t.
Proof.
  intros H x y Hin. apply H. destruct t as [| b t]; [destruct Hin |]. rewrite pairs_cons2. right. exact Hin.
Qed.

Lemma no_adj_lin_head a b t : no_adj_lin (a :: b :: t) -> a <> b.
Proof. intro H. apply H. rewrite pairs_cons2. left. reflexivity. Qed.

Lemma NoDup_no_adj_lin l : NoDup l -> no_adj_lin l.
Proof.
  induction l as [| a l IH]; intros ND x y Hin; [destruct Hin |].
  destruct l as [| b l]; [destruct Hin |].
  inversion ND as [| ? ? Hn Hd]; subst. rewrite pairs_cons2 in Hin. destruct Hin as [E | Hin].
  - inversion E; subst. intro; subst. apply Hn. left. reflexivity.
  - apply (IH Hd), Hin.
Qed.

(** ** points of ring sets *)
Definition pts_of_sets (s : ringSets) : list pt :=
  concat (outers s) ++ concat (inners s) ++ concat (pointsAndLines s).

Definition rings_of_sets (s : ringSets) : list ring := outers s ++ inners s ++ pointsAndLines s.

Lemma pts_of_sets_rings s p : In p (pts_of_sets s) <-> exists r, In r (rings_of_sets s) /\ In p r.
Proof.
  unfold pts_of_sets, rings_of_sets. rewrite <- !concat_app, in_concat. reflexivity.
Qed.

(** ** cleanupNewVertices only deletes (first and/or last element) *)
Lemma cleanupNewVertices_subseq nv lv c : cleanupNewVertices nv lv = Ok c -> subseq c nv.
Proof.
  unfold cleanupNewVertices. destruct nv as [| first t]; [discriminate |].
  set (kept := if (1 <? length (first :: t))%nat then removelast (first :: t) else first :: t).
  assert (K : subseq kept (first :: t)).
  { unfold kept. destruct (1 <? length (first :: t))%nat; [apply subseq_removelast | apply subseq_refl]. }
  destruct lv as [lv |].
  - destruct (pt_eqb first lv); intro H; inversion H; subst; [| exact K].
    eapply subseq_trans; [apply subseq_tl | exact K].
  - intro H; inversion H; subst; exact K.
Qed.

(** ** permutations of edge lists by counting *)
Definition edge_dec (e f : pt * pt) : {e = f} + {e <> f}.
Proof. decide equality; apply pt_dec. Defined.

Ltac perm_count :=
  let xx := fresh "xx" in
  apply (Permutation_count_occ edge_dec); intro xx;
  repeat match goal with
         | H : Permutation ?l1 ?l2 |- _ =>
             let H' := fresh "Hc" in
             pose proof (proj1 (Permutation_count_occ edge_dec l1 l2) H xx) as H'; clear H
         end;
  rewrite ?map_app, ?concat_app, ?count_occ_app in *; cbn [map concat] in *;
  rewrite ?map_app, ?concat_app, ?count_occ_app, ?app_nil_r in *;
  change (count_occ edge_dec [] xx) with 0%nat in *; lia.

Lemma Permutation_concat_map {A B} (f : A -> list B) (l l' : list A) :
  Permutation l l' -> Permutation (concat (map f l)) (concat (map f l')).
Proof.
  induction 1 as [| x l l' H IH | x y l | l l' l'' H1 IH1 H2 IH2]; cbn [map concat].
  - constructor.
  - apply Permutation_app_head, IH.
  - rewrite !app_assoc. apply Permutation_app_tail, Permutation_app_comm.
  - eapply Permutation_trans; eassumption.
Qed.
