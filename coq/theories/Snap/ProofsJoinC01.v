(** * C01, what follows on the class of C18 from what is proved (PARTIAL results, not the property).

    On the class every returned edge is, up to direction, a step of the routed chain of ONE input edge (C18) and
    every point of it is within half a pixel (Chebyshev) of that input edge (C04).  Hence:
    - (P1) two returned edges whose source edges are farther than one pixel apart have no common point;
    - (P2) two steps of the same routed chain have no common interior point: the pixels of a chain are met in
      travel order, so their columns and their rows are monotone along the chain. *)
From Coq Require Import ZArith QArith Lqa Lia List Bool Sorted Permutation.
From Texel Require Import Prelude.Base Index.Model Index.ProofsInsert Index.ProofsLine Index.ProofsOrder Index.ProofsGrid
  Index.ProofsRouting Snap.Model Snap.ProofsBasics Snap.ProofsLevel Geom.Cross Geom.Touch Geom.Polygon
  Snap.ProofsGeomTieRoute Snap.ProofsJoinC18 Snap.ProofsJoinC04b.
From Texel Require Snap.ProofsKmpEdges Snap.ProofsKmpLe2 Snap.ProofsLevelC07.
Import ListNotations.
Local Open Scope Q_scope.

(** ** pure geometry: two segments, each within H of another segment; those farther than 2H apart *)
Definition close_to (H : Q) (e s : pt * pt) : Prop :=
  forall lam, 0 <= lam -> lam <= 1 -> exists t, 0 <= t /\ t <= 1 /\
    ChebLe H (between (fst e) (snd e) lam) (segPt (fst s) (snd s) t).

Definition farther_than (D : Q) (s t : pt * pt) : Prop :=
  forall u v, 0 <= u -> u <= 1 -> 0 <= v -> v <= 1 -> ~ ChebLe D (segPt (fst s) (snd s) u) (segPt (fst t) (snd t) v).

Lemma between_co c1 c2 lam : fst (between c1 c2 lam) == co (fst c1) (fst c2) lam /\ snd (between c1 c2 lam) == co (snd c1) (snd c2) lam.
Proof. unfold between, co. cbn [fst snd]. split; ring. Qed.

Theorem close_far_disjoint H e f s t : close_to H e s -> close_to H f t -> farther_than (2 * H) s t ->
  ~ SegsShare (fst e) (snd e) (fst f) (snd f).
Proof.
  intros He Hf Hfar [lam [mu [L0 [L1 [M0 [M1 [Ex Ey]]]]]]].
  destruct (He lam L0 L1) as [u [U0 [U1 Hu]]]. destruct (Hf mu M0 M1) as [v [V0 [V1 Hv]]].
  apply (Hfar u v U0 U1 V0 V1).
  destruct (between_co (fst e) (snd e) lam) as [Bx By]. destruct (between_co (fst f) (snd f) mu) as [Cx Cy].
  unfold ChebLe in *. destruct Hu as [X1 [X2 [Y1 Y2]]]. destruct Hv as [P1 [P2 [Q1 Q2]]].
  rewrite Bx in X1, X2. rewrite By in Y1, Y2. rewrite Cx in P1, P2. rewrite Cy in Q1, Q2.
  rewrite Ex in X1, X2. rewrite Ey in Y1, Y2. repeat split; lra.
Qed.

Corollary close_far_no_cross H e f s t : close_to H e s -> close_to H f t -> farther_than (2 * H) s t ->
  ~ proper_cross (fst e) (snd e) (fst f) (snd f).
Proof.
  intros He Hf Hfar Hc. apply (close_far_disjoint H e f s t He Hf Hfar).
  destruct (proper_cross_param _ _ _ _ Hc) as [x [y [X0 [X1 [Y0 [Y1 [E1 E2]]]]]]].
  exists x, y. repeat split; try lra; assumption.
Qed.

(** ** the source edge of a returned edge: one edge of the polygon as written, uniformly for all its points *)
Section Source.
  Variables (g : grid) (P : list ring) (hs : hotset) (L : nat).
  Hypothesis Hr : (0 < gres g)%Z.
  Hypothesis C : RootCovers g.
  Hypothesis Hi : insertPolygon g P = Ok hs.
  Hypothesis HL : (L <= gdeep g)%nat.
  Hypothesis Ex : ExactMiddle g L.

  Lemma routed_step_source e : routed_step g (hotLevels g hs) L P e ->
    exists s, In s (flat_map ring_edges P) /\ close_to (halfSpan g L) e s.
  Proof.
    intros [idx [r [a [b [Hn [Hab Hs]]]]]].
    pose proof (nth_error_In _ _ Hn) as HrP.
    assert (Hd : In (a, b) (dedges r) \/ In (b, a) (dedges r)).
    { unfold ensureCorrectWindingOrder in Hab. destruct (windingOrderIsCorrect r _); [left; exact Hab |].
      right. apply dedges_rev_In, Hab. }
    assert (Hpts : In a (concat P) /\ In b (concat P)).
    { assert (G : In a r /\ In b r) by (destruct Hd as [Hd | Hd]; apply dedges_pts in Hd; tauto).
      split; apply in_concat; exists r; tauto. }
    destruct Hpts as [Ha Hb].
    assert (Hclose : close_to (halfSpan g L) e (a, b)).
    { intros lam L0 L1. cbn [fst snd]. destruct e as [c1 c2]. cbn [fst snd]. destruct Hs as [Hs | Hs].
      - apply pairs_In_l in Hs as [H1 H2]. exact (routed_chain_close g P hs a b L c1 c2 lam Hr C Hi Ha Hb HL Ex H1 H2 L0 L1).
      - cbn [swap fst snd] in Hs. apply pairs_In_l in Hs as [H2 H1].
        destruct (routed_chain_close g P hs a b L c2 c1 (1 - lam) Hr C Hi Ha Hb HL Ex H2 H1 ltac:(lra) ltac:(lra)) as [t [T0 [T1 Ht]]].
        exists t. split; [exact T0 |]. split; [exact T1 |]. apply cheb_flip_source, Ht. }
    assert (Hlen : (2 <= length r)%nat).
    { destruct r as [| u [| v r']]; cbn [length]; try lia.
      - destruct Hd as [[] | []].
      - exfalso. assert (a = u /\ b = u) as [-> ->].
        { destruct Hd as [Hd | Hd]; cbn in Hd; destruct Hd as [E | []]; inversion E; auto. }
        rewrite (degenerate_edge_no_steps g P hs u L Hr C Hi Ha HL) in Hs. destruct Hs as [[] | []]. }
    assert (Hf : In (a, b) (ring_edges r) \/ In (b, a) (ring_edges r)).
    { destruct Hd as [Hd | Hd]; destruct (dedges_ring_edges r _ _ Hlen Hd); auto. }
    destruct Hf as [Hf | Hf].
    - exists (a, b). split; [apply in_flat_map; exists r; auto | exact Hclose].
    - exists (b, a). split; [apply in_flat_map; exists r; auto |].
      intros lam L0 L1. destruct (Hclose lam L0 L1) as [t [T0 [T1 Ht]]]. exists (1 - t).
      split; [lra |]. split; [lra |]. cbn [fst snd] in *. apply cheb_flip_target, Ht.
  Qed.
End Source.

(** ** (P1) end to end *)
Theorem far_edges_do_not_meet g P levels cfg res hs : (0 < gres g)%Z -> RootCovers g ->
  (forall L, In L levels -> (L <= gdeep g)%nat) -> insertPolygon g P = Ok hs ->
  class_all_levels g P hs levels -> snapPolygon g P levels cfg = Ok res ->
  forall L ps e f, In (L, ps) res -> In e (edges ps) -> In f (edges ps) -> ExactMiddle g L ->
  exists s t, In s (flat_map ring_edges P) /\ In t (flat_map ring_edges P) /\
    close_to (halfSpan g L) e s /\ close_to (halfSpan g L) f t /\
    (farther_than (2 * halfSpan g L) s t -> ~ EdgesShare e f /\ ~ edge_cross e f).
Proof.
  intros Hr C HLs Hi Hcl Hs L ps e f Hin He Hf Ex.
  assert (HL : In L levels).
  { destruct (ProofsLevelC07.level_value _ _ _ _ _ _ _ Hs Hin) as [_ [_ [HL _]]]. exact HL. }
  assert (Hstep : forall e0, In e0 (edges ps) -> routed_step g (hotLevels g hs) L P e0).
  { intros e0 He0. unfold edges in He0. apply in_flat_map in He0. destruct He0 as [poly [Hpoly He0]].
    apply in_flat_map in He0. destruct He0 as [x [Hx He0]].
    exact (snap_edges_routed_steps g P levels cfg res hs Hr C HLs Hi
             (fun L0 HL0 idx r c => Hcl L0 idx r c HL0) Hs L ps poly x e0 Hin Hpoly Hx (ring_edges_cedges x e0 He0)). }
  destruct (routed_step_source g P hs L Hr C Hi (HLs L HL) Ex e (Hstep e He)) as [s [Hs1 Hs2]].
  destruct (routed_step_source g P hs L Hr C Hi (HLs L HL) Ex f (Hstep f Hf)) as [t [Ht1 Ht2]].
  exists s, t. split; [exact Hs1 |]. split; [exact Ht1 |]. split; [exact Hs2 |]. split; [exact Ht2 |].
  intro Hfar. split.
  - exact (close_far_disjoint _ e f s t Hs2 Ht2 Hfar).
  - exact (close_far_no_cross _ e f s t Hs2 Ht2 Hfar).
Qed.


(** ** (P2) steps of one routed chain.

    One axis: for two pixels of the same level that the segment a b meets, the first strictly before the second in
    travel order, the column of the first is not beyond the column of the second in the direction of travel. *)
Definition dir_le (from to : Z) (x x' : Z) : Prop := ((from <= to)%Z -> (x <= x')%Z) /\ ((to <= from)%Z -> (x' <= x)%Z).

Lemma axis_mono (from to g0 S k k' : Z) (t1 t2 : Q) : (0 < S)%Z -> t1 < t2 ->
  inject_Z (g0 + k * S) <= co from to t1 -> co from to t1 < inject_Z (g0 + (k + 1) * S) ->
  inject_Z (g0 + k' * S) <= co from to t2 -> co from to t2 < inject_Z (g0 + (k' + 1) * S) ->
  dir_le from to k k'.
Proof.
  intros HS Ht A1 A2 B1 B2. unfold co in *. split; intro Hd.
  - assert (Hp : 0 <= (t2 - t1) * (inject_Z to - inject_Z from)).
    { apply Qmult_le_0_compat; [lra |]. rewrite <- inject_Z_minus. change 0 with (inject_Z 0). rewrite <- Zle_Qle. lia. }
    assert (Hlt : inject_Z (g0 + k * S) < inject_Z (g0 + (k' + 1) * S)) by lra.
    rewrite <- Zlt_Qlt in Hlt. nia.
  - assert (Hp : 0 <= (t2 - t1) * (inject_Z from - inject_Z to)).
    { apply Qmult_le_0_compat; [lra |]. rewrite <- inject_Z_minus. change 0 with (inject_Z 0). rewrite <- Zle_Qle. lia. }
    assert (Hlt : inject_Z (g0 + k' * S) < inject_Z (g0 + (k + 1) * S)) by lra.
    rewrite <- Zlt_Qlt in Hlt. nia.
Qed.

(** centres of pixels in travel order: both coordinates move (weakly) in the direction of travel *)
Definition travel_le (a b c c' : pt) : Prop := dir_le (fst a) (fst b) (fst c) (fst c') /\ dir_le (snd a) (snd b) (snd c) (snd c').

Lemma before_travel_le g L a b q q' : (0 < gres g)%Z -> Meets a b (pixExt g L q) -> Meets a b (pixExt g L q') ->
  BeforeP g L a b q q' -> travel_le a b (pixCen g L q) (pixCen g L q').
Proof.
  intros Hr [t1 O1] [t2 O2] Hb. pose proof (Hb t1 t2 O1 O2) as Ht.
  destruct O1 as [_ [_ [[X1 X2] [Y1 Y2]]]]. destruct O2 as [_ [_ [[U1 U2] [V1 V2]]]].
  pose proof (quadSpan_pos g L Hr) as HS.
  unfold pixExt, quadExtent in *. cbn [eminx emaxx eminy emaxy] in *.
  pose proof (axis_mono _ _ _ _ _ _ t1 t2 HS Ht X1 X2 U1 U2) as Dx.
  pose proof (axis_mono _ _ _ _ _ _ t1 t2 HS Ht Y1 Y2 V1 V2) as Dy.
  unfold travel_le, pixCen, quadCentroid, dir_le in *. cbn [fst snd]. destruct Dx as [Dx1 Dx2], Dy as [Dy1 Dy2].
  repeat split; intro Hd; [specialize (Dx1 Hd) | specialize (Dx2 Hd) | specialize (Dy1 Hd) | specialize (Dy2 Hd)]; nia.
Qed.

Lemma travel_le_refl a b c : travel_le a b c c.
Proof. unfold travel_le, dir_le. repeat split; intros; lia. Qed.

Lemma sorted_map_travel g L a b (qs : list (Z * Z)) : (0 < gres g)%Z ->
  (forall q, In q qs -> Meets a b (pixExt g L q)) -> StronglySorted (BeforeP g L a b) qs ->
  StronglySorted (travel_le a b) (map (pixCen g L) qs).
Proof.
  intros Hr Hm Hs. induction Hs as [| q qs Hs IH Hq]; cbn [map]; constructor.
  - apply IH. intros q' Hq'. apply Hm. right. exact Hq'.
  - rewrite Forall_forall in *. intros c Hc. apply in_map_iff in Hc. destruct Hc as [q' [<- Hq']].
    apply before_travel_le; [exact Hr | apply Hm; left; reflexivity | apply Hm; right; exact Hq' | apply Hq, Hq'].
Qed.

Lemma sorted_pairs {A} (R : A -> A -> Prop) (l : list A) x y : StronglySorted R l -> In (x, y) (pairs l) -> R x y.
Proof.
  induction l as [| a l IH]; intros Hs Hin; [destruct Hin |]. destruct l as [| b l]; [destruct Hin |].
  rewrite pairs_cons2 in Hin. inversion Hs as [| ? ? Hs' Ha]; subst. destruct Hin as [E | Hin].
  - inversion E; subst. inversion Ha; assumption.
  - apply IH; assumption.
Qed.

Lemma sorted_app_r {A} (R : A -> A -> Prop) (l1 l2 : list A) : StronglySorted R (l1 ++ l2) -> StronglySorted R l2.
Proof. induction l1 as [| a l1 IH]; [auto |]. cbn [app]. intro H. inversion H; subst. auto. Qed.

(** one axis of a common interior point of two segments lying one after the other *)
Lemma axis_collapse (X1 X2 X3 X4 s t : Q) : 0 < s -> s < 1 -> 0 < t -> t < 1 ->
  (X1 <= X2 /\ X2 <= X3 /\ X3 <= X4) \/ (X4 <= X3 /\ X3 <= X2 /\ X2 <= X1) ->
  X1 + s * (X2 - X1) == X3 + t * (X4 - X3) -> X1 == X2.
Proof.
  intros S0 S1 T0 T1 Hm E. destruct Hm as [[A [B C0]] | [A [B C0]]].
  - assert (P1 : 0 <= (1 - s) * (X2 - X1)) by (apply Qmult_le_0_compat; lra).
    assert (P2 : 0 <= t * (X4 - X3)) by (apply Qmult_le_0_compat; lra).
    destruct (Qlt_le_dec X1 X2) as [Hlt | Hge]; [| lra].
    assert (P3 : 0 < (1 - s) * (X2 - X1)) by (apply Qmult_lt_0_compat; lra). lra.
  - assert (P1 : 0 <= (1 - s) * (X1 - X2)) by (apply Qmult_le_0_compat; lra).
    assert (P2 : 0 <= t * (X3 - X4)) by (apply Qmult_le_0_compat; lra).
    destruct (Qlt_le_dec X2 X1) as [Hlt | Hge]; [| lra].
    assert (P3 : 0 < (1 - s) * (X1 - X2)) by (apply Qmult_lt_0_compat; lra). lra.
Qed.

Lemma dir_chain (from to x1 x2 x3 x4 : Z) : dir_le from to x1 x2 -> dir_le from to x2 x3 -> dir_le from to x3 x4 ->
  (inject_Z x1 <= inject_Z x2 /\ inject_Z x2 <= inject_Z x3 /\ inject_Z x3 <= inject_Z x4) \/
  (inject_Z x4 <= inject_Z x3 /\ inject_Z x3 <= inject_Z x2 /\ inject_Z x2 <= inject_Z x1).
Proof.
  intros [A1 A2] [B1 B2] [C1 C2]. rewrite <- !Zle_Qle. destruct (Z.le_ge_cases from to) as [H | H]; [left | right]; auto.
Qed.

(** two segments that follow each other in the direction of travel have no common interior point unless the first
    is a single point; in particular they do not cross properly *)
Theorem travel_no_cross a b c1 c2 c3 c4 : travel_le a b c1 c2 -> travel_le a b c2 c3 -> travel_le a b c3 c4 ->
  ~ proper_cross c1 c2 c3 c4.
Proof.
  intros [Ax Ay] [Bx By] [Cx Cy] Hc. pose proof Hc as Hc'.
  destruct (proper_cross_param _ _ _ _ Hc) as [s [t [S0 [S1 [T0 [T1 [Ex Ey]]]]]]]. unfold co in Ex, Ey.
  pose proof (axis_collapse _ _ _ _ s t S0 S1 T0 T1 (dir_chain _ _ _ _ _ _ Ax Bx Cx) Ex) as E1.
  pose proof (axis_collapse _ _ _ _ s t S0 S1 T0 T1 (dir_chain _ _ _ _ _ _ Ay By Cy) Ey) as E2.
  assert (F1 : fst c1 = fst c2) by (apply inject_Z_injective; exact E1).
  assert (F2 : snd c1 = snd c2) by (apply inject_Z_injective; exact E2).
  assert (E : c1 = c2) by (destruct c1 as [u1 v1], c2 as [u2 v2]; cbn [fst snd] in F1, F2; subst; reflexivity). subst c2.
  destruct Hc' as [[[H1 H2] | [H1 H2]] _]; unfold orient3 in H1; lia.
Qed.

(** the routed chain of an edge of the indexed polygon: a step and any later step (the next one included) *)
Theorem same_chain_no_cross g P hs a b L l1 c1 c2 l2 c3 c4 : (0 < gres g)%Z -> RootCovers g ->
  insertPolygon g P = Ok hs -> In a (concat P) -> In b (concat P) -> (L <= gdeep g)%nat ->
  snapClosestPoints g (hotLevels g hs) a b L = l1 ++ c1 :: c2 :: l2 -> In (c3, c4) (pairs (c2 :: l2)) ->
  forall e f, (e = (c1, c2) \/ e = (c2, c1)) -> (f = (c3, c4) \/ f = (c4, c3)) -> ~ edge_cross e f.
Proof.
  intros Hr C Hi Ha Hb HL E Hin e f He Hf.
  destruct (C02_routing_vertices g P hs a b L Hr C Hi Ha Hb HL) as [[Ep [_ [M Hs]]] _].
  assert (Hsorted : StronglySorted (travel_le a b) (l1 ++ c1 :: c2 :: l2)).
  { rewrite <- E, Ep. apply sorted_map_travel; [exact Hr | | exact Hs]. intros q Hq. apply M in Hq. tauto. }
  apply sorted_app_r in Hsorted. inversion Hsorted as [| ? ? Hs2 F1]; subst.
  assert (R12 : travel_le a b c1 c2) by (inversion F1; assumption).
  assert (R34 : travel_le a b c3 c4) by (apply (sorted_pairs _ _ _ _ Hs2 Hin)).
  assert (R23 : travel_le a b c2 c3).
  { apply pairs_In_l in Hin as [H3 _]. destruct H3 as [<- | H3]; [apply travel_le_refl |].
    inversion Hs2 as [| ? ? _ F2]; subst. rewrite Forall_forall in F2. apply F2, H3. }
  pose proof (travel_no_cross a b c1 c2 c3 c4 R12 R23 R34) as N.
  unfold edge_cross. intro Hc. apply N.
  destruct He as [-> | ->], Hf as [-> | ->]; cbn [fst snd] in Hc.
  - exact Hc.
  - apply proper_cross_sym, proper_cross_flip, proper_cross_sym. exact Hc.
  - apply proper_cross_flip. exact Hc.
  - apply proper_cross_flip, proper_cross_sym, proper_cross_flip, proper_cross_sym. exact Hc.
Qed.

Print Assumptions far_edges_do_not_meet.
Print Assumptions same_chain_no_cross.
