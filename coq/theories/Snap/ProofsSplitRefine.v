(** * splitRing, part 2: [splitStep] on the keyed stack computes [astep] on the values;
      consequences for [splitRing]: totality, conservation of directed edges, repeat-freedom,
      shape, orientation, provenance. *)
From Coq Require Import ZArith List Bool Lia Permutation.
From Texel Require Import Prelude.Base Index.Model Snap.Model Snap.ProofsBasics Snap.ProofsSplit.
Import ListNotations.
Open Scope Z_scope.

(** ** the keyed stack *)
Lemma st_get_fresh s k : ~ In k (map fst s) -> st_get s k = None.
Proof.
  induction s as [| [k' v'] s IH]; intro H; [reflexivity |]. cbn [st_get].
  destruct (Z.eqb_spec k k') as [E | N]; [exfalso; apply H; left; cbn; congruence |].
  apply IH. intro H'. apply H. right. exact H'.
Qed.

Lemma st_set_fresh s k v : ~ In k (map fst s) -> st_set s k v = s ++ [(k, v)].
Proof.
  induction s as [| [k' v'] s IH]; intro H; [reflexivity |]. cbn [st_set app].
  destruct (Z.eqb_spec k k') as [E | N]; [exfalso; apply H; left; cbn; congruence |].
  rewrite IH; [reflexivity |]. intro H'. apply H. right. exact H'.
Qed.

Lemma st_get_top older k cur : ~ In k (map fst older) -> st_get (older ++ [(k, cur)]) k = Some cur.
Proof.
  induction older as [| [k' v'] s IH]; intro H; cbn [st_get app].
  - rewrite Z.eqb_refl. reflexivity.
  - destruct (Z.eqb_spec k k') as [E | N]; [exfalso; apply H; left; cbn; congruence |].
    apply IH. intro H'. apply H. right. exact H'.
Qed.

Lemma st_set_top older k cur v : ~ In k (map fst older) -> st_set (older ++ [(k, cur)]) k v = older ++ [(k, v)].
Proof.
  induction older as [| [k' v'] s IH]; intro H; cbn [st_set app].
  - rewrite Z.eqb_refl. reflexivity.
  - destruct (Z.eqb_spec k k') as [E | N]; [exfalso; apply H; left; cbn; congruence |].
    rewrite IH; [reflexivity |]. intro H'. apply H. right. exact H'.
Qed.

Lemma mem_Z_In z l : mem_Z z l = true <-> In z l.
Proof.
  unfold mem_Z. rewrite existsb_exists. split.
  - intros [x [Hin E]]. apply Z.eqb_eq in E. congruence.
  - intro H. exists z. split; [exact H | apply Z.eqb_refl].
Qed.

Lemma filter_all {A} (f : A -> bool) l : (forall x, In x l -> f x = true) -> filter f l = l.
Proof.
  induction l as [| a l IH]; intro H; [reflexivity |]. cbn [filter].
  rewrite (H a (or_introl eq_refl)). f_equal. apply IH. intros x Hx. apply H. right. exact Hx.
Qed.

Lemma filter_none {A} (f : A -> bool) l : (forall x, In x l -> f x = false) -> filter f l = [].
Proof.
  induction l as [| a l IH]; intro H; [reflexivity |]. cbn [filter].
  rewrite (H a (or_introl eq_refl)). apply IH. intros x Hx. apply H. right. exact Hx.
Qed.

Lemma fold_st_del ks : forall s, fold_left st_del ks s = filter (fun e => negb (mem_Z (fst e) ks)) s.
Proof.
  induction ks as [| k ks IH]; intro s; cbn [fold_left].
  - symmetry. apply filter_all. intros x _. reflexivity.
  - rewrite IH. unfold st_del. induction s as [| e s IHs]; [reflexivity |].
    cbn [filter]. unfold mem_Z at 2. cbn [existsb]. rewrite (Z.eqb_sym (fst e) k).
    destruct (k =? fst e); cbn [negb orb filter]; [exact IHs |].
    fold (mem_Z (fst e) ks). destruct (mem_Z (fst e) ks); cbn [negb]; [exact IHs | f_equal; exact IHs].
Qed.

Lemma NoDup_snoc_inv {A} (l : list A) a : NoDup (l ++ [a]) -> ~ In a l /\ NoDup l.
Proof.
  intro ND. split; [| apply (NoDup_app_l _ _ ND)].
  intro H. apply (NoDup_app_disjoint _ _ a ND H). left. reflexivity.
Qed.

(** ** first_last_eq *)
Lemma idx_last_ne (t : list pt) : t <> [] -> idx t (zlen t - 1) = Ok (last t dp).
Proof.
  intro H. destruct (snoc_cases t) as [-> | [t' [z ->]]]; [congruence |].
  rewrite idx_last_snoc, last_last. reflexivity.
Qed.

Lemma idx_hd_ne (t : list pt) : t <> [] -> idx t 0 = Ok (hd dp t).
Proof. destruct t; [congruence | reflexivity]. Qed.

Lemma first_last_eq_spec (t : list pt) : t <> [] -> first_last_eq t = Ok (closedb t).
Proof.
  intro H. unfold first_last_eq. rewrite idx_hd_ne, idx_last_ne by exact H. reflexivity.
Qed.

Lemma aclose_closed K t : closedb t = true -> aclose K t = Some (removelast t, K).
Proof. intro C. destruct K; cbn [aclose]; rewrite C; reflexivity. Qed.

Lemma aclose_open q K t : closedb t = false -> aclose (q :: K) t = aclose K (q ++ tl t).
Proof. intro C. cbn [aclose]. rewrite C. reflexivity. Qed.

(** ** prependLoop computes aclose *)
Lemma prepend_spec ro : forall t rem, chain (t :: map snd ro) -> Forall (fun q => q <> []) (map snd ro) ->
  t <> [] -> closedb t = false ->
  (prependLoop ro t rem = Ok None /\ aclose (map snd ro) t = None) \/
  (exists B e R ring, ro = B ++ e :: R /\
     prependLoop ro t rem = Ok (Some (fst e, ring, rem ++ map fst B ++ [fst e])) /\
     aclose (map snd ro) t = Some (ring, map snd R)).
Proof.
  induction ro as [| [key partial] rest IH]; intros t rem Hc Hne Ht C.
  - left. cbn [prependLoop map aclose]. rewrite C. auto.
  - cbn [map snd] in *. inversion Hne as [| ? ? Hp Hrest]; subst.
    cbn [chain] in Hc. destruct Hc as [Hl Hc].
    cbn [prependLoop]. rewrite idx_last_ne by exact Hp. rewrite idx_hd_ne by exact Ht. cbn [bind].
    rewrite Hl, pt_eqb_refl.
    assert (Ht' : partial ++ tl t <> []) by (intro E; apply app_eq_nil in E; destruct E; congruence).
    rewrite first_last_eq_spec by exact Ht'. cbn [bind].
    rewrite aclose_open by exact C.
    destruct (closedb (partial ++ tl t)) eqn:C'.
    + right. exists [], (key, partial), rest, (removelast (partial ++ tl t)).
      split; [reflexivity |]. split; [reflexivity |]. apply aclose_closed, C'.
    + assert (Hc' : chain ((partial ++ tl t) :: map snd rest)).
      { apply (chain_replace_hd _ partial); [apply hd_app, Hp | exact Hc]. }
      destruct (IH (partial ++ tl t) (rem ++ [key]) Hc' Hrest Ht' C') as [[E1 E2] | [B [e [R [ring [E0 [E1 E2]]]]]]].
      * left. auto.
      * right. exists ((key, partial) :: B), e, R, ring. split; [cbn [app]; congruence |].
        split; [| exact E2]. rewrite E1. cbn [map fst app]. rewrite <- !app_assoc. reflexivity.
Qed.

(** ** key bookkeeping *)
Record kinv (k : Z) (stk : stack) (done : complete) : Prop := mkKinv {
  k_nodup : NoDup (map fst stk);
  k_le : Forall (fun e => fst e <= k) stk;
  d_nodup : NoDup (map fst done);
  d_le : Forall (fun e => fst e <= k) done;
  d_fresh : forall key, In key (map fst done) -> ~ In key (map fst stk) }.

(** the state after the closing phase *)
Record phase_ok (k : Z) (stk stk2 : stack) (done2 : complete) (K2 : list (list pt)) (D2 : list ring) : Prop := mkPhaseOk {
  p_vals : map snd stk2 = rev K2;
  p_done : map snd done2 = D2;
  p_sub : incl (map fst stk2) (map fst stk);
  p_kinv : kinv k stk2 done2 }.

Lemma Forall_incl_fst (P : Z -> Prop) (s s' : stack) :
  incl (map fst s') (map fst s) -> Forall (fun e => P (fst e)) s -> Forall (fun e => P (fst e)) s'.
Proof.
  intros Hi Hf. rewrite Forall_forall in *. intros e He.
  assert (Hin : In (fst e) (map fst s)) by (apply Hi, in_map, He).
  apply in_map_iff in Hin. destruct Hin as [e' [E Hin]]. rewrite <- E. apply Hf, Hin.
Qed.

Lemma kinv_complete k stk done stk2 key (ring : list pt) :
  kinv k stk done -> incl (map fst stk2) (map fst stk) -> NoDup (map fst stk2) ->
  In key (map fst stk) -> ~ In key (map fst stk2) ->
  kinv k stk2 (done ++ [(key, ring)]).
Proof.
  intros [Kn Kl Dn Dl Df] Hi Hn Hk Hk2. constructor.
  - exact Hn.
  - apply (Forall_incl_fst (fun z => z <= k) stk stk2 Hi Kl).
  - rewrite map_app. cbn [map fst]. apply NoDup_snoc; [exact Dn |]. intro H. apply (Df key H Hk).
  - apply Forall_app. split; [exact Dl |]. constructor; [| constructor]. cbn [fst].
    apply in_map_iff in Hk. destruct Hk as [e [E He]]. rewrite Forall_forall in Kl. rewrite <- E. apply Kl, He.
  - intros key' H. rewrite map_app in H. apply in_app_or in H. destruct H as [H | [<- | []]].
    + intro H2. apply (Df key' H), Hi, H2.
    + exact Hk2.
Qed.

Lemma st_del_top older k v : ~ In k (map fst older) -> st_del (older ++ [(k, v)]) k = older.
Proof.
  intro H. unfold st_del. rewrite filter_app. cbn [filter fst]. rewrite Z.eqb_refl. cbn [negb]. rewrite app_nil_r.
  apply filter_all. intros e He. destruct (Z.eqb_spec (fst e) k) as [E | N]; [| reflexivity].
  exfalso. apply H. rewrite <- E. apply in_map, He.
Qed.

(** the closing phase of [splitStep], as a function *)
Definition cphase (k : Z) (stk1 : stack) (done : complete) (tempRing : list pt) : res (stack * complete) :=
  do closed <- first_last_eq tempRing;
  if closed then Ok (st_del stk1 k, done ++ [(k, removelast tempRing)])
  else
    match rev stk1 with
    | [] => Ok (stk1, done)
    | _newest :: older =>
        do r <- prependLoop older tempRing [k];
        match r with
        | None => Ok (stk1, done)
        | Some (stackIdx, ringDone, toRemove) =>
            Ok (fold_left st_del toRemove stk1, done ++ [(stackIdx, ringDone)])
        end
    end.

Lemma cphase_refines k older cur v done r0 vprev rest K2 D2 :
  kinv k (older ++ [(k, cur)]) done -> map snd older = rev rest -> ainv r0 vprev (cur :: rest) ->
  aphase cur rest (map snd done) v = (K2, D2) ->
  exists stk2 done2, cphase k (older ++ [(k, cur ++ [v])]) done (cur ++ [v]) = Ok (stk2, done2) /\
                     phase_ok k (older ++ [(k, cur)]) stk2 done2 K2 D2.
Proof.
  intros Hk Hv Ha Eph.
  assert (Hq : cur <> []) by (pose proof (a_ne _ _ _ Ha) as H; inversion H; assumption).
  assert (Hrest : Forall (fun q => q <> []) rest) by (pose proof (a_ne _ _ _ Ha) as H; inversion H; assumption).
  set (t := cur ++ [v]) in *.
  assert (Ht : t <> []) by (unfold t; intro E; apply app_eq_nil in E; destruct E; discriminate).
  pose proof (k_nodup _ _ _ Hk) as Kn. rewrite map_app in Kn. cbn [map fst] in Kn.
  destruct (NoDup_snoc_inv _ _ Kn) as [Hko Hno].
  assert (Hkeys : map fst (older ++ [(k, t)]) = map fst (older ++ [(k, cur)])) by (rewrite !map_app; reflexivity).
  assert (Hkin : In k (map fst (older ++ [(k, cur)]))).
  { rewrite map_app. apply in_or_app. right. left. reflexivity. }
  unfold cphase. rewrite first_last_eq_spec by exact Ht. cbn [bind]. unfold aphase in Eph. fold t in Eph.
  destruct (closedb t) eqn:C.
  - rewrite aclose_closed in Eph by exact C. inversion Eph; subst K2 D2.
    rewrite st_del_top by exact Hko. eexists _, _. split; [reflexivity |]. constructor.
    + exact Hv.
    + rewrite map_app. unfold t. rewrite removelast_last. reflexivity.
    + rewrite map_app. apply incl_appl, incl_refl.
    + apply (kinv_complete k (older ++ [(k, cur)])); try assumption.
      rewrite map_app. apply incl_appl, incl_refl.
  - rewrite rev_unit.
    assert (Hm : map snd (rev older) = rest) by (rewrite map_rev, Hv, rev_involutive; reflexivity).
    assert (Hc : chain (t :: map snd (rev older))).
    { rewrite Hm. apply (chain_replace_hd _ cur); [apply hd_app, Hq | apply (a_chain _ _ _ Ha)]. }
    assert (Hne : Forall (fun q => q <> []) (map snd (rev older))) by (rewrite Hm; exact Hrest).
    destruct (prepend_spec (rev older) t [k] Hc Hne Ht C) as [[E1 E2] | [B [e [R [ring [E0 [E1 E2]]]]]]].
    + rewrite E1. cbn [bind]. rewrite Hm in E2. rewrite E2 in Eph. inversion Eph; subst K2 D2.
      eexists _, _. split; [reflexivity |]. constructor.
      * rewrite map_app. cbn [map snd rev]. rewrite Hv. reflexivity.
      * reflexivity.
      * rewrite Hkeys. apply incl_refl.
      * destruct Hk as [Kn' Kl Dn Dl Df]. constructor; try assumption.
        -- rewrite Hkeys. exact Kn'.
        -- apply Forall_app. apply Forall_app in Kl. destruct Kl as [Kl1 Kl2]. split; [exact Kl1 |].
           constructor; [| constructor]. inversion Kl2; assumption.
        -- rewrite Hkeys. exact Df.
    + rewrite E1. cbn [bind]. rewrite Hm in E2. rewrite E2 in Eph. inversion Eph; subst K2 D2.
      assert (Eo : older = rev R ++ e :: rev B).
      { rewrite <- (rev_involutive older), E0, rev_app_distr. cbn [rev]. rewrite <- app_assoc. reflexivity. }
      rewrite Eo in Hno, Hko. rewrite map_app in Hno, Hko. cbn [map] in Hno, Hko.
      assert (Hf : fold_left st_del ([k] ++ map fst B ++ [fst e]) (older ++ [(k, t)]) = rev R).
      { rewrite fold_st_del, Eo, <- app_assoc, filter_app.
        rewrite filter_all, filter_none; [apply app_nil_r | |].
        - intros x Hx. apply negb_false_iff, mem_Z_In.
          change (e :: rev B) with ([e] ++ rev B) in Hx. rewrite <- app_assoc in Hx.
          apply in_app_or in Hx. destruct Hx as [[<- | []] | Hx].
          + apply in_or_app. right. apply in_or_app. right. left. reflexivity.
          + apply in_app_or in Hx. destruct Hx as [Hx | [<- | []]].
            * apply in_or_app. right. apply in_or_app. left. apply in_map. apply in_rev. exact Hx.
            * left. reflexivity.
        - intros x Hx. apply negb_true_iff. destruct (mem_Z (fst x) ([k] ++ map fst B ++ [fst e])) eqn:M; [| reflexivity].
          exfalso. apply mem_Z_In in M. apply (in_map fst) in Hx.
          destruct M as [<- | M].
          + apply Hko. apply in_or_app. left. exact Hx.
          + apply (NoDup_app_disjoint _ _ _ Hno Hx). apply in_app_or in M. destruct M as [M | [<- | []]].
            * right. rewrite map_rev. apply in_rev. rewrite rev_involutive. exact M.
            * left. reflexivity. }
      rewrite Hf. eexists _, _. split; [reflexivity |]. constructor.
      * rewrite map_rev. reflexivity.
      * rewrite map_app. reflexivity.
      * rewrite Eo, !map_app. apply incl_appl, incl_appl, incl_refl.
      * apply (kinv_complete k (older ++ [(k, cur)])); try assumption.
        -- rewrite Eo, !map_app. apply incl_appl, incl_appl, incl_refl.
        -- apply (NoDup_app_l _ _ Hno).
        -- rewrite Eo, !map_app. apply in_or_app. left. apply in_or_app. right. left. reflexivity.
        -- intro H. apply (NoDup_app_disjoint _ _ _ Hno H). left. reflexivity.
Qed.
