(** * splitRing, part 2: [splitStep] on the keyed stack computes [astep] on the values;
      consequences for [splitRing]: totality, conservation of directed edges, repeat-freedom,
      shape, orientation, provenance. *)
From Coq Require Import ZArith List Bool Lia Permutation.
From Texel Require Import Prelude.Base Index.Model Snap.Model Snap.ProofsBasics Snap.ProofsSplit.
Import ListNotations.
Open Scope Z_scope.

(** ** the keyed stack *)
Lemma st_get_fresh s k : ~ In k (map fst s) -> st_get s k = None.
Proof.
  induction s as [| [k' v'] s IH]; intro H; [reflexivity |]. cbn [st_get].
  destruct (Z.eqb_spec k k') as [E | N]; [exfalso; apply H; left; cbn; congruence |].
  apply IH. intro H'. apply H. right. exact H'.
Qed.

Lemma st_set_fresh s k v : ~ In k (map fst s) -> st_set s k v = s ++ [(k, v)].
Proof.
  induction s as [| [k' v'] s IH]; intro H; [reflexivity |]. cbn [st_set app].
  destruct (Z.eqb_spec k k') as [E | N]; [exfalso; apply H; left; cbn; congruence |].
  rewrite IH; [reflexivity |]. intro H'. apply H. right. exact H'.
Qed.

Lemma st_get_top older k cur : ~ In k (map fst older) -> st_get (older ++ [(k, cur)]) k = Some cur.
Proof.
  induction older as [| [k' v'] s IH]; intro H; cbn [st_get app].
  - rewrite Z.eqb_refl. reflexivity.
  - destruct (Z.eqb_spec k k') as [E | N]; [exfalso; apply H; left; cbn; congruence |].
    apply IH. intro H'. apply H. right. exact H'.
Qed.

Lemma st_set_top older k cur v : ~ In k (map fst older) -> st_set (older ++ [(k, cur)]) k v = older ++ [(k, v)].
Proof.
  induction older as [| [k' v'] s IH]; intro H; cbn [st_set app].
  - rewrite Z.eqb_refl. reflexivity.
  - destruct (Z.eqb_spec k k') as [E | N]; [exfalso; apply H; left; cbn; congruence |].
    rewrite IH; [reflexivity |]. intro H'. apply H. right. exact H'.
Qed.

Lemma mem_Z_In z l : mem_Z z l = true <-> In z l.
Proof.
  unfold mem_Z. rewrite existsb_exists. split.
  - intros [x [Hin E]]. apply Z.eqb_eq in E. congruence.
  - intro H. exists z. split; [exact H | apply Z.eqb_refl].
Qed.

Lemma filter_all {A} (f : A -> bool) l : (forall x, In x l -> f x = true) -> filter f l = l.
Proof.
  induction l as [| a l IH]; intro H; [reflexivity |]. cbn [filter].
  rewrite (H a (or_introl eq_refl)). f_equal. apply IH. intros x Hx. apply H. right. exact Hx.
Qed.

Lemma filter_none {A} (f : A -> bool) l : (forall x, In x l -> f x = false) -> filter f l = [].
Proof.
  induction l as [| a l IH]; intro H; [reflexivity |]. cbn [filter].
  rewrite (H a (or_introl eq_refl)). apply IH. intros x Hx. apply H. right. exact Hx.
Qed.

Lemma fold_st_del ks : forall s, fold_left st_del ks s = filter (fun e => negb (mem_Z (fst e) ks)) s.
Proof.
  induction ks as [| k ks IH]; intro s; cbn [fold_left].
  - symmetry. apply filter_all. intros x _. reflexivity.
  - rewrite IH. unfold st_del. induction s as [| e s IHs]; [reflexivity |].
    cbn [filter]. unfold mem_Z at 2. cbn [existsb]. rewrite (Z.eqb_sym (fst e) k).
    destruct (k =? fst e); cbn [negb orb filter]; [exact IHs |].
    fold (mem_Z (fst e) ks). destruct (mem_Z (fst e) ks); cbn [negb]; [exact IHs | f_equal; exact IHs].
Qed.

Lemma NoDup_snoc_inv {A} (l : list A) a : NoDup (l ++ [a]) -> ~ In a l /\ NoDup l.
Proof.
  intro ND. split; [| apply (NoDup_app_l _ _ ND)].
  intro H. apply (NoDup_app_disjoint _ _ a ND H). left. reflexivity.
Qed.

(** ** first_last_eq *)
Lemma idx_last_ne (t : list pt) : t <> [] -> idx t (zlen t - 1) = Ok (last t dp).
Proof.
  intro H. destruct (snoc_cases t) as [-> | [t' [z ->]]]; [congruence |].
  rewrite idx_last_snoc, last_last. reflexivity.
Qed.

Lemma idx_hd_ne (t : list pt) : t <> [] -> idx t 0 = Ok (hd dp t).
Proof. destruct t; [congruence | reflexivity]. Qed.

Lemma first_last_eq_spec (t : list pt) : t <> [] -> first_last_eq t = Ok (closedb t).
Proof.
  intro H. unfold first_last_eq. rewrite idx_hd_ne, idx_last_ne by exact H. reflexivity.
Qed.

Lemma aclose_closed K t : closedb t = true -> aclose K t = Some (removelast t, K).
Proof. intro C. destruct K; cbn [aclose]; rewrite C; reflexivity. Qed.

Lemma aclose_open q K t : closedb t = false -> aclose (q :: K) t = aclose K (q ++ tl t).
Proof. intro C. cbn [aclose]. rewrite C. reflexivity. Qed.

(** ** prependLoop computes aclose *)
Lemma prepend_spec ro : forall t rem, chain (t :: map snd ro) -> Forall (fun q => q <> []) (map snd ro) ->
  t <> [] -> closedb t = false ->
  (prependLoop ro t rem = Ok None /\ aclose (map snd ro) t = None) \/
  (exists B e R ring, ro = B ++ e :: R /\
     prependLoop ro t rem = Ok (Some (fst e, ring, rem ++ map fst B ++ [fst e])) /\
     aclose (map snd ro) t = Some (ring, map snd R)).
Proof.
  induction ro as [| [key partial] rest IH]; intros t rem Hc Hne Ht C.
  - left. cbn [prependLoop map aclose]. rewrite C. auto.
  - cbn [map snd] in *. inversion Hne as [| ? ? Hp Hrest]; subst.
    cbn [chain] in Hc. destruct Hc as [Hl Hc].
    cbn [prependLoop]. rewrite idx_last_ne by exact Hp. rewrite idx_hd_ne by exact Ht. cbn [bind].
    rewrite Hl, pt_eqb_refl.
    assert (Ht' : partial ++ tl t <> []) by (intro E; apply app_eq_nil in E; destruct E; congruence).
    rewrite first_last_eq_spec by exact Ht'. cbn [bind].
    rewrite aclose_open by exact C.
    destruct (closedb (partial ++ tl t)) eqn:C'.
    + right. exists [], (key, partial), rest, (removelast (partial ++ tl t)).
      split; [reflexivity |]. split; [reflexivity |]. apply aclose_closed, C'.
    + assert (Hc' : chain ((partial ++ tl t) :: map snd rest)).
      { apply (chain_replace_hd _ partial); [apply hd_app, Hp | exact Hc]. }
      destruct (IH (partial ++ tl t) (rem ++ [key]) Hc' Hrest Ht' C') as [[E1 E2] | [B [e [R [ring [E0 [E1 E2]]]]]]].
      * left. auto.
      * right. exists ((key, partial) :: B), e, R, ring. split; [cbn [app]; congruence |].
        split; [| exact E2]. rewrite E1. cbn [map fst app]. rewrite <- !app_assoc. reflexivity.
Qed.

(** ** key bookkeeping *)
Record kinv (k : Z) (stk : stack) (done : complete) : Prop := mkKinv {
  k_nodup : NoDup (map fst stk);
  k_le : Forall (fun e => fst e <= k) stk;
  d_nodup : NoDup (map fst done);
  d_le : Forall (fun e => fst e <= k) done;
  d_fresh : forall key, In key (map fst done) -> ~ In key (map fst stk) }.

(** the state after the closing phase *)
Record phase_ok (k : Z) (stk stk2 : stack) (done2 : complete) (K2 : list (list pt)) (D2 : list ring) : Prop := mkPhaseOk {
  p_vals : map snd stk2 = rev K2;
  p_done : map snd done2 = D2;
  p_sub : incl (map fst stk2) (map fst stk);
  p_kinv : kinv k stk2 done2 }.

Lemma Forall_incl_fst (P : Z -> Prop) (s s' : stack) :
  incl (map fst s') (map fst s) -> Forall (fun e => P (fst e)) s -> Forall (fun e => P (fst e)) s'.
Proof.
  intros Hi Hf. rewrite Forall_forall in *. intros e He.
  assert (Hin : In (fst e) (map fst s)) by (apply Hi, in_map, He).
  apply in_map_iff in Hin. destruct Hin as [e' [E Hin]]. rewrite <- E. apply Hf, Hin.
Qed.

Lemma kinv_complete k stk done stk2 key (ring : list pt) :
  kinv k stk done -> incl (map fst stk2) (map fst stk) -> NoDup (map fst stk2) ->
  In key (map fst stk) -> ~ In key (map fst stk2) ->
  kinv k stk2 (done ++ [(key, ring)]).
Proof.
  intros [Kn Kl Dn Dl Df] Hi Hn Hk Hk2. constructor.
  - exact Hn.
  - apply (Forall_incl_fst (fun z => z <= k) stk stk2 Hi Kl).
  - rewrite map_app. cbn [map fst]. apply NoDup_snoc; [exact Dn |]. intro H. apply (Df key H Hk).
  - apply Forall_app. split; [exact Dl |]. constructor; [| constructor]. cbn [fst].
    apply in_map_iff in Hk. destruct Hk as [e [E He]]. rewrite Forall_forall in Kl. rewrite <- E. apply Kl, He.
  - intros key' H. rewrite map_app in H. apply in_app_or in H. destruct H as [H | [<- | []]].
    + intro H2. apply (Df key' H), Hi, H2.
    + exact Hk2.
Qed.

Lemma st_del_top older k v : ~ In k (map fst older) -> st_del (older ++ [(k, v)]) k = older.
Proof.
  intro H. unfold st_del. rewrite filter_app. cbn [filter fst]. rewrite Z.eqb_refl. cbn [negb]. rewrite app_nil_r.
  apply filter_all. intros e He. destruct (Z.eqb_spec (fst e) k) as [E | N]; [| reflexivity].
  exfalso. apply H. rewrite <- E. apply in_map, He.
Qed.

(** the closing phase of [splitStep], as a function *)
Definition cphase (k : Z) (stk1 : stack) (done : complete) (tempRing : list pt) : res (stack * complete) :=
  do closed <- first_last_eq tempRing;
  if closed then Ok (st_del stk1 k, done ++ [(k, removelast tempRing)])
  else
    match rev stk1 with
    | [] => Ok (stk1, done)
    | _newest :: older =>
        do r <- prependLoop older tempRing [k];
        match r with
        | None => Ok (stk1, done)
        | Some (stackIdx, ringDone, toRemove) =>
            Ok (fold_left st_del toRemove stk1, done ++ [(stackIdx, ringDone)])
        end
    end.

Lemma cphase_refines k older cur v done r0 vprev rest K2 D2 :
  kinv k (older ++ [(k, cur)]) done -> map snd older = rev rest -> ainv r0 vprev (cur :: rest) ->
  aphase cur rest (map snd done) v = (K2, D2) ->
  exists stk2 done2, cphase k (older ++ [(k, cur ++ [v])]) done (cur ++ [v]) = Ok (stk2, done2) /\
                     phase_ok k (older ++ [(k, cur)]) stk2 done2 K2 D2.
Proof.
  intros Hk Hv Ha Eph.
  assert (Hq : cur <> []) by (pose proof (a_ne _ _ _ Ha) as H; inversion H; assumption).
  assert (Hrest : Forall (fun q => q <> []) rest) by (pose proof (a_ne _ _ _ Ha) as H; inversion H; assumption).
  set (t := cur ++ [v]) in *.
  assert (Ht : t <> []) by (unfold t; intro E; apply app_eq_nil in E; destruct E; discriminate).
  pose proof (k_nodup _ _ _ Hk) as Kn. rewrite map_app in Kn. cbn [map fst] in Kn.
  destruct (NoDup_snoc_inv _ _ Kn) as [Hko Hno].
  assert (Hkeys : map fst (older ++ [(k, t)]) = map fst (older ++ [(k, cur)])) by (rewrite !map_app; reflexivity).
  assert (Hkin : In k (map fst (older ++ [(k, cur)]))).
  { rewrite map_app. apply in_or_app. right. left. reflexivity. }
  unfold cphase. rewrite first_last_eq_spec by exact Ht. cbn [bind]. unfold aphase in Eph. fold t in Eph.
  destruct (closedb t) eqn:C.
  - rewrite aclose_closed in Eph by exact C. inversion Eph; subst K2 D2.
    rewrite st_del_top by exact Hko. eexists _, _. split; [reflexivity |]. constructor.
    + exact Hv.
    + rewrite map_app. unfold t. rewrite removelast_last. reflexivity.
    + rewrite map_app. apply incl_appl, incl_refl.
    + apply (kinv_complete k (older ++ [(k, cur)])); try assumption.
      rewrite map_app. apply incl_appl, incl_refl.
  - rewrite rev_unit.
    assert (Hm : map snd (rev older) = rest) by (rewrite map_rev, Hv, rev_involutive; reflexivity).
    assert (Hc : chain (t :: map snd (rev older))).
    { rewrite Hm. apply (chain_replace_hd _ cur); [apply hd_app, Hq | apply (a_chain _ _ _ Ha)]. }
    assert (Hne : Forall (fun q => q <> []) (map snd (rev older))) by (rewrite Hm; exact Hrest).
    destruct (prepend_spec (rev older) t [k] Hc Hne Ht C) as [[E1 E2] | [B [e [R [ring [E0 [E1 E2]]]]]]].
    + rewrite E1. cbn [bind]. rewrite Hm in E2. rewrite E2 in Eph. inversion Eph; subst K2 D2.
      eexists _, _. split; [reflexivity |]. constructor.
      * rewrite map_app. cbn [map snd rev]. rewrite Hv. reflexivity.
      * reflexivity.
      * rewrite Hkeys. apply incl_refl.
      * destruct Hk as [Kn' Kl Dn Dl Df]. constructor; try assumption.
        -- rewrite Hkeys. exact Kn'.
        -- apply Forall_app. apply Forall_app in Kl. destruct Kl as [Kl1 Kl2]. split; [exact Kl1 |].
           constructor; [| constructor]. inversion Kl2; assumption.
        -- rewrite Hkeys. exact Df.
    + rewrite E1. cbn [bind]. rewrite Hm in E2. rewrite E2 in Eph. inversion Eph; subst K2 D2.
      assert (Eo : older = rev R ++ e :: rev B).
      { rewrite <- (rev_involutive older), E0, rev_app_distr. cbn [rev]. rewrite <- app_assoc. reflexivity. }
      rewrite Eo in Hno, Hko. rewrite map_app in Hno, Hko. cbn [map] in Hno, Hko.
      assert (Hf : fold_left st_del ([k] ++ map fst B ++ [fst e]) (older ++ [(k, t)]) = rev R).
      { rewrite fold_st_del, Eo, <- app_assoc, filter_app.
        rewrite filter_all, filter_none; [apply app_nil_r | |].
        - intros x Hx. apply negb_false_iff, mem_Z_In. cbn [app].
          change (e :: rev B) with ([e] ++ rev B) in Hx. rewrite <- app_assoc in Hx.
          apply in_app_or in Hx. destruct Hx as [[E | []] | Hx].
          + subst x. right. apply in_or_app. right. left. reflexivity.
          + apply in_app_or in Hx. destruct Hx as [Hx | [E | []]].
            * right. apply in_or_app. left. apply in_map. apply in_rev. exact Hx.
            * subst x. left. reflexivity.
        - intros x Hx. apply negb_true_iff. destruct (mem_Z (fst x) ([k] ++ map fst B ++ [fst e])) eqn:M; [| reflexivity].
          exfalso. apply mem_Z_In in M. apply (in_map fst) in Hx.
          destruct M as [E | M].
          + apply Hko. apply in_or_app. left. rewrite E. exact Hx.
          + apply (NoDup_app_disjoint _ _ _ Hno Hx). apply (in_app_or (map fst B) [fst e]) in M. destruct M as [M | [E | []]].
            * right. rewrite map_rev. apply in_rev. rewrite rev_involutive. exact M.
            * left. exact E. }
      rewrite Hf. eexists _, _. split; [reflexivity |]. constructor.
      * rewrite map_rev. reflexivity.
      * rewrite map_app. reflexivity.
      * rewrite Eo, !map_app. apply incl_appl, incl_appl, incl_refl.
      * apply (kinv_complete k (older ++ [(k, cur)])); try assumption.
        -- rewrite Eo, !map_app. apply incl_appl, incl_appl, incl_refl.
        -- apply (NoDup_app_l _ _ Hno).
        -- rewrite Eo, !map_app. apply in_or_app. left. apply in_or_app. right. left. reflexivity.
        -- intro H. apply (NoDup_app_disjoint _ _ _ Hno H). left. reflexivity.
Qed.

Lemma splitStep_eq isMulti n k older cur done vertexIdx v :
  ~ In k (map fst older) -> (vertexIdx =? 0) = false ->
  splitStep isMulti n (mkSplit k (older ++ [(k, cur)]) done) vertexIdx v =
    if negb (isMulti v) && (vertexIdx <? n - 1) then Ok (mkSplit k (older ++ [(k, cur ++ [v])]) done)
    else do sd <- cphase k (older ++ [(k, cur ++ [v])]) done (cur ++ [v]);
         let '(stk2, done2) := sd in
         if vertexIdx <? n - 1
         then Ok (mkSplit (k + 1) (st_set stk2 (k + 1) (st_value stk2 (k + 1) ++ [v])) done2)
         else if (0 <? length stk2)%nat then Err PartialRingsOnStack else Ok (mkSplit k stk2 done2).
Proof.
  intros Hk H0. unfold splitStep. cbn [sIdx sStack sDone]. rewrite H0. cbn [orb].
  unfold st_value. rewrite !st_get_top by exact Hk. rewrite !st_set_top by exact Hk.
  assert (Ht : cur ++ [v] <> []) by (intro E; apply app_eq_nil in E; destruct E; discriminate).
  destruct (isMulti v); cbn [negb andb]; rewrite st_get_top by exact Hk.
  - unfold cphase. rewrite first_last_eq_spec by exact Ht. cbn [bind].
    destruct (closedb (cur ++ [v])); reflexivity.
  - destruct (vertexIdx <? n - 1); [reflexivity |].
    unfold cphase. rewrite first_last_eq_spec by exact Ht. cbn [bind].
    destruct (closedb (cur ++ [v])); reflexivity.
Qed.

(** ** the refinement relation *)
Definition refines (st : splitState) (a : astate) : Prop :=
  kinv (sIdx st) (sStack st) (sDone st) /\
  (exists older cur, sStack st = older ++ [(sIdx st, cur)]) /\
  map snd (sStack st) = rev (fst a) /\ map snd (sDone st) = snd a.

Lemma refines_shape k stk done K D : refines (mkSplit k stk done) (K, D) ->
  exists older cur rest, stk = older ++ [(k, cur)] /\ K = cur :: rest /\ map snd older = rev rest /\
                         ~ In k (map fst older).
Proof.
  intros [Hk [[older [cur E]] [Hv Hd]]]. cbn [sIdx sStack sDone fst snd] in *.
  exists older, cur, (rev (map snd older)). split; [exact E |]. split; [| split].
  - rewrite E, map_app in Hv. cbn [map snd] in Hv.
    rewrite <- (rev_involutive K), <- Hv, rev_unit. reflexivity.
  - rewrite rev_involutive. reflexivity.
  - pose proof (k_nodup _ _ _ Hk) as Kn. rewrite E, map_app in Kn. cbn [map fst] in Kn.
    apply (NoDup_snoc_inv _ _ Kn).
Qed.

Lemma kinv_same_keys k stk stk' done : map fst stk' = map fst stk -> kinv k stk done -> kinv k stk' done.
Proof.
  intros E [Kn Kl Dn Dl Df]. constructor; try assumption.
  - rewrite E. exact Kn.
  - apply (Forall_incl_fst (fun z => z <= k) stk stk'); [rewrite E; apply incl_refl | exact Kl].
  - rewrite E. exact Df.
Qed.

Lemma kinv_push k stk done (p : list pt) : kinv k stk done -> kinv (k + 1) (stk ++ [(k + 1, p)]) done.
Proof.
  intros [Kn Kl Dn Dl Df].
  assert (Hf : ~ In (k + 1) (map fst stk)).
  { intro H. apply in_map_iff in H. destruct H as [e [E He]]. rewrite Forall_forall in Kl. apply Kl in He. lia. }
  constructor.
  - rewrite map_app. cbn [map fst]. apply NoDup_snoc; assumption.
  - apply Forall_app. split; [| constructor; [cbn [fst]; lia | constructor]].
    eapply Forall_impl; [| exact Kl]. cbn beta. intros; lia.
  - exact Dn.
  - eapply Forall_impl; [| exact Dl]. cbn beta. intros; lia.
  - intros key H H2. rewrite map_app in H2. apply in_app_or in H2. destruct H2 as [H2 | [H2 | []]].
    + apply (Df key H H2).
    + cbn [fst] in H2. apply in_map_iff in H. destruct H as [e [E He]]. rewrite Forall_forall in Dl. apply Dl in He. lia.
Qed.

Lemma fresh_key k stk done : kinv k stk done -> ~ In (k + 1) (map fst stk).
Proof.
  intros [Kn Kl Dn Dl Df] H. apply in_map_iff in H. destruct H as [e [E He]].
  rewrite Forall_forall in Kl. apply Kl in He. lia.
Qed.

Lemma step_refines_nonlast isMulti n r0 vprev st a a' vertexIdx v :
  refines st a -> ainv r0 vprev (fst a) -> 1 <= vertexIdx < n - 1 ->
  astep isMulti false v a = Some a' ->
  exists st', splitStep isMulti n st vertexIdx v = Ok st' /\ refines st' a'.
Proof.
  intros HR Ha Hi E. destruct st as [k stk done]. destruct a as [K D].
  destruct (refines_shape _ _ _ _ _ HR) as [older [cur [rest [Es [EK [Hv Hko]]]]]]. subst stk K.
  destruct HR as [Hk [_ [_ Hd]]]. cbn [sIdx sStack sDone fst snd] in *.
  rewrite splitStep_eq by (try assumption; apply Z.eqb_neq; lia).
  replace (vertexIdx <? n - 1) with true by (symmetry; apply Z.ltb_lt; lia).
  cbn [astep] in E. cbn [negb] in E. rewrite andb_true_r in *.
  destruct (negb (isMulti v)).
  - inversion E; subst a'. eexists. split; [reflexivity |]. unfold refines. cbn [sIdx sStack sDone fst snd].
    split; [| split; [| split]].
    + apply (kinv_same_keys k (older ++ [(k, cur)])); [rewrite !map_app; reflexivity | exact Hk].
    + eexists _, _. reflexivity.
    + rewrite map_app. cbn [map snd rev]. rewrite Hv. reflexivity.
    + exact Hd.
  - destruct (aphase cur rest D v) as [K2 D2] eqn:Eph. inversion E; subst a'.
    rewrite <- Hd in Eph.
    destruct (cphase_refines k older cur v done r0 vprev rest K2 D2 Hk Hv Ha Eph) as [stk2 [done2 [Ec [Pv Pd Ps Pk]]]].
    rewrite Ec. cbn [bind].
    pose proof (fresh_key _ _ _ Pk) as Hf.
    unfold st_value. rewrite st_get_fresh by exact Hf. rewrite st_set_fresh by exact Hf. cbn [app].
    eexists. split; [reflexivity |]. unfold refines. cbn [sIdx sStack sDone fst snd].
    split; [| split; [| split]].
    + apply kinv_push, Pk.
    + eexists _, _. reflexivity.
    + rewrite map_app. cbn [map snd rev]. rewrite Pv. reflexivity.
    + exact Pd.
Qed.

Lemma step_refines_last isMulti n r0 vprev st a D' vertexIdx v :
  refines st a -> ainv r0 vprev (fst a) -> 1 <= vertexIdx -> vertexIdx = n - 1 ->
  astep isMulti true v a = Some ([], D') ->
  exists st', splitStep isMulti n st vertexIdx v = Ok st' /\ map snd (sDone st') = D' /\
              NoDup (map fst (sDone st')).
Proof.
  intros HR Ha Hi Hn E. destruct st as [k stk done]. destruct a as [K D].
  destruct (refines_shape _ _ _ _ _ HR) as [older [cur [rest [Es [EK [Hv Hko]]]]]]. subst stk K.
  destruct HR as [Hk [_ [_ Hd]]]. cbn [sIdx sStack sDone fst snd] in *.
  rewrite splitStep_eq by (try assumption; apply Z.eqb_neq; lia).
  replace (vertexIdx <? n - 1) with false by (symmetry; apply Z.ltb_ge; lia).
  cbn [astep] in E. cbn [negb] in E. rewrite andb_false_r in *.
  destruct (aphase cur rest D v) as [K2 D2] eqn:Eph.
  destruct K2 as [| q2 K2]; [| discriminate]. inversion E; subst D'.
  rewrite <- Hd in Eph.
  destruct (cphase_refines k older cur v done r0 vprev rest [] D2 Hk Hv Ha Eph) as [stk2 [done2 [Ec [Pv Pd Ps Pk]]]].
  rewrite Ec. cbn [bind]. cbn [rev] in Pv. apply map_eq_nil in Pv. subst stk2. cbn [length Nat.ltb Nat.leb].
  eexists. split; [reflexivity |]. cbn [sDone]. split; [exact Pd | apply (d_nodup _ _ _ Pk)].
Qed.

(** ** the loop *)
Lemma loop_refines isMulti n r0 : forall l pref st a i,
  refines st a -> sinv r0 pref a -> pref <> [] -> 1 <= i -> i + zlen (l ++ [r0]) = n ->
  exists st' D', splitLoop isMulti n st i (l ++ [r0]) = Ok st' /\
                 aloop isMulti (l ++ [r0]) a = Some ([], D') /\
                 map snd (sDone st') = D' /\ NoDup (map fst (sDone st')).
Proof.
  induction l as [| v l IH]; intros pref st a i HR Hs Hp Hi Hn.
  - cbn [app] in *. unfold zlen in Hn. cbn [length] in Hn. cbn [splitLoop aloop isnil].
    destruct (astep_last isMulti r0 pref a Hs Hp) as [D' [E _]].
    destruct (step_refines_last isMulti n r0 _ st a D' i r0 HR (s_a _ _ _ Hs) Hi ltac:(lia) E) as [st' [E1 [E2 E3]]].
    rewrite E1, E. cbn [bind]. exists st', D'. auto.
  - cbn [app] in *. unfold zlen in Hn. cbn [length] in Hn. rewrite app_length in Hn. cbn [length] in Hn.
    cbn [splitLoop aloop]. replace (isnil (l ++ [r0])) with false by (destruct l; reflexivity).
    destruct (astep_nonlast isMulti r0 pref v a Hs Hp) as [a' [E Hs']].
    destruct (step_refines_nonlast isMulti n r0 _ st a a' i v HR (s_a _ _ _ Hs) ltac:(lia) E) as [st' [E1 HR']].
    rewrite E1, E. cbn [bind].
    apply (IH (pref ++ [v]) st' a' (i + 1)); try assumption; try lia.
    + intro X. apply app_eq_nil in X. destruct X; discriminate.
    + unfold zlen. rewrite app_length. cbn [length]. lia.
Qed.

(** ** sortComplete is a permutation when keys are distinct *)
Lemma insert_sorted_perm k v l : ~ In k (map fst l) -> Permutation (insert_sorted k v l) ((k, v) :: l).
Proof.
  induction l as [| [k' v'] l IH]; intro H; cbn [insert_sorted]; [apply Permutation_refl |].
  destruct (k <? k'); [apply Permutation_refl |].
  destruct (Z.eqb_spec k k') as [E | N]; [exfalso; apply H; left; cbn; congruence |].
  eapply Permutation_trans; [apply perm_skip, IH | apply perm_swap].
  intro H'. apply H. right. exact H'.
Qed.

Lemma sortComplete_perm_gen c : forall acc, NoDup (map fst c ++ map fst acc) ->
  Permutation (fold_left (fun acc e => insert_sorted (fst e) (snd e) acc) c acc) (c ++ acc).
Proof.
  induction c as [| [k v] c IH]; intros acc ND; cbn [fold_left app]; [apply Permutation_refl |].
  cbn [map fst app] in ND. inversion ND as [| ? ? Hn Hd]; subst.
  assert (Hk : ~ In k (map fst acc)) by (intro H; apply Hn, in_or_app; right; exact H).
  pose proof (insert_sorted_perm k v acc Hk) as P.
  eapply Permutation_trans; [apply IH |].
  - eapply Permutation_NoDup; [| exact ND].
    cbn [fst snd]. apply Permutation_sym. eapply Permutation_trans; [apply Permutation_app_head, (Permutation_map fst), P |].
    cbn [map fst]. apply Permutation_sym, Permutation_middle.
  - cbn [fst snd]. eapply Permutation_trans; [apply Permutation_app_head, P |].
    apply Permutation_sym, Permutation_middle.
Qed.

Lemma sortComplete_perm c : NoDup (map fst c) -> Permutation (map snd (sortComplete c)) (map snd c).
Proof.
  intro ND. unfold sortComplete. apply Permutation_map.
  rewrite <- (app_nil_r c) at 2. apply sortComplete_perm_gen. cbn [map]. rewrite app_nil_r. exact ND.
Qed.

(** ** classification *)
Definition smallb (r : ring) : bool := (length r <? 3)%nat.
Definition isOutb (isOuter : bool) (r : ring) : bool :=
  negb (smallb r) && (if isOuter then windingOrderIsCorrect r false else negb (windingOrderIsCorrect r true)).
Definition isInb (isOuter : bool) (r : ring) : bool :=
  negb (smallb r) && (if isOuter then negb (windingOrderIsCorrect r false) else windingOrderIsCorrect r true).

Lemma classify_fold isOuter rings : forall acc,
  let s := fold_left (classify isOuter) rings acc in
  outers s = outers acc ++ filter (isOutb isOuter) rings /\
  inners s = inners acc ++ filter (isInb isOuter) rings /\
  pointsAndLines s = pointsAndLines acc ++ filter smallb rings.
Proof.
  induction rings as [| r rings IH]; intro acc; cbn [fold_left filter].
  - rewrite !app_nil_r. auto.
  - destruct (IH (classify isOuter acc r)) as [E1 [E2 E3]]. cbn zeta in *. rewrite E1, E2, E3.
    unfold classify, isOutb, isInb, smallb.
    destruct (length r <? 3)%nat; cbn [negb andb outers inners pointsAndLines].
    + rewrite <- app_assoc. auto.
    + destruct isOuter.
      * destruct (windingOrderIsCorrect r false); cbn [negb outers inners pointsAndLines]; rewrite <- ?app_assoc; auto.
      * destruct (windingOrderIsCorrect r true); cbn [negb outers inners pointsAndLines]; rewrite <- ?app_assoc; auto.
Qed.

Lemma three_way_perm isOuter (rings : list ring) :
  Permutation (filter (isOutb isOuter) rings ++ filter (isInb isOuter) rings ++ filter smallb rings) rings.
Proof.
  induction rings as [| r rings IH]; [constructor |]. cbn [filter].
  unfold isOutb at 1, isInb at 1. destruct (smallb r); cbn [negb andb].
  - apply Permutation_sym. rewrite app_assoc. apply Permutation_cons_app. rewrite <- app_assoc.
    apply Permutation_sym, IH.
  - destruct isOuter.
    + destruct (windingOrderIsCorrect r false); cbn [negb].
      * cbn [app]. apply perm_skip, IH.
      * apply Permutation_sym. apply Permutation_cons_app. apply Permutation_sym, IH.
    + destruct (windingOrderIsCorrect r true); cbn [negb].
      * apply Permutation_sym. apply Permutation_cons_app. apply Permutation_sym, IH.
      * cbn [app]. apply perm_skip, IH.
Qed.

(** [splitRing] without the final swap, and the swap *)
Definition classifyAll (isOuter : bool) (rings : list ring) : ringSets :=
  fold_left (classify isOuter) rings (mkSets [] [] []).

Definition swapb (isOuter : bool) (s : ringSets) : bool :=
  (isOuter && (length (outers s) =? 0)%nat && (0 <? length (inners s))%nat) ||
  (negb isOuter && (length (inners s) =? 0)%nat && (0 <? length (outers s))%nat).

Definition swapSets (isOuter : bool) (s : ringSets) : ringSets :=
  if isOuter then mkSets (map (@rev pt) (inners s)) [] (pointsAndLines s)
  else mkSets [] (map (@rev pt) (outers s)) (pointsAndLines s).

Theorem splitRing_spec (r : ring) isOuter isMulti r0 t : r = r0 :: t ->
  exists D rings, aloop isMulti (t ++ [r0]) ([[r0]], []) = Some ([], D) /\ Permutation rings D /\
    splitRing r isOuter isMulti =
      Ok (let s := classifyAll isOuter rings in if swapb isOuter s then swapSets isOuter s else s).
Proof.
  intros ->. unfold splitRing. rewrite idx_0_cons. cbn [bind].
  set (n := zlen ((r0 :: t) ++ [r0])).
  assert (Hn : n = Z.of_nat (length t) + 2).
  { unfold n, zlen. cbn [app length]. rewrite app_length. cbn [length]. lia. }
  cbn [app splitLoop].
  assert (E0 : splitStep isMulti n (mkSplit 0 [(0, [])] []) 0 r0 = Ok (mkSplit 0 [(0, [r0])] [])).
  { unfold splitStep. cbn [sIdx sStack sDone st_get st_set Z.eqb orb app andb].
    replace (0 <? n - 1) with true by (symmetry; apply Z.ltb_lt; lia). reflexivity. }
  rewrite E0. cbn [bind].
  assert (HR : refines (mkSplit 0 [(0, [r0])] []) ([[r0]], [])).
  { unfold refines. cbn [sIdx sStack sDone fst snd map rev app]. split; [| split; [| auto]].
    - constructor; cbn [map fst].
      + constructor; [intros [] | constructor].
      + constructor; [cbn; lia | constructor].
      + constructor.
      + constructor.
      + intros key [].
    - exists [], [r0]. reflexivity. }
  destruct (loop_refines isMulti n r0 t [r0] _ _ 1 HR (sinv_init r0)) as [st' [D' [E1 [E2 [E3 E4]]]]];
    [discriminate | lia | unfold zlen; rewrite app_length; cbn [length]; lia |].
  change (0 + 1) with 1. rewrite E1. cbn [bind].
  exists D', (map snd (sortComplete (sDone st'))). split; [exact E2 |]. split.
  - rewrite <- E3. apply sortComplete_perm, E4.
  - fold (classifyAll isOuter (map snd (sortComplete (sDone st')))).
    set (s := classifyAll isOuter (map snd (sortComplete (sDone st')))). cbn zeta.
    unfold swapb, swapSets. destruct isOuter; cbn [andb negb orb].
    + destruct ((length (outers s) =? 0)%nat && (0 <? length (inners s))%nat); reflexivity.
    + destruct ((length (inners s) =? 0)%nat && (0 <? length (outers s))%nat); reflexivity.
Qed.
