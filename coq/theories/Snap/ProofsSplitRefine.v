(** * splitRing, part 2: [splitStep] on the keyed stack computes [astep] on the values;
      consequences for [splitRing]: totality, conservation of directed edges, repeat-freedom,
      shape, orientation, provenance. *)
From Coq Require Import ZArith List Bool Lia Permutation.
From Texel Require Import Prelude.Base Index.Model Snap.Model Snap.ProofsBasics Snap.ProofsSplit.
Import ListNotations.
Open Scope Z_scope.

(** ** the keyed stack *)
Lemma st_get_fresh s k : ~ In k (map fst s) -> st_get s k = None.
Proof.
  induction s as [| [k' v'] s IH]; intro H; [reflexivity |]. cbn [st_get].
  destruct (Z.eqb_spec k k') as [E | N]; [exfalso; apply H; left; cbn; congruence |].
  apply IH. intro H'. apply H. right. exact H'.
Qed.

Lemma st_set_fresh s k v : ~ In k (map fst s) -> st_set s k v = s ++ [(k, v)].
Proof.
  induction s as [| [k' v'] s IH]; intro H; [reflexivity |]. cbn [st_set app].
  destruct (Z.eqb_spec k k') as [E | N]; [exfalso; apply H; left; cbn; congruence |].
  rewrite IH; [reflexivity |]. intro H'. apply H. right. exact H'.
Qed.

Lemma st_get_top older k cur : ~ In k (map fst older) -> st_get (older ++ [(k, cur)]) k = Some cur.
Proof.
  induction older as [| [k' v'] s IH]; intro H; cbn [st_get app].
  - rewrite Z.eqb_refl. reflexivity.
  - destruct (Z.eqb_spec k k') as [E | N]; [exfalso; apply H; left; cbn; congruence |].
    apply IH. intro H'. apply H. right. exact H'.
Qed.

Lemma st_set_top older k cur v : ~ In k (map fst older) -> st_set (older ++ [(k, cur)]) k v = older ++ [(k, v)].
Proof.
  induction older as [| [k' v'] s IH]; intro H; cbn [st_set app].
  - rewrite Z.eqb_refl. reflexivity.
  - destruct (Z.eqb_spec k k') as [E | N]; [exfalso; apply H; left; cbn; congruence |].
    rewrite IH; [reflexivity |]. intro H'. apply H. right. exact H'.
Qed.

Lemma mem_Z_In z l : mem_Z z l = true <-> In z l.
Proof.
  unfold mem_Z. rewrite existsb_exists. split.
  - intros [x [Hin E]]. apply Z.eqb_eq in E. congruence.
  - intro H. exists z. split; [exact H | apply Z.eqb_refl].
Qed.

Lemma filter_all {A} (f : A -> bool) l : (forall x, In x l -> f x = true) -> filter f l = l.
Proof.
  induction l as [| a l IH]; intro H; [reflexivity |]. cbn [filter].
  rewrite (H a (or_introl eq_refl)). f_equal. apply IH. intros x Hx. apply H. right. exact Hx.
Qed.

Lemma filter_none {A} (f : A -> bool) l : (forall x, In x l -> f x = false) -> filter f l = [].
Proof.
  induction l as [| a l IH]; intro H; [reflexivity |]. cbn [filter].
  rewrite (H a (or_introl eq_refl)). apply IH. intros x Hx. apply H. right. exact Hx.
Qed.

Lemma fold_st_del ks : forall s, fold_left st_del ks s = filter (fun e => negb (mem_Z (fst e) ks)) s.
Proof.
  induction ks as [| k ks IH]; intro s; cbn [fold_left].
  - symmetry. apply filter_all. intros x _. reflexivity.
  - rewrite IH. unfold st_del. induction s as [| e s IHs]; [reflexivity |].
    cbn [filter]. unfold mem_Z at 2. cbn [existsb]. rewrite (Z.eqb_sym (fst e) k).
    destruct (k =? fst e); cbn [negb orb filter]; [exact IHs |].
    fold (mem_Z (fst e) ks). destruct (mem_Z (fst e) ks); cbn [negb]; [exact IHs | f_equal; exact IHs].
Qed.

Lemma NoDup_snoc_inv {A} (l : list A) a : NoDup (l ++ [a]) -> ~ In a l /\ NoDup l.
Proof.
  intro ND. split; [| apply (NoDup_app_l _ _ ND)].
  intro H. apply (NoDup_app_disjoint _ _ a ND H). left. reflexivity.
Qed.

(** ** first_last_eq *)
Lemma idx_last_ne (t : list pt) : t <> [] -> idx t (zlen t - 1) = Ok (last t dp).
Proof.
  intro H. destruct (snoc_cases t) as [-> | [t' [z ->]]]; [congruence |].
  rewrite idx_last_snoc, last_last. reflexivity.
Qed.

Lemma idx_hd_ne (t : list pt) : t <> [] -> idx t 0 = Ok (hd dp t).
Proof. destruct t; [congruence | reflexivity]. Qed.

Lemma first_last_eq_spec (t : list pt) : t <> [] -> first_last_eq t = Ok (closedb t).
Proof.
  intro H. unfold first_last_eq. rewrite idx_hd_ne, idx_last_ne by exact H. reflexivity.
Qed.

Lemma aclose_closed K t : closedb t = true -> aclose K t = Some (removelast t, K).
Proof. intro C. destruct K; cbn [aclose]; rewrite C; reflexivity. Qed.

Lemma aclose_open q K t : closedb t = false -> aclose (q :: K) t = aclose K (q ++ tl t).
Proof. intro C. cbn [aclose]. rewrite C. reflexivity. Qed.

(** ** prependLoop computes aclose *)
Lemma prepend_spec ro : forall t rem, chain (t :: map snd ro) -> Forall (fun q => q <> []) (map snd ro) ->
  t <> [] -> closedb t = false ->
  (prependLoop ro t rem = Ok None /\ aclose (map snd ro) t = None) \/
  (exists B e R ring, ro = B ++ e :: R /\
     prependLoop ro t rem = Ok (Some (fst e, ring, rem ++ map fst B ++ [fst e])) /\
     aclose (map snd ro) t = Some (ring, map snd R)).
Proof.
  induction ro as [| [key partial] rest IH]; intros t rem Hc Hne Ht C.
  - left. cbn [prependLoop map aclose]. rewrite C. auto.
  - cbn [map snd] in *. inversion Hne as [| ? ? Hp Hrest]; subst.
    cbn [chain] in Hc. destruct Hc as [Hl Hc].
    cbn [prependLoop]. rewrite idx_last_ne by exact Hp. rewrite idx_hd_ne by exact Ht. cbn [bind].
    rewrite Hl, pt_eqb_refl.
    assert (Ht' : partial ++ tl t <> []) by (intro E; apply app_eq_nil in E; destruct E; congruence).
    rewrite first_last_eq_spec by exact Ht'. cbn [bind].
    rewrite aclose_open by exact C.
    destruct (closedb (partial ++ tl t)) eqn:C'.
    + right. exists [], (key, partial), rest, (removelast (partial ++ tl t)).
      split; [reflexivity |]. split; [reflexivity |]. apply aclose_closed, C'.
    + assert (Hc' : chain ((partial ++ tl t) :: map snd rest)).
      { apply (chain_replace_hd _ partial); [apply hd_app, Hp | exact Hc]. }
      destruct (IH (partial ++ tl t) (rem ++ [key]) Hc' Hrest Ht' C') as [[E1 E2] | [B [e [R [ring [E0 [E1 E2]]]]]]].
      * left. auto.
      * right. exists ((key, partial) :: B), e, R, ring. split; [cbn [app]; congruence |].
        split; [| exact E2]. rewrite E1. cbn [map fst app]. rewrite <- !app_assoc. reflexivity.
Qed.

(** ** key bookkeeping *)
Record kinv (k : Z) (stk : stack) (done : complete) : Prop := mkKinv {
  k_nodup : NoDup (map fst stk);
  k_le : Forall (fun e => fst e <= k) stk;
  d_nodup : NoDup (map fst done);
  d_le : Forall (fun e => fst e <= k) done;
  d_fresh : forall key, In key (map fst done) -> ~ In key (map fst stk) }.

(** the state after the closing phase *)
Record phase_ok (k : Z) (stk stk2 : stack) (done2 : complete) (K2 : list (list pt)) (D2 : list ring) : Prop := mkPhaseOk {
  p_vals : map snd stk2 = rev K2;
  p_done : map snd done2 = D2;
  p_sub : incl (map fst stk2) (map fst stk);
  p_kinv : kinv k stk2 done2 }.

Lemma Forall_incl_fst (P : Z -> Prop) (s s' : stack) :
  incl (map fst s') (map fst s) -> Forall (fun e => P (fst e)) s -> Forall (fun e => P (fst e)) s'.
Proof.
  intros Hi Hf. rewrite Forall_forall in *. intros e He.
  assert (Hin : In (fst e) (map fst s)) by (apply Hi, in_map, He).
  apply in_map_iff in Hin. destruct Hin as [e' [E Hin]]. rewrite <- E. apply Hf, Hin.
Qed.
