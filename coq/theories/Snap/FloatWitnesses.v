(** * Concrete float64 inputs on which a float predicate of geomhelp.go was observed to deviate from its exact
      reading on the REAL code; replayed bit for bit with the binary64 instance of Snap/GoFloatOps.v.  Definitions only.
      ([b64pt mx ex my ey] = the point (mx * 2^ex, my * 2^ey); every value below is an exact float64.) *)
From Coq Require Import ZArith QArith List.
From Coq Require Import Floats.SpecFloat.
From Texel Require Import Prelude.Base Snap.GoFloatOps.
Import ListNotations.
Open Scope Z_scope.

(** ** finding F23 (corpus/C04/F23_shoelace_repro_test.go.txt): WebMercatorQuad, tile matrix 20, near (1.8e7, 1.6e7).
    The two shells SnapPolygon produces for the witness polygon, as snapped:
    the big shell, a square of 30 x 30 pixels = 0.0783556 m2 ... *)
Definition f23_big : list (spec_float * spec_float) :=
  [b64pt 2445337666813755 (-27) 1097454183678943 (-26);
   b64pt 4890675408768167 (-28) 1097454183678943 (-26);
   b64pt 4890675408768167 (-28) 1097454202464107 (-26);
   b64pt 2445337666813755 (-27) 1097454202464107 (-26)].

(** ... and the island, a square of 16 x 16 pixels = 0.0222878 m2 (five vertices: one lies on an edge) *)
Definition f23_island : list (spec_float * spec_float) :=
  [b64pt 4890675371197839 (-28) 548727099040451 (-25);
   b64pt 2445337675580165 (-27) 548727099040451 (-25);
   b64pt 2445337675580165 (-27) 274363547015537 (-24);
   b64pt 4890675391235347 (-28) 274363547015537 (-24);
   b64pt 4890675391235347 (-28) 548727099040451 (-25)].

(** ** the nudge of RayIntersect: coordinates near 2^17 (one unit in the last place: 2^-35), pixels of 2^-8.
    The segment from (2^17, 0) down to (2^17 + 2^-8, -2^21) - one pixel wide, 2^29 pixels tall - and the point one
    pixel below its upper end.  In units of 2^-8 (D = 256) these are the lattice points below. *)
Definition nudge_pt : spec_float * spec_float := b64pt 1 17 (-1) (-8).
Definition nudge_start : spec_float * spec_float := b64pt 1 17 0 0.
Definition nudge_end : spec_float * spec_float := b64pt 33554433 (-8) (-1) 21.
(** the same shape 2^18 tall: the nudge is still small enough *)
Definition nudge_end_ok : spec_float * spec_float := b64pt 33554433 (-8) (-1) 18.

Definition nudge_D : positive := 256.
Definition nudge_pt_Z : pt := (33554432, -1).
Definition nudge_start_Z : pt := (33554432, 0).
Definition nudge_end_Z : pt := (33554433, -536870912).
Definition nudge_end_ok_Z : pt := (33554433, -67108864).
(** one unit in the last place of 2^17 *)
Definition nudge_ulp : Q := 1 # 34359738368.
