(** * Source tie of the float predicates: the REGENERATED geomhelp.Shoelace, geomhelp.RayIntersect and
      snap.windingOrderIsCorrect (gen/GeomHelpGen.v, translator/geomhelp.go) against the exact integer versions
      the model of snap.go uses (Snap/Model.v: [absArea2] / [xprod], [rayIntersect], [windingOrderIsCorrect]).

    All statements are about the EXACT reading of float64 as Q (Snap/GoGeomHelp.v) on lattice points: integer
    ordinates o, read as the rational o / D ([injPd D]; D = 1: [injP]).  The rounding of the real floating-point
    evaluation is outside them (the float envelope of DESIGN 4.2 is unchanged: dyadic grids exact, real grids held
    by the correspondence); the binary64 reading of the same regenerated code is in ProofsGenGeomHelpFloat.v.

    The proofs of the Shoelace tie go through for BOTH bodies of geomhelp.Shoelace: the one that multiplies the raw
    ordinates and the one (repair of finding F23) that first subtracts the first point of the ring. *)
From Coq Require Import ZArith QArith Qabs Lia Lqa List Bool.
From Texel Require Import Prelude.Base Tms.Json Snap.Model Snap.ProofsBasics Snap.GoGeomHelp.
From Texel.Gen Require Import GeomHelpGen.
Import ListNotations.
Open Scope Z_scope.

(** ** booleans of Q against booleans of Z *)
Lemma bool_eq_iff : forall b1 b2 : bool, (b1 = true <-> b2 = true) -> b1 = b2.
Proof. intros [|] [|] H; auto; destruct H as [H1 H2]; try (symmetry; auto; fail); auto. Qed.

Lemma gh_Qltb_true : forall a b, Qltb a b = true <-> (a < b)%Q.
Proof. intros a b. unfold Qltb. rewrite Qlt_alt. destruct (a ?= b)%Q; split; intro H; try discriminate; auto. Qed.

Lemma gh_Qltb_false : forall a b, Qltb a b = false <-> (b <= a)%Q.
Proof.
  intros a b. split; intro H.
  - apply Qnot_lt_le. intro L. apply gh_Qltb_true in L. congruence.
  - destruct (Qltb a b) eqn:E; auto. apply gh_Qltb_true in E. exfalso. eapply Qlt_not_le; eauto.
Qed.

(** lattice points o / D *)
Lemma Qmake_lt : forall (D : positive) (a b : Z), (a # D < b # D)%Q <-> a < b.
Proof. intros D a b. unfold Qlt; cbn [Qnum Qden]. pose proof (Pos2Z.is_pos D). split; intro; nia. Qed.

Lemma Qmake_le : forall (D : positive) (a b : Z), (a # D <= b # D)%Q <-> a <= b.
Proof. intros D a b. unfold Qle; cbn [Qnum Qden]. pose proof (Pos2Z.is_pos D). split; intro; nia. Qed.

Lemma Qmake_eq : forall (D : positive) (a b : Z), (a # D == b # D)%Q <-> a = b.
Proof. intros D a b. unfold Qeq; cbn [Qnum Qden]. pose proof (Pos2Z.is_pos D). split; intro; nia. Qed.

Lemma Qltb_injd : forall (D : positive) (a b : Z), Qltb (a # D) (b # D) = (a <? b).
Proof. intros D a b. apply bool_eq_iff. rewrite gh_Qltb_true, Qmake_lt, Z.ltb_lt. tauto. Qed.

Lemma Qleb_injd : forall (D : positive) (a b : Z), Qle_bool (a # D) (b # D) = (a <=? b).
Proof. intros D a b. apply bool_eq_iff. rewrite Qle_bool_iff, Qmake_le, Z.leb_le. tauto. Qed.

Lemma Qeqb_injd : forall (D : positive) (a b : Z), Qeq_bool (a # D) (b # D) = (a =? b).
Proof. intros D a b. apply bool_eq_iff. rewrite Qeq_bool_iff, Qmake_eq, Z.eqb_eq. tauto. Qed.

Lemma Qmake_sub : forall (D : positive) (a b : Z), ((a # D) - (b # D) == (a - b) # D)%Q.
Proof. intros D a b. unfold Qeq, Qminus, Qplus, Qopp; cbn [Qnum Qden]. rewrite Pos2Z.inj_mul. ring. Qed.

(** ** the cross-product sum over lattice points *)
Lemma qxprod_from_injd : forall (D : positive) (l : list pt) (prev : pt),
  (qxprod_from (injPd D prev) (map (injPd D) l) == xprod_from prev l # (D * D))%Q.
Proof.
  intros D. induction l as [|p l IH]; intros prev; cbn [map qxprod_from xprod_from].
  - reflexivity.
  - rewrite IH. unfold injPd; cbn [fst snd].
    unfold Qeq, Qminus, Qplus, Qmult, Qopp; cbn [Qnum Qden]. rewrite !Pos2Z.inj_mul. ring.
Qed.

Lemma last_opt_map : forall {A B} (f : A -> B) (l : list A), last_opt (map f l) = option_map f (last_opt l).
Proof.
  intros A B f l. unfold last_opt. rewrite <- map_rev. destruct (rev l); reflexivity.
Qed.

Lemma qxprod_injd : forall (D : positive) (r : ring), (qxprod (map (injPd D) r) == xprod r # (D * D))%Q.
Proof.
  intros D r. unfold qxprod, xprod. rewrite last_opt_map. destruct (last_opt r) as [l|]; cbn [option_map].
  - apply qxprod_from_injd.
  - reflexivity.
Qed.

(** ** Shoelace: the sum of the loop, for both bodies *)

(** one term of the sum relative to an origin [o] (the raw body: [o] = (0, 0)) *)
Definition shift_term (o p0 p1 : qpt) : Q :=
  ((snd p0 - snd o) * (fst p1 - fst o) - (fst p0 - fst o) * (snd p1 - snd o))%Q.

Fixpoint shift_sum (o prev : qpt) (l : list qpt) : Q :=
  match l with
  | [] => 0%Q
  | p :: r => (shift_term o prev p + shift_sum o p r)%Q
  end.

(** any loop body that adds [shift_term o] and remembers the point computes [shift_sum o] *)
Lemma fold_shift : forall (f : Q * qpt -> qpt -> Q * qpt) (o : qpt),
  (forall s p0 p1, snd (f (s, p0) p1) = p1 /\ (fst (f (s, p0) p1) == s + shift_term o p0 p1)%Q) ->
  forall (l : list qpt) (s : Q) (p0 : qpt), (fst (fold_left f l (s, p0)) == s + shift_sum o p0 l)%Q.
Proof.
  intros f o Hf. induction l as [|p l IH]; intros s p0; cbn [fold_left shift_sum].
  - cbn [fst]. ring.
  - destruct (Hf s p0 p) as [E1 E2]. destruct (f (s, p0) p) as [s' p'] eqn:E. cbn [fst snd] in E1, E2. subst p'.
    rewrite IH, E2. ring.
Qed.

Lemma last_cons_d : forall {A} (l : list A) (p d : A), last (p :: l) d = last l p.
Proof.
  intros A. induction l as [|a l IH]; intros p d; [reflexivity|].
  change (last (p :: a :: l) d) with (last (a :: l) d). rewrite (IH a d), (IH a p). reflexivity.
Qed.

(** translation invariance: relative to any origin the sum is the raw cross-product sum (negated: Go's term is
    y0 * x1 - x0 * y1) up to a boundary term that vanishes on a closed ring *)
Lemma shift_sum_spec : forall (o : qpt) (l : list qpt) (prev : qpt),
  (shift_sum o prev l ==
   - qxprod_from prev l + fst o * (snd (last l prev) - snd prev) - snd o * (fst (last l prev) - fst prev))%Q.
Proof.
  intros o. induction l as [|p l IH]; intros prev; cbn [shift_sum qxprod_from].
  - cbn [last]. ring.
  - rewrite last_cons_d, IH. unfold shift_term. ring.
Qed.

Lemma last_opt_last : forall {A} (l : list A) (a d : A), last_opt l = Some a -> last l d = a.
Proof.
  intros A l a d H. destruct (exists_last (l := l)) as [l' [b E]].
  - intro N. subst l. discriminate.
  - subst l. rewrite last_opt_snoc in H. inversion H; subst. apply last_last.
Qed.

Lemma shift_sum_closed : forall (o : qpt) (l : list qpt) (lst : qpt),
  last_opt l = Some lst -> (shift_sum o lst l == - qxprod l)%Q.
Proof.
  intros o l lst H. rewrite shift_sum_spec, (last_opt_last l lst lst H). unfold qxprod. rewrite H. ring.
Qed.

Lemma idx_last_of : forall {A} (l : list A) (a : A), last_opt l = Some a -> idx l (zlen l - 1) = Ok a.
Proof.
  intros A l a H. destruct (exists_last (l := l)) as [l' [b E]].
  - intro N. subst l. discriminate.
  - subst l. rewrite last_opt_snoc in H. inversion H; subst. apply idx_last_snoc.
Qed.

Lemma idx_0_cons : forall {A} (x : A) (l : list A), idx (x :: l) 0 = Ok x.
Proof. reflexivity. Qed.

Lemma idx_0_of : forall {A} (l : list A) (x : A) (l' : list A), l = x :: l' -> idx l 0 = Ok x.
Proof. intros A l x l' ->. reflexivity. Qed.

Lemma zlen_eqb0 : forall {A} (l : list A), (zlen l =? 0) = match l with [] => true | _ => false end.
Proof.
  intros A [|a l]; [reflexivity|]. unfold zlen. cbn [length]. apply Z.eqb_neq. lia.
Qed.

(** the regenerated loop body adds [shift_term o]: [o] = the first point (repaired body) or (0, 0) (raw body) *)
Ltac shoelace_body_spec :=
  intros s p0 p1; unfold gen_Shoelace_range1, shift_term; cbn [fst snd]; split; [reflexivity | ring].

(** the regenerated Shoelace on ANY closed list of rational points: half the absolute cross-product sum *)
Lemma gen_Shoelace_qxprod : forall (l : list qpt), l <> [] ->
  exists a : Q, gen_Shoelace l = Ok a /\ (a == Qabs (qxprod l) / 2)%Q.
Proof.
  intros l Hne. unfold gen_Shoelace. rewrite zlen_eqb0.
  destruct l as [|x l'] eqn:El; [contradiction|]. rewrite <- El.
  destruct (last_opt l) as [lst|] eqn:Hl; [|apply last_opt_None in Hl; rewrite Hl in El; discriminate].
  rewrite (idx_last_of l lst Hl).
  try rewrite (idx_0_of l x l' El).
  cbn [bind]. cbv zeta.
  match goal with
  | |- context [fold_left ?f l (?s0, lst)] =>
      assert (Hf : (fst (fold_left f l (s0, lst)) == s0 + - qxprod l)%Q);
      [ first [ rewrite (fold_shift f x ltac:(shoelace_body_spec))
              | rewrite (fold_shift f (0%Q, 0%Q) ltac:(shoelace_body_spec)) ];
        rewrite (shift_sum_closed _ l lst Hl); reflexivity
      | destruct (fold_left f l (s0, lst)) as [sm p0] ]
  end.
  cbn [fst] in Hf.
  eexists; split; [reflexivity|].
  rewrite Hf.
  assert (E1 : ((0 # 1) + - qxprod l == - qxprod l)%Q) by ring.
  rewrite E1. unfold Qdiv. rewrite Qabs_Qmult, Qabs_opp. reflexivity.
Qed.

(** the regenerated Shoelace on a ring of lattice points o / D: the model's [absArea2] (|twice the signed area|,
    in lattice units) over 2 * D * D; it never fails (the slice indices are in range) *)
Theorem gen_Shoelace_spec_d : forall (D : positive) (r : ring),
  exists a : Q, gen_Shoelace (map (injPd D) r) = Ok a /\ (a == absArea2 r # (2 * D * D))%Q.
Proof.
  intros D r. destruct r as [|p r'] eqn:Er.
  - eexists; split; [reflexivity|]. reflexivity.
  - rewrite <- Er.
    destruct (gen_Shoelace_qxprod (map (injPd D) r)) as [a [Ha Qa]]; [subst; discriminate|].
    exists a; split; [exact Ha|]. rewrite Qa, (Qabs_wd _ _ (qxprod_injd D r)).
    unfold absArea2, Qeq, Qdiv, Qmult, Qinv, Qabs; cbn [Qnum Qden]. rewrite !Pos2Z.inj_mul. ring.
Qed.

(** D = 1: half the model's doubled area *)
Theorem gen_Shoelace_spec : forall r : ring,
  exists a : Q, gen_Shoelace (map injP r) = Ok a /\ (a == inject_Z (absArea2 r) / 2)%Q.
Proof.
  intros r. destruct (gen_Shoelace_spec_d 1 r) as [a [Ha Qa]]. exists a; split; [exact Ha|].
  rewrite Qa. change (2 * 1 * 1)%positive with 2%positive. unfold Qdiv. change (/ 2)%Q with (1 # 2)%Q.
  unfold Qeq, Qmult, inject_Z; cbn [Qnum Qden]. change (Z.pos (1 * 2)) with 2. ring.
Qed.

(** what the callers use Shoelace for is the ORDER of two areas: it is the order of the model's doubled areas *)
Theorem gen_Shoelace_order : forall (D : positive) (r1 r2 : ring) (a1 a2 : Q),
  gen_Shoelace (map (injPd D) r1) = Ok a1 -> gen_Shoelace (map (injPd D) r2) = Ok a2 ->
  Qltb a1 a2 = (absArea2 r1 <? absArea2 r2) /\ Qeq_bool a1 a2 = (absArea2 r1 =? absArea2 r2).
Proof.
  intros D r1 r2 a1 a2 H1 H2.
  destruct (gen_Shoelace_spec_d D r1) as [b1 [E1 Q1]]. destruct (gen_Shoelace_spec_d D r2) as [b2 [E2 Q2]].
  rewrite H1 in E1. rewrite H2 in E2. inversion E1; inversion E2; subst b1 b2. clear E1 E2.
  split; apply bool_eq_iff.
  - rewrite gh_Qltb_true, Z.ltb_lt, Q1, Q2, Qmake_lt. tauto.
  - rewrite Qeq_bool_iff, Z.eqb_eq, Q1, Q2, Qmake_eq. tauto.
Qed.

(** ** windingOrderIsCorrect *)
Lemma Qcompare_make0 : forall (z : Z) (D : positive), (z # D ?= 0)%Q = (z ?= 0).
Proof. intros z D. unfold Qcompare; cbn [Qnum Qden]. rewrite Z.mul_1_r. reflexivity. Qed.

Lemma winding_OfPoints_injd : forall (D : positive) (r : ring),
  winding_OfPoints (map (injPd D) r) =
  match orient r with Z0 => Colinear | Zpos _ => CounterClockwise | Zneg _ => Clockwise end.
Proof.
  intros D r. unfold winding_OfPoints, orient. rewrite map_length.
  destruct (length r <? 3)%nat; [reflexivity|].
  rewrite (Qcompare_comp _ _ (qxprod_injd D r) 0%Q 0%Q (Qeq_refl 0)), Qcompare_make0.
  destruct (xprod r); reflexivity.
Qed.

(** the regenerated windingOrderIsCorrect (with the micro-model of winding.Order{}.OfPoints) is the model's *)
Theorem gen_windingOrderIsCorrect_spec_d : forall (D : positive) (r : ring) (shouldBeClockwise : bool),
  gen_windingOrderIsCorrect (map (injPd D) r) shouldBeClockwise = Ok (windingOrderIsCorrect r shouldBeClockwise).
Proof.
  intros D r b. unfold gen_windingOrderIsCorrect, windingOrderIsCorrect. rewrite winding_OfPoints_injd.
  assert (Ho : orient r = -1 \/ orient r = 0 \/ orient r = 1).
  { unfold orient. destruct (length r <? 3)%nat; [auto|]. destruct (xprod r); cbn; auto. }
  destruct Ho as [E|[E|E]]; rewrite E; destruct b; reflexivity.
Qed.

Theorem gen_windingOrderIsCorrect_spec : forall (r : ring) (shouldBeClockwise : bool),
  gen_windingOrderIsCorrect (map injP r) shouldBeClockwise = Ok (windingOrderIsCorrect r shouldBeClockwise).
Proof. exact (gen_windingOrderIsCorrect_spec_d 1). Qed.

(** ** RayIntersect *)

(** comparisons with a nudged ordinate *)
Lemma nudge_l_false : forall (D : positive) (eps : Q) (a b : Z), (0 < eps)%Q -> b <= a ->
  Qltb ((a # D) + eps) (b # D) = false.
Proof. intros D eps a b H0 H. apply gh_Qltb_false. apply (Qmake_le D) in H. lra. Qed.

Lemma nudge_r_true : forall (D : positive) (eps : Q) (a b : Z), (0 < eps)%Q -> b <= a ->
  Qltb (b # D) ((a # D) + eps) = true.
Proof. intros D eps a b H0 H. apply gh_Qltb_true. apply (Qmake_le D) in H. lra. Qed.

Lemma nudge_r_false : forall (D : positive) (eps : Q) (a b : Z), (eps <= (b - a) # D)%Q ->
  Qltb (b # D) ((a # D) + eps) = false.
Proof. intros D eps a b H. apply gh_Qltb_false. rewrite <- Qmake_sub in H. lra. Qed.

Lemma fdiv_ok : forall a b : Q, ~ (b == 0)%Q -> fdiv a b = Ok (a / b)%Q.
Proof.
  intros a b H. unfold fdiv. destruct (Qeq_bool b 0) eqn:E; [|reflexivity].
  apply Qeq_bool_iff in E. contradiction.
Qed.

Lemma injd_sub_pos : forall (D : positive) (p s : Z), s < p -> (0 < (p # D) - (s # D))%Q.
Proof. intros D p s H. apply (Qmake_lt D) in H. lra. Qed.

Lemma fdiv_plain : forall (D : positive) (a : Q) (p s : Z), s < p ->
  fdiv a ((p # D) - (s # D)) = Ok (a / ((p # D) - (s # D)))%Q.
Proof. intros D a p s H. apply fdiv_ok. pose proof (injd_sub_pos D p s H) as P. intro E. lra. Qed.

Lemma fdiv_nudged : forall (D : positive) (a eps : Q) (p s : Z), p = s -> (0 < eps)%Q ->
  fdiv a ((p # D) + eps - (s # D)) = Ok (a / ((p # D) + eps - (s # D)))%Q.
Proof. intros D a eps p s -> H. apply fdiv_ok. intro E. lra. Qed.

(** a / b ? c / d  against  a * d ? c * b  for positive b, d *)
Lemma Qdiv_cross_le : forall a b c d : Q, (0 < b)%Q -> (0 < d)%Q -> ((a / b <= c / d)%Q <-> (a * d <= c * b)%Q).
Proof.
  intros a b c d Hb Hd.
  assert (Ea : (a == (a / b) * b)%Q) by (field; lra).
  assert (Ec : (c == (c / d) * d)%Q) by (field; lra).
  set (x := (a / b)%Q) in *. set (y := (c / d)%Q) in *.
  assert (Hbd : (0 < b * d)%Q) by nra.
  rewrite Ea, Ec. split; intro H; nra.
Qed.

Lemma Qdiv_cross_eq : forall a b c d : Q, (0 < b)%Q -> (0 < d)%Q -> ((a / b == c / d)%Q <-> (a * d == c * b)%Q).
Proof.
  intros a b c d Hb Hd. split; intro H.
  - apply Qle_antisym; apply Qdiv_cross_le; auto; rewrite H; apply Qle_refl.
  - apply Qle_antisym; apply Qdiv_cross_le; auto; rewrite H; apply Qle_refl.
Qed.

(** the slope comparison of a point that was NOT nudged (sx < px, sx < ex): the model's cross products *)
Lemma slope_eq_plain : forall (D : positive) (py sy px sx ey ex : Z), sx < px -> sx < ex ->
  Qeq_bool (((py # D) - (sy # D)) / ((px # D) - (sx # D))) (((ey # D) - (sy # D)) / ((ex # D) - (sx # D)))
  = ((py - sy) * (ex - sx) =? (ey - sy) * (px - sx)).
Proof.
  intros D py sy px sx ey ex H1 H2. apply bool_eq_iff. rewrite Qeq_bool_iff, Z.eqb_eq.
  rewrite Qdiv_cross_eq by (apply injd_sub_pos; assumption).
  rewrite !Qmake_sub. unfold Qmult; cbn [Qnum Qden]. rewrite Qmake_eq. tauto.
Qed.

Lemma slope_le_plain : forall (D : positive) (py sy px sx ey ex : Z), sx < px -> sx < ex ->
  Qle_bool (((py # D) - (sy # D)) / ((px # D) - (sx # D))) (((ey # D) - (sy # D)) / ((ex # D) - (sx # D)))
  = ((py - sy) * (ex - sx) <=? (ey - sy) * (px - sx)).
Proof.
  intros D py sy px sx ey ex H1 H2. apply bool_eq_iff. rewrite Qle_bool_iff, Z.leb_le.
  rewrite Qdiv_cross_le by (apply injd_sub_pos; assumption).
  rewrite !Qmake_sub. unfold Qmult; cbn [Qnum Qden]. rewrite Qmake_le. tauto.
Qed.

(** the slope comparison of a NUDGED point (px = sx < ex, py <> sy): cross-multiplied it compares
    (py - sy) * (ex - sx) with (ey - sy) * eps; when the second is smaller in absolute value the answer is the
    sign of py - sy, as for the model's infinitesimal shift *)
Lemma slope_nudged : forall (D : positive) (eps : Q) (py sy px sx ey ex : Z),
  px = sx -> sx < ex -> py <> sy -> (0 < eps)%Q ->
  (eps * (Z.abs (ey - sy) # D) < (Z.abs (py - sy) * (ex - sx)) # (D * D))%Q ->
  Qeq_bool (((py # D) - (sy # D)) / ((px # D) + eps - (sx # D))) (((ey # D) - (sy # D)) / ((ex # D) - (sx # D))) = false /\
  Qle_bool (((py # D) - (sy # D)) / ((px # D) + eps - (sx # D))) (((ey # D) - (sy # D)) / ((ex # D) - (sx # D))) = (py <? sy).
Proof.
  intros D eps py sy px sx ey ex -> Hx Hy H0 Hb.
  assert (Hd1 : (0 < (sx # D) + eps - (sx # D))%Q) by lra.
  assert (Hd2 : (0 < (ex # D) - (sx # D))%Q) by (apply injd_sub_pos; assumption).
  (* the bound, in terms of the differences *)
  assert (Hb' : (eps * Qabs ((ey # D) - (sy # D)) < Qabs ((py # D) - (sy # D)) * ((ex # D) - (sx # D)))%Q).
  { rewrite !Qmake_sub. exact Hb. }
  clear Hb.
  set (dE := ((ey # D) - (sy # D))%Q) in *. set (dP := ((py # D) - (sy # D))%Q) in *.
  set (dX := ((ex # D) - (sx # D))%Q) in *.
  assert (HA1 : (dE <= Qabs dE)%Q) by apply Qle_Qabs.
  assert (HA2 : (- dE <= Qabs dE)%Q) by (rewrite <- Qabs_opp; apply Qle_Qabs).
  assert (HE : ((sx # D) + eps - (sx # D) == eps)%Q) by ring.
  assert (HR1 : (- (eps * Qabs dE) <= dE * eps)%Q) by nra.
  assert (HR2 : (dE * eps <= eps * Qabs dE)%Q) by nra.
  destruct (Z.ltb_spec py sy) as [L|L].
  - assert (HP : (dP < 0)%Q) by (unfold dP; apply (Qmake_lt D) in L; lra).
    assert (HPa : (Qabs dP == - dP)%Q) by (apply Qabs_neg; lra).
    rewrite HPa in Hb'.
    split.
    + destruct (Qeq_bool _ _) eqn:E; [|reflexivity]. exfalso.
      apply Qeq_bool_iff in E. apply (proj1 (Qdiv_cross_eq _ _ _ _ Hd1 Hd2)) in E. rewrite HE in E. nra.
    + apply Qle_bool_iff. apply (proj2 (Qdiv_cross_le _ _ _ _ Hd1 Hd2)). rewrite HE. nra.
  - assert (HP : (0 < dP)%Q) by (unfold dP; assert (L' : sy < py) by lia; apply (Qmake_lt D) in L'; lra).
    assert (HPa : (Qabs dP == dP)%Q) by (apply Qabs_pos; lra).
    rewrite HPa in Hb'.
    split.
    + destruct (Qeq_bool _ _) eqn:E; [|reflexivity]. exfalso.
      apply Qeq_bool_iff in E. apply (proj1 (Qdiv_cross_eq _ _ _ _ Hd1 Hd2)) in E. rewrite HE in E. nra.
    + destruct (Qle_bool _ _) eqn:E; [|reflexivity]. exfalso.
      apply Qle_bool_iff in E. apply (proj1 (Qdiv_cross_le _ _ _ _ Hd1 Hd2)) in E. rewrite HE in E. nra.
Qed.

(** the swap of the first statement, on both sides *)
Lemma gen_ray_swap : forall eps p s e, Qltb (fst e) (fst s) = true ->
  gen_RayIntersect eps p s e = gen_RayIntersect eps p e s.
Proof.
  intros eps p s e H.
  assert (H' : Qltb (fst s) (fst e) = false).
  { apply gh_Qltb_false. apply gh_Qltb_true in H. apply Qlt_le_weak; assumption. }
  unfold gen_RayIntersect. rewrite H, H'. reflexivity.
Qed.

Lemma model_ray_swap : forall p s e : pt, fst e < fst s -> rayIntersect p s e = rayIntersect p e s.
Proof.
  intros p s e H. unfold rayIntersect.
  assert (H1 : (fst e <? fst s) = true) by (apply Z.ltb_lt; assumption).
  assert (H2 : (fst s <? fst e) = false) by (apply Z.ltb_ge; lia).
  rewrite H1, H2. reflexivity.
Qed.

(** one step of the case analysis: resolve a division / a comparison with the nudged ordinate / a slope comparison
    from what is known on the path, or split on the next integer comparison (shared by the code and the model) *)
Ltac ray_step D eps H0 Hn1 Hn2 :=
  match goal with
  | |- context [fdiv ?a ((?p # D) - (?s # D))] => rewrite (fdiv_plain D a p s) by lia
  | |- context [fdiv ?a ((?p # D) + eps - (?s # D))] => rewrite (fdiv_nudged D a eps p s) by (assumption || lia)
  | |- context [Qltb ((?a # D) + eps) (?b # D)] => rewrite (nudge_l_false D eps a b H0) by lia
  | |- context [Qltb (?b # D) ((?a # D) + eps)] =>
      first [ rewrite (nudge_r_true D eps a b H0) by lia
            | rewrite (nudge_r_false D eps a b) by (apply Hn1; lia) ]
  | |- context [Qeq_bool (((?py # D) - (?sy # D)) / ((?px # D) - (?sx # D)))
                         (((?ey # D) - (?sy # D)) / ((?ex # D) - (?sx # D)))] =>
      rewrite (slope_eq_plain D py sy px sx ey ex) by lia
  | |- context [Qle_bool (((?py # D) - (?sy # D)) / ((?px # D) - (?sx # D)))
                         (((?ey # D) - (?sy # D)) / ((?ex # D) - (?sx # D)))] =>
      rewrite (slope_le_plain D py sy px sx ey ex) by lia
  | |- context [Qeq_bool (((?py # D) - (?sy # D)) / ((?px # D) + eps - (?sx # D)))
                         (((?ey # D) - (?sy # D)) / ((?ex # D) - (?sx # D)))] =>
      let S := fresh "S" in
      assert (S := slope_nudged D eps py sy px sx ey ex ltac:(lia) ltac:(lia) ltac:(lia) H0 ltac:(apply Hn2; lia));
      destruct S as [S1 S2]; rewrite S1, ?S2
  | |- context [?a <? ?b] => destruct (Z.ltb_spec a b)
  | |- context [?a <=? ?b] => destruct (Z.leb_spec a b)
  | |- context [?a =? ?b] => destruct (Z.eqb_spec a b); try subst
  end; cbn [bind andb orb negb]; try (exfalso; lia); try reflexivity.

Ltac zb_step :=
  match goal with
  | |- context [?a <? ?b] => destruct (Z.ltb_spec a b)
  | |- context [?a <=? ?b] => destruct (Z.leb_spec a b)
  | |- context [?a =? ?b] => destruct (Z.eqb_spec a b)
  end; cbn [andb orb negb]; try (exfalso; lia); try reflexivity.

Lemma gen_ray_noswap : forall (D : positive) (eps : Q) (px py sx sy ex ey : Z),
  (0 < eps)%Q -> sx <= ex ->
  (px = sx -> sx < ex -> (eps <= (ex - sx) # D)%Q) ->
  (px = sx -> sx < ex -> py <> sy ->
     (eps * (Z.abs (ey - sy) # D) < (Z.abs (py - sy) * (ex - sx)) # (D * D))%Q) ->
  gen_RayIntersect eps (injPd D (px, py)) (injPd D (sx, sy)) (injPd D (ex, ey))
  = Ok (rayIntersect (px, py) (sx, sy) (ex, ey)).
Proof.
  intros D eps px py sx sy ex ey H0 Hle Hn1 Hn2.
  assert (Hsw : (ex <? sx) = false) by (apply Z.ltb_ge; lia).
  unfold gen_RayIntersect, rayIntersect, injPd. cbn [fst snd]. rewrite Qltb_injd, Hsw.
  cbv [set0 go_nextafter_up fst snd].
  rewrite ?Qltb_injd, ?Qeqb_injd, ?Qleb_injd.
  repeat ray_step D eps H0 Hn1 Hn2.
Qed.

(** the regenerated RayIntersect on lattice points o / D, for EVERY positive nudge that is small enough for the
    input ([nudge_ok], Snap/GoGeomHelp.v): both results are the model's; no division by zero is reached *)
Theorem gen_RayIntersect_spec_d : forall (D : positive) (eps : Q) (p s e : pt),
  (0 < eps)%Q -> nudge_ok D eps p s e ->
  gen_RayIntersect eps (injPd D p) (injPd D s) (injPd D e) = Ok (rayIntersect p s e).
Proof.
  intros D eps [px py] [sx sy] [ex ey] H0 Hn. unfold nudge_ok in Hn. cbn [fst snd] in Hn.
  destruct (Z.ltb_spec ex sx) as [L|L].
  - rewrite gen_ray_swap by (cbn [injPd fst snd]; rewrite Qltb_injd; apply Z.ltb_lt; exact L).
    rewrite model_ray_swap by (cbn [fst]; exact L).
    apply gen_ray_noswap; [exact H0 | lia | | ]; intros; apply Hn; assumption.
  - apply gen_ray_noswap; [exact H0 | lia | | ]; intros; apply Hn; assumption.
Qed.

(** a point that is not nudged (not on the vertical through either end): every eps, even a useless one *)
Theorem gen_RayIntersect_not_nudged : forall (D : positive) (eps : Q) (p s e : pt),
  (0 < eps)%Q -> fst p <> fst s -> fst p <> fst e ->
  gen_RayIntersect eps (injPd D p) (injPd D s) (injPd D e) = Ok (rayIntersect p s e).
Proof.
  intros D eps p s e H0 H1 H2. apply gen_RayIntersect_spec_d; [exact H0|].
  unfold nudge_ok. destruct (fst e <? fst s); intros E; exfalso; auto.
Qed.

(** on a lattice whose points differ by multiples of [m] in both ordinates (pixel centres of one level: m = the
    pixel size in lattice units): a nudge below the spacing whose product with the height of the segment is below
    the square of the spacing is small enough.  With m = 1 and D = 1 this is "0 < eps < 1 and eps * |ey - sy| < 1". *)
Theorem nudge_ok_lattice : forall (D : positive) (m : Z) (eps : Q) (p s e : pt),
  0 < m -> (m | snd p - snd s) -> (m | snd p - snd e) -> (m | fst e - fst s) ->
  (eps <= m # D)%Q -> (eps * (Z.abs (snd e - snd s) # D) < (m * m) # (D * D))%Q ->
  nudge_ok D eps p s e.
Proof.
  intros D m eps [px py] [sx sy] [ex ey] Hm [k1 K1] [k2 K2] [k3 K3] He Hb. cbn [fst snd] in *.
  unfold nudge_ok; cbn [fst snd].
  assert (Hmul : forall k : Z, 0 < k * m -> m <= k * m) by (intros k Hk; destruct (Z_le_gt_dec k 0); nia).
  assert (Habs : forall k : Z, k * m <> 0 -> m <= Z.abs (k * m)).
  { intros k Hk. destruct (Z.abs_spec (k * m)) as [[_ E]|[_ E]]; rewrite E.
    - apply Hmul. lia.
    - replace (- (k * m)) with ((- k) * m) by ring. apply Hmul. lia. }
  destruct (Z.ltb_spec ex sx) as [L|L]; cbn [fst snd]; intros Ex Lx; split.
  - eapply Qle_trans; [exact He|]. apply (proj2 (Qmake_le D m (sx - ex))).
    replace (sx - ex) with ((- k3) * m) by lia. apply Hmul. lia.
  - intros Ny. replace (Z.abs (sy - ey)) with (Z.abs (ey - sy)) by lia.
    eapply Qlt_le_trans; [exact Hb|]. apply (proj2 (Qmake_le (D * D) _ _)).
    assert (A1 : m <= Z.abs (py - ey)) by (rewrite K2; apply Habs; lia).
    assert (A2 : m <= sx - ex) by (replace (sx - ex) with ((- k3) * m) by lia; apply Hmul; lia).
    nia.
  - eapply Qle_trans; [exact He|]. apply (proj2 (Qmake_le D m (ex - sx))).
    rewrite K3. apply Hmul. lia.
  - intros Ny. eapply Qlt_le_trans; [exact Hb|]. apply (proj2 (Qmake_le (D * D) _ _)).
    assert (A1 : m <= Z.abs (py - sy)) by (rewrite K1; apply Habs; lia).
    assert (A2 : m <= ex - sx) by (rewrite K3; apply Hmul; lia).
    nia.
Qed.

(** the form asked for: integer ordinates, any nudge below the lattice spacing 1 - AND a bound that ties the nudge
    to the height of the segment (without it the statement is false: [gen_RayIntersect_bound_needed]) *)
Theorem gen_RayIntersect_spec : forall (eps : Q) (p s e : pt),
  (0 < eps)%Q -> (eps < 1)%Q -> (eps * inject_Z (Z.abs (snd e - snd s)) < 1)%Q ->
  gen_RayIntersect eps (injP p) (injP s) (injP e) = Ok (rayIntersect p s e).
Proof.
  intros eps p s e H0 H1 Hb.
  apply (gen_RayIntersect_spec_d 1 eps p s e H0).
  apply (nudge_ok_lattice 1 1 eps p s e); try lia; try (apply Z.divide_1_l).
  - apply Qlt_le_weak. exact H1.
  - exact Hb.
Qed.

(** no positive nudge is small enough for all lattice segments: for every eps there is a (tall, one unit wide)
    segment and a point one unit below its upper end on which the regenerated code and the model differ.
    This is why the tie carries [nudge_ok]: the model's shift is infinitesimal, the code's is one unit in the last
    place of pt[0] (the real code on such an input: ProofsGenGeomHelpFloat.v and the agent's report). *)
Theorem gen_RayIntersect_bound_needed : forall eps : Q, (0 < eps)%Q -> (eps < 1)%Q ->
  exists p s e : pt, gen_RayIntersect eps (injP p) (injP s) (injP e) <> Ok (rayIntersect p s e).
Proof.
  intros eps H0 H1.
  set (N := Z.pos (Qden eps) + 1).
  exists (0, -1), (0, 0), (1, - N).
  assert (HN : (1 < eps * inject_Z N)%Q).
  { unfold N. destruct eps as [n d]. cbn [Qden]. unfold Qlt in *; cbn [Qnum Qden Qmult inject_Z] in *.
    pose proof (Pos2Z.is_pos d). nia. }
  assert (HNpos : 0 < N) by (unfold N; pose proof (Pos2Z.is_pos (Qden eps)); lia).
  assert (Hm : rayIntersect (0, -1) (0, 0) (1, - N) = (true, false)).
  { cbv [rayIntersect fst snd]. repeat zb_step. }
  rewrite Hm.
  assert (Hn1 : 0 = 0 -> 0 < 1 -> (eps <= (1 - 0) # 1)%Q) by (intros _ _; apply Qlt_le_weak; exact H1).
  assert (Hn2 : True) by exact I.
  unfold gen_RayIntersect, injP, inject_Z. cbn [fst snd]. rewrite (Qltb_injd 1 1 0). change (1 <? 0) with false.
  cbv [set0 go_nextafter_up fst snd].
  rewrite ?Qltb_injd, ?Qeqb_injd, ?Qleb_injd.
  repeat ray_step 1%positive eps H0 Hn1 Hn2.
  assert (Hd1 : (0 < (0 # 1) + eps - (0 # 1))%Q) by lra.
  assert (Hd2 : (0 < (1 # 1) - (0 # 1))%Q) by reflexivity.
  assert (HNq : (((- N) # 1) - (0 # 1) == - inject_Z N)%Q).
  { rewrite Qmake_sub. unfold Qeq, Qopp, inject_Z; cbn [Qnum Qden]. lia. }
  assert (Hcross : ~ (((-1 # 1) - (0 # 1)) * ((1 # 1) - (0 # 1)) <= (((- N) # 1) - (0 # 1)) * ((0 # 1) + eps - (0 # 1)))%Q).
  { rewrite HNq. intro C. lra. }
  destruct (Qeq_bool _ _) eqn:E1.
  - exfalso. apply Qeq_bool_iff in E1. apply (proj1 (Qdiv_cross_eq _ _ _ _ Hd1 Hd2)) in E1.
    apply Hcross. rewrite E1. apply Qle_refl.
  - destruct (Qle_bool _ _) eqn:E2.
    + exfalso. apply Qle_bool_iff in E2. apply (proj1 (Qdiv_cross_le _ _ _ _ Hd1 Hd2)) in E2. exact (Hcross E2).
    + discriminate.
Qed.
