(** * Tie G2 for the WHOLE of splitRing (snap.go): the function REGENERATED from source on every run
      (gen/SplitWalkGen.v: the walk over the ring; gen/SplitTailGen.v: the classification it ends with) is the
      model's [splitRing] (Snap/Model.v), for every ring, every [isOuter], every predicate [isMulti], every outcome.

    Translated from the AST (translator/splitwalk.go): every statement of the walk — the range loop over
    [checkRing] with its index and its [continue], the three places where the stack is set, the closing test, the
    inner loop [for r := stack.Newest().Prev(); r != nil; r = r.Prev()] with its two [break]s, the nested range loop
    that deletes the prepended partial rings, the counter, the final test with its panic — with all index and slice
    expressions as [idx] / [slice] (Go's run-time panics).  Each range-loop body is a definition
    [gen_splitRing_range<N>].

    TRUSTED micro-models (kept as the model's function of the same meaning after the translator has checked the AST
    for the exact call shape; the list is repeated at the top of gen/SplitWalkGen.v):
    - [S := orderedmap.New[int, [][2]float64]()] (github.com/wk8/go-ordered-map/v2) = [[] : stack], oldest first;
      [S.Set(k, v)] = [st_set]; [S.Delete(k)] = [st_del]; [S.Value(k)] = [st_value]; [S.Len()] = [zlen];
      [a, ok := S.Get(k)] = [st_get] ([None]: a = nil = [[]], ok = false);
    - [for r := S.Newest().Prev(); r != nil; r = r.Prev() { .. r.Key .. r.Value .. }] = a [range_loop] over the
      entries of S older than the newest one, newer first ([tl (rev S)]).  [S.Newest()] of an empty map is nil and
      [.Prev()] on it a nil dereference: written [Err IndexOutOfRange] (the type [err] has no value of its own for
      it); the theorem shows the case does not arise (the stack has just been set; the model says [Ok] there).  The
      translator checks that the body changes S only on a path that ends in [break];
    - [C := make(map[int][][2]float64)] = [[]], [C[k] = v] = [insert_sorted k v C]: the entries of the Go map in
      increasing key order, a later assignment to a key replacing the earlier one — which is how the last part reads
      it ([maps.Keys] + [sort.Ints]); the model keeps the assignments in order and sorts at the end ([sortComplete]);
    - [M := verticesHitMultiple(hitMultiple, ringIdx)] with [_, ok := M[v]] = [isMulti v], the model's predicate
      parameter (as in gen_cleanupNewRing); the body of verticesHitMultiple is not tied: the theorem holds for every
      predicate, whatever set of vertices that function computes;
    - [panicPartialRingsRemainingOnStack(S)] = [Err PartialRingsOnStack] (checked: it cannot return);
    - [append(a, x)] = [a ++ [x]], [append(a, s...)] = [a ++ s], [make([][2]float64, 0, n)] = [[]]: slices are VALUES.
      That [append(stack.Value(k), vertex)] / [append(partialRingFromStack, tempRing[1:]...)] write into spare capacity
      shared between stack values (ALIASING) is outside the translation: the model is immutable, and that the Go
      code's results do not depend on it is held by the run-time correspondence (Corr/C06.v), not by this theorem;
    - [for i, x := range l] = [range_loop] over [gen_enumerate 0 l]; [windingOrderIsCorrect] and the Go map read through
      its sorted keys in the last part: see Snap/ProofsGenSplitTail.v. *)
From Coq Require Import ZArith List Bool Lia.
From Texel Require Import Prelude.Base Prelude.GoLoop Index.Model Snap.Model Snap.ProofsKmpSearch
  Snap.ProofsGenSmall Snap.ProofsGenSplitTail.
From Texel.Gen Require Import SplitTailGen SplitWalkGen.
Import ListNotations.
Open Scope Z_scope.

(** ** small facts *)
Lemma sortComplete_snoc (d : complete) k v : sortComplete (d ++ [(k, v)]) = insert_sorted k v (sortComplete d).
Proof. unfold sortComplete. rewrite fold_left_app. reflexivity. Qed.

Lemma idx0_ne {A} (t : list A) a : idx t 0 = Ok a -> t <> [].
Proof. intros H E. subst t. discriminate H. Qed.

Lemma rev_nil_inv {A} (l : list A) : rev l = [] -> l = [].
Proof. intro H. apply (f_equal (@rev A)) in H. rewrite rev_involutive in H. exact H. Qed.

(** the nested range loop [for _, idx := range partialsToRemove { stack.Delete(idx) }] *)
Lemma del_loop : forall (rm : list Z) (stk : stack),
  range_loop (R := ringSets) (fun (v_idx : Z) (v_stack : stack) => Ok (Cont (st_del v_stack v_idx))) rm stk
  = Ok (Next (fold_left st_del rm stk)).
Proof. induction rm as [| k rm IH]; intro stk; cbn [range_loop fold_left]; [reflexivity | apply IH]. Qed.

(** ** the inner loop over the older partial rings = [prependLoop] *)
Lemma range2_step isMulti ring isOuter k check vi v sidx partial (stk : stack) (cr : complete) tempRing toRemove :
  gen_splitRing_range2 isMulti ring isOuter k check vi v (sidx, partial) (stk, cr, tempRing, toRemove)
  = do pl <- idx partial (zlen partial - 1);
    do t0 <- idx tempRing 0;
    if pt_eqb pl t0 then
      do closed <- first_last_eq (partial ++ tl tempRing);
      if closed then Ok (Brk (fold_left st_del (toRemove ++ [sidx]) stk,
                              insert_sorted sidx (removelast (partial ++ tl tempRing)) cr,
                              partial ++ tl tempRing, toRemove ++ [sidx]))
      else Ok (Cont (stk, cr, partial ++ tl tempRing, toRemove ++ [sidx]))
    else Ok (Brk (stk, cr, tempRing, toRemove)).
Proof.
  unfold gen_splitRing_range2. cbv zeta. cbn [fst snd].
  destruct (idx partial (zlen partial - 1)) as [pl | e]; cbn [bind]; [| reflexivity].
  destruct (idx tempRing 0) as [t0 | e] eqn:E0; cbn [bind]; [| reflexivity].
  destruct (pt_eqb pl t0); [| reflexivity].
  rewrite (slice_tail tempRing (idx0_ne _ _ E0)). cbn [bind]. unfold first_last_eq.
  destruct (idx (partial ++ tl tempRing) 0) as [a | e] eqn:E1; cbn [bind]; [| reflexivity].
  destruct (idx (partial ++ tl tempRing) (zlen (partial ++ tl tempRing) - 1)) as [b | e]; cbn [bind]; [| reflexivity].
  destruct (pt_eqb a b); [| reflexivity].
  rewrite (slice_all_but_last _ (idx0_ne _ _ E1)). cbn [bind]. rewrite del_loop. reflexivity.
Qed.

Lemma pair_loop isMulti ring isOuter k check vi v : forall (older stk : stack) (cr : complete) tempRing toRemove,
  exists t' rm',
    range_loop (R := ringSets) (gen_splitRing_range2 isMulti ring isOuter k check vi v) older (stk, cr, tempRing, toRemove)
    = match prependLoop older tempRing toRemove with
      | Err e => Err e
      | Ok None => Ok (Next (stk, cr, t', rm'))
      | Ok (Some (sidx, ringDone, toRemove')) =>
          Ok (Next (fold_left st_del toRemove' stk, insert_sorted sidx ringDone cr, t', rm'))
      end.
Proof.
  induction older as [| [sidx partial] rest IH]; intros stk cr tempRing toRemove.
  - exists tempRing, toRemove. reflexivity.
  - cbn [range_loop prependLoop]. rewrite range2_step.
    destruct (idx partial (zlen partial - 1)) as [pl | e]; cbn [bind]; [| exists [], []; reflexivity].
    destruct (idx tempRing 0) as [t0 | e]; cbn [bind]; [| exists [], []; reflexivity].
    destruct (pt_eqb pl t0); [| eexists; eexists; reflexivity].
    destruct (first_last_eq (partial ++ tl tempRing)) as [closed | e]; cbn [bind]; [| exists [], []; reflexivity].
    destruct closed; [eexists; eexists; reflexivity | apply IH].
Qed.

(** ** one vertex of the walk = [splitStep] *)
Definition proj (st : splitState) : Z * stack * complete := (sIdx st, sStack st, sortComplete (sDone st)).

(** what [splitStep] does once the vertex has been put on the stack [stk1] (and the walk does not just go on) *)
Definition step_rest (n k : Z) (done : complete) (i : Z) (v : pt) (stk1 : stack) : res splitState :=
  let tempRing := st_value stk1 k in
  do closed <- first_last_eq tempRing;
  do sd <- (if closed then Ok (st_del stk1 k, done ++ [(k, removelast tempRing)])
            else
              match rev stk1 with
              | [] => Ok (stk1, done)
              | _newest :: older =>
                  do r <- prependLoop older tempRing [k];
                  match r with
                  | None => Ok (stk1, done)
                  | Some (stackIdx, ringDone, toRemove) =>
                      Ok (fold_left st_del toRemove stk1, done ++ [(stackIdx, ringDone)])
                  end
              end);
  let '(stk2, done2) := sd in
  if i <? n - 1 then
    Ok (mkSplit (k + 1) (st_set stk2 (k + 1) (st_value stk2 (k + 1) ++ [v])) done2)
  else if (0 <? length stk2)%nat then Err PartialRingsOnStack
  else Ok (mkSplit k stk2 done2).

Lemma splitStep_alt isMulti n k stk done i v :
  splitStep isMulti n (mkSplit k stk done) i v
  = let plain := (i =? 0) || negb (isMulti v) in
    let stk1 :=
      if plain then
        match st_get stk k with
        | None => st_set stk k []
        | Some p => st_set stk k (p ++ [v])
        end
      else st_set stk k (st_value stk k ++ [v]) in
    if plain && (i <? n - 1) then Ok (mkSplit k stk1 done) else step_rest n k done i v stk1.
Proof. reflexivity. Qed.

Definition lift (r : res splitState) : res (rctl (Z * stack * complete) ringSets) :=
  match r with Ok st' => Ok (Cont (proj st')) | Err e => Err e end.

(** name the outermost [let] of the left-hand side *)
Ltac intro_let y :=
  lazymatch goal with
  | |- (let x := ?a in @?b x) = ?r => pose (y := a); change (b y = r); cbv beta
  end.

Ltac finish_leaf := unfold proj; cbn [sIdx sStack sDone]; rewrite ?sortComplete_snoc; reflexivity.
Ltac finish_step :=
  match goal with |- context [?i <? ?n - 1] => destruct (i <? n - 1); [finish_leaf |] end;
  rewrite zlen_ltb0;
  match goal with |- context [(0 <? length ?s)%nat] => destruct (0 <? length s)%nat; finish_leaf end.

Lemma range1_step isMulti ring isOuter check st i v :
  gen_splitRing_range1 isMulti ring isOuter check (i, v) (proj st)
  = lift (splitStep isMulti (zlen check) st i v).
Proof.
  destruct st as [k stk done]. unfold proj. cbn [sIdx sStack sDone].
  cbv delta [gen_splitRing_range1]. cbv beta iota delta [fst snd].
  intro_let vi. intro_let vv. intro_let hm. intro_let kont. subst vi vv hm.
  (* the continuation after the vertex has been put on the stack *)
  assert (K : forall stk1, kont stk1 = lift (step_rest (zlen check) k done i v stk1)).
  { intro stk1. unfold kont, step_rest, lift. cbv zeta beta. unfold first_last_eq.
    destruct (idx (st_value stk1 k) 0) as [a | e] eqn:E0; cbn [bind]; [| reflexivity].
    destruct (idx (st_value stk1 k) (zlen (st_value stk1 k) - 1)) as [b | e]; cbn [bind]; [| reflexivity].
    destruct (pt_eqb a b); cbn [bind].
    - rewrite (slice_all_but_last _ (idx0_ne _ _ E0)). cbn [bind]. finish_step.
    - destruct (rev stk1) as [| newest older] eqn:Er.
      + (* no newest entry: the stack is empty, so there is no tempRing[0] *)
        apply rev_nil_inv in Er. subst stk1. discriminate E0.
      + destruct (pair_loop isMulti ring isOuter k check i v older stk1
                    (sortComplete done) (st_value stk1 k) [k]) as (t' & rm' & ->).
        destruct (prependLoop older (st_value stk1 k) [k]) as [[[[sidx ringDone] toRemove] |] | e]; cbn [bind];
          [finish_step | finish_step | reflexivity]. }
  clearbody kont.
  rewrite splitStep_alt. cbv zeta.
  destruct ((i =? 0) || negb (isMulti v)); cbn [andb].
  - destruct (st_get stk k) as [p |]; cbn [negb];
      (destruct (i <? zlen check - 1); [reflexivity | apply K]).
  - apply K.
Qed.

(** ** the walk = [splitLoop] *)
Lemma walk_loop isMulti ring isOuter check : forall l st i,
  range_loop (R := ringSets) (gen_splitRing_range1 isMulti ring isOuter check) (gen_enumerate i l) (proj st)
  = match splitLoop isMulti (zlen check) st i l with Ok st' => Ok (Next (proj st')) | Err e => Err e end.
Proof.
  induction l as [| v l IH]; intros st i; [reflexivity |].
  cbn [gen_enumerate range_loop splitLoop]. rewrite range1_step. unfold lift.
  destruct (splitStep isMulti (zlen check) st i v) as [st' | e]; cbn [bind]; [apply IH | reflexivity].
Qed.

(** ** splitRing, the whole function *)
Theorem gen_splitRing_spec (r : ring) (isOuter : bool) (isMulti : pt -> bool) :
  gen_splitRing r isOuter isMulti = splitRing r isOuter isMulti.
Proof.
  rewrite splitRing_ends_with_gen_tail. unfold gen_splitRing. cbv zeta.
  destruct (idx r 0) as [r0 | e]; cbn [bind]; [| reflexivity].
  change (0, st_set [] 0 [], @nil (Z * list pt)) with (proj (mkSplit 0 [(0, [])] [])).
  rewrite walk_loop.
  destruct (splitLoop isMulti (zlen (r ++ [r0])) (mkSplit 0 [(0, [])] []) 0 (r ++ [r0])) as [st | e]; cbn [bind];
    reflexivity.
Qed.
