(** * Micro-models the regenerated top of snap.go (gen/SnapTopGen.v: addPointsAndSnap, verticesHitMultiple,
      tileMatrixIDsByLevels, SnapPolygon) is written against.

    Definitions only; TRUSTED (they stand for behaviour that is not translated).

    - Go maps keyed by [pointindex.Level] are association lists [list (nat * A)] read with [aget m k zero]
      ([m[k]]: the zero value when the key is absent), written with [aset] ([m[k] = v]: a present key keeps its
      place) and looked up with [afind] (all three from Snap/ModelInterleaved.v); [lv_keys] are the keys.  The
      order of the list is NOT the iteration order: every [for k := range m] of the generated code takes its
      order from the parameter [gord : gen_site -> list nat -> list nat] applied to the keys present when the
      loop starts, and the theorems quantify over every [gord] that permutes its argument.
    - [map[Level]any] used as a set (levelMap) is the list of its keys: [as_keys] = mapslicehelp.AsKeys (a key
      listed twice is one key), [adel] = the builtin delete, [mem_nat] = "the key is still present" (Go: an entry
      removed during the iteration before it is reached is not produced).
    - [pindex] is what addPointsAndSnap can observe of a [*pointindex.PointIndex]: the grid and the occupied
      pixels (fixed after InsertPolygon) and the per-level hit maps ix.hitOnce / ix.hitMultiple, which
      SnapClosestPoints updates.  [px_SnapClosestPoints] is the public SnapClosestPoints on all requested levels:
      for every level of levelMap, in the order of ITS range statement (a parameter), the centres from the
      model's routing ([snapAndHit] of Index/Model.v: [snapClosestPoints] + checkPointHits on all but the first
      centre; the regenerated descent is tied separately: C02_source_tie_descent).  [px_GetHitMultiple] =
      ix.GetHitMultiple.
    - [hit_multi hm ringIdx] = membership in verticesHitMultiple(hm, ringIdx): the two arguments
      (hitMultiple, ringIdx) of cleanupNewRing / splitRing read as the predicate [isMulti] of the regenerated
      gen_cleanupNewRing (CleanupRingGen.v).  C08_source_tie_vertices_hit_multiple ties the regenerated
      verticesHitMultiple to it.
    - [geom_polygons_for_all_keys] = geomhelp.FloatPolygonsToGeomPolygonsForAllKeys, [polygon_linear_rings] =
      geom.Polygon.LinearRings: type conversions, the identity on the model's values.
    - [go_enumerate 0 l] = the (index, element) pairs of [for i, x := range l].
    - [tmsview] is what SnapPolygon / tileMatrixIDsByLevels can observe of a [tms20.TileMatrixSet]:
      [tvRootTileWidth] = tms.TileMatrices[0].TileWidth (0, the zero value, when there is no matrix 0) and
      [tvIndex d] = the grid of the index pointindex.FromTileMatrixSet(tms, d) builds, or its error (SnapPolygon turns
      it into a panic).  The theorems quantify over every view.  [px_FromTileMatrixSet] = FromTileMatrixSet followed
      by [if err != nil { panic(err) }]: a fresh index (nothing inserted, no hits).
    - [px_InsertPolygon] = ix.InsertPolygon(polygon): the model's [insertPolygon] (Index/Model.v; tied separately:
      C08_source_tie, C02_source_tie_descent ..).  [Err] = a run-time panic inside (integer division by zero for a
      zero resolution); [(ix', true)] = it RETURNED an error, which is always a pointindex.OutsideGridError (the only
      error InsertCoord makes; checked by the translator on the AST of InsertPolygon / InsertPoint / InsertCoord), so
      [errors.As(err, new(pointindex.OutsideGridError))] is "err is not nil" and [panic(err)] is [Err OutsideGrid];
      [(ix', false)] = nil: the index now holds the polygon ([hotLevels]).
    - [go_slices_max] = slices.Max on []int: a panic for an empty slice (written [Err IndexOutOfRange]: there is no
      dedicated error value).
    - Go maps keyed by tms20.TMID (= int) are association lists used through [gm_get Z.eqb] / [gm_set Z.eqb]
      (Prelude/GoAssoc.v).  uint arithmetic: [uint(x)] = x mod 2^64, [+] = [uint_add] (Tms/GoTms.v),
      [uint(math.Log2(float64(w)))] = [go_log2_uint w] (Tms/Model.v: floor(log2 w) for 1 <= w); a uint used as a
      pointindex.Level key is [Z.to_nat]. *)
From Coq Require Import ZArith List Bool.
From Texel Require Import Prelude.Base Index.Model Snap.Model Snap.ModelInterleaved.
Import ListNotations.
Open Scope Z_scope.

Fixpoint go_enumerate {A : Type} (i : Z) (l : list A) : list (Z * A) :=
  match l with
  | [] => []
  | x :: l' => (i, x) :: go_enumerate (i + 1) l'
  end.

Definition lv_keys {A} (m : list (nat * A)) : list nat := map fst m.

Definition as_keys (levels : list nat) : list nat :=
  fold_left (fun acc L => if mem_nat L acc then acc else acc ++ [L]) levels [].

Record pindex := mkPIndex { pxGrid : grid; pxHots : list (list (Z * Z)); pxHits : list (nat * hits) }.

Definition hits0 : hits := mkHits [] [].

Definition px_level_hits (ix : pindex) (L : nat) : hits := aget (pxHits ix) L hits0.

Definition px_SnapClosestPoints (order : list nat -> list nat) (ix : pindex) (line : pt * pt)
                                (levelMap : list nat) (ringID : Z) : pindex * list (nat * list pt) :=
  let '(hm, nv) :=
    fold_left (fun (acc : list (nat * hits) * list (nat * list pt)) (L : nat) =>
                 let '(hm, nv) := acc in
                 let '(pts, st') := snapAndHit (pxGrid ix) (pxHots ix) (aget hm L hits0)
                                               (fst line) (snd line) L (Z.to_nat ringID) in
                 (aset hm L st', aset nv L pts))
              (order levelMap) (pxHits ix, []) in
  (mkPIndex (pxGrid ix) (pxHots ix) hm, nv).

Definition px_GetHitMultiple (ix : pindex) (L : nat) : hitmap := hitMultiple (px_level_hits ix L).

Definition hit_multi (hm : hitmap) (ringIdx : Z) (p : pt) : bool := mem_nat (Z.to_nat ringIdx) (hm_get hm p).

Definition geom_polygons_for_all_keys (m : list (nat * list (list (list pt)))) : list (nat * list (list (list pt))) := m.

Definition polygon_linear_rings (p : list (list pt)) : list (list pt) := p.

Record tmsview := mkTmsView { tvRootTileWidth : Z; tvIndex : Z -> res grid }.

Definition px_FromTileMatrixSet (t : tmsview) (deepestTMID : Z) : res pindex :=
  do g <- tvIndex t deepestTMID; Ok (mkPIndex g [] []).

Definition px_InsertPolygon (ix : pindex) (P : list (list pt)) : res (pindex * bool) :=
  match insertPolygon (pxGrid ix) P with
  | Ok hs => Ok (mkPIndex (pxGrid ix) (hotLevels (pxGrid ix) hs) (pxHits ix), false)
  | Err OutsideGrid => Ok (ix, true)
  | Err e => Err e
  end.

Definition go_slices_max (l : list Z) : res Z :=
  match l with [] => Err IndexOutOfRange | x :: r => Ok (fold_left Z.max r x) end.
