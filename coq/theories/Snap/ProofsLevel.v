(** * cleanupNewRing, ringStep, ringsLoop: what one level accumulates. *)
From Coq Require Import ZArith List Bool Lia Permutation.
From Texel Require Import Prelude.Base Index.Model Snap.Model Snap.ProofsBasics Snap.ProofsSplit
  Snap.ProofsSplitRefine Snap.ProofsSplitThms Snap.ProofsLevelRoute.
Import ListNotations.
Open Scope Z_scope.

(** ** the loop after kmpDeduplicate: trailing vertices equal to the first one are dropped *)
Lemma stripTrailing_spec a : forall t, exists k,
  t = stripTrailing a t ++ repeat a k /\
  (stripTrailing a t = [] \/ exists m z, stripTrailing a t = m ++ [z] /\ z <> a).
Proof.
  induction t as [| b t IH]; [exists 0%nat; split; [reflexivity | left; reflexivity] |].
  destruct IH as [k [Et Hs]]. cbn [stripTrailing]. destruct (stripTrailing a t) as [| c s] eqn:Es.
  - destruct (pt_eqb_spec a b) as [<- | N].
    + exists (S k). split; [cbn [app repeat]; rewrite Et at 1; reflexivity | left; reflexivity].
    + exists k. split; [cbn [app]; rewrite Et at 1; reflexivity |]. right. exists [], b. split; [reflexivity | congruence].
  - exists k. split; [cbn [app]; rewrite Et at 1; reflexivity |]. right.
    destruct Hs as [Hs | [m [z [Hs Hz]]]]; [discriminate |]. exists (b :: m), z. rewrite Hs. split; [reflexivity | exact Hz].
Qed.

(** [r = trimClosing r ++ a ... a], and the trimmed ring is [a] alone or ends in a vertex different from [a] *)
Lemma trimClosing_spec a t : exists k,
  a :: t = trimClosing (a :: t) ++ repeat a k /\
  (trimClosing (a :: t) = [a] \/ exists m z, trimClosing (a :: t) = a :: m ++ [z] /\ z <> a).
Proof.
  destruct (stripTrailing_spec a t) as [k [Et Hs]]. exists k. cbn [trimClosing app]. split; [rewrite Et at 1; reflexivity |].
  destruct Hs as [-> | [m [z [-> Hz]]]]; [left; reflexivity | right; exists m, z; auto].
Qed.

Lemma trimClosing_nil : trimClosing [] = [].
Proof. reflexivity. Qed.

Lemma trimClosing_subseq r : subseq (trimClosing r) r.
Proof.
  destruct r as [| a t]; [constructor |]. destruct (trimClosing_spec a t) as [k [E _]].
  rewrite E at 2. rewrite <- (app_nil_r (trimClosing (a :: t))) at 1.
  apply subseq_app; [apply subseq_refl | apply subseq_nil_l].
Qed.

Lemma trimClosing_ne r : r <> [] -> trimClosing r <> [].
Proof. destruct r; [congruence | discriminate]. Qed.

(** nothing to drop in a repeat-free ring *)
Lemma trimClosing_NoDup r : NoDup r -> trimClosing r = r.
Proof.
  destruct r as [| a t]; [reflexivity |]. intro ND. destruct (trimClosing_spec a t) as [k [E _]].
  destruct k as [| k]; [cbn [repeat] in E; rewrite app_nil_r in E; symmetry; exact E |].
  exfalso. cbn [trimClosing app] in E. inversion E as [Et]. inversion ND as [| ? ? Hn _]. subst. apply Hn.
  rewrite Et. apply in_or_app. right. left. reflexivity.
Qed.

(** what reaches asPointOrLine after the loop is repeat-free by construction *)
Lemma trimClosing_short_NoDup r : (length (trimClosing r) < 3)%nat -> NoDup (trimClosing r).
Proof.
  destruct r as [| a t]; [intros _; constructor |]. destruct (trimClosing_spec a t) as [k [_ [-> | [m [z [-> Hz]]]]]].
  - intros _. constructor; [intros [] | constructor].
  - cbn [length]. rewrite app_length. cbn [length]. intro Hl. destruct m; [| cbn [length] in Hl; lia].
    cbn [app]. constructor; [intros [E | []]; congruence | constructor; [intros [] | constructor]].
Qed.

(** ** cleanupNewRing *)
Lemma cleanupNewRing_eq nr o m : cleanupNewRing nr o m =
  let r1 := dropClosing nr in
  if (length r1 <? 3)%nat then Ok (mkSets [] [] (asPointOrLine r1))
  else do rk <- kmpDeduplicate r1;
       let r2 := trimClosing rk in
       if (length r2 <? 3)%nat then Ok (mkSets [] [] (asPointOrLine r2)) else splitRing r2 o m.
Proof. reflexivity. Qed.

(** [rk] is the output of kmpDeduplicate, [trimClosing rk] what is split or kept as a point or line *)
Lemma cleanup_cases nr o m sets : cleanupNewRing nr o m = Ok sets ->
  ((length (dropClosing nr) < 3)%nat /\ sets = mkSets [] [] (asPointOrLine (dropClosing nr))) \/
  (exists rk, (3 <= length (dropClosing nr))%nat /\ kmpDeduplicate (dropClosing nr) = Ok rk /\
     (((length (trimClosing rk) < 3)%nat /\ sets = mkSets [] [] (asPointOrLine (trimClosing rk))) \/
      ((3 <= length (trimClosing rk))%nat /\ splitRing (trimClosing rk) o m = Ok sets))).
Proof.
  rewrite cleanupNewRing_eq. cbn zeta. destruct (Nat.ltb_spec (length (dropClosing nr)) 3) as [H1 | H1].
  - intro H. inversion H. left. auto.
  - intro H. bind_inv H rk Hk. right. exists rk. split; [exact H1 |]. split; [exact Hk |].
    destruct (Nat.ltb_spec (length (trimClosing rk)) 3) as [H2 | H2]; [left; inversion H; auto | right; auto].
Qed.

Lemma asPointOrLine_spec (r : ring) x : In x (asPointOrLine r) -> x = r /\ r <> [].
Proof. destruct r; [intros [] | intros [<- | []]; split; [reflexivity | discriminate]]. Qed.

Lemma small_sets_rings (r : ring) x : In x (rings_of_sets (mkSets [] [] (asPointOrLine r))) -> x = r /\ r <> [].
Proof. unfold rings_of_sets. cbn [outers inners pointsAndLines app]. apply asPointOrLine_spec. Qed.

Lemma dropClosing_no_adj_lin nr : no_adj_lin nr -> no_adj_lin (dropClosing nr).
Proof.
  intro H. unfold dropClosing. destruct nr as [| a t]; [exact H |]. destruct (last_opt (a :: t)); [| exact H].
  destruct ((1 <? length (a :: t))%nat && pt_eqb a p); [apply no_adj_lin_subprefix, H | exact H].
Qed.

Lemma dropClosing_snoc b m' z :
  dropClosing ((b :: m') ++ [z]) = if pt_eqb b z then b :: m' else (b :: m') ++ [z].
Proof.
  assert (El : last_opt ((b :: m') ++ [z]) = Some z) by apply last_opt_snoc.
  assert (Er : removelast ((b :: m') ++ [z]) = b :: m') by apply removelast_last.
  assert (En : (1 <? length ((b :: m') ++ [z]))%nat = true)
    by (apply Nat.ltb_lt; rewrite app_length; cbn [length]; lia).
  unfold dropClosing. cbn [app] in *. rewrite El, En, Er. reflexivity.
Qed.

Lemma dropClosing_no_adj_dup nr : no_adj_lin nr -> (2 <= length (dropClosing nr))%nat -> no_adj_dup (dropClosing nr).
Proof.
  intros H Hl. destruct (snoc_cases nr) as [-> | [m [z ->]]]; [cbn in Hl; lia |].
  destruct m as [| b m'].
  - cbn in Hl. lia.
  - rewrite dropClosing_snoc in *. destruct (pt_eqb_spec b z) as [E | N].
    + subst z. intros x y Hin. apply H. exact Hin.
    + intros x y Hin. unfold dedges in Hin. cbn [app] in Hin.
      change (b :: (m' ++ [z]) ++ [b]) with (((b :: m') ++ [z]) ++ [b]) in Hin.
      rewrite <- app_assoc in Hin. cbn [app] in Hin.
      change (b :: m' ++ [z; b]) with ((b :: m') ++ [z; b]) in Hin.
      rewrite pairs_snoc in Hin. apply in_app_or in Hin. destruct Hin as [Hin | [Hin | []]]; [apply H, Hin |].
      inversion Hin; subst. auto.
Qed.

Section WithKmp.
  (** the interface with the kmp prover *)
  Hypothesis kmp_subseq : forall r r', kmpDeduplicate r = Ok r' -> subseq r' r.

  (** provenance: cleanupNewRing returns only points of the routed ring *)
  Theorem cleanup_incl nr o m sets : cleanupNewRing nr o m = Ok sets -> incl (pts_of_sets sets) nr.
  Proof.
    intros H p Hp. apply pts_of_sets_rings in Hp. destruct Hp as [x [Hx Hpx]].
    pose proof (subseq_incl _ _ (dropClosing_subseq nr)) as Hd.
    destruct (cleanup_cases _ _ _ _ H) as [[_ ->] | [rk [_ [Hk [[_ ->] | [_ Hs]]]]]].
    - apply small_sets_rings in Hx. destruct Hx as [-> _]. apply Hd, Hpx.
    - apply small_sets_rings in Hx. destruct Hx as [-> _].
      apply Hd, (subseq_incl _ _ (kmp_subseq _ _ Hk)), (subseq_incl _ _ (trimClosing_subseq rk)), Hpx.
    - apply Hd, (subseq_incl _ _ (kmp_subseq _ _ Hk)), (subseq_incl _ _ (trimClosing_subseq rk)), (split_incl _ _ _ _ Hs).
      apply pts_of_sets_rings. exists x. auto.
  Qed.

  (** every ring is repeat-free when the flags contain the repeated vertices of the routed ring; a spike-removal
      output of fewer than three vertices is repeat-free because of the loop that follows it (repair of F14:
      kmpDeduplicate itself can return [p; p], ProofsKmpShort.kmp_short_nodup_refuted) *)
  Theorem cleanup_repeat_free nr o m sets :
    no_adj_lin nr ->
    (forall p, (2 <= count_occ pt_dec (dropClosing nr) p)%nat -> m p = true) ->
    cleanupNewRing nr o m = Ok sets -> Forall (@NoDup pt) (rings_of_sets sets).
  Proof.
    intros Hn Hfl H. rewrite Forall_forall.
    destruct (cleanup_cases _ _ _ _ H) as [[Hl ->] | [rk [Hl [Hk [[Hl2 ->] | [_ Hs]]]]]]; intros x Hx.
    - apply small_sets_rings in Hx. destruct Hx as [-> _].
      apply dropClosing_no_adj_lin in Hn. destruct (dropClosing nr) as [| a [| b [| c t]]]; cbn [length] in Hl; try lia.
      + constructor.
      + constructor; [intros [] | constructor].
      + constructor; [| constructor; [intros [] | constructor]].
        intros [E | []]. apply (no_adj_lin_head _ _ _ Hn). auto.
    - apply small_sets_rings in Hx. destruct Hx as [-> _]. apply trimClosing_short_NoDup, Hl2.
    - pose proof (split_repeat_free (trimClosing rk) o m sets) as Hr. rewrite Forall_forall in Hr. apply Hr; try assumption.
      intros p Hp. apply Hfl. pose proof (subseq_count_occ pt_dec _ _ p (kmp_subseq _ _ Hk)).
      pose proof (subseq_count_occ pt_dec _ _ p (trimClosing_subseq rk)). lia.
  Qed.
End WithKmp.

(** sizes and orientation need nothing about kmp *)
Theorem cleanup_orientation nr o m sets : cleanupNewRing nr o m = Ok sets ->
  Forall (fun x : ring => (3 <= length x)%nat /\ 0 <= xprod x) (outers sets) /\
  Forall (fun x : ring => (3 <= length x)%nat /\ xprod x <= 0) (inners sets) /\
  Forall (fun x : ring => (1 <= length x <= 2)%nat) (pointsAndLines sets).
Proof.
  intro H.
  assert (Hsmall : forall r : ring, (length r < 3)%nat ->
            Forall (fun x : ring => (1 <= length x <= 2)%nat) (asPointOrLine r)).
  { intros r Hl. rewrite Forall_forall. intros x Hx. apply asPointOrLine_spec in Hx. destruct Hx as [-> Hne].
    destruct r; [congruence | cbn [length] in *; lia]. }
  destruct (cleanup_cases _ _ _ _ H) as [[Hl ->] | [rk [_ [Hk [[Hl2 ->] | [_ Hs]]]]]]; cbn [outers inners pointsAndLines].
  - repeat split; try constructor. apply Hsmall, Hl.
  - repeat split; try constructor. apply Hsmall, Hl2.
  - apply (split_orientation _ _ _ _ Hs).
Qed.

(** keep policy at the level of one ring: big rings have >= 3 vertices, collapsed parts 1 or 2 *)
Corollary cleanup_keep_policy nr o m sets : cleanupNewRing nr o m = Ok sets ->
  Forall (fun x : ring => (3 <= length x)%nat) (outers sets ++ inners sets) /\
  Forall (fun x : ring => (1 <= length x <= 2)%nat) (pointsAndLines sets).
Proof.
  intro H. destruct (cleanup_orientation _ _ _ _ H) as [Ho [Hi Hp]]. split; [| exact Hp].
  apply Forall_app. split; eapply Forall_impl; try eassumption; cbn beta; tauto.
Qed.

(** ** ringStep *)
Definition routeOf (g : grid) (hots : list (list (Z * Z))) (L : nat) (idx : nat) (r' : ring) (st : hits)
  : res (list pt * hits) :=
  match r' with
  | [] => Ok ([], st)
  | first :: _ => routeRing g hots L idx first r' st []
  end.

Definition deadb (cfg : config) (isOuter : bool) (sets : ringSets) : bool :=
  isOuter && (length (outers sets) =? 0)%nat
  && (negb (keepPointsAndLines cfg) || (length (pointsAndLines sets) =? 0)%nat).

Lemma ringStep_dead g hots L cfg acc idx r : aAlive acc = false -> ringStep g hots L cfg acc idx r = Ok acc.
Proof. intro H. unfold ringStep. rewrite H. reflexivity. Qed.

Lemma ringStep_alive g hots L cfg acc idx r acc' : aAlive acc = true ->
  ringStep g hots L cfg acc idx r = Ok acc' ->
  exists nr st sets,
    routeOf g hots L idx (ensureCorrectWindingOrder r (negb (Nat.eqb idx 0))) (aHits acc) = Ok (nr, st) /\
    cleanupNewRing nr (Nat.eqb idx 0) (isMultiFor st idx) = Ok sets /\
    acc' = if deadb cfg (Nat.eqb idx 0) sets
           then mkAcc false st (aOuters acc) (aInners acc) (aPL acc)
           else mkAcc true st (aOuters acc ++ outers sets) (aInners acc ++ inners sets)
                      (if keepPointsAndLines cfg then aPL acc ++ pointsAndLines sets else aPL acc).
Proof.
  intros Ha H. unfold ringStep in H. rewrite Ha in H. cbn [negb] in H.
  fold (routeOf g hots L idx (ensureCorrectWindingOrder r (negb (Nat.eqb idx 0))) (aHits acc)) in H.
  bind_inv H routed Hr. destruct routed as [nr st]. bind_inv H sets Hs.
  exists nr, st, sets. split; [exact Hr |]. split; [exact Hs |].
  unfold deadb. destruct (_ && _ && _); inversion H; reflexivity.
Qed.

(** ** ringsLoop: a general invariant principle *)
Lemma ringsLoop_inv g hots L cfg (I : nat -> levelAcc -> Prop) : forall P idx acc acc',
  (forall k r a a', nth_error P k = Some r -> I (idx + k)%nat a ->
                    ringStep g hots L cfg a (idx + k)%nat r = Ok a' -> I (S (idx + k)) a') ->
  I idx acc -> ringsLoop g hots L cfg acc idx P = Ok acc' -> I (idx + length P)%nat acc'.
Proof.
  induction P as [| r rest IH]; intros idx acc acc' Hstep H0 H; cbn [ringsLoop] in H.
  - inversion H; subst. cbn [length]. rewrite Nat.add_0_r. exact H0.
  - bind_inv H a1 H1. cbn [length]. rewrite <- Nat.add_succ_comm.
    apply (IH (S idx) a1 acc'); [| | exact H].
    + intros k r' a a' Hn Hi Hs. specialize (Hstep (S k) r' a a'). cbn [nth_error] in Hstep.
      rewrite <- !Nat.add_succ_comm in Hstep. apply Hstep; assumption.
    + specialize (Hstep O r acc a1 eq_refl). rewrite Nat.add_0_r in Hstep. apply Hstep; assumption.
Qed.

(** the accumulated rings all come from some ring's cleanupNewRing *)
Definition acc_rings (a : levelAcc) : list ring := aOuters a ++ aInners a ++ aPL a.

Lemma acc_rings_step cfg (isOuter : bool) a st sets x :
  In x (acc_rings (if deadb cfg isOuter sets
                   then mkAcc false st (aOuters a) (aInners a) (aPL a)
                   else mkAcc true st (aOuters a ++ outers sets) (aInners a ++ inners sets)
                              (if keepPointsAndLines cfg then aPL a ++ pointsAndLines sets else aPL a))) ->
  In x (acc_rings a) \/ In x (rings_of_sets sets).
Proof.
  unfold acc_rings, rings_of_sets. destruct (deadb cfg isOuter sets); cbn [aOuters aInners aPL]; [auto |].
  intro H. repeat (apply in_app_or in H; destruct H as [H | H]).
  - left. apply in_or_app. left. exact H.
  - right. apply in_or_app. left. exact H.
  - left. apply in_or_app. right. apply in_or_app. left. exact H.
  - right. apply in_or_app. right. apply in_or_app. left. exact H.
  - destruct (keepPointsAndLines cfg).
    + apply in_app_or in H. destruct H as [H | H].
      * left. apply in_or_app. right. apply in_or_app. right. exact H.
      * right. apply in_or_app. right. apply in_or_app. right. exact H.
    + left. apply in_or_app. right. apply in_or_app. right. exact H.
Qed.

(** a property of rings established by every ring step holds of everything accumulated *)
Lemma ringsLoop_rings g hots L cfg (Q : ring -> Prop) (J : nat -> hits -> Prop) P acc' :
  (forall idx r st nr st' sets, nth_error P idx = Some r -> J idx st ->
     routeOf g hots L idx (ensureCorrectWindingOrder r (negb (Nat.eqb idx 0))) st = Ok (nr, st') ->
     cleanupNewRing nr (Nat.eqb idx 0) (isMultiFor st' idx) = Ok sets ->
     J (S idx) st' /\ Forall Q (rings_of_sets sets)) ->
  J O (mkHits [] []) ->
  ringsLoop g hots L cfg (mkAcc true (mkHits [] []) [] [] []) 0 P = Ok acc' ->
  Forall Q (acc_rings acc').
Proof.
  intros Hstep J0 H.
  pose (I := fun (k : nat) (a : levelAcc) => (aAlive a = true -> J k (aHits a)) /\ Forall Q (acc_rings a)).
  assert (HI : I (0 + length P)%nat acc').
  { apply (ringsLoop_inv g hots L cfg I P 0 (mkAcc true (mkHits [] []) [] [] []) acc'); [| | exact H].
    - intros k r a a' Hn [Hj Hq] Hs. cbn [Nat.add] in *. destruct (aAlive a) eqn:Al.
      + destruct (ringStep_alive _ _ _ _ _ _ _ _ Al Hs) as [nr [st [sets [Hr [Hc ->]]]]].
        destruct (Hstep k r (aHits a) nr st sets Hn (Hj eq_refl) Hr Hc) as [Hj' Hq'].
        split.
        * intros _. destruct (deadb cfg (k =? 0)%nat sets); exact Hj'.
        * rewrite Forall_forall in *. intros x Hx. apply acc_rings_step in Hx. destruct Hx; auto.
      + rewrite ringStep_dead in Hs by exact Al. inversion Hs; subst. split; [congruence | exact Hq].
    - split; [intros _; exact J0 | constructor]. }
  apply HI.
Qed.

(** ** the premises about routing (to be discharged by the routing prover, C02):
       every edge's centre list starts at the centre of the pixel of its start vertex and ends at the
       centre of the pixel of its end vertex ([c] is that pixel-centre function), and no centre list has
       two equal consecutive entries (it follows from its NoDup) *)
Definition routing_ok (g : grid) (hots : list (list (Z * Z))) (L : nat) (r' : ring) : Prop :=
  (exists c : pt -> pt, forall a b, In (a, b) (dedges r') -> snapClosestPoints g hots a b L <> [] ->
       hd dp (snapClosestPoints g hots a b L) = c a /\ last (snapClosestPoints g hots a b L) dp = c b) /\
  (forall a b, In (a, b) (dedges r') -> no_adj_lin (snapClosestPoints g hots a b L)).

Lemma endpoints_chain (c : pt -> pt) (seg : pt -> pt -> list pt) : forall l a0,
  (forall a b, In (a, b) (pairs (a0 :: l)) -> seg a b <> [] -> hd dp (seg a b) = c a /\ last (seg a b) dp = c b) ->
  Forall (fun s => s <> []) (map (fun e => seg (fst e) (snd e)) (pairs (a0 :: l))) ->
  seg_chain (c a0) (map (fun e => seg (fst e) (snd e)) (pairs (a0 :: l))) /\
  endOf (c a0) (map (fun e => seg (fst e) (snd e)) (pairs (a0 :: l))) = c (last (a0 :: l) dp).
Proof.
  induction l as [| a1 l IH]; intros a0 He Hne.
  - cbn. auto.
  - rewrite pairs_cons2 in *. cbn [map fst snd seg_chain endOf] in *.
    inversion Hne as [| ? ? Hn0 Hrest]; subst.
    destruct (He a0 a1 (or_introl eq_refl) Hn0) as [E1 E2]. rewrite E2.
    destruct (IH a1) as [C1 C2]; [intros a b Hin; apply He; right; exact Hin | exact Hrest |].
    split; [split; [exact E1 | exact C1] |]. rewrite C2. reflexivity.
Qed.

Lemma count_le_length (l : list pt) p : (count_occ pt_dec l p <= length l)%nat.
Proof. induction l as [| a l IH]; cbn [count_occ length]; [lia |]. destruct (pt_dec a p); lia. Qed.

(** one routed ring: provenance, no equal neighbours, flags = repeated vertices *)
Lemma routeOf_facts g hots L idx r' st nr st' : routeOf g hots L idx r' st = Ok (nr, st') ->
  (forall p, In p nr -> exists a b, In (a, b) (dedges r') /\ In p (snapClosestPoints g hots a b L)) /\
  (forall id, id <> idx -> hits_fresh st id -> hits_fresh st' id) /\
  (routing_ok g hots L r' -> hits_fresh st idx ->
     no_adj_lin nr /\ forall p, (2 <= count_occ pt_dec (dropClosing nr) p)%nat -> isMultiFor st' idx p = true).
Proof.
  unfold routeOf. destruct r' as [| first t].
  - intro H. inversion H; subst. split; [intros p Hp; destruct Hp |]. split; [auto |]. intros _ _. split.
    + intros a b Hab. destruct Hab.
    + intros p Hp. cbn in Hp. lia.
  - intro H. pose proof H as H'. rewrite routeRing_eq in H'. bind_inv H' nr' Ha. inversion H'; subst nr' st'. clear H'.
    rewrite edgesFrom_dedges in *. set (es := dedges (first :: t)) in *.
    split; [| split].
    + intros p Hp. apply (assemble_incl _ _ _ Ha) in Hp. cbn [app] in Hp. apply in_concat in Hp.
      destruct Hp as [s [Hs Hps]]. unfold segsOf in Hs. apply in_map_iff in Hs. destruct Hs as [[a b] [<- Hab]].
      exists a, b. auto.
    + intros id N Hf. apply (route_fresh_other _ _ _ _ _ _ _ _ _ _ H N Hf).
    + intros [[c Hc] Hadj] Hf.
      assert (Hseg : Forall no_adj_lin (segsOf g hots L es)).
      { rewrite Forall_forall. intros s Hs. unfold segsOf in Hs. apply in_map_iff in Hs.
        destruct Hs as [[a b] [<- Hab]]. apply Hadj, Hab. }
      assert (Hnil : no_adj_lin []) by (intros a b Hab; destruct Hab).
      split; [apply (route_no_adj_lin _ _ _ Hseg Hnil Ha) |].
      pose proof (assemble_nonempty _ _ _ Ha) as Hne.
      assert (Ees : es = pairs (first :: (t ++ [first]))) by reflexivity.
      destruct (endpoints_chain c (fun a b => snapClosestPoints g hots a b L) (t ++ [first]) first) as [C1 C2].
      { intros a b Hin. apply Hc. rewrite <- Ees in Hin. exact Hin. }
      { rewrite <- Ees. exact Hne. }
      rewrite <- Ees in C1, C2. fold (segsOf g hots L es) in C1, C2.
      assert (El : last (first :: t ++ [first]) dp = first) by (rewrite app_comm_cons, last_last; reflexivity).
      rewrite El in C2.
      destruct (segsOf g hots L es) as [| s0 rest] eqn:Es.
      { exfalso. unfold segsOf, es in Es. destruct t; discriminate. }
      cbn [seg_chain endOf] in C1, C2. destruct C1 as [Eh C1].
      destruct (route_counts s0 rest nr Hseg C1 ltac:(congruence) Ha) as [Pm | Hl].
      * intros p Hp. rewrite <- Es in Pm. apply (hit_accounting _ _ _ _ _ _ _ _ _ H Hf p).
        rewrite edgesFrom_dedges. fold es.
        rewrite <- (proj1 (Permutation_count_occ pt_dec _ _) Pm p). exact Hp.
      * intros p Hp. pose proof (count_le_length (dropClosing nr) p). lia.
Qed.
