(** * Tie G2, PARTIAL for splitRing: the LAST part of splitRing (snap.go, from
      [completeRingKeys := maps.Keys(completeRings)] on) REGENERATED from source on every run (gen/SplitTailGen.v) is
      the last part of the model's [splitRing]: the complete rings in increasing key order are classified by size
      and winding order ([classify]) and swapped (reversed) when all of them landed on the wrong side.

    NOT covered: the first part of splitRing (the ordered-map stack walk [splitLoop] that produces the complete
    rings) — hand-modelled, held by the correspondence.  Modelled in the translated part: [windingOrderIsCorrect];
    the Go map read through [maps.Keys] + [sort.Ints] as its entries in key order; [slices.Reverse] on the range
    variable ("in place, not used elsewhere") as a reversed value. *)
From Coq Require Import ZArith List Bool Lia.
From Texel Require Import Prelude.Base Prelude.GoLoop Index.Model Snap.Model.
From Texel.Gen Require Import SplitTailGen.
Import ListNotations.
Open Scope Z_scope.

(** the model's last part, as a function of the complete rings in key order *)
Definition split_tail (isOuter : bool) (rings : list ring) : ringSets :=
  let sets := fold_left (classify isOuter) rings (mkSets [] [] []) in
  if isOuter && (length (outers sets) =? 0)%nat && (0 <? length (inners sets))%nat then
    mkSets (map (@rev pt) (inners sets)) [] (pointsAndLines sets)
  else if negb isOuter && (length (inners sets) =? 0)%nat && (0 <? length (outers sets))%nat then
    mkSets [] (map (@rev pt) (outers sets)) (pointsAndLines sets)
  else sets.

Lemma zlen_ltb3 {A} (l : list A) : (zlen l <? 3) = (length l <? 3)%nat.
Proof. unfold zlen. destruct (Z.ltb_spec (Z.of_nat (length l)) 3), (Nat.ltb_spec (length l) 3); lia || reflexivity. Qed.
Lemma zlen_eqb0 {A} (l : list A) : (zlen l =? 0) = (length l =? 0)%nat.
Proof. unfold zlen. destruct (Z.eqb_spec (Z.of_nat (length l)) 0), (Nat.eqb_spec (length l) 0); lia || reflexivity. Qed.
Lemma zlen_ltb0 {A} (l : list A) : (0 <? zlen l) = (0 <? length l)%nat.
Proof. unfold zlen. destruct (Z.ltb_spec 0 (Z.of_nat (length l))), (Nat.ltb_spec 0 (length l)); lia || reflexivity. Qed.

Definition sets_tuple (s : ringSets) := (outers s, inners s, pointsAndLines s).

Lemma classify_loop (isOuter : bool) : forall (c : complete) (o i p : list (list pt)),
  range_loop (R := ringSets)
    (fun (key : (Z * list pt)%type) '((o, i, p) : (list (list pt) * list (list pt) * list (list pt))%type) =>
       if zlen (snd key) <? 3 then Ok (Cont (o, i, p ++ [snd key]))
       else if isOuter then
              if negb (windingOrderIsCorrect (snd key) false) then Ok (Cont (o, i ++ [snd key], p))
              else Ok (Cont (o ++ [snd key], i, p))
            else if negb (windingOrderIsCorrect (snd key) true) then Ok (Cont (o ++ [snd key], i, p))
                 else Ok (Cont (o, i ++ [snd key], p)))
    c (o, i, p)
  = Ok (Next (sets_tuple (fold_left (classify isOuter) (map snd c) (mkSets o i p)))).
Proof.
  induction c as [| [k r] c IH]; intros o i p; [reflexivity |].
  cbn [range_loop map fold_left snd]. unfold classify at 2. cbn [outers inners pointsAndLines].
  rewrite zlen_ltb3. destruct (length r <? 3)%nat; [cbv beta iota; apply IH |].
  destruct isOuter; [destruct (negb (windingOrderIsCorrect r false)) | destruct (negb (windingOrderIsCorrect r true))];
    cbv beta iota; apply IH.
Qed.

Lemma reverse_loop : forall (l acc : list (list pt)),
  range_loop (R := ringSets) (fun (x : list pt) (acc : list (list pt)) => Ok (Cont (acc ++ [rev x]))) l acc
  = Ok (Next (acc ++ map (@rev pt) l)).
Proof.
  induction l as [| x l IH]; intro acc; cbn [range_loop map]; [rewrite app_nil_r; reflexivity |].
  rewrite IH, <- app_assoc. reflexivity.
Qed.

Lemma length0_nil {A} (l : list A) : (length l =? 0)%nat = true -> l = [].
Proof. destruct l; [reflexivity | discriminate]. Qed.

Theorem gen_splitRing_tail_spec isOuter (c : complete) :
  gen_splitRing_tail isOuter c = Ok (split_tail isOuter (map snd c)).
Proof.
  unfold gen_splitRing_tail, split_tail. cbv zeta beta. rewrite classify_loop. unfold ring.
  match goal with |- context [sets_tuple ?X] => generalize X; intro s end.
  unfold sets_tuple. cbn [bind].
  rewrite !zlen_eqb0, !zlen_ltb0.
  destruct isOuter; cbn [andb negb];
    destruct (@length (list pt) (outers s) =? 0)%nat eqn:Eo; destruct (0 <? @length (list pt) (inners s))%nat eqn:Ei;
    destruct (@length (list pt) (inners s) =? 0)%nat eqn:Ei0; destruct (0 <? @length (list pt) (outers s))%nat eqn:Eo0;
    cbn [andb];
    rewrite ?reverse_loop; cbn [bind];
    first [ reflexivity
          | destruct s; reflexivity
          | apply length0_nil in Eo; rewrite Eo; reflexivity
          | apply length0_nil in Ei0; rewrite Ei0; reflexivity ].
Qed.

(** the model's splitRing ends with the regenerated part *)
Theorem splitRing_ends_with_gen_tail (r : ring) (isOuter : bool) (isMulti : pt -> bool) :
  splitRing r isOuter isMulti
  = do r0 <- idx r 0;
    do st <- splitLoop isMulti (zlen (r ++ [r0])) (mkSplit 0 [(0, [])] []) 0 (r ++ [r0]);
    gen_splitRing_tail isOuter (sortComplete (sDone st)).
Proof.
  unfold splitRing. destruct (idx r 0) as [r0 | e]; cbn [bind]; [| reflexivity]. cbv zeta.
  destruct (splitLoop isMulti (zlen (r ++ [r0])) (mkSplit 0 [(0, [])] []) 0 (r ++ [r0])) as [st | e]; cbn [bind];
    [| reflexivity].
  rewrite gen_splitRing_tail_spec. unfold split_tail. cbv zeta.
  set (s := fold_left (classify isOuter) (map snd (sortComplete (sDone st))) (mkSets [] [] [])).
  destruct (isOuter && (length (outers s) =? 0)%nat && (0 <? length (inners s))%nat); [reflexivity |].
  destruct (negb isOuter && (length (inners s) =? 0)%nat && (0 <? length (outers s))%nat); reflexivity.
Qed.
