(** * C04 clause 2 on the class of C18, end to end.

    C18 (Snap/ProofsJoinC18.v): when no routed-and-cleaned ring visits a pixel centre at three positions, every
    cyclic edge of every returned ring is, up to direction, a step between two consecutive centres of the list
    snapClosestPoints returns for one edge of the polygon.  C04 for routed edges (Snap/ProofsGeomTieRoute.v): every
    point between two centres of that list is within half a pixel (Chebyshev, closed) of a point of that edge.
    Composed here for snapPolygon, every requested level, every configuration. *)
From Coq Require Import ZArith QArith Lqa Lia List Bool Permutation.
From Texel Require Import Prelude.Base Index.Model Index.ProofsInsert Index.ProofsLine Index.ProofsGrid
  Index.ProofsRouting Snap.Model Snap.ProofsBasics Snap.ProofsLevel Geom.Polygon Snap.ProofsGeomTieRoute
  Snap.ProofsJoinC18.
From Texel Require Snap.ProofsKmpEdges Snap.ProofsKmpLe2.
Import ListNotations.

(** ** vocabulary of Geom/Polygon ([ring_edges], [edges]) against that of the snap proofs ([dedges], [cedges]) *)
Lemma pairsC_pairs {A} (l : list A) : forall first, pairsC first l = pairs (l ++ [first]).
Proof.
  induction l as [| a l IH]; intro first; [reflexivity |]. cbn [pairsC app]. destruct l as [| b l]; [reflexivity |].
  rewrite IH. reflexivity.
Qed.

Lemma ring_edges_cedges (x : ring) e : In e (ring_edges x) -> In e (cedges x).
Proof.
  destruct x as [| a [| b [| c t]]]; cbn [ring_edges].
  - intros [].
  - intros [].
  - intros [<- | []]. left. reflexivity.
  - intro H. rewrite cedges_dedges by (cbn [length]; lia). unfold dedges. rewrite <- pairsC_pairs. exact H.
Qed.

Lemma dedges_ring_edges (r : ring) a b : (2 <= length r)%nat -> In (a, b) (dedges r) ->
  In (a, b) (ring_edges r) \/ In (b, a) (ring_edges r).
Proof.
  destruct r as [| u [| v [| w t]]]; cbn [length]; intros Hl H; try lia.
  - cbn in H. destruct H as [E | [E | []]]; inversion E; subst; cbn [ring_edges In]; auto.
  - left. cbn [ring_edges]. rewrite pairsC_pairs. exact H.
Qed.

Lemma dedges_rev_In (r : ring) a b : In (a, b) (dedges (rev r)) -> In (b, a) (dedges r).
Proof.
  intro H. apply (Permutation_in _ (dedges_rev r)) in H. apply in_map_iff in H. destruct H as [[u v] [E H]].
  inversion E; subst. exact H.
Qed.

Lemma dedges_pts (x : ring) a b : In (a, b) (dedges x) -> In a x /\ In b x.
Proof.
  unfold dedges. destruct x as [| f t]; [intros [] |]. intro H. apply pairs_In_l in H as [Ha Hb].
  assert (G : forall p, In p ((f :: t) ++ [f]) -> In p (f :: t)).
  { intros p Hp. apply in_app_or in Hp as [Hp | [<- | []]]; [exact Hp | left; reflexivity]. }
  split; apply G; assumption.
Qed.

(** the chain of a degenerate edge a -> a is the single centre of the pixel of a: it has no steps *)
Lemma degenerate_edge_no_steps g P hs a L : (0 < gres g)%Z -> RootCovers g -> insertPolygon g P = Ok hs ->
  In a (concat P) -> (L <= gdeep g)%nat -> pairs (snapClosestPoints g (hotLevels g hs) a a L) = [].
Proof.
  intros Hr C Hi Ha HL.
  destruct (C02_routing_vertices g P hs a a L Hr C Hi Ha Ha HL) as [[Ep [ND _]] [[r1 E1] [[r2 E2] _]]].
  rewrite Ep. destruct r1 as [| q r1]; [rewrite E1; reflexivity |]. exfalso.
  rewrite E1 in ND. inversion ND as [| ? ? Nin _]; subst. apply Nin.
  assert (El : last (route g hs a a L) (0, 0)%Z = pixelOf g L a) by (rewrite E2; apply last_last).
  rewrite E1 in El. change (last (pixelOf g L a :: q :: r1) (0, 0)%Z) with (last (q :: r1) (0, 0)%Z) in El.
  rewrite <- El. clear. generalize q. induction r1 as [| y r1 IH]; intro q0; [left; reflexivity |].
  right. apply IH.
Qed.

(** ** Chebyshev closeness does not care about the direction in which either segment is written *)
Local Open Scope Q_scope.

Lemma cheb_flip_target H p a b t : ChebLe H p (segPt a b t) -> ChebLe H p (segPt b a (1 - t)).
Proof.
  unfold ChebLe, segPt. cbn [fst snd]. intros [X1 [X2 [Y1 Y2]]].
  assert (Ex : co (fst b) (fst a) (1 - t) == co (fst a) (fst b) t) by (unfold co; ring).
  assert (Ey : co (snd b) (snd a) (1 - t) == co (snd a) (snd b) t) by (unfold co; ring).
  rewrite Ex, Ey. auto.
Qed.

Lemma cheb_flip_source H c1 c2 lam q : ChebLe H (between c1 c2 (1 - lam)) q -> ChebLe H (between c2 c1 lam) q.
Proof.
  unfold ChebLe, between. cbn [fst snd]. intros [X1 [X2 [Y1 Y2]]].
  assert (Ex : (1 - lam) * inject_Z (fst c2) + lam * inject_Z (fst c1) ==
               (1 - (1 - lam)) * inject_Z (fst c1) + (1 - lam) * inject_Z (fst c2)) by ring.
  assert (Ey : (1 - lam) * inject_Z (snd c2) + lam * inject_Z (snd c1) ==
               (1 - (1 - lam)) * inject_Z (snd c1) + (1 - lam) * inject_Z (snd c2)) by ring.
  rewrite Ex, Ey. auto.
Qed.

(** the routed chain without the exact-middle hypothesis: half a unit (0.5e-10) more *)
Theorem routed_chain_close_general g P hs a b L c1 c2 lam :
  (0 < gres g)%Z -> RootCovers g -> insertPolygon g P = Ok hs -> In a (concat P) -> In b (concat P) ->
  (L <= gdeep g)%nat ->
  In c1 (snapClosestPoints g (hotLevels g hs) a b L) -> In c2 (snapClosestPoints g (hotLevels g hs) a b L) ->
  0 <= lam -> lam <= 1 ->
  exists t, 0 <= t /\ t <= 1 /\ ChebLe (halfSpan g L + (1 # 2)) (between c1 c2 lam) (segPt a b t).
Proof.
  intros Hr C Hi Ha Hb HL H1 H2 L0 L1.
  destruct (C02_routing_vertices g P hs a b L Hr C Hi Ha Hb HL) as [[Ep [_ [M _]]] _].
  rewrite Ep in H1, H2. apply in_map_iff in H1 as [q1 [<- Q1]]. apply in_map_iff in H2 as [q2 [<- Q2]].
  apply M in Q1 as [_ M1]. apply M in Q2 as [_ M2].
  apply routed_edge_close_general; assumption.
Qed.

(** ** the composition, for a bound [H] that holds for routed chains *)
Section Compose.
  Variables (g : grid) (P : list ring) (hs : hotset) (L : nat) (H : Q).
  Hypothesis Hr : (0 < gres g)%Z.
  Hypothesis C : RootCovers g.
  Hypothesis Hi : insertPolygon g P = Ok hs.
  Hypothesis HL : (L <= gdeep g)%nat.
  Hypothesis chain_close : forall a b c1 c2 lam, In a (concat P) -> In b (concat P) ->
    In c1 (snapClosestPoints g (hotLevels g hs) a b L) -> In c2 (snapClosestPoints g (hotLevels g hs) a b L) ->
    0 <= lam -> lam <= 1 ->
    exists t, 0 <= t /\ t <= 1 /\ ChebLe H (between c1 c2 lam) (segPt a b t).

  Lemma routed_step_close e lam : routed_step g (hotLevels g hs) L P e -> 0 <= lam -> lam <= 1 ->
    exists f t, In f (flat_map ring_edges P) /\ 0 <= t /\ t <= 1 /\
                ChebLe H (between (fst e) (snd e) lam) (segPt (fst f) (snd f) t).
  Proof.
    intros [idx [r [a [b [Hn [Hab Hs]]]]]] L0 L1.
    pose proof (nth_error_In _ _ Hn) as HrP.
    (* the edge of the ring as written in P *)
    assert (Hd : In (a, b) (dedges r) \/ In (b, a) (dedges r)).
    { unfold ensureCorrectWindingOrder in Hab. destruct (windingOrderIsCorrect r _); [left; exact Hab |].
      right. apply dedges_rev_In, Hab. }
    assert (Hpts : In a (concat P) /\ In b (concat P)).
    { assert (G : In a r /\ In b r) by (destruct Hd as [Hd | Hd]; apply dedges_pts in Hd; tauto).
      split; apply in_concat; exists r; tauto. }
    destruct Hpts as [Ha Hb].
    (* a point within H of the segment a b *)
    assert (Hclose : exists t, 0 <= t /\ t <= 1 /\ ChebLe H (between (fst e) (snd e) lam) (segPt a b t)).
    { destruct e as [c1 c2]. cbn [fst snd]. destruct Hs as [Hs | Hs].
      - apply pairs_In_l in Hs as [H1 H2]. apply chain_close; assumption.
      - cbn [swap fst snd] in Hs. apply pairs_In_l in Hs as [H2 H1].
        destruct (chain_close a b c2 c1 (1 - lam) Ha Hb H2 H1 ltac:(lra) ltac:(lra)) as [t [T0 [T1 Ht]]].
        exists t. split; [exact T0 |]. split; [exact T1 |]. apply cheb_flip_source, Ht. }
    destruct Hclose as [t [T0 [T1 Ht]]].
    (* the ring has at least two vertices, otherwise the chain has no steps *)
    assert (Hlen : (2 <= length r)%nat).
    { destruct r as [| u [| v r']]; cbn [length]; try lia.
      - destruct Hd as [[] | []].
      - exfalso. assert (a = u /\ b = u) as [-> ->].
        { destruct Hd as [Hd | Hd]; cbn in Hd; destruct Hd as [E | []]; inversion E; auto. }
        rewrite (degenerate_edge_no_steps g P hs u L Hr C Hi Ha HL) in Hs. destruct Hs as [[] | []]. }
    assert (Hf : In (a, b) (ring_edges r) \/ In (b, a) (ring_edges r)).
    { destruct Hd as [Hd | Hd]; destruct (dedges_ring_edges r _ _ Hlen Hd); auto. }
    destruct Hf as [Hf | Hf].
    - exists (a, b), t. split; [apply in_flat_map; exists r; auto |]. auto.
    - exists (b, a), (1 - t). split; [apply in_flat_map; exists r; auto |].
      split; [lra |]. split; [lra |]. cbn [fst snd]. apply cheb_flip_target, Ht.
  Qed.
End Compose.

(** ** C04 clause 2 on the class: snapPolygon, every requested level, every configuration *)
Definition class_all_levels (g : grid) (P : list ring) (hs : hotset) (levels : list nat) : Prop :=
  forall L idx r c, In L levels -> nth_error P idx = Some r ->
    routedClean g (hotLevels g hs) L idx r = Ok c -> ProofsKmpLe2.le2 c.

Theorem clause2_on_class g P levels cfg res hs : (0 < gres g)%Z -> RootCovers g ->
  (forall L, In L levels -> (L <= gdeep g)%nat) -> insertPolygon g P = Ok hs ->
  class_all_levels g P hs levels -> snapPolygon g P levels cfg = Ok res ->
  forall L ps poly x e lam, In (L, ps) res -> In poly ps -> In x poly -> In e (cedges x) ->
    ExactMiddle g L -> 0 <= lam -> lam <= 1 ->
    exists f t, In f (flat_map ring_edges P) /\ 0 <= t /\ t <= 1 /\
                ChebLe (halfSpan g L) (between (fst e) (snd e) lam) (segPt (fst f) (snd f) t).
Proof.
  intros Hr C HLs Hi Hcl Hs L ps poly x e lam Hin Hpoly Hx He Ex L0 L1.
  assert (HL : In L levels).
  { destruct (ProofsLevelC07.level_value _ _ _ _ _ _ _ Hs Hin) as [_ [_ [HL _]]]. exact HL. }
  apply (routed_step_close g P hs L (halfSpan g L) Hr C Hi (HLs L HL)); [| | exact L0 | exact L1].
  - intros a b c1 c2 lam0 Ha Hb H1 H2 M0 M1.
    exact (routed_chain_close g P hs a b L c1 c2 lam0 Hr C Hi Ha Hb (HLs L HL) Ex H1 H2 M0 M1).
  - exact (snap_edges_routed_steps g P levels cfg res hs Hr C HLs Hi
             (fun L0 HL0 idx r c => Hcl L0 idx r c HL0) Hs L ps poly x e Hin Hpoly Hx He).
Qed.

(** without exact middles (deepest level of a grid with an odd resolution): half a unit more *)
Theorem clause2_on_class_general g P levels cfg res hs : (0 < gres g)%Z -> RootCovers g ->
  (forall L, In L levels -> (L <= gdeep g)%nat) -> insertPolygon g P = Ok hs ->
  class_all_levels g P hs levels -> snapPolygon g P levels cfg = Ok res ->
  forall L ps poly x e lam, In (L, ps) res -> In poly ps -> In x poly -> In e (cedges x) ->
    0 <= lam -> lam <= 1 ->
    exists f t, In f (flat_map ring_edges P) /\ 0 <= t /\ t <= 1 /\
                ChebLe (halfSpan g L + (1 # 2)) (between (fst e) (snd e) lam) (segPt (fst f) (snd f) t).
Proof.
  intros Hr C HLs Hi Hcl Hs L ps poly x e lam Hin Hpoly Hx He L0 L1.
  assert (HL : In L levels).
  { destruct (ProofsLevelC07.level_value _ _ _ _ _ _ _ Hs Hin) as [_ [_ [HL _]]]. exact HL. }
  apply (routed_step_close g P hs L (halfSpan g L + (1 # 2)) Hr C Hi (HLs L HL)); [| | exact L0 | exact L1].
  - intros a b c1 c2 lam0 Ha Hb H1 H2 M0 M1.
    exact (routed_chain_close_general g P hs a b L c1 c2 lam0 Hr C Hi Ha Hb (HLs L HL) H1 H2 M0 M1).
  - exact (snap_edges_routed_steps g P levels cfg res hs Hr C HLs Hi
             (fun L0 HL0 idx r c => Hcl L0 idx r c HL0) Hs L ps poly x e Hin Hpoly Hx He).
Qed.

(** in the vocabulary of [C04_refuted]: every edge of the output ([edges ps], rings taken cyclically) *)
Corollary clause2_on_class_edges g P levels cfg res hs : (0 < gres g)%Z -> RootCovers g ->
  (forall L, In L levels -> (L <= gdeep g)%nat) -> insertPolygon g P = Ok hs ->
  class_all_levels g P hs levels -> snapPolygon g P levels cfg = Ok res ->
  forall L ps e lam, In (L, ps) res -> In e (edges ps) -> ExactMiddle g L -> 0 <= lam -> lam <= 1 ->
    exists f t, In f (flat_map ring_edges P) /\ 0 <= t /\ t <= 1 /\
                ChebLe (halfSpan g L) (between (fst e) (snd e) lam) (segPt (fst f) (snd f) t).
Proof.
  intros Hr C HLs Hi Hcl Hs L ps e lam Hin He Ex L0 L1.
  unfold edges in He. apply in_flat_map in He. destruct He as [poly [Hpoly He]].
  apply in_flat_map in He. destruct He as [x [Hx He]].
  exact (clause2_on_class g P levels cfg res hs Hr C HLs Hi Hcl Hs L ps poly x e lam Hin Hpoly Hx
           (ring_edges_cedges x e He) Ex L0 L1).
Qed.

Print Assumptions clause2_on_class.
Print Assumptions clause2_on_class_general.
Print Assumptions clause2_on_class_edges.
