(** * C01 on routed steps: the deformation argument joined (stage C).

    Two steps of the routed chains of two edges s, t of the indexed polygon that have no common point except possibly
    at end points of both cannot cross properly: move every fragment end point towards the centre of its pixel;
    a proper crossing at time 1 that is not there at time 0 needs a first contact (Geom/DeformR.v, real analysis);
    at a contact an end point lies on the other moving fragment, so (sweep lemma over R, Snap/ProofsSweepR.v) the
    other edge passes through the pixel of that end point between its two consecutive pixels; that pixel is hot, so it
    is one of the two (travel order), and the two steps share an end point: no proper crossing. *)
From Coq Require Import ZArith QArith Qreals Reals Lqa Lra Lia List Bool Sorted Permutation.
From Texel Require Import Prelude.Base Index.Model Index.ProofsInsert Index.ProofsLine Index.ProofsOrder Index.ProofsGrid
  Index.ProofsRouting Snap.Model Snap.ProofsBasics Geom.Cross Geom.Touch Geom.Polygon Geom.DeformR
  Snap.ProofsGeomTieRoute Snap.ProofsSweepR Snap.ProofsJoinC01 Snap.ProofsJoinC01b.
Import ListNotations.

(** ** a hot pixel met between two consecutive pixels of the route is one of the two (rational parameters) *)
Local Open Scope Q_scope.

Lemma hot_pixel_between_consecutive g P hs a b L l1 q1 q2 l2 qd (ta tb m : Q) : (0 < gres g)%Z -> RootCovers g ->
  insertPolygon g P = Ok hs -> In a (concat P) -> In b (concat P) -> (L <= gdeep g)%nat ->
  route g hs a b L = l1 ++ q1 :: q2 :: l2 -> OnSeg a b ta (pixExt g L q1) -> OnSeg a b tb (pixExt g L q2) ->
  In qd (hotAt g hs L) -> OnSeg a b m (pixExt g L qd) -> ta <= m -> m <= tb -> qd = q1 \/ qd = q2.
Proof.
  intros Hr C Hi Ha Hb HL Eq Oa Ob Hhot Om M1 M2.
  destruct (C02_routing_vertices g P hs a b L Hr C Hi Ha Hb HL) as [[_ [ND [M Hs]]] _]. rewrite Eq in *.
  assert (Ind : In qd (l1 ++ q1 :: q2 :: l2)) by (apply M; split; [exact Hhot | exists m; exact Om]).
  apply in_app_or in Ind. destruct Ind as [Hd | [Hd | [Hd | Hd]]]; [| auto | auto |]; exfalso.
  - pose proof (sorted_before_head _ _ _ _ _ Hs Hd) as Bd. pose proof (Bd _ _ Om Oa). Lqa.lra.
  - apply ProofsJoinC01.sorted_app_r in Hs. inversion Hs as [| ? ? Hs2 _]; subst. inversion Hs2 as [| ? ? _ F2]; subst.
    rewrite Forall_forall in F2. pose proof (F2 qd Hd _ _ Ob Om). Lqa.lra.
Qed.

Lemma consecutive_params g P hs a b L l1 q1 q2 l2 : (0 < gres g)%Z -> RootCovers g ->
  insertPolygon g P = Ok hs -> In a (concat P) -> In b (concat P) -> (L <= gdeep g)%nat ->
  route g hs a b L = l1 ++ q1 :: q2 :: l2 ->
  In q1 (hotAt g hs L) /\ In q2 (hotAt g hs L) /\
  exists ta tb, OnSeg a b ta (pixExt g L q1) /\ OnSeg a b tb (pixExt g L q2) /\ ta < tb.
Proof.
  intros Hr C Hi Ha Hb HL Eq.
  destruct (C02_routing_vertices g P hs a b L Hr C Hi Ha Hb HL) as [[_ [ND [M Hs]]] _]. rewrite Eq in *.
  assert (In1 : In q1 (l1 ++ q1 :: q2 :: l2)) by (apply in_or_app; right; left; reflexivity).
  assert (In2 : In q2 (l1 ++ q1 :: q2 :: l2)) by (apply in_or_app; right; right; left; reflexivity).
  destruct (proj1 (M q1) In1) as [H1 [ta Oa]]. destruct (proj1 (M q2) In2) as [H2 [tb Ob]].
  split; [exact H1 |]. split; [exact H2 |]. exists ta, tb. split; [exact Oa |]. split; [exact Ob |].
  apply ProofsJoinC01.sorted_app_r in Hs. inversion Hs as [| ? ? _ F]; subst. inversion F as [| ? ? B12 _]; subst.
  exact (B12 ta tb Oa Ob).
Qed.

(** ** pixels over the reals *)
Local Open Scope R_scope.

(** the box of a pixel relative to its centre, as the model computes them (no assumption that the centre is the
    middle: for an odd pixel size it is half a unit to the left and below) *)
Lemma pixel_box g L q :
  IZR (eminx (pixExt g L q)) = IZR (fst (pixCen g L q)) - IZR (quadSpan g L / 2) /\
  IZR (emaxx (pixExt g L q)) = IZR (fst (pixCen g L q)) + (IZR (quadSpan g L) - IZR (quadSpan g L / 2)) /\
  IZR (eminy (pixExt g L q)) = IZR (snd (pixCen g L q)) - IZR (quadSpan g L / 2) /\
  IZR (emaxy (pixExt g L q)) = IZR (snd (pixCen g L q)) + (IZR (quadSpan g L) - IZR (quadSpan g L / 2)).
Proof.
  unfold pixExt, pixCen, quadExtent, quadCentroid. cbn [eminx emaxx eminy emaxy fst snd].
  set (S := quadSpan g L). set (hS := (S / 2)%Z).
  rewrite !plus_IZR, !mult_IZR, !plus_IZR. repeat split; ring.
Qed.

Lemma PIn_real a b t e : PIn a b t e ->
  IZR (eminx e) <= IZR (fst a) + Q2R t * (IZR (fst b) - IZR (fst a)) /\ IZR (fst a) + Q2R t * (IZR (fst b) - IZR (fst a)) < IZR (emaxx e) /\
  IZR (eminy e) <= IZR (snd a) + Q2R t * (IZR (snd b) - IZR (snd a)) /\ IZR (snd a) + Q2R t * (IZR (snd b) - IZR (snd a)) < IZR (emaxy e).
Proof.
  intros [[X1 X2] [Y1 Y2]]. apply Qle_Rle in X1, Y1. apply Qlt_Rlt in X2, Y2.
  rewrite Q2R_co, Q2R_inject_Z in X1, X2, Y1, Y2. auto.
Qed.

(** the point of the edge a b with (rational) parameter t, as real coordinates *)
Definition rx (a b : pt) (t : Q) : R := IZR (fst a) + Q2R t * (IZR (fst b) - IZR (fst a)).
Definition ry (a b : pt) (t : Q) : R := IZR (snd a) + Q2R t * (IZR (snd b) - IZR (snd a)).

(** ** one contact: the moving point v (from the point of c d with parameter u, in the pixel qd, to the centre of qd)
       lies at time l0 on the moving fragment of a b between the parameters ta (pixel q1) and tb (pixel q2), at mu:
       then a b is inside the pixel qd at a rational parameter between ta and tb *)
Lemma contact_pixel g L a b c d q1 q2 qd (ta tb u : Q) (l0 mu : R) : (0 < gres g)%Z ->
  PIn a b ta (pixExt g L q1) -> PIn a b tb (pixExt g L q2) -> PIn c d u (pixExt g L qd) -> (ta < tb)%Q ->
  0 <= l0 <= 1 -> 0 <= mu <= 1 ->
  (rx c d u + l0 * (IZR (fst (pixCen g L qd)) - rx c d u) =
   (rx a b ta + l0 * (IZR (fst (pixCen g L q1)) - rx a b ta)) +
   mu * ((rx a b tb + l0 * (IZR (fst (pixCen g L q2)) - rx a b tb)) - (rx a b ta + l0 * (IZR (fst (pixCen g L q1)) - rx a b ta)))) ->
  (ry c d u + l0 * (IZR (snd (pixCen g L qd)) - ry c d u) =
   (ry a b ta + l0 * (IZR (snd (pixCen g L q1)) - ry a b ta)) +
   mu * ((ry a b tb + l0 * (IZR (snd (pixCen g L q2)) - ry a b tb)) - (ry a b ta + l0 * (IZR (snd (pixCen g L q1)) - ry a b ta)))) ->
  exists m : Q, (ta <= m /\ m <= tb)%Q /\ PIn a b m (pixExt g L qd).
Proof.
  intros Hr Pa Pb Pv Hlt [L0 L1] [M0 M1] Eqx Eqy.
  destruct (pixel_box g L q1) as [A1 [A2 [A3 A4]]]. destruct (pixel_box g L q2) as [B1 [B2 [B3 B4]]].
  destruct (pixel_box g L qd) as [D1 [D2 [D3 D4]]].
  destruct (PIn_real _ _ _ _ Pa) as [Pa1 [Pa2 [Pa3 Pa4]]]. destruct (PIn_real _ _ _ _ Pb) as [Pb1 [Pb2 [Pb3 Pb4]]].
  destruct (PIn_real _ _ _ _ Pv) as [Pv1 [Pv2 [Pv3 Pv4]]].
  fold (rx a b ta) (ry a b ta) in Pa1, Pa2, Pa3, Pa4. fold (rx a b tb) (ry a b tb) in Pb1, Pb2, Pb3, Pb4.
  fold (rx c d u) (ry c d u) in Pv1, Pv2, Pv3, Pv4.
  set (lo := - IZR (quadSpan g L / 2)) in *. set (hi := IZR (quadSpan g L) - IZR (quadSpan g L / 2)) in *.
  assert (Ex' : (1 - l0) * rx c d u + l0 * IZR (fst (pixCen g L qd)) =
                (1 - mu) * ((1 - l0) * rx a b ta + l0 * IZR (fst (pixCen g L q1))) +
                mu * ((1 - l0) * rx a b tb + l0 * IZR (fst (pixCen g L q2)))).
  { transitivity (rx c d u + l0 * (IZR (fst (pixCen g L qd)) - rx c d u)); [ring | rewrite Eqx; ring]. }
  assert (Ey' : (1 - l0) * ry c d u + l0 * IZR (snd (pixCen g L qd)) =
                (1 - mu) * ((1 - l0) * ry a b ta + l0 * IZR (snd (pixCen g L q1))) +
                mu * ((1 - l0) * ry a b tb + l0 * IZR (snd (pixCen g L q2)))).
  { transitivity (ry c d u + l0 * (IZR (snd (pixCen g L qd)) - ry c d u)); [ring | rewrite Eqy; ring]. }
  destruct (sweep_axis_R lo hi l0 mu (rx a b ta) (rx a b tb) (IZR (fst (pixCen g L q1))) (IZR (fst (pixCen g L q2)))
              (rx c d u) (IZR (fst (pixCen g L qd)))) as [X1 X2]; unfold lo, hi in *; try lra; try exact Ex'.
  destruct (sweep_axis_R lo hi l0 mu (ry a b ta) (ry a b tb) (IZR (snd (pixCen g L q1))) (IZR (snd (pixCen g L q2)))
              (ry c d u) (IZR (snd (pixCen g L qd)))) as [Y1 Y2]; unfold lo, hi in *; try lra; try exact Ey'.
  apply Qlt_Rlt in Hlt.
  set (m := (1 - mu) * Q2R ta + mu * Q2R tb).
  assert (Hp : 0 <= mu * (Q2R tb - Q2R ta)) by (apply Rmult_le_pos; lra).
  assert (Hp' : 0 <= (1 - mu) * (Q2R tb - Q2R ta)) by (apply Rmult_le_pos; lra).
  assert (Ewx : (1 - mu) * rx a b ta + mu * rx a b tb = IZR (fst a) + m * (IZR (fst b) - IZR (fst a))) by (unfold rx, m; ring).
  assert (Ewy : (1 - mu) * ry a b ta + mu * ry a b tb = IZR (snd a) + m * (IZR (snd b) - IZR (snd a))) by (unfold ry, m; ring).
  rewrite Ewx in X1, X2. rewrite Ewy in Y1, Y2.
  assert (Hm1 : Q2R ta <= m) by (unfold m; lra). assert (Hm2 : m <= Q2R tb) by (unfold m; lra). clearbody m.
  apply (rationalize a b (pixExt g L qd) ta tb m); unfold lo, hi in *; lra.
Qed.

(** ** the two edges have no common point except at end points of both (disjoint edges; adjacent edges of a valid ring) *)
Definition touch_only_at_ends (a b c d : pt) : Prop :=
  forall x y : Q, (0 <= x -> x <= 1 -> 0 <= y -> y <= 1 ->
    co (fst a) (fst b) x == co (fst c) (fst d) y -> co (snd a) (snd b) x == co (snd c) (snd d) y ->
    (x == 0 \/ x == 1) /\ (y == 0 \/ y == 1))%Q.

Lemma shared_endpoint_no_cross (a b c d : pt) : (c = a \/ c = b \/ d = a \/ d = b) -> ~ proper_cross a b c d.
Proof.
  intros H [[[H1 H2] | [H1 H2]] [[H3 H4] | [H3 H4]]]; unfold orient3 in *;
    destruct H as [-> | [-> | [-> | ->]]]; lia.
Qed.

Lemma ratl_mult x y : ratl x -> ratl y -> ratl (x * y).
Proof. intros [p ->] [q ->]. exists (p * q)%Q. symmetry. apply Q2R_mult. Qed.

Lemma opposite_real x y : opposite x y -> IZR x * IZR y < 0.
Proof.
  intros [[H1 H2] | [H1 H2]]; apply IZR_lt in H1, H2.
  - assert (0 < IZR x * (- IZR y)) by (apply Rmult_lt_0_compat; lra). lra.
  - assert (0 < (- IZR x) * IZR y) by (apply Rmult_lt_0_compat; lra). lra.
Qed.

Lemma orient3_real a b c :
  IZR (orient3 a b c) = (IZR (fst b) - IZR (fst a)) * (IZR (snd c) - IZR (snd a)) - (IZR (snd b) - IZR (snd a)) * (IZR (fst c) - IZR (fst a)).
Proof. unfold orient3. rewrite minus_IZR, !mult_IZR, !minus_IZR. reflexivity. Qed.

Theorem steps_do_not_cross g P hs a b c d L l1 q1 q2 l2 m1 r1 r2 m2 : (0 < gres g)%Z -> RootCovers g ->
  insertPolygon g P = Ok hs -> In a (concat P) -> In b (concat P) -> In c (concat P) -> In d (concat P) ->
  (L <= gdeep g)%nat ->
  route g hs a b L = l1 ++ q1 :: q2 :: l2 -> route g hs c d L = m1 ++ r1 :: r2 :: m2 ->
  touch_only_at_ends a b c d ->
  ~ proper_cross (pixCen g L q1) (pixCen g L q2) (pixCen g L r1) (pixCen g L r2).
Proof.
  intros Hr C Hi Ha Hb Hc Hd HL Eab Ecd Hst Hx.
  destruct (consecutive_params g P hs a b L l1 q1 q2 l2 Hr C Hi Ha Hb HL Eab) as [Hq1 [Hq2 [ta [tb [Oa [Ob Hab]]]]]].
  destruct (consecutive_params g P hs c d L m1 r1 r2 m2 Hr C Hi Hc Hd HL Ecd) as [Hr1 [Hr2 [ua [ub [Oc [Od Hcd]]]]]].
  pose proof Oa as [Ta0 [Ta1 Pa]]. pose proof Ob as [Tb0 [Tb1 Pb]]. pose proof Oc as [Ua0 [Ua1 Pc]]. pose proof Od as [Ub0 [Ub1 Pd]].
  set (cq1 := pixCen g L q1) in *. set (cq2 := pixCen g L q2) in *. set (cr1 := pixCen g L r1) in *. set (cr2 := pixCen g L r2) in *.
  (* proper crossing at time 1 *)
  assert (P1 : PC (rx a b ta) (ry a b ta) (rx a b tb) (ry a b tb) (rx c d ua) (ry c d ua) (rx c d ub) (ry c d ub)
                  (IZR (fst cq1)) (IZR (snd cq1)) (IZR (fst cq2)) (IZR (snd cq2))
                  (IZR (fst cr1)) (IZR (snd cr1)) (IZR (fst cr2)) (IZR (snd cr2)) 1).
  { assert (E : forall x0 x1, x0 + 1 * (x1 - x0) = x1) by (intros; ring).
    unfold PC, Ax, Ay, Bx, By, Cx, Cy, Dx, Dy. rewrite !E. destruct Hx as [H12 H34].
    apply opposite_real in H12, H34. rewrite !orient3_real in H12, H34.
    apply orient_PCs; unfold o1, o2, o3, o4; lra. }
  (* no proper crossing at time 0: it would be a common point strictly inside the edge a b *)
  assert (NP0 : ~ PC (rx a b ta) (ry a b ta) (rx a b tb) (ry a b tb) (rx c d ua) (ry c d ua) (rx c d ub) (ry c d ub)
                     (IZR (fst cq1)) (IZR (snd cq1)) (IZR (fst cq2)) (IZR (snd cq2))
                     (IZR (fst cr1)) (IZR (snd cr1)) (IZR (fst cr2)) (IZR (snd cr2)) 0).
  { assert (E : forall x0 x1, x0 + 0 * (x1 - x0) = x0) by (intros; ring).
    unfold PC, Ax, Ay, Bx, By, Cx, Cy, Dx, Dy. rewrite !E. intro Hp.
    destruct (PCs_params _ _ _ _ _ _ _ _ Hp) as [Hdet [Hs0 Ht0]]. destruct (cramer _ _ _ _ _ _ _ _ Hdet) as [Cx0 Cy0].
    set (s0 := sn1 (rx a b ta) (ry a b ta) (rx c d ua) (ry c d ua) (rx c d ub) (ry c d ub) /
               sdet (rx a b ta) (ry a b ta) (rx a b tb) (ry a b tb) (rx c d ua) (ry c d ua) (rx c d ub) (ry c d ub)) in *.
    set (t0 := sn2 (rx a b ta) (ry a b ta) (rx a b tb) (ry a b tb) (rx c d ua) (ry c d ua) /
               sdet (rx a b ta) (ry a b ta) (rx a b tb) (ry a b tb) (rx c d ua) (ry c d ua) (rx c d ub) (ry c d ub)) in *.
    assert (Rr : forall p q t, ratl (rx p q t) /\ ratl (ry p q t)).
    { intros p q t. unfold rx, ry. split; (apply ratl_plus; [apply ratl_IZR | apply ratl_mult; [apply ratl_Q | apply ratl_minus; apply ratl_IZR]]). }
    assert (Rs0 : ratl s0).
    { unfold s0. apply ratl_div; [| | exact Hdet]; unfold sn1, sdet;
        repeat (apply ratl_minus || apply ratl_mult || apply Rr). }
    assert (Rt0 : ratl t0).
    { unfold t0. apply ratl_div; [| | exact Hdet]; unfold sn2, sdet;
        repeat (apply ratl_minus || apply ratl_mult || apply Rr). }
    destruct Rs0 as [qs Es]. destruct Rt0 as [qt Et]. rewrite Es in *. rewrite Et in *.
    destruct Hs0 as [S0 S1]. destruct Ht0 as [T0 T1].
    assert (S0' : (0 < qs)%Q) by (apply Rlt_Qlt; replace (Q2R 0) with 0 by (unfold Q2R; cbn; lra); exact S0).
    assert (S1' : (qs < 1)%Q) by (apply Rlt_Qlt; replace (Q2R 1) with 1 by (unfold Q2R; cbn; lra); exact S1).
    assert (T0' : (0 < qt)%Q) by (apply Rlt_Qlt; replace (Q2R 0) with 0 by (unfold Q2R; cbn; lra); exact T0).
    assert (T1' : (qt < 1)%Q) by (apply Rlt_Qlt; replace (Q2R 1) with 1 by (unfold Q2R; cbn; lra); exact T1).
    set (x := (ta + qs * (tb - ta))%Q). set (y := (ua + qt * (ub - ua))%Q).
    assert (Px : (0 < qs * (tb - ta))%Q) by (apply Qmult_lt_0_compat; Lqa.lra).
    assert (Px' : (0 < (1 - qs) * (tb - ta))%Q) by (apply Qmult_lt_0_compat; Lqa.lra).
    assert (Py : (0 < qt * (ub - ua))%Q) by (apply Qmult_lt_0_compat; Lqa.lra).
    assert (Py' : (0 < (1 - qt) * (ub - ua))%Q) by (apply Qmult_lt_0_compat; Lqa.lra).
    assert (Bx : (ta < x /\ x < tb)%Q) by (unfold x; split; Lqa.lra).
    assert (By : (ua < y /\ y < ub)%Q) by (unfold y; split; Lqa.lra).
    assert (Qx : Q2R x = Q2R ta + Q2R qs * (Q2R tb - Q2R ta)) by (unfold x; rewrite Q2R_plus, Q2R_mult, Q2R_minus; reflexivity).
    assert (Qy : Q2R y = Q2R ua + Q2R qt * (Q2R ub - Q2R ua)) by (unfold y; rewrite Q2R_plus, Q2R_mult, Q2R_minus; reflexivity).
    destruct (Hst x y) as [[X0 | X1] _]; try Lqa.lra.
    - apply eqR_Qeq. rewrite !Q2R_co, Qx, Qy. unfold rx in Cx0. lra.
    - apply eqR_Qeq. rewrite !Q2R_co, Qx, Qy. unfold ry in Cy0. lra. }
  destruct (first_contact _ _ _ _ _ _ _ _ _ _ _ _ _ _ _ _ P1 NP0) as [l0 [[L0 L1] Hin]].
  unfold Incid, incid, Ax, Ay, Bx, By, Cx, Cy, Dx, Dy in Hin.
  destruct Hin as [[u [Hu [Ex1 Ey1]]] | [[u [Hu [Ex1 Ey1]]] | [[u [Hu [Ex1 Ey1]]] | [u [Hu [Ex1 Ey1]]]]]].
  - destruct (contact_pixel g L a b c d q1 q2 r1 ta tb ua l0 u Hr Pa Pb Pc Hab ltac:(lra) Hu Ex1 Ey1) as [m [[M1 M2] Pm]].
    assert (Om : OnSeg a b m (pixExt g L r1)) by (split; [Lqa.lra |]; split; [Lqa.lra | exact Pm]).
    destruct (hot_pixel_between_consecutive g P hs a b L l1 q1 q2 l2 r1 ta tb m Hr C Hi Ha Hb HL Eab Oa Ob Hr1 Om M1 M2) as [E | E];
      (apply (shared_endpoint_no_cross cq1 cq2 cr1 cr2); [| exact Hx]; unfold cr1, cr2, cq1, cq2; rewrite E; auto).
  - destruct (contact_pixel g L a b c d q1 q2 r2 ta tb ub l0 u Hr Pa Pb Pd Hab ltac:(lra) Hu Ex1 Ey1) as [m [[M1 M2] Pm]].
    assert (Om : OnSeg a b m (pixExt g L r2)) by (split; [Lqa.lra |]; split; [Lqa.lra | exact Pm]).
    destruct (hot_pixel_between_consecutive g P hs a b L l1 q1 q2 l2 r2 ta tb m Hr C Hi Ha Hb HL Eab Oa Ob Hr2 Om M1 M2) as [E | E];
      (apply (shared_endpoint_no_cross cq1 cq2 cr1 cr2); [| exact Hx]; unfold cr1, cr2, cq1, cq2; rewrite E; auto).
  - destruct (contact_pixel g L c d a b r1 r2 q1 ua ub ta l0 u Hr Pc Pd Pa Hcd ltac:(lra) Hu Ex1 Ey1) as [m [[M1 M2] Pm]].
    assert (Om : OnSeg c d m (pixExt g L q1)) by (split; [Lqa.lra |]; split; [Lqa.lra | exact Pm]).
    destruct (hot_pixel_between_consecutive g P hs c d L m1 r1 r2 m2 q1 ua ub m Hr C Hi Hc Hd HL Ecd Oc Od Hq1 Om M1 M2) as [E | E];
      (apply (shared_endpoint_no_cross cq1 cq2 cr1 cr2); [| exact Hx]; unfold cr1, cr2, cq1, cq2; rewrite E; auto).
  - destruct (contact_pixel g L c d a b r1 r2 q2 ua ub tb l0 u Hr Pc Pd Pb Hcd ltac:(lra) Hu Ex1 Ey1) as [m [[M1 M2] Pm]].
    assert (Om : OnSeg c d m (pixExt g L q2)) by (split; [Lqa.lra |]; split; [Lqa.lra | exact Pm]).
    destruct (hot_pixel_between_consecutive g P hs c d L m1 r1 r2 m2 q2 ua ub m Hr C Hi Hc Hd HL Ecd Oc Od Hq2 Om M1 M2) as [E | E];
      (apply (shared_endpoint_no_cross cq1 cq2 cr1 cr2); [| exact Hx]; unfold cr1, cr2, cq1, cq2; rewrite E; auto).
Qed.

Print Assumptions steps_do_not_cross.
