(** * Tie G2 (loops): kmpTable, kmpSearch, kmpSearchAll REGENERATED from snap.go on every run
      (gen/KmpGen.v) are the hand-written model's functions (Snap/Model.v), on ALL inputs and with
      all outcomes: the value, [Err IndexOutOfRange] / [Err SliceBounds] (Go's run-time panics) and
      [Err OutOfFuel] (the generated loops run on the same fuel as the model's; that this fuel always
      suffices is kmpTable_ok / kmpSearch_ok / kmpSearchAll_ok of Snap/ProofsKmpSearch.v).

    Each generated loop is a Fixpoint over the variables the Go loop assigns, returning [Next state]
    or [Ret v]; the lemma of each loop says that what the function does with that outcome is the
    model's loop function, by induction on the fuel. *)
From Coq Require Import ZArith List Bool Lia.
From Texel Require Import Prelude.Base Prelude.GoLoop Snap.Model.
From Texel.Gen Require Import KmpGen.
Import ListNotations.
Open Scope Z_scope.

(** ** kmpTable *)
Lemma gen_kmpTable_loop1_spec find : forall fuel table pos cnd,
  bind (gen_kmpTable_loop1 find fuel table pos cnd)
       (fun out => match out with Ret r => Ok r | Next (t, _, _) => Ok t end)
  = kmpTableLoop fuel find table pos cnd.
Proof.
  induction fuel as [| fuel IH]; intros table pos cnd; [reflexivity |].
  cbn [gen_kmpTable_loop1 kmpTableLoop]. cbv zeta.
  destruct (pos <? zlen find); [| reflexivity].
  destruct (idx find (pos - 1)) as [a | e]; cbn [bind]; [| reflexivity].
  destruct (idx find cnd) as [b | e]; cbn [bind]; [| reflexivity].
  destruct (pt_eqb a b).
  - destruct (setidx table pos (cnd + 1)) as [t | e]; cbn [bind]; [apply IH | reflexivity].
  - destruct (0 <? cnd).
    + destruct (idx table cnd) as [c | e]; cbn [bind]; [apply IH | reflexivity].
    + destruct (setidx table pos 0) as [t | e]; cbn [bind]; [apply IH | reflexivity].
Qed.

Theorem gen_kmpTable_spec find table : gen_kmpTable find table = kmpTable find table.
Proof.
  unfold gen_kmpTable, kmpTable. cbv zeta.
  destruct (setidx table 0 (-1)) as [t0 | e]; cbn [bind]; [| reflexivity].
  destruct (setidx t0 1 0) as [t1 | e]; cbn [bind]; [| reflexivity].
  apply gen_kmpTable_loop1_spec.
Qed.

(** ** kmpSearch *)
Lemma gen_kmpSearch_loop1_spec corpus find table : forall fuel m i,
  bind (gen_kmpSearch_loop1 corpus find table fuel m i)
       (fun out => match out with Ret r => Ok r | Next (_, _) => Ok (zlen corpus) end)
  = kmpSearchLoop fuel corpus find table m i.
Proof.
  induction fuel as [| fuel IH]; intros m i; [reflexivity |].
  cbn [gen_kmpSearch_loop1 kmpSearchLoop]. cbv zeta.
  destruct (m + i <? zlen corpus); [| reflexivity].
  destruct (idx find i) as [a | e]; cbn [bind]; [| reflexivity].
  destruct (idx corpus (m + i)) as [b | e]; cbn [bind]; [| reflexivity].
  destruct (pt_eqb a b).
  - destruct (i =? zlen find - 1); [reflexivity | apply IH].
  - destruct (idx table i) as [ti | e]; cbn [bind]; [| reflexivity].
    destruct (-1 <? ti); [| apply IH].
    destruct (idx table ti) as [ti' | e]; cbn [bind]; [apply IH | reflexivity].
Qed.

Lemma make_len (n : nat) : Z.to_nat (Z.max (Z.of_nat n) 2) = Nat.max n 2.
Proof. lia. Qed.

Theorem gen_kmpSearch_spec corpus find : gen_kmpSearch corpus find = kmpSearch corpus find.
Proof.
  unfold gen_kmpSearch, kmpSearch. cbv zeta. unfold zlen at 1. rewrite make_len, gen_kmpTable_spec.
  destruct (kmpTable find (repeat 0 (Nat.max (length corpus) 2))) as [t | e]; cbn [bind]; [| reflexivity].
  apply gen_kmpSearch_loop1_spec.
Qed.

(** ** kmpSearchAll *)
Lemma gen_kmpSearchAll_loop1_spec find : forall fuel corpus matches offset,
  bind (gen_kmpSearchAll_loop1 find fuel corpus matches offset)
       (fun out => match out with Ret r => Ok r | Next (_, ms, _) => Ok ms end)
  = kmpSearchAllLoop fuel corpus find offset matches.
Proof.
  induction fuel as [| fuel IH]; intros corpus matches offset; [reflexivity |].
  cbn [gen_kmpSearchAll_loop1 kmpSearchAllLoop]. cbv zeta. rewrite gen_kmpSearch_spec.
  destruct (kmpSearch corpus find) as [m | e]; cbn [bind]; [| reflexivity].
  destruct (m =? zlen corpus); [reflexivity |].
  destruct (slice corpus (m + zlen find) (zlen corpus)) as [rest | e]; cbn [bind]; [| reflexivity].
  destruct (zlen rest <? zlen find); [reflexivity |].
  rewrite IH. f_equal. lia.
Qed.

Theorem gen_kmpSearchAll_spec corpus find : gen_kmpSearchAll corpus find = kmpSearchAll corpus find.
Proof. unfold gen_kmpSearchAll, kmpSearchAll. cbv zeta. apply gen_kmpSearchAll_loop1_spec. Qed.
