(** * dedupeInnersOuters cancels shells against identical holes (C18): what is deleted is a family of
      outer rings and a family of inner rings carrying exactly opposite directed edges.
      Rings equal to each other among the outers only (or among the inners only) are NOT deleted. *)
From Coq Require Import ZArith List Bool Lia Permutation.
From Texel Require Import Prelude.Base Index.Model Snap.Model Snap.ProofsBasics Snap.ProofsSplit
  Snap.ProofsSplitRefine Snap.ProofsSplitThms Snap.ProofsDedupe.
Import ListNotations.
Open Scope Z_scope.

(** ** rotations *)
Lemma list_eq_nth {A} (l l' : list A) : length l = length l' ->
  (forall k, (k < length l)%nat -> nth_error l k = nth_error l' k) -> l = l'.
Proof.
  revert l'. induction l as [| a l IH]; intros [| b l'] Hl H; cbn [length] in Hl; try discriminate; [reflexivity |].
  pose proof (H 0%nat ltac:(cbn [length]; lia)) as H0. cbn in H0. inversion H0; subst. f_equal.
  apply IH; [lia |]. intros k Hk. apply (H (S k)). cbn [length]. lia.
Qed.

Lemma nth_skipn {A} (l : list A) : forall n k, nth_error (skipn n l) k = nth_error l (n + k).
Proof.
  induction l as [| a l IH]; intros [| n] k; cbn [skipn Nat.add]; try reflexivity.
  - destruct k; reflexivity.
  - rewrite IH. reflexivity.
Qed.

Lemma nth_firstn {A} (l : list A) : forall n k, (k < n)%nat -> nth_error (firstn n l) k = nth_error l k.
Proof.
  induction l as [| a l IH]; intros [| n] k Hk; try lia; cbn [firstn]; [destruct k; reflexivity |].
  destruct k as [| k]; [reflexivity |]. cbn [nth_error]. apply IH. lia.
Qed.

Lemma rot_nat {A} (I J : list A) n ix : length I = n -> length J = n -> (ix < n)%nat ->
  (forall k, (k < n)%nat -> nth_error I k = nth_error J ((ix + k) mod n)) ->
  I = skipn ix J ++ firstn ix J.
Proof.
  intros HI HJ Hix H. apply list_eq_nth.
  - rewrite app_length, skipn_length, firstn_length. lia.
  - intros k Hk. rewrite HI in Hk. rewrite (H k Hk).
    destruct (Nat.lt_ge_cases k (n - ix)) as [Hlt | Hge].
    + rewrite Nat.mod_small by lia. rewrite nth_error_app1 by (rewrite skipn_length; lia).
      rewrite nth_skipn. reflexivity.
    + assert (Em : ((ix + k) mod n = ix + k - n)%nat).
      { symmetry. apply (Nat.mod_unique (ix + k) n 1 (ix + k - n)); lia. }
      rewrite Em. rewrite nth_error_app2 by (rewrite skipn_length; lia). rewrite skipn_length.
      rewrite nth_firstn by lia. f_equal. lia.
Qed.

Lemma pairs_app2 (A B : list pt) : A <> [] -> B <> [] ->
  pairs (A ++ B) = pairs A ++ [(last A dp, hd dp B)] ++ pairs B.
Proof.
  intros HA HB. destruct B as [| b B]; [congruence |]. rewrite pairs_app, pairs_snoc1 by exact HA.
  cbn [hd]. rewrite <- app_assoc. reflexivity.
Qed.

Lemma dedges_alt (l : ring) : l <> [] -> dedges l = pairs l ++ [(last l dp, hd dp l)].
Proof. intro H. destruct l as [| a l]; [congruence |]. unfold dedges. rewrite pairs_snoc1 by discriminate. reflexivity. Qed.

Lemma dedges_app_comm (A B : list pt) : Permutation (dedges (B ++ A)) (dedges (A ++ B)).
Proof.
  destruct A as [| a A]; [rewrite app_nil_r; apply Permutation_refl |].
  destruct B as [| b B]; [rewrite app_nil_r; apply Permutation_refl |].
  rewrite !dedges_alt by discriminate. rewrite !pairs_app2 by discriminate.
  rewrite !last_app_ne by discriminate. rewrite !hd_app by discriminate. perm_count.
Qed.

Lemma dedges_rot (J : ring) ix : Permutation (dedges (skipn ix J ++ firstn ix J)) (dedges J).
Proof. rewrite <- (firstn_skipn ix J) at 3. apply dedges_app_comm. Qed.

Lemma nth_error_rev' {A} (l : list A) : forall k, (k < length l)%nat ->
  nth_error (rev l) k = nth_error l (length l - S k).
Proof.
  induction l as [| a l IH] using rev_ind; intros k Hk; [cbn in Hk; lia |].
  rewrite rev_unit, app_length in *. cbn [length] in *. destruct k as [| k].
  - cbn [nth_error]. rewrite nth_error_app2 by lia. replace (length l + 1 - 1 - length l)%nat with 0%nat by lia. reflexivity.
  - cbn [nth_error]. rewrite IH by lia. rewrite nth_error_app1 by lia. f_equal. lia.
Qed.

(** ** ringsAreEqual *)
Lemma idx_nth {A} (l : list A) z a : idx l z = Ok a -> 0 <= z /\ nth_error l (Z.to_nat z) = Some a.
Proof.
  unfold idx. destruct (Z.ltb_spec z 0) as [H | H]; [discriminate |].
  destruct (nth_error l (Z.to_nat z)) eqn:E; [| discriminate]. intro X; inversion X; subst. auto.
Qed.

Definition eq_edges (I J : ring) (different : bool) : Prop :=
  Permutation (dedges I) (if different then map swap (dedges J) else dedges J).

Lemma ringsAreEqual_edges I J io jo : ringsAreEqual I J io jo = Ok true -> eq_edges I J (io && negb jo).
Proof.
  unfold ringsAreEqual. cbn zeta. destruct (Z.eqb_spec (zlen I) (zlen J)) as [En | Nn]; cbn [negb]; [| discriminate].
  intro H. bind_inv H i0 Hi0.
  match type of H with context [if (?f J 0 <? 0) then _ else _] => set (index := f) in H end.
  assert (Hindex : forall l k, index l k = -1 \/ k <= index l k < k + zlen l).
  { induction l as [| p l IHl]; intro k; cbn; [left; reflexivity |].
    destruct (pt_eqb p i0); [right; unfold zlen; cbn [length]; lia |].
    destruct (IHl (k + 1)) as [E | E]; [left; exact E | right; unfold zlen in *; cbn [length]; lia]. }
  set (ix := index J 0) in *. destruct (Z.ltb_spec ix 0) as [Hneg | Hpos]; [discriminate |].
  destruct (Hindex J 0) as [E | Hix]; [fold ix in E; lia |]. fold ix in Hix.
  set (n := zlen I) in *. set (d := io && negb jo) in *.
  match type of H with ?f I 0 = _ => set (loop := f) in H end.
  assert (Hloop : forall l k, loop l k = Ok true -> forall m, (m < length l)%nat ->
            nth_error l m = nth_error J (Z.to_nat (if d then (ix + n - (k + Z.of_nat m)) mod n else (ix + (k + Z.of_nat m)) mod n))).
  { induction l as [| p l IHl]; intros k Hl m Hm; cbn [length] in Hm; [lia |].
    cbn in Hl. bind_inv Hl q Hq. destruct (pt_eqb_spec p q) as [Epq | Npq]; [| discriminate]. subst q.
    destruct m as [| m].
    - cbn [nth_error]. apply idx_nth in Hq. destruct Hq as [_ Hq]. rewrite Z.add_0_r. symmetry. exact Hq.
    - cbn [nth_error]. rewrite (IHl (k + 1) Hl m ltac:(lia)). f_equal. f_equal.
      destruct d; f_equal; lia. }
  pose proof (Hloop I 0 H) as HI. clear Hloop H.
  assert (Hn : 0 < n).
  { apply idx_0 in Hi0. destruct Hi0 as [t ->]. unfold n, zlen. cbn [length]. lia. }
  assert (HlenI : length I = Z.to_nat n) by (unfold n, zlen; lia).
  assert (HlenJ : length J = Z.to_nat n) by (unfold n in *; unfold zlen in *; lia).
  unfold eq_edges. destruct d.
  - (* reversed: rev I is a rotation of J *)
    assert (Er : rev I = skipn (Z.to_nat ((ix + 1) mod n)) J ++ firstn (Z.to_nat ((ix + 1) mod n)) J).
    { apply (rot_nat (rev I) J (Z.to_nat n)); [rewrite rev_length; exact HlenI | exact HlenJ | |].
      - pose proof (Z.mod_pos_bound (ix + 1) n Hn). lia.
      - intros k Hk. rewrite nth_error_rev' by lia. rewrite HlenI.
        rewrite (HI (Z.to_nat n - S k)%nat) by lia. f_equal.
        rewrite Z.add_0_l. rewrite Nat2Z.inj_sub by lia. rewrite Nat2Z.inj_succ, Z2Nat.id by lia.
        assert (Ek : ((Z.to_nat ((ix + 1) mod n) + k) mod Z.to_nat n)%nat = Z.to_nat (((ix + 1) mod n + Z.of_nat k) mod n)).
        { rewrite <- (Nat2Z.id ((Z.to_nat ((ix + 1) mod n) + k) mod Z.to_nat n)).
          f_equal. rewrite Nat2Z.inj_mod, Nat2Z.inj_add, !Z2Nat.id; try lia.
          pose proof (Z.mod_pos_bound (ix + 1) n Hn). lia. }
        rewrite Ek. f_equal. rewrite Zplus_mod_idemp_l. f_equal. lia. }
    pose proof (dedges_rot J (Z.to_nat ((ix + 1) mod n))) as Pr. rewrite <- Er in Pr.
    pose proof (dedges_rev (rev I)) as Pv. rewrite rev_involutive in Pv.
    eapply Permutation_trans; [exact Pv |]. apply Permutation_map, Pr.
  - assert (Er : I = skipn (Z.to_nat ix) J ++ firstn (Z.to_nat ix) J).
    { apply (rot_nat I J (Z.to_nat n)); [exact HlenI | exact HlenJ | unfold n in *; unfold zlen in *; lia |].
      intros k Hk. rewrite (HI k) by lia. f_equal. rewrite Z.add_0_l.
      rewrite <- (Nat2Z.id ((Z.to_nat ix + k) mod Z.to_nat n)). f_equal.
      rewrite Nat2Z.inj_mod, Nat2Z.inj_add, !Z2Nat.id; lia. }
    rewrite Er at 1. apply dedges_rot.
Qed.

(** ** the selection of what to delete among equal rings *)
Fixpoint sel (eqs : list (Z * bool)) (dO dI : Z) : list (Z * bool) :=
  match eqs with
  | [] => []
  | e :: r => if snd e && (0 <? dO) then e :: sel r (dO - 1) dI
              else if negb (snd e) && (0 <? dI) then e :: sel r dO (dI - 1)
              else sel r dO dI
  end.

Lemma tup4 {A B C D} (a a' : A) (b b' : B) (c c' : C) (d d' : D) :
  a = a' -> b = b' -> c = c' -> d = d' -> (a, b, c, d) = (a', b', c', d').
Proof. intros; subst; reflexivity. Qed.

Lemma del_fold eqs : forall p d dO dI,
  fold_left (fun (acc : list Z * list Z * Z * Z) (e : Z * bool) =>
               let '(p, d, dO, dI) := acc in
               if snd e && (0 <? dO) then (p ++ [fst e], d ++ [fst e], dO - 1, dI)
               else if negb (snd e) && (0 <? dI) then (p ++ [fst e], d ++ [fst e], dO, dI - 1)
               else (p ++ [fst e], d, dO, dI)) eqs (p, d, dO, dI)
  = (p ++ map fst eqs, d ++ map fst (sel eqs dO dI),
     dO - zlen (filter (fun e => snd e) (sel eqs dO dI)),
     dI - zlen (filter (fun e => negb (snd e)) (sel eqs dO dI))).
Proof.
  induction eqs as [| e r IH]; intros p d dO dI; cbn [fold_left sel map filter].
  - rewrite !app_nil_r. unfold zlen. cbn [length]. rewrite !Z.sub_0_r. reflexivity.
  - destruct (snd e) eqn:Se; cbn [andb negb].
    + destruct (0 <? dO) eqn:Hd.
      * rewrite IH. cbn [map filter]. rewrite Se. cbn [negb]. rewrite <- !app_assoc. cbn [app].
        unfold zlen. cbn [length]. apply tup4; try reflexivity; lia.
      * rewrite IH. rewrite <- app_assoc. reflexivity.
    + destruct (0 <? dI) eqn:Hd.
      * rewrite IH. cbn [map filter]. rewrite Se. cbn [negb]. rewrite <- !app_assoc. cbn [app].
        unfold zlen. cbn [length]. apply tup4; try reflexivity; lia.
      * rewrite IH. rewrite <- app_assoc. reflexivity.
Qed.

Lemma sel_subseq eqs : forall dO dI, subseq (sel eqs dO dI) eqs.
Proof.
  induction eqs as [| e r IH]; intros dO dI; cbn [sel]; [constructor |].
  destruct (snd e && (0 <? dO)); [apply sub_keep, IH |].
  destruct (negb (snd e) && (0 <? dI)); [apply sub_keep, IH | apply sub_skip, IH].
Qed.

Definition nOut (eqs : list (Z * bool)) : Z := zlen (filter (fun e => snd e) eqs).
Definition nIn (eqs : list (Z * bool)) : Z := zlen (filter (fun e => negb (snd e)) eqs).

Lemma sel_counts eqs : forall dO dI, 0 <= dO <= nOut eqs -> 0 <= dI <= nIn eqs ->
  nOut (sel eqs dO dI) = dO /\ nIn (sel eqs dO dI) = dI.
Proof.
  unfold nOut, nIn, zlen. induction eqs as [| e r IH]; intros dO dI HO HI; cbn [sel filter length] in *; [lia |].
  destruct (snd e) eqn:Se; cbn [andb negb] in *; cbn [length] in *.
  - destruct (Z.ltb_spec 0 dO) as [Hd | Hd].
    + cbn [filter]. rewrite Se. cbn [negb length]. destruct (IH (dO - 1) dI) as [E1 E2]; lia.
    + apply IH; lia.
  - destruct (Z.ltb_spec 0 dI) as [Hd | Hd].
    + cbn [filter]. rewrite Se. cbn [negb length]. destruct (IH dO (dI - 1)) as [E1 E2]; lia.
    + apply IH; lia.
Qed.

(** ** rings that all carry the same edges *)
Lemma all_like (E : list (pt * pt)) (rs : list ring) :
  Forall (fun r => Permutation (dedges r) E) rs ->
  Permutation (all_dedges rs) (concat (repeat E (length rs))).
Proof.
  induction 1 as [| r rs Hr F IH]; [constructor |]. unfold all_dedges in *. cbn [map concat length repeat].
  apply Permutation_app; assumption.
Qed.

Lemma concat_repeat_swap (E : list (pt * pt)) m :
  concat (repeat (map swap E) m) = map swap (concat (repeat E m)).
Proof. induction m as [| m IH]; [reflexivity |]. cbn [repeat concat]. rewrite map_app, IH. reflexivity. Qed.

Lemma swap_swap (E : list (pt * pt)) : map swap (map swap E) = E.
Proof. rewrite map_map. rewrite (map_ext _ (fun x => x)); [apply map_id |]. intros [a b]. reflexivity. Qed.

(** ** deleting by index *)
Fixpoint del_idx {A} (l : list A) (k : Z) (del : list Z) : list A :=
  match l with
  | [] => []
  | a :: r => if mem_Z k del then a :: del_idx r (k + 1) del else del_idx r (k + 1) del
  end.

Lemma filter_del_perm {A} (l : list A) : forall k del, Permutation l (filter_idx l k del ++ del_idx l k del).
Proof.
  induction l as [| a l IH]; intros k del; cbn [filter_idx del_idx]; [constructor |].
  destruct (mem_Z k del).
  - apply Permutation_cons_app. apply IH.
  - change (Permutation (a :: l) (a :: (filter_idx l (k + 1) del ++ del_idx l (k + 1) del))).
    apply perm_skip. apply IH.
Qed.

Definition inrange (k len j : Z) : bool := (k <=? j) && (j <? k + len).

Lemma del_idx_nil {A} (l : list A) : forall k, del_idx l k [] = [].
Proof. induction l as [| a l IH]; intro k; cbn [del_idx mem_Z existsb]; [reflexivity | apply IH]. Qed.

Lemma del_idx_cons (l : list ring) : forall k j D, ~ In j D ->
  Permutation (del_idx l k (j :: D))
              ((if inrange k (zlen l) j then [nth (Z.to_nat (j - k)) l []] else []) ++ del_idx l k D).
Proof.
  induction l as [| a l IH]; intros k j D Hn.
  - cbn [del_idx]. unfold inrange, zlen. cbn [length]. change (Z.of_nat 0) with 0.
    destruct ((k <=? j) && (j <? k + 0)) eqn:E; [| apply perm_nil].
    apply andb_prop in E. destruct E as [E1 E2]. apply Z.leb_le in E1. apply Z.ltb_lt in E2. lia.
  - cbn [del_idx]. unfold mem_Z at 1. cbn [existsb]. fold (mem_Z k D).
    specialize (IH (k + 1) j D Hn). unfold inrange, zlen in *. cbn [length].
    destruct (Z.eqb_spec k j) as [E | N].
    + subst j. cbn [orb].
      assert (M : mem_Z k D = false). { destruct (mem_Z k D) eqn:M; [| reflexivity]. apply mem_Z_In in M. contradiction. }
      rewrite M.
      replace ((k + 1 <=? k) && (k <? k + 1 + Z.of_nat (length l))) with false in IH
        by (symmetry; apply andb_false_iff; left; apply Z.leb_gt; lia).
      replace ((k <=? k) && (k <? k + Z.of_nat (S (length l)))) with true
        by (symmetry; apply andb_true_iff; split; [apply Z.leb_le | apply Z.ltb_lt]; lia).
      rewrite Z.sub_diag. cbn [Z.to_nat nth app] in *. apply perm_skip, IH.
    + cbn [orb].
      assert (Er : (k <=? j) && (j <? k + Z.of_nat (S (length l))) = (k + 1 <=? j) && (j <? k + 1 + Z.of_nat (length l))).
      { destruct (Z.leb_spec k j), (Z.leb_spec (k + 1) j), (Z.ltb_spec j (k + Z.of_nat (S (length l)))),
                 (Z.ltb_spec j (k + 1 + Z.of_nat (length l))); try reflexivity; lia. }
      rewrite Er.
      assert (En : (k + 1 <=? j) && (j <? k + 1 + Z.of_nat (length l)) = true ->
                   nth (Z.to_nat (j - k)) (a :: l) [] = nth (Z.to_nat (j - (k + 1))) l []).
      { intro Hr. apply andb_prop in Hr. destruct Hr as [H1 _]. apply Z.leb_le in H1.
        replace (Z.to_nat (j - k)) with (S (Z.to_nat (j - (k + 1)))) by lia. reflexivity. }
      destruct ((k + 1 <=? j) && (j <? k + 1 + Z.of_nat (length l))) eqn:Hr.
      * rewrite (En eq_refl). destruct (mem_Z k D).
        -- eapply Permutation_trans; [apply perm_skip, IH |]. cbn [app]. apply perm_swap.
        -- exact IH.
      * destruct (mem_Z k D); [cbn [app] in *; apply perm_skip, IH | exact IH].
Qed.

Lemma del_idx_rings (l : list ring) k D : NoDup D ->
  Permutation (del_idx l k D) (map (fun j => nth (Z.to_nat (j - k)) l []) (filter (inrange k (zlen l)) D)).
Proof.
  induction 1 as [| j D Hn ND IH]; [rewrite del_idx_nil; constructor |].
  eapply Permutation_trans; [apply del_idx_cons, Hn |]. cbn [filter].
  destruct (inrange k (zlen l) j); cbn [map app]; [apply perm_skip, IH | exact IH].
Qed.

(** ** dedupeStep *)
Section Dedupe.
  Variables outs ins : list ring.
  Let lenO : Z := zlen outs.
  Let lenAll : Z := zlen outs + zlen ins.

  Definition ringAt (j : Z) : ring := nth (Z.to_nat j) (outs ++ ins) [].
  Definition isO (j : Z) : bool := j <? zlen outs.

  Lemma idx_nth_default (l : list ring) z r : idx l z = Ok r -> 0 <= z < zlen l /\ r = nth (Z.to_nat z) l [].
  Proof.
    intro H. apply idx_nth in H. destruct H as [H0 H].
    assert (Hl : (Z.to_nat z < length l)%nat) by (apply nth_error_Some; congruence).
    split; [unfold zlen; lia |]. symmetry. apply nth_error_nth. exact H.
  Qed.

  Lemma ringOf_spec j r : (if j <? zlen outs then idx outs j else idx ins (j - zlen outs)) = Ok r ->
    0 <= j < lenAll /\ r = ringAt j.
  Proof.
    unfold ringAt, lenAll. destruct (Z.ltb_spec j (zlen outs)) as [Hl | Hl]; intro H; apply idx_nth_default in H; destruct H as [Hr ->].
    - split; [unfold zlen in *; lia |]. rewrite app_nth1 by (unfold zlen in *; lia). reflexivity.
    - split; [unfold zlen in *; lia |]. rewrite app_nth2 by (unfold zlen in *; lia). f_equal. unfold zlen in *. lia.
  Qed.

  Definition good_eq (processed : list Z) (ringI : ring) (io : bool) (e : Z * bool) : Prop :=
    mem_Z (fst e) processed = false /\ snd e = isO (fst e) /\ 0 <= fst e < lenAll /\
    ringsAreEqual ringI (ringAt (fst e)) io (snd e) = Ok true.

  Lemma equals_fold processed ringI io js : forall acc eqs,
    foldM (fun acc j =>
             if mem_Z j processed then Ok acc
             else do ringJ <- (if j <? zlen outs then idx outs j else idx ins (j - zlen outs));
                  do e <- ringsAreEqual ringI ringJ io (j <? zlen outs);
                  Ok (if e then acc ++ [(j, j <? zlen outs)] else acc)) js acc = Ok eqs ->
    exists E, eqs = acc ++ E /\ Forall (good_eq processed ringI io) E /\ subseq (map fst E) js.
  Proof.
    induction js as [| j js IH]; intros acc eqs H; cbn [foldM] in H.
    - inversion H; subst. exists []. rewrite app_nil_r. repeat split; constructor.
    - bind_inv H acc1 H1. destruct (IH _ _ H) as [E [-> [F S]]].
      destruct (mem_Z j processed) eqn:M.
      + inversion H1; subst. exists E. repeat split; [exact F | apply sub_skip, S].
      + bind_inv H1 ringJ HJ. bind_inv H1 e He. inversion H1; subst. apply ringOf_spec in HJ. destruct HJ as [Hr ->].
        destruct e.
        * exists ((j, j <? zlen outs) :: E). rewrite <- app_assoc. split; [reflexivity |]. split.
          -- constructor; [| exact F]. unfold good_eq, isO. cbn [fst snd]. auto.
          -- cbn [map fst]. apply sub_keep, S.
        * exists E. repeat split; [exact F | apply sub_skip, S].
  Qed.

  (** what one step does to (processed, toDelete) *)
  Lemma dedupeStep_spec p d i p' d' : dedupeStep outs ins (p, d) i = Ok (p', d') -> 0 <= i ->
    (p' = p /\ d' = d) \/
    (exists E m, let eqs := (i, isO i) :: E in
       mem_Z i p = false /\ i < lenAll /\
       Forall (good_eq p (ringAt i) (isO i)) E /\
       subseq (map fst E) (map (fun k => i + 1 + Z.of_nat k) (seq 0 (Z.to_nat (lenAll - i - 1)))) /\
       p' = p ++ map fst eqs /\ d' = d ++ map fst (sel eqs m m) /\
       0 <= m <= nOut eqs /\ m <= nIn eqs).
  Proof.
    intros H Hi. unfold dedupeStep in H. destruct (mem_Z i p) eqn:M; [inversion H; auto |].
    bind_inv H ringI HI. apply ringOf_spec in HI. destruct HI as [Hr ->].
    bind_inv H eqs He. apply equals_fold in He. destruct He as [E [-> [F S]]]. cbn [app] in H.
    destruct (Nat.leb (length ((i, i <? zlen outs) :: E)) 1); [inversion H; auto |].
    fold (isO i) in *. set (eqs := (i, isO i) :: E) in *.
    fold (nOut eqs) in H. fold (nIn eqs) in H.
    set (dO := if nOut eqs =? nIn eqs then nOut eqs - 1 else Z.min (nOut eqs) (nIn eqs)) in *.
    set (dI := if nOut eqs =? nIn eqs then nIn eqs - 1 else Z.min (nOut eqs) (nIn eqs)) in *.
    rewrite del_fold in H. inversion H; subst p' d'. right.
    assert (HnO : 0 <= nOut eqs) by (unfold nOut, zlen; lia).
    assert (HnI : 0 <= nIn eqs) by (unfold nIn, zlen; lia).
    assert (Hsum : 1 <= nOut eqs + nIn eqs).
    { unfold nOut, nIn, zlen, eqs. cbn [filter]. destruct (snd (i, isO i)); cbn [negb length]; lia. }
    assert (Ed : dI = dO). { unfold dO, dI. destruct (Z.eqb_spec (nOut eqs) (nIn eqs)); lia. }
    exists E, dO. cbn zeta. fold eqs. rewrite Ed. repeat split; try assumption; try lia.
    - unfold dO. destruct (Z.eqb_spec (nOut eqs) (nIn eqs)); lia.
    - unfold dO. destruct (Z.eqb_spec (nOut eqs) (nIn eqs)); lia.
    - unfold dO. destruct (Z.eqb_spec (nOut eqs) (nIn eqs)); lia.
  Qed.
End Dedupe.

(** ** the invariant of the outer loop *)
Definition balanced (outs ins : list ring) (d : list Z) : Prop :=
  Permutation (all_dedges (map (ringAt outs ins) (filter (fun j => negb (isO outs j)) d)))
              (map swap (all_dedges (map (ringAt outs ins) (filter (isO outs) d)))).

Record dinv (outs ins : list ring) (p d : list Z) : Prop := mkDinv {
  di_incl : incl d p;
  di_range : Forall (fun j => 0 <= j < zlen outs + zlen ins) d;
  di_nodup : NoDup d;
  di_bal : balanced outs ins d }.

Lemma NoDup_app_intro {A} (a b : list A) : NoDup a -> NoDup b -> (forall x, In x a -> ~ In x b) -> NoDup (a ++ b).
Proof.
  induction a as [| x a IH]; intros Na Nb Hd; [exact Nb |]. cbn [app]. inversion Na as [| ? ? Hx Na']; subst.
  constructor.
  - intro H. apply in_app_or in H. destruct H as [H | H]; [exact (Hx H) | apply (Hd x (or_introl eq_refl) H)].
  - apply IH; [exact Na' | exact Nb |]. intros y Hy. apply Hd. right. exact Hy.
Qed.

Lemma filter_map_fst (f : Z -> bool) (S : list (Z * bool)) : Forall (fun e => snd e = f (fst e)) S ->
  filter f (map fst S) = map fst (filter (fun e => snd e) S) /\
  filter (fun j => negb (f j)) (map fst S) = map fst (filter (fun e => negb (snd e)) S).
Proof.
  induction 1 as [| e S He F [IH1 IH2]]; [split; reflexivity |]. cbn [map filter]. rewrite <- He.
  destruct (snd e); cbn [negb map]; rewrite IH1, IH2; split; reflexivity.
Qed.

Lemma js_props i n : let js := map (fun k => i + 1 + Z.of_nat k) (seq 0 n) in
  NoDup js /\ Forall (fun j => i < j) js.
Proof.
  cbn zeta. split.
  - apply FinFun.Injective_map_NoDup; [| apply seq_NoDup]. intros a b H. lia.
  - rewrite Forall_forall. intros j Hj. apply in_map_iff in Hj. destruct Hj as [k [<- _]]. lia.
Qed.

Lemma dedupeStep_inv outs ins p d i p' d' : dinv outs ins p d -> 0 <= i ->
  dedupeStep outs ins (p, d) i = Ok (p', d') -> dinv outs ins p' d'.
Proof.
  intros [Di Dr Dn Db] Hi H. destruct (dedupeStep_spec outs ins p d i p' d' H Hi) as [[-> ->] | [E [m Hs]]];
    [constructor; assumption |].
  cbn zeta in Hs. destruct Hs as [M [Hlt [F [S [-> [-> [Hm1 Hm2]]]]]]].
  set (eqs := (i, isO outs i) :: E) in *. set (I := ringAt outs ins i) in *.
  destruct (js_props i (Z.to_nat (zlen outs + zlen ins - i - 1))) as [Jn Jg]. cbn zeta in Jn, Jg.
  set (js := map (fun k : nat => i + 1 + Z.of_nat k) (seq 0 (Z.to_nat (zlen outs + zlen ins - i - 1)))) in *.
  (* facts about all equal rings *)
  assert (Fall : Forall (fun e => snd e = isO outs (fst e) /\ 0 <= fst e < zlen outs + zlen ins /\
                                  mem_Z (fst e) p = false /\ i <= fst e) eqs).
  { constructor; [cbn [fst snd]; repeat split; try assumption; lia |].
    rewrite Forall_forall in *. intros e He. destruct (F e He) as [G1 [G2 [G3 G4]]]. repeat split; try assumption; try lia.
    assert (Hj : In (fst e) js) by (apply (subseq_incl _ _ S), in_map, He). specialize (Jg (fst e) Hj). cbn beta in Jg. lia. }
  assert (Nk : NoDup (map fst eqs)).
  { cbn [map fst]. constructor; [| apply (subseq_NoDup _ _ S Jn)].
    intro Hin. apply (subseq_incl _ _ S) in Hin. rewrite Forall_forall in Jg. specialize (Jg i Hin). cbn beta in Jg. lia. }
  set (Sl := sel eqs m m) in *.
  assert (SS : subseq Sl eqs) by apply sel_subseq.
  assert (FS : Forall (fun e => snd e = isO outs (fst e) /\ 0 <= fst e < zlen outs + zlen ins /\
                                mem_Z (fst e) p = false /\ i <= fst e) Sl) by (apply (subseq_Forall _ _ _ SS Fall)).
  assert (SC : subseq (map fst Sl) (map fst eqs)).
  { clear -SS. induction SS; cbn [map]; constructor; assumption. }
  constructor.
  - apply incl_app; [apply incl_appl, Di |]. apply incl_appr. apply (subseq_incl _ _ SC).
  - apply Forall_app. split; [exact Dr |]. rewrite Forall_forall in *. intros j Hj. apply in_map_iff in Hj.
    destruct Hj as [e [<- He]]. apply (FS e He).
  - apply NoDup_app_intro; [exact Dn | apply (subseq_NoDup _ _ SC Nk) |].
    intros x Hx Hc. apply in_map_iff in Hc. destruct Hc as [e [<- He]]. rewrite Forall_forall in FS.
    destruct (FS e He) as [_ [_ [Hp _]]]. apply Di in Hx. apply mem_Z_In in Hx. congruence.
  - unfold balanced in *. rewrite !filter_app, !map_app. unfold all_dedges in *. rewrite !map_app, !concat_app, map_app.
    apply Permutation_app; [exact Db |].
    assert (Fs1 : Forall (fun e => snd e = isO outs (fst e)) Sl).
    { eapply Forall_impl; [| exact FS]. cbn beta. tauto. }
    destruct (filter_map_fst (isO outs) Sl Fs1) as [E1 E2]. rewrite E1, E2.
    destruct (sel_counts eqs m m) as [C1 C2]; [lia | lia |]. fold Sl in C1, C2.
    destruct (Z.eqb_spec m 0) as [Em | Nm].
    + unfold nOut, nIn, zlen in C1, C2.
      assert (L1 : filter (fun e : Z * bool => snd e) Sl = []) by (apply length_zero_iff_nil; lia).
      assert (L2 : filter (fun e : Z * bool => negb (snd e)) Sl = []) by (apply length_zero_iff_nil; lia).
      rewrite L1, L2. apply perm_nil.
    + (* some outer ring is among the equal ones, hence ring i is an outer *)
      assert (Oi : isO outs i = true).
      { assert (Hex : exists e, In e eqs /\ snd e = true).
        { destruct (filter (fun e : Z * bool => snd e) eqs) as [| e l] eqn:Ef.
          - exfalso. unfold nOut in Hm1. rewrite Ef in Hm1. unfold zlen in Hm1. cbn [length] in Hm1. lia.
          - exists e. apply (filter_In (fun e : Z * bool => snd e)). rewrite Ef. left. reflexivity. }
        destruct Hex as [e [He Se]]. rewrite Forall_forall in Fall. destruct (Fall e He) as [G1 [_ [_ G4]]].
        unfold isO in *. rewrite Se in G1. symmetry in G1. apply Z.ltb_lt in G1. apply Z.ltb_lt. lia. }
      assert (Houter : Forall (fun r => Permutation (dedges r) (dedges I))
                              (map (ringAt outs ins) (map fst (filter (fun e : Z * bool => snd e) Sl)))).
      { rewrite Forall_forall. intros r Hr. apply in_map_iff in Hr. destruct Hr as [j [<- Hj]].
        apply in_map_iff in Hj. destruct Hj as [e [<- He]]. apply filter_In in He. destruct He as [He Se].
        apply (subseq_incl _ _ SS) in He. destruct He as [<- | He]; [apply Permutation_refl |].
        rewrite Forall_forall in F. destruct (F e He) as [_ [_ [_ G]]]. rewrite Oi, Se in G.
        apply ringsAreEqual_edges in G. unfold eq_edges in G. cbn [andb negb] in G. apply Permutation_sym, G. }
      assert (Hinner : Forall (fun r => Permutation (dedges r) (map swap (dedges I)))
                              (map (ringAt outs ins) (map fst (filter (fun e : Z * bool => negb (snd e)) Sl)))).
      { rewrite Forall_forall. intros r Hr. apply in_map_iff in Hr. destruct Hr as [j [<- Hj]].
        apply in_map_iff in Hj. destruct Hj as [e [<- He]]. apply filter_In in He. destruct He as [He Se].
        apply negb_true_iff in Se. apply (subseq_incl _ _ SS) in He. destruct He as [<- | He]; [cbn [snd] in Se; congruence |].
        rewrite Forall_forall in F. destruct (F e He) as [_ [_ [_ G]]]. rewrite Oi, Se in G.
        apply ringsAreEqual_edges in G. unfold eq_edges in G. cbn [andb negb] in G.
        apply (Permutation_map swap) in G. rewrite swap_swap in G. apply Permutation_sym, G. }
      apply all_like in Houter. apply all_like in Hinner. unfold all_dedges in *.
      rewrite !map_length in Houter, Hinner. unfold nOut, nIn, zlen in C1, C2.
      eapply Permutation_trans; [exact Hinner |]. rewrite concat_repeat_swap. apply Permutation_map.
      replace (length (filter (fun e : Z * bool => negb (snd e)) Sl)) with (length (filter (fun e : Z * bool => snd e) Sl)) by lia.
      apply Permutation_sym, Houter.
Qed.

Lemma dedupe_fold_inv outs ins is : forall p d p' d', Forall (fun i => 0 <= i) is -> dinv outs ins p d ->
  foldM (dedupeStep outs ins) is (p, d) = Ok (p', d') -> dinv outs ins p' d'.
Proof.
  induction is as [| i is IH]; intros p d p' d' Hi Hv H; cbn [foldM] in H.
  - inversion H; subst. exact Hv.
  - bind_inv H st Hs. destruct st as [p1 d1]. inversion Hi; subst.
    apply (IH p1 d1 p' d'); [assumption | | exact H]. eapply dedupeStep_inv; eassumption.
Qed.

(** ** the theorem: what is deleted are shells [dO] and holes [dI] with exactly opposite edges *)
Theorem dedupe_cancels outs ins outs' ins' : dedupeInnersOuters outs ins = Ok (outs', ins') ->
  exists dO dI, Permutation outs (outs' ++ dO) /\ Permutation ins (ins' ++ dI) /\
                Permutation (all_dedges dI) (map swap (all_dedges dO)).
Proof.
  unfold dedupeInnersOuters. intro H. bind_inv H st Hst. destruct st as [p d]. cbn [snd] in H. inversion H; subst. clear H.
  assert (Hv : dinv outs ins p d).
  { apply (dedupe_fold_inv outs ins (map Z.of_nat (seq 0 (Z.to_nat (zlen outs + zlen ins)))) [] [] p d); [| | exact Hst].
    - rewrite Forall_forall. intros i Hi. apply in_map_iff in Hi. destruct Hi as [k [<- _]]. lia.
    - constructor; [apply incl_refl | constructor | constructor | apply perm_nil]. }
  destruct Hv as [_ Dr Dn Db].
  exists (del_idx outs 0 d), (del_idx ins (zlen outs) d).
  split; [apply filter_del_perm |]. split; [apply filter_del_perm |].
  pose proof (del_idx_rings outs 0 d Dn) as PO. pose proof (del_idx_rings ins (zlen outs) d Dn) as PI.
  assert (EO : map (fun j => nth (Z.to_nat (j - 0)) outs []) (filter (inrange 0 (zlen outs)) d)
               = map (ringAt outs ins) (filter (isO outs) d)).
  { clear -Dr. induction d as [| j d IH]; [reflexivity |]. inversion Dr as [| ? ? Hj Dr']; subst. cbn [filter].
    unfold inrange at 1, isO at 1. rewrite Z.add_0_l. replace (0 <=? j) with true by (symmetry; apply Z.leb_le; lia).
    cbn [andb]. destruct (Z.ltb_spec j (zlen outs)) as [Hl | Hl]; [| apply IH, Dr'].
    cbn [map]. rewrite (IH Dr'). f_equal. unfold ringAt. rewrite app_nth1 by (unfold zlen in *; lia). rewrite Z.sub_0_r. reflexivity. }
  assert (EI : map (fun j => nth (Z.to_nat (j - zlen outs)) ins []) (filter (inrange (zlen outs) (zlen ins)) d)
               = map (ringAt outs ins) (filter (fun j => negb (isO outs j)) d)).
  { clear -Dr. induction d as [| j d IH]; [reflexivity |]. inversion Dr as [| ? ? Hj Dr']; subst. cbn [filter].
    unfold inrange at 1, isO at 1. replace (j <? zlen outs + zlen ins) with true by (symmetry; apply Z.ltb_lt; lia).
    rewrite andb_true_r. destruct (Z.ltb_spec j (zlen outs)) as [Hl | Hl]; cbn [negb].
    - replace (zlen outs <=? j) with false by (symmetry; apply Z.leb_gt; lia). apply IH, Dr'.
    - replace (zlen outs <=? j) with true by (symmetry; apply Z.leb_le; lia).
      cbn [map]. rewrite (IH Dr'). f_equal. unfold ringAt. rewrite app_nth2 by (unfold zlen in *; lia). f_equal. unfold zlen in *. lia. }
  rewrite EO in PO. rewrite EI in PI. unfold balanced in Db. unfold all_dedges in *.
  eapply Permutation_trans; [apply Permutation_concat_map, PI |].
  eapply Permutation_trans; [exact Db |]. apply Permutation_map, Permutation_concat_map, Permutation_sym, PO.
Qed.
