(** * C01 on the class of C18 (stage D): no two routed steps of a polygon whose edges touch only at common end
      points cross properly; hence, on the class, no two edges of the returned geometry of a level cross. *)
From Coq Require Import ZArith QArith Qreals Reals Lqa Lra Lia List Bool Sorted Permutation.
From Texel Require Import Prelude.Base Index.Model Index.ProofsInsert Index.ProofsLine Index.ProofsOrder Index.ProofsGrid
  Index.ProofsRouting Snap.Model Snap.ProofsBasics Snap.ProofsLevel Geom.Cross Geom.Touch Geom.Polygon
  Snap.ProofsGeomTieRoute Snap.ProofsJoinC05 Snap.ProofsJoinC18 Snap.ProofsJoinC04b Snap.ProofsJoinC01 Snap.ProofsJoinC01b
  Snap.ProofsSweepR Snap.ProofsJoinC01c.
From Texel Require Snap.ProofsKmpEdges Snap.ProofsKmpLe2 Snap.ProofsLevelC07.
Import ListNotations.
Open Scope Z_scope.

(** any two edges of the polygon (as written) are the same edge, the same edge reversed, or touch only at end points *)
Definition edges_separated (P : list ring) : Prop :=
  forall r1 r2 a b c d, In r1 P -> In r2 P -> In (a, b) (dedges r1) -> In (c, d) (dedges r2) ->
    (a, b) = (c, d) \/ (a, b) = (d, c) \/ touch_only_at_ends a b c d.

(** a step in normal form: of the chain of an edge (a, b) of a ring as written, in one of the two directions *)
Definition step_of (g : grid) (hs : hotset) (L : nat) (P : list ring) (e : pt * pt) (a b : pt) : Prop :=
  (exists r, In r P /\ In (a, b) (dedges r)) /\
  (In e (pairs (snapClosestPoints g (hotLevels g hs) a b L)) \/ In (swap e) (pairs (snapClosestPoints g (hotLevels g hs) a b L))).

Lemma pairs_rev_In {A} (l : list A) x y : In (x, y) (pairs (rev l)) -> In (y, x) (pairs l).
Proof.
  rewrite pairs_rev. intro H. apply in_rev in H. apply in_map_iff in H. destruct H as [[u v] [E H]].
  inversion E; subst. exact H.
Qed.

Lemma routed_step_normal g P hs L e : 0 < gres g -> RootCovers g -> insertPolygon g P = Ok hs -> (L <= gdeep g)%nat ->
  routed_step g (hotLevels g hs) L P e -> exists a b, step_of g hs L P e a b /\ In a (concat P) /\ In b (concat P).
Proof.
  intros Hr C Hi HL [idx [r [a [b [Hn [Hab Hs]]]]]]. pose proof (nth_error_In _ _ Hn) as HrP.
  assert (Hd : In (a, b) (dedges r) \/ In (b, a) (dedges r)).
  { unfold ensureCorrectWindingOrder in Hab. destruct (windingOrderIsCorrect r _); [left; exact Hab |].
    right. apply dedges_rev_In, Hab. }
  assert (Hpts : In a (concat P) /\ In b (concat P)).
  { assert (G : In a r /\ In b r) by (destruct Hd as [Hd | Hd]; apply dedges_pts in Hd; tauto).
    split; apply in_concat; exists r; tauto. }
  destruct Hpts as [Ha Hb]. destruct Hd as [Hd | Hd].
  - exists a, b. split; [| auto]. split; [exists r; auto | exact Hs].
  - exists b, a. split; [| auto]. split; [exists r; auto |].
    destruct (C02_routing_vertices g P hs a b L Hr C Hi Ha Hb HL) as [_ [_ [_ [_ Erev]]]].
    destruct e as [c1 c2]. cbn [swap fst snd] in *. destruct Hs as [Hs | Hs].
    + right. rewrite Erev. apply pairs_rev_In. rewrite rev_involutive. exact Hs.
    + left. rewrite Erev. apply pairs_rev_In. rewrite rev_involutive. exact Hs.
Qed.

(** two pairs of consecutive elements of a list: the same, or one comes (weakly) later than the other *)
Lemma pairs_order {A} (l : list A) x1 x2 y1 y2 : In (x1, x2) (pairs l) -> In (y1, y2) (pairs l) ->
  (x1, x2) = (y1, y2) \/
  (exists l1 l2, l = l1 ++ x1 :: x2 :: l2 /\ In (y1, y2) (pairs (x2 :: l2))) \/
  (exists l1 l2, l = l1 ++ y1 :: y2 :: l2 /\ In (x1, x2) (pairs (y2 :: l2))).
Proof.
  induction l as [| a l IH]; intros Hx Hy; [destruct Hx |]. destruct l as [| b l]; [destruct Hx |].
  rewrite pairs_cons2 in Hx, Hy. destruct Hx as [Ex | Hx], Hy as [Ey | Hy].
  - left. congruence.
  - right; left. inversion Ex; subst. exists [], l. split; [reflexivity | exact Hy].
  - right; right. inversion Ey; subst. exists [], l. split; [reflexivity | exact Hx].
  - destruct (IH Hx Hy) as [E | [[l1 [l2 [E H]]] | [l1 [l2 [E H]]]]]; [left; exact E | |].
    + right; left. exists (a :: l1), l2. split; [cbn [app]; rewrite E; reflexivity | exact H].
    + right; right. exists (a :: l1), l2. split; [cbn [app]; rewrite E; reflexivity | exact H].
Qed.

Lemma cross_flips (e f : pt * pt) : proper_cross (fst e) (snd e) (fst f) (snd f) ->
  forall e' f', (e' = e \/ e' = swap e) -> (f' = f \/ f' = swap f) -> proper_cross (fst e') (snd e') (fst f') (snd f').
Proof.
  intros H e' f' He Hf. destruct e as [e1 e2], f as [f1 f2]. cbn [fst snd swap] in *.
  destruct He as [-> | ->], Hf as [-> | ->]; cbn [fst snd].
  - exact H.
  - apply proper_cross_sym, proper_cross_flip, proper_cross_sym. exact H.
  - apply proper_cross_flip. exact H.
  - apply proper_cross_flip, proper_cross_sym, proper_cross_flip, proper_cross_sym. exact H.
Qed.

(** two steps of one chain *)
Lemma one_chain_no_cross g P hs a b L e f : 0 < gres g -> RootCovers g -> insertPolygon g P = Ok hs ->
  In a (concat P) -> In b (concat P) -> (L <= gdeep g)%nat ->
  (In e (pairs (snapClosestPoints g (hotLevels g hs) a b L)) \/ In (swap e) (pairs (snapClosestPoints g (hotLevels g hs) a b L))) ->
  (In f (pairs (snapClosestPoints g (hotLevels g hs) a b L)) \/ In (swap f) (pairs (snapClosestPoints g (hotLevels g hs) a b L))) ->
  ~ proper_cross (fst e) (snd e) (fst f) (snd f).
Proof.
  intros Hr C Hi Ha Hb HL He Hf Hx.
  (* the steps in chain direction *)
  assert (Ge : exists x, In x (pairs (snapClosestPoints g (hotLevels g hs) a b L)) /\ (x = e \/ x = swap e)).
  { destruct He as [He | He]; [exists e | exists (swap e)]; auto. }
  assert (Gf : exists y, In y (pairs (snapClosestPoints g (hotLevels g hs) a b L)) /\ (y = f \/ y = swap f)).
  { destruct Hf as [Hf | Hf]; [exists f | exists (swap f)]; auto. }
  destruct Ge as [[x1 x2] [Hx1 Ex]]. destruct Gf as [[y1 y2] [Hy1 Ey]].
  pose proof (cross_flips e f Hx (x1, x2) (y1, y2) Ex Ey) as Hxy. cbn [fst snd] in Hxy.
  destruct (pairs_order _ _ _ _ _ Hx1 Hy1) as [E | [[l1 [l2 [E H]]] | [l1 [l2 [E H]]]]].
  - inversion E; subst. apply (shared_endpoint_no_cross y1 y2 y1 y2); [auto | exact Hxy].
  - apply (same_chain_no_cross g P hs a b L l1 x1 x2 l2 y1 y2 Hr C Hi Ha Hb HL E H (x1, x2) (y1, y2)); auto.
  - apply proper_cross_sym in Hxy.
    apply (same_chain_no_cross g P hs a b L l1 y1 y2 l2 x1 x2 Hr C Hi Ha Hb HL E H (y1, y2) (x1, x2)); auto.
Qed.

Lemma touch_only_sym a b c d : touch_only_at_ends a b c d -> touch_only_at_ends c d a b.
Proof.
  intros H x y X0 X1 Y0 Y1 Ex Ey. destruct (H y x Y0 Y1 X0 X1) as [A B]; [symmetry; exact Ex | symmetry; exact Ey |]. auto.
Qed.

(** ** no two routed steps cross *)
Theorem routed_steps_do_not_cross g P hs L e f : 0 < gres g -> RootCovers g -> insertPolygon g P = Ok hs ->
  (L <= gdeep g)%nat -> edges_separated P ->
  routed_step g (hotLevels g hs) L P e -> routed_step g (hotLevels g hs) L P f ->
  ~ proper_cross (fst e) (snd e) (fst f) (snd f).
Proof.
  intros Hr C Hi HL Hsep He Hf Hx.
  destruct (routed_step_normal g P hs L e Hr C Hi HL He) as [a [b [[[r1 [Hr1 Hab]] Se] [Ha Hb]]]].
  destruct (routed_step_normal g P hs L f Hr C Hi HL Hf) as [c [d [[[r2 [Hr2 Hcd]] Sf] [Hc Hd]]]].
  destruct (Hsep r1 r2 a b c d Hr1 Hr2 Hab Hcd) as [E | [E | Hst]].
  - inversion E; subst c d. exact (one_chain_no_cross g P hs a b L e f Hr C Hi Ha Hb HL Se Sf Hx).
  - inversion E; subst c d.
    destruct (C02_routing_vertices g P hs a b L Hr C Hi Ha Hb HL) as [_ [_ [_ [_ Erev]]]].
    assert (Sf' : In f (pairs (snapClosestPoints g (hotLevels g hs) a b L)) \/ In (swap f) (pairs (snapClosestPoints g (hotLevels g hs) a b L))).
    { assert (G : forall (z : pt * pt) l, In z (pairs (rev l)) -> In (swap z) (pairs l)) by (intros [z1 z2] l Hz; apply pairs_rev_In, Hz).
      rewrite Erev in Sf. destruct Sf as [Sf | Sf]; apply G in Sf; [right; exact Sf | left].
      replace (swap (swap f)) with f in Sf by (destruct f; reflexivity). exact Sf. }
    exact (one_chain_no_cross g P hs a b L e f Hr C Hi Ha Hb HL Se Sf' Hx).
  - (* different edges touching only at end points: the deformation argument *)
    destruct (C02_routing_vertices g P hs a b L Hr C Hi Ha Hb HL) as [[Eab _] _].
    destruct (C02_routing_vertices g P hs c d L Hr C Hi Hc Hd HL) as [[Ecd _] _].
    rewrite Eab in Se. rewrite Ecd in Sf.
    assert (Ge : exists q1 q2, In (q1, q2) (pairs (route g hs a b L)) /\ ((pixCen g L q1, pixCen g L q2) = e \/ (pixCen g L q1, pixCen g L q2) = swap e)).
    { destruct e as [e1 e2]. unfold swap in Se. cbn [fst snd] in Se.
      destruct Se as [Se | Se]; apply pairs_map_In in Se as [q1 [q2 [Hq [E1 E2]]]]; exists q1, q2; (split; [exact Hq |]);
        rewrite <- E1, <- E2; [left | right]; reflexivity. }
    assert (Gf : exists q1 q2, In (q1, q2) (pairs (route g hs c d L)) /\ ((pixCen g L q1, pixCen g L q2) = f \/ (pixCen g L q1, pixCen g L q2) = swap f)).
    { destruct f as [e1 e2]. unfold swap in Sf. cbn [fst snd] in Sf.
      destruct Sf as [Sf | Sf]; apply pairs_map_In in Sf as [q1 [q2 [Hq [E1 E2]]]]; exists q1, q2; (split; [exact Hq |]);
        rewrite <- E1, <- E2; [left | right]; reflexivity. }
    destruct Ge as [q1 [q2 [Hq Eq]]]. destruct Gf as [r1' [r2' [Hrr Er]]].
    destruct (pairs_split _ _ _ Hq) as [l1 [l2 El]]. destruct (pairs_split _ _ _ Hrr) as [m1 [m2 Em]].
    pose proof (cross_flips e f Hx _ _ Eq Er) as Hxy. cbn [fst snd] in Hxy.
    exact (steps_do_not_cross g P hs a b c d L l1 q1 q2 l2 m1 r1' r2' m2 Hr C Hi Ha Hb Hc Hd HL El Em Hst Hxy).
Qed.

(** ** C01 on the class of C18 *)
Theorem no_crossing_on_class g P levels cfg res hs : 0 < gres g -> RootCovers g ->
  (forall L, In L levels -> (L <= gdeep g)%nat) -> insertPolygon g P = Ok hs ->
  class_all_levels g P hs levels -> edges_separated P -> snapPolygon g P levels cfg = Ok res ->
  forall L ps e f, In (L, ps) res -> In e (edges ps) -> In f (edges ps) -> ~ edge_cross e f.
Proof.
  intros Hr C HLs Hi Hcl Hsep Hs L ps e f Hin He Hf.
  assert (HL : In L levels).
  { destruct (ProofsLevelC07.level_value _ _ _ _ _ _ _ Hs Hin) as [_ [_ [HL _]]]. exact HL. }
  assert (Hstep : forall e0, In e0 (edges ps) -> routed_step g (hotLevels g hs) L P e0).
  { intros e0 He0. unfold edges in He0. apply in_flat_map in He0. destruct He0 as [poly [Hpoly He0]].
    apply in_flat_map in He0. destruct He0 as [x [Hx He0]].
    exact (snap_edges_routed_steps g P levels cfg res hs Hr C HLs Hi
             (fun L0 HL0 idx r c => Hcl L0 idx r c HL0) Hs L ps poly x e0 Hin Hpoly Hx (ring_edges_cedges x e0 He0)). }
  unfold edge_cross. exact (routed_steps_do_not_cross g P hs L e f Hr C Hi (HLs L HL) Hsep (Hstep e He) (Hstep f Hf)).
Qed.

Print Assumptions routed_steps_do_not_cross.
Print Assumptions no_crossing_on_class.

(** ** no vertex of the returned geometry inside a returned edge — without any assumption on the pixel middles
       (the contact lemma at time 1, with the input vertex itself as the point of the pixel) *)
Theorem no_vertex_inside_edge_on_class_general g P levels cfg res hs : 0 < gres g -> RootCovers g ->
  (forall L, In L levels -> (0 < L <= gdeep g)%nat) -> insertPolygon g P = Ok hs ->
  class_all_levels g P hs levels -> snapPolygon g P levels cfg = Ok res ->
  forall L ps e p (mu : Q), In (L, ps) res -> In e (edges ps) -> In p (concat (concat ps)) ->
    (0 <= mu)%Q -> (mu <= 1)%Q -> Geom.Close.peq (qpt p) (Geom.Close.mix mu (qpt (fst e)) (qpt (snd e))) -> p = fst e \/ p = snd e.
Proof.
  intros Hr C HLs Hi Hcl Hs L ps e p mu Hin He Hp M0 M1 Hon.
  assert (HL : In L levels).
  { destruct (ProofsLevelC07.level_value _ _ _ _ _ _ _ Hs Hin) as [_ [_ [HL _]]]. exact HL. }
  assert (HLs' : forall L0, In L0 levels -> (L0 <= gdeep g)%nat) by (intros L0 H0; destruct (HLs L0 H0); lia).
  destruct (ProofsJoinC04.output_vertex_is_pixel_centre_of_input_vertex g P levels cfg res L ps p Hr Hs Hin (HLs L HL) Hp)
    as [v [Hv [Ep Hcont]]].
  destruct (hot_contains_vertex g P hs v L Hr Hi Hv) as [Hhot _].
  set (qd := pixelOf g L v) in *. assert (Epd : p = pixCen g L qd) by exact Ep. clear Ep.
  assert (Pv : PIn v v 0 (pixExt g L qd)).
  { apply containsPoint_iff in Hcont. unfold PIn, AxisIn, co, pixExt. destruct Hcont as [[X1 X2] [Y1 Y2]].
    rewrite Zle_Qle in X1, Y1. rewrite Zlt_Qlt in X2, Y2. repeat split; Lqa.lra. }
  assert (Hstep : routed_step g (hotLevels g hs) L P e).
  { unfold edges in He. apply in_flat_map in He. destruct He as [poly [Hpoly He]].
    apply in_flat_map in He. destruct He as [x [Hx He]].
    exact (snap_edges_routed_steps g P levels cfg res hs Hr C HLs' Hi
             (fun L0 HL0 idx r c => Hcl L0 idx r c HL0) Hs L ps poly x e Hin Hpoly Hx (ring_edges_cedges x e He)). }
  destruct (routed_step_normal g P hs L e Hr C Hi (HLs' L HL) Hstep) as [a [b [[_ Se] [Ha Hb]]]].
  destruct (C02_routing_vertices g P hs a b L Hr C Hi Ha Hb (HLs' L HL)) as [[Eab _] _]. rewrite Eab in Se.
  (* the step in chain direction, and the parameter of p on it *)
  assert (G : exists q1 q2 (nu : Q), In (q1, q2) (pairs (route g hs a b L)) /\ (0 <= nu)%Q /\ (nu <= 1)%Q /\
              ((pixCen g L q1, pixCen g L q2) = e \/ (pixCen g L q1, pixCen g L q2) = swap e) /\
              Geom.Close.peq (qpt p) (Geom.Close.mix nu (qpt (pixCen g L q1)) (qpt (pixCen g L q2)))).
  { destruct e as [e1 e2]. unfold swap in Se. cbn [fst snd] in *. destruct Se as [Se | Se];
      apply pairs_map_In in Se as [q1 [q2 [Hq [E1 E2]]]]; exists q1, q2.
    - exists mu. rewrite <- E1, <- E2. split; [exact Hq |]. split; [exact M0 |]. split; [exact M1 |]. split; [left; reflexivity | exact Hon].
    - exists (1 - mu)%Q. rewrite <- E1, <- E2. split; [exact Hq |]. split; [Lqa.lra |]. split; [Lqa.lra |]. split; [right; reflexivity |].
      destruct Hon as [Hx Hy]. unfold Geom.Close.peq, Geom.Close.mix, qpt in *. cbn [fst snd] in *. split; Lqa.lra. }
  destruct G as [q1 [q2 [nu [Hq [N0 [N1 [Eq [Hx Hy]]]]]]]].
  destruct (pairs_split _ _ _ Hq) as [l1 [l2 El]].
  destruct (consecutive_params g P hs a b L l1 q1 q2 l2 Hr C Hi Ha Hb (HLs' L HL) El) as [_ [_ [ta [tb [Oa [Ob Hab]]]]]].
  pose proof Oa as [_ [_ Pa]]. pose proof Ob as [_ [_ Pb]].
  unfold Geom.Close.mix, qpt in Hx, Hy. cbn [fst snd] in Hx, Hy. rewrite Epd in Hx, Hy.
  apply Qeq_eqR in Hx, Hy. rewrite Q2R_plus, !Q2R_mult, Q2R_minus, !Q2R_inject_Z in Hx, Hy.
  assert (One : Q2R 1 = 1%R) by (unfold Q2R; cbn; Lra.lra). rewrite One in Hx, Hy.
  destruct (contact_pixel g L a b v v q1 q2 qd ta tb 0 1%R (Q2R nu) Hr Pa Pb Pv Hab) as [m [[Hm1 Hm2] Pm]].
  - Lra.lra.
  - apply Qle_Rle in N0, N1. rewrite One in N1. replace (Q2R 0) with 0%R in N0 by (unfold Q2R; cbn; Lra.lra). Lra.lra.
  - unfold rx. Lra.lra.
  - unfold ry. Lra.lra.
  - assert (Om : OnSeg a b m (pixExt g L qd)).
    { destruct Oa as [A0 _]. destruct Ob as [_ [B1 _]]. split; [Lqa.lra |]. split; [Lqa.lra | exact Pm]. }
    destruct (hot_pixel_between_consecutive g P hs a b L l1 q1 q2 l2 qd ta tb m Hr C Hi Ha Hb (HLs' L HL) El Oa Ob Hhot Om Hm1 Hm2) as [E | E];
      rewrite Epd, E; destruct e as [e1 e2]; unfold swap in Eq; cbn [fst snd] in *; destruct Eq as [Eq | Eq]; inversion Eq; auto.
Qed.

Print Assumptions no_vertex_inside_edge_on_class_general.
