(** * kmpDeduplicate on ALL chains of a bounded domain (exhaustive evaluation inside Coq).

    [chain w] maps a word over the letters 0..k-1 to the points (0,0) (1,0) (1,1) (0,1) (2,0)
    (2,1); kmpDeduplicate only compares points for equality, so a word stands for every ring
    with the same equality pattern.  The bound is part of every statement. *)
From Coq Require Import ZArith List Bool Lia.
From Texel Require Import Prelude.Base Index.Model Snap.Model.
Import ListNotations.
Open Scope Z_scope.

Definition P (n : nat) : pt :=
  match n with 0%nat => (0, 0) | 1%nat => (1, 0) | 2%nat => (1, 1) | 3%nat => (0, 1) | 4%nat => (2, 0) | _ => (2, 1) end.

Definition chain (w : list nat) : list pt := map P w.

(** depth-first "for all words of length n over k letters" *)
Fixpoint allw (k n : nat) (f : list nat -> bool) : bool :=
  match n with
  | O => f []
  | S n' => forallb (fun a => allw k n' (fun v => f (a :: v))) (seq 0 k)
  end.

Lemma allw_spec k : forall n f, allw k n f = true ->
  forall w, length w = n -> Forall (fun a => (a < k)%nat) w -> f w = true.
Proof.
  induction n as [| n IH]; intros f H w Hl Hw.
  - destruct w; [exact H | discriminate].
  - destruct w as [| a w]; [discriminate |]. cbn [allw] in H. rewrite forallb_forall in H.
    inversion Hw as [| a' w' Ha Hw']. subst.
    apply (IH (fun v => f (a :: v))).
    + apply H. apply in_seq. lia.
    + cbn [length] in Hl. lia.
    + exact Hw'.
Qed.

(** ... and for all lengths up to N *)
Definition allw_upto (k N : nat) (f : list nat -> bool) : bool :=
  forallb (fun n => allw k n f) (seq 0 (S N)).

Lemma allw_upto_spec k N f : allw_upto k N f = true ->
  forall w, (length w <= N)%nat -> Forall (fun a => (a < k)%nat) w -> f w = true.
Proof.
  intros H w Hl Hw. unfold allw_upto in H. rewrite forallb_forall in H.
  apply (allw_spec k (length w) f); [| reflexivity | exact Hw].
  apply H. apply in_seq. lia.
Qed.

(** the same without two equal neighbours ([prev] = the letter before the word) *)
Fixpoint nen_from (prev : nat) (w : list nat) : bool :=
  match w with [] => true | a :: t => negb (Nat.eqb a prev) && nen_from a t end.

Fixpoint allw_ne (k n prev : nat) (f : list nat -> bool) : bool :=
  match n with
  | O => f []
  | S n' => forallb (fun a => if Nat.eqb a prev then true else allw_ne k n' a (fun v => f (a :: v))) (seq 0 k)
  end.

Lemma allw_ne_spec k : forall n prev f, allw_ne k n prev f = true ->
  forall w, length w = n -> Forall (fun a => (a < k)%nat) w -> nen_from prev w = true -> f w = true.
Proof.
  induction n as [| n IH]; intros prev f H w Hl Hw Hne.
  - destruct w; [exact H | discriminate].
  - destruct w as [| a w]; [discriminate |]. cbn [allw_ne] in H. rewrite forallb_forall in H.
    inversion Hw as [| a' w' Ha Hw']. subst. cbn [nen_from] in Hne.
    apply andb_true_iff in Hne. destruct Hne as [Hap Hne].
    specialize (H a ltac:(apply in_seq; lia)).
    destruct (Nat.eqb a prev); [discriminate |].
    apply (IH a (fun v => f (a :: v)) H); [cbn [length] in Hl; lia | exact Hw' | exact Hne].
Qed.

Definition allw_ne_upto (k N : nat) (f : list nat -> bool) : bool :=
  forallb (fun n => allw_ne k n k f) (seq 0 (S N)).

Lemma allw_ne_upto_spec k N f : allw_ne_upto k N f = true ->
  forall w, (length w <= N)%nat -> Forall (fun a => (a < k)%nat) w -> nen_from k w = true -> f w = true.
Proof.
  intros H w Hl Hw Hne. unfold allw_ne_upto in H. rewrite forallb_forall in H.
  apply (allw_ne_spec k (length w) k f); [| reflexivity | exact Hw | exact Hne].
  apply H. apply in_seq. lia.
Qed.

Definition kmp_ok (w : list nat) : bool := is_ok (kmpDeduplicate (chain w)).

Lemma kmp_ok_spec w : kmp_ok w = true -> exists r', kmpDeduplicate (chain w) = Ok r'.
Proof. unfold kmp_ok. destruct (kmpDeduplicate (chain w)) as [r' | e]; [eauto | discriminate]. Qed.

(** ** C06, bounded: no panic and no fuel exhaustion on ANY chain of the domain — with equal
       neighbours, with first = last, of length 0, 1, 2 included *)
Lemma kmp_total_4_9_eval : allw_upto 4 9 kmp_ok = true.
Proof. vm_cast_no_check (eq_refl true). Qed.

Theorem kmp_total_4_upto_9 : forall w, (length w <= 9)%nat -> Forall (fun a => (a < 4)%nat) w ->
  exists r', kmpDeduplicate (chain w) = Ok r'.
Proof. intros w Hl Hw. apply kmp_ok_spec. apply (allw_upto_spec 4 9 kmp_ok kmp_total_4_9_eval w Hl Hw). Qed.

Lemma kmp_total_3_10_eval : allw_upto 3 10 kmp_ok = true.
Proof. vm_cast_no_check (eq_refl true). Qed.

Theorem kmp_total_3_upto_10 : forall w, (length w <= 10)%nat -> Forall (fun a => (a < 3)%nat) w ->
  exists r', kmpDeduplicate (chain w) = Ok r'.
Proof. intros w Hl Hw. apply kmp_ok_spec. apply (allw_upto_spec 3 10 kmp_ok kmp_total_3_10_eval w Hl Hw). Qed.

Lemma kmp_total_2_14_eval : allw_upto 2 14 kmp_ok = true.
Proof. vm_cast_no_check (eq_refl true). Qed.

Theorem kmp_total_2_upto_14 : forall w, (length w <= 14)%nat -> Forall (fun a => (a < 2)%nat) w ->
  exists r', kmpDeduplicate (chain w) = Ok r'.
Proof. intros w Hl Hw. apply kmp_ok_spec. apply (allw_upto_spec 2 14 kmp_ok kmp_total_2_14_eval w Hl Hw). Qed.

Lemma kmp_total_5_7_eval : allw_upto 5 7 kmp_ok = true.
Proof. vm_cast_no_check (eq_refl true). Qed.

Theorem kmp_total_5_upto_7 : forall w, (length w <= 7)%nat -> Forall (fun a => (a < 5)%nat) w ->
  exists r', kmpDeduplicate (chain w) = Ok r'.
Proof. intros w Hl Hw. apply kmp_ok_spec. apply (allw_upto_spec 5 7 kmp_ok kmp_total_5_7_eval w Hl Hw). Qed.

Print Assumptions kmp_total_4_upto_9.
Print Assumptions kmp_total_3_upto_10.
