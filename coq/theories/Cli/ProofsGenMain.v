(** * Cli/ProofsGenMain.v — tie G2 for the command line tool: the functions REGENERATED from /repo/main.go
      (gen/CliMainGen.v, translator/climain.go) against the hand-written model Cli/Model.v.

    MODELLED (trusted), each accepted by the translator only in exactly the listed shape; defined in Cli/MainOps.v:
      path.Split / path.Ext / path.Join(a, b)        go_path_Split (= path_split) / go_path_Ext / go_path_Join2 (= path_join2, with path.Clean)
      strings.ReplaceAll(p, "%", "%%")               go_strings_ReplaceAll with the two literals of the source (= escape_percent)
      fmt.Sprintf(format, id)                        op_Sprintf (= sprintf_v: plain characters, %% and one verb %v; anything else is outside the model)
      c.String(N) / c.Bool(N) / c.Int(N)             cx_String / cx_Bool / cx_Int of the context, N a string constant of main.go
      tms20.LoadEmbeddedTileMatrixSet, json.Unmarshal([]byte(s), &ids), pointindex.IsQuadTree, pointindex.DeviationStats,
      tms.TileMatrices[id], snap.SnapPolygon, processing.ProcessFeatures
                                                     the fields of [lib] (abstract: the theorem holds for EVERY library)
      os.Stat / os.IsNotExist / os.Remove / errors.As+errors.Is(.., syscall.ENOENT)
                                                     op_Stat / op_IsNotExist / op_Remove / op_is_ENOENT on the file system (finite map)
      gpkg.SourceGeopackage{} / .Init / .Table = / .GetTableInfo / .Close
      gpkg.TargetGeopackage{} / .Init / .Table = / .CreateTables / .Close
                                                     src_zero .. / op_NewTarget .. on the world (files + heap of target objects)
      map[int]T: make / m[k] = v / m[k] / range      amap (keys in the order of their last assignment)
      slices.Max, errors.New, fmt.Errorf, log.Fatalf / log.Fatal, log.Printf / log.Println (nothing), defer, app.Run(os.Args)

    PROVED here, for all inputs:
      gen_injectSuffixIntoPath p = MOk (inject_format p)
      gen_validateTileMatrixSet returns nil exactly when [validate_ok] holds
      gen_main = cli_run of the model on [args_of] (which flag feeds which argument), as finite maps of files,
      with the same verdict on every abnormal end. *)
From Coq Require Import ZArith NArith List Bool String Ascii Lia.
From Texel Require Import Gpkg.Model Gpkg.Proofs Cli.Model Cli.Proofs Cli.MainOps.
From Texel.Gen Require Import CliMainGen.
Import ListNotations.
Open Scope Z_scope.

Local Notation len := List.length.

(** ** 1. injectSuffixIntoPath *)

(** strings.ReplaceAll(p, "%", "%%") doubles every percent sign *)
Lemma go_ReplaceAll_percent : forall p, go_strings_ReplaceAll p (s_ "%") (s_ "%%") = escape_percent p.
Proof.
  intros p. unfold go_strings_ReplaceAll. change (s_ "%") with [percent]. change (s_ "%%") with [percent; percent].
  induction p as [|x p IH]; [reflexivity|].
  cbn [replace_all_from is_prefix List.length Nat.pred escape_percent app]. rewrite andb_true_r.
  rewrite (Ascii.eqb_sym percent x). destruct (Ascii.eqb x percent); now rewrite IH.
Qed.

Lemma go_path_Ext_no_slash : forall f, ~ In slash f -> go_path_Ext f = path_ext f.
Proof.
  intros f H. unfold go_path_Ext, path_ext. cbv zeta.
  rewrite take_until_noc by now apply not_in_rev. reflexivity.
Qed.

Lemma path_ext_length : forall f, (len (path_ext f) <= len f)%nat.
Proof.
  intros f. unfold path_ext. cbv zeta.
  assert (E := take_drop_until dot (rev f)).
  assert (El : (len (take_until dot (rev f)) + len (drop_until dot (rev f)) = len f)%nat).
  { rewrite <- app_length, E. apply rev_length. }
  destruct (drop_until dot (rev f)) as [|c r]; cbn [len]; [lia|].
  cbn [len] in El. rewrite rev_length. lia.
Qed.

Lemma str_slice_prefix : forall (s : str) n, (n <= len s)%nat ->
  str_slice s 0 (zlen s - Z.of_nat n) = MOk (firstn (len s - n) s).
Proof.
  intros s n H. unfold str_slice, zlen.
  replace (0 <? 0) with false by reflexivity.
  replace (Z.of_nat (len s) - Z.of_nat n <? 0) with false by (symmetry; apply Z.ltb_ge; lia).
  replace (Z.of_nat (len s) <? Z.of_nat (len s) - Z.of_nat n) with false by (symmetry; apply Z.ltb_ge; lia).
  cbn [orb]. rewrite Z.sub_0_r. cbn [Z.to_nat skipn].
  replace (Z.to_nat (Z.of_nat (len s) - Z.of_nat n)) with (len s - n)%nat by lia. reflexivity.
Qed.

Theorem gen_injectSuffixIntoPath_spec : forall p, gen_injectSuffixIntoPath p = MOk (inject_format p).
Proof.
  intros p. unfold gen_injectSuffixIntoPath, inject_format. rewrite go_ReplaceAll_percent.
  generalize (escape_percent p). clear p. intros p.
  unfold inject_format_raw, go_path_Split, go_path_Join2.
  assert (Hns := path_split_file_no_slash p).
  destruct (path_split p) as [dir file]. cbn [snd] in Hns.
  rewrite go_path_Ext_no_slash by exact Hns.
  unfold zlen at 2. rewrite str_slice_prefix by apply path_ext_length.
  cbn [mbind]. unfold strip_ext. now rewrite <- app_assoc.
Qed.

(** ** 2. validateTileMatrixSet *)
Section Validate.
  Variable L : lib.

  Definition max_id (ids : list Z) : Z := match ids with [] => 0 | x :: r => fold_left Z.max r x end.

  (** what validateTileMatrixSet checks: a quad tree; at least one id; every id names a tile matrix of the set;
      the deviation statistics of the DEEPEST (maximal) id can be computed *)
  Definition validate_ok (t : l_tms L) (ids : list Z) : bool :=
    is_nil (l_IsQuadTree L t) &&
    negb (Nat.eqb (len ids) 0) &&
    forallb (l_HasMatrix L t) ids &&
    is_nil (snd (l_DeviationStats L t (max_id ids))).

  Definition tms_error (e : goerr) : Prop :=
    match e with Some (LibErr _) | Some (NewErr _) => True | _ => False end.

  Lemma lib_err_nil : forall e, is_nil (lib_err e) = is_nil e.
  Proof. now intros [e|]. Qed.

  Lemma lib_err_tms_error : forall e, is_nil e = false -> tms_error (lib_err e).
  Proof. intros [e|] H; [exact I|discriminate]. Qed.

  Lemma validate_loop : forall (t : l_tms L) (R : Type) (r0 : R) (body : Z -> unit -> mres (lctlr unit R)),
    (forall id u, body id u = if negb (l_HasMatrix L t id) then MOk (RetR r0) else MOk (ContR tt)) ->
    forall ids, mrange_loop_ret body ids tt =
                MOk (if forallb (l_HasMatrix L t) ids then Done tt else Return r0).
  Proof.
    intros t R r0 body Hb. induction ids as [|id ids IH]; [reflexivity|].
    cbn [mrange_loop_ret forallb]. rewrite Hb. destruct (l_HasMatrix L t id); cbn [negb andb]; [exact IH|reflexivity].
  Qed.

  Theorem gen_validateTileMatrixSet_spec : forall t ids,
    exists e, gen_validateTileMatrixSet L t ids = MOk e /\ is_nil e = validate_ok t ids /\
              (is_nil e = false -> tms_error e).
  Proof.
    intros t ids. unfold gen_validateTileMatrixSet, validate_ok, op_IsQuadTree, op_HasMatrix.
    rewrite lib_err_nil.
    destruct (is_nil (l_IsQuadTree L t)) eqn:Eq; cbn [negb andb].
    2:{ eexists. split; [reflexivity|]. rewrite lib_err_nil. split; [exact Eq|]. intros _. now apply lib_err_tms_error. }
    unfold zlen. destruct ids as [|id0 ids'] eqn:Eids.
    { cbn. eexists. split; [reflexivity|]. split; [reflexivity|]. intros _. exact I. }
    rewrite <- Eids.
    replace (Z.of_nat (len ids) =? 0) with false by (subst ids; reflexivity).
    replace (Nat.eqb (len ids) 0) with false by (subst ids; reflexivity). cbn [negb andb].
    erewrite (validate_loop t); [|intros; reflexivity]. cbn [mbind].
    destruct (forallb (l_HasMatrix L t) ids) eqn:Ef; cbn [andb].
    2:{ eexists. split; [reflexivity|]. split; [reflexivity|]. intros _. exact I. }
    unfold go_slices_Max, op_DeviationStats, max_id. rewrite Eids. cbn [mbind].
    destruct (l_DeviationStats L t (fold_left Z.max ids' id0)) as [[[st u] px] e]. cbn [snd].
    rewrite lib_err_nil. destruct (is_nil e) eqn:Ee; cbn [negb].
    - eexists. split; [reflexivity|]. split; [reflexivity|]. discriminate.
    - eexists. split; [reflexivity|]. rewrite lib_err_nil. split; [exact Ee|]. intros _. now apply lib_err_tms_error.
  Qed.

  Lemma validate_ok_nonempty : forall t ids, validate_ok t ids = true -> ids <> [].
  Proof. intros t ids H E. subst ids. unfold validate_ok in H. cbn in H. now rewrite andb_false_r in H. Qed.
End Validate.

(** ** 3. Go maps, the heap, the file system as a finite map *)

Lemma distinct_ids_snoc : forall l x,
  distinct_ids (l ++ [x]) = filter (fun y => negb (Z.eqb y x)) (distinct_ids l) ++ [x].
Proof.
  induction l as [|y l IH]; intros x; [reflexivity|].
  cbn [app distinct_ids].
  assert (Hm : memz y (l ++ [x]) = memz y l || Z.eqb x y).
  { clear. induction l as [|z l IH]; cbn; [now rewrite orb_false_r|]. rewrite IH. now rewrite orb_assoc. }
  rewrite Hm. destruct (memz y l) eqn:E; cbn [orb]; [apply IH|].
  destruct (Z.eqb_spec x y) as [->|Hne].
  - rewrite IH. cbn [filter]. rewrite Z.eqb_refl. reflexivity.
  - rewrite IH. cbn [filter]. destruct (Z.eqb_spec y x) as [->|_]; [contradiction|]. reflexivity.
Qed.

Definition kset (ks : list Z) (k : Z) : list Z := filter (fun y => negb (Z.eqb y k)) ks ++ [k].

Lemma fold_kset_distinct : forall l, fold_left kset l [] = distinct_ids l.
Proof.
  induction l as [|x l IH] using rev_ind; [reflexivity|].
  rewrite fold_left_app. cbn [fold_left]. rewrite IH. unfold kset. now rewrite distinct_ids_snoc.
Qed.

Lemma amap_keys_set : forall V k (v : V) m, amap_keys (amap_set k v m) = kset (amap_keys m) k.
Proof.
  intros V k v m. unfold amap_set, amap_keys, kset, amap_remove. rewrite map_app. cbn [map fst]. f_equal.
  induction m as [|[k' v'] m IH]; [reflexivity|]. cbn [filter map fst].
  destruct (negb (Z.eqb k' k)); cbn [map fst]; now rewrite IH.
Qed.

Lemma amap_get_set_same : forall V k (v : V) m, amap_get k (amap_set k v m) = Some v.
Proof.
  intros V k v m. unfold amap_set, amap_remove.
  induction m as [|[k' v'] m IH]; cbn [filter app amap_get fst].
  - now rewrite Z.eqb_refl.
  - destruct (Z.eqb k' k) eqn:E; cbn [negb]; [exact IH|]. cbn [app amap_get]. now rewrite E.
Qed.

Lemma amap_remove_In : forall V k (m : amap V) kv, In kv (amap_remove k m) -> In kv m.
Proof. intros V k m kv H. unfold amap_remove in H. now apply filter_In in H. Qed.

Lemma amap_remove_notin : forall V k (m : amap V), ~ In k (amap_keys m) -> amap_remove k m = m.
Proof.
  intros V k m. induction m as [|[k' v'] m IH]; intros H; [reflexivity|].
  cbn [amap_remove filter fst]. destruct (Z.eqb_spec k' k) as [->|Hne].
  - exfalso. apply H. now left.
  - cbn [negb]. f_equal. apply IH. intros Hin. apply H. now right.
Qed.

(** copying a map entry by entry (main.go: targets[tmID] = target) *)
Lemma amap_copy : forall V (rest acc : amap V), NoDup (amap_keys (acc ++ rest)) ->
  fold_left (fun a (kv : Z * V) => amap_set (fst kv) (snd kv) a) rest acc = acc ++ rest.
Proof.
  intros V. induction rest as [|[k v] rest IH]; intros acc Hnd; cbn [fold_left]; [now rewrite app_nil_r|].
  cbn [fst snd]. unfold amap_set at 2. rewrite amap_remove_notin.
  - rewrite IH; rewrite <- app_assoc; [reflexivity|exact Hnd].
  - unfold amap_keys in *. rewrite map_app in Hnd. cbn [map fst] in Hnd.
    apply NoDup_remove_2 in Hnd. intros Hin. apply Hnd. apply in_or_app. now left.
Qed.

Lemma list_set_snoc : forall A (l : list A) a b, list_set (l ++ [a]) (len l) b = l ++ [b].
Proof. induction l as [|x l IH]; intros a b; cbn; [reflexivity|]. now rewrite IH. Qed.

Lemma nth_error_list_set : forall A (l : list A) n a q,
  nth_error (list_set l n a) q = if Nat.eqb q n then (match nth_error l n with Some _ => Some a | None => None end)
                                 else nth_error l q.
Proof.
  induction l as [|x l IH]; intros n a q.
  - cbn. destruct (Nat.eqb q n); destruct n, q; reflexivity.
  - destruct n as [|n]; destruct q as [|q]; cbn; try reflexivity. apply IH.
Qed.

(** *** the model's targets as a view of the file system *)
Definition tg_fs (tgts : list target) : fsys := map (fun t : target => (snd (fst t), snd t)) tgts.

Lemma fs_lookup_app : forall q a b, fs_lookup q (a ++ b) = match fs_lookup q a with Some d => Some d | None => fs_lookup q b end.
Proof. induction a as [|[p d] a IH]; intros b; cbn; [reflexivity|]. destruct (str_eqb p q); [reflexivity|apply IH]. Qed.

Lemma fs_lookup_notin : forall q (fs : fsys), ~ In q (map fst fs) -> fs_lookup q fs = None.
Proof.
  induction fs as [|[p d] fs IH]; intros H; cbn; [reflexivity|].
  destruct (str_eqb p q) eqn:E; [apply str_eqb_eq in E; subst; exfalso; apply H; now left|].
  apply IH. intros Hin. apply H. now right.
Qed.

Lemma tg_fs_paths : forall tgts, map fst (tg_fs tgts) = map (fun t : target => snd (fst t)) tgts.
Proof. intros. unfold tg_fs. rewrite map_map. reflexivity. Qed.

Lemma write_back_view : forall tgts fs q, NoDup (map fst (tg_fs tgts)) ->
  fs_lookup q (write_back fs tgts) = match fs_lookup q (tg_fs tgts) with Some d => Some d | None => fs_lookup q fs end.
Proof.
  induction tgts as [|[[id p] d] tgts IH]; intros fs q Hnd; [reflexivity|].
  cbn [write_back fold_left]. fold (write_back (fs_write p d fs) tgts).
  change (tg_fs ((id, p, d) :: tgts)) with ((p, d) :: tg_fs tgts) in *. cbn [map fst] in Hnd. inversion Hnd as [|? ? Hnotin Hnd']; subst.
  rewrite IH by exact Hnd'. cbn [fs_lookup].
  destruct (str_eqb p q) eqn:E.
  - apply str_eqb_eq in E. subst q. rewrite (fs_lookup_notin p (tg_fs tgts)) by exact Hnotin.
    unfold fs_write. cbn [fs_lookup]. now rewrite str_eqb_refl.
  - destruct (fs_lookup q (tg_fs tgts)); [reflexivity|].
    unfold fs_write. cbn [fs_lookup]. rewrite E.
    assert (Hne : q <> p) by (intros ->; now rewrite str_eqb_refl in E).
    clear - Hne. induction fs as [|[r d'] fs IH]; cbn; [reflexivity|].
    destruct (str_eqb r p) eqn:E1.
    + apply str_eqb_eq in E1. subst r. rewrite IH.
      assert (F : str_eqb p q = false) by (apply str_eqb_neq; congruence). now rewrite F.
    + cbn. destruct (str_eqb r q); [reflexivity|exact IH].
Qed.

Lemma fs_lookup_write : forall p q d fs, fs_lookup q (fs_write p d fs) = if str_eqb p q then Some d else fs_lookup q fs.
Proof.
  intros p q d fs. unfold fs_write. cbn [fs_lookup]. destruct (str_eqb p q) eqn:E; [reflexivity|].
  induction fs as [|[r d'] fs IH]; cbn; [reflexivity|].
  destruct (str_eqb r p) eqn:E1.
  - apply str_eqb_eq in E1. subst r. now rewrite IH, E.
  - cbn. destruct (str_eqb r q); [reflexivity|exact IH].
Qed.

Lemma fs_lookup_remove : forall p q fs, fs_lookup q (fs_remove p fs) = if str_eqb p q then None else fs_lookup q fs.
Proof.
  intros p q fs. induction fs as [|[r d'] fs IH]; cbn; [now destruct (str_eqb p q)|].
  destruct (str_eqb r p) eqn:E1.
  - apply str_eqb_eq in E1. subst r. rewrite IH. now destruct (str_eqb p q).
  - cbn. destruct (str_eqb r q) eqn:E2; [|exact IH].
    apply str_eqb_eq in E2. subst r. destruct (str_eqb p q) eqn:E3; [|reflexivity].
    apply str_eqb_eq in E3. subst q. now rewrite str_eqb_refl in E1.
Qed.

Lemma nth_error_snoc : forall A (l : list A) a, nth_error (l ++ [a]) (len l) = Some a.
Proof. intros. rewrite nth_error_app2 by lia. now rewrite Nat.sub_diag. Qed.

Lemma existsb_same_members : forall A (f : A -> bool) l l', (forall x, In x l <-> In x l') -> existsb f l = existsb f l'.
Proof.
  intros A f l l' H. destruct (existsb f l) eqn:E1; destruct (existsb f l') eqn:E2; try reflexivity.
  - apply existsb_exists in E1. destruct E1 as [x [Hin Hf]]. apply H in Hin.
    assert (E3 : existsb f l' = true) by (apply existsb_exists; eauto). congruence.
  - apply existsb_exists in E2. destruct E2 as [x [Hin Hf]]. apply H in Hin.
    assert (E3 : existsb f l = true) by (apply existsb_exists; eauto). congruence.
Qed.

(** ** 4. The regenerated program against the model *)
Section Main.
  Variable L : lib.
  Local Notation world := (world L).
  Local Notation sfeat := (l_sfeat L).

  (** *** which flag feeds which argument of the model *)
  Definition flags_of (c : cctx) : flags :=
    MkFlags (cx_Bool c "overwrite") (cx_Int c "pagesize") (cx_Bool c "keeppointsandlines")
            (cx_Bool c "ignoreoutsidegrid") (cx_Bool c "reversewindingorder").
  Definition tms_of (c : cctx) : l_tms L := fst (l_LoadTms L (cx_String c "tilematrixset")).
  Definition ids_of (c : cctx) : list Z := fst (l_Unmarshal L (cx_String c "tilematrices")).
  Definition tms_args_ok (c : cctx) : bool :=
    is_nil (snd (l_LoadTms L (cx_String c "tilematrixset"))) &&
    is_nil (snd (l_Unmarshal L (cx_String c "tilematrices"))) &&
    validate_ok L (tms_of c) (ids_of c).
  Definition args_of (c : cctx) (srcs : srcfs L) : args sfeat :=
    MkArgs (tms_args_ok c) (src_lookup L (cx_String c "sourceGpkg") srcs) (cx_String c "targetGpkg") (ids_of c) (flags_of c).

  (** the snapping library under a configuration = snap.SnapPolygon with the loaded tile matrix set and that configuration *)
  Definition snapfun : Type := l_poly L -> list Z -> l_sres L.
  Definition snap_of (c : cctx) (cfg : snapcfg) : snapfun := fun p ids => l_SnapPolygon L p (tms_of c) ids cfg.

  Definition model_run (c : cctx) (fs0 : fsys) (srcs : srcfs L) : cres fsys :=
    cli_run sfeat snapfun (snap_of c) (l_pipeline L) (args_of c srcs) fs0.

  Definition same_outcome (g : mres world) (m : cres fsys) : Prop :=
    match g, m with
    | MOk w, COk fs => forall q, fs_lookup q (mw_fs w) = fs_lookup q fs
    | MErr e, CErr e' => verdict e = Some e'
    | _, _ => False
    end.

  (** *** initGPKGTarget *)
  Definition init_one (ow : bool) (ps : Z) (w : world) (path : str) : world :=
    let fsA := if ow then fs_remove path (mw_fs w) else mw_fs w in
    MkWorld (fs_write path (match fs_lookup path fsA with Some d => d | None => empty_db end) fsA)
            (mw_src w) (mw_heap w ++ [MkTgtObj (Some path) ps None]).

  Lemma gen_initGPKGTarget_spec : forall w fmt id ow ps,
    gen_initGPKGTarget L w fmt id ow ps =
    match sprintf_v fmt id with
    | None => MErr UnsafeFormat
    | Some path => MOk (init_one ow ps w path, len (mw_heap w))
    end.
  Proof.
    intros w fmt id ow ps. unfold gen_initGPKGTarget, op_Sprintf.
    destruct (sprintf_v fmt id) as [path|]; [|reflexivity]. cbn [mbind].
    assert (K : forall w1 : world,
      (let '(wld, v_target) := op_NewTarget L w1 in
       mdo wld0 <- op_TargetInit L wld v_target path ps; MOk (wld0, v_target)) =
      MOk (MkWorld (fs_write path (match fs_lookup path (mw_fs w1) with Some d => d | None => empty_db end) (mw_fs w1))
                   (mw_src w1) (mw_heap w1 ++ [MkTgtObj (Some path) ps None]), len (mw_heap w1))).
    { intros w1. unfold op_NewTarget, op_TargetInit, set_heap. cbn [mw_heap mw_fs mw_src].
      rewrite nth_error_snoc. cbn [mbind to_table tgt_zero]. now rewrite list_set_snoc. }
    destruct ow.
    - unfold op_Remove, op_is_ENOENT. unfold init_one.
      destruct (fs_lookup path (mw_fs w)); cbn [is_nil negb]; rewrite K; reflexivity.
    - rewrite K. reflexivity.
  Qed.

  Section Run.
    Variable fl : flags.
    Variable tgt : str.
    Variable fs0 : fsys.
    Let ps := fl_pagesize fl.
    Let ow := fl_overwrite fl.
    Let tp := tpath tgt.
    Let fmt := inject_format tgt.

    Definition obj_of (id : Z) : tgtobj := MkTgtObj (Some (tp id)) ps None.
    Definition step_fs (fs : fsys) (id : Z) : fsys :=
      let fsA := if ow then fs_remove (tp id) fs else fs in
      fs_write (tp id) (match fs_lookup (tp id) fsA with Some d => d | None => empty_db end) fsA.
    Definition good_map (H : list tgtobj) (m : amap tgtptr) : Prop :=
      forall id p, In (id, p) m -> nth_error H p = Some (obj_of id).
    Definition dfr_id (dfr : list (world -> world)) : Prop := Forall (fun f => forall w, f w = w) dfr.

    Definition init_step (id : Z) (s : world * list (world -> world) * amap tgtptr)
      : mres (lctl (world * list (world -> world) * amap tgtptr)) :=
      let '(w, dfr, m) := s in
      mdo (w', p) <- gen_initGPKGTarget L w fmt id ow ps;
      let m' := amap_set id p m in
      mdo t <- amap_get_ptr id m';
      MOk (Cont (w', (fun wld => op_TargetClose L wld t) :: dfr, m')).

    Lemma init_loop_ok : forall body, (forall id s, body id s = init_step id s) ->
      forall l w0 dfr0 m0,
      (forall id, In id l -> sprintf_v fmt id = Some (tp id)) -> good_map (mw_heap w0) m0 -> dfr_id dfr0 ->
      exists w' dfr' m', mrange_loop body l (w0, dfr0, m0) = MOk (w', dfr', m') /\
        mw_fs w' = fold_left step_fs l (mw_fs w0) /\ mw_src w' = mw_src w0 /\
        amap_keys m' = fold_left kset l (amap_keys m0) /\ good_map (mw_heap w') m' /\ dfr_id dfr'.
    Proof.
      intros body Hb. induction l as [|id l IH]; intros w0 dfr0 m0 Hsafe Hgood Hd.
      - exists w0, dfr0, m0. repeat split; auto.
      - cbn [mrange_loop]. rewrite Hb. unfold init_step. rewrite gen_initGPKGTarget_spec.
        rewrite (Hsafe id) by now left. cbn [mbind]. unfold amap_get_ptr. rewrite amap_get_set_same. cbn [mbind].
        destruct (IH (init_one ow ps w0 (tp id)) ((fun wld => op_TargetClose L wld (len (mw_heap w0))) :: dfr0)
                     (amap_set id (len (mw_heap w0)) m0)) as [w' [dfr' [m' [E [Hfs [Hsrc [Hk [Hg Hd']]]]]]]].
        + intros id' Hin. apply Hsafe. now right.
        + intros id' p Hin. unfold init_one. cbn [mw_heap]. unfold amap_set in Hin. apply in_app_or in Hin.
          destruct Hin as [Hin|[Hin|[]]].
          * apply amap_remove_In in Hin. apply Hgood in Hin.
            rewrite nth_error_app1; [exact Hin|]. apply nth_error_Some. congruence.
          * injection Hin as <- <-. apply nth_error_snoc.
        + constructor; [reflexivity|exact Hd].
        + exists w', dfr', m'. split; [exact E|]. split; [|split; [|split; [|split]]]; auto.
          rewrite Hk. cbn [fold_left]. now rewrite amap_keys_set.
    Qed.

    Lemma init_loop_unsafe : forall body, (forall id s, body id s = init_step id s) ->
      forall id l s, sprintf_v fmt id = None -> mrange_loop body (id :: l) s = MErr UnsafeFormat.
    Proof.
      intros body Hb id l [[w d] m] H. cbn [mrange_loop]. rewrite Hb. unfold init_step.
      rewrite gen_initGPKGTarget_spec, H. reflexivity.
    Qed.

    Lemma step_fs_lookup : forall l fs q,
      fs_lookup q (fold_left step_fs l fs) =
      if existsb (fun id => str_eqb (tp id) q) l then Some (start_content fl fs q) else fs_lookup q fs.
    Proof.
      induction l as [|id l IH]; intros fs q; [reflexivity|].
      cbn [fold_left existsb]. rewrite IH.
      assert (Hl : fs_lookup q (step_fs fs id) = if str_eqb (tp id) q then Some (start_content fl fs q) else fs_lookup q fs).
      { unfold step_fs, start_content. fold ow. rewrite fs_lookup_write. destruct (str_eqb (tp id) q) eqn:E.
        - apply str_eqb_eq in E. subst q. destruct ow; [|reflexivity].
          now rewrite fs_lookup_remove, str_eqb_refl.
        - destruct ow; [|reflexivity]. now rewrite fs_lookup_remove, E. }
      assert (Hs : start_content fl (step_fs fs id) q = start_content fl fs q).
      { unfold start_content at 1. rewrite Hl. unfold start_content. fold ow. destruct ow; [reflexivity|].
        destruct (str_eqb (tp id) q); reflexivity. }
      rewrite Hs, Hl. destruct (str_eqb (tp id) q); cbn [orb]; [|reflexivity].
      destruct (existsb (fun id0 => str_eqb (tp id0) q) l); reflexivity.
    Qed.

    (** the model's targets after the init loop *)
    Definition tgts0 (ids : list Z) : list target := map (fun id => (id, tp id, start_content fl fs0 (tp id))) ids.

    Lemma init_targets_succeed : forall ids st, (forall id, In id ids -> inject tgt id <> None) ->
      exists st', cfoldM (init_target fl tgt) ids st = COk st'.
    Proof.
      induction ids as [|id ids IH]; intros st H; [eexists; reflexivity|].
      cbn [cfoldM]. destruct st as [fs acc]. unfold init_target at 1.
      destruct (inject tgt id) eqn:E; [|exfalso; apply (H id); [now left|exact E]].
      cbn [cbind]. apply IH. intros id' Hin. apply H. now right.
    Qed.

    Lemma model_init_ok : forall ids, NoDup ids -> (forall id, In id ids -> inject tgt id <> None) ->
      exists fs1, cfoldM (init_target fl tgt) ids (fs0, []) = COk (fs1, tgts0 ids) /\
                  forall q, ~ In q (map tp ids) -> fs_lookup q fs1 = fs_lookup q fs0.
    Proof.
      intros ids Hnd Hall. destruct (init_targets_succeed ids (fs0, []) Hall) as [[fs1 tgts] E].
      destruct (init_targets_spec fl tgt ids fs0 [] fs1 tgts Hnd E) as [_ [Ht Hq]]. cbn [app] in Ht.
      exists fs1. subst tgts. split; [exact E|exact Hq].
    Qed.

    Lemma tgts0_paths_NoDup : forall ids, NoDup ids -> (forall id, In id ids -> inject tgt id <> None) ->
      NoDup (map fst (tg_fs (tgts0 ids))).
    Proof.
      intros ids Hnd Hall. rewrite tg_fs_paths. unfold tgts0. rewrite map_map. cbn [fst snd].
      apply NoDup_map_inj_on; [exact Hnd|]. now apply tpath_inj_on.
    Qed.

    Lemma tg_fs_tgts0_lookup : forall ids q,
      fs_lookup q (tg_fs (tgts0 ids)) =
      if existsb (fun id => str_eqb (tp id) q) ids then Some (start_content fl fs0 q) else None.
    Proof.
      induction ids as [|id ids IH]; intros q; [reflexivity|].
      cbn [tgts0 map tg_fs fst snd fs_lookup existsb]. fold (tgts0 ids). fold (tg_fs (tgts0 ids)).
      destruct (str_eqb (tp id) q) eqn:E; cbn [orb]; [|apply IH].
      apply str_eqb_eq in E. now subst q.
    Qed.

    (** after the init loops: the files of the regenerated program are the model's targets over the model's files *)
    Lemma after_init_view : forall l fs1 fsg,
      (forall id, In id l -> inject tgt id <> None) ->
      (forall q, ~ In q (map tp (distinct_ids l)) -> fs_lookup q fs1 = fs_lookup q fs0) ->
      fsg = fold_left step_fs l fs0 ->
      forall q, fs_lookup q fsg = fs_lookup q (write_back fs1 (tgts0 (distinct_ids l))).
    Proof.
      intros l fs1 fsg Hall Hq -> q.
      assert (Hall' : forall id, In id (distinct_ids l) -> inject tgt id <> None).
      { intros id Hin. apply Hall. now apply distinct_ids_In. }
      rewrite write_back_view by (apply tgts0_paths_NoDup; [apply distinct_ids_NoDup|exact Hall']).
      rewrite step_fs_lookup, tg_fs_tgts0_lookup.
      rewrite (existsb_same_members _ _ (distinct_ids l) l) by (intros; apply distinct_ids_In).
      destruct (existsb (fun id => str_eqb (tp id) q) l) eqn:E; [reflexivity|].
      symmetry. apply Hq. intros Hin. apply in_map_iff in Hin. destruct Hin as [id [Hid Hin]].
      apply (proj1 (distinct_ids_In l id)) in Hin.
      assert (E' : existsb (fun id => str_eqb (tp id) q) l = true).
      { apply existsb_exists. exists id. split; [exact Hin|]. subst q. apply str_eqb_refl. }
      congruence.
    Qed.
  
    (** *** the model's open targets against the map of pointers *)
    Definition aligned (P : tgtobj -> Prop) (H : list tgtobj) (m : amap tgtptr) (tgts : list target) : Prop :=
      Forall2 (fun (kv : Z * tgtptr) (t : target) =>
                 fst kv = fst (fst t) /\
                 exists o, nth_error H (snd kv) = Some o /\ to_path o = Some (snd (fst t)) /\ P o) m tgts.

    Lemma good_map_aligned : forall (P : tgtobj -> Prop) H m (D : Z -> db), (forall id, P (obj_of id)) -> good_map H m ->
      aligned P H m (map (fun id => (id, tp id, D id)) (amap_keys m)).
    Proof.
      intros P H. induction m as [|[id p] m IH]; intros D HP Hg; cbn [amap_keys map fst]; constructor.
      - cbn [fst snd]. split; [reflexivity|]. exists (obj_of id). split; [apply Hg; now left|]. split; [reflexivity|apply HP].
      - apply IH; auto. intros id' p' Hin. apply Hg. now right.
    Qed.

    Lemma aligned_same_ids : forall P H m tgts tgts',
      aligned P H m tgts -> map (fun t : target => fst t) tgts' = map (fun t : target => fst t) tgts -> aligned P H m tgts'.
    Proof.
      intros P H m tgts tgts' Ha. revert tgts'. induction Ha as [|kv t m tgts Hkt _ IH]; intros tgts' E.
      - destruct tgts'; [constructor|discriminate].
      - destruct tgts' as [|t' tgts']; [discriminate|]. cbn [map] in E. injection E as E1 E2.
        constructor; [now rewrite E1|now apply IH].
    Qed.

    Lemma aligned_impl : forall (P Q : tgtobj -> Prop) H H' m tgts,
      (forall kv o, In kv m -> nth_error H (snd kv) = Some o -> P o ->
                    exists o', nth_error H' (snd kv) = Some o' /\ to_path o' = to_path o /\ Q o') ->
      aligned P H m tgts -> aligned Q H' m tgts.
    Proof.
      intros P Q H H' m tgts Himp Ha. induction Ha as [|kv t m tgts [Hk [o [Ho [Hp HP]]]] _ IH]; constructor.
      - split; [exact Hk|]. destruct (Himp kv o (or_introl eq_refl) Ho HP) as [o' [Ho' [Hp' HQ]]].
        exists o'. split; [exact Ho'|]. split; [congruence|exact HQ].
      - apply IH. intros kv' o' Hin. apply Himp. now right.
    Qed.

    Lemma tg_fs_same_paths : forall tgts tgts',
      map (fun t : target => fst t) tgts' = map (fun t : target => fst t) tgts -> map fst (tg_fs tgts') = map fst (tg_fs tgts).
    Proof.
      intros tgts tgts' E. rewrite !tg_fs_paths.
      rewrite <- (map_map (fun t : target => fst t) (fun x : Z * str => snd x) tgts').
      rewrite <- (map_map (fun t : target => fst t) (fun x : Z * str => snd x) tgts). now rewrite E.
    Qed.

    Lemma tg_fs_app : forall a b, tg_fs (a ++ b) = tg_fs a ++ tg_fs b.
    Proof. intros. unfold tg_fs. apply map_app. Qed.

    (** one database operation through a pointer = the same operation on the model's target *)
    Lemma step_sim : forall fs1 done id path d post (w : world) p o (g : tgtobj -> db -> res db),
      NoDup (map fst (tg_fs (done ++ (id, path, d) :: post))) ->
      (forall q, fs_lookup q (mw_fs w) = fs_lookup q (write_back fs1 (done ++ (id, path, d) :: post))) ->
      nth_error (mw_heap w) p = Some o -> to_path o = Some path ->
      with_target_db L w p g =
        match g o d with
        | Ok d' => MOk (set_fs L w (fs_write path d' (mw_fs w)), None)
        | Err e => MOk (w, Some e)
        end /\
      forall d' q, fs_lookup q (fs_write path d' (mw_fs w)) = fs_lookup q (write_back fs1 (done ++ (id, path, d') :: post)).
    Proof.
      intros fs1 done id path d post w p o g Hnd Hview Ho Hp.
      assert (Hnotin : ~ In path (map fst (tg_fs done))).
      { rewrite tg_fs_app, map_app in Hnd. cbn [tg_fs map fst snd] in Hnd. apply NoDup_remove_2 in Hnd.
        intros Hin. apply Hnd. apply in_or_app. now left. }
      assert (Hmid : forall d0 q, fs_lookup q (tg_fs (done ++ (id, path, d0) :: post)) =
                                 match fs_lookup q (tg_fs done) with
                                 | Some x => Some x
                                 | None => if str_eqb path q then Some d0 else fs_lookup q (tg_fs post)
                                 end).
      { intros d0 q. rewrite tg_fs_app, fs_lookup_app. reflexivity. }
      split.
      - unfold with_target_db. rewrite Ho, Hp.
        assert (Hd : fs_lookup path (mw_fs w) = Some d).
        { rewrite Hview, write_back_view by exact Hnd. rewrite Hmid, fs_lookup_notin by exact Hnotin.
          now rewrite str_eqb_refl. }
        now rewrite Hd.
      - intros d' q. rewrite fs_lookup_write.
        assert (Hnd' : NoDup (map fst (tg_fs (done ++ (id, path, d') :: post)))).
        { erewrite tg_fs_same_paths; [exact Hnd|]. rewrite !map_app. reflexivity. }
        rewrite write_back_view by exact Hnd'. rewrite Hmid.
        destruct (str_eqb path q) eqn:E.
        + apply str_eqb_eq in E. subst q. now rewrite fs_lookup_notin by exact Hnotin.
        + rewrite Hview, write_back_view by exact Hnd. rewrite Hmid, E. reflexivity.
    Qed.

    (** a loop over the map of targets, one database operation each = cmapM over the model's targets *)
    Lemma upd_sim : forall (P : tgtobj -> Prop) (gm : Z -> db -> res db) (stepg : world -> Z * tgtptr -> mres world) fs1 H,
      (forall (w : world) id (p : tgtptr) o, nth_error (mw_heap w) p = Some o -> P o ->
         exists g, (forall d, g o d = gm id d) /\
                   stepg w (id, p) = mdo (w', e) <- with_target_db L w p g;
                                     match e with None => MOk w' | Some e => MErr (Fatal (OpErr (Gpkg e))) end) ->
      forall todo mtodo done (w : world),
      aligned P H mtodo todo -> NoDup (map fst (tg_fs (done ++ todo))) -> mw_heap w = H ->
      (forall q, fs_lookup q (mw_fs w) = fs_lookup q (write_back fs1 (done ++ todo))) ->
      match cmapM (fun t : target => let '(id, path, d) := t in cdo d' <- lift (gm id d); COk (id, path, d')) todo with
      | COk todo' => exists w', mfold stepg mtodo w = MOk w' /\ mw_heap w' = H /\ mw_src w' = mw_src w /\
            (forall q, fs_lookup q (mw_fs w') = fs_lookup q (write_back fs1 (done ++ todo'))) /\
            map (fun t : target => fst t) todo' = map (fun t : target => fst t) todo
      | CErr e => mfold stepg mtodo w = MErr (Fatal (OpErr e))
      end.
    Proof.
      intros P gm stepg fs1 H Hstep. induction todo as [|[[id path] d] todo IH]; intros mtodo done w Ha Hnd Hh Hview.
      - inversion Ha; subst. cbn [cmapM mfold]. exists w. repeat split; auto.
      - inversion Ha as [|[k p] ? m' ? [Hk [o [Ho [Hp HP]]]] Ha']; subst. cbn [fst snd] in Hk, Ho, Hp. subst k.
        cbn [cmapM mfold].
        destruct (Hstep w id p o Ho HP) as [g [Hg Es]]. rewrite Es.
        destruct (step_sim fs1 done id path d todo w p o g Hnd Hview Ho Hp) as [E1 E2]. rewrite E1, Hg.
        destruct (gm id d) as [d'|e]; cbn [lift cbind mbind]; [|reflexivity].
        specialize (IH m' (done ++ [(id, path, d')]) (set_fs L w (fs_write path d' (mw_fs w))) Ha').
        rewrite <- !app_assoc in IH. cbn [app] in IH.
        assert (Hnd' : NoDup (map fst (tg_fs (done ++ (id, path, d') :: todo)))).
        { erewrite tg_fs_same_paths; [exact Hnd|]. rewrite !map_app. reflexivity. }
        specialize (IH Hnd' eq_refl (E2 d')).
        destruct (cmapM (fun t : target => let '(id0, path0, d0) := t in cdo d'0 <- lift (gm id0 d0); COk (id0, path0, d'0)) todo)
          as [todo'|e]; cbn [cbind].
        + destruct IH as [w' [Ef [Hh' [Hs' [Hv' Hm']]]]]. exists w'. split; [exact Ef|]. split; [exact Hh'|].
          split; [exact Hs'|]. split; [|cbn [map]; now rewrite Hm'].
          intros q. rewrite Hv', <- app_assoc. reflexivity.
        + exact IH.
    Qed.
  
    (** *** main.go:155-160: CreateTables on every target *)
    Definition create_step (tabs : list table) (p : tgtptr) (s : world * goerr) : mres (lctl (world * goerr)) :=
      let '(w, _) := s in
      mdo (w', e) <- op_TargetCreateTables L w p tabs;
      if negb (is_nil e) then MErr (fatal e) else MOk (Cont (w', e)).
    Definition create_stepg (tabs : list table) (w : world) (kv : Z * tgtptr) : mres world :=
      mdo (w', e) <- with_target_db L w (snd kv) (fun _ d => create_tables d tabs);
      match e with None => MOk w' | Some e => MErr (Fatal (OpErr (Gpkg e))) end.

    Lemma create_loop_mfold : forall body tabs, (forall p s, body p s = create_step tabs p s) ->
      forall (m : amap tgtptr) w e0,
      exists e', mrange_loop body (amap_values m) (w, e0) = mdo w' <- mfold (create_stepg tabs) m w; MOk (w', e').
    Proof.
      intros body tabs Hb. induction m as [|[k p] m IH]; intros w e0; [exists e0; reflexivity|].
      cbn [amap_values map snd mrange_loop mfold]. rewrite Hb. unfold create_step, op_TargetCreateTables, create_stepg.
      cbn [snd]. destruct (with_target_db L w p (fun _ d => create_tables d tabs)) as [[w1 [e|]]|err]; cbn [mbind option_map is_nil negb fatal].
      - exists None. reflexivity.
      - apply IH.
      - exists None. reflexivity.
    Qed.

    (** *** main.go:172-175: source.Table = table; target.Table = table for every target *)
    Definition settab_step (tab : table) (p : tgtptr) (s : world * srcobj L) : mres (lctl (world * srcobj L)) :=
      let '(w, so) := s in
      mdo w' <- op_SetTargetTable L w p tab; MOk (Cont (w', set_so_table L so tab)).

    Lemma settab_loop : forall body tab, (forall p s, body p s = settab_step tab p s) ->
      forall (ptrs : list tgtptr) (w : world) so, (forall p, In p ptrs -> nth_error (mw_heap w) p <> None) ->
      exists w', mrange_loop body ptrs (w, so) = MOk (w', match ptrs with [] => so | _ => set_so_table L so tab end) /\
        mw_fs w' = mw_fs w /\ mw_src w' = mw_src w /\
        forall p o, nth_error (mw_heap w) p = Some o ->
          exists o', nth_error (mw_heap w') p = Some o' /\ to_path o' = to_path o /\ to_pagesize o' = to_pagesize o /\
                     (In p ptrs -> to_table o' = Some tab) /\ (to_table o = Some tab -> to_table o' = Some tab).
    Proof.
      intros body tab Hb. induction ptrs as [|p ptrs IH]; intros w so Hv.
      - exists w. split; [reflexivity|]. split; [reflexivity|]. split; [reflexivity|].
        intros p o Ho. exists o. repeat split; auto. intros [].
      - cbn [mrange_loop]. rewrite Hb. unfold settab_step, op_SetTargetTable.
        destruct (nth_error (mw_heap w) p) as [o0|] eqn:E0; [|exfalso; apply (Hv p); [now left|exact E0]].
        cbn [mbind].
        set (w1 := set_heap L w (list_set (mw_heap w) p (MkTgtObj (to_path o0) (to_pagesize o0) (Some tab)))).
        assert (Hn1 : forall q, nth_error (mw_heap w1) q =
                  if Nat.eqb q p then Some (MkTgtObj (to_path o0) (to_pagesize o0) (Some tab)) else nth_error (mw_heap w) q).
        { intros q. unfold w1, set_heap. cbn [mw_heap]. rewrite nth_error_list_set, E0. reflexivity. }
        destruct (IH w1 (set_so_table L so tab)) as [w' [E [Hf [Hs Hh]]]].
        { intros q Hin. rewrite Hn1. destruct (Nat.eqb q p); [discriminate|]. apply Hv. now right. }
        exists w'. split.
        { rewrite E. destruct ptrs; reflexivity. }
        split; [exact Hf|]. split; [exact Hs|].
        intros q o Ho.
        destruct (Nat.eqb q p) eqn:Eq.
        + apply Nat.eqb_eq in Eq. subst q. assert (o = o0) by congruence. subst o0.
          destruct (Hh p (MkTgtObj (to_path o) (to_pagesize o) (Some tab))) as [o' [Ho' [H1 [H2 [H3 H4]]]]].
          { rewrite Hn1, Nat.eqb_refl. reflexivity. }
          exists o'. cbn in H1, H2, H4. repeat split; auto.
        + destruct (Hh q o) as [o' [Ho' [H1 [H2 [H3 H4]]]]].
          { rewrite Hn1, Eq. exact Ho. }
          exists o'. repeat split; auto. intros [->|Hin]; [now rewrite Nat.eqb_refl in Eq|auto].
    Qed.

    (** *** main.go:170-178: the tables, one after the other, through the pipeline into every target *)
    Variable tmsv : l_tms L.
    Let snapf (cfg : snapcfg) : snapfun := fun p ids => l_SnapPolygon L p tmsv ids cfg.

    Lemma find_feats_mid : forall (pre rest : msource L) tab feats,
      NoDup (map t_name (map fst (pre ++ (tab, feats) :: rest))) ->
      find_feats L (t_name tab) (pre ++ (tab, feats) :: rest) = Some feats.
    Proof.
      induction pre as [|[t f] pre IH]; intros rest tab feats Hnd.
      - cbn [app find_feats]. now rewrite String.eqb_refl.
      - cbn [app find_feats]. cbn [app map fst] in Hnd. inversion Hnd as [|? ? Hnotin Hnd']; subst.
        destruct (String.eqb_spec (t_name t) (t_name tab)) as [E|_]; [|now apply IH].
        exfalso. apply Hnotin. rewrite E, map_app, map_app. apply in_or_app. right. now left.
    Qed.

    Definition table_step (m mt : amap tgtptr) (cfg : snapcfg) (tab : table) (s : world * srcobj L)
      : mres (lctl (world * srcobj L)) :=
      let '(w, so) := s in
      mdo (w1, so1) <- mrange_loop (settab_step tab) (amap_values m) (w, so);
      mdo w2 <- gen_processBySnapping L w1 so1 mt tmsv cfg;
      MOk (Cont (w2, so1)).

    Lemma table_loop_sim : forall body (m : amap tgtptr) ids fs1,
      (forall tab s, body tab s = table_step m m (snap_config_of fl) tab s) ->
      m <> [] -> amap_keys m = ids ->
      forall (rest pre content : msource L), content = pre ++ rest -> NoDup (map t_name (map fst content)) ->
      forall (w : world) so tgts, so_content so = Some content ->
      aligned (fun o => to_pagesize o = ps) (mw_heap w) m tgts -> NoDup (map fst (tg_fs tgts)) ->
      (forall q, fs_lookup q (mw_fs w) = fs_lookup q (write_back fs1 tgts)) ->
      match cfoldM (run_table sfeat snapfun snapf (l_pipeline L) fl ids) rest tgts with
      | COk tgts' => exists w' so', mrange_loop body (map fst rest) (w, so) = MOk (w', so') /\
                       (forall q, fs_lookup q (mw_fs w') = fs_lookup q (write_back fs1 tgts'))
      | CErr e => exists e', mrange_loop body (map fst rest) (w, so) = MErr e' /\ verdict e' = Some e
      end.
    Proof.
      intros body m ids fs1 Hb Hne Hkeys. induction rest as [|[tab feats] rest IH];
        intros pre content Hc Hnd w so tgts Hso Ha Hndp Hview.
      - cbn [cfoldM map mrange_loop]. exists w, so. split; [reflexivity|exact Hview].
      - cbn [cfoldM map fst mrange_loop]. rewrite Hb. unfold table_step.
        (* the inner loop *)
        destruct (settab_loop (settab_step tab) tab (fun p s => eq_refl) (amap_values m) w so) as [w1 [E1 [Hf1 [Hs1 Hh1]]]].
        { intros p Hin. unfold amap_values in Hin. apply in_map_iff in Hin. destruct Hin as [kv [<- Hin]].
          clear - Ha Hin. induction Ha as [|kv' t m tgts [_ [o [Ho _]]] _ IH']; [destruct Hin|].
          destruct Hin as [->|Hin]; [congruence|now apply IH']. }
        assert (Eso : match amap_values m with [] => so | _ => set_so_table L so tab end = set_so_table L so tab).
        { destruct m; [contradiction|reflexivity]. }
        rewrite Eso in E1. clear Eso. rewrite E1. cbn [mbind].
        (* ProcessFeatures *)
        unfold gen_processBySnapping, op_ProcessFeatures. cbn [set_so_table so_table so_content]. rewrite Hso.
        rewrite Hc, find_feats_mid by (rewrite <- Hc; exact Hnd).
        unfold run_table at 1. cbn [fst snd]. rewrite Hkeys. fold ps.
        change (l_pipeline L (fun (v_p : l_poly L) (v_tmIDs : list Z) => l_SnapPolygon L v_p tmsv v_tmIDs (snap_config_of fl)) ids feats)
          with (l_pipeline L (snapf (snap_config_of fl)) ids feats).
        destruct (l_pipeline L (snapf (snap_config_of fl)) ids feats) as [msgs|]; cbn [cbind mbind].
        2:{ exists PipelinePanicked. split; reflexivity. }
        (* the writers *)
        assert (Ha1 : aligned (fun o => to_pagesize o = ps /\ to_table o = Some tab) (mw_heap w1) m tgts).
        { eapply aligned_impl; [|exact Ha]. intros kv o Hin Ho Hp. destruct (Hh1 _ _ Ho) as [o' [Ho' [H1 [H2 [H3 _]]]]].
          exists o'. split; [exact Ho'|]. split; [exact H1|]. split; [congruence|]. apply H3.
          unfold amap_values. apply in_map. exact Hin. }
        assert (Hview1 : forall q, fs_lookup q (mw_fs w1) = fs_lookup q (write_back fs1 ([] ++ tgts))).
        { intros q. rewrite Hf1. apply Hview. }
        assert (Hstep : forall (w0 : world) id (p : tgtptr) o, nth_error (mw_heap w0) p = Some o ->
                  to_pagesize o = ps /\ to_table o = Some tab ->
                  exists g, (forall d, g o d = write_features ps tab d (route id msgs)) /\
                    write_target L msgs w0 (id, p) = mdo (w', e) <- with_target_db L w0 p g;
                                                    match e with None => MOk w' | Some e => MErr (Fatal (OpErr (Gpkg e))) end).
        { intros w0 id p o Ho [Hps Htab].
          exists (fun o d => write_features (to_pagesize o) tab d (route id msgs)). split; [intros d; now rewrite Hps|].
          unfold write_target. cbn [fst snd]. now rewrite Ho, Htab. }
        assert (HU := upd_sim _ (fun id d => write_features ps tab d (route id msgs)) (write_target L msgs) fs1 (mw_heap w1)
                              Hstep tgts m [] w1 Ha1 Hndp eq_refl Hview1).
        cbn [app] in HU.
        destruct (cmapM (fun t : target => let '(id, path, d) := t in
                           cdo d' <- lift (write_features ps tab d (route id msgs)); COk (id, path, d')) tgts)
          as [tgts1|e] eqn:Ecm.
        2:{ rewrite HU. cbn [mbind]. exists (Fatal (OpErr e)). split; reflexivity. }
        destruct HU as [w2 [Ef [Hh2 [Hs2 [Hv2 Hm2]]]]]. rewrite Ef. cbn [mbind].
        apply (IH (pre ++ [(tab, feats)]) content).
        + rewrite <- app_assoc. exact Hc.
        + exact Hnd.
        + exact Hso.
        + rewrite Hh2. eapply aligned_same_ids; [|exact Hm2].
          eapply aligned_impl; [|exact Ha1]. intros kv o _ Ho [Hp _]. exists o. auto.
        + erewrite tg_fs_same_paths; [exact Hndp|exact Hm2].
        + exact Hv2.
    Qed.
  End Run.

  Lemma copy_loop : forall (body : Z * tgtptr -> amap tgtptr -> mres (lctl (amap tgtptr))),
    (forall kv acc, body kv acc = MOk (Cont (amap_set (fst kv) (snd kv) acc))) ->
    forall m acc, mrange_loop body m acc = MOk (fold_left (fun a (kv : Z * tgtptr) => amap_set (fst kv) (snd kv) a) m acc).
  Proof.
    intros body Hb. induction m as [|kv m IH]; intros acc; [reflexivity|].
    cbn [mrange_loop fold_left]. rewrite Hb. apply IH.
  Qed.

  Lemma run_defers_id : forall dfr (w : world), dfr_id dfr -> run_defers L dfr w = w.
  Proof.
    unfold run_defers. induction dfr as [|f dfr IH]; intros w H; [reflexivity|].
    inversion H as [|? ? Hf Hr]; subst. cbn [fold_left]. rewrite Hf. now apply IH.
  Qed.

  (** *** the whole run *)
  Theorem source_tie_main : forall c fs0 srcs,
    (forall src, src_lookup L (cx_String c "sourceGpkg") srcs = Some src -> NoDup (map t_name (map fst src))) ->
    same_outcome (gen_main L (MkWorld fs0 srcs []) c) (model_run c fs0 srcs).
  Proof.
    intros c fs0 srcs Hsrc.
    unfold model_run, cli_run, args_of. cbn [a_tms_ok a_source a_target a_ids a_flags].
    unfold gen_main, op_app_Run, gen_Action.
    assert (Et : tms_of c = fst (l_LoadTms L (cx_String c "tilematrixset"))) by reflexivity.
    assert (Ei : ids_of c = fst (l_Unmarshal L (cx_String c "tilematrices"))) by reflexivity.
    unfold tms_args_ok, op_LoadTms, op_Unmarshal.
    destruct (l_LoadTms L (cx_String c "tilematrixset")) as [tmsv e1]. cbn [fst snd] in Et |- *.
    rewrite lib_err_nil.
    destruct (is_nil e1) eqn:N1; cbn [negb andb].
    2:{ cbn [run_defers fold_left mbind]. rewrite lib_err_nil, N1. cbn [negb].
        destruct e1; [reflexivity|discriminate]. }
    destruct (l_Unmarshal L (cx_String c "tilematrices")) as [ids e2]. cbn [fst snd] in Ei |- *.
    rewrite lib_err_nil.
    destruct (is_nil e2) eqn:N2; cbn [negb andb].
    2:{ cbn [run_defers fold_left mbind]. rewrite lib_err_nil, N2. cbn [negb].
        destruct e2; [reflexivity|discriminate]. }
    rewrite Et, Ei.
    destruct (gen_validateTileMatrixSet_spec L tmsv ids) as [e3 [Ev [Hn3 Ht3]]]. rewrite Ev. cbn [mbind].
    rewrite <- Hn3.
    destruct (is_nil e3) eqn:N3; cbn [negb].
    2:{ cbn [run_defers fold_left mbind]. rewrite N3. cbn [negb]. specialize (Ht3 eq_refl).
        destruct e3 as [[?|?| |?]|]; try contradiction; reflexivity. }
    assert (Hids : ids <> []) by (apply (validate_ok_nonempty L tmsv); now symmetry).
    (* the source *)
    unfold op_Stat, op_SourceInit. cbn [mw_src mw_fs mw_heap].
    destruct (src_lookup L (cx_String c "sourceGpkg") srcs) as [src|] eqn:Es; cbn [op_IsNotExist].
    2:{ reflexivity. }
    specialize (Hsrc src eq_refl).
    rewrite gen_injectSuffixIntoPath_spec. cbn [mbind].
    set (fl := flags_of c). set (tgt := cx_String c "targetGpkg").
    (* the targets *)
    match goal with |- context [mrange_loop ?b ids ?s] => set (B1 := b) end.
    assert (HB1 : forall id s, B1 id s = init_step fl tgt id s) by (intros id [[? ?] ?]; reflexivity).
    destruct ids as [|id0 ids'] eqn:Eids; [contradiction|]. rewrite <- Eids in *.
    assert (Hin0 : In id0 ids) by (rewrite Eids; now left).
    destruct (inject tgt id0) as [path0|] eqn:Einj0.
    2:{ rewrite Eids at 1. rewrite (init_loop_unsafe fl tgt B1 HB1) by exact Einj0. cbn [mbind].
        destruct (distinct_ids ids) as [|id1 r] eqn:Ed.
        { exfalso. apply (proj2 (distinct_ids_In ids id0)) in Hin0. now rewrite Ed in Hin0. }
        cbn [cfoldM]. unfold init_target at 1.
        destruct (inject tgt id1) eqn:Einj1; [|reflexivity].
        exfalso. apply (inject_total_iff tgt id1 id0); [congruence|exact Einj0]. }
    assert (Hall : forall id, inject tgt id <> None).
    { intros id. apply (inject_total_iff tgt id0 id). congruence. }
    assert (Hsafe : forall id, In id ids -> sprintf_v (inject_format tgt) id = Some (tpath tgt id)).
    { intros id _. specialize (Hall id). unfold tpath. unfold inject in *. now destruct (sprintf_v (inject_format tgt) id). }
    match goal with |- context [mrange_loop B1 ids (?w0, ?d0, ?m0)] =>
      destruct (init_loop_ok fl tgt B1 HB1 ids w0 d0 m0 Hsafe) as [w1 [dfr1 [m1 [E1 [Hfs1 [Hsrc1 [Hk1 [Hg1 Hd1]]]]]]]]
    end.
    { intros id p []. }
    { constructor; [reflexivity|constructor]. }
    rewrite E1. cbn [mbind]. cbn [mw_fs mw_src mw_heap amap_make amap_keys map] in Hfs1, Hsrc1, Hk1.
    rewrite fold_kset_distinct in Hk1.
    destruct (model_init_ok fl tgt fs0 (distinct_ids ids) (distinct_ids_NoDup ids) (fun id _ => Hall id)) as [fs1 [Em Hq]].
    rewrite Em. cbn [cbind].
    assert (Hview1 := after_init_view fl tgt fs0 ids fs1 (mw_fs w1) (fun id _ => Hall id) Hq Hfs1).
    assert (Ha1 : aligned (fun o => to_pagesize o = fl_pagesize fl) (mw_heap w1) m1 (tgts0 fl tgt fs0 (distinct_ids ids))).
    { rewrite <- Hk1. unfold tgts0.
      apply (good_map_aligned fl tgt _ _ _ (fun id => start_content fl fs0 (tpath tgt id))); [reflexivity|exact Hg1]. }
    assert (Hnd1 := tgts0_paths_NoDup fl tgt fs0 (distinct_ids ids) (distinct_ids_NoDup ids) (fun id _ => Hall id)).
    (* CreateTables *)
    cbn [op_GetTableInfo so_content].
    match goal with |- context [mrange_loop ?b (amap_values m1) ?s] => set (B2 := b) end.
    assert (HB2 : forall p s, B2 p s = create_step (map fst src) p s) by (intros p [? ?]; reflexivity).
    match goal with |- context [mrange_loop B2 (amap_values m1) (w1, ?e0)] =>
      destruct (create_loop_mfold B2 (map fst src) HB2 m1 w1 e0) as [e' Ec]
    end.
    rewrite Ec. clear Ec.
    assert (HU := upd_sim (fun o => to_pagesize o = fl_pagesize fl) (fun _ d => create_tables d (map fst src))
                    (create_stepg (map fst src)) fs1 (mw_heap w1)
                    (fun w id p o _ _ => ex_intro _ (fun _ d => create_tables d (map fst src)) (conj (fun d => eq_refl) eq_refl))
                    (tgts0 fl tgt fs0 (distinct_ids ids)) m1 [] w1 Ha1 Hnd1 eq_refl Hview1).
    cbn [app] in HU.
    match type of HU with match ?X with _ => _ end =>
      change (cmapM (create_in (map fst src)) (tgts0 fl tgt fs0 (distinct_ids ids))) with X; destruct X as [tgts1|e] end.
    2:{ rewrite HU. cbn [mbind cbind]. unfold same_outcome. reflexivity. }
    destruct HU as [w2 [Ef [Hh2 [Hs2 [Hv2 Hm2]]]]]. rewrite Ef. cbn [mbind cbind].
    assert (Ha2 : aligned (fun o => to_pagesize o = fl_pagesize fl) (mw_heap w2) m1 tgts1).
    { rewrite Hh2. eapply aligned_same_ids; [exact Ha1|exact Hm2]. }
    assert (Hnd2 : NoDup (map fst (tg_fs tgts1))).
    { erewrite tg_fs_same_paths; [exact Hnd1|exact Hm2]. }
    (* the copy of the map *)
    match goal with |- context [mrange_loop ?b m1 (amap_make ?z)] =>
      rewrite (copy_loop b); [|intros [? ?] ?; reflexivity] end.
    unfold amap_make. rewrite (amap_copy _ m1 []) by (cbn [app]; rewrite Hk1; apply distinct_ids_NoDup).
    cbn [app mbind].
    (* the tables *)
    match goal with |- context [mrange_loop ?b (map fst src) ?s] => set (B4 := b) end.
    assert (HB4 : forall tab s, B4 tab s = table_step tmsv m1 m1 (snap_config_of fl) tab s) by (intros tab [? ?]; reflexivity).
    assert (Hne : m1 <> []).
    { intros ->. cbn in Hk1. apply (proj2 (distinct_ids_In ids id0)) in Hin0. now rewrite <- Hk1 in Hin0. }
    assert (HT := table_loop_sim fl tmsv B4 m1 (distinct_ids ids) fs1 HB4 Hne Hk1 src [] src eq_refl Hsrc w2
                    (MkSrcObj (Some src) (so_table (src_zero L))) tgts1 eq_refl Ha2 Hnd2 Hv2).
    unfold snap_of. rewrite Et.
    match type of HT with match ?X with _ => _ end => destruct X as [tgts2|e] end.
    - destruct HT as [w3 [so3 [E3 Hv3]]]. rewrite E3. cbn [mbind cbind is_nil negb].
      rewrite run_defers_id by exact Hd1. exact Hv3.
    - destruct HT as [e4 [E4 Hv4]]. rewrite E4. cbn [mbind cbind]. exact Hv4.
  Qed.

  (** since F21 the tool never ends because fmt.Sprintf was handed a format outside the model *)
  Theorem gen_main_never_unsafe_format : forall c fs0 srcs,
    (forall src, src_lookup L (cx_String c "sourceGpkg") srcs = Some src -> NoDup (map t_name (map fst src))) ->
    gen_main L (MkWorld fs0 srcs []) c <> MErr UnsafeFormat.
  Proof.
    intros c fs0 srcs Hsrc E. assert (H := source_tie_main c fs0 srcs Hsrc). rewrite E in H.
    unfold same_outcome in H. destruct (model_run c fs0 srcs) as [fs|e] eqn:Em; [contradiction|].
    cbn [verdict] in H. injection H as <-. unfold model_run in Em.
    now apply cli_run_never_unsafe_path in Em.
  Qed.
End Main.

(** ** 5. Corollaries *)

(** the target path of a tile matrix, computed by the REGENERATED injectSuffixIntoPath followed by fmt.Sprintf
    (initGPKGTarget): for EVERY given path the format is inside the model of fmt.Sprintf and the result is the path with
    _<id> inserted before the extension *)
Theorem target_path_total_gen : forall p id,
  (mdo f <- gen_injectSuffixIntoPath p; op_Sprintf f id) = MOk (target_path p id).
Proof.
  intros p id. rewrite gen_injectSuffixIntoPath_spec. cbn [mbind]. unfold op_Sprintf.
  assert (H := inject_spec p id). unfold inject in H. now rewrite H.
Qed.

(** ... in particular for the paths made of proper elements of [target_path_spec] *)
Theorem target_path_spec_gen : forall rooted comps n e id,
  Forall comp_ok comps -> name_ok n e -> ext_ok e ->
  (mdo f <- gen_injectSuffixIntoPath (render_dir rooted comps ++ n ++ e); op_Sprintf f id) =
  MOk (render_dir rooted comps ++ n ++ s_ "_" ++ dec id ++ e).
Proof.
  intros rooted comps n e id Hc Hn He. rewrite target_path_total_gen. f_equal. now apply target_path_plain.
Qed.

(** every flag the Action reads is declared in app.Flags with the kind of the accessor *)
Definition flag_declared (u : string * string) : bool :=
  existsb (fun d : string * string * bool * string =>
             String.eqb (fst (fst (fst d))) (snd u) && String.eqb (snd (fst (fst d))) (fst u)) gen_flag_decls.

Lemma flags_used_are_declared : forallb flag_declared gen_flag_uses = true.
Proof. vm_compute. reflexivity. Qed.

(** the flags [args_of] reads are exactly the flags the Action reads (as sets), and -pagesize defaults to 1000 *)
Lemma flags_used_by_args_of :
  forallb (fun n => existsb (fun u => String.eqb (snd u) n) gen_flag_uses)
          ["tilematrixset"; "tilematrices"; "sourceGpkg"; "targetGpkg"; "overwrite"; "pagesize";
           "keeppointsandlines"; "ignoreoutsidegrid"; "reversewindingorder"]%string = true /\
  forallb (fun u : string * string =>
             existsb (String.eqb (snd u))
                     ["tilematrixset"; "tilematrices"; "sourceGpkg"; "targetGpkg"; "overwrite"; "pagesize";
                      "keeppointsandlines"; "ignoreoutsidegrid"; "reversewindingorder"]%string) gen_flag_uses = true /\
  existsb (fun d : string * string * bool * string =>
             String.eqb (fst (fst (fst d))) "pagesize" && String.eqb (snd d) "1000") gen_flag_decls = true.
Proof. vm_compute. repeat split. Qed.
