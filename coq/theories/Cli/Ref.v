(** * Cli/Ref.v — a concrete instance of the Section variables of Cli/Model.v, used by the
      correspondence (Corr/C13.v) and by the non-vacuity examples (Properties/C13.v).  Definitions only.

    A source feature comes WITH what the snapping library returned for it under one configuration
    (observed by the harness through library calls): per tile matrix id the geometry to deliver, an id
    that is absent meaning "feature omitted for that tile matrix"; [None] = the library panics on it.
    [ref_pipeline] is the declarative fan-out of processing.ProcessFeatures: per feature, per id in
    order, one delivery (attributes of the source feature, delivered geometry). *)
From Coq Require Import ZArith NArith List Bool String.
From Texel Require Import Gpkg.Model Cli.Model.
Import ListNotations.
Open Scope Z_scope.

Record rfeat := MkRFeat { rf_attrs : list value; rf_out : option (list (Z * geom)) }.

Fixpoint lookup_geom (id : Z) (l : list (Z * geom)) : option geom :=
  match l with
  | [] => None
  | (k, g) :: r => if Z.eqb k id then Some g else lookup_geom id r
  end.

(** the library, asked under configuration [cfg], answers with the recorded results only when [cfg]
    is the configuration they were recorded under *)
Definition ref_snap (recorded : snapcfg) (cfg : snapcfg) : bool := snapcfg_eqb cfg recorded.

Definition deliveries (ids : list Z) (f : rfeat) : option (list (Z * feature)) :=
  match rf_out f with
  | None => None
  | Some out =>
      Some (flat_map (fun id => match lookup_geom id out with
                                | Some g => [(id, MkFeature (rf_attrs f) g)]
                                | None => []
                                end) ids)
  end.

Fixpoint ref_deliver_all (ids : list Z) (fs : list rfeat) : option (list (Z * feature)) :=
  match fs with
  | [] => Some []
  | f :: r => match deliveries ids f, ref_deliver_all ids r with
              | Some a, Some b => Some (a ++ b)
              | _, _ => None
              end
  end.

Definition ref_pipeline (valid : bool) (ids : list Z) (fs : list rfeat) : option (list (Z * feature)) :=
  if valid then ref_deliver_all ids fs else None.

Definition ref_cli_run (recorded : snapcfg) : args rfeat -> fsys -> cres fsys :=
  cli_run rfeat bool (ref_snap recorded) ref_pipeline.

Definition ref_file_content (recorded : snapcfg) :=
  file_content rfeat bool (ref_snap recorded) ref_pipeline.
