(** * Cli/ProofsRows.v — what every table of every target file holds (C13 from C12):
      the rows of table t in the file of tile matrix id are the features the pipeline delivers to id
      for t, one row each, in delivery order; extent, rtree and description as in C12. *)
From Coq Require Import ZArith NArith List Bool String Ascii Lia.
From Texel Require Import Gpkg.Model Gpkg.Proofs Cli.Model Cli.Proofs.
Import ListNotations.
Open Scope Z_scope.

Section Rows.
  Variable sfeat : Type.
  Variable snapfun : Type.
  Variable snap : snapcfg -> snapfun.
  Variable pipeline : snapfun -> list Z -> list sfeat -> option (list (Z * feature)).

  Local Notation table_into := (table_into sfeat snapfun snap pipeline).
  Local Notation file_content := (file_content sfeat snapfun snap pipeline).

  Definition tname (tf : table * list sfeat) : string := t_name (fst tf).

  Lemma lift_ok : forall A (r : res A) a, lift r = COk a -> r = Ok a.
  Proof. intros A [x|e] a H; cbn in H; [now injection H as ->|discriminate]. Qed.

  Lemma tables_into_other : forall fl ids id src d d' m,
    cfoldM (table_into fl ids id) src d = COk d' -> ~ In m (map tname src) ->
    find_tab m (db_tabs d') = find_tab m (db_tabs d).
  Proof.
    intros fl ids id; induction src as [|tf src IH]; intros d d' m H Hm; cbn [cfoldM] in H; [now injection H as <-|].
    destruct (table_into fl ids id d tf) as [d1|] eqn:E; [|discriminate]. cbn [cbind] in H.
    rewrite (IH _ _ _ H) by (intros Hin; apply Hm; now right).
    unfold Cli.Model.table_into in E. destruct (pipeline (snap (snap_config_of fl)) ids (snd tf)); [|discriminate].
    apply lift_ok in E. eapply write_features_other; eauto. intros ->. apply Hm. now left.
  Qed.

  (** every table, after all tables went through the pipeline into the file of [id] *)
  Lemma tables_into_rows : forall fl ids id src d d',
    0 < fl_pagesize fl ->
    cfoldM (table_into fl ids id) src d = COk d' ->
    NoDup (map tname src) ->
    (forall tf, In tf src -> find_tab (tname tf) (db_tabs d) = Some (fresh_tab (fst tf)) /\
                             has_col (t_gcol (fst tf)) (t_cols (fst tf)) = true) ->
    (forall tf msgs f, In tf src -> pipeline (snap (snap_config_of fl)) ids (snd tf) = Some msgs ->
                       In f (route id msgs) -> fits (fst tf) f = true) ->
    forall tf, In tf src -> exists msgs rs,
      pipeline (snap (snap_config_of fl)) ids (snd tf) = Some msgs /\
      rows_for (fst tf) (route id msgs) rs /\
      find_tab (tname tf) (db_tabs d') = Some (apply_rows (fresh_tab (fst tf)) (route id msgs) rs).
  Proof.
    intros fl ids id; induction src as [|tf0 src IH]; intros d d' Hp H Hnd Hfresh Hfits tf Hin; [destruct Hin|].
    cbn [cfoldM] in H. destruct (table_into fl ids id d tf0) as [d1|] eqn:E; [|discriminate]. cbn [cbind] in H.
    cbn [map] in Hnd. inversion Hnd as [|? ? Hnotin Hnd']; subst.
    unfold Cli.Model.table_into in E.
    destruct (pipeline (snap (snap_config_of fl)) ids (snd tf0)) as [msgs|] eqn:Ep; [|discriminate].
    apply lift_ok in E.
    destruct (Hfresh tf0 (or_introl eq_refl)) as [Hf0 Hg0].
    assert (Hfit0 : Forall (fun f => fits (fst tf0) f = true) (route id msgs)).
    { apply Forall_forall. intros f Hf. eapply Hfits; eauto. now left. }
    destruct (write_features_spec (fst tf0) (fl_pagesize fl) (route id msgs) d (fresh_tab (fst tf0)) Hp Hf0 Hg0 Hfit0)
      as [rs [d1' [Hrs [Hrun [_ [Ht _]]]]]].
    rewrite E in Hrun. injection Hrun as <-.
    destruct Hin as [<-|Hin].
    - exists msgs, rs. split; [exact Ep|]. split; [exact Hrs|].
      rewrite (tables_into_other _ _ _ _ _ _ _ H Hnotin).
      apply (written_table (fst tf0) d d1 (fresh_tab (fst tf0)) _ Hf0 Ht). reflexivity.
    - apply (IH d1 d'); auto.
      + intros tf' Hin'. destruct (Hfresh tf' (or_intror Hin')) as [Hf' Hg']. split; [|exact Hg'].
        rewrite Ht. rewrite find_replace_other; [exact Hf'|reflexivity|].
        intros Heq. apply Hnotin. change (tname tf' = tname tf0) in Heq. rewrite <- Heq. now apply in_map.
      + intros tf' msgs' f Hin'. apply Hfits. now right.
  Qed.

  (** *** the content of a NEW (or overwritten) target file, table by table *)
  Theorem file_content_rows : forall fl (src : source sfeat) ids id d,
    0 < fl_pagesize fl ->
    Forall table_ok (map fst src) -> NoDup (map t_name (map fst src)) ->
    (forall t t', In t (map fst src) -> In t' (map fst src) -> s_id (t_srs t) = s_id (t_srs t') -> t_srs t = t_srs t') ->
    (forall tf msgs f, In tf src -> pipeline (snap (snap_config_of fl)) ids (snd tf) = Some msgs ->
                       In f (route id msgs) -> fits (fst tf) f = true) ->
    file_content fl src ids id empty_db = COk d ->
    map ts_desc (db_tabs d) = map desc_of (map fst src) /\
    forall tf, In tf src -> exists msgs rs ts,
      pipeline (snap (snap_config_of fl)) ids (snd tf) = Some msgs /\
      find_tab (t_name (fst tf)) (db_tabs d) = Some ts /\
      ts_rows ts = rs /\ map (row_of (fst tf)) (route id msgs) = map Some rs /\
      ts_extent ts = pts_ext (all_pts (route id msgs)) /\
      ts_rtree ts = rtree_of 0 (route id msgs) /\
      ts_desc ts = desc_of (fst tf).
  Proof.
    intros fl src ids id d Hp Hok Hnd Hcons Hfits H. unfold Cli.Model.file_content in H.
    destruct (create_tables_fresh (map fst src) Hok Hnd Hcons) as [d0 [Hc [Hdesc Hall]]].
    rewrite Hc in H. cbn [lift cbind] in H.
    assert (Hnd' : NoDup (map tname src)) by (now rewrite map_map in Hnd).
    assert (Hfresh : forall tf, In tf src -> find_tab (tname tf) (db_tabs d0) = Some (fresh_tab (fst tf)) /\
                                          has_col (t_gcol (fst tf)) (t_cols (fst tf)) = true).
    { intros tf Hin. assert (Hin' : In (fst tf) (map fst src)) by now apply in_map.
      destruct (Hall _ Hin') as [Hf _]. split; [exact Hf|]. now destruct (table_ok_in _ _ Hok Hin'). }
    split.
    - (* descriptions are those CreateTables registered: writing keeps them *)
      rewrite <- Hdesc. clear - H. revert d0 d H. induction src as [|tf src IH]; intros d0 d H; cbn [cfoldM] in H.
      + now injection H as <-.
      + destruct (table_into fl ids id d0 tf) as [d1|] eqn:E; [|discriminate]. cbn [cbind] in H.
        rewrite (IH _ _ H). unfold Cli.Model.table_into in E.
        destruct (pipeline (snap (snap_config_of fl)) ids (snd tf)); [|discriminate]. apply lift_ok in E.
        clear - E. unfold write_features in E.
        assert (G : forall fs w d', (do w' <- foldM recv fs w; close w') = Ok d' ->
                      map ts_desc (db_tabs d') = map ts_desc (db_tabs (w_db w))).
        { induction fs as [|f fs IHf]; intros w d' H; cbn [foldM bind] in H.
          - unfold close in H. revert H. generalize (w_table w) (w_db w) (w_buf w). clear. intros t d fs H.
            unfold flush in H. destruct (find_tab (t_name t) (db_tabs d)) as [ts|] eqn:Ef; [|discriminate].
            destruct (foldM (insert_row t) fs ts) as [ts1|] eqn:Ei; [|discriminate]. cbn [bind] in H. injection H as <-.
            cbn [db_tabs]. apply insert_rows_desc in Ei. revert Ef. generalize (db_tabs d). induction l as [|y l IHl]; intros Ef; [reflexivity|].
            cbn [find_tab replace_tab] in *. destruct (String.eqb (td_name (ts_desc y)) (t_name t)).
            + injection Ef as ->. cbn [map ts_desc]. now rewrite Ei.
            + cbn [map]. f_equal. now apply IHl.
          - destruct (recv w f) as [w1|] eqn:Er; [|discriminate]. cbn [bind] in H.
            rewrite (IHf _ _ H). unfold recv in Er. destruct (w_p w =? 0); [discriminate|].
            destruct (Z.rem (Z.of_nat (List.length (w_buf w ++ [f]))) (w_p w) =? 0).
            + destruct (flush (w_table w) (w_db w) (w_buf w ++ [f])) as [d2|] eqn:Efl; [|discriminate]. cbn [bind] in Er.
              injection Er as <-. cbn [w_db].
              revert Efl. generalize (w_table w) (w_db w) (w_buf w ++ [f]). clear. intros t d fs H.
              unfold flush in H. destruct (find_tab (t_name t) (db_tabs d)) as [ts|] eqn:Ef; [|discriminate].
              destruct (foldM (insert_row t) fs ts) as [ts1|] eqn:Ei; [|discriminate]. cbn [bind] in H. injection H as <-.
              cbn [db_tabs]. apply insert_rows_desc in Ei. revert Ef. generalize (db_tabs d). induction l as [|y l IHl]; intros Ef; [reflexivity|].
              cbn [find_tab replace_tab] in *. destruct (String.eqb (td_name (ts_desc y)) (t_name t)).
              * injection Ef as ->. cbn [map ts_desc]. now rewrite Ei.
              * cbn [map]. f_equal. now apply IHl.
            + injection Er as <-. reflexivity. }
        exact (G _ _ _ E).
    - intros tf Hin.
      destruct (tables_into_rows fl ids id src d0 d Hp H Hnd' Hfresh Hfits tf Hin) as [msgs [rs [Hpipe [Hrs Hfind]]]].
      exists msgs, rs. eexists. split; [exact Hpipe|]. split; [exact Hfind|].
      unfold apply_rows, fresh_tab; cbn [ts_desc ts_rows ts_extent ts_rtree app List.length].
      repeat split; auto. now rewrite merge_none_l.
  Qed.
End Rows.
