(** * Cli/Model.v — executable model of the command line tool /repo/main.go (C13).

    Definitions only.  Proofs are in Cli/Proofs.v.

    What is MODELLED rather than verified — C13 is partial in this sense:
    - urfave/cli: flag parsing is the record [flags]; which flag feeds which option is [snap_config_of]
      (main.go:142-148), held to the binary by the end-to-end correspondence (Corr/C13.v);
    - the file system: a finite map from paths to GeoPackage contents ([fsys]); [os.Remove] removes the
      entry, [gpkg.Open] creates an initialised empty GeoPackage when there is none;
    - SQLite / the GeoPackage library: the abstract database of Gpkg/Model.v;
    - [path.Split], [path.Ext], [path.Join] (with [path.Clean]), [strings.ReplaceAll(p, "%", "%%")] and
      [fmt.Sprintf] with the verbs [%v] (once) and [%%]: re-implemented below over strings as lists of characters;
    - the snapping library and the processing pipeline are the Section variables [snap] and [pipeline]
      (the models of the Snap and Pipe areas): the CLI is a composition of them with the writer. *)
From Coq Require Import ZArith NArith List Bool String Ascii DecimalString.
From Texel Require Import Gpkg.Model.
Import ListNotations.
Open Scope Z_scope.

Definition str := list ascii.

Definition slash : ascii := "/"%char.
Definition dot : ascii := "."%char.
Definition percent : ascii := "%"%char.

Definition s_ (s : string) : str := list_ascii_of_string s.

Fixpoint str_eqb (a b : str) : bool :=
  match a, b with
  | [], [] => true
  | x :: a', y :: b' => Ascii.eqb x y && str_eqb a' b'
  | _, _ => false
  end.

(** ** path.Split, path.Ext (package path, slash-separated) *)

Fixpoint take_until (c : ascii) (s : str) : str :=
  match s with
  | [] => []
  | x :: r => if Ascii.eqb x c then [] else x :: take_until c r
  end.

Fixpoint drop_until (c : ascii) (s : str) : str :=     (* the rest, starting AT the first c *)
  match s with
  | [] => []
  | x :: r => if Ascii.eqb x c then s else drop_until c r
  end.

(** path.Split: i := LastIndex(p, "/"); return p[:i+1], p[i+1:] *)
Definition path_split (p : str) : str * str :=
  let r := rev p in (rev (drop_until slash r), rev (take_until slash r)).

(** path.Ext on a slash-free name: the suffix beginning at the final dot; empty if there is no dot *)
Definition path_ext (file : str) : str :=
  let r := rev file in
  match drop_until dot r with
  | [] => []
  | _ => dot :: rev (take_until dot r)
  end.

(** file[:len(file)-len(ext)] *)
Definition strip_ext (file : str) : str := firstn (List.length file - List.length (path_ext file)) file.

(** ** path.Clean / path.Join *)

Fixpoint split_on (c : ascii) (s : str) : list str :=
  match s with
  | [] => [[]]
  | x :: r => if Ascii.eqb x c then [] :: split_on c r
              else match split_on c r with
                   | h :: t => (x :: h) :: t
                   | [] => [[x]]
                   end
  end.

Fixpoint join_with (c : ascii) (l : list str) : str :=
  match l with
  | [] => []
  | [x] => x
  | x :: r => x ++ c :: join_with c r
  end.

(** one path element against the stack of kept elements (most recent first) *)
Definition clean_step (rooted : bool) (st : list str) (comp : str) : list str :=
  if str_eqb comp [] || str_eqb comp [dot] then st
  else if str_eqb comp [dot; dot] then
    match st with
    | top :: rest => if str_eqb top [dot; dot] then comp :: st else rest
    | [] => if rooted then [] else [comp]
    end
  else comp :: st.

Definition path_clean (p : str) : str :=
  match p with
  | [] => [dot]
  | c0 :: _ =>
      let rooted := Ascii.eqb c0 slash in
      let st := fold_left (clean_step rooted) (split_on slash p) [] in
      let body := join_with slash (rev st) in
      match (if rooted then slash :: body else body) with
      | [] => [dot]
      | r => r
      end
  end.

(** path.Join of two elements: empty elements are ignored, the result is cleaned *)
Definition path_join2 (a b : str) : str :=
  match a, b with
  | [], [] => []
  | [], _ => path_clean b
  | _, [] => path_clean a
  | _, _ => path_clean (a ++ slash :: b)
  end.

(** strings.ReplaceAll(p, "%", "%%"): every percent sign doubled (F21: the result of injectSuffixIntoPath is used
    as a FORMAT; a percent sign of the given path has to stand for itself) *)
Fixpoint escape_percent (s : str) : str :=
  match s with
  | [] => []
  | c :: r => if Ascii.eqb c percent then percent :: percent :: escape_percent r else c :: escape_percent r
  end.

(** injectSuffixIntoPath main.go:232 without its first statement (the function as it was before the repair F21) *)
Definition inject_format_raw (p : str) : str :=
  let (dir, file) := path_split p in
  let ext := path_ext file in
  let name := strip_ext file in
  path_join2 dir (name ++ s_ "_%v" ++ ext).

(** injectSuffixIntoPath main.go:232: p = strings.ReplaceAll(p, "%", "%%"), then Split / Ext / Join on the ESCAPED path *)
Definition inject_format (p : str) : str := inject_format_raw (escape_percent p).

(** ** Decimal printing ([%v] of an int) *)
Definition dec (z : Z) : str := s_ (NilZero.string_of_int (Z.to_int z)).

Fixpoint count_char (c : ascii) (s : str) : nat :=
  match s with [] => O | x :: r => (if Ascii.eqb x c then 1 else 0) + count_char c r end.

(** fmt.Sprintf(format) WITHOUT arguments left, for a format whose only verb is [%%] (a literal percent sign).
    Any other verb ([%v] would print %!v(MISSING)), or a '%' at the very end (%!(NOVERB)), is outside the model: [None]. *)
Fixpoint sprintf_lits (fmt : str) : option str :=
  match fmt with
  | [] => Some []
  | c :: r =>
      if Ascii.eqb c percent then
        match r with
        | v :: r' => if Ascii.eqb v percent then option_map (cons percent) (sprintf_lits r') else None
        | [] => None
        end
      else option_map (cons c) (sprintf_lits r)
  end.

(** fmt.Sprintf(format, id) for an int [id] and a format made of plain characters, [%%] (prints a percent sign) and
    EXACTLY ONE [%v] (prints the id in decimal).  Everything else is outside the model, [None]: another verb or a flag
    after '%' ("%d", "%20v", "%_": Go prints the argument in another way or "%!_(int=5)"), a '%' at the very end
    ("%!(NOVERB)"), no [%v] at all ("%!(EXTRA int=5)"), a second [%v] ("%!v(MISSING)"). *)
Fixpoint sprintf_v (fmt : str) (id : Z) : option str :=
  match fmt with
  | [] => None
  | c :: r =>
      if Ascii.eqb c percent then
        match r with
        | v :: r' =>
            if Ascii.eqb v percent then option_map (cons percent) (sprintf_v r' id)
            else if Ascii.eqb v "v"%char then option_map (app (dec id)) (sprintf_lits r')
            else None
        | [] => None
        end
      else option_map (cons c) (sprintf_v r id)
  end.

(** the target path for a tile matrix id (initGPKGTarget main.go:217) *)
Definition inject (p : str) (id : Z) : option str := sprintf_v (inject_format p) id.

(** what the property says the target of tile matrix [id] is: the given path with "_<id>" inserted before the
    extension of its last element (and cleaned as path.Join does); no format, no escaping *)
Definition target_path (p : str) (id : Z) : str :=
  let (dir, file) := path_split p in
  path_join2 dir (strip_ext file ++ s_ "_" ++ dec id ++ path_ext file).

(** ** Flags (main.go:45-114) and their plumbing (main.go:142-148) *)
Record flags := MkFlags {
  fl_overwrite : bool;          (* -overwrite / -o *)
  fl_pagesize : Z;              (* -pagesize / -p, default 1000 *)
  fl_keep : bool;               (* -keeppointsandlines / -pl *)
  fl_ignore : bool;             (* -ignoreoutsidegrid / -iog *)
  fl_reverse : bool             (* -reversewindingorder / -rwo *)
}.

(** snap.Config *)
Record snapcfg := MkSnapCfg { sc_keep : bool; sc_ignore : bool; sc_reverse : bool }.

Definition snap_config_of (f : flags) : snapcfg := MkSnapCfg (fl_keep f) (fl_ignore f) (fl_reverse f).

Definition snapcfg_eqb (a b : snapcfg) : bool :=
  Bool.eqb (sc_keep a) (sc_keep b) && Bool.eqb (sc_ignore a) (sc_ignore b) && Bool.eqb (sc_reverse a) (sc_reverse b).

(** ** The file system: GeoPackage files by (cleaned) path *)
Definition fsys := list (str * db).

Fixpoint fs_lookup (p : str) (fs : fsys) : option db :=
  match fs with
  | [] => None
  | (q, d) :: r => if str_eqb q p then Some d else fs_lookup p r
  end.

Fixpoint fs_remove (p : str) (fs : fsys) : fsys :=
  match fs with
  | [] => []
  | (q, d) :: r => if str_eqb q p then fs_remove p r else (q, d) :: fs_remove p r
  end.

Definition fs_write (p : str) (d : db) (fs : fsys) : fsys := (p, d) :: fs_remove p fs.

(** ** Errors of a run (exit status <> 0) *)
Inductive cerr :=
| InvalidTms             (* LoadEmbeddedTileMatrixSet / json.Unmarshal / validateTileMatrixSet: error returned *)
| NoSource               (* os.Stat(source): log.Fatalf *)
| UnsafePath             (* fmt.Sprintf on a format outside the model; since F21 no target path leads here (Proofs.inject_spec) *)
| PipelinePanic          (* the processing pipeline panics (e.g. a polygon outside the grid without -iog) *)
| Gpkg (e : gerr).       (* a target writer stops the process *)

Inductive cres (A : Type) := COk (a : A) | CErr (e : cerr).
Arguments COk {A} a.
Arguments CErr {A} e.

Definition cbind {A B} (r : cres A) (f : A -> cres B) : cres B :=
  match r with COk a => f a | CErr e => CErr e end.
Notation "'cdo' x <- r ; k" := (cbind r (fun x => k)) (at level 200, x pattern, r at level 100, k at level 200).

Definition lift {A} (r : res A) : cres A := match r with Ok a => COk a | Err e => CErr (Gpkg e) end.

Fixpoint cmapM {A B} (f : A -> cres B) (l : list A) : cres (list B) :=
  match l with
  | [] => COk []
  | a :: r => cdo b <- f a; cdo bs <- cmapM f r; COk (b :: bs)
  end.

Fixpoint cfoldM {A S} (f : S -> A -> cres S) (l : list A) (s : S) : cres S :=
  match l with
  | [] => COk s
  | a :: r => cdo s' <- f s a; cfoldM f r s'
  end.

Fixpoint memz (x : Z) (l : list Z) : bool :=
  match l with [] => false | y :: r => Z.eqb y x || memz x r end.

(** the keys of the map gpkgTargets (main.go:139-151): ONE target per DISTINCT requested id, however often
    the id is listed in -tilematrices.  main.go calls initGPKGTarget once per list element and stores the
    result under the id; a repeated call re-opens the same path (with -overwrite: removes and re-creates
    it), which leaves the file system and the map as one call does.  CreateTables, the per-table state
    and processing.ProcessFeatures all range over the MAP.  The map has no order: last occurrences here. *)
Fixpoint distinct_ids (l : list Z) : list Z :=
  match l with [] => [] | y :: r => if memz y r then distinct_ids r else y :: distinct_ids r end.

(** what one target gets out of the pipeline's deliveries: its own, in delivery order
    (writeFeaturesToTargets processing.go:97-108) *)
Definition route (id : Z) (msgs : list (Z * feature)) : list feature :=
  map snd (filter (fun m => Z.eqb (fst m) id) msgs).

Section Cli.
  (** a source feature, the snapping library under a configuration, and the processing pipeline:
      the models of other areas.  [pipeline f ids feats] = everything ProcessFeatures delivers for one
      table, tagged with the tile matrix id, in an order that respects each target's delivery order;
      [None] = it panics. *)
  Variable sfeat : Type.
  Variable snapfun : Type.
  Variable snap : snapcfg -> snapfun.
  Variable pipeline : snapfun -> list Z -> list sfeat -> option (list (Z * feature)).

  (** the source GeoPackage: GetTableInfo order, and per table what ReadFeatures yields *)
  Definition source := list (table * list sfeat).

  Record args := MkArgs {
    a_tms_ok : bool;               (* the -tms / -z arguments load, parse and pass validateTileMatrixSet *)
    a_source : option source;      (* None: the source file does not exist *)
    a_target : str;                (* -targetGpkg *)
    a_ids : list Z;                (* -tilematrices, as listed (an id may occur more than once) *)
    a_flags : flags
  }.

  (** an open target: tile matrix id, path, content *)
  Definition target := (Z * str * db)%type.

  (** initGPKGTarget main.go:207: with overwrite the old file is removed BEFORE Init; gpkg.Open then
      creates and initialises a file if there is none *)
  Definition init_target (fl : flags) (tgt : str) (st : fsys * list target) (id : Z) : cres (fsys * list target) :=
    let (fs, acc) := st in
    match inject tgt id with
    | None => CErr UnsafePath
    | Some path =>
        let fs1 := if fl_overwrite fl then fs_remove path fs else fs in
        let d := match fs_lookup path fs1 with Some d => d | None => empty_db end in
        COk (fs_write path d fs1, acc ++ [(id, path, d)])
    end.

  (** main.go:155-160 *)
  Definition create_in (tabs : list table) (t : target) : cres target :=
    let '(id, path, d) := t in cdo d' <- lift (create_tables d tabs); COk (id, path, d').

  (** main.go:170-178: one table through the pipeline into every target *)
  Definition run_table (fl : flags) (ids : list Z) (tgts : list target) (tf : table * list sfeat) : cres (list target) :=
    match pipeline (snap (snap_config_of fl)) ids (snd tf) with
    | None => CErr PipelinePanic
    | Some msgs =>
        cmapM (fun t : target => let '(id, path, d) := t in
                 cdo d' <- lift (write_features (fl_pagesize fl) (fst tf) d (route id msgs)); COk (id, path, d')) tgts
    end.

  Definition write_back (fs : fsys) (tgts : list target) : fsys :=
    fold_left (fun fs (t : target) => let '(_, path, d) := t in fs_write path d fs) tgts fs.

  (** the Action of main.go:116-182 *)
  Definition cli_run (a : args) (fs0 : fsys) : cres fsys :=
    if negb (a_tms_ok a) then CErr InvalidTms
    else match a_source a with
    | None => CErr NoSource
    | Some src =>
        let ids := distinct_ids (a_ids a) in
        cdo st <- cfoldM (init_target (a_flags a) (a_target a)) ids (fs0, []);
        let (fs1, tgts0) := st in
        cdo tgts1 <- cmapM (create_in (map fst src)) tgts0;
        cdo tgts2 <- cfoldM (run_table (a_flags a) ids) src tgts1;
        COk (write_back fs1 tgts2)
    end.

  (** ** The composition the property states, file by file *)

  (** the content of the file of tile matrix [id], starting from content [start] *)
  Definition table_into (fl : flags) (ids : list Z) (id : Z) (d : db) (tf : table * list sfeat) : cres db :=
    match pipeline (snap (snap_config_of fl)) ids (snd tf) with
    | None => CErr PipelinePanic
    | Some msgs => lift (write_features (fl_pagesize fl) (fst tf) d (route id msgs))
    end.

  Definition file_content (fl : flags) (src : source) (ids : list Z) (id : Z) (start : db) : cres db :=
    cdo d0 <- lift (create_tables start (map fst src));
    cfoldM (table_into fl ids id) src d0.

  (** what [gpkg.Open] finds at [path] when the run starts *)
  Definition start_content (fl : flags) (fs0 : fsys) (path : str) : db :=
    if fl_overwrite fl then empty_db
    else match fs_lookup path fs0 with Some d => d | None => empty_db end.
End Cli.

Arguments MkArgs {sfeat}.
Arguments a_tms_ok {sfeat}.
Arguments a_source {sfeat}.
Arguments a_target {sfeat}.
Arguments a_ids {sfeat}.
Arguments a_flags {sfeat}.
