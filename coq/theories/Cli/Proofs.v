(** * Cli/Proofs.v — theorems about the command line tool model (C13):
      decimal printing is injective, target paths are distinct, the run is the per-file composition of
      pipeline and writer (loop interchange: tables outside, targets inside = file by file), overwrite
      forgets, and — with the C12 theorems — the rows of every table of every file. *)
From Coq Require Import ZArith NArith List Bool String Ascii Lia DecimalString DecimalZ DecimalPos.
From Texel Require Import Gpkg.Model Gpkg.Proofs Cli.Model.
Import ListNotations.
Open Scope Z_scope.

Local Notation len := List.length.

(** ** 1. Strings *)

Lemma str_eqb_eq : forall a b, str_eqb a b = true <-> a = b.
Proof.
  induction a as [|x a IH]; intros [|y b]; cbn; split; try congruence; intros H.
  - apply andb_prop in H. destruct H as [H1 H2]. apply Ascii.eqb_eq in H1. apply IH in H2. congruence.
  - injection H as -> ->. rewrite Ascii.eqb_refl. cbn. now apply IH.
Qed.

Lemma str_eqb_refl : forall a, str_eqb a a = true.
Proof. intros; now apply str_eqb_eq. Qed.

Lemma str_eqb_neq : forall a b, str_eqb a b = false <-> a <> b.
Proof.
  intros a b. destruct (str_eqb a b) eqn:E.
  - apply str_eqb_eq in E. split; [discriminate|contradiction].
  - split; [|reflexivity]. intros _ H. apply str_eqb_eq in H. congruence.
Qed.

Lemma s_inj : forall a b, s_ a = s_ b -> a = b.
Proof.
  intros a b H. unfold s_ in H.
  rewrite <- (string_of_list_ascii_of_string a), <- (string_of_list_ascii_of_string b). now rewrite H.
Qed.

(** ** 2. Decimal printing of ids is injective *)

Lemma to_int_not_nil : forall z, Z.to_int z <> Decimal.Pos Decimal.Nil /\ Z.to_int z <> Decimal.Neg Decimal.Nil.
Proof.
  intros [|p|p]; cbn; split; try discriminate; intros H; injection H as H; now apply Unsigned.to_uint_nonnil in H.
Qed.

Theorem dec_injective : forall a b, dec a = dec b -> a = b.
Proof.
  intros a b H. unfold dec in H. apply s_inj in H.
  destruct (to_int_not_nil a) as [A1 A2]. destruct (to_int_not_nil b) as [B1 B2].
  assert (E : Some (Z.to_int a) = Some (Z.to_int b)).
  { rewrite <- (NilZero.isi _ A1 A2), <- (NilZero.isi _ B1 B2). now rewrite H. }
  injection E as E. rewrite <- (DecimalZ.of_to a), <- (DecimalZ.of_to b). now rewrite E.
Qed.

(** ** 3. Distinct ids give distinct target files *)

Lemma sprintf_v_shape_n : forall n fmt id r, (len fmt <= n)%nat -> sprintf_v fmt id = Some r ->
  exists pre suf, (forall id', sprintf_v fmt id' = Some (pre ++ dec id' ++ suf)).
Proof.
  induction n as [|n IH]; intros fmt id r Hn H.
  - destruct fmt; [discriminate|cbn [len] in Hn; lia].
  - destruct fmt as [|c fmt]; [discriminate|]. cbn [sprintf_v] in H.
    destruct (Ascii.eqb c percent) eqn:Ec.
    + destruct fmt as [|v fmt']; [discriminate|].
      destruct (Ascii.eqb v percent) eqn:Ev.
      * destruct (sprintf_v fmt' id) as [r'|] eqn:E; [|discriminate].
        destruct (IH fmt' id r') as [pre [suf Hs]]; [cbn [len] in Hn; lia|exact E|].
        exists (percent :: pre), suf. intros id'. cbn [sprintf_v]. rewrite Ec, Ev, Hs. reflexivity.
      * destruct (Ascii.eqb v "v") eqn:Evv; [|discriminate].
        destruct (sprintf_lits fmt') as [l|] eqn:El; [|discriminate].
        exists [], l. intros id'. cbn [sprintf_v]. rewrite Ec, Ev, Evv, El. reflexivity.
    + destruct (sprintf_v fmt id) as [r'|] eqn:E; [|discriminate].
      destruct (IH fmt id r') as [pre [suf Hs]]; [cbn [len] in Hn; lia|exact E|].
      exists (c :: pre), suf. intros id'. cbn [sprintf_v]. rewrite Ec, Hs. reflexivity.
Qed.

Lemma sprintf_v_shape : forall fmt id r, sprintf_v fmt id = Some r ->
  exists pre suf, (forall id', sprintf_v fmt id' = Some (pre ++ dec id' ++ suf)).
Proof. intros fmt id r. apply (sprintf_v_shape_n (len fmt)). lia. Qed.

Theorem target_paths_distinct : forall p id id' r,
  inject p id = Some r -> inject p id' = Some r -> id = id'.
Proof.
  unfold inject. intros p id id' r H H'.
  destruct (sprintf_v_shape _ _ _ H) as [pre [suf Hs]].
  rewrite Hs in H, H'. rewrite <- H' in H. injection H as H.
  apply app_inv_head in H. apply app_inv_tail in H. now apply dec_injective.
Qed.

Lemma inject_total_iff : forall p id id', inject p id <> None -> inject p id' <> None.
Proof.
  unfold inject. intros p id id' H. destruct (sprintf_v (inject_format p) id) as [r|] eqn:E; [|contradiction].
  destruct (sprintf_v_shape _ _ _ E) as [pre [suf Hs]]. rewrite Hs. discriminate.
Qed.

(** ** 4. target_path_spec: for a path made of proper elements the target is dir/name_<id>ext.
    (Until the repair F21 the two predicates below also excluded the percent sign.) *)

Definition safe_char (c : ascii) : Prop := c <> slash.
Definition plain_char (c : ascii) : Prop := c <> slash /\ c <> dot.

(** a directory element: non-empty, safe characters, not "." or ".." *)
Definition comp_ok (s : str) : Prop := s <> [] /\ Forall safe_char s /\ s <> [dot] /\ s <> [dot; dot].

(** extension: empty, or a dot followed by plain characters *)
Definition ext_ok (e : str) : Prop := e = [] \/ exists e', e = dot :: e' /\ Forall plain_char e'.

(** name: safe characters; no dot when there is no extension (else the last dot would start one) *)
Definition name_ok (n e : str) : Prop := Forall safe_char n /\ (e = [] -> Forall plain_char n).

(** "/" ++ c1 ++ "/" ++ c2 ++ "/" ... : every element followed by a slash *)
Definition render_dir (rooted : bool) (comps : list str) : str :=
  (if rooted then [slash] else []) ++ List.concat (map (fun c => c ++ [slash]) comps).

Lemma take_until_app_noc : forall c a b, ~ In c a -> take_until c (a ++ c :: b) = a.
Proof.
  induction a as [|x a IH]; intros b H; cbn.
  - now rewrite Ascii.eqb_refl.
  - destruct (Ascii.eqb_spec x c) as [->|_]; [exfalso; apply H; now left|]. f_equal. apply IH. intros Hin; apply H; now right.
Qed.

Lemma drop_until_app_noc : forall c a b, ~ In c a -> drop_until c (a ++ c :: b) = c :: b.
Proof.
  induction a as [|x a IH]; intros b H; cbn.
  - now rewrite Ascii.eqb_refl.
  - destruct (Ascii.eqb_spec x c) as [->|_]; [exfalso; apply H; now left|]. apply IH. intros Hin; apply H; now right.
Qed.

Lemma take_until_noc : forall c a, ~ In c a -> take_until c a = a.
Proof.
  induction a as [|x a IH]; intros H; cbn; [reflexivity|].
  destruct (Ascii.eqb_spec x c) as [->|_]; [exfalso; apply H; now left|]. f_equal. apply IH. intros Hin; apply H; now right.
Qed.

Lemma drop_until_noc : forall c a, ~ In c a -> drop_until c a = [].
Proof.
  induction a as [|x a IH]; intros H; cbn; [reflexivity|].
  destruct (Ascii.eqb_spec x c) as [->|_]; [exfalso; apply H; now left|]. apply IH. intros Hin; apply H; now right.
Qed.

Lemma not_in_rev : forall (c : ascii) a, ~ In c a -> ~ In c (rev a).
Proof. intros c a H Hin. apply H. now apply in_rev. Qed.

(** path.Split on  <something ending in a slash, or nothing> ++ <slash-free file> *)
Lemma path_split_spec : forall d file, ~ In slash file -> (d = [] \/ exists d', d = d' ++ [slash]) ->
  path_split (d ++ file) = (d, file).
Proof.
  intros d file Hf Hd. unfold path_split. rewrite rev_app_distr.
  destruct Hd as [->|[d' ->]].
  - cbn [rev app]. rewrite app_nil_r, take_until_noc, drop_until_noc by now apply not_in_rev.
    cbn. now rewrite rev_involutive.
  - rewrite rev_app_distr. cbn [rev app].
    rewrite take_until_app_noc, drop_until_app_noc by now apply not_in_rev.
    rewrite rev_involutive. f_equal. cbn [rev]. now rewrite rev_involutive.
Qed.

Lemma forall_plain_no_dot : forall s, Forall plain_char s -> ~ In dot s.
Proof. intros s H Hin. rewrite Forall_forall in H. destruct (H _ Hin) as [_ Hd]. now apply Hd. Qed.

Lemma forall_safe_no_slash : forall s, Forall safe_char s -> ~ In slash s.
Proof. intros s H Hin. rewrite Forall_forall in H. now apply (H _ Hin). Qed.

Lemma forall_plain_safe : forall s, Forall plain_char s -> Forall safe_char s.
Proof. intros s H. eapply Forall_impl; [|exact H]. intros a [H1 _]. exact H1. Qed.

Lemma path_ext_spec : forall n e, name_ok n e -> ext_ok e -> path_ext (n ++ e) = e.
Proof.
  intros n e [Hn Hne] [->|[e' [-> He']]]; unfold path_ext.
  - rewrite app_nil_r. rewrite drop_until_noc; [reflexivity|]. apply not_in_rev, forall_plain_no_dot. now apply Hne.
  - rewrite rev_app_distr. cbn [rev]. rewrite <- app_assoc. cbn [app].
    rewrite drop_until_app_noc, take_until_app_noc by (apply not_in_rev, forall_plain_no_dot; assumption).
    now rewrite rev_involutive.
Qed.

Lemma strip_ext_spec : forall n e, name_ok n e -> ext_ok e -> strip_ext (n ++ e) = n.
Proof.
  intros n e Hn He. unfold strip_ext. rewrite path_ext_spec by assumption.
  rewrite app_length. replace (len n + len e - len e)%nat with (len n + 0)%nat by lia.
  rewrite firstn_app_2. cbn. now rewrite app_nil_r.
Qed.

(** splitting at slashes *)
Lemma split_on_nonempty : forall c s, split_on c s <> [].
Proof.
  induction s as [|x s IH]; cbn; [discriminate|].
  destruct (Ascii.eqb x c); [discriminate|]. destruct (split_on c s); [contradiction|discriminate].
Qed.

Lemma split_on_app : forall c a b, split_on c (a ++ c :: b) = split_on c a ++ split_on c b.
Proof.
  induction a as [|x a IH]; intros b; cbn [app split_on].
  - now rewrite Ascii.eqb_refl.
  - destruct (Ascii.eqb x c); [now rewrite IH|].
    rewrite IH. destruct (split_on c a) as [|h t] eqn:E; [now apply split_on_nonempty in E|reflexivity].
Qed.

Lemma split_on_noc : forall c s, ~ In c s -> split_on c s = [s].
Proof.
  induction s as [|x s IH]; intros H; cbn; [reflexivity|].
  destruct (Ascii.eqb_spec x c) as [->|_]; [exfalso; apply H; now left|].
  rewrite IH; [reflexivity|]. intros Hin; apply H; now right.
Qed.

Lemma split_on_dir : forall comps rest, Forall comp_ok comps ->
  split_on slash (List.concat (map (fun c => c ++ [slash]) comps) ++ rest) = comps ++ split_on slash rest.
Proof.
  induction comps as [|c comps IH]; intros rest H; [reflexivity|].
  inversion H as [|? ? [_ [Hc _]] H']; subst. cbn [map List.concat]. rewrite <- !app_assoc. cbn [app].
  rewrite split_on_app, split_on_noc by now apply forall_safe_no_slash. cbn [app]. f_equal. now apply IH.
Qed.

Lemma clean_step_ok : forall rooted st c, comp_ok c -> clean_step rooted st c = c :: st.
Proof.
  intros rooted st c [H1 [_ [H2 H3]]]. unfold clean_step.
  apply str_eqb_neq in H1, H2, H3. rewrite H1, H2, H3. reflexivity.
Qed.

Lemma clean_fold_ok : forall rooted comps st, Forall comp_ok comps ->
  fold_left (clean_step rooted) comps st = rev comps ++ st.
Proof.
  induction comps as [|c comps IH]; intros st H; [reflexivity|].
  inversion H; subst. cbn [fold_left rev]. rewrite clean_step_ok, IH, <- app_assoc by assumption. reflexivity.
Qed.

Lemma join_with_cons : forall c x r, r <> [] -> join_with c (x :: r) = x ++ c :: join_with c r.
Proof. intros c x [|y r] H; [contradiction|reflexivity]. Qed.

Lemma join_with_render : forall comps f, f <> [] ->
  join_with slash (comps ++ [f]) = List.concat (map (fun c => c ++ [slash]) comps) ++ f.
Proof.
  induction comps as [|c comps IH]; intros f Hf; [reflexivity|].
  cbn [app map List.concat]. rewrite <- app_assoc. cbn [app].
  rewrite join_with_cons by (destruct comps; discriminate). rewrite IH by assumption. now rewrite <- !app_assoc.
Qed.

Lemma in_app_fmt : forall (c : ascii) n e, In c (n ++ s_ "_%v" ++ e) ->
  In c n \/ c = "_"%char \/ c = percent \/ c = "v"%char \/ In c e.
Proof.
  intros c n e H. apply in_app_or in H. destruct H as [H|H]; [now left|].
  cbn in H. destruct H as [H|[H|[H|H]]]; auto.
Qed.

Lemma ext_ok_no_slash : forall e, ext_ok e -> ~ In slash e.
Proof.
  intros e [->|[e' [-> He']]]; [intros []|]. intros [H|H]; [discriminate|].
  rewrite Forall_forall in He'. destruct (He' _ H) as [Hs _]. now apply Hs.
Qed.

(** Clean(Join(dir, file)) = dir ++ file for a directory made of proper elements *)
Definition dirstr (comps : list str) : str := List.concat (map (fun c => c ++ [slash]) comps).

Lemma path_clean_eq : forall p c0 rest, p = c0 :: rest ->
  path_clean p =
  match (if Ascii.eqb c0 slash
         then slash :: join_with slash (rev (fold_left (clean_step (Ascii.eqb c0 slash)) (split_on slash p) []))
         else join_with slash (rev (fold_left (clean_step (Ascii.eqb c0 slash)) (split_on slash p) []))) with
  | [] => [dot]
  | r => r
  end.
Proof. intros; subst; reflexivity. Qed.

Definition file_elem_ok (f : str) : Prop := f <> [] /\ ~ In slash f /\ f <> [dot] /\ f <> [dot; dot].

Lemma clean_step_file : forall r st f, file_elem_ok f -> clean_step r st f = f :: st.
Proof.
  intros r st f [H1 [_ [H2 H3]]]. unfold clean_step. apply str_eqb_neq in H1, H2, H3. now rewrite H1, H2, H3.
Qed.

Lemma clean_step_empty : forall r st, clean_step r st [] = st.
Proof. reflexivity. Qed.

Lemma fold_dir_file : forall r comps f st, Forall comp_ok comps -> file_elem_ok f ->
  fold_left (clean_step r) (comps ++ [[]; f]) st = f :: rev comps ++ st.
Proof.
  intros r comps f st Hc Hf. rewrite fold_left_app, (clean_fold_ok r comps st Hc).
  cbn [fold_left]. now rewrite clean_step_empty, clean_step_file.
Qed.

Lemma split_dir_file : forall comps f, Forall comp_ok comps -> ~ In slash f ->
  split_on slash (dirstr comps ++ slash :: f) = comps ++ [[]; f].
Proof.
  intros comps f Hc Hf. unfold dirstr. rewrite split_on_dir by assumption.
  cbn [split_on]. rewrite Ascii.eqb_refl. now rewrite split_on_noc.
Qed.

Lemma dirstr_cons_head : forall c comps rest, comp_ok c ->
  exists x tl0, dirstr (c :: comps) ++ rest = x :: tl0 /\ x <> slash.
Proof.
  intros c comps rest [Hne [Hs _]]. destruct c as [|x c]; [contradiction|].
  exists x. eexists. split; [unfold dirstr; cbn; reflexivity|]. inversion Hs as [|? ? Hx _]; subst. exact Hx.
Qed.

Lemma rev_cons_rev : forall A (x : A) l, rev (x :: rev l) = l ++ [x].
Proof. intros; cbn [rev]. now rewrite rev_involutive. Qed.

Lemma clean_join_spec : forall rooted comps f,
  Forall comp_ok comps -> file_elem_ok f ->
  path_join2 (render_dir rooted comps) f = render_dir rooted comps ++ f.
Proof.
  intros rooted comps f Hc Hf. assert (Hf' := Hf). destruct Hf' as [Hf1 [Hf2 [Hf3 Hf4]]].
  unfold render_dir. fold (dirstr comps).
  destruct rooted.
  - (* "/" ++ dir ++ "/" ++ f *)
    cbn [app]. unfold path_join2. destruct f as [|x f'] eqn:Ef; [contradiction|]. rewrite <- Ef in *.
    rewrite (path_clean_eq _ slash (dirstr comps ++ slash :: f)) by reflexivity.
    rewrite Ascii.eqb_refl. cbn [app split_on]. rewrite Ascii.eqb_refl.
    rewrite split_dir_file by assumption. cbn [fold_left]. rewrite clean_step_empty.
    rewrite fold_dir_file by assumption. rewrite app_nil_r, rev_cons_rev.
    rewrite join_with_render by assumption. reflexivity.
  - cbn [app]. destruct comps as [|c comps].
    + (* no directory: Clean(f) *)
      cbn. unfold path_join2. destruct f as [|x f'] eqn:Ef; [contradiction|]. rewrite <- Ef in *.
      rewrite (path_clean_eq f x f') by assumption.
      assert (Hx : Ascii.eqb x slash = false).
      { apply Ascii.eqb_neq. intros ->. apply Hf2. rewrite Ef. now left. }
      rewrite Hx. rewrite split_on_noc by assumption. cbn [fold_left]. rewrite clean_step_file by assumption.
      cbn [rev app join_with]. rewrite Ef. reflexivity.
    + inversion Hc as [|? ? Hc1 Hc2]; subst.
      destruct (dirstr_cons_head c comps [] Hc1) as [x [tl0 [Ehd Hx]]]. rewrite app_nil_r in Ehd.
      unfold path_join2. rewrite Ehd. destruct f as [|y f'] eqn:Ef; [contradiction|]. rewrite <- Ef, <- Ehd in *.
      destruct (dirstr_cons_head c comps (slash :: f) Hc1) as [x' [tl1 [Ehd1 Hx']]].
      rewrite (path_clean_eq _ x' tl1) by assumption.
      assert (Hxs : Ascii.eqb x' slash = false) by now apply Ascii.eqb_neq.
      rewrite Hxs. rewrite split_dir_file by assumption. rewrite fold_dir_file by assumption.
      rewrite app_nil_r, rev_cons_rev. rewrite join_with_render by assumption. fold (dirstr (c :: comps)).
      destruct (dirstr (c :: comps) ++ f) eqn:E2; [|reflexivity].
      exfalso. destruct (dirstr_cons_head c comps f Hc1) as [? [? [E3 _]]]. congruence.
Qed.

(** ** 4a. The percent signs of the given path are doubled first (F21): the escaped string goes through
    path.Split / path.Ext / the slicing / path.Join (Clean) like the given one — no slash and no dot is touched —
    and fmt.Sprintf turns every doubled percent sign back into one.  For EVERY path. *)

Local Notation esc := escape_percent.

Lemma esc_app : forall a b, esc (a ++ b) = esc a ++ esc b.
Proof.
  induction a as [|x a IH]; intros b; cbn [app escape_percent]; [reflexivity|].
  rewrite IH. destruct (Ascii.eqb x percent); reflexivity.
Qed.

Lemma esc_cons_other : forall c s, Ascii.eqb c percent = false -> esc (c :: s) = c :: esc s.
Proof. intros c s H. cbn [escape_percent]. now rewrite H. Qed.

Lemma esc_rev : forall s, esc (rev s) = rev (esc s).
Proof.
  induction s as [|x s IH]; [reflexivity|]. cbn [rev]. rewrite esc_app, IH. cbn [escape_percent].
  destruct (Ascii.eqb x percent); cbn [rev app]; [now rewrite <- app_assoc|reflexivity].
Qed.

Lemma esc_nil_iff : forall s, esc s = [] <-> s = [].
Proof.
  intros [|x s]; [tauto|]. cbn [escape_percent]. destruct (Ascii.eqb x percent); split; discriminate.
Qed.

Lemma esc_inj : forall a b, esc a = esc b -> a = b.
Proof.
  induction a as [|x a IH]; intros [|y b] H.
  - reflexivity.
  - symmetry in H. change (esc []) with (@nil ascii) in H. apply (proj1 (esc_nil_iff _)) in H. discriminate.
  - change (esc []) with (@nil ascii) in H. apply (proj1 (esc_nil_iff _)) in H. discriminate.
  - cbn [escape_percent] in H.
    destruct (Ascii.eqb_spec x percent) as [->|Hx]; destruct (Ascii.eqb_spec y percent) as [->|Hy].
    + injection H as H. f_equal. now apply IH.
    + injection H as H1 H2. congruence.
    + injection H as H1 H2. congruence.
    + injection H as -> H. f_equal. now apply IH.
Qed.

Lemma str_eqb_esc : forall a b, str_eqb (esc a) (esc b) = str_eqb a b.
Proof.
  intros a b. destruct (str_eqb a b) eqn:E.
  - apply str_eqb_eq in E. subst. apply str_eqb_refl.
  - apply str_eqb_neq. apply str_eqb_neq in E. intros H. apply E. now apply esc_inj.
Qed.

Lemma esc_take_until : forall c s, Ascii.eqb percent c = false -> take_until c (esc s) = esc (take_until c s).
Proof.
  intros c s Hc. induction s as [|x s IH]; [reflexivity|].
  cbn [escape_percent]. destruct (Ascii.eqb x percent) eqn:Ep.
  - apply Ascii.eqb_eq in Ep. subst x. cbn [take_until]. rewrite Hc. cbn [escape_percent].
    rewrite Ascii.eqb_refl. now rewrite IH.
  - cbn [take_until]. destruct (Ascii.eqb x c); [reflexivity|]. cbn [escape_percent]. rewrite Ep. now rewrite IH.
Qed.

Lemma esc_drop_until : forall c s, Ascii.eqb percent c = false -> drop_until c (esc s) = esc (drop_until c s).
Proof.
  intros c s Hc. induction s as [|x s IH]; [reflexivity|].
  cbn [escape_percent]. destruct (Ascii.eqb x percent) eqn:Ep.
  - apply Ascii.eqb_eq in Ep. subst x. cbn [drop_until]. rewrite Hc. exact IH.
  - cbn [drop_until]. destruct (Ascii.eqb x c); [|exact IH]. cbn [escape_percent]. now rewrite Ep.
Qed.

Lemma In_esc : forall c s, In c (esc s) <-> In c s.
Proof.
  intros c. induction s as [|x s IH]; [tauto|]. cbn [escape_percent].
  destruct (Ascii.eqb_spec x percent) as [->|_]; cbn [In]; rewrite IH; tauto.
Qed.

(** path.Split *)
Lemma path_split_esc : forall p, path_split (esc p) = (esc (fst (path_split p)), esc (snd (path_split p))).
Proof.
  intros p. unfold path_split. cbn [fst snd]. rewrite <- esc_rev.
  rewrite esc_drop_until, esc_take_until by reflexivity. now rewrite !esc_rev.
Qed.

(** path.Ext *)
Lemma path_ext_esc : forall f, path_ext (esc f) = esc (path_ext f).
Proof.
  intros f. unfold path_ext. cbv zeta. rewrite <- esc_rev.
  rewrite esc_drop_until, esc_take_until by reflexivity.
  destruct (drop_until dot (rev f)) as [|y l]; [reflexivity|].
  rewrite (esc_cons_other dot) by reflexivity. rewrite esc_rev.
  cbn [escape_percent]. destruct (Ascii.eqb y percent); reflexivity.
Qed.

Lemma take_until_no_c : forall c s, ~ In c (take_until c s).
Proof.
  induction s as [|x s IH]; cbn; [tauto|].
  destruct (Ascii.eqb_spec x c) as [->|Hne]; cbn; [tauto|]. intros [H|H]; [now apply Hne|now apply IH].
Qed.

Lemma take_drop_until : forall c s, take_until c s ++ drop_until c s = s.
Proof.
  induction s as [|x s IH]; cbn; [reflexivity|].
  destruct (Ascii.eqb x c); cbn; [reflexivity|]. now rewrite IH.
Qed.

Lemma drop_until_head : forall c s y l, drop_until c s = y :: l -> y = c.
Proof.
  induction s as [|x s IH]; intros y l H; [discriminate|]. cbn [drop_until] in H.
  destruct (Ascii.eqb_spec x c) as [->|_]; [now injection H as -> _|]. now apply IH in H.
Qed.

Lemma path_split_file_no_slash : forall p, ~ In slash (snd (path_split p)).
Proof. intros p. unfold path_split. cbn [snd]. intros H. apply in_rev in H. now apply take_until_no_c in H. Qed.

(** the extension is a suffix of the name; file[:len(file)-len(ext)] is the rest *)
Lemma path_ext_suffix : forall f, exists n, f = n ++ path_ext f.
Proof.
  intros f. unfold path_ext. cbv zeta. assert (E := take_drop_until dot (rev f)).
  destruct (drop_until dot (rev f)) as [|y l] eqn:Ed.
  - exists f. now rewrite app_nil_r.
  - apply drop_until_head in Ed. subst y. exists (rev l).
    assert (Hf : f = rev (take_until dot (rev f) ++ dot :: l)) by (rewrite E; symmetry; apply rev_involutive).
    rewrite Hf at 1. rewrite rev_app_distr. cbn [rev]. now rewrite <- app_assoc.
Qed.

Lemma strip_ext_unique : forall f n, n ++ path_ext f = f -> strip_ext f = n.
Proof.
  intros f n H. unfold strip_ext. remember (path_ext f) as e eqn:He. clear He. subst f.
  rewrite app_length. replace (len n + len e - len e)%nat with (len n + 0)%nat by lia.
  rewrite firstn_app_2. cbn [firstn]. now rewrite app_nil_r.
Qed.

Lemma strip_ext_app : forall f, strip_ext f ++ path_ext f = f.
Proof.
  intros f. destruct (path_ext_suffix f) as [n Hn]. rewrite (strip_ext_unique f n); now symmetry.
Qed.

Lemma strip_ext_esc : forall f, strip_ext (esc f) = esc (strip_ext f).
Proof.
  intros f. apply strip_ext_unique. rewrite path_ext_esc, <- esc_app. now rewrite strip_ext_app.
Qed.

(** path.Join(dir, file) = path.Clean(dir + "/" + file): the last element is a proper file name (it contains the "_"
    of the suffix), so Clean only works on the directory *)
Definition clean_dir (a : str) : str :=
  match a with
  | [] => []
  | c0 :: _ =>
      (if Ascii.eqb c0 slash then [slash] else []) ++
      dirstr (rev (fold_left (clean_step (Ascii.eqb c0 slash)) (split_on slash a) []))
  end.

Lemma path_join_file : forall a f, file_elem_ok f -> path_join2 a f = clean_dir a ++ f.
Proof.
  intros a f Hf. assert (Hf' := Hf). destruct Hf' as [Hf1 [Hf2 [Hf3 Hf4]]].
  destruct f as [|y f'] eqn:Ef; [contradiction|]. rewrite <- Ef in *.
  destruct a as [|c0 a'] eqn:Ea.
  - cbn [clean_dir app]. unfold path_join2. rewrite Ef. rewrite <- Ef.
    rewrite (path_clean_eq f y f') by assumption.
    assert (Hy : Ascii.eqb y slash = false).
    { apply Ascii.eqb_neq. intros ->. apply Hf2. rewrite Ef. now left. }
    rewrite Hy. rewrite split_on_noc by assumption. cbn [fold_left]. rewrite clean_step_file by assumption.
    cbn [rev app join_with]. now rewrite Ef.
  - rewrite <- Ea. unfold path_join2. rewrite Ea, Ef. rewrite <- Ea, <- Ef.
    rewrite (path_clean_eq (a ++ slash :: f) c0 (a' ++ slash :: f)) by (now rewrite Ea).
    rewrite split_on_app, (split_on_noc slash f) by assumption.
    rewrite fold_left_app. cbn [fold_left]. rewrite clean_step_file by assumption.
    cbn [rev]. rewrite join_with_render by assumption.
    unfold clean_dir. rewrite Ea. rewrite <- Ea. fold (dirstr (rev (fold_left (clean_step (Ascii.eqb c0 slash)) (split_on slash a) []))).
    destruct (Ascii.eqb c0 slash); [reflexivity|]. cbn [app].
    destruct (dirstr (rev (fold_left (clean_step false) (split_on slash a) [])) ++ f) eqn:E2; [|reflexivity].
    exfalso. apply app_eq_nil in E2. destruct E2 as [_ E2]. contradiction.
Qed.

Lemma split_on_esc : forall s, split_on slash (esc s) = map esc (split_on slash s).
Proof.
  induction s as [|x s IH]; [reflexivity|]. cbn [escape_percent].
  assert (Hne := split_on_nonempty slash s).
  destruct (Ascii.eqb x percent) eqn:Ep.
  - apply Ascii.eqb_eq in Ep. subst x. cbn [split_on]. replace (Ascii.eqb percent slash) with false by reflexivity.
    rewrite IH. destruct (split_on slash s) as [|h t]; [contradiction|]. cbn [map escape_percent].
    now rewrite Ascii.eqb_refl.
  - cbn [split_on]. destruct (Ascii.eqb x slash); [cbn [map escape_percent]; now rewrite IH|].
    rewrite IH. destruct (split_on slash s) as [|h t]; [contradiction|]. cbn [map escape_percent]. now rewrite Ep.
Qed.

Lemma clean_step_esc : forall r st comp,
  clean_step r (map esc st) (esc comp) = map esc (clean_step r st comp).
Proof.
  intros r st comp. unfold clean_step.
  change (@nil ascii) with (esc []) at 1. change [dot] with (esc [dot]) at 1. change [dot; dot] with (esc [dot; dot]) at 1.
  rewrite !str_eqb_esc.
  destruct (str_eqb comp [] || str_eqb comp [dot]); [reflexivity|].
  destruct (str_eqb comp [dot; dot]); [|reflexivity].
  destruct st as [|top rest]; [destruct r; reflexivity|]. cbn [map].
  replace (str_eqb (esc top) [dot; dot]) with (str_eqb top [dot; dot])
    by (symmetry; exact (str_eqb_esc top [dot; dot])).
  destruct (str_eqb top [dot; dot]); reflexivity.
Qed.

Lemma clean_fold_esc : forall r l st,
  fold_left (clean_step r) (map esc l) (map esc st) = map esc (fold_left (clean_step r) l st).
Proof.
  induction l as [|c l IH]; intros st; [reflexivity|]. cbn [map fold_left]. now rewrite clean_step_esc, IH.
Qed.

Lemma dirstr_esc : forall l, dirstr (map esc l) = esc (dirstr l).
Proof.
  induction l as [|c l IH]; [reflexivity|]. unfold dirstr in *. cbn [map List.concat].
  rewrite IH, !esc_app. reflexivity.
Qed.

Lemma clean_dir_esc : forall a, clean_dir (esc a) = esc (clean_dir a).
Proof.
  intros [|c0 a']; [reflexivity|].
  assert (Hhd : exists t, esc (c0 :: a') = (if Ascii.eqb c0 percent then percent else c0) :: t).
  { cbn [escape_percent]. destruct (Ascii.eqb c0 percent); eexists; reflexivity. }
  destruct Hhd as [t Ht].
  assert (Hr : Ascii.eqb (if Ascii.eqb c0 percent then percent else c0) slash = Ascii.eqb c0 slash).
  { destruct (Ascii.eqb_spec c0 percent) as [->|_]; reflexivity. }
  unfold clean_dir at 1. rewrite Ht, Hr, <- Ht.
  rewrite split_on_esc. change (@nil str) with (map esc []) at 1. rewrite clean_fold_esc, <- map_rev, dirstr_esc.
  unfold clean_dir. rewrite esc_app. destruct (Ascii.eqb c0 slash); reflexivity.
Qed.

(** fmt.Sprintf on an escaped text: every doubled percent sign is printed as one *)
Lemma sprintf_lits_esc : forall s, sprintf_lits (esc s) = Some s.
Proof.
  induction s as [|x s IH]; [reflexivity|]. cbn [escape_percent].
  destruct (Ascii.eqb x percent) eqn:Ep.
  - apply Ascii.eqb_eq in Ep. subst x. cbn [sprintf_lits]. rewrite Ascii.eqb_refl, IH. reflexivity.
  - cbn [sprintf_lits]. rewrite Ep, IH. reflexivity.
Qed.

Lemma sprintf_v_esc : forall a b id,
  sprintf_v (esc a ++ percent :: "v"%char :: esc b) id = Some (a ++ dec id ++ b).
Proof.
  induction a as [|x a IH]; intros b id.
  - cbn [escape_percent app sprintf_v]. rewrite Ascii.eqb_refl.
    replace (Ascii.eqb "v" percent) with false by reflexivity. rewrite Ascii.eqb_refl.
    rewrite sprintf_lits_esc. reflexivity.
  - cbn [escape_percent]. destruct (Ascii.eqb x percent) eqn:Ep.
    + apply Ascii.eqb_eq in Ep. subst x. cbn [app sprintf_v]. rewrite Ascii.eqb_refl, IH. reflexivity.
    + cbn [app sprintf_v]. rewrite Ep, IH. reflexivity.
Qed.

(** the decimal digits of an id contain no slash *)
Lemma string_of_uint_no_slash : forall d, ~ In slash (list_ascii_of_string (NilEmpty.string_of_uint d)).
Proof.
  induction d as [|d IH|d IH|d IH|d IH|d IH|d IH|d IH|d IH|d IH|d IH];
    cbn [NilEmpty.string_of_uint list_ascii_of_string In]; try tauto;
    intros [H|H]; try discriminate; now apply IH.
Qed.

Lemma dec_no_slash : forall id, ~ In slash (dec id).
Proof.
  intros id. unfold dec, s_.
  assert (U : forall d, ~ In slash (list_ascii_of_string (NilZero.string_of_uint d))).
  { intros d. unfold NilZero.string_of_uint.
    destruct d; try apply string_of_uint_no_slash. cbn. intros [H|[]]. discriminate. }
  destruct (Z.to_int id) as [d|d]; cbn [NilZero.string_of_int].
  - apply U.
  - cbn [list_ascii_of_string In]. intros [H|H]; [discriminate|]. now apply U in H.
Qed.

Lemma suffixed_file_elem_ok : forall n m e, ~ In slash n -> ~ In slash m -> ~ In slash e ->
  file_elem_ok (n ++ "_"%char :: m ++ e).
Proof.
  intros n m e Hn Hm He.
  assert (Hu : In "_"%char (n ++ "_"%char :: m ++ e)) by (apply in_or_app; right; now left).
  unfold file_elem_ok. split; [|split; [|split]].
  - intros E. now rewrite E in Hu.
  - intros Hin. apply in_app_or in Hin. destruct Hin as [Hin|[Hin|Hin]]; [now apply Hn|discriminate|].
    apply in_app_or in Hin. destruct Hin as [Hin|Hin]; [now apply Hm|now apply He].
  - intros E. rewrite E in Hu. cbn in Hu. intuition discriminate.
  - intros E. rewrite E in Hu. cbn in Hu. intuition discriminate.
Qed.

(** the format injectSuffixIntoPath returns, for EVERY path: the cleaned directory and the name, escaped, the verb, the
    escaped extension *)
Theorem inject_format_shape : forall p,
  inject_format p =
  esc (clean_dir (fst (path_split p)) ++ strip_ext (snd (path_split p)) ++ s_ "_") ++ s_ "%v" ++ esc (path_ext (snd (path_split p))).
Proof.
  intros p. unfold inject_format, inject_format_raw. rewrite path_split_esc.
  assert (Hns := path_split_file_no_slash p).
  destruct (path_split p) as [dir file]. cbn [fst snd] in *.
  rewrite path_ext_esc, strip_ext_esc.
  assert (Hn : ~ In slash (strip_ext file)).
  { intros H. apply Hns. rewrite <- (strip_ext_app file). apply in_or_app. now left. }
  assert (He : ~ In slash (path_ext file)).
  { intros H. apply Hns. rewrite <- (strip_ext_app file). apply in_or_app. now right. }
  change (s_ "_%v") with ("_"%char :: s_ "%v"). cbn [app].
  rewrite path_join_file.
  2:{ apply suffixed_file_elem_ok; [now rewrite In_esc| |now rewrite In_esc]. cbn. intuition discriminate. }
  rewrite clean_dir_esc. rewrite !esc_app. change (esc (s_ "_")) with (s_ "_"). cbn [s_ list_ascii_of_string app].
  now rewrite <- !app_assoc.
Qed.

(** ... and fmt.Sprintf of it with the id is the given path with _<id> inserted before the extension: the escaped path
    is ALWAYS inside the model of fmt.Sprintf, whatever characters the target path has *)
Theorem inject_spec : forall p id, inject p id = Some (target_path p id).
Proof.
  intros p id. unfold inject. rewrite inject_format_shape.
  change (s_ "%v") with [percent; "v"%char]. cbn [app].
  rewrite sprintf_v_esc. f_equal. unfold target_path.
  assert (Hns := path_split_file_no_slash p).
  destruct (path_split p) as [dir file]. cbn [fst snd] in *.
  assert (Hn : ~ In slash (strip_ext file)).
  { intros H. apply Hns. rewrite <- (strip_ext_app file). apply in_or_app. now left. }
  assert (He : ~ In slash (path_ext file)).
  { intros H. apply Hns. rewrite <- (strip_ext_app file). apply in_or_app. now right. }
  change (s_ "_") with ["_"%char]. cbn [app].
  rewrite path_join_file by (apply suffixed_file_elem_ok; [assumption|apply dec_no_slash|assumption]).
  now rewrite <- !app_assoc.
Qed.

Corollary inject_total : forall p id, inject p id <> None.
Proof. intros p id. rewrite inject_spec. discriminate. Qed.

(** before the repair (injectSuffixIntoPath without the escaping) a path was inside the model only without '%':
    any percent sign that is not the first of "%%" or of the one "%v" leaves it *)
Lemma sprintf_lits_no_verb : forall s, ~ In percent s -> sprintf_lits s = Some s.
Proof.
  induction s as [|x s IH]; intros H; [reflexivity|]. cbn [sprintf_lits].
  destruct (Ascii.eqb_spec x percent) as [->|_]; [exfalso; apply H; now left|].
  rewrite IH; [reflexivity|]. intros Hin; apply H; now right.
Qed.

(** ** 4b. target_path_spec *)

Theorem target_path_plain : forall rooted comps n e id,
  Forall comp_ok comps -> name_ok n e -> ext_ok e ->
  target_path (render_dir rooted comps ++ n ++ e) id = render_dir rooted comps ++ n ++ s_ "_" ++ dec id ++ e.
Proof.
  intros rooted comps n e id Hc Hn He.
  assert (Hns : ~ In slash (n ++ e)).
  { intros Hin. apply in_app_or in Hin. destruct Hin as [Hin|Hin].
    - destruct Hn as [Hn _]. now apply forall_safe_no_slash in Hin.
    - now apply ext_ok_no_slash in Hin. }
  assert (Hdir : render_dir rooted comps = [] \/ exists d', render_dir rooted comps = d' ++ [slash]).
  { unfold render_dir. destruct comps as [|c comps] using rev_ind.
    - destruct rooted; [right; exists []; reflexivity|now left].
    - right. rewrite map_app, concat_app. cbn [map List.concat]. rewrite app_nil_r.
      exists ((if rooted then [slash] else []) ++ List.concat (map (fun c0 => c0 ++ [slash]) comps) ++ c).
      now rewrite <- !app_assoc. }
  unfold target_path.
  rewrite path_split_spec by assumption.
  rewrite path_ext_spec, strip_ext_spec by assumption.
  change (s_ "_") with ["_"%char]. cbn [app].
  rewrite clean_join_spec; [reflexivity|assumption|].
  apply suffixed_file_elem_ok.
  - destruct Hn as [Hn _]. now apply forall_safe_no_slash.
  - apply dec_no_slash.
  - now apply ext_ok_no_slash.
Qed.

Theorem target_path_spec : forall rooted comps n e id,
  Forall comp_ok comps -> name_ok n e -> ext_ok e ->
  inject (render_dir rooted comps ++ n ++ e) id = Some (render_dir rooted comps ++ n ++ s_ "_" ++ dec id ++ e).
Proof. intros rooted comps n e id Hc Hn He. rewrite inject_spec. f_equal. now apply target_path_plain. Qed.

(** ** 5. Monadic plumbing *)

Lemma cmapM_Forall2 : forall A B (f : A -> cres B) l l',
  cmapM f l = COk l' <-> Forall2 (fun a b => f a = COk b) l l'.
Proof.
  induction l as [|a l IH]; intros l'; cbn [cmapM].
  - split; [intros H; injection H as <-; constructor|intros H; inversion H; reflexivity].
  - split.
    + intros H. destruct (f a) as [b|] eqn:E; [|discriminate]. cbn [cbind] in H.
      destruct (cmapM f l) as [bs|] eqn:E2; [|discriminate]. cbn [cbind] in H. injection H as <-.
      constructor; [exact E|]. now apply IH.
    + intros H. inversion H as [|? b ? bs Hab Hrest]; subst. rewrite Hab. cbn [cbind].
      apply IH in Hrest. rewrite Hrest. reflexivity.
Qed.

Lemma Forall2_compose : forall A B C (R : A -> B -> Prop) (S : B -> C -> Prop) (T : A -> C -> Prop) l1 l2 l3,
  (forall a b c, R a b -> S b c -> T a c) -> Forall2 R l1 l2 -> Forall2 S l2 l3 -> Forall2 T l1 l3.
Proof.
  intros A B C R S T l1 l2 l3 H H1; revert l3. induction H1; intros l3 H2; inversion H2; subst; constructor; eauto.
Qed.

Lemma Forall2_in_l : forall A B (R : A -> B -> Prop) l l' x, Forall2 R l l' -> In x l -> exists y, In y l' /\ R x y.
Proof.
  intros A B R l l' x H; induction H as [|a b l l' Hab _ IH]; intros Hin; [destruct Hin|].
  destruct Hin as [->|Hin]; [exists b; split; [now left|assumption]|].
  destruct (IH Hin) as [y [Hy Hr]]. exists y. split; [now right|assumption].
Qed.

Lemma Forall2_refl_on : forall A (R : A -> A -> Prop) l, (forall a, R a a) -> Forall2 R l l.
Proof. induction l; constructor; auto. Qed.

(** ** 6. The run is the composition, file by file *)
Section Composition.
  Variable sfeat : Type.
  Variable snapfun : Type.
  Variable snap : snapcfg -> snapfun.
  Variable pipeline : snapfun -> list Z -> list sfeat -> option (list (Z * feature)).

  Local Notation source := (source sfeat).
  Local Notation args := (args sfeat).
  Local Notation cli_run := (cli_run sfeat snapfun snap pipeline).
  Local Notation run_table := (run_table sfeat snapfun snap pipeline).
  Local Notation table_into := (table_into sfeat snapfun snap pipeline).
  Local Notation file_content := (file_content sfeat snapfun snap pipeline).

  Definition same_target (t t' : target) : Prop := fst (fst t) = fst (fst t') /\ snd (fst t) = snd (fst t').

  (** loop interchange: tables outside / targets inside  =  every target through all tables *)
  Lemma run_tables_per_target : forall fl ids src tgts tgts',
    cfoldM (run_table fl ids) src tgts = COk tgts' ->
    Forall2 (fun t t' : target => same_target t t' /\
               cfoldM (table_into fl ids (fst (fst t))) src (snd t) = COk (snd t')) tgts tgts'.
  Proof.
    intros fl ids src; induction src as [|tf src IH]; intros tgts tgts' H; cbn [cfoldM] in H.
    - injection H as <-. apply Forall2_refl_on. intros [[id path] d]. split; [split; reflexivity|reflexivity].
    - destruct (run_table fl ids tgts tf) as [tgts1|] eqn:E; [|discriminate]. cbn [cbind] in H.
      apply IH in H. unfold Cli.Model.run_table in E.
      destruct (pipeline (snap (snap_config_of fl)) ids (snd tf)) as [msgs|] eqn:Ep; [|discriminate].
      apply cmapM_Forall2 in E.
      eapply Forall2_compose; [|exact E|exact H].
      intros [[id path] d] [[id1 path1] d1] [[id2 path2] d2] H1 [[H2a H2b] H2c]. cbn in *.
      destruct (lift (write_features (fl_pagesize fl) (fst tf) d (route id msgs))) as [d'|] eqn:Ew; [|discriminate].
      cbn [cbind] in H1. injection H1 as <- <- <-. cbn in *. subst.
      split; [split; reflexivity|]. unfold Cli.Model.table_into at 1. rewrite Ep, Ew. cbn [cbind]. exact H2c.
  Qed.

  (** *** file system *)
  Lemma fs_lookup_remove_same : forall p fs, fs_lookup p (fs_remove p fs) = None.
  Proof.
    induction fs as [|[q d] fs IH]; cbn; [reflexivity|].
    destruct (str_eqb q p) eqn:E; [exact IH|]. cbn. now rewrite E.
  Qed.

  Lemma fs_lookup_remove_other : forall p q fs, q <> p -> fs_lookup q (fs_remove p fs) = fs_lookup q fs.
  Proof.
    induction fs as [|[r d] fs IH]; intros H; cbn; [reflexivity|].
    destruct (str_eqb r p) eqn:E.
    - apply str_eqb_eq in E. subst r. rewrite IH by assumption.
      assert (F : str_eqb p q = false) by (apply str_eqb_neq; congruence). now rewrite F.
    - cbn. destruct (str_eqb r q); [reflexivity|now apply IH].
  Qed.

  Lemma fs_lookup_write_same : forall p d fs, fs_lookup p (fs_write p d fs) = Some d.
  Proof. intros; unfold fs_write; cbn. now rewrite str_eqb_refl. Qed.

  Lemma fs_lookup_write_other : forall p q d fs, q <> p -> fs_lookup q (fs_write p d fs) = fs_lookup q fs.
  Proof.
    intros p q d fs H. unfold fs_write; cbn.
    assert (F : str_eqb p q = false) by (apply str_eqb_neq; congruence). rewrite F.
    now apply fs_lookup_remove_other.
  Qed.

  Definition tpath_of (t : target) : str := snd (fst t).

  Lemma write_back_other : forall tgts fs q, ~ In q (map tpath_of tgts) ->
    fs_lookup q (write_back fs tgts) = fs_lookup q fs.
  Proof.
    induction tgts as [|[[id path] d] tgts IH]; intros fs q H; [reflexivity|].
    cbn [write_back fold_left]. fold (write_back (fs_write path d fs) tgts).
    rewrite IH by (intros Hin; apply H; now right).
    apply fs_lookup_write_other. intros ->. apply H. now left.
  Qed.

  Lemma write_back_lookup : forall tgts fs id path d, NoDup (map tpath_of tgts) -> In (id, path, d) tgts ->
    fs_lookup path (write_back fs tgts) = Some d.
  Proof.
    induction tgts as [|[[id0 path0] d0] tgts IH]; intros fs id path d Hnd Hin; [destruct Hin|].
    cbn [map] in Hnd. inversion Hnd as [|? ? Hnotin Hnd']; subst.
    cbn [write_back fold_left]. fold (write_back (fs_write path0 d0 fs) tgts).
    destruct Hin as [E|Hin].
    - injection E as -> -> ->. rewrite write_back_other by exact Hnotin. apply fs_lookup_write_same.
    - now apply (IH _ id).
  Qed.

  (** the last write to a path decides: independent of what the file system held before *)
  Lemma write_back_target_indep : forall tgts fs fs' q, In q (map tpath_of tgts) ->
    fs_lookup q (write_back fs tgts) = fs_lookup q (write_back fs' tgts).
  Proof.
    induction tgts as [|[[id path] d] tgts IH]; intros fs fs' q H; [destruct H|].
    cbn [write_back fold_left]. fold (write_back (fs_write path d fs) tgts) (write_back (fs_write path d fs') tgts).
    destruct (in_dec (list_eq_dec ascii_dec) q (map tpath_of tgts)) as [Hin|Hnot].
    - now apply IH.
    - rewrite !write_back_other by exact Hnot. destruct H as [H|H]; [|contradiction].
      cbn in H. subst q. now rewrite !fs_lookup_write_same.
  Qed.

  (** *** the id list and its distinct ids *)
  Lemma memz_In : forall x l, memz x l = true <-> In x l.
  Proof.
    induction l as [|y l IH]; cbn; [split; [discriminate|intros []]|].
    rewrite orb_true_iff, IH, Z.eqb_eq. tauto.
  Qed.

  Lemma distinct_ids_In : forall l x, In x (distinct_ids l) <-> In x l.
  Proof.
    induction l as [|y l IH]; intros x; cbn; [tauto|].
    destruct (memz y l) eqn:E.
    - rewrite IH. split; [now right|]. intros [<-|H]; [now apply memz_In|exact H].
    - cbn. now rewrite IH.
  Qed.

  Lemma distinct_ids_NoDup : forall l, NoDup (distinct_ids l).
  Proof.
    induction l as [|y l IH]; cbn; [constructor|].
    destruct (memz y l) eqn:E; [exact IH|]. constructor; [|exact IH].
    rewrite distinct_ids_In, <- memz_In. now rewrite E.
  Qed.

  Lemma distinct_ids_id : forall l, NoDup l -> distinct_ids l = l.
  Proof.
    induction l as [|y l IH]; intros H; [reflexivity|]. inversion H as [|? ? Hnotin Hnd]; subst. cbn.
    destruct (memz y l) eqn:E; [now apply memz_In in E|]. now rewrite IH.
  Qed.

  Lemma distinct_ids_idem : forall l, distinct_ids (distinct_ids l) = distinct_ids l.
  Proof. intros. apply distinct_ids_id, distinct_ids_NoDup. Qed.

  Lemma NoDup_map_inj_on : forall A B (f : A -> B) l,
    NoDup l -> (forall x y, In x l -> In y l -> f x = f y -> x = y) -> NoDup (map f l).
  Proof.
    induction l as [|a l IH]; intros Hnd Hinj; [constructor|].
    inversion Hnd as [|? ? Hnotin Hnd']; subst. cbn [map]. constructor.
    - intros Hin. apply in_map_iff in Hin. destruct Hin as [b [Hb Hin]].
      apply Hnotin. rewrite <- (Hinj b a); auto using in_eq, in_cons.
    - apply IH; auto. intros x y Hx Hy. apply Hinj; now right.
  Qed.

  (** *** opening the targets *)
  Definition tpath (tgt : str) (id : Z) : str := match inject tgt id with Some p => p | None => [] end.

  Lemma init_targets_spec : forall fl tgt ids fs acc fs1 tgts,
    NoDup ids ->
    cfoldM (init_target fl tgt) ids (fs, acc) = COk (fs1, tgts) ->
    (forall id, In id ids -> inject tgt id <> None) /\
    tgts = acc ++ map (fun id => (id, tpath tgt id, start_content fl fs (tpath tgt id))) ids /\
    (forall q, ~ In q (map (tpath tgt) ids) -> fs_lookup q fs1 = fs_lookup q fs).
  Proof.
    intros fl tgt; induction ids as [|id ids IH]; intros fs acc fs1 tgts Hnd H; cbn [cfoldM] in H.
    - injection H as <- <-. split; [intros ? []|]. split; [cbn [map]; now rewrite app_nil_r|]. reflexivity.
    - inversion Hnd as [|? ? Hnotin Hnd']; subst. unfold init_target at 1 in H.
      destruct (inject tgt id) as [path|] eqn:Ei; [|discriminate]. cbn [cbind] in H.
      apply IH in H; [|assumption]. destruct H as [Hall [Ht Hq]].
      assert (Hp : tpath tgt id = path) by (unfold tpath; now rewrite Ei).
      split; [|split].
      + intros id' [<-|Hin]; [congruence|now apply Hall].
      + rewrite Ht, <- app_assoc. cbn [app map]. f_equal. rewrite Hp. f_equal.
        * f_equal. unfold start_content. destruct (fl_overwrite fl).
          -- now rewrite fs_lookup_remove_same.
          -- reflexivity.
        * apply map_ext_in. intros id' Hin. f_equal.
          assert (Hne : tpath tgt id' <> path).
          { unfold tpath. destruct (inject tgt id') as [p'|] eqn:E'; [|now apply Hall in Hin].
            intros ->. apply Hnotin. now rewrite (target_paths_distinct _ _ _ _ Ei E'). }
          unfold start_content. destruct (fl_overwrite fl); [reflexivity|].
          rewrite fs_lookup_write_other by exact Hne. reflexivity.
      + intros q Hnot. rewrite Hq by (intros Hin; apply Hnot; now right).
        assert (Hne : q <> path) by (intros ->; apply Hnot; left; exact Hp).
        rewrite fs_lookup_write_other by exact Hne.
        destruct (fl_overwrite fl); [now apply fs_lookup_remove_other|reflexivity].
  Qed.

  Lemma tpath_inj_on : forall tgt ids, (forall id, In id ids -> inject tgt id <> None) ->
    forall x y, In x ids -> In y ids -> tpath tgt x = tpath tgt y -> x = y.
  Proof.
    intros tgt ids Hall x y Hx Hy H. unfold tpath in H.
    destruct (inject tgt x) as [px|] eqn:Ex; [|now apply Hall in Hx].
    destruct (inject tgt y) as [py|] eqn:Ey; [|now apply Hall in Hy].
    subst py. eapply target_paths_distinct; eauto.
  Qed.

  Lemma targets_compose : forall fl src ids_all fs0 tgt (l : list Z) tgts1 tgts2,
    Forall2 (fun a b : target => create_in (map fst src) a = COk b)
            (map (fun id => (id, tpath tgt id, start_content fl fs0 (tpath tgt id))) l) tgts1 ->
    Forall2 (fun t t' : target => same_target t t' /\
               cfoldM (table_into fl ids_all (fst (fst t))) src (snd t) = COk (snd t')) tgts1 tgts2 ->
    Forall2 (fun id (t2 : target) => t2 = (id, tpath tgt id, snd t2) /\
               file_content fl src ids_all id (start_content fl fs0 (tpath tgt id)) = COk (snd t2)) l tgts2.
  Proof.
    intros fl src ids_all fs0 tgt; induction l as [|id l IH]; intros tgts1 tgts2 Ec Er.
    - inversion Ec; subst. inversion Er; subst. constructor.
    - cbn [map] in Ec. inversion Ec as [|? t1 ? l1 Hc1 Hcr]; subst. inversion Er as [|? t2 ? l2 Hr1 Hrr]; subst.
      constructor; [|now apply (IH l1)].
      unfold create_in in Hc1.
      destruct (lift (create_tables (start_content fl fs0 (tpath tgt id)) (map fst src))) as [d1|] eqn:Ed1; [|discriminate].
      cbn [cbind] in Hc1. injection Hc1 as <-. destruct Hr1 as [[Hs1 Hs2] Hr1]. cbn in Hs1, Hs2, Hr1.
      destruct t2 as [[id2 path2] d2]. cbn in *. subst. split; [reflexivity|].
      unfold Cli.Model.file_content. rewrite Ed1. cbn [cbind]. exact Hr1.
  Qed.

  (** *** cli_composition *)
  Theorem cli_composition : forall (a : args) src fs0 fs',
    a_source a = Some src ->
    cli_run a fs0 = COk fs' ->
    (forall id, In id (a_ids a) -> exists path d,
        inject (a_target a) id = Some path /\
        file_content (a_flags a) src (distinct_ids (a_ids a)) id (start_content (a_flags a) fs0 path) = COk d /\
        fs_lookup path fs' = Some d) /\
    (forall q, (forall id, In id (a_ids a) -> inject (a_target a) id <> Some q) -> fs_lookup q fs' = fs_lookup q fs0).
  Proof.
    intros a src fs0 fs' Hsrc H. unfold Cli.Model.cli_run in H. rewrite Hsrc in H.
    destruct (a_tms_ok a); [|discriminate]. cbn [negb] in H.
    cbv zeta in H.
    assert (End := distinct_ids_NoDup (a_ids a)). assert (HIn := distinct_ids_In (a_ids a)).
    remember (distinct_ids (a_ids a)) as ids eqn:Eids. clear Eids.
    destruct (cfoldM (init_target (a_flags a) (a_target a)) ids (fs0, [])) as [[fs1 tgts0]|] eqn:Ei; [|discriminate].
    cbn [cbind] in H.
    destruct (init_targets_spec _ _ _ _ _ _ _ End Ei) as [Hall [Ht0 Hq]]. cbn [app] in Ht0.
    destruct (cmapM (create_in (map fst src)) tgts0) as [tgts1|] eqn:Ec; [|discriminate]. cbn [cbind] in H.
    destruct (cfoldM (run_table (a_flags a) ids) src tgts1) as [tgts2|] eqn:Er; [|discriminate]. cbn [cbind] in H.
    injection H as <-.
    apply cmapM_Forall2 in Ec. apply run_tables_per_target in Er.
    (* every final target: same id and path as opened, content = the per-file composition *)
    assert (HF := targets_compose (a_flags a) src ids fs0 (a_target a) ids tgts1 tgts2).
    subst tgts0. specialize (HF Ec Er).
    assert (Hpaths : map tpath_of tgts2 = map (tpath (a_target a)) ids).
    { clear - HF. induction HF as [|id t2 l l2 [Ht _] _ IH]; [reflexivity|]. cbn [map]. rewrite IH. f_equal. now rewrite Ht. }
    split.
    - intros id Hin. apply HIn in Hin.
      destruct (inject (a_target a) id) as [path|] eqn:Einj; [|now apply Hall in Hin].
      assert (Hp : tpath (a_target a) id = path) by (unfold tpath; now rewrite Einj).
      assert (Hex : exists t2, In t2 tgts2 /\ t2 = (id, path, snd t2) /\
                 file_content (a_flags a) src ids id (start_content (a_flags a) fs0 path) = COk (snd t2)).
      { destruct (Forall2_in_l _ _ _ _ _ id HF Hin) as [t2 [Hin2 [Ht Hc]]]. rewrite Hp in *. eauto. }
      destruct Hex as [t2 [Hin2 [Ht2 Hc2]]]. exists path, (snd t2). split; [reflexivity|]. split; [exact Hc2|].
      apply (write_back_lookup tgts2 fs1 id).
      + rewrite Hpaths. apply NoDup_map_inj_on; [exact End|]. now apply tpath_inj_on.
      + now rewrite <- Ht2.
    - intros q Hnot.
      assert (Hq' : ~ In q (map (tpath (a_target a)) ids)).
      { intros Hin. apply in_map_iff in Hin. destruct Hin as [id [Hid Hin]]. apply (Hnot id (proj1 (HIn id) Hin)).
        unfold tpath in Hid. destruct (inject (a_target a) id) eqn:E; [congruence|exfalso; exact (Hall id Hin E)]. }
      rewrite write_back_other by (now rewrite Hpaths). now apply Hq.
  Qed.

  (** a list that names an id more than once is the run on its distinct ids: one target (one file) per distinct id *)
  Theorem duplicate_ids_one_file_each : forall (a : args) fs0,
    NoDup (distinct_ids (a_ids a)) /\
    (forall id, In id (distinct_ids (a_ids a)) <-> In id (a_ids a)) /\
    cli_run a fs0 = cli_run (MkArgs (a_tms_ok a) (a_source a) (a_target a) (distinct_ids (a_ids a)) (a_flags a)) fs0.
  Proof.
    intros a fs0. split; [apply distinct_ids_NoDup|]. split; [apply distinct_ids_In|].
    unfold Cli.Model.cli_run. cbn [a_tms_ok a_source a_target a_ids a_flags]. now rewrite distinct_ids_idem.
  Qed.

  (** *** overwrite_forgets: with -overwrite the target files do not depend on what was there *)
  Lemma init_targets_overwrite : forall fl tgt ids fs fs' acc fs1 tgts,
    fl_overwrite fl = true ->
    cfoldM (init_target fl tgt) ids (fs, acc) = COk (fs1, tgts) ->
    exists fs1', cfoldM (init_target fl tgt) ids (fs', acc) = COk (fs1', tgts).
  Proof.
    intros fl tgt; induction ids as [|id ids IH]; intros fs fs' acc fs1 tgts Ho H; cbn [cfoldM] in *.
    - injection H as <- <-. eauto.
    - unfold init_target at 1 in H. unfold init_target at 1.
      destruct (inject tgt id) as [path|]; [|discriminate]. cbn [cbind] in *.
      rewrite Ho in *. rewrite fs_lookup_remove_same in *. eapply IH; eauto.
  Qed.

  Lemma overwrite_success : forall (a : args) fs0 fs0' fs1,
    fl_overwrite (a_flags a) = true -> cli_run a fs0 = COk fs1 -> exists fs1', cli_run a fs0' = COk fs1'.
  Proof.
    intros a fs0 fs0' fs1 Ho H. unfold Cli.Model.cli_run in *.
    destruct (a_tms_ok a); [|discriminate]. cbn [negb] in *.
    destruct (a_source a) as [src|]; [|discriminate].
    cbv zeta in *.
    destruct (cfoldM (init_target (a_flags a) (a_target a)) (distinct_ids (a_ids a)) (fs0, [])) as [[fsa tgts0]|] eqn:Ei; [|discriminate].
    cbn [cbind] in H.
    destruct (init_targets_overwrite _ _ _ _ fs0' _ _ _ Ho Ei) as [fsb Ei']. rewrite Ei'. cbn [cbind].
    destruct (cmapM (create_in (map fst src)) tgts0) as [tgts1|]; [|discriminate]. cbn [cbind] in *.
    destruct (cfoldM (run_table (a_flags a) (distinct_ids (a_ids a))) src tgts1) as [tgts2|]; [|discriminate]. cbn [cbind] in *.
    eauto.
  Qed.

  Theorem overwrite_forgets : forall (a : args) fs0 fs0' fs1,
    fl_overwrite (a_flags a) = true ->
    cli_run a fs0 = COk fs1 ->
    exists fs1', cli_run a fs0' = COk fs1' /\
      forall id path, In id (a_ids a) -> inject (a_target a) id = Some path ->
        fs_lookup path fs1 = fs_lookup path fs1' /\ fs_lookup path fs1 <> None.
  Proof.
    intros a fs0 fs0' fs1 Ho H.
    destruct (overwrite_success a fs0 fs0' fs1 Ho H) as [fs1' H']. exists fs1'. split; [exact H'|].
    intros id path Hin Hinj.
    assert (Hsrc : exists src, a_source a = Some src).
    { unfold Cli.Model.cli_run in H. destruct (a_tms_ok a); [|discriminate]. destruct (a_source a); [eauto|discriminate]. }
    destruct Hsrc as [src Hsrc].
    destruct (cli_composition a src fs0 fs1 Hsrc H) as [Hc _].
    destruct (cli_composition a src fs0' fs1' Hsrc H') as [Hc' _].
    destruct (Hc id Hin) as [p1 [d1 [Hp1 [Hf1 Hl1]]]]. destruct (Hc' id Hin) as [p2 [d2 [Hp2 [Hf2 Hl2]]]].
    rewrite Hinj in Hp1, Hp2. injection Hp1 as <-. injection Hp2 as <-.
    unfold start_content in Hf1, Hf2. rewrite Ho in Hf1, Hf2. rewrite Hf1 in Hf2. injection Hf2 as <-.
    rewrite Hl1, Hl2. split; [reflexivity|discriminate].
  Qed.

  (** *** no run ends because of the characters of the target path (F21) *)
  Lemma lift_not_unsafe : forall A (r : res A), lift r <> CErr UnsafePath.
  Proof. intros A [a|e]; discriminate. Qed.

  Lemma cbind_not_unsafe : forall A B (r : cres A) (f : A -> cres B),
    r <> CErr UnsafePath -> (forall a, f a <> CErr UnsafePath) -> cbind r f <> CErr UnsafePath.
  Proof.
    intros A B [a|e] f Hr Hf; cbn [cbind]; [apply Hf|].
    intros H. apply Hr. injection H as ->. reflexivity.
  Qed.

  Lemma cmapM_not_unsafe : forall A B (f : A -> cres B) l,
    (forall a, f a <> CErr UnsafePath) -> cmapM f l <> CErr UnsafePath.
  Proof.
    intros A B f l Hf. induction l as [|a l IH]; cbn [cmapM]; [discriminate|].
    apply cbind_not_unsafe; [apply Hf|]. intros b. apply cbind_not_unsafe; [exact IH|discriminate].
  Qed.

  Lemma cfoldM_not_unsafe : forall A S (f : S -> A -> cres S) l s,
    (forall s a, f s a <> CErr UnsafePath) -> cfoldM f l s <> CErr UnsafePath.
  Proof.
    intros A S f l. induction l as [|a l IH]; intros s Hf; cbn [cfoldM]; [discriminate|].
    apply cbind_not_unsafe; [apply Hf|]. intros s'. now apply IH.
  Qed.

  Theorem cli_run_never_unsafe_path : forall (a : args) fs0, cli_run a fs0 <> CErr UnsafePath.
  Proof.
    intros a fs0. unfold Cli.Model.cli_run.
    destruct (a_tms_ok a); cbn [negb]; [|discriminate].
    destruct (a_source a) as [src|]; [|discriminate].
    apply cbind_not_unsafe.
    - apply cfoldM_not_unsafe. intros [fs acc] id. unfold init_target. rewrite inject_spec. discriminate.
    - intros [fs1 tgts0]. apply cbind_not_unsafe.
      + apply cmapM_not_unsafe. intros [[id path] d]. unfold create_in.
        apply cbind_not_unsafe; [apply lift_not_unsafe|discriminate].
      + intros tgts1. apply cbind_not_unsafe; [|discriminate].
        apply cfoldM_not_unsafe. intros tgts tf. unfold Cli.Model.run_table.
        destruct (pipeline (snap (snap_config_of (a_flags a))) (distinct_ids (a_ids a)) (snd tf)); [|discriminate].
        apply cmapM_not_unsafe. intros [[id path] d].
        apply cbind_not_unsafe; [apply lift_not_unsafe|discriminate].
  Qed.
End Composition.

(** ** 7. Small facts used by Properties/C13.v *)
Lemma flag_plumbing : forall o p k i r,
  snap_config_of (MkFlags o p k i r) = MkSnapCfg k i r.
Proof. reflexivity. Qed.

Lemma validation_gate : forall sfeat snapfun snap pipeline (a : args sfeat) fs,
  a_tms_ok a = false -> cli_run sfeat snapfun snap pipeline a fs = CErr InvalidTms.
Proof. intros. unfold cli_run. now rewrite H. Qed.
